(* C04 -- proofs about Model/Frame.v: the `window` transform's argument handling, the bound sign rule,
   and soundness of the emitted (possibly elided) frame clause w.r.t. the documented segment. *)
From Coq Require Import List ZArith QArith NArith Bool Lia Arith.
From PV Require Import Lib.ListX Model.Rel Model.Window Model.Frame.
Import ListNotations.
Local Open Scope Z_scope.

(* ---------------------------------------------------------------- the window transform *)
Lemma default_not_rejected : rejected_range default_rows = false /\ rejected_range default_range = false.
Proof. split; reflexivity. Qed.

Lemma rejected_range_spec r : rejected_range r = true <-> range_is_empty r = true /\ r <> not_given.
Proof.
  unfold rejected_range. rewrite andb_true_iff, negb_true_iff. split; intros [E N]; (split; [exact E|]).
  - intros ->. discriminate.
  - destruct (bounds_eqb r not_given) eqn:B; [|reflexivity]. exfalso. apply N.
    destruct r as [[a|] [b|]]; cbn in B; try discriminate.
    apply andb_true_iff in B as [B1 B2]. apply Z.eqb_eq in B1, B2. subst. reflexivity.
Qed.

Lemma nonempty_not_rejected r : range_is_empty r = false -> rejected_range r = false.
Proof. intro H. unfold rejected_range. rewrite H. reflexivity. Qed.

Lemma rolling_is_rows n : 0 < n -> frame_of (args_rolling n) = frame_of (args_rows (Some (1 - n)) (Some 0)).
Proof.
  intro H. unfold frame_of, args_rolling, args_rows. cbn [w_rows w_range w_expanding w_rolling default_expanding default_rolling].
  assert (E2 : (0 <? 1 - n) = false) by (apply Z.ltb_ge; lia).
  assert (R : rejected_range (Some (1 - n), Some 0) = false) by (apply nonempty_not_rejected; cbn [range_is_empty]; exact E2).
  rewrite R. destruct default_not_rejected as [D1 D2]. rewrite D1, D2.
  unfold frame_chain. assert (E1 : (0 <? n) = true) by (apply Z.ltb_lt; lia). rewrite E1.
  cbn [range_is_empty Z.ltb Z.compare]. rewrite E2.
  cbn [negb fst snd]. replace (- n + 1) with (1 - n) by lia. reflexivity.
Qed.

Lemma rolling_nonpositive_ignored n : n <= 0 -> frame_of (args_rolling n) = frame_of no_args.
Proof.
  intro H. unfold frame_of, args_rolling, no_args. cbn [w_rows w_range w_expanding w_rolling default_expanding default_rolling].
  destruct default_not_rejected as [D1 D2]. rewrite D1, D2. unfold frame_chain.
  assert (E1 : (0 <? n) = false) by (apply Z.ltb_ge; lia). rewrite E1. reflexivity.
Qed.

Lemma expanding_is_rows : frame_of args_expanding = frame_of (args_rows None (Some 0)).
Proof. reflexivity. Qed.

Lemma no_window_args_whole_partition : frame_of no_args = WFrame no_window.
Proof. reflexivity. Qed.

Lemma rows_nonempty a b : range_is_empty (a, b) = false -> frame_of (args_rows a b) = WFrame (KRows, a, b).
Proof.
  intro H. unfold frame_of, args_rows. cbn [w_rows w_range w_expanding w_rolling].
  rewrite (nonempty_not_rejected _ H). destruct default_not_rejected as [_ D2]. rewrite D2.
  unfold frame_chain, default_expanding, default_rolling. rewrite H. reflexivity.
Qed.

Lemma range_nonempty a b : range_is_empty (a, b) = false -> frame_of (args_range a b) = WFrame (KRange, a, b).
Proof.
  intro H. unfold frame_of, args_range. cbn [w_rows w_range w_expanding w_rolling].
  rewrite (nonempty_not_rejected _ H). destruct default_not_rejected as [D1 _]. rewrite D1.
  unfold frame_chain, default_expanding, default_rolling. rewrite H. reflexivity.
Qed.

(* /repo 7b31f75: a rows/range argument whose start is after its end is a compile error -- unless it is spelled
   like the default 0..-1 *)
Lemma empty_range_rejected a b : range_is_empty (a, b) = true -> (a, b) <> not_given ->
  frame_of (args_rows a b) = WEmptyRange ARows /\ frame_of (args_range a b) = WEmptyRange ARange.
Proof.
  intros H N. assert (R : rejected_range (a, b) = true) by (apply rejected_range_spec; split; assumption).
  split.
  - unfold frame_of, args_rows. cbn [w_rows w_range w_expanding w_rolling]. rewrite R. reflexivity.
  - unfold frame_of, args_range. cbn [w_rows w_range w_expanding w_rolling]. rewrite R.
    destruct default_not_rejected as [D1 _]. rewrite D1. reflexivity.
Qed.

(* the error does not depend on the other arguments: it is raised before expanding / rolling are consulted *)
Lemma frame_of_rejects_iff (a : wargs) :
  (exists x, frame_of a = WEmptyRange x) <->
  rejected_range (match w_rows a with Some r => r | None => default_rows end) = true \/
  rejected_range (match w_range a with Some r => r | None => default_range end) = true.
Proof.
  unfold frame_of.
  destruct (rejected_range (match w_rows a with Some r => r | None => default_rows end)) eqn:R1.
  - split; [intros _; left; reflexivity | intros _; exists ARows; reflexivity].
  - destruct (rejected_range (match w_range a with Some r => r | None => default_range end)) eqn:R2.
    + split; [intros _; right; reflexivity | intros _; exists ARange; reflexivity].
    + split; [intros [x Hx]; discriminate | intros [H|H]; discriminate].
Qed.

(* whatever is accepted: written as given -- except for the spelling 0..-1 (the std.prql default), which
   cannot be told from "argument not given" *)
Lemma rows_as_written_partial a b f : (a, b) <> not_given -> frame_of (args_rows a b) = WFrame f -> f = (KRows, a, b).
Proof.
  intros N H. destruct (range_is_empty (a, b)) eqn:E.
  - destruct (empty_range_rejected a b E N) as [R _]. rewrite R in H. discriminate.
  - rewrite (rows_nonempty a b E) in H. injection H as <-. reflexivity.
Qed.

Lemma range_as_written_partial a b f : (a, b) <> not_given -> frame_of (args_range a b) = WFrame f -> f = (KRange, a, b).
Proof.
  intros N H. destruct (range_is_empty (a, b)) eqn:E.
  - destruct (empty_range_rejected a b E N) as [_ R]. rewrite R in H. discriminate.
  - rewrite (range_nonempty a b E) in H. injection H as <-. reflexivity.
Qed.

Lemma explicit_default_is_whole_partition :
  frame_of (args_rows (Some 0) (Some (-1))) = WFrame no_window /\ frame_of (args_range (Some 0) (Some (-1))) = WFrame no_window.
Proof. split; reflexivity. Qed.

(* ---------------------------------------------------------------- bound signs *)
Definition bound_offset (b : sbound) : option Z :=
  match b with SPreceding (Some k) => Some (- k) | SCurrentRow => Some 0 | SFollowing (Some k) => Some k | _ => None end.

Lemma parse_bound_cases z :
  (z = 0 /\ parse_bound z = SCurrentRow) \/ (1 <= z /\ parse_bound z = SFollowing (Some z)) \/ (z < 0 /\ parse_bound z = SPreceding (Some (- z))).
Proof.
  unfold parse_bound. destruct (z =? 0) eqn:E0.
  - left. apply Z.eqb_eq in E0. auto.
  - apply Z.eqb_neq in E0. destruct (1 <=? z) eqn:E1.
    + right; left. apply Z.leb_le in E1. auto.
    + right; right. apply Z.leb_gt in E1. split; [lia | do 2 f_equal; lia].
Qed.

(* /repo 222f71a: on the i64 domain the arithmetic of the two mirrors never leaves the machine types --
   `-rolling + 1` is only evaluated for rolling > 0, and the PRECEDING distance is `unsigned_abs` (u64) *)
Definition i64_min : Z := - 2 ^ 63.
Definition i64_max : Z := 2 ^ 63 - 1.
Definition u64_max : Z := 2 ^ 64 - 1.
Definition in_i64 (z : Z) : Prop := i64_min <= z <= i64_max.
Definition bound_distance (b : sbound) : Z := match b with SPreceding (Some k) | SFollowing (Some k) => k | _ => 0 end.

Lemma frame_arith_in_range :
  (forall rolling, in_i64 rolling -> 0 < rolling -> in_i64 (- rolling) /\ in_i64 (- rolling + 1)) /\
  (forall z, in_i64 z -> 0 <= bound_distance (parse_bound z) <= u64_max /\ (i64_min < z -> in_i64 (bound_distance (parse_bound z)))).
Proof.
  unfold in_i64, i64_min, i64_max, u64_max.
  assert (P63 : 2 ^ 63 = 9223372036854775808) by reflexivity.
  assert (P64 : 2 ^ 64 = 18446744073709551616) by reflexivity.
  rewrite P63, P64. split.
  - intros r H H0. lia.
  - intros z H. destruct (parse_bound_cases z) as [[Hz E] | [[Hz E] | [Hz E]]]; rewrite E; cbn [bound_distance]; lia.
Qed.


(* negative = PRECEDING, 0 = CURRENT ROW, positive = FOLLOWING; the offset is kept and is non-negative *)
Lemma bound_sign z :
  bound_offset (parse_bound z) = Some z /\ bound_ok (parse_bound z) = true /\
  (z < 0 -> exists k, parse_bound z = SPreceding (Some k) /\ k = - z) /\
  (z = 0 -> parse_bound z = SCurrentRow) /\
  (0 < z -> parse_bound z = SFollowing (Some z)).
Proof.
  destruct (parse_bound_cases z) as [[H E] | [[H E] | [H E]]]; rewrite E; cbn [bound_offset bound_ok].
  - subst. split; [reflexivity|]. split; [reflexivity|]. split; [intro; lia|]. split; [reflexivity|]. intro; lia.
  - split; [reflexivity|]. split; [apply Z.leb_le; lia|]. split; [intro; lia|]. split; [intro; lia|]. intros _; reflexivity.
  - split; [f_equal; lia|]. split; [apply Z.leb_le; lia|]. split; [intros _; exists (- z); auto|]. split; [intro; lia|]. intro; lia.
Qed.

Lemma rows_from_parse i j z : rows_from i j (parse_bound z) = (i + z <=? j).
Proof.
  destruct (parse_bound_cases z) as [[H E] | [[H E] | [H E]]]; rewrite E; cbn [rows_from].
  - subst. rewrite Z.add_0_r. reflexivity.
  - reflexivity.
  - f_equal. lia.
Qed.

Lemma rows_to_parse i j z : rows_to i j (parse_bound z) = (j <=? i + z).
Proof.
  destruct (parse_bound_cases z) as [[H E] | [[H E] | [H E]]]; rewrite E; cbn [rows_to].
  - subst. rewrite Z.add_0_r. reflexivity.
  - reflexivity.
  - f_equal. lia.
Qed.

(* the frames the code emits are frames SQL accepts *)
Lemma emitted_frame_legal k a b :
  (forall x y, a = Some x -> b = Some y -> x <= y) -> sframe_ok (to_sframe (k, a, b)) = true.
Proof.
  intro H. unfold sframe_ok, to_sframe. cbn [f_start f_end].
  assert (Ba : bound_ok (start_bound a) = true) by (destruct a as [x|]; [apply bound_sign | reflexivity]).
  assert (Bb : bound_ok (end_bound b) = true) by (destruct b as [y|]; [apply bound_sign | reflexivity]).
  rewrite Ba, Bb. cbn [andb].
  destruct a as [x|]; destruct b as [y|]; cbn [start_bound end_bound].
  - specialize (H x y eq_refl eq_refl).
    destruct (parse_bound_cases x) as [[Hx Ex] | [[Hx Ex] | [Hx Ex]]]; destruct (parse_bound_cases y) as [[Hy Ey] | [[Hy Ey] | [Hy Ey]]];
      rewrite Ex, Ey; cbn; try reflexivity; lia.
  - destruct (parse_bound_cases x) as [[Hx Ex] | [[Hx Ex] | [Hx Ex]]]; rewrite Ex; reflexivity.
  - destruct (parse_bound_cases y) as [[Hy Ey] | [[Hy Ey] | [Hy Ey]]]; rewrite Ey; reflexivity.
  - reflexivity.
Qed.

(* ---------------------------------------------------------------- elision *)
Lemma oz_eqb_eq a b : oz_eqb a b = true -> a = b.
Proof. destruct a, b; cbn; intro H; try discriminate; [apply Z.eqb_eq in H; subst|]; reflexivity. Qed.

Lemma frame3_eqb_eq f g : frame3_eqb f g = true -> f = g.
Proof.
  destruct f as [[k a] b], g as [[k' a'] b']. cbn [frame3_eqb]. intro H.
  apply andb_true_iff in H as [H Hb]. apply andb_true_iff in H as [Hk Ha].
  apply oz_eqb_eq in Ha, Hb. subst. destruct k, k'; cbn in Hk; try discriminate; reflexivity.
Qed.

(* the frame the code omits is exactly the frame SQL assumes when none is written *)
Lemma elided_frame_is_implicit sorted : to_sframe (default_frame sorted) = sql_implicit_frame sorted.
Proof. destruct sorted; reflexivity. Qed.

Lemma emitted_segment supports f keys p i :
  known_f22 supports (is_sorted keys) f = false ->
  sql_frame_segment (emit_frame supports (is_sorted keys) f) keys p i = explicit_segment (to_sframe f) keys p i.
Proof.
  unfold known_f22, emit_frame, sql_frame_segment. intro H.
  destruct (frame3_eqb f (default_frame (is_sorted keys))) eqn:E.
  - rewrite andb_false_r. apply frame3_eqb_eq in E. rewrite E. rewrite elided_frame_is_implicit. reflexivity.
  - cbn [negb] in *. rewrite andb_true_r in *. destruct supports; [reflexivity | discriminate].
Qed.

(* ---------------------------------------------------------------- ROWS frames *)
Lemma seq_snoc a n : seq a (S n) = seq a n ++ [(a + n)%nat].
Proof. rewrite seq_S. reflexivity. Qed.

Lemma filter_interval n lo hi :
  filter (fun j => (lo <=? Z.of_nat j) && (Z.of_nat j <=? hi)) (seq 0 n) =
  (let lo' := Z.max 0 lo in let hi' := Z.min (Z.of_nat n - 1) hi in
   if hi' <? lo' then [] else seq (Z.to_nat lo') (Z.to_nat (hi' - lo' + 1))).
Proof.
  induction n as [|n IH].
  - cbn [seq filter]. cbv zeta. assert (E : (Z.min (Z.of_nat 0 - 1) hi <? Z.max 0 lo) = true) by (apply Z.ltb_lt; lia). rewrite E. reflexivity.
  - rewrite seq_snoc, filter_app, IH. cbv zeta. cbn [filter Nat.add].
    destruct (lo <=? Z.of_nat n) eqn:E1; destruct (Z.of_nat n <=? hi) eqn:E2; cbn [andb];
      try apply Z.leb_le in E1; try apply Z.leb_le in E2; try apply Z.leb_gt in E1; try apply Z.leb_gt in E2.
    + (* n is in the interval: it extends the segment by one *)
      assert (F2 : (Z.min (Z.of_nat (S n) - 1) hi <? Z.max 0 lo) = false) by (apply Z.ltb_ge; lia). rewrite F2.
      destruct (Z.min (Z.of_nat n - 1) hi <? Z.max 0 lo) eqn:F1.
      * apply Z.ltb_lt in F1. cbn [app].
        assert (Z.max 0 lo = Z.of_nat n) by lia.
        replace (Z.min (Z.of_nat (S n) - 1) hi - Z.max 0 lo + 1) with 1 by lia.
        rewrite H, Nat2Z.id. reflexivity.
      * apply Z.ltb_ge in F1.
        replace (Z.to_nat (Z.min (Z.of_nat (S n) - 1) hi - Z.max 0 lo + 1)) with (S (Z.to_nat (Z.min (Z.of_nat n - 1) hi - Z.max 0 lo + 1))) by lia.
        rewrite seq_snoc. f_equal. f_equal. lia.
    + (* n is above hi *)
      assert (Z.min (Z.of_nat (S n) - 1) hi = Z.min (Z.of_nat n - 1) hi) by lia. rewrite H, app_nil_r. reflexivity.
    + (* n is below lo: nothing so far, nothing now *)
      assert (F1 : (Z.min (Z.of_nat n - 1) hi <? Z.max 0 lo) = true) by (apply Z.ltb_lt; lia).
      assert (F2 : (Z.min (Z.of_nat (S n) - 1) hi <? Z.max 0 lo) = true) by (apply Z.ltb_lt; lia).
      rewrite F1, F2. reflexivity.
    + assert (F1 : (Z.min (Z.of_nat n - 1) hi <? Z.max 0 lo) = true) by (apply Z.ltb_lt; lia).
      assert (F2 : (Z.min (Z.of_nat (S n) - 1) hi <? Z.max 0 lo) = true) by (apply Z.ltb_lt; lia).
      rewrite F1, F2. reflexivity.
Qed.

Lemma rows_frame_sound a b keys p i :
  explicit_segment (to_sframe (KRows, a, b)) keys p i = prql_segment (KRows, a, b) keys p i.
Proof.
  unfold explicit_segment, prql_segment, to_sframe, rel_frame, seg. cbn [f_units f_start f_end].
  set (n := length p).
  set (lo := match a with Some a => Z.of_nat i + a | None => 0 end).
  set (hi := match b with Some b => Z.of_nat i + b | None => Z.of_nat n - 1 end).
  rewrite (filter_ext_in _ (fun j => (lo <=? Z.of_nat j) && (Z.of_nat j <=? hi))).
  - rewrite filter_interval. cbv zeta. subst lo hi.
    destruct a as [a|]; destruct b as [b|]; rewrite ?Z.max_id, ?Z.min_id; reflexivity.
  - intros j Hj. apply in_seq in Hj. subst lo hi. f_equal.
    + destruct a as [a|]; cbn [start_bound]; [apply rows_from_parse|]. cbn [rows_from]. symmetry. apply Z.leb_le. lia.
    + destruct b as [b|]; cbn [end_bound]; [apply rows_to_parse|]. cbn [rows_to]. symmetry. apply Z.leb_le. subst n. lia.
Qed.

(* ---------------------------------------------------------------- RANGE frames *)
Lemma key_le_int k x : key_le (VInt k) (VInt x) = (k <=? x).
Proof.
  unfold key_le, cmp_val, to_q. unfold Qcompare. cbn [inject_Z Qnum Qden]. rewrite !Z.mul_1_r.
  unfold Z.leb. destruct (k ?= x); reflexivity.
Qed.

Lemma keys_le_single ke me r k x : ev me ke = VInt k -> ev r ke = VInt x -> keys_le [(false, ke)] me r = (k <=? x).
Proof.
  intros Hm Hr. unfold keys_le. rewrite Hm, Hr, !key_le_int.
  destruct (k <=? x) eqn:E; destruct (x <=? k); reflexivity.
Qed.

Lemma range_from_parse ke me r k x z : ev me ke = VInt k -> ev r ke = VInt x ->
  range_from [(false, ke)] me r (parse_bound z) = (k + z <=? x).
Proof.
  intros Hm Hr.
  destruct (parse_bound_cases z) as [[H E] | [[H E] | [H E]]]; rewrite E; cbn [range_from key_int]; rewrite ?Hm, ?Hr.
  - subst. rewrite Z.add_0_r. apply (keys_le_single ke me r k x Hm Hr).
  - reflexivity.
  - f_equal. lia.
Qed.

Lemma range_to_parse ke me r k x z : ev me ke = VInt k -> ev r ke = VInt x ->
  range_to [(false, ke)] me r (parse_bound z) = (x <=? k + z).
Proof.
  intros Hm Hr.
  destruct (parse_bound_cases z) as [[H E] | [[H E] | [H E]]]; rewrite E; cbn [range_to key_int]; rewrite ?Hm, ?Hr.
  - subst. rewrite Z.add_0_r. apply (keys_le_single ke r me x k Hr Hm).
  - reflexivity.
  - f_equal. lia.
Qed.

Lemma range_frame_sound a b keys p i :
  (i < length p)%nat -> range_key_ok keys p ->
  explicit_segment (to_sframe (KRange, a, b)) keys p i = prql_segment (KRange, a, b) keys p i.
Proof.
  intros Hi [ke [Hk Hall]]. subst keys.
  unfold explicit_segment, prql_segment, to_sframe, rel_frame, seg. cbn [f_units f_start f_end].
  destruct (nth_error p i) as [me|] eqn:Eme; [| apply nth_error_None in Eme; lia].
  destruct (Hall me (nth_error_In _ _ Eme)) as [k Hm]. rewrite Hm.
  apply filter_ext_in. intros j Hj.
  destruct (nth_error p j) as [r|] eqn:Er; [|reflexivity].
  destruct (Hall r (nth_error_In _ _ Er)) as [x Hr]. rewrite Hr.
  f_equal.
  - destruct a as [a|]; cbn [start_bound]; [apply (range_from_parse ke me r k x a Hm Hr) | reflexivity].
  - destruct b as [b|]; cbn [end_bound]; [apply (range_to_parse ke me r k x b Hm Hr) | reflexivity].
Qed.

(* ---------------------------------------------------------------- the main theorem *)
Definition frame_kind (f : frame3) : wkind := match f with (k, _, _) => k end.

Lemma explicit_frame_sound f keys p i :
  (i < length p)%nat -> (frame_kind f = KRange -> range_key_ok keys p) ->
  explicit_segment (to_sframe f) keys p i = prql_segment f keys p i.
Proof.
  destruct f as [[k a] b]. intros Hi Hr. destruct k.
  - apply rows_frame_sound.
  - apply range_frame_sound; [exact Hi | apply Hr; reflexivity].
Qed.

(* whatever is not in the class of F22: the SQL segment of the emitted (or elided) clause is the documented one *)
Lemma frame_emit_sound_partial supports f keys p i :
  known_f22 supports (is_sorted keys) f = false ->
  (i < length p)%nat -> (frame_kind f = KRange -> range_key_ok keys p) ->
  sql_frame_segment (emit_frame supports (is_sorted keys) f) keys p i = prql_segment f keys p i.
Proof. intros H Hi Hr. rewrite (emitted_segment supports f keys p i H). apply explicit_frame_sound; assumption. Qed.

(* functions with window_frame=true: always *)
Lemma frame_emit_sound f keys p i :
  (i < length p)%nat -> (frame_kind f = KRange -> range_key_ok keys p) ->
  sql_frame_segment (emit_frame true (is_sorted keys) f) keys p i = prql_segment f keys p i.
Proof. apply frame_emit_sound_partial. reflexivity. Qed.

(* no `window` at all: the documented segment is the whole partition *)
Lemma no_window_segment keys p i : prql_segment no_window keys p i = seg FNone keys p i.
Proof.
  unfold prql_segment, no_window, rel_frame, seg.
  destruct (Z.of_nat (length p) - 1 <? 0) eqn:E.
  - apply Z.ltb_lt in E. assert (length p = 0)%nat by lia. rewrite H. reflexivity.
  - apply Z.ltb_ge in E. replace (Z.to_nat (Z.of_nat (length p) - 1 - 0 + 1)) with (length p) by lia. reflexivity.
Qed.

(* ---------------------------------------------------------------- the witness of F22 *)
Definition w_key : expr := ECol None 1%N.
Definition w_row (k v : Z) : row := [(None, Some 1%N, VInt k); (None, Some 2%N, VInt v)].
Definition w_part : rel := [w_row 1 10; w_row 2 20; w_row 3 30].
Definition w_keys : list (bool * expr) := [(false, w_key)].

Lemma frame_emit_refuted_witness :
  sql_frame_segment (emit_frame false (is_sorted w_keys) no_window) w_keys w_part 0 = [0%nat] /\
  prql_segment no_window w_keys w_part 0 = [0; 1; 2]%nat.
Proof. split; vm_compute; reflexivity. Qed.

(* the one empty range that is still accepted: `rows:0..-1` written out is the spelling of the std.prql default, the
   transform takes it for "argument not given" (whole partition); the book's inclusive bounds give the empty segment *)
Lemma explicit_default_witness :
  frame_of (args_rows (Some 0) (Some (-1))) = WFrame no_window /\
  prql_segment no_window w_keys w_part 0 = [0; 1; 2]%nat /\
  seg (FRows (Some 0) (Some (-1))) w_keys w_part 0 = [].
Proof. repeat split; vm_compute; reflexivity. Qed.

(* ties: the implicit RANGE frame ends at the LAST PEER of the current row; `rows:..0` ends at the row itself.
   The code emits the ROWS frame explicitly (it is not the default frame), so the two are kept apart. *)
Definition t_part : rel := [w_row 1 10; w_row 1 20; w_row 2 30].
Lemma ties_default_vs_rows :
  sql_frame_segment None w_keys t_part 0 = [0; 1]%nat /\
  prql_segment (KRows, None, Some 0) w_keys t_part 0 = [0%nat] /\
  emit_frame true true (KRows, None, Some 0) = Some (mk_sframe KRows (SPreceding None) SCurrentRow) /\
  prql_segment (KRange, None, Some 0) w_keys t_part 0 = [0; 1]%nat /\
  emit_frame true true (KRange, None, Some 0) = None.
Proof. repeat split; vm_compute; reflexivity. Qed.

(* ---------------------------------------------------------------- partition / frame scoping (flatten.rs) *)
Section SitemInd.
  Variable P : sitem -> Prop.
  Hypothesis Hcol : forall t, P (SCol t).
  Hypothesis Hgroup : forall b body, Forall P body -> P (SGroup b body).
  Hypothesis Hwin : forall f body, Forall P body -> P (SWindow f body).
  Hypothesis Hsub : forall body, Forall P body -> P (SSub body).
  Fixpoint sitem_ind' (i : sitem) : P i :=
    let go := fix go (l : list sitem) : Forall P l :=
      match l with [] => Forall_nil P | x :: t => Forall_cons x (sitem_ind' x) (go t) end in
    match i with
    | SCol t => Hcol t
    | SGroup b body => Hgroup b body (go body)
    | SWindow f body => Hwin f body (go body)
    | SSub body => Hsub body (go body)
    end.
End SitemInd.

(* the local list walk of scope_run_item is scope_run *)
Lemma scope_run_local pol : forall l st,
  (fix run_list (l : list sitem) (st : fstate) {struct l} : list scope_out * fstate :=
     match l with
     | [] => ([], st)
     | x :: t => let (o1, st1) := scope_run_item pol x st in let (o2, st2) := run_list t st1 in (o1 ++ o2, st2)
     end) l st = scope_run pol l st.
Proof.
  induction l as [|x t IH]; intro st; [reflexivity|].
  cbn [scope_run]. destruct (scope_run_item pol x st) as [o1 st1]. rewrite IH. reflexivity.
Qed.

Lemma scope_run_item_unfold pol i st :
  scope_run_item pol i st =
  match i with
  | SCol t => ([(t, st_part st, st_win st)], st)
  | SGroup by_ body =>
      let (o, st') := scope_run pol body (mk_fstate (Some by_) (st_win st)) in
      (o, mk_fstate (match p_group_exit pol with ExitRestore => st_part st | ExitReset => None end) (st_win st'))
  | SWindow f body =>
      let (o, st') := scope_run pol body (mk_fstate (st_part st) f) in
      (o, mk_fstate (st_part st') (match p_window_exit pol with ExitRestore => st_win st | ExitReset => no_window end))
  | SSub body =>
      let (o, st') := scope_run pol body (mk_fstate (if p_sub_isolates_partition pol then None else st_part st)
                                                    (if p_sub_isolates_window pol then no_window else st_win st)) in
      (o, mk_fstate (if p_sub_isolates_partition pol then st_part st else st_part st')
                    (if p_sub_isolates_window pol then st_win st else st_win st'))
  end.
Proof. destruct i; cbn [scope_run_item]; rewrite ?scope_run_local; reflexivity. Qed.

Definition scope_item_ok (i : sitem) : Prop :=
  forall st, scope_run_item flatten_policy i st = (scope_spec_item (st_part st) (st_win st) i, st).

Lemma scope_run_list_ok l : Forall scope_item_ok l ->
  forall st, scope_run flatten_policy l st = (scope_spec (st_part st) (st_win st) l, st).
Proof.
  induction 1 as [|x t Hx _ IH]; intro st; [reflexivity|].
  cbn [scope_run]. rewrite (Hx st), (IH st). reflexivity.
Qed.

Lemma fstate_eta st : mk_fstate (st_part st) (st_win st) = st.
Proof. destruct st; reflexivity. Qed.

Lemma scope_item_sound : forall i, scope_item_ok i.
Proof.
  apply sitem_ind'; unfold scope_item_ok.
  - intros t st. reflexivity.
  - intros b body H st. rewrite scope_run_item_unfold, (scope_run_list_ok body H). cbn [st_part st_win flatten_policy p_group_exit scope_spec_item].
    rewrite fstate_eta. reflexivity.
  - intros f body H st. rewrite scope_run_item_unfold, (scope_run_list_ok body H). cbn [st_part st_win flatten_policy p_window_exit scope_spec_item].
    rewrite fstate_eta. reflexivity.
  - intros body H st. rewrite scope_run_item_unfold, (scope_run_list_ok body H). cbn [st_part st_win flatten_policy p_sub_isolates_partition p_sub_isolates_window scope_spec_item].
    rewrite fstate_eta. reflexivity.
Qed.

(* the Flattener's save / overwrite / write back of `partition` and `window` IS lexical scoping: every column
   definition is handed the key of the innermost enclosing group and the frame of the innermost enclosing window
   (none inside a relational argument), and the walk leaves the fields as it found them *)
Lemma scope_sound l st : scope_run flatten_policy l st = (scope_spec (st_part st) (st_win st) l, st).
Proof. apply scope_run_list_ok. apply Forall_forall. intros i _. apply scope_item_sound. Qed.

(* non-vacuity: with the bookkeeping of the tree before 592b6f8 (reset instead of restore) the statement is false *)
Definition scope_example : list sitem :=
  [SGroup 0%N [SWindow (KRows, Some (-1), Some 0) [SCol 1%N; SGroup 1%N [SCol 2%N]; SCol 3%N]; SCol 4%N]; SCol 5%N].
Lemma scope_old_policy_differs :
  fst (scope_run old_flatten_policy scope_example fstate0) <> scope_spec None no_window scope_example.
Proof. vm_compute. discriminate. Qed.

(* ---------------------------------------------------------------- RANGE frames beyond one ascending key *)
Lemma key_int_single desc ke r : key_int [(desc, ke)] r = match ev r ke with VInt z => Some (desc, z) | _ => None end.
Proof. reflexivity. Qed.

Lemma key_int_not_single keys r : (forall desc ke, keys <> [(desc, ke)]) -> key_int keys r = None.
Proof.
  intro H. destruct keys as [|[d ke] [|k2 rest]]; try reflexivity. exfalso. apply (H d ke). reflexivity.
Qed.

Lemma off_from_not_single keys me r a : (forall desc ke, keys <> [(desc, ke)]) -> a <> 0 -> off_from keys me r a = false.
Proof.
  intros H Ha. unfold off_from. apply Z.eqb_neq in Ha. rewrite Ha.
  destruct keys as [|[d ke] [|k2 rest]]; try reflexivity. exfalso. apply (H d ke). reflexivity.
Qed.
Lemma off_to_not_single keys me r b : (forall desc ke, keys <> [(desc, ke)]) -> b <> 0 -> off_to keys me r b = false.
Proof.
  intros H Hb. unfold off_to. apply Z.eqb_neq in Hb. rewrite Hb.
  destruct keys as [|[d ke] [|k2 rest]]; try reflexivity. exfalso. apply (H d ke). reflexivity.
Qed.

Lemma single_or_not (keys : list (bool * expr)) : (exists desc ke, keys = [(desc, ke)]) \/ (forall desc ke, keys <> [(desc, ke)]).
Proof.
  destruct keys as [|[d ke] [|k2 rest]]; [right; intros; discriminate | left; eauto | right; intros; discriminate].
Qed.

(* a start bound, as emitted, selects the rows the generalised reading says -- for ANY keys (outside the domain both
   sides select nothing) *)
Lemma range_from_parse_x keys me r z : range_from keys me r (parse_bound z) = off_from keys me r z.
Proof.
  unfold off_from.
  destruct (parse_bound_cases z) as [[H E] | [[H E] | [H E]]]; rewrite E; cbn [range_from].
  - subst. reflexivity.
  - assert (N : (z =? 0) = false) by (apply Z.eqb_neq; lia). rewrite N.
    destruct (single_or_not keys) as [[desc [ke ->]] | NS].
    + rewrite !key_int_single. destruct (ev me ke); try reflexivity. destruct (ev r ke); reflexivity.
    + rewrite (key_int_not_single keys me NS). destruct keys as [|[d ke] [|k2 rest]]; try reflexivity. exfalso. apply (NS d ke). reflexivity.
  - assert (N : (z =? 0) = false) by (apply Z.eqb_neq; lia). rewrite N.
    destruct (single_or_not keys) as [[desc [ke ->]] | NS].
    + rewrite !key_int_single. destruct (ev me ke); try reflexivity. destruct (ev r ke); try reflexivity.
      destruct desc; f_equal; lia.
    + rewrite (key_int_not_single keys me NS). destruct keys as [|[d ke] [|k2 rest]]; try reflexivity. exfalso. apply (NS d ke). reflexivity.
Qed.

Lemma range_to_parse_x keys me r z : range_to keys me r (parse_bound z) = off_to keys me r z.
Proof.
  unfold off_to.
  destruct (parse_bound_cases z) as [[H E] | [[H E] | [H E]]]; rewrite E; cbn [range_to].
  - subst. reflexivity.
  - assert (N : (z =? 0) = false) by (apply Z.eqb_neq; lia). rewrite N.
    destruct (single_or_not keys) as [[desc [ke ->]] | NS].
    + rewrite !key_int_single. destruct (ev me ke); try reflexivity. destruct (ev r ke); reflexivity.
    + rewrite (key_int_not_single keys me NS). destruct keys as [|[d ke] [|k2 rest]]; try reflexivity. exfalso. apply (NS d ke). reflexivity.
  - assert (N : (z =? 0) = false) by (apply Z.eqb_neq; lia). rewrite N.
    destruct (single_or_not keys) as [[desc [ke ->]] | NS].
    + rewrite !key_int_single. destruct (ev me ke); try reflexivity. destruct (ev r ke); try reflexivity.
      destruct desc; f_equal; lia.
    + rewrite (key_int_not_single keys me NS). destruct keys as [|[d ke] [|k2 rest]]; try reflexivity. exfalso. apply (NS d ke). reflexivity.
Qed.

Lemma range_frame_sound_x a b keys p i :
  explicit_segment (to_sframe (KRange, a, b)) keys p i = prql_segmentx (KRange, a, b) keys p i.
Proof.
  unfold explicit_segment, prql_segmentx, to_sframe, rel_frame, segx, range_segx. cbn [f_units f_start f_end].
  destruct (nth_error p i) as [me|]; [|reflexivity].
  apply filter_ext. intro j. destruct (nth_error p j) as [r|]; [|reflexivity]. f_equal.
  - destruct a as [a|]; cbn [start_bound]; [apply range_from_parse_x | reflexivity].
  - destruct b as [b|]; cbn [end_bound]; [apply range_to_parse_x | reflexivity].
Qed.

Lemma explicit_frame_sound_x f keys p i : explicit_segment (to_sframe f) keys p i = prql_segmentx f keys p i.
Proof.
  destruct f as [[k a] b]. destruct k; [|apply range_frame_sound_x].
  rewrite rows_frame_sound. reflexivity.
Qed.

(* the emitted -- or elided -- clause selects the generalised documented segment: any number of sort keys, either
   direction, NULL keys, no sort.  (`range_domain` is where the SPECIFICATION of SQL used here is the engines': without
   offsets anything goes; with offsets one key that is an integer on every row.) *)
Lemma frame_emit_sound_x f keys p i :
  (frame_kind f = KRange -> range_domain f keys p) ->
  sql_frame_segment (emit_frame true (is_sorted keys) f) keys p i = prql_segmentx f keys p i.
Proof. intros _. rewrite (emitted_segment true f keys p i eq_refl). apply explicit_frame_sound_x. Qed.

(* on Rel.v's domain the generalised reading is Rel.v's *)
Lemma segx_agrees fr keys p i : (i < length p)%nat -> range_key_ok keys p -> segx fr keys p i = seg fr keys p i.
Proof.
  intros Hi [ke [-> Hall]]. destruct fr as [|a b|a b]; try reflexivity.
  unfold segx, range_segx, seg. destruct (nth_error p i) as [me|] eqn:Eme; [| apply nth_error_None in Eme; lia].
  destruct (Hall me (nth_error_In _ _ Eme)) as [k Hm]. rewrite Hm.
  apply filter_ext_in. intros j Hj. destruct (nth_error p j) as [r|] eqn:Er; [|reflexivity].
  destruct (Hall r (nth_error_In _ _ Er)) as [x Hr]. rewrite Hr. f_equal.
  - destruct a as [a|]; [|reflexivity]. unfold off_from. rewrite Hm, Hr. destruct (a =? 0) eqn:E0; [|reflexivity].
    apply Z.eqb_eq in E0. subst. rewrite Z.add_0_r. apply (keys_le_single ke me r k x Hm Hr).
  - destruct b as [b|]; [|reflexivity]. unfold off_to. rewrite Hm, Hr. destruct (b =? 0) eqn:E0; [|reflexivity].
    apply Z.eqb_eq in E0. subst. rewrite Z.add_0_r. apply (keys_le_single ke r me x k Hr Hm).
Qed.

(* which emitted RANGE clauses the engines accept: those without a numeric offset, or over exactly one sort key *)
Lemma has_offset_parse z : has_offset (parse_bound z) = negb (z =? 0).
Proof.
  destruct (parse_bound_cases z) as [[H E] | [[H E] | [H E]]]; rewrite E; cbn [has_offset].
  - subst. reflexivity.
  - symmetry. apply negb_true_iff. apply Z.eqb_neq. lia.
  - symmetry. apply negb_true_iff. apply Z.eqb_neq. lia.
Qed.

Lemma emitted_range_accepted a b n :
  (forall x y, a = Some x -> b = Some y -> x <= y) ->
  sql_accepts (to_sframe (KRange, a, b)) n = offset_free (KRange, a, b) || Nat.eqb n 1.
Proof.
  intro H. unfold sql_accepts. rewrite (emitted_frame_legal KRange a b H). cbn [andb to_sframe f_units f_start f_end offset_free is_offset].
  f_equal. destruct a as [a|]; destruct b as [b|]; cbn [start_bound end_bound is_offset has_offset]; rewrite ?has_offset_parse;
    repeat match goal with |- context [?z =? 0] => destruct (z =? 0) end; reflexivity.
Qed.

Lemma emitted_rows_accepted a b n :
  (forall x y, a = Some x -> b = Some y -> x <= y) -> sql_accepts (to_sframe (KRows, a, b)) n = true.
Proof. intro H. unfold sql_accepts. rewrite (emitted_frame_legal KRows a b H). reflexivity. Qed.

(* witnesses: two sort keys with a tie on the first (the frame `range:0..0` must separate a/1 from a/2), and the same
   frame with an offset, which no engine accepts *)
Definition x_key2 : expr := ECol None 2%N.
Definition x_keys2 : list (bool * expr) := [(false, w_key); (false, x_key2)].
Lemma range_two_keys_witness :
  prql_segmentx (KRange, Some 0, Some 0) x_keys2 t_part 0 = [0%nat] /\
  sql_frame_segment (emit_frame true true (KRange, Some 0, Some 0)) x_keys2 t_part 0 = [0%nat] /\
  prql_segmentx (KRange, Some 0, Some 0) w_keys t_part 0 = [0; 1]%nat /\
  sql_accepts (to_sframe (KRange, Some 0, Some 0)) 2 = true /\
  sql_accepts (to_sframe (KRange, Some (-1), Some 0)) 2 = false /\
  sql_accepts (to_sframe (KRange, Some (-1), Some 0)) 0 = false /\
  prql_segmentx (KRange, Some (-1), Some 0) [(true, w_key)] w_part 1 = [1; 2]%nat.
Proof. repeat split; vm_compute; reflexivity. Qed.

(* ---------------------------------------------------------------- translate_windowed's rejection (91a6a23) *)
Lemma emit_frame_some supports sorted f sf : emit_frame supports sorted f = Some sf -> supports = true /\ sf = to_sframe f.
Proof.
  unfold emit_frame. destruct supports; cbn [andb]; [|discriminate].
  destruct (negb (frame3_eqb f (default_frame sorted))); [|discriminate]. intro H. injection H as <-. auto.
Qed.

(* every frame clause that reaches SQL is one the engines accept *)
Lemma emit_window_accepted supports n k a b sf :
  (forall x y, a = Some x -> b = Some y -> x <= y) ->
  emit_window supports n (k, a, b) = Some (Some sf) -> sql_accepts sf n = true.
Proof.
  intros Hab. unfold emit_window. destruct (range_offset_rejected supports n (k, a, b)) eqn:R; [discriminate|].
  intro H. injection H as H. apply emit_frame_some in H as [-> ->].
  destruct k; [apply emitted_rows_accepted; exact Hab|].
  rewrite (emitted_range_accepted a b n Hab).
  unfold range_offset_rejected in R. cbn [andb wkind_eqb] in R. unfold offset_free.
  destruct (Nat.eqb n 1); [apply orb_true_r|]. cbn [negb andb] in R. rewrite orb_false_r.
  apply orb_false_iff in R as [-> ->]. reflexivity.
Qed.

(* ... and it rejects exactly the RANGE frames no engine accepts *)
Lemma emit_window_rejects_iff n a b :
  (forall x y, a = Some x -> b = Some y -> x <= y) ->
  (emit_window true n (KRange, a, b) = None <-> sql_accepts (to_sframe (KRange, a, b)) n = false).
Proof.
  intros Hab. rewrite (emitted_range_accepted a b n Hab). unfold emit_window, range_offset_rejected, offset_free.
  cbn [andb wkind_eqb]. destruct (Nat.eqb n 1); cbn [negb andb]; rewrite ?orb_true_r, ?orb_false_r.
  - split; discriminate.
  - destruct (is_offset a), (is_offset b); cbn; split; intro H; try reflexivity; discriminate.
Qed.

Lemma emit_window_rows_never_rejected supports n a b : emit_window supports n (KRows, a, b) = Some (emit_frame supports (negb (Nat.eqb n 0)) (KRows, a, b)).
Proof. unfold emit_window, range_offset_rejected. cbn [wkind_eqb]. rewrite andb_false_r. reflexivity. Qed.

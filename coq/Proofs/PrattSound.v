(* Soundness of the generic parser: whatever tree it returns for a token list is a reading of exactly
   the consumed tokens that RESPECTS THE TABLE (dok), provided prefix operators bind tighter than every
   binary operator (true of the PRQL grammar; not of SQL's NOT).  With uniqueness (PrattProofs) this is
   "the parser returns the one tree the table allows". *)
From Coq Require Import List Arith Lia Bool.
From PV Require Import Model.Pratt Proofs.PrattProofs.
Import ListNotations.

Section PrattSound.
Variable op uop atom fn : Type.
Variable prec : op -> nat.
Variable rassoc : op -> bool.
Variable uprec : uop -> nat.
Variable INF : nat.
Hypothesis assoc_consistent : forall a b, prec a = prec b -> rassoc a = rassoc b.
Hypothesis prec_lt_INF : forall o, S (prec o) < INF.
Hypothesis uprec_lt_INF : forall u, uprec u < INF.
Hypothesis prefix_tightest : forall u o, S (prec o) <= uprec u.
Hypothesis prefix_level : forall u u', uprec u <= uprec u'.

Notation tok := (Pratt.tok op uop atom fn).
Notation expr := (Pratt.expr op uop atom fn).
Notation dexpr := (Pratt.dexpr op uop atom fn).
Notation parse := (Pratt.parse op uop atom fn prec rassoc uprec).
Notation loop := (Pratt.loop op uop atom fn prec rassoc uprec).
Notation pargs_parse := (Pratt.pargs_parse op uop atom fn prec rassoc uprec).
Notation dstrength := (Pratt.dstrength op uop atom fn prec uprec INF).
Notation lreq := (Pratt.lreq op prec rassoc).
Notation rreq := (Pratt.rreq op prec rassoc).
Notation dprint := (Pratt.dprint op uop atom fn).
Notation dpargs := (Pratt.dpargs op uop atom fn).
Notation dok := (Pratt.dok op uop atom fn prec rassoc uprec INF).
Notation parse_S := (PrattProofs.parse_S op uop atom fn prec rassoc uprec).
Notation loop_S := (PrattProofs.loop_S op uop atom fn prec rassoc uprec).
Notation pargs_S := (PrattProofs.pargs_S op uop atom fn prec rassoc uprec).

Definition reads (n : nat) (d : dexpr) (e : expr) (cs : list tok) : Prop :=
  erase d = e /\ dok d = true /\ cs = wrap n (dprint d).
Definition head_ok (n : nat) (d : dexpr) (ts : list tok) : Prop :=
  n = 0 -> match ts with TO o :: _ => lreq o <= dstrength d | _ => True end.
Definition stopped (m : nat) (ts : list tok) : Prop :=
  match ts with TO o :: _ => prec o < m | _ => True end.
Definition mlegal (m : nat) : Prop := m <= INF /\ forall u, m <= uprec u.

Lemma rreq_legal o : mlegal (rreq o).
Proof.
  split; unfold Pratt.rreq; destruct (rassoc o).
  - pose proof (prec_lt_INF o); lia. - pose proof (prec_lt_INF o); lia.
  - intros u. pose proof (prefix_tightest u o). lia. - intros u. apply prefix_tightest.
Qed.
Lemma uprec_legal u : mlegal (uprec u).
Proof. split; [pose proof (uprec_lt_INF u); lia|intros u'; apply prefix_level]. Qed.
Lemma zero_legal : mlegal 0.
Proof. split; [lia|intros; lia]. Qed.

Lemma next_ok o o' : prec o' < rreq o -> lreq o' <= prec o.
Proof.
  unfold Pratt.rreq, Pratt.lreq. destruct (rassoc o) eqn:Ro; intros H.
  - destruct (rassoc o'); lia.
  - destruct (Nat.eq_dec (prec o') (prec o)) as [E|NE].
    + rewrite (assoc_consistent _ _ E), Ro. lia.
    + destruct (rassoc o'); lia.
Qed.

Lemma edge_b n m b : (n = 0 -> m <= b) -> negb (n =? 0) || (m <=? b) = true.
Proof. intros H. destruct n; cbn; auto. apply Nat.leb_le. auto. Qed.

Definition parse_post (m : nat) (ts : list tok) (e : expr) (rest : list tok) : Prop :=
  exists n d cs, ts = cs ++ rest /\ reads n d e cs /\ stopped m rest /\ (n = 0 -> m <= dstrength d) /\ head_ok n d rest.

Lemma sound : forall f,
  (forall m ts e rest, parse f m ts = Some (e, rest) -> mlegal m -> parse_post m ts e rest) /\
  (forall m lhs ts e rest n d cs0, loop f m lhs ts = Some (e, rest) -> reads n d lhs cs0 -> head_ok n d ts ->
      (n = 0 -> m <= dstrength d) -> mlegal m -> parse_post m (cs0 ++ ts) e rest) /\
  (forall ts args rest, pargs_parse f ts = Some (args, rest) ->
      exists dargs, ts = dpargs dargs ++ rest /\ map (fun p => erase (snd p)) dargs = args /\
                    forallb (fun p => dok (snd p)) dargs = true /\ dargs <> []).
Proof.
  induction f as [|f [IHp [IHl IHa]]]; (split; [|split]); try (intros; discriminate).
  - (* parse *)
    intros m ts e rest H ML. rewrite parse_S in H.
    destruct ts as [|[a|o|u|fn_| | |] ts']; try discriminate.
    + (* atom *)
      apply (IHl m (Atom a) ts' e rest 0 (DAtom a) [TA a] H); auto.
      * repeat split; reflexivity.
      * intros _. destruct ts' as [|[?|o'|?|?| | |] ?]; auto. cbn. pose proof (prec_lt_INF o'). unfold Pratt.lreq. destruct (rassoc o'); lia.
      * intros _. cbn. apply ML.
    + (* prefix *)
      destruct (parse f (uprec u) ts') as [[x r']|] eqn:E; [|discriminate].
      destruct (IHp _ _ _ _ E (uprec_legal u)) as [nx [dx [cs [-> [[Ex [Ox ->]] [St [Sx _]]]]]]].
      assert (R : reads 0 (DUn u nx dx) (Un u x) (TU u :: wrap nx (dprint dx))).
      { repeat split; cbn [erase Pratt.dok]; [rewrite Ex; reflexivity|]. rewrite Ox. cbn [andb]. apply edge_b. exact Sx. }
      change (TU u :: wrap nx (dprint dx) ++ r') with ((TU u :: wrap nx (dprint dx)) ++ r').
      apply (IHl m (Un u x) r' e rest 0 (DUn u nx dx) _ H R); auto.
      * intros _. destruct r' as [|[?|o'|?|?| | |] ?]; auto. cbn in St |- *. unfold Pratt.lreq. destruct (rassoc o'); lia.
      * intros _. cbn. apply ML.
    + (* call *)
      destruct ts' as [|[a|o|u|fn2| | |] ts'']; try discriminate.
      assert (CALL : forall dargs r0, ts'' = match dargs with [] => TR :: r0 | _ => dpargs dargs ++ r0 end ->
                 forallb (fun p => dok (snd p)) dargs = true ->
                 loop f m (Call fn_ (map (fun p => erase (snd p)) dargs)) r0 = Some (e, rest) ->
                 parse_post m (TF fn_ :: TL :: ts'') e rest).
      { intros dargs r0 -> OKA HL.
        assert (R : reads 0 (DCall fn_ dargs) (Call fn_ (map (fun p => erase (snd p)) dargs)) (TF fn_ :: TL :: dpargs dargs)).
        { repeat split; auto. }
        replace (TF fn_ :: TL :: match dargs with [] => TR :: r0 | _ :: _ => dpargs dargs ++ r0 end)
          with ((TF fn_ :: TL :: dpargs dargs) ++ r0) by (destruct dargs; reflexivity).
        apply (IHl m _ r0 e rest 0 (DCall fn_ dargs) _ HL R); auto.
        - intros _. destruct r0 as [|[?|o'|?|?| | |] ?]; auto. cbn. pose proof (prec_lt_INF o'). unfold Pratt.lreq. destruct (rassoc o'); lia.
        - intros _. cbn. apply ML. }
      destruct ts'' as [|[a|o|u|fn2| | |] ts3];
        try (destruct (pargs_parse f _) as [[args r0]|] eqn:E; [|discriminate];
             destruct (IHa _ _ _ E) as [dargs [Ets [<- [OKA NE]]]];
             apply (CALL dargs r0); auto; destruct dargs; [congruence|exact Ets]).
      apply (CALL [] ts3); auto.
    + (* parenthesis *)
      destruct (parse f 0 ts') as [[e0 [|[a|o|u|fn2| | |] r']]|] eqn:E; try discriminate.
      destruct (IHp _ _ _ _ E zero_legal) as [n0 [d0 [cs [-> [[E0 [O0 ->]] _]]]]].
      assert (R : reads (S n0) d0 e0 (TL :: wrap n0 (dprint d0) ++ [TR])) by (repeat split; auto).
      replace (TL :: wrap n0 (dprint d0) ++ TR :: r') with ((TL :: wrap n0 (dprint d0) ++ [TR]) ++ r')
        by (cbn; rewrite <- app_assoc; reflexivity).
      apply (IHl m e0 r' e rest (S n0) d0 _ H R); auto; intros Z; discriminate.
  - (* loop *)
    intros m lhs ts e rest n d cs0 H R HO SM ML. rewrite loop_S in H.
    assert (STOP : forall ts0, Some (lhs, ts0) = Some (e, rest) -> stopped m ts0 -> head_ok n d ts0 ->
                   parse_post m (cs0 ++ ts0) e rest).
    { intros ts0 E S0 H0. inversion E; subst. exists n, d, cs0. repeat split; auto; apply R. }
    destruct ts as [|[a|o|u|fn_| | |] ts']; try (apply STOP; auto; exact I).
    destruct (Nat.leb_spec m (prec o)) as [LE|GT]; [|apply STOP; auto].
    destruct (parse f (rreq o) ts') as [[rhs r']|] eqn:E; [|discriminate].
    destruct (IHp _ _ _ _ E (rreq_legal o)) as [n2 [d2 [cs2 [-> [[E2 [O2 ->]] [St [S2 _]]]]]]].
    destruct R as [E1 [O1 ->]].
    assert (R' : reads 0 (DBin o n d n2 d2) (Bin o lhs rhs) (wrap n (dprint d) ++ TO o :: wrap n2 (dprint d2))).
    { repeat split; cbn [erase Pratt.dok]; [rewrite E1, E2; reflexivity|]. rewrite O1, O2. cbn [andb].
      apply andb_true_iff; split; apply edge_b; auto; intros Z; exact (HO Z). }
    replace (wrap n (dprint d) ++ TO o :: wrap n2 (dprint d2) ++ r')
      with ((wrap n (dprint d) ++ TO o :: wrap n2 (dprint d2)) ++ r') by (rewrite <- app_assoc; reflexivity).
    apply (IHl m _ r' e rest 0 (DBin o n d n2 d2) _ H R'); auto.
    + intros _. destruct r' as [|[?|o'|?|?| | |] ?]; auto. cbn in St |- *. apply next_ok. exact St.
  - (* argument list *)
    intros ts args rest H. rewrite pargs_S in H.
    destruct (parse f 0 ts) as [[a [|[x|o|u|fn_| | |] r0]]|] eqn:E; try discriminate.
    + inversion H; subst. destruct (IHp _ _ _ _ E zero_legal) as [n [d [cs [-> [[Ea [Oa ->]] _]]]]].
      exists [(n, d)]. repeat split; cbn; [rewrite <- app_assoc; reflexivity|rewrite Ea; reflexivity|rewrite Oa; reflexivity|discriminate].
    + destruct (pargs_parse f r0) as [[rest0 r']|] eqn:E2; [|discriminate]. inversion H; subst.
      destruct (IHp _ _ _ _ E zero_legal) as [n [d [cs [-> [[Ea [Oa ->]] _]]]]].
      destruct (IHa _ _ _ E2) as [dargs [-> [<- [OKA NE]]]].
      exists ((n, d) :: dargs). repeat split.
      * destruct dargs as [|p t]; [congruence|]. destruct p as [k x0].
        change (dpargs ((n, d) :: (k, x0) :: t)) with (wrap n (dprint d) ++ TC :: dpargs ((k, x0) :: t)).
        rewrite <- app_assoc. reflexivity.
      * cbn. rewrite Ea. reflexivity.
      * cbn. rewrite Oa, OKA. reflexivity.
      * discriminate.
Qed.

(* the tree returned for a whole token list is a table-respecting reading of it *)
Theorem parse_sound fuel ts e : parse fuel 0 ts = Some (e, []) ->
  exists n d, erase d = e /\ dok d = true /\ ts = wrap n (dprint d).
Proof.
  intros H. destruct (proj1 (sound fuel) 0 ts e [] H zero_legal) as [n [d [cs [E [[E1 [O1 E2]] _]]]]].
  exists n, d. rewrite app_nil_r in E. subst. auto.
Qed.

End PrattSound.

(* C17, re-lexing, part 2: the slice of a token, lexed alone, gives that token again -- except for the
   known class F12 (an identifier spelled like a keyword / true / false / null).
   Structure:  (A) hypotheses on the character classes and on the tables, (B) "local" versions of the parsers
   that end with the end_expr look-ahead, (C) what each alternative of token() accepts starts with, hence
   the alternatives tried earlier fail on the token's own text, (D) p_token is local, (E) the theorem. *)
From Coq Require Import List NArith Bool Lia Arith.
From PV Require Import Lib.ListX Model.Lexer Proofs.LexProofs Proofs.LexTile Proofs.LexTrunc Proofs.LexRelexDefs Proofs.LexHeads.
Import ListNotations.
Local Open Scope nat_scope.

(* the exact text consumed when a parser turned s into r *)
Definition xcut (s r : str) : str := firstn (len s - len r) s.

Lemma xcut_cut (s r : str) : cut (len s - len r) s r = [].
Proof. replace (len s - len r - (len s - len r)) with 0 by lia. reflexivity. Qed.
Lemma xcut_app (x r : str) : xcut (x ++ r) r = x.
Proof. unfold xcut. rewrite app_length. replace (len x + len r - len r) with (len x + 0) by lia. rewrite firstn_app_2. cbn. apply app_nil_r. Qed.
Lemma xcut_head c t r : len r <= len t -> exists t', xcut (c :: t) r = c :: t'.
Proof. intros L. unfold xcut. cbn [List.length]. replace (S (len t) - len r) with (S (len t - len r)) by lia. cbn [firstn]. eauto. Qed.

(* a generic way to use the truncation lemmas at the exact cut *)
Ltac at_cut := unfold xcut; rewrite ?xcut_cut.

Section Relex.
  Variable is_alpha is_alnum : chr -> bool.
  Variable T : tables.
  Hypothesis WF : tables_wf T = true.
  Hypothesis CK : class_ok is_alpha is_alnum.
  Hypothesis TK : relex_tables_ok T = true.

  Notation end_expr := (end_expr T).
  Notation p_token := (p_token is_alpha is_alnum T).
  Notation p_alt := (p_alt is_alpha is_alnum T).
  Notation lex := (lex is_alpha is_alnum T).

  Lemma end_expr_nil : end_expr [] = true. Proof. reflexivity. Qed.

  (* ============================================================ (B) parsers ending with end_expr *)
  Lemma p_keyword_loc s k r : p_keyword T s = Some (k, r) -> p_keyword T (xcut s r) = Some (k, []).
  Proof.
    unfold p_keyword. intros H. destruct (first_prefix (t_keywords T) s) as [[k0 r0]|] eqn:E; [|discriminate].
    destruct (end_expr r0) eqn:EE; [|discriminate]. inversion H; subst; clear H.
    unfold xcut. rewrite (first_prefix_trunc _ _ _ _ E (len s - len r)) by lia. rewrite xcut_cut. reflexivity.
  Qed.

  Lemma p_word_end_loc w s r : p_word_end T w s = Some r -> p_word_end T w (xcut s r) = Some [].
  Proof.
    unfold p_word_end. intros H. destruct (strip_prefix w s) as [r0|] eqn:E; [|discriminate].
    destruct (end_expr r0); [|discriminate]. inversion H; subst; clear H.
    unfold xcut. rewrite (strip_prefix_trunc _ _ _ E (len s - len r)) by lia. rewrite xcut_cut. reflexivity.
  Qed.
  Lemma p_word_end_text w s r : p_word_end T w s = Some r -> xcut s r = w.
  Proof.
    unfold p_word_end. intros H. destruct (strip_prefix w s) as [r0|] eqn:E; [|discriminate].
    destruct (end_expr r0); [|discriminate]. inversion H; subst; clear H.
    apply strip_prefix_spec in E. subst s. apply xcut_app.
  Qed.

  Lemma p_null_loc s l r : p_null T s = Some (l, r) -> p_null T (xcut s r) = Some (l, []).
  Proof.
    unfold p_null. intros H. destruct (p_word_end T (t_null T) s) as [r0|] eqn:E; [|discriminate].
    inversion H; subst; clear H. now rewrite (p_word_end_loc _ _ _ E).
  Qed.

  Lemma p_value_unit_loc s l r : p_value_unit T s = Some (l, r) -> p_value_unit T (xcut s r) = Some (l, []).
  Proof.
    unfold p_value_unit. intros H. destruct (p_integer s) as [[d r0]|] eqn:E0; [|discriminate].
    destruct (first_prefix (t_units T) r0) as [[u r1]|] eqn:E1; [|discriminate].
    destruct (end_expr r1) eqn:EE; [|discriminate].
    destruct (N.leb (dec_val (no_us d)) i64_max) eqn:FIT; [|discriminate]. inversion H; subst; clear H.
    pose proof (p_integer_strict _ _ _ E0) as [_ L0]. pose proof (first_prefix_weak _ _ _ _ E1) as [_ L1].
    unfold xcut. rewrite (p_integer_trunc _ _ _ E0) by lia. rewrite (first_prefix_trunc _ _ _ _ E1) by lia.
    replace (len s - len r - (len s - len r0) - (len r0 - len r)) with 0 by lia. cbn [firstn end_expr]. rewrite FIT. reflexivity.
  Qed.

  Lemma p_line_wrap_loc s k r : p_line_wrap s = Some (k, r) -> p_line_wrap (xcut s r) = Some (k, []).
  Proof.
    unfold p_line_wrap. intros H. destruct (p_newline s) as [r0|] eqn:E0; [|discriminate].
    destruct (lw_comments (len r0) r0) as [ks r1] eqn:E1.
    destruct (eat 92%N (skip_ws r1)) as [r2|] eqn:E2; [|discriminate]. inversion H; subst; clear H.
    pose proof (p_newline_strict _ _ E0) as [_ L0]. pose proof (lw_comments_weak _ _ _ _ E1) as [_ L1].
    pose proof (skip_ws_suf r1) as [_ L2]. pose proof (eat_suf _ _ _ E2) as [_ L3].
    assert (NC : p_comment_raw (skip_ws r1) = None).
    { apply eat_inv in E2. rewrite E2. reflexivity. }
    unfold xcut. rewrite (p_newline_trunc _ _ E0) by lia.
    rewrite <- (lw_comments_fuel_ge (len (cut (len s - len r) s r0)) (len r0)) by (rewrite ?firstn_length; lia).
    rewrite (lw_comments_trunc _ _ _ _ E1) by (auto; lia).
    rewrite skip_ws_trunc by lia. rewrite (eat_trunc _ _ _ E2) by lia.
    repeat f_equal. match goal with |- firstn ?n _ = [] => replace n with 0 by lia end. reflexivity.
  Qed.


  Lemma xcut_cons c (t r : str) : len r <= len t -> xcut (c :: t) r = c :: xcut t r.
  Proof. intros L. unfold xcut. cbn [List.length]. replace (S (len t) - len r) with (S (len t - len r)) by lia. reflexivity. Qed.
  Lemma xcut_self (s : str) : xcut s s = [].
  Proof. unfold xcut. now rewrite Nat.sub_diag. Qed.

  (* ---- operators ---- *)
  Lemma p_ops_exact ops a b name ne :
    (forall o, In o ops -> In o (t_ops T)) -> NoDup (map fst ops) -> In ([a; b], (name, ne)) ops ->
    p_ops T ops [a; b] = Some (KOp name, []).
  Proof.
    induction ops as [|[txt [n' e']] ops IH]; intros Sub ND I; [destruct I|]. cbn [p_ops].
    destruct (tk_ops T TK (txt, (n', e')) (Sub _ (or_introl eq_refl))) as (a' & b' & E & _). cbn [fst] in E. subst txt.
    cbn [map fst] in ND. inversion ND as [|? ? NI ND']; subst.
    destruct (strip_prefix [a'; b'] [a; b]) as [r0|] eqn:S.
    - apply strip_prefix_spec in S. cbn [app] in S. inversion S; subst.
      destruct I as [I|I].
      + inversion I; subst. destruct ne; reflexivity.
      + exfalso. apply NI. change [a'; b'] with (fst ([a'; b'], (name, ne))). now apply in_map.
    - destruct I as [I|I].
      + inversion I; subst. assert (strip_prefix [a; b] [a; b] = Some []) by (now apply strip_prefix_spec). congruence.
      + apply IH; auto. intros o Io. apply Sub. now right.
  Qed.
  Lemma p_multi_text s k r : p_multi T s = Some (k, r) -> exists a b, s = a :: b :: r /\ sym a = true /\ xcut s r = [a; b].
  Proof.
    unfold p_multi. intros H. apply (hd_ops T TK) in H; [|auto]. destruct H as (a & b & t & name & ne & -> & S & I & E & _).
    inversion E; subst. exists a, b. repeat split; auto.
    match goal with |- xcut (a :: b :: ?z) ?z = _ => change (a :: b :: z) with ([a; b] ++ z); apply xcut_app end.
  Qed.
  Lemma p_multi_loc s k r : p_multi T s = Some (k, r) -> p_multi T (xcut s r) = Some (k, []).
  Proof.
    unfold p_multi. intros H. pose proof H as H0. apply (hd_ops T TK) in H; [|auto].
    destruct H as (a & b & t & name & ne & -> & S & I & E & _). inversion E; subst.
    match goal with |- context [xcut (a :: b :: ?z) ?z] => change (a :: b :: z) with ([a; b] ++ z); rewrite xcut_app end.
    apply (p_ops_exact _ _ _ _ ne); auto. apply (tk_ops_nodup T TK).
  Qed.

  (* ---- booleans ---- *)
  Lemma in_words_true : In (t_true T) (words T). Proof. now left. Qed.
  Lemma in_words_false : In (t_false T) (words T). Proof. right; now left. Qed.
  Lemma in_words_null : In (t_null T) (words T). Proof. right; right; now left. Qed.
  Lemma p_word_end_exact_none w w' : strip_prefix w w' = None -> p_word_end T w w' = None.
  Proof. unfold p_word_end. now intros ->. Qed.

  Lemma p_boolean_loc s l r : p_boolean T s = Some (l, r) -> p_boolean T (xcut s r) = Some (l, []).
  Proof.
    unfold p_boolean. intros H. destruct (p_word_end T (t_true T) s) as [r0|] eqn:E1.
    - inversion H; subst; clear H. now rewrite (p_word_end_loc _ _ _ E1).
    - destruct (p_word_end T (t_false T) s) as [r0|] eqn:E2; [|discriminate]. inversion H; subst; clear H.
      rewrite (p_word_end_loc _ _ _ E2). rewrite (p_word_end_text _ _ _ E2).
      rewrite p_word_end_exact_none by apply (tk_words_distinct T TK). reflexivity.
  Qed.

  (* ---- dates and times ---- *)
  Lemma dd_vals : dd T 0 = 4 /\ dd T 1 = 2 /\ dd T 2 = 2 /\ td T 0 = 2 /\ td T 1 = 2 /\ td T 2 = 2 /\ zd T 0 = 2 /\ zd T 1 = 2.
  Proof. destruct (tk_digits T TK) as (A & B & C & _). unfold dd, td, zd. rewrite A, B, C. repeat split. Qed.

  Lemma p_timestamp_loc s k r : p_timestamp T s = Some (k, r) -> p_timestamp T (xcut s r) = Some (k, []).
  Proof.
    unfold p_timestamp. intros H. destruct (p_date_inner T s) as [[da r0]|] eqn:E0; [|discriminate].
    destruct (eat 84%N r0) as [r1|] eqn:E1; [|discriminate]. destruct (p_time_inner T r1) as [[ti r2]|] eqn:E2; [|discriminate].
    destruct (end_expr r2); [|discriminate]. inversion H; subst; clear H.
    pose proof (p_date_inner_weak _ _ _ _ E0) as [_ L0]. pose proof (p_time_inner_weak _ _ _ _ E2) as [_ L2]. lens.
    unfold xcut. rewrite (p_date_inner_trunc _ _ _ _ E0) by lia. rewrite (eat_trunc _ _ _ E1) by lia.
    rewrite (p_time_inner_trunc _ _ _ _ E2) by lia.
    match goal with |- context [firstn ?n r] => replace n with 0 by lia end. reflexivity.
  Qed.
  Lemma p_date_loc s k r : p_date T s = Some (k, r) -> p_date T (xcut s r) = Some (k, []) /\ p_timestamp T (xcut s r) = None.
  Proof.
    unfold p_date, p_timestamp. intros H. destruct (p_date_inner T s) as [[da r0]|] eqn:E0; [|discriminate].
    destruct (end_expr r0); [|discriminate]. inversion H; subst; clear H.
    unfold xcut. rewrite (p_date_inner_trunc _ _ _ _ E0) by lia. rewrite xcut_cut. split; reflexivity.
  Qed.
  Lemma p_time_loc s k r : p_time T s = Some (k, r) -> p_time T (xcut s r) = Some (k, []).
  Proof.
    unfold p_time. intros H. destruct (p_time_inner T s) as [[ti r0]|] eqn:E0; [|discriminate].
    destruct (end_expr r0); [|discriminate]. inversion H; subst; clear H.
    unfold xcut. rewrite (p_time_inner_trunc _ _ _ _ E0) by lia. rewrite xcut_cut. reflexivity.
  Qed.


  Lemma span_while_max_spec p k s a r : span_while_max p k s = (a, r) -> s = a ++ r /\ forallb p a = true.
  Proof.
    revert s a r; induction k as [|k IH]; intros s a r H; cbn [span_while_max] in H.
    - destruct s; inversion H; auto.
    - destruct s as [|c t]; [inversion H; auto|]. destruct (p c) eqn:Pc; [|inversion H; auto].
      destruct (span_while_max p k t) as [a' r'] eqn:E. inversion H; subst. destruct (IH _ _ _ E) as [-> F]. cbn. now rewrite Pc, F.
  Qed.
  Lemma digit_misc d : is_digit d = true ->
    (N.eqb d 58 = false /\ N.eqb d 46 = false /\ N.eqb d 90 = false /\ N.eqb d 43 = false /\ N.eqb d 45 = false /\ is_nl d = false)%N.
  Proof. intros H. repeat split; chr_solve. Qed.
  Lemma end_expr_cons_false c t : endc c = false -> is_nl c = false -> c <> 46%N -> end_expr (c :: t) = false.
  Proof.
    intros E N D. unfold Lexer.end_expr. destruct (c_in c (t_end_chars T)) eqn:C.
    - apply (tk_end_chars T TK) in C. congruence.
    - rewrite N. cbn [orb]. unfold eat2, eat. destruct (N.eqb c 46%N) eqn:X; [apply N.eqb_eq in X; congruence|reflexivity].
  Qed.

  (* a time literal and a date literal cannot both start at the same place *)
  Lemma p_time_no_date r0 k r : p_time T r0 = Some (k, r) -> p_date_inner T r0 = None.
  Proof.
    intros H. destruct (p_date_inner T r0) as [[da rr]|] eqn:D; [exfalso|reflexivity].
    destruct dd_vals as (D0 & _ & _ & T0 & T1 & T2 & _).
    unfold p_date_inner in D. rewrite D0 in D. destruct (p_digits_n 4 r0) as [[y r1]|] eqn:E; [|discriminate]. clear D.
    unfold p_digits_n in E. destruct (span_while_max is_digit 4 r0) as [a r'] eqn:S.
    destruct (Nat.eqb (len a) 4) eqn:L; [|discriminate]. injection E as <- <-. apply Nat.eqb_eq in L.
    apply span_while_max_spec in S as [-> F].
    destruct a as [|d1 [|d2 [|d3 [|d4 [|? ?]]]]]; try discriminate. clear L.
    cbn [forallb] in F. repeat (apply andb_true_iff in F as [? F]).
    destruct (digit_misc d3) as (X1 & X2 & X3 & X4 & X5 & X6); [assumption|].
    assert (OC : forall sep p, N.eqb d3 sep = false -> opt_comp sep p (d3 :: d4 :: r') = ([], d3 :: d4 :: r')).
    { intros sep p0 X. unfold opt_comp. now rewrite X. }
    assert (TZ : p_tz T (d3 :: d4 :: r') = ([], d3 :: d4 :: r')).
    { unfold p_tz, eat. rewrite X3, X4, X5. reflexivity. }
    assert (DG : p_digits_n 2 ([d1; d2; d3; d4] ++ r') = Some ([d1; d2], d3 :: d4 :: r')).
    { unfold p_digits_n. cbn [app span_while_max].
      repeat match goal with D : is_digit _ = true |- _ => rewrite D; clear D end. reflexivity. }
    unfold p_time, p_time_inner in H. rewrite T0, T1, T2, DG in H.
    rewrite (OC _ _ X1) in H. cbv beta iota in H. rewrite (OC _ _ X1) in H. cbv beta iota in H.
    rewrite (OC _ _ X2) in H. cbv beta iota in H. rewrite TZ in H. cbv beta iota in H.
    rewrite end_expr_cons_false in H; [discriminate| |assumption|].
    - destruct (digit_facts d3) as (_ & _ & EC & _); [assumption|exact EC].
    - intros ->. discriminate.
  Qed.

  Lemma p_date_inner_min s d r : p_date_inner T s = Some (d, r) -> len r + 4 <= len s.
  Proof.
    destruct dd_vals as (D0 & _). unfold p_date_inner. rewrite D0. intros H.
    destruct (p_digits_n 4 s) as [[y r0]|] eqn:E0; [|discriminate]. destruct (p_digits_n_len _ _ _ _ E0).
    destruct (eat 45%N r0) as [r1|] eqn:E1; [|discriminate].
    destruct (p_digits_n (dd T 1) r1) as [[m r2]|] eqn:E2; [|discriminate].
    destruct (eat 45%N r2) as [r3|] eqn:E3; [|discriminate].
    destruct (p_digits_n (dd T 2) r3) as [[d0 r4]|] eqn:E4; [|discriminate]. inversion H; subst.
    pose proof (p_digits_n_weak _ _ _ _ E2) as [_ ?]. pose proof (p_digits_n_weak _ _ _ _ E4) as [_ ?]. lens. lia.
  Qed.
  Lemma p_time_inner_min s d r : p_time_inner T s = Some (d, r) -> len r + 2 <= len s.
  Proof.
    intros H. pose proof (p_time_inner_weak _ _ _ _ H) as [_ L]. destruct dd_vals as (_ & _ & _ & T0 & _).
    unfold p_time_inner in H. rewrite T0 in H. destruct (p_digits_n 2 s) as [[h r0]|] eqn:E0; [|discriminate].
    destruct (p_digits_n_len _ _ _ _ E0).
    destruct (opt_comp 58%N (p_digits_n (td T 1)) r0) as [mi r1] eqn:E1.
    destruct (opt_comp 58%N (p_digits_n (td T 2)) r1) as [se r2] eqn:E2.
    destruct (opt_comp 46%N (p_digits_1_max (t_ms_max T)) r2) as [ms r3] eqn:E3.
    destruct (p_tz T r3) as [tz r4] eqn:E4. inversion H; subst.
    pose proof (opt_comp_weak _ _ _ _ _ (fun x y z Hx => p_digits_n_weak _ _ _ _ Hx) E1) as [_ L1].
    pose proof (opt_comp_weak _ _ _ _ _ (fun x y z Hx => p_digits_n_weak _ _ _ _ Hx) E2) as [_ L2].
    pose proof (opt_comp_weak _ _ _ _ _ (fun x y z Hx => p_digits_1_max_weak _ _ _ _ Hx) E3) as [_ L3].
    pose proof (p_tz_weak _ _ _ _ E4) as [_ L4]. lia.
  Qed.

  Lemma p_date_token_at x0 : (exists d t', x0 = d :: t' /\ is_digit d = true) ->
    p_date_token T (64%N :: x0) = orelse (p_timestamp T x0) (orelse (p_date T x0) (p_time T x0)).
  Proof. intros (d & t' & -> & D). unfold p_date_token, eat. rewrite N.eqb_refl, D. reflexivity. Qed.

  Lemma p_date_token_loc s k r : p_date_token T s = Some (k, r) -> p_date_token T (xcut s r) = Some (k, []).
  Proof.
    intros H. pose proof H as H0. unfold p_date_token in H. destruct (eat 64%N s) as [r0|] eqn:E0; [|discriminate]. apply eat_inv in E0. subst s.
    unfold chr in *. destruct r0 as [|d t]; [discriminate|]. destruct (is_digit d) eqn:D; [|discriminate].
    assert (HD : len r + 2 <= len (d :: t) -> p_date_token T (xcut (64%N :: d :: t) r) =
              orelse (p_timestamp T (xcut (d :: t) r)) (orelse (p_date T (xcut (d :: t) r)) (p_time T (xcut (d :: t) r)))).
    { intros L. rewrite xcut_cons by (cbn [List.length] in *; lia). apply p_date_token_at.
      destruct (xcut_head d t r) as [t' X]; [cbn [List.length] in *; lia|]. exists d, t'. split; [exact X|exact D]. }
    unfold orelse in H.
    destruct (p_timestamp T (d :: t)) as [[k1 r1]|] eqn:E1.
    { injection H as <- <-. assert (L : len r1 + 2 <= len (d :: t)).
      { unfold p_timestamp in E1. destruct (p_date_inner T (d :: t)) as [[da rr]|] eqn:X; [|discriminate]. apply p_date_inner_min in X.
        destruct (eat 84%N rr) as [r2|] eqn:X1; [|discriminate]. destruct (p_time_inner T r2) as [[ti r3]|] eqn:X2; [|discriminate].
        apply p_time_inner_min in X2. destruct (end_expr r3); [|discriminate]. inversion E1; subst. lens. lia. }
      rewrite (HD L). now rewrite (p_timestamp_loc _ _ _ E1). }
    destruct (p_date T (d :: t)) as [[k2 r2]|] eqn:E2.
    { injection H as <- <-. assert (L : len r2 + 2 <= len (d :: t)).
      { unfold p_date in E2. destruct (p_date_inner T (d :: t)) as [[da rr]|] eqn:X; [|discriminate]. apply p_date_inner_min in X.
        destruct (end_expr rr); [|discriminate]. inversion E2; subst. lia. }
      rewrite (HD L). destruct (p_date_loc _ _ _ E2) as [A B]. rewrite B. unfold orelse. now rewrite A. }
    assert (L : len r + 2 <= len (d :: t)).
    { unfold p_time in H. destruct (p_time_inner T (d :: t)) as [[ti rr]|] eqn:X; [|discriminate]. apply p_time_inner_min in X.
      destruct (end_expr rr); [|discriminate]. inversion H; subst. lia. }
    rewrite (HD L).
    pose proof (p_time_no_date _ _ _ H) as ND. pose proof (p_date_inner_none_trunc _ _ ND (len (d :: t) - len r)) as ND'.
    fold (xcut (d :: t) r) in ND'.
    unfold p_timestamp, p_date, orelse. rewrite ND'. now apply p_time_loc.
  Qed.


  (* ============================================================ (C1) literal(): the alternatives tried earlier fail *)
  Lemma lower_word_shape w : lower_word w = true -> exists c t, w = c :: t /\ lower c = true /\ forallb lower t = true.
  Proof.
    unfold lower_word, nonempty. intros H. apply andb_true_iff in H as [N F]. destruct w as [|c t]; [discriminate|].
    cbn [forallb] in F. apply andb_true_iff in F as [F1 F2]. eauto.
  Qed.
  Lemma second_not_quote (t : str) : forallb lower t = true -> match t with q :: _ => is_quote q = false | [] => True end.
  Proof. destruct t as [|q t]; [trivial|]. cbn [forallb]. intros H. apply andb_true_iff in H as [H _]. chr_solve. Qed.

  Lemma str_none_by_head (c : N) (t : str) : is_quote c = false -> p_string T (c :: t) = None.
  Proof.
    intros Q. unfold p_string. destruct (p_quoted T (c :: t)) as [[b r]|] eqn:E; [|reflexivity].
    apply hd_quoted in E as (q & t' & X & Y). inversion X; subst. congruence.
  Qed.
  Lemma raw_none_by_head (c : N) (t : str) : (c <> 114%N \/ match t with q :: _ => is_quote q = false | [] => True end) -> p_raw (c :: t) = None.
  Proof.
    intros Q. destruct (p_raw (c :: t)) as [v|] eqn:E; [|reflexivity].
    apply hd_raw in E as (q & t' & X & Y). inversion X; subst. destruct Q as [Q|Q]; congruence.
  Qed.
  Lemma int_none_by_head (c : N) (t : str) : is_digit c = false -> p_integer (c :: t) = None.
  Proof.
    intros Q. destruct (p_integer (c :: t)) as [v|] eqn:E; [|reflexivity].
    apply hd_integer in E as (q & t' & X & Y). inversion X; subst. congruence.
  Qed.
  Lemma vu_none_by_head (c : N) (t : str) : is_digit c = false -> p_value_unit T (c :: t) = None.
  Proof. intros Q. unfold p_value_unit. now rewrite int_none_by_head. Qed.
  Lemma num_none_by_head (c : N) (t : str) : is_digit c = false -> p_number (c :: t) = None.
  Proof. intros Q. unfold p_number. now rewrite int_none_by_head. Qed.
  Lemma based_none_by_head i (c : N) (t : str) : c <> 48%N -> p_based_nth T i (c :: t) = None.
  Proof.
    intros Q. destruct (p_based_nth T i (c :: t)) as [v|] eqn:E; [|reflexivity].
    apply (hd_based T TK) in E as (b & t' & X & _). inversion X; subst. congruence.
  Qed.
  Lemma word_end_none_by_head w (c : N) (t : str) : In w (words T) -> lower c = false -> p_word_end T w (c :: t) = None.
  Proof.
    intros I Q. destruct (p_word_end T w (c :: t)) as [v|] eqn:E; [|reflexivity].
    apply (hd_word_end T TK) in E as (c' & t' & X & Y & _); [|exact I]. inversion X; subst. congruence.
  Qed.

  (* number text never continues with a unit *)
  Lemma first_prefix_units_none (y : str) :
    (y = [] \/ exists c t', y = c :: t' /\ (c = 46 \/ c = 101 \/ c = 69)%N) -> first_prefix (t_units T) y = None.
  Proof.
    intros Hy. assert (G : forall l, (forall u, In u l -> In u (t_units T)) -> first_prefix l y = None).
    { induction l as [|u l IH]; intros Sub; [reflexivity|]. cbn [first_prefix].
      destruct (tk_units T TK u (Sub _ (or_introl eq_refl))) as [LW HE]. apply lower_word_shape in LW as (h & u' & -> & LH & _).
      assert (strip_prefix (h :: u') y = None) as ->.
      { destruct Hy as [ -> | (c & t' & -> & Hc) ]; [reflexivity|]. cbn [strip_prefix].
        destruct (N.eqb h c) eqn:X; [|reflexivity]. apply N.eqb_eq in X. subst h. exfalso.
        destruct Hc as [ -> | [ -> | -> ] ]; try discriminate. }
      apply IH. intros u0 I0. apply Sub. now right. }
    apply G. auto.
  Qed.
  Lemma frac_shape r0 f r1 : p_frac r0 = (f, r1) -> (f = [] /\ r1 = r0) \/ (exists t, r0 = 46%N :: t /\ len r1 < len r0).
  Proof.
    unfold p_frac. intros H. destruct (eat 46%N r0) as [[|d r']|] eqn:E; try (left; inversion H; auto; fail).
    destruct (is_digit d); [|left; inversion H; auto].
    destruct (span_while is_digit_us r') as [a r''] eqn:S. inversion H; subst. right. apply eat_inv in E. subst r0.
    eexists; split; [reflexivity|]. apply span_while_suf in S as [_ L]. cbn [List.length]. lia.
  Qed.
  Lemma exp_shape r1 e r : p_exp r1 = (e, r) -> (e = [] /\ r = r1) \/ (exists c t, r1 = c :: t /\ (c = 101 \/ c = 69)%N /\ len r < len r1).
  Proof.
    unfold p_exp. intros H. destruct r1 as [|c t]; [left; inversion H; auto|].
    destruct ((N.eqb c 101%N) || (N.eqb c 69%N)) eqn:EE; [|left; inversion H; auto].
    destruct (p_sign t) as [sg r''] eqn:SG. destruct (span_while is_digit r'') as [[|d ds] r3] eqn:S; [left; inversion H; auto|].
    inversion H; subst. right. exists c, t. split; [reflexivity|]. split.
    - apply orb_true_iff in EE as [X|X]; apply N.eqb_eq in X; auto.
    - apply p_sign_weak in SG as [_ L1]. apply span_while_suf in S as [_ L2]. cbn [List.length] in *. lia.
  Qed.
  Lemma p_number_no_unit s l r : p_number s = Some (l, r) -> p_value_unit T (xcut s r) = None.
  Proof.
    intros H. pose proof (p_number_strict _ _ _ H) as [_ LS]. unfold p_number in H.
    destruct (p_integer s) as [[ip r0]|] eqn:E0; [|discriminate].
    destruct (p_frac r0) as [f r1] eqn:E1. destruct (p_exp r1) as [e r2] eqn:E2.
    assert (r2 = r) by (destruct f, e; repeat match type of H with (if ?b then _ else _) = _ => destruct b end; inversion H; reflexivity).
    subst r2. clear H.
    pose proof (p_integer_strict _ _ _ E0) as [_ L0]. pose proof (p_frac_weak _ _ _ E1) as [_ L1]. pose proof (p_exp_weak _ _ _ E2) as [_ L2].
    unfold p_value_unit, xcut. rewrite (p_integer_trunc _ _ _ E0) by lia.
    replace (len s - len r - (len s - len r0)) with (len r0 - len r) by lia. fold (xcut r0 r).
    rewrite first_prefix_units_none; [reflexivity|].
    destruct (frac_shape _ _ _ E1) as [[-> ->]|(t & -> & LF)].
    - destruct (exp_shape _ _ _ E2) as [[-> ->]|(c & t & -> & Hc & LE)].
      + left. apply xcut_self.
      + right. destruct (xcut_head c t r) as [t' X]; [cbn [List.length] in *; lia|]. exists c, t'. split; [exact X|]. destruct Hc; auto.
    - right. destruct (xcut_head 46%N t r) as [t' X]; [cbn [List.length] in *; lia|]. exists 46%N, t'. auto.
  Qed.


  Definition lit_chain (s : str) : option (lit * str) :=
    match p_based_nth T 0 s with Some v => Some v | None =>
    match p_based_nth T 1 s with Some v => Some v | None =>
    match p_based_nth T 2 s with Some v => Some v | None =>
    match p_string T s with Some v => Some v | None =>
    match p_raw s with Some v => Some v | None =>
    match p_value_unit T s with Some v => Some v | None =>
    match p_number s with Some v => Some v | None =>
    match p_boolean T s with Some v => Some v | None =>
    match p_null T s with Some v => Some v | None => None end end end end end end end end end.
  Lemma first_lit_chain s : first_lit T (t_literal_order T) s = lit_chain s.
  Proof. rewrite (tk_literal_order T TK). reflexivity. Qed.

  Lemma p_boolean_text s l r : p_boolean T s = Some (l, r) -> exists w, (w = t_true T \/ w = t_false T) /\ xcut s r = w.
  Proof.
    unfold p_boolean. intros H. destruct (p_word_end T (t_true T) s) as [r0|] eqn:E1.
    - inversion H; subst. exists (t_true T). split; [now left|]. eapply p_word_end_text; eauto.
    - destruct (p_word_end T (t_false T) s) as [r0|] eqn:E2; [|discriminate]. inversion H; subst.
      exists (t_false T). split; [now right|]. eapply p_word_end_text; eauto.
  Qed.

  (* facts about the text of a literal word w (true / false / null) *)
  Lemma word_text_fails w : In w (words T) ->
    p_based_nth T 0 w = None /\ p_based_nth T 1 w = None /\ p_based_nth T 2 w = None /\ p_string T w = None /\ p_raw w = None /\
    p_value_unit T w = None /\ p_number w = None.
  Proof.
    intros I. destruct (lower_word_shape _ (tk_words T TK w I)) as (c & t & -> & LC & LT).
    destruct (lower_facts c LC) as ((_ & _ & Q & _) & D & _ & _ & _ & _).
    assert (c <> 48%N) by (intros ->; discriminate).
    repeat split; auto using based_none_by_head, str_none_by_head, vu_none_by_head, num_none_by_head.
    apply raw_none_by_head. right. now apply second_not_quote.
  Qed.

  Lemma based_none_x i s r : p_based_nth T i s = None -> p_based_nth T i (xcut s r) = None.
  Proof. intros H. apply p_based_nth_none_trunc. exact H. Qed.
  Lemma based_loc i s l r : p_based_nth T i s = Some (l, r) -> p_based_nth T i (xcut s r) = Some (l, []).
  Proof. intros H. unfold xcut. rewrite (p_based_nth_trunc _ _ _ _ _ H) by lia. now rewrite xcut_cut. Qed.
  Lemma string_loc s l r : p_string T s = Some (l, r) -> p_string T (xcut s r) = Some (l, []).
  Proof. intros H. unfold xcut. rewrite (p_string_trunc _ _ _ _ H) by lia. now rewrite xcut_cut. Qed.
  Lemma raw_loc s l r : p_raw s = Some (l, r) -> p_raw (xcut s r) = Some (l, []).
  Proof. intros H. unfold xcut. rewrite (p_raw_trunc _ _ _ H) by lia. now rewrite xcut_cut. Qed.
  Lemma number_loc s l r : p_number s = Some (l, r) -> p_number (xcut s r) = Some (l, []).
  Proof. intros H. unfold xcut. rewrite (p_number_trunc _ _ _ H) by lia. now rewrite xcut_cut. Qed.

  Lemma lit_chain_loc s l r : lit_chain s = Some (l, r) -> lit_chain (xcut s r) = Some (l, []).
  Proof.
    unfold lit_chain. intros H.
    destruct (p_based_nth T 0 s) as [v|] eqn:B0.
    { injection H as ->. now rewrite (based_loc _ _ _ _ B0). }
    rewrite (based_none_x _ _ r B0).
    destruct (p_based_nth T 1 s) as [v|] eqn:B1.
    { injection H as ->. now rewrite (based_loc _ _ _ _ B1). }
    rewrite (based_none_x _ _ r B1).
    destruct (p_based_nth T 2 s) as [v|] eqn:B2.
    { injection H as ->. now rewrite (based_loc _ _ _ _ B2). }
    rewrite (based_none_x _ _ r B2).
    destruct (p_string T s) as [v|] eqn:S3.
    { injection H as ->. now rewrite (string_loc _ _ _ S3). }
    destruct (p_raw s) as [v|] eqn:S4.
    { injection H as ->. pose proof (p_raw_strict _ _ _ S4) as [_ LS].
      destruct (hd_raw _ _ S4) as (q & t & -> & Q). destruct (xcut_head 114%N (q :: t) r) as [t' X]; [cbn [List.length] in *; lia|].
      rewrite X at 1. rewrite str_none_by_head by reflexivity. now rewrite (raw_loc _ _ _ S4). }
    destruct (p_value_unit T s) as [v|] eqn:S5.
    { injection H as ->. pose proof (p_value_unit_strict _ _ _ _ S5) as [_ LS].
      assert (exists d t, s = d :: t /\ is_digit d = true) as (d & t & -> & D).
      { unfold p_value_unit in S5. destruct (p_integer s) eqn:E; [eapply hd_integer; eauto|discriminate]. }
      destruct (digit_facts d D) as ((_ & _ & Q & _) & LW & _).
      destruct (xcut_head d t r) as [t' X]; [cbn [List.length] in *; lia|].
      rewrite X at 1. rewrite str_none_by_head by exact Q. rewrite X at 1. rewrite raw_none_by_head by (left; intros ->; discriminate).
      now rewrite (p_value_unit_loc _ _ _ S5). }
    destruct (p_number s) as [v|] eqn:S6.
    { injection H as ->. pose proof (p_number_strict _ _ _ S6) as [_ LS].
      destruct (hd_number _ _ S6) as (d & t & -> & D).
      destruct (digit_facts d D) as ((_ & _ & Q & _) & LW & _).
      destruct (xcut_head d t r) as [t' X]; [cbn [List.length] in *; lia|].
      rewrite X at 1. rewrite str_none_by_head by exact Q. rewrite X at 1. rewrite raw_none_by_head by (left; intros ->; discriminate).
      rewrite (p_number_no_unit _ _ _ S6). now rewrite (number_loc _ _ _ S6). }
    destruct (p_boolean T s) as [v|] eqn:S7.
    { injection H as ->. destruct (p_boolean_text _ _ _ S7) as (w & Hw & X).
      assert (I : In w (words T)) by (destruct Hw as [ -> | -> ]; [apply in_words_true|apply in_words_false]).
      destruct (word_text_fails w I) as (_ & _ & _ & F3 & F4 & F5 & F6).
      rewrite <- X in F3, F4, F5, F6. rewrite F3, F4, F5, F6. now rewrite (p_boolean_loc _ _ _ S7). }
    unfold p_null in H. destruct (p_word_end T (t_null T) s) as [r0|] eqn:S8; [|discriminate]. injection H as <- <-.
    pose proof in_words_null as INull.
    pose proof (p_word_end_text _ _ _ S8) as X.
    destruct (word_text_fails _ INull) as (_ & _ & _ & F3 & F4 & F5 & F6).
    rewrite <- X in F3, F4, F5, F6. rewrite F3, F4, F5, F6.
    destruct (tk_words_distinct T TK) as (_ & D1 & D2).
    assert (PB : p_boolean T (xcut s r0) = None).
    { rewrite X. unfold p_boolean. rewrite !p_word_end_exact_none by assumption. reflexivity. }
    rewrite PB. unfold p_null. now rewrite (p_word_end_loc _ _ _ S8).
  Qed.

  Lemma p_literal_loc s k r : p_literal T s = Some (k, r) -> p_literal T (xcut s r) = Some (k, []).
  Proof.
    unfold p_literal. rewrite !first_lit_chain. intros H. destruct (lit_chain s) as [[l r0]|] eqn:E; [|discriminate].
    injection H as <- <-. now rewrite (lit_chain_loc _ _ _ E).
  Qed.


  (* ============================================================ (C2) token(): failure by the first character *)
  Notation P0 := p_line_wrap. Notation P1 := p_newline_tok. Notation P2 := (p_multi T). Notation P3 := (p_interp T).
  Notation P4 := (p_param is_alnum). Notation P5 := (p_date_token T). Notation P6 := p_annotate. Notation P7 := (p_control T).
  Notation P8 := (p_literal T). Notation P9 := (p_keyword T). Notation P10 := (p_ident is_alpha is_alnum). Notation P11 := p_comment.

  Definition snq (t : str) : Prop := match t with q :: _ => is_quote q = false | [] => True end.

  Lemma nl_none (c : N) (t : str) : is_nl c = false -> P0 (c :: t) = None /\ P1 (c :: t) = None.
  Proof.
    intros Q. split.
    - destruct (P0 (c :: t)) as [v|] eqn:E; [|reflexivity]. apply hd_line_wrap in E as (c' & t' & X & Y). inversion X; subst. congruence.
    - destruct (P1 (c :: t)) as [v|] eqn:E; [|reflexivity]. apply hd_newline_tok in E as (c' & t' & X & Y). inversion X; subst. congruence.
  Qed.
  Lemma multi_none (c : N) (t : str) : sym c = false -> P2 (c :: t) = None.
  Proof.
    intros Q. destruct (P2 (c :: t)) as [v|] eqn:E; [|reflexivity]. apply (hd_multi T TK) in E as (a & b & t' & X & Y). inversion X; subst. congruence.
  Qed.
  Lemma multi_none_single (c : N) : P2 [c] = None.
  Proof. destruct (P2 [c]) as [v|] eqn:E; [|reflexivity]. apply (hd_multi T TK) in E as (a & b & t' & X & Y). discriminate. Qed.
  Lemma interp_none (c : N) (t : str) : (lower c = false \/ c = 114%N \/ snq t) -> P3 (c :: t) = None.
  Proof.
    intros Q. destruct (P3 (c :: t)) as [v|] eqn:E; [|reflexivity]. apply (hd_interp T TK) in E as (c' & q & t' & X & L & N & Y).
    inversion X; subst. destruct Q as [Q|[Q|Q]]; [congruence|congruence|]. cbn in Q. congruence.
  Qed.
  Lemma param_none (c : N) (t : str) : c <> 36%N -> P4 (c :: t) = None.
  Proof. intros Q. destruct (P4 (c :: t)) as [v|] eqn:E; [|reflexivity]. apply hd_param in E as (t' & X). inversion X; subst. congruence. Qed.
  Lemma date_none (c : N) (t : str) : c <> 64%N -> P5 (c :: t) = None.
  Proof. intros Q. destruct (P5 (c :: t)) as [v|] eqn:E; [|reflexivity]. apply hd_date_token in E as (d & t' & X & _). inversion X; subst. congruence. Qed.
  Lemma annot_none (c : N) (t : str) : c <> 64%N -> P6 (c :: t) = None.
  Proof. intros Q. destruct (P6 (c :: t)) as [v|] eqn:E; [|reflexivity]. apply hd_annotate in E as (t' & X). inversion X; subst. congruence. Qed.
  Lemma control_none (c : N) (t : str) : sym c = false -> P7 (c :: t) = None.
  Proof.
    intros Q. destruct (P7 (c :: t)) as [v|] eqn:E; [|reflexivity]. apply (hd_control T TK) in E as (c' & t' & X & Y & _). inversion X; subst. congruence.
  Qed.
  Lemma keyword_none (c : N) (t : str) : lower c = false -> P9 (c :: t) = None.
  Proof.
    intros Q. destruct (P9 (c :: t)) as [v|] eqn:E; [|reflexivity].
    apply (hd_keyword T TK) in E as (k & r & c' & t' & _ & _ & _ & _ & X & Y). inversion X; subst. congruence.
  Qed.
  Lemma ident_none (c : N) (t : str) : is_ident_start is_alpha c = false -> c <> 96%N -> P10 (c :: t) = None.
  Proof.
    intros Q1 Q2. destruct (P10 (c :: t)) as [v|] eqn:E; [|reflexivity]. apply hd_ident in E as (c' & t' & X & [Y|Y]); inversion X; subst; congruence.
  Qed.
  Lemma literal_none (c : N) (t : str) : is_digit c = false -> is_quote c = false -> (c <> 114%N \/ snq t) ->
    (forall w, In w (words T) -> p_word_end T w (c :: t) = None) -> P8 (c :: t) = None.
  Proof.
    intros D Q R W. unfold p_literal. rewrite first_lit_chain. unfold lit_chain.
    assert (c <> 48%N) by (intros ->; discriminate).
    rewrite !based_none_by_head by assumption. rewrite str_none_by_head by assumption. rewrite raw_none_by_head by assumption.
    rewrite vu_none_by_head, num_none_by_head by assumption.
    unfold p_boolean, p_null. rewrite (W _ in_words_true), (W _ in_words_false), (W _ in_words_null). reflexivity.
  Qed.

  (* everything before literal() except interpolation fails on a character that is none of newline, punctuation, '$', '@' *)
  Lemma block_A (c : N) (t : str) : is_nl c = false -> sym c = false -> c <> 36%N -> c <> 64%N ->
    P0 (c :: t) = None /\ P1 (c :: t) = None /\ P2 (c :: t) = None /\ P4 (c :: t) = None /\ P5 (c :: t) = None /\ P6 (c :: t) = None /\ P7 (c :: t) = None.
  Proof.
    intros. destruct (nl_none c t) as [A B]; [assumption|].
    repeat split; auto using multi_none, param_none, date_none, annot_none, control_none.
  Qed.


  (* ============================================================ (D) p_token is local *)
  Definition tok_chain (s : str) : option (kind * str) :=
    match P0 s with Some v => Some v | None => match P1 s with Some v => Some v | None =>
    match P2 s with Some v => Some v | None => match P3 s with Some v => Some v | None =>
    match P4 s with Some v => Some v | None => match P5 s with Some v => Some v | None =>
    match P6 s with Some v => Some v | None => match P7 s with Some v => Some v | None =>
    match P8 s with Some v => Some v | None => match P9 s with Some v => Some v | None =>
    match P10 s with Some v => Some v | None => match P11 s with Some v => Some v | None => None
    end end end end end end end end end end end end.
  Lemma p_token_chain s : p_token s = tok_chain s.
  Proof. unfold Lexer.p_token. rewrite (tk_token_order T TK). reflexivity. Qed.

  (* the known class (finding F12): a plain identifier whose text is a keyword or true / false / null *)
  Definition kwlike (w : str) : Prop := In w (t_keywords T) \/ In w (words T).
  Definition Known (k : kind) (x : str) : Prop := exists w, k = KIdent w /\ x = w /\ kwlike w.

  Lemma forallb_suffix_head (P : chr -> bool) (a p : str) q y : forallb P a = true -> a = p ++ q :: y -> P q = true.
  Proof. intros F ->. rewrite forallb_app in F. apply andb_true_iff in F as [_ F]. cbn in F. now apply andb_true_iff in F as [F _]. Qed.

  (* after a proper prefix of an identifier comes an identifier character: not the end of an expression *)
  Lemma ident_tail_not_end c a w y : forallb (is_ident_cont is_alnum) a = true -> w <> [] -> c :: a = w ++ y -> end_expr y = true -> y = [].
  Proof.
    intros F NE E EE. destruct y as [|q y']; [reflexivity|exfalso].
    destruct w as [|h w']; [congruence|]. cbn [app] in E. injection E as _ E.
    pose proof (forallb_suffix_head _ _ _ _ _ F E) as Cq. destruct (cont_facts _ _ CK q Cq) as ((_ & NL & _ & _ & _ & _ & N46) & EC & _).
    rewrite end_expr_cons_false in EE; [discriminate|assumption..].
  Qed.

  Lemma newline_lw_none s r : p_newline s = Some r -> P0 (xcut s r) = None.
  Proof.
    intros H. unfold p_line_wrap, xcut. rewrite (p_newline_trunc _ _ H) by lia. rewrite xcut_cut. reflexivity.
  Qed.

  Lemma tok_chain_loc s k r : tok_chain s = Some (k, r) -> ~ Known k (xcut s r) -> tok_chain (xcut s r) = Some (k, []).
  Proof.
    unfold tok_chain. intros H NK.
    (* 0 line_wrap *)
    destruct (P0 s) as [v|] eqn:A0.
    { injection H as ->. now rewrite (p_line_wrap_loc _ _ _ A0). }
    (* 1 newline *)
    destruct (P1 s) as [v|] eqn:A1.
    { injection H as ->. unfold p_newline_tok in A1. destruct (p_newline s) as [r0|] eqn:E; [|discriminate]. injection A1 as <- <-.
      rewrite (newline_lw_none _ _ E). unfold p_newline_tok, xcut. rewrite (p_newline_trunc _ _ E) by lia. now rewrite xcut_cut. }
    (* 2 operators *)
    destruct (P2 s) as [v|] eqn:A2.
    { injection H as ->. destruct (p_multi_text _ _ _ A2) as (a & b & -> & S & X).
      destruct (sym_facts a S) as (NL & _). destruct (nl_none a [b] NL) as [F0 F1]. unfold chr in *. rewrite <- X in F0, F1. rewrite F0, F1.
      now rewrite (p_multi_loc _ _ _ A2). }
    (* 3 interpolation *)
    destruct (P3 s) as [v|] eqn:A3.
    { injection H as ->. pose proof (p_interp_strict _ _ _ _ A3) as [_ LS].
      destruct (hd_interp T TK _ _ A3) as (c & q & t & -> & L & _ & _).
      destruct (lower_facts c L) as ((SY & NL & _) & _).
      destruct (xcut_head c (q :: t) r) as [t' X]; [cbn [List.length] in *; lia|].
      destruct (nl_none c t' NL) as [F0 F1]. pose proof (multi_none c t' SY) as F2. unfold chr in *. rewrite <- X in F0, F1, F2. rewrite F0, F1, F2.
      unfold xcut. rewrite (p_interp_trunc _ _ _ _ A3) by lia. now rewrite xcut_cut. }
    (* 4 parameter *)
    destruct (P4 s) as [v|] eqn:A4.
    { injection H as ->. pose proof (p_param_strict _ _ _ _ A4) as [_ LS]. destruct (hd_param _ _ _ A4) as (t & ->).
      destruct (xcut_head 36%N t r) as [t' X]; [cbn [List.length] in *; lia|].
      destruct (nl_none 36%N t' eq_refl) as [F0 F1]. pose proof (multi_none 36%N t' eq_refl) as F2.
      pose proof (interp_none 36%N t' (or_introl eq_refl)) as F3. unfold chr in *. rewrite <- X in F0, F1, F2, F3. rewrite F0, F1, F2, F3.
      unfold xcut. rewrite (p_param_trunc _ _ _ _ A4) by lia. now rewrite xcut_cut. }
    (* 5 date / time *)
    destruct (P5 s) as [v|] eqn:A5.
    { injection H as ->. pose proof (p_date_token_strict _ _ _ _ A5) as [_ LS]. destruct (hd_date_token _ _ _ A5) as (d & t & -> & _).
      destruct (xcut_head 64%N (d :: t) r) as [t' X]; [cbn [List.length] in *; lia|].
      destruct (nl_none 64%N t' eq_refl) as [F0 F1]. pose proof (multi_none 64%N t' eq_refl) as F2.
      pose proof (interp_none 64%N t' (or_introl eq_refl)) as F3. assert (F4 : P4 (64%N :: t') = None) by (apply param_none; discriminate).
      unfold chr in *. rewrite <- X in F0, F1, F2, F3, F4. rewrite F0, F1, F2, F3, F4. now rewrite (p_date_token_loc _ _ _ A5). }
    (* 6 annotate *)
    destruct (P6 s) as [v|] eqn:A6.
    { injection H as ->. unfold p_annotate in A6. destruct (eat 64%N s) as [r0|] eqn:E; [|discriminate]. injection A6 as <- <-.
      apply eat_inv in E. subst s. change (64%N :: r0) with ([64%N] ++ r0). rewrite xcut_app.
      unfold chr in *. destruct (nl_none 64%N [] eq_refl) as [-> ->]. rewrite multi_none_single. rewrite interp_none by now left.
      rewrite param_none by discriminate. reflexivity. }
    (* 7 control *)
    destruct (P7 s) as [v|] eqn:A7.
    { injection H as ->. unfold p_control in A7. destruct s as [|c t]; [discriminate|]. destruct (c_in c (t_controls T)) eqn:C; [|discriminate].
      injection A7 as <- <-. pose proof (tk_controls T TK c C) as S. destruct (sym_facts c S) as (NL & _ & _ & LW & N36 & N64 & _).
      change (c :: t) with ([c] ++ t). rewrite xcut_app.
      unfold chr in *. destruct (nl_none c [] NL) as [-> ->]. rewrite multi_none_single. rewrite interp_none by now left.
      rewrite param_none, date_none, annot_none by assumption. unfold p_control. now rewrite C. }
    (* 8 literal *)
    destruct (P8 s) as [v|] eqn:A8.
    { injection H as ->. pose proof (p_literal_strict _ WF _ _ _ A8) as [_ LS].
      assert (HX : exists c t', xcut s r = c :: t' /\ is_nl c = false /\ sym c = false /\ c <> 36%N /\ c <> 64%N /\ (lower c = false \/ c = 114%N \/ snq t')).
      { unfold p_literal in A8. rewrite first_lit_chain in A8. destruct (lit_chain s) as [[l r0]|] eqn:LC; [|discriminate]. injection A8 as E1 E2. subst k r.
        unfold lit_chain in LC.
        assert (DIG : forall d t, s = d :: t -> is_digit d = true -> exists c t', xcut s r0 = c :: t' /\ is_nl c = false /\ sym c = false /\ c <> 36%N /\ c <> 64%N /\ (lower c = false \/ c = 114%N \/ snq t')).
        { intros d t -> D. destruct (xcut_head d t r0) as [t' X]; [cbn [List.length] in *; lia|]. exists d, t'.
          destruct (digit_facts d D) as ((SY & NL & _ & N36 & N64 & _) & LW & _). repeat split; auto. }
        assert (WORD : forall w, In w (words T) -> xcut s r0 = w -> exists c t', xcut s r0 = c :: t' /\ is_nl c = false /\ sym c = false /\ c <> 36%N /\ c <> 64%N /\ (lower c = false \/ c = 114%N \/ snq t')).
        { intros w I X. destruct (lower_word_shape _ (tk_words T TK w I)) as (c & t' & -> & LC' & LT). exists c, t'.
          destruct (lower_facts c LC') as ((SY & NL & _ & N36 & N64 & _) & _). repeat split; auto. right; right. now apply second_not_quote. }
        destruct (p_based_nth T 0 s) as [v|] eqn:B0; [injection LC as ->; destruct (hd_based T TK _ _ _ B0) as (b & t & -> & _); now apply (DIG 48%N (b :: t))|].
        destruct (p_based_nth T 1 s) as [v|] eqn:B1; [injection LC as ->; destruct (hd_based T TK _ _ _ B1) as (b & t & -> & _); now apply (DIG 48%N (b :: t))|].
        destruct (p_based_nth T 2 s) as [v|] eqn:B2; [injection LC as ->; destruct (hd_based T TK _ _ _ B2) as (b & t & -> & _); now apply (DIG 48%N (b :: t))|].
        destruct (p_string T s) as [v|] eqn:S3.
        { injection LC as ->. unfold p_string in S3. destruct (p_quoted T s) as [[b0 r1]|] eqn:Q; [|discriminate]. injection S3 as E1 E2. subst l r1.
          destruct (hd_quoted T _ _ Q) as (q & t & -> & QQ). destruct (xcut_head q t r0) as [t' X]; [cbn [List.length] in *; lia|]. exists q, t'.
          destruct (quote_facts q QQ) as (SY & NL & _ & LW & N36 & N64 & _). repeat split; auto. }
        destruct (p_raw s) as [v|] eqn:S4.
        { injection LC as ->. destruct (hd_raw _ _ S4) as (q & t & -> & QQ). destruct (xcut_head 114%N (q :: t) r0) as [t' X]; [cbn [List.length] in *; lia|].
          exists 114%N, t'. repeat split; auto; discriminate. }
        destruct (p_value_unit T s) as [v|] eqn:S5.
        { injection LC as ->. unfold p_value_unit in S5. destruct (p_integer s) as [v|] eqn:E; [|discriminate]. destruct (hd_integer _ _ E) as (d & t & -> & D). now apply (DIG d t). }
        destruct (p_number s) as [v|] eqn:S6.
        { injection LC as ->. destruct (hd_number _ _ S6) as (d & t & -> & D). now apply (DIG d t). }
        destruct (p_boolean T s) as [v|] eqn:S7.
        { injection LC as ->. destruct (p_boolean_text _ _ _ S7) as (w & Hw & X). apply (WORD w); [|exact X].
          destruct Hw as [ -> | -> ]; [apply in_words_true|apply in_words_false]. }
        unfold p_null in LC. destruct (p_word_end T (t_null T) s) as [r1|] eqn:S8; [|discriminate]. injection LC as <- <-.
        apply (WORD (t_null T)); [apply in_words_null|]. eapply p_word_end_text; eauto. }
      destruct HX as (c & t' & X & NL & SY & N36 & N64 & I3).
      destruct (block_A c t' NL SY N36 N64) as (F0 & F1 & F2 & F4 & F5 & F6 & F7). pose proof (interp_none c t' I3) as F3.
      unfold chr in *. rewrite <- X in F0, F1, F2, F3, F4, F5, F6, F7. rewrite F0, F1, F2, F3, F4, F5, F6, F7. now rewrite (p_literal_loc _ _ _ A8). }
    (* 9 keyword *)
    destruct (P9 s) as [v|] eqn:A9.
    { injection H as ->. destruct (hd_keyword T TK _ _ A9) as (k0 & r0 & c0 & t0 & I & Es & EE & Ev & _ & _). injection Ev as E1 E2. subst k r.
      assert (X : xcut s r0 = k0) by (rewrite Es; apply xcut_app).
      destruct (lower_word_shape _ (tk_keywords T TK k0 I)) as (c & t' & E & LC & LT).
      destruct (lower_facts c LC) as ((SY & NL & Q & N36 & N64 & _) & D & _).
      destruct (block_A c t' NL SY N36 N64) as (F0 & F1 & F2 & F4 & F5 & F6 & F7).
      pose proof (interp_none c t' (or_intror (or_intror (second_not_quote _ LT)))) as F3.
      assert (F8 : P8 (c :: t') = None).
      { apply literal_none; auto; [right; now apply second_not_quote|]. intros w Iw. apply p_word_end_exact_none. rewrite <- E. now apply (tk_kw_no_word T TK). }
      unfold chr in *. rewrite <- E, <- X in F0, F1, F2, F3, F4, F5, F6, F7, F8. rewrite F0, F1, F2, F3, F4, F5, F6, F7, F8. now rewrite (p_keyword_loc _ _ _ A9). }
    (* 10 identifier *)
    destruct (P10 s) as [v|] eqn:A10.
    { injection H as ->. pose proof (p_ident_strict _ _ _ _ _ A10) as [_ LS].
      assert (LOC : P10 (xcut s r) = Some (k, [])) by (unfold xcut; rewrite (p_ident_trunc _ _ _ _ _ A10) by lia; now rewrite xcut_cut).
      unfold p_ident, p_ident_part, orelse in A10.
      destruct (p_ident_plain is_alpha is_alnum s) as [[w r0]|] eqn:PL.
      - (* plain identifier: its text is w itself *)
        injection A10 as <- <-. unfold p_ident_plain in PL. destruct s as [|c t]; [discriminate|].
        destruct (is_ident_start is_alpha c) eqn:ST; [|discriminate].
        destruct (span_while (is_ident_cont is_alnum) t) as [a r1] eqn:SW. injection PL as <- <-.
        apply span_while_spec in SW as (-> & FA & _).
        assert (X : xcut (c :: a ++ r1) r1 = c :: a) by (change (c :: a ++ r1) with ((c :: a) ++ r1); apply xcut_app).
        destruct (start_facts _ _ CK c ST) as ((SY & NL & Q & N36 & N64 & _) & D & N96).
        destruct (block_A c a NL SY N36 N64) as (F0 & F1 & F2 & F4 & F5 & F6 & F7).
        assert (SNQ : snq a).
        { destruct a as [|q a']; [exact I|]. cbn [forallb] in FA. apply andb_true_iff in FA as [Cq _].
          destruct (cont_facts _ _ CK q Cq) as ((_ & _ & QQ & _) & _). exact QQ. }
        pose proof (interp_none c a (or_intror (or_intror SNQ))) as F3.
        assert (NKW : forall w, kwlike w -> c :: a <> w).
        { intros w KW E. apply NK. exists w. rewrite X. repeat split; auto. now rewrite E. }
        assert (F8 : P8 (c :: a) = None).
        { apply literal_none; auto. intros w Iw. destruct (p_word_end T w (c :: a)) as [y|] eqn:PW; [exfalso|reflexivity].
          destruct (hd_word_end T TK _ _ _ Iw PW) as (_ & _ & _ & _ & E & EE).
          assert (w <> []) by (destruct (lower_word_shape _ (tk_words T TK w Iw)) as (? & ? & -> & _); discriminate).
          pose proof (ident_tail_not_end _ _ _ _ FA H E EE). subst y. rewrite app_nil_r in E. apply (NKW w); [now right|exact E]. }
        assert (F9 : P9 (c :: a) = None).
        { destruct (P9 (c :: a)) as [v|] eqn:PK; [exfalso|reflexivity].
          destruct (hd_keyword T TK _ _ PK) as (k0 & y & _ & _ & I & E & EE & _).
          assert (k0 <> []) by (destruct (lower_word_shape _ (tk_keywords T TK k0 I)) as (? & ? & -> & _); discriminate).
          pose proof (ident_tail_not_end _ _ _ _ FA H E EE). subst y. rewrite app_nil_r in E. apply (NKW k0); [now left|exact E]. }
        unfold chr in *. rewrite <- X in F0, F1, F2, F3, F4, F5, F6, F7, F8, F9. rewrite F0, F1, F2, F3, F4, F5, F6, F7, F8, F9. now rewrite LOC.
      - (* backtick identifier *)
        unfold p_ident_bt in A10. destruct (eat 96%N s) as [r0|] eqn:E0; [|destruct (eat 96%N s); discriminate]. apply eat_inv in E0. subst s.
        destruct (xcut_head 96%N r0 r) as [t' X]; [cbn [List.length] in *; lia|].
        destruct (block_A 96%N t') as (F0 & F1 & F2 & F4 & F5 & F6 & F7); try reflexivity; try discriminate.
        pose proof (interp_none 96%N t' (or_introl eq_refl)) as F3.
        assert (F8 : P8 (96%N :: t') = None).
        { apply literal_none; try reflexivity; [left; discriminate|]. intros w Iw. now apply word_end_none_by_head. }
        pose proof (keyword_none 96%N t' eq_refl) as F9.
        unfold chr in *. rewrite <- X in F0, F1, F2, F3, F4, F5, F6, F7, F8, F9. rewrite F0, F1, F2, F3, F4, F5, F6, F7, F8, F9. now rewrite LOC. }
    (* 11 comment *)
    destruct (P11 s) as [v|] eqn:A11; [|discriminate].
    injection H as ->. pose proof (p_comment_strict _ _ _ A11) as [_ LS]. destruct (hd_comment _ _ A11) as (t & ->).
    destruct (xcut_head 35%N t r) as [t' X]; [cbn [List.length] in *; lia|].
    destruct (block_A 35%N t') as (F0 & F1 & F2 & F4 & F5 & F6 & F7); try reflexivity; try discriminate.
    pose proof (interp_none 35%N t' (or_introl eq_refl)) as F3.
    assert (F8 : P8 (35%N :: t') = None).
    { apply literal_none; try reflexivity; [left; discriminate|]. intros w Iw. now apply word_end_none_by_head. }
    pose proof (keyword_none 35%N t' eq_refl) as F9.
    assert (F10 : P10 (35%N :: t') = None) by (apply ident_none; [apply (alpha_not_35 _ _ CK)|discriminate]).
    unfold chr in *. rewrite <- X in F0, F1, F2, F3, F4, F5, F6, F7, F8, F9, F10. rewrite F0, F1, F2, F3, F4, F5, F6, F7, F8, F9, F10.
    unfold xcut. rewrite (p_comment_trunc _ _ _ A11) by lia. now rewrite xcut_cut.
  Qed.

  Lemma p_token_loc s k r : p_token s = Some (k, r) -> ~ Known k (xcut s r) -> p_token (xcut s r) = Some (k, []).
  Proof. rewrite !p_token_chain. apply tok_chain_loc. Qed.


  (* ============================================================ (E) re-lexing a token's slice *)
  Notation p_lex_token := (p_lex_token is_alpha is_alnum T).
  Notation lex_loop := (lex_loop is_alpha is_alnum T).
  Local Open Scope N_scope.

  Definition hdnws (x : str) : Prop := match x with c :: _ => is_iws c = false | [] => True end.

  (* how a token came about: either a range (owning its whitespace) or what p_token returned *)
  Definition lexed_as (text r : str) (t : token) : Prop :=
    (range_text text /\ exists bl br, tkind t = KRange bl br /\ (bl = true <-> hdnws text) /\ (br = true <-> hdnws (rev text)))
    \/ (p_token (text ++ r) = Some (tkind t, r) /\ eat2 46 46 (text ++ r) = None /\ hdnws text).

  Lemma lex_loop_lexed f pos s ts : lex_loop f pos s = Some ts -> forall pre, blen pre = pos -> forall t, In t ts ->
    exists p text r, pre ++ s = p ++ text ++ r /\ tstart t = blen p /\ tend t = blen p + blen text /\ text <> [] /\ lexed_as text r t.
  Proof.
    revert pos s ts; induction f as [|f IH]; intros pos s ts H pre Hp t Hin; cbn [Lexer.lex_loop] in H; [discriminate|].
    destruct (p_lex_token pos s) as [[t0 r0]|] eqn:E.
    - destruct (lex_loop f (tend t0) r0) as [ts'|] eqn:L; [|discriminate]. injection H as <-.
      apply (p_lex_token_split _ _ _ WF) in E as (gap & text & -> & G & NE & S1 & S2 & D).
      destruct Hin as [<-|Hin].
      + exists (pre ++ gap), text, r0. rewrite <- app_assoc. split; [reflexivity|]. rewrite blen_app.
        split; [lia|]. split; [lia|]. split; [exact NE|].
        destruct D as [(-> & RT & _ & bl & br & K & B1 & B2)|(PT & E2 & HW)]; [left|right; auto].
        split; [exact RT|]. exists bl, br. auto.
      + destruct (IH _ _ _ L (pre ++ gap ++ text)) with (t := t) as (p & x & r' & E' & A & B & C & D'); auto.
        { rewrite !blen_app. lia. }
        exists p, x, r'. rewrite <- E'. rewrite <- !app_assoc. auto.
    - destruct (skip_ws s); [|discriminate]. injection H as <-. destruct Hin.
  Qed.

  Lemma p_token_nil : p_token [] = None.
  Proof.
    destruct (p_token []) as [[k r]|] eqn:E; [|reflexivity]. apply (p_token_strict _ _ _ WF) in E as [_ L]. cbn in L. lia.
  Qed.
  Lemma lex_loop_nil f pos : lex_loop (S f) pos [] = Some [].
  Proof. cbn [Lexer.lex_loop]. unfold Lexer.p_lex_token. cbn. fold p_token. now rewrite p_token_nil. Qed.

  Lemma lex_single text t0 : text <> [] -> p_lex_token 0 text = Some (t0, []) -> tok_finite t0 = true ->
    lex text = Some [start_token; t0].
  Proof.
    intros NE PL FIN. unfold Lexer.lex. destruct text as [|c x]; [congruence|]. cbn [List.length].
    change (lex_loop (S (S (List.length x))) 0 (c :: x)) with
      (match p_lex_token 0 (c :: x) with
       | Some (t, r) => match lex_loop (S (List.length x)) (tend t) r with Some ts => Some (t :: ts) | None => None end
       | None => match skip_ws (c :: x) with [] => Some [] | _ => None end
       end).
    rewrite PL. rewrite lex_loop_nil. cbn [forallb]. rewrite FIN. reflexivity.
  Qed.

  Lemma skip_ws_app_ws g y : forallb is_iws g = true -> skip_ws (g ++ y) = skip_ws y.
  Proof. induction g as [|c g IH]; intros F; [reflexivity|]. cbn [forallb] in F. apply andb_true_iff in F as [F1 F2]. cbn [app]. rewrite skip_ws_cons_ws by exact F1. auto. Qed.
  Lemma skip_ws_all g : forallb is_iws g = true -> skip_ws g = [].
  Proof. intros F. rewrite <- (app_nil_r g). rewrite skip_ws_app_ws by exact F. reflexivity. Qed.
  Lemma skip_ws_hdnws x : hdnws x -> skip_ws x = x.
  Proof. destruct x as [|c x]; [reflexivity|]. cbn. intros H. now apply skip_ws_cons_nws. Qed.
  Lemma bool_iff (a b : bool) (P : Prop) : (a = true <-> P) -> (b = true <-> P) -> a = b.
  Proof. intros [A1 A2] [B1 B2]. destruct a, b; try reflexivity.
    - symmetry. apply B2. apply A1. reflexivity.
    - apply A2. apply B1. reflexivity.
  Qed.
  Lemma hdnws_ws_prefix g y : forallb is_iws g = true -> hdnws y -> (hdnws (g ++ y) <-> g = []).
  Proof.
    intros F Hy. destruct g as [|c g]; cbn; [tauto|]. cbn [forallb] in F. apply andb_true_iff in F as [F _]. split; [congruence|discriminate].
  Qed.

  Lemma relex_range text bl br : range_text text -> (bl = true <-> hdnws text) -> (br = true <-> hdnws (rev text)) ->
    lex text = Some [start_token; {| tkind := KRange bl br; tstart := 0; tend := blen text |}].
  Proof.
    intros (g1 & g2 & -> & F1 & F2) B1 B2.
    apply lex_single; [destruct g1; discriminate| |reflexivity].
    match goal with |- ?G => assert (PL : G); [|exact PL] end.
    { unfold Lexer.p_lex_token. rewrite skip_ws_app_ws by exact F1. rewrite skip_ws_cons_nws by reflexivity.
      unfold eat2, eat. rewrite !N.eqb_refl. rewrite skip_ws_all by exact F2. cbn [blen]. rewrite N.sub_0_r, N.add_0_l.
      repeat f_equal.
      - apply (bool_iff _ _ (g1 = [])).
        + rewrite negb_involutive, Nat.eqb_eq, app_length. split; [intros L; destruct g1; [reflexivity|cbn in L; lia]|intros ->; reflexivity].
        + rewrite B1. now apply hdnws_ws_prefix.
      - apply (bool_iff _ _ (g2 = [])).
        + rewrite negb_involutive, Nat.eqb_eq. cbn [List.length]. split; [intros L; destruct g2; [reflexivity|cbn in L; lia]|intros ->; reflexivity].
        + rewrite B2. rewrite rev_app_distr. cbn [rev]. rewrite <- !app_assoc. cbn [app].
          rewrite hdnws_ws_prefix; [|rewrite forallb_forall in *; intros x Hx; apply F2; now apply in_rev|cbn; reflexivity].
          split; [intros R; apply (f_equal (@rev N)) in R; now rewrite rev_involutive in R|intros ->; reflexivity]. }
  Qed.

  Lemma relex_token text r k : p_token (text ++ r) = Some (k, r) -> eat2 46 46 (text ++ r) = None -> hdnws text -> text <> [] ->
    ~ Known k text -> (forall a b, tok_finite {| tkind := k; tstart := a; tend := b |} = true) ->
    lex text = Some [start_token; {| tkind := k; tstart := 0; tend := blen text |}].
  Proof.
    intros PT E2 HW NE NK FIN.
    pose proof (p_token_loc _ _ _ PT) as LOC. rewrite xcut_app in LOC. specialize (LOC NK).
    apply lex_single; [exact NE| |apply FIN]. destruct text as [|c x]; [congruence|].
    match goal with |- ?G => assert (PL : G); [|exact PL] end.
    { unfold Lexer.p_lex_token. rewrite skip_ws_hdnws by exact HW.
      assert (eat2 46 46 (c :: x) = None) as ->.
      { destruct (eat2 46 46 (c :: x)) as [y|] eqn:E; [|reflexivity]. apply eat2_inv in E. rewrite E in E2. cbn in E2. discriminate. }
      fold p_token. rewrite LOC. rewrite N.sub_diag. cbn [blen]. rewrite N.sub_0_r, !N.add_0_l. reflexivity. }
  Qed.

  (* the token t of source s is in the known class F12 *)
  Definition KeywordLikeIdent (s : str) (t : token) : Prop := Known (tkind t) (bslice s (tstart t) (tend t)).

  Lemma known_is_ident s t : KeywordLikeIdent s t -> exists w, tkind t = KIdent w /\ (In w (t_keywords T) \/ In w (words T)).
  Proof. intros (w & A & _ & C). exists w. auto. Qed.

  Theorem relex_partial s ts' t : lex s = Some (start_token :: ts') -> In t ts' -> ~ KeywordLikeIdent s t ->
    lex (bslice s (tstart t) (tend t)) = Some [start_token; {| tkind := tkind t; tstart := 0; tend := tend t - tstart t |}].
  Proof.
    intros H Hin NK. apply lex_inv in H as (ts & L & FIN & H). injection H as <-.
    assert (FT : tok_finite t = true) by (rewrite forallb_forall in FIN; auto).
    destruct (lex_loop_lexed _ _ _ _ L [] eq_refl t Hin) as (p & text & r & E & A & B & NE & D). cbn [app] in E. subst s.
    unfold KeywordLikeIdent in NK. rewrite (bslice_app p text r) in * by assumption.
    replace (tend t - tstart t) with (blen text) by lia.
    destruct D as [(RT & bl & br & K & B1 & B2)|(PT & E2 & HW)].
    - rewrite K. now apply relex_range.
    - apply (relex_token text r); auto.
  Qed.

End Relex.

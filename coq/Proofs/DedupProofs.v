(* deduplicate_select_items keeps every item that brings a name part not seen before -- and drops a
   perfectly distinct column whose parts happen to have been seen separately (F13). *)
From Coq Require Import List Bool Arith Lia.
From PV Require Import Model.Dedup.
Import ListNotations.

Lemma dmem_In x s : dmem x s = true <-> In x s.
Proof.
  unfold dmem. rewrite existsb_exists. split.
  - intros [y [Hy E]]. apply Nat.eqb_eq in E. subst; exact Hy.
  - intro H. exists x. split; [exact H | apply Nat.eqb_refl].
Qed.

Lemma dmem_incl x s t : incl s t -> dmem x s = true -> dmem x t = true.
Proof. intros Hi H. apply dmem_In. apply Hi. apply dmem_In; exact H. Qed.

Lemma dmem_false_incl x s t : incl s t -> dmem x t = false -> dmem x s = false.
Proof.
  intros Hi H. destruct (dmem x s) eqn:E; [|reflexivity]. rewrite (dmem_incl x s t Hi E) in H. discriminate.
Qed.

(* the seen set only ever contains parts of processed items *)
Lemma insert_until_new_incl ids : forall seen seen' k,
  insert_until_new seen ids = (seen', k) -> incl seen' (ids ++ seen) /\ incl seen seen'.
Proof.
  induction ids as [|i r IH]; intros seen seen' k H; cbn [insert_until_new] in H.
  - injection H as <- <-. split; intros x Hx; exact Hx.
  - destruct (dmem i seen) eqn:E.
    + destruct (IH seen seen' k H) as [H1 H2]. split; [|exact H2].
      intros x Hx. apply H1 in Hx. apply in_app_or in Hx as [Hx|Hx]; apply in_or_app; [left; right; exact Hx | right; exact Hx].
    + injection H as <- <-. split.
      * intros x [<-|Hx]; apply in_or_app; [left; left; reflexivity | right; exact Hx].
      * intros x Hx. right; exact Hx.
Qed.

Lemma insert_until_new_keeps ids : forall seen s,
  incl seen s -> existsb (fun i => negb (dmem i s)) ids = true -> snd (insert_until_new seen ids) = true.
Proof.
  induction ids as [|i r IH]; intros seen s Hi H; cbn [existsb] in H; [discriminate|].
  cbn [insert_until_new]. destruct (dmem i seen) eqn:E; [|reflexivity].
  apply orb_true_iff in H as [H|H].
  - apply negb_true_iff in H. rewrite (dmem_incl i seen s Hi E) in H. discriminate.
  - apply (IH seen s Hi H).
Qed.

Theorem dedup_keeps_fresh items : forall seen s,
  incl seen s -> all_fresh s items = true -> dedup seen items = items.
Proof.
  induction items as [|it r IH]; intros seen s Hi H; [reflexivity|].
  cbn [all_fresh] in H. apply andb_true_iff in H as [Hf Hr].
  destruct it as [ids|a|]; cbn [dedup fresh_wrt parts] in *.
  - pose proof (insert_until_new_keeps ids seen s Hi Hf) as Hk.
    destruct (insert_until_new seen ids) as [seen' k] eqn:E. cbn [snd] in Hk. subst k.
    f_equal. apply (IH seen' (ids ++ s)); [|exact Hr].
    destruct (insert_until_new_incl ids seen seen' true E) as [H1 _].
    intros x Hx. apply H1 in Hx. apply in_app_or in Hx as [Hx|Hx]; apply in_or_app; [left; exact Hx | right; apply Hi; exact Hx].
  - apply negb_true_iff in Hf. rewrite (dmem_false_incl a seen s Hi Hf).
    f_equal. apply (IH (a :: seen) ([a] ++ s)); [|exact Hr].
    intros x [<-|Hx]; [left; reflexivity | right; apply Hi; exact Hx].
  - f_equal. apply (IH seen ([] ++ s)); [exact Hi | exact Hr].
Qed.

(* nothing is ever added or reordered: the result is a sub-sequence *)
Theorem dedup_sublist items : forall seen, length (dedup seen items) <= length items.
Proof.
  induction items as [|it r IH]; intro seen; [cbn; lia|].
  destruct it as [ids|a|]; cbn [dedup].
  - destruct (insert_until_new seen ids) as [seen' k]. destruct k; cbn [length]; specialize (IH seen'); lia.
  - destruct (dmem a seen); cbn [length]; [specialize (IH seen) | specialize (IH (a :: seen))]; lia.
  - cbn [length]. specialize (IH seen). lia.
Qed.

(* dedup_flags is the decision of dedup *)
Lemma dedup_flags_spec items : forall seen, dedup seen items = select_flags items (dedup_flags seen items).
Proof.
  induction items as [|it r IH]; intro seen; [reflexivity|].
  destruct it as [ids|a|]; cbn [dedup dedup_flags].
  - destruct (insert_until_new seen ids) as [seen' k]. destruct k; cbn [select_flags]; rewrite IH; reflexivity.
  - destruct (dmem a seen); cbn [select_flags]; rewrite IH; reflexivity.
  - cbn [select_flags]. rewrite IH. reflexivity.
Qed.

Lemma dedup_flags_length items : forall seen, length (dedup_flags seen items) = length items.
Proof.
  induction items as [|it r IH]; intro seen; [reflexivity|].
  destruct it as [ids|a|]; cbn [dedup_flags].
  - destruct (insert_until_new seen ids) as [seen' k]. cbn [length]. rewrite IH. reflexivity.
  - destruct (dmem a seen); cbn [length]; rewrite IH; reflexivity.
  - cbn [length]. rewrite IH. reflexivity.
Qed.

(* when every item brings something new, every flag is true *)
Lemma dedup_flags_fresh items : forall seen s,
  incl seen s -> all_fresh s items = true -> dedup_flags seen items = map (fun _ => true) items.
Proof.
  induction items as [|it r IH]; intros seen s Hi H; [reflexivity|].
  cbn [all_fresh] in H. apply andb_true_iff in H as [Hf Hr].
  destruct it as [ids|a|]; cbn [dedup_flags fresh_wrt parts map] in *.
  - pose proof (insert_until_new_keeps ids seen s Hi Hf) as Hk.
    destruct (insert_until_new seen ids) as [seen' k] eqn:E. cbn [snd] in Hk. subst k.
    f_equal. apply (IH seen' (ids ++ s)); [|exact Hr].
    destruct (insert_until_new_incl ids seen seen' true E) as [H1 _].
    intros x Hx. apply H1 in Hx. apply in_app_or in Hx as [Hx|Hx]; apply in_or_app; [left; exact Hx | right; apply Hi; exact Hx].
  - apply negb_true_iff in Hf. rewrite (dmem_false_incl a seen s Hi Hf).
    f_equal. apply (IH (a :: seen) ([a] ++ s)); [|exact Hr].
    intros x [<-|Hx]; [left; reflexivity | right; apply Hi; exact Hx].
  - f_equal. apply (IH seen ([] ++ s)); [exact Hi | exact Hr].
Qed.

Lemma select_flags_all {A} (l : list A) : select_flags l (map (fun _ => true) l) = l.
Proof. induction l as [|x l IH]; [reflexivity|]. cbn [map select_flags]. rewrite IH. reflexivity. Qed.

(* Facts about the reference semantics Model/Rel.v that the property statements name explicitly
   (they pin the specification: weakening Rel.v breaks them). *)
From Coq Require Import List ZArith QArith NArith Bool Lia.
From PV Require Import Model.Rel.
Import ListNotations.
Local Open Scope Z_scope.

(* an aggregate without group yields exactly one row on ANY input, in particular on the empty one *)
Lemma agg_one_row cols l : length (apply (TAggregate cols) l) = 1%nat.
Proof. reflexivity. Qed.

(* a group over empty input yields no rows *)
Lemma group_empty_no_rows by_ cols : apply (TGroupAgg by_ cols) [] = [].
Proof. reflexivity. Qed.

(* count counts rows, null entries included *)
Lemma count_counts_nulls vs : agg_apply ACount vs = VInt (Z.of_nat (length vs)).
Proof. reflexivity. Qed.

(* the sum of no values is zero; nulls do not contribute *)
Lemma sum_empty_zero : agg_apply ASum [] = VInt 0.
Proof. reflexivity. Qed.

Lemma non_null_all_null vs : (forall v, In v vs -> v = VNull) -> non_null vs = [].
Proof.
  induction vs as [|v vs IH]; intro H; [reflexivity|].
  cbn [non_null filter]. rewrite (H v (or_introl eq_refl)). apply IH. intros x Hx. apply H. right; exact Hx.
Qed.

Lemma sum_all_null_zero vs : (forall v, In v vs -> v = VNull) -> agg_apply ASum vs = VInt 0.
Proof. intro H. unfold agg_apply. rewrite (non_null_all_null vs H). reflexivity. Qed.

Lemma min_max_avg_empty_null : agg_apply AMin [] = VNull /\ agg_apply AMax [] = VNull /\ agg_apply AAvg [] = VNull.
Proof. repeat split; reflexivity. Qed.

(* filter, derive, select never change the number of rows other than by the filter predicate *)
Lemma derive_preserves_rows cols l : length (apply (TDerive cols) l) = length l.
Proof. cbn [apply]. apply map_length. Qed.

Lemma select_preserves_rows cols l : length (apply (TSelect cols) l) = length l.
Proof. cbn [apply]. apply map_length. Qed.

(* a window derive over the whole relation keeps the row count *)
Lemma insert_length le x l : length (insert le x l) = S (length l).
Proof. induction l as [|y t IH]; cbn [insert]; [reflexivity|]. destruct (le x y); cbn [length]; [reflexivity | rewrite IH; reflexivity]. Qed.

Lemma isort_length le l : length (isort le l) = length l.
Proof. induction l as [|x t IH]; [reflexivity|]. unfold isort in *. cbn [fold_right]. rewrite insert_length. rewrite IH. reflexivity. Qed.

Lemma win_preserves_rows keys cols l : length (apply (TWin keys cols) l) = length l.
Proof.
  cbn [apply]. unfold win_cols. rewrite map_length, combine_length, seq_length.
  destruct keys; [apply Nat.min_id | rewrite isort_length; apply Nat.min_id].
Qed.

Lemma winf_preserves_rows fr keys cols l : length (apply (TWinF fr keys cols) l) = length l.
Proof.
  cbn [apply]. unfold win_colsf. rewrite map_length, combine_length, seq_length.
  destruct keys; [apply Nat.min_id | rewrite isort_length; apply Nat.min_id].
Qed.

(* take n returns at most n rows, and exactly the first n of the current order *)
Lemma take_n_is_firstn (n : Z) (l : rel) : (0 <= n) -> apply (TTake None (Some n)) l = firstn (Z.to_nat n) l.
Proof. intro H. cbn [apply]. unfold take_range. cbn [skipn]. rewrite Z.sub_0_r. reflexivity. Qed.

Lemma take_range_positions (s e : Z) (l : rel) : (1 <= s) ->
  apply (TTake (Some s) (Some e)) l = firstn (Z.to_nat (e - Z.of_nat (Z.to_nat (s - 1)))) (skipn (Z.to_nat (s - 1)) l).
Proof. intro H. reflexivity. Qed.

(* C07 -- lemmas about the scope checker of Model/SqlScope.v. *)
From Coq Require Import List NArith Bool Arith Lia.
From PV Require Import Model.SqlAst Model.SqlScope.
Import ListNotations.
Local Open Scope N_scope.

(* ------------------------------------------------------------------ small list facts *)
Lemma omap_app {A B} (f : A -> option B) l1 l2 : omap f (l1 ++ l2) = omap f l1 ++ omap f l2.
Proof. induction l1 as [|x l1 IH]; cbn; [reflexivity|]. destruct (f x); cbn; now rewrite IH. Qed.

Lemma omap_excl fr q ex : omap ref_of_obl (map (OExcl fr q) ex) = [].
Proof. induction ex; cbn; auto. Qed.

Lemma mem_In x l : mem x l = true <-> In x l.
Proof.
  unfold mem. rewrite existsb_exists. split.
  - intros (y & Hy & E). apply N.eqb_eq in E. now subst.
  - intros H. exists x. split; auto. apply N.eqb_refl.
Qed.

Lemma nodupb_NoDup l : nodupb l = true -> NoDup l.
Proof.
  induction l as [|x l IH]; cbn; intros H; [constructor|].
  apply andb_prop in H as [H1 H2]. constructor; auto.
  intros Hin. apply mem_In in Hin. rewrite Hin in H1. discriminate.
Qed.

(* ------------------------------------------------------------------ the verdict is the conjunction of the obligations *)
Lemma filter_nil_forall {A} (f : A -> bool) l : filter (fun o => negb (f o)) l = [] -> Forall (fun o => f o = true) l.
Proof.
  induction l as [|x l IH]; cbn; intros H; [constructor|].
  destruct (f x) eqn:E; cbn in H; [|discriminate]. constructor; auto.
Qed.

Lemma forall_filter_nil {A} (f : A -> bool) l : Forall (fun o => f o = true) l -> filter (fun o => negb (f o)) l = [].
Proof. induction 1 as [|x l H _ IH]; cbn; auto. now rewrite H. Qed.

Lemma ws_ok_iff P te q : well_scoped P te q = OK <-> Forall (fun o => obl_ok P o = true) (obligations P te q).
Proof.
  unfold well_scoped, failing. split.
  - intros H. apply filter_nil_forall. destruct (filter _ _); [reflexivity|discriminate].
  - intros H. now rewrite (forall_filter_nil _ _ H).
Qed.

Lemma okey_one P e :
  (forall te sc al cl, omap ref_of_obl (o_expr P te sc al cl e) = r_expr e) ->
  forall te sc outs,
    omap ref_of_obl (match e with
                     | ECol None c => [OBare sc outs COrder c]
                     | _ => o_expr P te sc (when (al_order_nested P) outs) COrder e
                     end) = r_expr e.
Proof.
  intros H te sc outs.
  destruct e as [[qq|] c | | qq | f a | f a p o fr | q0]; try apply H. reflexivity.
Qed.

(* ------------------------------------------------------------------ the traversal misses nothing:
   the obligations, read back as syntactic references, are exactly the references of the tree, in order *)
Theorem refs_complete_all P :
  (forall e te sc al cl, omap ref_of_obl (o_expr P te sc al cl e) = r_expr e) /\
  (forall x, (forall te sc al cl, omap ref_of_obl (o_exprs P te sc al cl x) = r_exprs x)
             /\ (forall te sc outs, omap ref_of_obl (o_okeys P te sc outs x) = r_exprs x)) /\
  (forall q te sc, omap ref_of_obl (o_query P te sc q) = r_query q) /\
  (forall c te rc seen, omap ref_of_obl (o_ctes P te rc seen c) = r_ctes c) /\
  (forall s te sc, omap ref_of_obl (o_setexpr P te sc s) = r_setexpr s) /\
  (forall i te sc fr, omap ref_of_obl (o_items P te sc fr i) = r_items i) /\
  (forall f te sc, omap ref_of_obl (o_from P te sc f) = r_from f).
Proof.
  apply ast_mutind; intros; cbn [o_expr o_exprs o_query o_okeys o_ctes o_setexpr o_items o_from
                                   r_expr r_exprs r_query r_ctes r_setexpr r_items r_from omap ref_of_obl].
  - destruct q; reflexivity.
  - reflexivity.
  - destruct q; reflexivity.
  - apply H.
  - rewrite !omap_app. destruct H as [H _], H0 as [H0 _], H1 as [H1 _]. now rewrite H, H0, H1.
  - apply H.
  - split; reflexivity.
  - destruct H0 as [H0a H0b]. split; intros; rewrite omap_app.
    + now rewrite H, H0a.
    + rewrite H0b. f_equal. now apply okey_one.
  - rewrite !omap_app. destruct H1 as [_ H1]. now rewrite H, H0, H1.
  - reflexivity.
  - rewrite omap_app. now rewrite H, H0.
  - rewrite !omap_app.
    destruct H as [H _], H2 as [H2 _], H3 as [H3 _], H4 as [H4 _].
    now rewrite H0, H1, H, H2, H3, H4.
  - rewrite !omap_app. cbn. rewrite app_nil_r. now rewrite H, H0.
  - apply H.
  - reflexivity.
  - rewrite omap_app. now rewrite H, H0.
  - destruct (N.eqb q 0); cbn [omap ref_of_obl]; rewrite omap_app, omap_excl, H; reflexivity.
  - reflexivity.
  - rewrite omap_app. destruct H as [H _]. now rewrite H, H0.
  - rewrite !omap_app. destruct H0 as [H0 _]. now rewrite H, H0, H1.
Qed.

Corollary refs_complete P te q : omap ref_of_obl (obligations P te q) = r_query q.
Proof. unfold obligations. apply (refs_complete_all P). Qed.

Theorem well_scoped_refs_resolve P te q :
  well_scoped P te q = OK ->
  exists os, Forall (fun o => obl_ok P o = true) os /\ omap ref_of_obl os = r_query q.
Proof.
  intros H. exists (obligations P te q). split; [now apply ws_ok_iff | apply refs_complete].
Qed.

Theorem aliases_unique P te q :
  well_scoped P te q = OK -> forall fr, In (OFrame fr) (obligations P te q) -> NoDup (frame_aliases fr).
Proof.
  intros H fr Hin. apply ws_ok_iff in H. rewrite Forall_forall in H.
  specialize (H _ Hin). cbn in H. now apply nodupb_NoDup.
Qed.

Theorem projection_nonempty P te q :
  well_scoped P te q = OK -> zero_cols P = false -> forall n, In (OProj n) (obligations P te q) -> n <> O.
Proof.
  intros H Z n Hin. apply ws_ok_iff in H. rewrite Forall_forall in H.
  specialize (H _ Hin). cbn in H. rewrite Z in H. cbn in H.
  destruct n; [discriminate | auto].
Qed.

Theorem setop_arity P te q :
  well_scoped P te q = OK -> forall a b, In (OArity a b) (obligations P te q) ->
  ropen a = false -> ropen b = false -> length (rcols a) = length (rcols b).
Proof.
  intros H a b Hin Ha Hb. apply ws_ok_iff in H. rewrite Forall_forall in H.
  specialize (H _ Hin). cbn in H. rewrite Ha, Hb in H. cbn in H. now apply Nat.eqb_eq.
Qed.

(* ------------------------------------------------------------------ CTE references point backwards *)
Definition allok (P : prof) (l : list obl) : Prop := Forall (fun o => obl_ok P o = true) l.

Lemma allok_app P l1 l2 : allok P (l1 ++ l2) <-> allok P l1 /\ allok P l2.
Proof. apply Forall_app. Qed.

Lemma allok_cons P o l : allok P (o :: l) <-> obl_ok P o = true /\ allok P l.
Proof. split; [intros H; inversion H; auto | intros [A B]; constructor; auto]. Qed.

Ltac cbo := cbn [o_expr o_exprs o_query o_okeys o_ctes o_setexpr o_items o_from env_ctes app].
Ltac cbo_in H := cbn [o_expr o_exprs o_query o_okeys o_ctes o_setexpr o_items o_from env_ctes app] in H.

Theorem direct_tables_resolve P :
  (forall e : expr, True) /\ (forall x : exprs, True) /\
  (forall q te sc, allok P (o_query P te sc q) -> forall m, In m (dt_query q) -> tab_ok te m = true) /\
  (forall c : ctes, True) /\
  (forall s te sc, allok P (o_setexpr P te sc s) -> forall m, In m (dt_setexpr s) -> tab_ok te m = true) /\
  (forall i : items, True) /\
  (forall f te sc, allok P (o_from P te sc f) -> forall m, In m (dt_from f) -> tab_ok te m = true).
Proof.
  apply ast_mutind; try (intros; exact I).
  - (* Query *)
    intros rc cs _ body IHb ord _ lim te sc H m Hm.
    destruct cs; cbn [dt_query] in Hm; [|contradiction].
    cbo_in H. apply allok_app in H as [H _]. eauto.
  - (* SSelect *)
    intros d don _ proj _ from IHf w _ g _ h _ te sc H m Hm. cbn [dt_setexpr] in Hm. cbo_in H.
    apply allok_cons in H as [_ H]. apply allok_cons in H as [_ H].
    apply allok_app in H as [H _]. eauto.
  - (* SSetOp *)
    intros op qt l IHl r IHr te sc H m Hm. cbn [dt_setexpr] in Hm. cbo_in H.
    apply allok_app in H as [Hl H]. apply allok_app in H as [Hr _].
    apply in_app_or in Hm as [Hm|Hm]; eauto.
  - (* SQuery *)
    intros q IHq te sc H m Hm. cbn [dt_setexpr] in Hm. cbo_in H. eauto.
  - (* TNil *) intros te sc _ m Hm. destruct Hm.
  - (* TTable *)
    intros j n a on _ r IHr te sc H m Hm. cbn [dt_from] in Hm. cbo_in H.
    apply allok_cons in H as [Hn H]. apply allok_app in H as [_ H].
    destruct Hm as [<-|Hm]; [exact Hn | eauto].
  - (* TDerived *)
    intros j q _ a on _ r IHr te sc H m Hm. cbn [dt_from] in Hm. cbo_in H.
    apply allok_app in H as [_ H]. apply allok_app in H as [_ H]. eauto.
Qed.

Lemma tab_ok_in te m : tab_ok te m = true -> m = 0 \/ In m (map te_name te).
Proof.
  unfold tab_ok. destruct (N.eqb m 0) eqn:E; [apply N.eqb_eq in E; auto|]. cbn. intros H. right.
  induction te as [|[[k r] v] te IH]; cbn in *; [discriminate|].
  destruct (N.eqb k m) eqn:Ek; [apply N.eqb_eq in Ek; auto | right; auto].
Qed.

Definition env_pre (te : tenv) (pre : list (name * query)) : tenv :=
  fold_left (fun te p => (fst p, out_query te (snd p), Normal) :: te) pre te.

Lemma env_pre_names pre : forall te m,
  In m (map te_name (env_pre te pre)) -> In m (map fst pre) \/ In m (map te_name te).
Proof.
  induction pre as [|[k q] pre IH]; cbn; intros te m H; [auto|].
  apply IH in H as [H|H]; [auto|]. cbn in H. destruct H as [H|H]; auto.
Qed.

Lemma o_ctes_at P rc : forall pre cs te seen n q post,
  allok P (o_ctes P te rc seen cs) -> ctes_list cs = pre ++ (n, q) :: post ->
  allok P (o_query P (if recv P rc then (n, out_query (env_pre te pre) q, SelfVis) :: env_pre te pre else env_pre te pre) [] q).
Proof.
  induction pre as [|[k q0] pre IH]; intros cs te seen n q post H E; destruct cs as [|n1 q1 cs1]; cbn in E; try discriminate.
  - injection E as -> -> _. cbn [o_ctes] in H. apply allok_cons in H as [_ H]. apply allok_app in H as [H _]. exact H.
  - injection E as -> -> E. cbn [o_ctes] in H. apply allok_cons in H as [_ H]. apply allok_app in H as [_ H].
    cbn [env_pre fold_left fst snd]. eapply IH; eauto.
Qed.

Theorem cte_order P te rc cs body ord lim :
  well_scoped P te (Query rc cs body ord lim) = OK ->
  forall pre n q post, ctes_list cs = pre ++ (n, q) :: post ->
  forall m, In m (dt_query q) ->
    m = 0 \/ In m (map te_name te) \/ In m (map fst pre) \/ (recv P rc = true /\ m = n).
Proof.
  intros H pre n q post E m Hm. apply ws_ok_iff in H. unfold obligations in H. cbn [o_query] in H.
  apply allok_app in H as [H _].
  pose proof (o_ctes_at P rc pre cs te [] n q post H E) as Hq.
  destruct (direct_tables_resolve P) as (_ & _ & Dq & _).
  specialize (Dq q _ _ Hq m Hm). apply tab_ok_in in Dq as [Z|Dq]; [auto|].
  destruct (recv P rc); cbn in Dq.
  - destruct Dq as [Dq|Dq]; [right; right; right; auto|].
    apply env_pre_names in Dq as [Dq|Dq]; auto.
  - apply env_pre_names in Dq as [Dq|Dq]; auto.
Qed.

(* ------------------------------------------------------------------ monotonicity: a relation the query never names
   can be added to the schema (at lowest priority) without changing the verdict of any obligation *)
Lemma lookup_ext te x n : n <> te_name x -> lookup (te ++ [x]) n = lookup te n.
Proof.
  intros Hn. induction te as [|[[k r] v] te IH]; cbn.
  - destruct x as [[k r] v]. cbn in *. destruct (N.eqb k n) eqn:E; [apply N.eqb_eq in E; congruence | reflexivity].
  - destruct (N.eqb k n); auto.
Qed.

Lemma tab_rel_ext te x n : n <> te_name x -> tab_rel (te ++ [x]) n = tab_rel te n.
Proof. intros H. unfold tab_rel. now rewrite lookup_ext. Qed.
Lemma tab_ok_ext te x n : n <> te_name x -> tab_ok (te ++ [x]) n = tab_ok te n.
Proof. intros H. unfold tab_ok. now rewrite lookup_ext. Qed.
Lemma hide_self_app te x : hide_self (te ++ [x]) = hide_self te ++ [hide1 x].
Proof. unfold hide_self. now rewrite map_app. Qed.
Lemma te_name_hide1 x : te_name (hide1 x) = te_name x.
Proof. destruct x as [[k r] []]; reflexivity. Qed.

Definition okv (P : prof) (l : list obl) : list bool := map (obl_ok P) l.
Lemma okv_app P l1 l2 : okv P (l1 ++ l2) = okv P l1 ++ okv P l2.
Proof. apply map_app. Qed.
Lemma okv_cons P o l : okv P (o :: l) = obl_ok P o :: okv P l.
Proof. reflexivity. Qed.

Section Mono.
  Variable P : prof.
  Variable nx : name.
  Definition fresh (l : list sref) : Prop := ~ In (STab nx) l.

  Lemma fresh_app l1 l2 : fresh (l1 ++ l2) -> fresh l1 /\ fresh l2.
  Proof. unfold fresh. intros H. split; intro Hx; apply H; apply in_or_app; auto. Qed.
  Lemma fresh_cons a l : fresh (a :: l) -> a <> STab nx /\ fresh l.
  Proof. unfold fresh. intros H. split; intro Hx; apply H; [left; auto | right; auto]. Qed.

  Lemma okey_ext e :
    (forall te x sc al cl, te_name x = nx -> okv P (o_expr P (te ++ [x]) sc al cl e) = okv P (o_expr P te sc al cl e)) ->
    forall te x sc outs, te_name x = nx ->
      okv P (match e with
             | ECol None c => [OBare sc outs COrder c]
             | _ => o_expr P (te ++ [x]) sc (when (al_order_nested P) outs) COrder e
             end)
      = okv P (match e with
               | ECol None c => [OBare sc outs COrder c]
               | _ => o_expr P te sc (when (al_order_nested P) outs) COrder e
               end).
  Proof.
    intros H te x sc outs Hx.
    destruct e as [[qq|] c | | qq | f a | f a p o fr | q0]; try (apply H; exact Hx). reflexivity.
  Qed.

  Theorem ext_all :
    (forall e, fresh (r_expr e) -> forall te x sc al cl, te_name x = nx ->
       okv P (o_expr P (te ++ [x]) sc al cl e) = okv P (o_expr P te sc al cl e)) /\
    (forall xs, fresh (r_exprs xs) ->
       (forall te x sc al cl, te_name x = nx -> okv P (o_exprs P (te ++ [x]) sc al cl xs) = okv P (o_exprs P te sc al cl xs)) /\
       (forall te x sc outs, te_name x = nx -> okv P (o_okeys P (te ++ [x]) sc outs xs) = okv P (o_okeys P te sc outs xs))) /\
    (forall q, fresh (r_query q) -> forall te x, te_name x = nx ->
       out_query (te ++ [x]) q = out_query te q /\
       forall sc, okv P (o_query P (te ++ [x]) sc q) = okv P (o_query P te sc q)) /\
    (forall c, fresh (r_ctes c) -> forall te x, te_name x = nx ->
       env_ctes (te ++ [x]) c = env_ctes te c ++ [x] /\
       forall rc seen, okv P (o_ctes P (te ++ [x]) rc seen c) = okv P (o_ctes P te rc seen c)) /\
    (forall s, fresh (r_setexpr s) -> forall te x, te_name x = nx ->
       out_setexpr (te ++ [x]) s = out_setexpr te s /\
       (forall sc, order_scope (te ++ [x]) sc s = order_scope te sc s) /\
       forall sc, okv P (o_setexpr P (te ++ [x]) sc s) = okv P (o_setexpr P te sc s)) /\
    (forall i, fresh (r_items i) -> forall te x sc fr, te_name x = nx ->
       okv P (o_items P (te ++ [x]) sc fr i) = okv P (o_items P te sc fr i)) /\
    (forall f, fresh (r_from f) -> forall te x, te_name x = nx ->
       from_frame (te ++ [x]) f = from_frame te f /\
       forall sc, okv P (o_from P (te ++ [x]) sc f) = okv P (o_from P te sc f)).
  Proof.
    apply ast_mutind.
    - (* ECol *) intros q c _ te x sc al cl _. destruct q; reflexivity.
    - (* ELit *) reflexivity.
    - (* EStar *) intros q _ te x sc al cl _. destruct q; reflexivity.
    - (* EApp *) intros f a IHa F te x sc al cl Hx. cbn [r_expr] in F. cbo. now apply IHa.
    - (* EWin *)
      intros f a IHa p IHp o IHo fr F te x sc al cl Hx. cbn [r_expr] in F.
      apply fresh_app in F as [Fa F]. apply fresh_app in F as [Fp Fo].
      cbo. rewrite !okv_app.
      destruct (IHa Fa) as [Ha _], (IHp Fp) as [Hp _], (IHo Fo) as [Ho _].
      now rewrite Ha, Hp, Ho.
    - (* ESub *)
      intros q IHq F te x sc al cl Hx. cbn [r_expr] in F. cbo. rewrite hide_self_app.
      assert (Hh : te_name (hide1 x) = nx) by now rewrite te_name_hide1.
      apply (proj2 (IHq F (hide_self te) (hide1 x) Hh)).
    - (* ENil *) intros _. split; reflexivity.
    - (* ECons *)
      intros e IHe r IHr F. cbn [r_exprs] in F. apply fresh_app in F as [Fe Fr].
      destruct (IHr Fr) as [Hr1 Hr2]. split.
      + intros te x sc al cl Hx. cbo. rewrite !okv_app. now rewrite (IHe Fe), Hr1.
      + intros te x sc outs Hx. cbo. rewrite !okv_app. rewrite Hr2 by exact Hx. f_equal.
        apply okey_ext; [apply (IHe Fe) | exact Hx].
    - (* Query *)
      intros rc cs IHc body IHb ord IHo lim F te x Hx. cbn [r_query] in F.
      apply fresh_app in F as [Fc F]. apply fresh_app in F as [Fb Fo].
      destruct (IHc Fc te x Hx) as [Ec Oc].
      destruct (IHb Fb (env_ctes te cs) x Hx) as (Eb & Sb & Ob).
      destruct (IHo Fo) as [_ Oo].
      split.
      + cbn [out_query]. now rewrite Ec, Eb.
      + intros sc. cbo. rewrite !okv_app. rewrite Oc, Ec, Ob, Sb, Eb. now rewrite Oo.
    - (* CNil *) intros _ te x _. split; reflexivity.
    - (* CCons *)
      intros n q IHq r IHr F te x Hx. cbn [r_ctes] in F. apply fresh_app in F as [Fq Fr].
      destruct (IHq Fq te x Hx) as [Eq _].
      split.
      + cbn [env_ctes]. rewrite Eq. rewrite app_comm_cons. apply (proj1 (IHr Fr _ x Hx)).
      + intros rc seen. cbo. rewrite !okv_cons, !okv_app. rewrite Eq. f_equal. f_equal.
        * destruct (recv P rc).
          -- rewrite app_comm_cons. apply (proj2 (IHq Fq _ x Hx)).
          -- apply (proj2 (IHq Fq _ x Hx)).
        * rewrite app_comm_cons. apply (proj2 (IHr Fr _ x Hx)).
    - (* SSelect *)
      intros d don IHd proj IHp from IHf w IHw g IHg h IHh F te x Hx. cbn [r_setexpr] in F.
      apply fresh_cons in F as [_ F]. apply fresh_cons in F as [_ F].
      apply fresh_app in F as [Ff F]. apply fresh_app in F as [Fp F]. apply fresh_app in F as [Fd F].
      apply fresh_app in F as [Fw F]. apply fresh_app in F as [Fg Fh].
      destruct (IHf Ff te x Hx) as [Ef Of].
      destruct (IHd Fd) as [Od _], (IHw Fw) as [Ow _], (IHg Fg) as [Og _], (IHh Fh) as [Oh _].
      split; [|split].
      + cbn [out_setexpr]. now rewrite Ef.
      + intros sc. cbn [order_scope]. now rewrite Ef.
      + intros sc. cbo. rewrite !okv_cons, !okv_app. rewrite Ef.
        rewrite Of, (IHp Fp), Od, Ow, Og, Oh; auto.
    - (* SSetOp *)
      intros op qt l IHl r IHr F te x Hx. cbn [r_setexpr] in F. apply fresh_app in F as [Fl Fr].
      destruct (IHl Fl te x Hx) as (El & _ & Ol), (IHr Fr te x Hx) as (Er & _ & Or).
      split; [|split].
      + cbn [out_setexpr]. exact El.
      + reflexivity.
      + intros sc. cbo. rewrite !okv_app. now rewrite Ol, Or, El, Er.
    - (* SQuery *)
      intros q IHq F te x Hx. cbn [r_setexpr] in F. destruct (IHq F te x Hx) as [Eq Oq].
      split; [|split]; [exact Eq | reflexivity | intros sc; cbo; apply Oq].
    - (* INil *) reflexivity.
    - (* IExpr *)
      intros e IHe a r IHr F te x sc fr Hx. cbn [r_items] in F. apply fresh_app in F as [Fe Fr].
      cbo. rewrite !okv_app. now rewrite (IHe Fe), (IHr Fr).
    - (* IWild *)
      intros q ek ex r IHr F te x sc fr Hx. cbn [r_items] in F. apply fresh_app in F as [_ Fr].
      cbo. rewrite !okv_cons, !okv_app. now rewrite (IHr Fr).
    - (* TNil *) intros _ te x _. split; reflexivity.
    - (* TTable *)
      intros j n a on IHo r IHr F te x Hx. cbn [r_from] in F.
      apply fresh_cons in F as [Fn F]. apply fresh_app in F as [Fo Fr].
      assert (Hn : n <> te_name x) by (rewrite Hx; congruence).
      destruct (IHr Fr te x Hx) as [Er Or]. destruct (IHo Fo) as [Oo _].
      split.
      + cbn [from_frame]. now rewrite tab_rel_ext, Er.
      + intros sc. cbo. rewrite !okv_cons, !okv_app. cbn [obl_ok]. rewrite tab_ok_ext by exact Hn.
        now rewrite Oo, Or.
    - (* TDerived *)
      intros j q IHq a on IHo r IHr F te x Hx. cbn [r_from] in F.
      apply fresh_app in F as [Fq F]. apply fresh_app in F as [Fo Fr].
      assert (Hh : te_name (hide1 x) = nx) by now rewrite te_name_hide1.
      destruct (IHq Fq (hide_self te) (hide1 x) Hh) as [Eq Oq].
      destruct (IHr Fr te x Hx) as [Er Or]. destruct (IHo Fo) as [Oo _].
      split.
      + cbn [from_frame]. rewrite hide_self_app. now rewrite Eq, Er.
      + intros sc. cbo. rewrite !okv_app. rewrite hide_self_app. now rewrite Oq, Oo, Or.
  Qed.
End Mono.

Lemma allok_okv P l1 l2 : okv P l1 = okv P l2 -> allok P l1 -> allok P l2.
Proof.
  revert l2. induction l1 as [|a l1 IH]; intros [|b l2] E H; cbn in E; try discriminate; [constructor|].
  injection E as E1 E2. inversion H; subst. constructor; [congruence | now apply IH].
Qed.

Theorem schema_monotone P te q x :
  ~ In (STab (te_name x)) (r_query q) ->
  (well_scoped P (te ++ [x]) q = OK <-> well_scoped P te q = OK).
Proof.
  intros F. destruct (ext_all P (te_name x)) as (_ & _ & Hq & _).
  destruct (Hq q F te x eq_refl) as [_ E]. specialize (E []).
  rewrite !ws_ok_iff. unfold obligations. split; apply allok_okv; [exact E | symmetry; exact E].
Qed.

(* C05, specification side: the frame rules of the reference semantics. *)
From Coq Require Import List ZArith NArith Bool Lia.
From PV Require Import Model.Rel.
Import ListNotations.

Lemma shadow_length r c : length (shadow r c) = S (length r).
Proof.
  unfold shadow. destruct c as [[q n] v]. destruct n as [n|]; rewrite app_length; cbn [length]; [rewrite map_length|]; lia.
Qed.

Lemma fold_shadow_length (A : Type) (f : row -> A -> col) (cols : list A) : forall acc,
  length (fold_left (fun acc c => shadow acc (f acc c)) cols acc) = (length acc + length cols)%nat.
Proof.
  induction cols as [|c r IH]; intro acc; cbn [fold_left length]; [lia|]. rewrite IH, shadow_length. lia.
Qed.

(* select: exactly one result column per selected item -- also when two items carry the same name *)
Lemma select_arity cols l r : In r (apply (TSelect cols) l) -> length r = length cols.
Proof.
  cbn [apply]. intro H. apply in_map_iff in H as [r0 [<- _]].
  rewrite (fold_shadow_length _ (fun acc c => mk_col (fst c) (snd c) (ev r0 (snd c))) cols []). reflexivity.
Qed.

(* derive: the input columns, then one column per derived item *)
Lemma derive_arity cols l r : In r (apply (TDerive cols) l) -> exists r0, In r0 l /\ length r = (length r0 + length cols)%nat.
Proof.
  cbn [apply]. intro H. apply in_map_iff in H as [r0 [<- Hr0]]. exists r0. split; [exact Hr0|].
  apply (fold_shadow_length _ (fun acc c => mk_col (fst c) (snd c) (ev acc (snd c))) cols r0).
Qed.

(* the later of two same-named columns keeps the name, the earlier one loses it but stays *)
Lemma shadow_unnames r q n v : forall c, In c (shadow r (q, Some n, v)) ->
  c = (q, Some n, v) \/ (exists q' v', c = (q', None, v')) \/ (exists q' n' v', c = (q', Some n', v') /\ n' <> n).
Proof.
  intros c H. unfold shadow in H. apply in_app_or in H as [H|[<-|[]]]; [|left; reflexivity].
  apply in_map_iff in H as [c0 [<- _]]. destruct c0 as [[q0 [n0|]] v0].
  - destruct (N.eqb n n0) eqn:E.
    + right; left. exists q0, v0. reflexivity.
    + right; right. exists q0, n0, v0. split; [reflexivity|]. apply N.eqb_neq in E. congruence.
  - right; left. exists q0, v0. reflexivity.
Qed.

(* The "Both" layer of Theta-1.  A printer that omits parentheses around a right operand of EQUAL
   strength under a left-associative parent (gen_expr.rs: Associativity::Both) prints the same tokens
   as the table-respecting tree [dnorm d]; so the text re-parses to [erase (dnorm d)], and
   [eval (dnorm d) = eval d] provided every rotated operator pair (listed by [rot_pairs]) satisfies
   the law  x o (y o2 z) = (x o y) o2 z. *)
From Coq Require Import List Arith Lia Bool.
From PV Require Import Model.Pratt Proofs.PrattProofs.
Import ListNotations.

Section PrattNorm.
Variable op uop atom fn : Type.
Variable prec : op -> nat.
Variable rassoc : op -> bool.
Variable uprec : uop -> nat.
Variable INF : nat.
Hypothesis assoc_consistent : forall a b, prec a = prec b -> rassoc a = rassoc b.
Hypothesis prec_lt_INF : forall o, S (prec o) < INF.
Hypothesis uprec_distinct : forall u o, uprec u <> prec o.

Notation dexpr := (Pratt.dexpr op uop atom fn).
Notation expr := (Pratt.expr op uop atom fn).
Notation dstrength := (Pratt.dstrength op uop atom fn prec uprec INF).
Notation lreq := (Pratt.lreq op prec rassoc).
Notation rreq := (Pratt.rreq op prec rassoc).
Notation dprint := (Pratt.dprint op uop atom fn).
Notation dpargs := (Pratt.dpargs op uop atom fn).
Notation dok := (Pratt.dok op uop atom fn prec rassoc uprec INF).
Notation dok_both := (Pratt.dok_both op uop atom fn prec rassoc uprec INF).
Notation dattach := (Pratt.dattach op uop atom fn prec).
Notation dnorm := (Pratt.dnorm op uop atom fn prec rassoc uprec INF).
Notation spine_pairs := (Pratt.spine_pairs op uop atom fn prec).
Notation rot_pairs := (Pratt.rot_pairs op uop atom fn prec rassoc uprec INF).
Notation dexpr_ind2 := (PrattProofs.dexpr_ind2 op uop atom fn).

(* ---- tokens ---- *)
Lemma dprint_dattach o wl l r : dprint (dattach o wl l r) = wrap wl (dprint l) ++ TO o :: dprint r.
Proof.
  induction r as [a|o2 wl2 a IHa wr2 b IHb|u w x IHx|f args]; cbn [Pratt.dattach]; try reflexivity.
  destruct (prec o2 =? prec o); [|reflexivity].
  cbn [Pratt.dprint wrap]. destruct wl2 as [|k].
  - rewrite IHa. cbn [wrap]. rewrite <- app_assoc. reflexivity.
  - cbn [Pratt.dprint]. rewrite <- app_assoc. reflexivity.
Qed.

Lemma dpargs_ext (args : list (nat * dexpr)) (g : dexpr -> dexpr) :
  Forall (fun p => dprint (g (snd p)) = dprint (snd p)) args ->
  dpargs (map (fun p => (fst p, g (snd p))) args) = dpargs args.
Proof.
  induction 1 as [|[n a] t Ha Ht IH]; [reflexivity|].
  cbn [map fst snd] in *. destruct t as [|[m b] t'].
  - cbn [map Pratt.dpargs]. rewrite Ha. reflexivity.
  - change (dpargs ((n, g a) :: map (fun p => (fst p, g (snd p))) ((m, b) :: t'))) with
      (wrap n (dprint (g a)) ++ TC :: dpargs (map (fun p => (fst p, g (snd p))) ((m, b) :: t'))).
    rewrite IH, Ha. reflexivity.
Qed.

Theorem dprint_dnorm d : dprint (dnorm d) = dprint d.
Proof.
  induction d as [a|o wl l wr r IHl IHr|u w x IHx|f args IH] using dexpr_ind2; cbn [Pratt.dnorm].
  - reflexivity.
  - destruct ((wr =? 0) && (dstrength (dnorm r) =? prec o) && negb (rassoc o)) eqn:E.
    + rewrite dprint_dattach, IHl, IHr. apply andb_true_iff in E as [E _]. apply andb_true_iff in E as [E _].
      apply Nat.eqb_eq in E. subst wr. reflexivity.
    + cbn [Pratt.dprint]. rewrite IHl, IHr. reflexivity.
  - cbn [Pratt.dprint]. rewrite IHx. reflexivity.
  - cbn [Pratt.dprint]. fold dpargs. rewrite dpargs_ext; auto.
Qed.

(* ---- the table is respected after normalisation ---- *)
Lemma dstrength_dattach o wl l r : dstrength (dattach o wl l r) = prec o.
Proof.
  destruct r as [a|o2 wl2 a wr2 b|u w x|f args]; cbn [Pratt.dattach]; try reflexivity.
  destruct (Nat.eqb_spec (prec o2) (prec o)); cbn [Pratt.dstrength]; auto.
Qed.

Lemma dstrength_dnorm d : dstrength (dnorm d) = dstrength d.
Proof.
  destruct d as [a|o wl l wr r|u w x|f args]; cbn [Pratt.dnorm]; try reflexivity.
  destruct ((wr =? 0) && _ && _); [apply dstrength_dattach|reflexivity].
Qed.

Lemma edge_intro n m b : (n = 0 -> m <= b) -> negb (n =? 0) || (m <=? b) = true.
Proof.
  intros H. destruct n; cbn; auto. apply Nat.leb_le. auto.
Qed.
Lemma edge_elim n m b : negb (n =? 0) || (m <=? b) = true -> n = 0 -> m <= b.
Proof. intros H E. subst n. cbn in H. apply Nat.leb_le. exact H. Qed.

Lemma dok_dattach o wl l : rassoc o = false -> dok l = true -> (wl = 0 -> lreq o <= dstrength l) ->
  forall r, dok r = true -> prec o <= dstrength r -> dok (dattach o wl l r) = true.
Proof.
  intros Ho Hl Hwl.
  assert (Base : forall r, dok r = true -> S (prec o) <= dstrength r -> dok (DBin o wl l 0 r) = true).
  { intros r Hr Hs. cbn [Pratt.dok]. rewrite Hl, Hr. cbn [andb].
    rewrite (edge_intro wl _ _ Hwl). cbn [andb]. apply edge_intro. intros _.
    unfold Pratt.rreq. rewrite Ho. exact Hs. }
  induction r as [a|o2 wl2 a IHa wr2 b IHb|u w x IHx|f args]; intros Hr Hs; cbn [Pratt.dattach].
  - apply Base; auto. cbn. pose proof (prec_lt_INF o). lia.
  - destruct (Nat.eqb_spec (prec o2) (prec o)) as [E|NE].
    + pose proof (assoc_consistent _ _ E) as Ho2. rewrite Ho in Ho2.
      cbn [Pratt.dok] in Hr. rewrite !andb_true_iff in Hr. destruct Hr as [[[Ha Hb] Hwa] Hwb].
      cbn [Pratt.dok]. rewrite Hb, Hwb, !andb_true_r.
      apply andb_true_iff; split.
      * destruct wl2 as [|k].
        -- apply IHa; auto. pose proof (edge_elim _ _ _ Hwa eq_refl) as Q.
           unfold Pratt.lreq in Q. rewrite Ho2 in Q. lia.
        -- cbn [Pratt.dok]. rewrite Hl, Ha. cbn [andb]. rewrite (edge_intro wl _ _ Hwl). reflexivity.
      * apply edge_intro. intros _. unfold Pratt.lreq. rewrite Ho2.
        destruct wl2; [rewrite dstrength_dattach|cbn [Pratt.dstrength]]; lia.
    + apply Base; auto. cbn [Pratt.dstrength] in *. lia.
  - apply Base; auto. cbn [Pratt.dstrength] in *. pose proof (uprec_distinct u o). lia.
  - apply Base; auto. cbn. pose proof (prec_lt_INF o). lia.
Qed.

Theorem dok_dnorm d : dok_both d = true -> dok (dnorm d) = true.
Proof.
  induction d as [a|o wl l wr r IHl IHr|u w x IHx|f args IH] using dexpr_ind2; cbn [Pratt.dok_both Pratt.dnorm]; intros OK.
  - reflexivity.
  - rewrite !andb_true_iff in OK. destruct OK as [[[Hl Hr] Hwl] Hwr].
    specialize (IHl Hl). specialize (IHr Hr).
    rewrite <- (dstrength_dnorm l) in Hwl. rewrite <- (dstrength_dnorm r) in Hwr.
    destruct ((wr =? 0) && (dstrength (dnorm r) =? prec o) && negb (rassoc o)) eqn:E.
    + rewrite !andb_true_iff in E. destruct E as [[E1 E2] E3].
      apply Nat.eqb_eq in E1, E2. apply negb_true_iff in E3.
      apply dok_dattach; auto. apply edge_elim. exact Hwl. lia.
    + cbn [Pratt.dok]. rewrite IHl, IHr, Hwl. cbn [andb]. apply edge_intro. intros W.
      pose proof (edge_elim _ _ _ Hwr W) as Q. subst wr. cbn [Nat.eqb andb] in E.
      unfold Pratt.rreq. destruct (rassoc o); [exact Q|].
      rewrite andb_true_r in E. apply Nat.eqb_neq in E. lia.
  - rewrite andb_true_iff in OK. destruct OK as [Hx Hw]. cbn [Pratt.dok].
    rewrite (IHx Hx), dstrength_dnorm. exact Hw.
  - cbn [Pratt.dok]. rewrite forallb_forall in *. intros p Hp.
    apply in_map_iff in Hp as [q [<- Hq]]. cbn [snd]. rewrite Forall_forall in IH. auto.
Qed.

(* Theta-1 for "Both" printers: the text re-parses to the normalised tree *)
Theorem both_roundtrip d : dok_both d = true ->
  exists g, Pratt.parse op uop atom fn prec rassoc uprec g 0 (dprint d) = Some (erase (dnorm d), []).
Proof.
  intros OK. rewrite <- dprint_dnorm.
  apply (dprint_parse_roundtrip op uop atom fn prec rassoc uprec INF assoc_consistent prec_lt_INF uprec_distinct).
  apply dok_dnorm. exact OK.
Qed.

(* the same with parentheses around the whole expression *)
Theorem both_roundtrip_wrapped w d : dok_both d = true ->
  exists g, Pratt.parse op uop atom fn prec rassoc uprec g 0 (wrap w (dprint d)) = Some (erase (dnorm d), []).
Proof.
  intros OK. rewrite <- dprint_dnorm.
  pose proof (parse_print op uop atom fn prec rassoc uprec INF assoc_consistent prec_lt_INF uprec_distinct _ (dok_dnorm d OK)) as G.
  destruct (child_parses op uop atom fn prec rassoc uprec INF prec_lt_INF _ G w 0 []) as [g Hg]; [lia|exact I|].
  exists g. rewrite app_nil_r in Hg. exact Hg.
Qed.

(* ---- values ---- *)
Variable V : Type.
Variable ev : op -> V -> V -> V.
Variable evu : uop -> V -> V.
Variable eva : atom -> V.
Variable evf : fn -> list V -> V.

Notation eval := (Pratt.eval op uop atom fn V ev evu eva evf).

Definition rot_ok (p : op * op) : Prop :=
  forall x y z, ev (fst p) x (ev (snd p) y z) = ev (snd p) (ev (fst p) x y) z.

Lemma eval_dattach o wl l r : (forall p, In p (spine_pairs o r) -> rot_ok p) ->
  eval (erase (dattach o wl l r)) = ev o (eval (erase l)) (eval (erase r)).
Proof.
  induction r as [a|o2 wl2 a IHa wr2 b IHb|u w x IHx|f args]; cbn [Pratt.dattach Pratt.spine_pairs]; try reflexivity.
  destruct (prec o2 =? prec o); [|reflexivity]. intros H.
  pose proof (H (o, o2) (or_introl eq_refl)) as R. unfold rot_ok in R. cbn [fst snd] in R.
  cbn [erase Pratt.eval]. destruct wl2 as [|k].
  - rewrite IHa; [symmetry; apply R|]. intros p Hp. apply H. right. exact Hp.
  - cbn [erase Pratt.eval]. symmetry. apply R.
Qed.

Theorem eval_dnorm d : (forall p, In p (rot_pairs d) -> rot_ok p) -> eval (erase (dnorm d)) = eval (erase d).
Proof.
  induction d as [a|o wl l wr r IHl IHr|u w x IHx|f args IH] using dexpr_ind2; cbn [Pratt.dnorm Pratt.rot_pairs]; intros H.
  - reflexivity.
  - assert (Hl : forall p, In p (rot_pairs l) -> rot_ok p) by (intros; apply H; apply in_or_app; auto).
    assert (Hr : forall p, In p (rot_pairs r) -> rot_ok p)
      by (intros; apply H; apply in_or_app; right; apply in_or_app; auto).
    destruct ((wr =? 0) && (dstrength (dnorm r) =? prec o) && negb (rassoc o)).
    + rewrite eval_dattach.
      * rewrite IHl, IHr; auto.
      * intros p Hp. apply H. apply in_or_app; right; apply in_or_app; right. exact Hp.
    + cbn [erase Pratt.eval]. rewrite IHl, IHr; auto.
  - cbn [erase Pratt.eval]. rewrite IHx; auto.
  - cbn [erase Pratt.eval]. f_equal. rewrite !map_map. cbn [snd].
    rewrite Forall_forall in IH. apply map_ext_in. intros p Hp. apply IH; auto.
    intros q Hq. apply H. apply in_flat_map. exists p; auto.
Qed.

End PrattNorm.

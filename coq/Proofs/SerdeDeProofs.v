(* What the model's deserialiser accepts is well typed and finite (no hypothesis on the environment or on the
   document: duplicate keys are an error for struct fields and last-wins for maps, as in serde), hence -- with the
   round-trip theorem -- re-serialising and re-reading ANY accepted document is stable. *)
From Coq Require Import List NArith ZArith Bool Lia.
From PV Require Import Lib.ListX Model.Json Model.VersionReq Model.Serde Model.SerdeDoc Proofs.SerdeCodecProofs Proofs.VersionReqProofs Proofs.SerdeProofs.
Import ListNotations.

Lemma jnodup_arr_eq l : jnodup (JArr l) = forallb jnodup l.
Proof. cbn [jnodup]. induction l as [|x l IH]; [reflexivity|]. cbn [forallb]. rewrite <- IH. reflexivity. Qed.

Lemma jnodup_obj_eq l : jnodup (JObj l) = nodupb (keys l) && forallb (fun kv => jnodup (snd kv)) l.
Proof.
  cbn [jnodup]. f_equal. induction l as [|[k x] l IH]; [reflexivity|]. cbn [forallb snd]. rewrite <- IH. reflexivity.
Qed.

Lemma insert_kv_keys_in {A} k (v : A) l x : In x (keys (insert_kv k v l)) -> x = k \/ In x (keys l).
Proof.
  induction l as [|[k' v'] l IH]; cbn [insert_kv keys map fst In]; intro H.
  - destruct H as [<-|[]]. left. reflexivity.
  - destruct (leqb k k') eqn:Ek; cbn [map fst In] in H.
    + apply leqb_spec in Ek. subst. destruct H as [<-|H]; [left; reflexivity | right; right; exact H].
    + destruct H as [<-|H]; [right; left; reflexivity|]. destruct (IH H) as [->|Hi]; [left; reflexivity | right; right; exact Hi].
Qed.

Lemma insert_kv_nodup {A} k (v : A) l : NoDup (keys l) -> NoDup (keys (insert_kv k v l)).
Proof.
  induction l as [|[k' v'] l IH]; cbn [insert_kv keys map fst]; intro H.
  - constructor; [intros [] | constructor].
  - destruct (leqb k k') eqn:Ek; cbn [map fst].
    + apply leqb_spec in Ek. subst. exact H.
    + inversion H as [|? ? Hn Hd]; subst. constructor; [|apply IH; exact Hd].
      intro Hi. apply insert_kv_keys_in in Hi as [->|Hi]; [rewrite leqb_refl in Ek; discriminate | contradiction].
Qed.

Lemma insert_kv_Forall {A} (Q : str * A -> Prop) k v l : Q (k, v) -> Forall Q l -> Forall Q (insert_kv k v l).
Proof.
  intros Hq. induction l as [|[k' v'] l IH]; cbn [insert_kv]; intro H; [constructor; [exact Hq | constructor]|].
  inversion H; subst. destruct (leqb k k'); constructor; try assumption. apply IH. assumption.
Qed.

Lemma dedup_last_good {A} (Q : str * A -> Prop) : forall l acc, Forall Q l -> Forall Q acc -> NoDup (keys acc) ->
  Forall Q (fold_left (fun a kv => insert_kv (fst kv) (snd kv) a) l acc)
  /\ NoDup (keys (fold_left (fun a kv => insert_kv (fst kv) (snd kv) a) l acc)).
Proof.
  induction l as [|[k v] l IH]; intros acc Hl Ha Hn; cbn [fold_left fst snd]; [split; assumption|].
  inversion Hl; subst. apply IH; [assumption | apply insert_kv_Forall; assumption | apply insert_kv_nodup; exact Hn].
Qed.

Lemma parse_dec_lt bd s v : parse_dec bd s = Some v -> (v < bd)%N.
Proof.
  unfold parse_dec.
  set (body := match s with c :: s' => if (c =? 43)%N then s' else s | [] => s end).
  destruct body as [|c b']; [discriminate|].
  destruct (val_lsd (rev (c :: b'))) as [v'|]; [|discriminate].
  destruct (v' <? bd)%N eqn:El; [|discriminate]. intro H. injection H as <-. apply N.ltb_lt. exact El.
Qed.

Lemma span_de_bounds t id s e :
  span_de t = Some (id, s, e) -> (id < u16_bound)%N /\ (s < usize_bound)%N /\ (e < usize_bound)%N.
Proof.
  unfold span_de. destruct (split_once colon t) as [[a rest]|]; [|discriminate].
  destruct (parse_dec u16_bound a) as [i|] eqn:E1; [|discriminate].
  destruct (split_once dash rest) as [[b c]|]; [|discriminate].
  destruct (parse_dec usize_bound b) as [s'|] eqn:E2; [|discriminate].
  destruct (parse_dec usize_bound c) as [e'|] eqn:E3; [|discriminate].
  intro H. injection H as <- <- <-. repeat split; eapply parse_dec_lt; eassumption.
Qed.

Lemma assoc_In {A} k (a : list (str * A)) x : assoc k a = Some x -> exists k', In (k', x) a.
Proof.
  induction a as [|[k' y] a IH]; cbn [assoc]; intro H; [discriminate|].
  destruct (leqb k k').
  - injection H as ->. exists k'. left. reflexivity.
  - destruct (IH H) as [k2 Hk]. exists k2. right. exact Hk.
Qed.

Section DeWt.
  Variable E : env.
  Notation wt := (Serde.wt E).

  Definition good (d : desc) (v : value) : Prop := wt d v /\ json_ok v = true.

  Lemma wt_of_unbox d v : wt (unbox d) v -> wt d v.
  Proof. induction d; intro H; try exact H. cbn [unbox] in H. apply wt_box. apply IHd. exact H. Qed.

  Lemma good_of_unbox d v : good (unbox d) v -> good d v.
  Proof. intros [H1 H2]. split; [apply wt_of_unbox; exact H1 | exact H2]. Qed.

  Definition wtp (sh : shape) (p : list value) : Prop :=
    match sh with
    | SUnit => p = []
    | SNewtype d => exists x, p = [x] /\ wt d x
    | STuple ds => Forall2 wt ds p
    | SStruct fs => Forall2 (fun f v => wt (fdesc f) v) fs p
    end.

  Lemma wt_enum_of_payload n vs tag sh p :
    lookup E n = Some (DefEnum vs) -> assoc tag vs = Some sh -> wtp sh p -> wt (DRef n) (VEnum tag p).
  Proof.
    intros Hl Ha Hp. destruct sh; cbn [wtp] in Hp.
    - subst. eapply wt_enum_unit; eassumption.
    - destruct Hp as [x [-> Hx]]. eapply wt_enum_newtype; eassumption.
    - eapply wt_enum_tuple; eassumption.
    - eapply wt_enum_struct; eassumption.
  Qed.

  Lemma struct_def_ref d df : struct_def E d = Some df -> exists n, unbox d = DRef n /\ lookup E n = Some df.
  Proof. unfold struct_def. destruct (unbox d); try discriminate. intro H. exists name. split; [reflexivity | exact H]. Qed.

  Lemma de_prim_good d j v : de_prim d j = Some v -> good d v.
  Proof.
    destruct d; destruct j; cbn [de_prim]; try discriminate; intro H.
    - injection H as <-. split; [constructor | reflexivity].
    - destruct n; try discriminate.
      destruct ((lo <=? z)%Z && (z <=? hi)%Z) eqn:Eb; [|discriminate]. injection H as <-.
      apply andb_true_iff in Eb as [H1 H2]. apply Z.leb_le in H1. apply Z.leb_le in H2.
      split; [constructor; assumption | reflexivity].
    - destruct n.
      + destruct (int_float_repr z); cbn [option_map] in H; [|discriminate]. injection H as <-. split; [constructor | reflexivity].
      + injection H as <-. split; [constructor | reflexivity].
    - injection H as <-. split; [constructor | reflexivity].
    - destruct s as [|c [|c2 s]]; try discriminate. injection H as <-. split; [constructor | reflexivity].
  Qed.

  Lemma de_opaque_good c j v : de_opaque c j = Some v -> good (DOpaque c) v.
  Proof.
    destruct c; cbn [de_opaque]; intro H.
    - destruct j; try discriminate. destruct (span_de s) as [[[id s0] e]|] eqn:Es; [|discriminate].
      injection H as <-. destruct (span_de_bounds _ _ _ _ Es) as [H1 [H2 H3]].
      split; [constructor; assumption | reflexivity].
    - destruct (ident_de j) as [[p n]|]; [|discriminate]. injection H as <-. split; [constructor | reflexivity].
    - destruct j; try discriminate. destruct (vreq_normalise s) as [n|] eqn:En; cbn [option_map] in H; [|discriminate].
      injection H as <-. split; [constructor; eapply vreq_normalise_normal; exact En | reflexivity].
  Qed.

  Section Body.
    Variable rec : desc -> json -> option value.
    Hypothesis Hrec : forall d j v, rec d j = Some v -> good d v.

    Lemma mapM_good d : forall l r, mapM (rec d) l = Some r ->
      Forall (wt d) r /\ forallb json_ok r = true.
    Proof.
      induction l as [|x l IH]; intros r H; cbn [mapM] in H.
      - injection H as <-. split; [constructor | reflexivity].
      - destruct (rec d x) as [y|] eqn:Ex; [|discriminate].
        destruct (mapM (rec d) l) as [r'|] eqn:Er; [|discriminate].
        injection H as <-. destruct (Hrec _ _ _ Ex) as [Hw Hj]. destruct (IH r' eq_refl) as [Hws Hjs].
        split; [constructor; assumption | cbn [forallb]; rewrite Hj, Hjs; reflexivity].
    Qed.

    Lemma mapM_map_good d : forall kvs r,
      mapM (fun kv : str * json => option_map (pair (fst kv)) (rec d (snd kv))) kvs = Some r ->
      Forall (fun kv => good d (snd kv)) r.
    Proof.
      induction kvs as [|[k x] kvs IH]; intros r H; cbn [mapM] in H.
      - injection H as <-. constructor.
      - cbn [fst snd] in *.
        destruct (rec d x) as [y|] eqn:Ex; cbn [option_map] in H; [|discriminate].
        destruct (mapM _ kvs) as [r'|] eqn:Er; [|discriminate].
        injection H as <-. constructor; [cbn [snd]; apply (Hrec _ _ _ Ex) | apply IH; reflexivity].
    Qed.

    Lemma de_tuple_good : forall ds l r, de_tuple rec ds l = Some r ->
      Forall2 wt ds r /\ forallb json_ok r = true.
    Proof.
      induction ds as [|d ds IH]; intros [|j l] r H; cbn [de_tuple] in H; try discriminate.
      - injection H as <-. split; [constructor | reflexivity].
      - destruct (rec d j) as [y|] eqn:Ex; [|discriminate].
        destruct (de_tuple rec ds l) as [r'|] eqn:Er; [|discriminate].
        injection H as <-. destruct (Hrec _ _ _ Ex) as [Hw Hj]. destruct (IH l r' Er) as [Hws Hjs].
        split; [constructor; assumption | cbn [forallb]; rewrite Hj, Hjs; reflexivity].
    Qed.

    Lemma de_seq_fields_good : forall fs l r, de_seq_fields rec fs l = Some r ->
      Forall2 (fun f v => wt (fdesc f) v) fs r /\ forallb json_ok r = true.
    Proof.
      induction fs as [|f fs IH]; intros l r H; cbn [de_seq_fields] in H.
      - destruct l; [|discriminate]. injection H as <-. split; [constructor | reflexivity].
      - destruct l as [|j l].
        + destruct (if fdefault f then default_of (fdesc f) else None) as [v|] eqn:Ev; [|discriminate].
          destruct (de_seq_fields rec fs []) as [r'|] eqn:Er; [|discriminate]. injection H as <-.
          destruct (IH [] r' Er) as [Hws Hjs].
          assert (good (fdesc f) v) as [Hw Hj].
          { destruct (fdefault f); [|discriminate]. unfold default_of in Ev. apply good_of_unbox.
            destruct (unbox (fdesc f)); try discriminate; injection Ev as <-; split; try reflexivity; repeat constructor. }
          split; [constructor; assumption | cbn [forallb]; rewrite Hj, Hjs; reflexivity].
        + destruct (rec (fdesc f) j) as [v|] eqn:Ev; [|discriminate].
          destruct (de_seq_fields rec fs l) as [r'|] eqn:Er; [|discriminate]. injection H as <-.
          destruct (IH l r' Er) as [Hws Hjs]. destruct (Hrec _ _ _ Ev) as [Hw Hj].
          split; [constructor; assumption | cbn [forallb]; rewrite Hj, Hjs; reflexivity].
    Qed.

    Lemma de_struct_seq_good fs l r : de_struct_seq rec fs l = Some r ->
      Forall2 (fun f v => wt (fdesc f) v) fs r /\ forallb json_ok r = true.
    Proof. unfold de_struct_seq. destruct (seq_ok fs); [apply de_seq_fields_good | discriminate]. Qed.

    Lemma de_payload_good sh j DF p :
      (forall fs kvs l, DF fs kvs = Some l ->
         Forall2 (fun f v => wt (fdesc f) v) fs l /\ forallb json_ok l = true) ->
      de_payload rec sh j DF = Some p -> wtp sh p /\ forallb json_ok p = true.
    Proof.
      intros HDF H. destruct sh; cbn [de_payload wtp] in *.
      - destruct j; try discriminate. injection H as <-. split; reflexivity.
      - destruct (rec d j) as [v|] eqn:Ex; [|discriminate]. injection H as <-.
        destruct (Hrec _ _ _ Ex) as [Hw Hj]. split; [exists v; split; [reflexivity | exact Hw]|].
        cbn [forallb]. rewrite Hj. reflexivity.
      - destruct j; try discriminate. apply (de_tuple_good ds l p H).
      - destruct j; try discriminate; [apply (de_struct_seq_good fs l p H) | apply (HDF fs l p H)].
    Qed.

    Lemma de_named_good f kvs v : de_named rec f kvs = Some v -> good (fdesc f) v.
    Proof.
      unfold de_named. destruct (assoc (fname f) kvs) as [j|] eqn:Ea.
      - intro H. apply (Hrec _ j). exact H.
      - destruct (fdefault f).
        + unfold default_of. intro H. apply good_of_unbox.
          destruct (unbox (fdesc f)); try discriminate; injection H as <-; split; try reflexivity; repeat constructor.
        + unfold is_option. intro H. apply good_of_unbox.
          destruct (unbox (fdesc f)); try discriminate; injection H as <-; split; try reflexivity; repeat constructor.
    Qed.

    Lemma find_variant_spec vs own : forall kvs tag sh j,
      find_variant vs own kvs = Some (tag, sh, j) -> assoc tag vs = Some sh /\ In (tag, j) kvs.
    Proof.
      induction kvs as [|[k x] kvs IH]; intros tag sh j H; cbn [find_variant] in H; [discriminate|].
      destruct (mem k own).
      - destruct (IH _ _ _ H) as [H1 H2]. split; [exact H1 | right; exact H2].
      - destruct (assoc k vs) as [sh'|] eqn:Ea.
        + injection H as <- <- <-. split; [exact Ea | left; reflexivity].
        + destruct (IH _ _ _ H) as [H1 H2]. split; [exact H1 | right; exact H2].
    Qed.

    Lemma de_flat_good f own kvs v : de_flat E rec f own kvs = Some v -> good (fdesc f) v.
    Proof.
      unfold de_flat. destruct (struct_def E (fdesc f)) as [[fs|vs|d']|] eqn:Es; try discriminate.
      destruct (find_variant vs own kvs) as [[[tag sh] j]|] eqn:Ef; [|discriminate].
      destruct (find_variant_spec _ _ _ _ _ _ Ef) as [Ha Hin].
      destruct (struct_def_ref _ _ Es) as [n [Hu Hl]].
      intro H. apply good_of_unbox. rewrite Hu.
      assert (forall p, de_payload rec sh j (fun _ _ => None) = Some p -> good (DRef n) (VEnum tag p)) as Hp.
      { intros p Hp. apply de_payload_good in Hp; [|intros; discriminate].
        destruct Hp as [Hw Hjs]. split; [eapply wt_enum_of_payload; eassumption | exact Hjs]. }
      destruct sh; try discriminate;
        (destruct (de_payload rec _ j _) as [p|] eqn:Ep; [|discriminate]; injection H as <-; apply Hp; reflexivity).
    Qed.

    Lemma de_fields_own_good own kvs : forall fs l,
      de_fields_own E rec own fs kvs = Some l ->
      Forall2 (fun f v => wt (fdesc f) v) fs l /\ forallb json_ok l = true.
    Proof.
      induction fs as [|f fs IH]; intros l H; cbn [de_fields_own] in H.
      - injection H as <-. split; [constructor | reflexivity].
      - destruct (if fflatten f then de_flat E rec f own kvs else de_named rec f kvs) as [v|] eqn:Ev; [|discriminate].
        destruct (de_fields_own E rec own fs kvs) as [r|] eqn:Er; [|discriminate].
        injection H as <-. destruct (IH r eq_refl) as [Hws Hjs].
        assert (good (fdesc f) v) as [Hw Hj].
        { destruct (fflatten f); [eapply de_flat_good | eapply de_named_good]; eassumption. }
        split; [constructor; assumption | cbn [forallb]; rewrite Hj, Hjs; reflexivity].
    Qed.

    Lemma de_fields_good fs kvs l : de_fields E rec fs kvs = Some l ->
      Forall2 (fun f v => wt (fdesc f) v) fs l /\ forallb json_ok l = true.
    Proof.
      intros H. unfold de_fields in H. destruct (nodupb _); [|discriminate]. eapply de_fields_own_good; eassumption.
    Qed.

    Lemma de_def_good n df j v : lookup E n = Some df -> de_def E rec df j = Some v -> good (DRef n) v.
    Proof.
      intros Hl H. destruct df as [fs|vs|d']; cbn [de_def] in H; [| |discriminate].
      - destruct j; try discriminate.
        + destruct (de_struct_seq rec fs l) as [r|] eqn:Er; cbn [option_map] in H; [|discriminate].
          injection H as <-. destruct (de_struct_seq_good _ _ _ Er) as [Hw Hj].
          split; [eapply wt_struct; eassumption | exact Hj].
        + destruct (de_fields E rec fs l) as [r|] eqn:Er; cbn [option_map] in H; [|discriminate].
          injection H as <-. destruct (de_fields_good _ _ _ Er) as [Hw Hj].
          split; [eapply wt_struct; eassumption | exact Hj].
      - destruct j; try discriminate.
        + destruct (assoc s vs) as [[| | |]|] eqn:Ea; try discriminate. injection H as <-.
          split; [eapply wt_enum_unit; eassumption | reflexivity].
        + destruct l as [|[tag x] [|kv l]]; try discriminate.
          destruct (assoc tag vs) as [sh|] eqn:Ea; [|discriminate].
          destruct (de_payload rec sh x (de_fields E rec)) as [p|] eqn:Ep; cbn [option_map] in H; [|discriminate].
          injection H as <-.
          apply de_payload_good in Ep; [|intros fs kvs r Hd; eapply de_fields_good; eassumption].
          destruct Ep as [Hw Hj]. split; [eapply wt_enum_of_payload; eassumption | exact Hj].
    Qed.

    Lemma de_body_good : forall d j v, de_body E rec d j = Some v -> good d v.
    Proof.
      induction d; intros j v H; cbn [de_body] in H;
        try (apply de_prim_good in H; exact H).
      - (* DOption *)
        destruct j;
          try (injection H as <-; split; [constructor | reflexivity]);
          (destruct (de_body E rec d _) as [w|] eqn:Eb; cbn [option_map] in H; [|discriminate];
           injection H as <-; destruct (IHd _ _ Eb) as [Hw Hj]; split; [constructor; exact Hw | exact Hj]).
      - (* DVec *)
        destruct j; try discriminate.
        destruct (mapM (rec d) l) as [r|] eqn:Er; cbn [option_map] in H; [|discriminate]. injection H as <-.
        destruct (mapM_good d l r Er) as [Hw Hj]. split; [constructor; exact Hw | exact Hj].
      - (* DMap *)
        destruct j; try discriminate.
        destruct (mapM _ l) as [r|] eqn:Er; cbn [option_map] in H; [|discriminate]. injection H as <-.
        pose proof (mapM_map_good d l r Er) as Hg.
        destruct (dedup_last_good (fun kv => good d (snd kv)) r [] Hg (Forall_nil _) (NoDup_nil _)) as [Hq Hn].
        fold (dedup_last r) in Hq, Hn. rewrite Forall_forall in Hq. split.
        + constructor; [exact Hn | apply Forall_forall; intros kv Hkv; apply (Hq kv Hkv)].
        + cbn [json_ok]. apply forallb_forall. intros kv Hkv. apply (Hq kv Hkv).
      - (* DBox *)
        destruct (IHd _ _ H) as [Hw Hj]. split; [constructor; exact Hw | exact Hj].
      - (* DTuple *)
        destruct j; try discriminate.
        destruct (de_tuple rec ds l) as [r|] eqn:Er; cbn [option_map] in H; [|discriminate]. injection H as <-.
        destruct (de_tuple_good ds l r Er) as [Hw Hj]. split; [constructor; exact Hw | exact Hj].
      - (* DRef *)
        destruct (lookup E name) as [df|] eqn:El; [|discriminate].
        destruct df as [fs|vs|d'].
        + eapply de_def_good; eassumption.
        + eapply de_def_good; eassumption.
        + destruct (de_prim d' j) as [w|] eqn:Ep; cbn [option_map] in H; [|discriminate]. injection H as <-.
          destruct (de_prim_good _ _ _ Ep) as [Hw Hj].
          split; [eapply wt_newtype; eassumption | cbn [json_ok forallb]; rewrite Hj; reflexivity].
      - (* DOpaque *)
        apply (de_opaque_good c j v H).
    Qed.
  End Body.

  Lemma de_fuel_good : forall f d j v, de_fuel E f d j = Some v -> good d v.
  Proof.
    induction f as [|f IH]; intros d j v H; [discriminate|].
    cbn [de_fuel] in H. eapply de_body_good; [exact IH | exact H].
  Qed.

  (* whatever the deserialiser accepts is a well-typed value without non-finite floats *)
  Theorem de_wt d j v : de E d j = Some v -> wt d v /\ json_ok v = true.
  Proof. intros H. exact (de_fuel_good _ d j v H). Qed.

  (* ... so a second trip through JSON changes nothing: for ANY accepted document, not only for prqlc's own *)
  Theorem reserialise_stable d j v :
    schema_ok E = true -> desc_ok E d = true -> de E d j = Some v -> de E d (ser E d v) = Some v.
  Proof.
    intros Hs Hd H. destruct (de_wt d j v H) as [Hw Hj]. apply serde_roundtrip; assumption.
  Qed.
End DeWt.

(* C13: lemmas about Model/InterpSpan.v *)
From Coq Require Import List NArith Bool Arith Lia.
From PV Require Import Lib.ListX Model.Checked Model.Lexer Model.Span Model.InterpSpan Proofs.SpanProofs.
Import ListNotations.

Local Arguments Nat.sub : simpl never.
Local Arguments Span.utf8_len : simpl never.

(* ------------------------------------------------------------ erasure: mq_items refines Lexer.mq_body *)
Theorem mq_items_erase T : forall fuel q n s,
  mq_body T fuel q n s =
  match mq_items T fuel q n s with Some (b, r) => Some (erase b, r) | None => None end.
Proof.
  induction fuel as [|f IH]; intros q n s; [reflexivity|].
  cbn [mq_body mq_items]. destruct (take_quotes q n s); [reflexivity|].
  destruct s as [|c r]; [reflexivity|].
  change (c =? 92)%N with (N.eqb c 92). destruct (N.eqb c 92).
  - destruct (p_escape T r) as [e r']. rewrite IH. destruct (mq_items T f q n r') as [[b r'']|]; reflexivity.
  - rewrite IH. destruct (mq_items T f q n r) as [[b r'']|]; reflexivity.
Qed.

(* ------------------------------------------------------------ what p_escape consumes *)
Lemma span_while_max_app p : forall m s h r, span_while_max p m s = (h, r) ->
  s = h ++ r /\ Forall (fun c => p c = true) h /\ length h <= m.
Proof.
  induction m as [|m IH]; intros s h r H; cbn [span_while_max] in H.
  - injection H as <- <-. repeat split; [constructor | cbn; lia].
  - destruct s as [|c s]; [injection H as <- <-; repeat split; [constructor | cbn; lia]|].
    destruct (p c) eqn:P.
    + destruct (span_while_max p m s) as [a b] eqn:E. injection H as <- <-.
      destruct (IH _ _ _ E) as (-> & F & L). repeat split; [constructor; assumption | cbn; lia].
    + injection H as <- <-. repeat split; [constructor | cbn; lia].
Qed.

Lemma is_hex_ascii c : is_hex c = true -> Span.utf8_len c = 1.
Proof.
  unfold is_hex, is_digit, Span.utf8_len. intro H.
  assert (c < 128)%N as L.
  { repeat (apply orb_true_iff in H as [H|H]); apply andb_true_iff in H as [_ H]; apply N.leb_le in H; lia. }
  apply N.ltb_lt in L. rewrite L. reflexivity.
Qed.

Lemma is_hex_val c : is_hex c = true -> (hex_val c < 16)%N.
Proof.
  unfold is_hex, hex_val, is_digit. intro H.
  destruct ((48 <=? c)%N && (c <=? 57)%N) eqn:D.
  - apply andb_true_iff in D as [D1 D2]. apply N.leb_le in D1. apply N.leb_le in D2. lia.
  - cbn [orb] in H. destruct ((97 <=? c)%N && (c <=? 102)%N) eqn:A.
    + apply andb_true_iff in A as [A1 A2]. apply N.leb_le in A1. apply N.leb_le in A2. lia.
    + cbn [orb] in H. apply andb_true_iff in H as [H1 H2]. apply N.leb_le in H1. apply N.leb_le in H2. lia.
Qed.

Lemma hex_byte_len h : Forall (fun c => is_hex c = true) h -> byte_len h = length h.
Proof.
  induction 1 as [|c h Hc _ IH]; [reflexivity|]. cbn [byte_len length]. rewrite (is_hex_ascii _ Hc), IH. reflexivity.
Qed.

Lemma utf8_small n : (n < 128)%N -> Span.utf8_len (char_from_u32 n) = 1.
Proof.
  intro H. unfold char_from_u32. assert ((n <? 55296)%N = true) as -> by (apply N.ltb_lt; lia).
  cbn [orb]. unfold Span.utf8_len. assert ((n <? 128)%N = true) as -> by (apply N.ltb_lt; lia). reflexivity.
Qed.

Lemma utf8_byte n : (n < 256)%N -> Span.utf8_len (char_from_u32 n) <= 2.
Proof.
  intro H. unfold char_from_u32. assert ((n <? 55296)%N = true) as -> by (apply N.ltb_lt; lia).
  cbn [orb]. unfold Span.utf8_len. destruct (n <? 128)%N; [lia|].
  assert ((n <? 2048)%N = true) as -> by (apply N.ltb_lt; lia). lia.
Qed.

Lemma hex_num_nil : hex_num [] = 0%N. Proof. reflexivity. Qed.
Lemma hex_num_1 a : hex_num [a] = hex_val a. Proof. unfold hex_num, digits_val. cbn [fold_left]. lia. Qed.
Lemma hex_num_2 a b : hex_num [a; b] = (hex_val a * 16 + hex_val b)%N.
Proof. unfold hex_num, digits_val. cbn [fold_left]. lia. Qed.

(* an escape sequence (the backslash and what p_escape consumes after it) occupies more bytes than the character it
   stands for; the only exception is a backslash at the very end of the input, which never ends up in a token *)
Lemma p_escape_width T r e r' :
  tables_ok T = true -> r <> [] -> p_escape T r = (e, r') ->
  exists used, r = used ++ r' /\ Span.utf8_len e < 1 + byte_len used.
Proof.
  intros OK Hne H. apply andb_true_iff in OK as [OKe OKx]. apply Nat.eqb_eq in OKx.
  destruct r as [|c r0]; [congruence|]. cbn [p_escape] in H.
  pose proof (utf8_len_bounds c) as Bc.
  destruct (lookup c (t_escapes T)) as [v|] eqn:L.
  - injection H as <- <-. exists [c]. split; [reflexivity|].
    assert (v < 128)%N as V.
    { clear -L OKe. induction (t_escapes T) as [|[a b] l IH]; cbn [lookup] in L; [discriminate|].
      cbn [forallb snd] in OKe. apply andb_true_iff in OKe as [O1 O2].
      destruct (c =? a)%N; [injection L as <-; apply N.ltb_lt; assumption | apply IH; assumption]. }
    unfold Span.utf8_len at 1. assert ((v <? 128)%N = true) as -> by (apply N.ltb_lt; assumption).
    cbn [byte_len]. lia.
  - destruct ((c =? 117)%N && peek_is 123%N r0) eqn:U.
    + (* \u{ hex* }? *)
      apply andb_true_iff in U as [_ P]. destruct r0 as [|b r1]; [discriminate|]. cbn [peek_is] in P.
      apply N.eqb_eq in P. subst b.
      replace (opt_eat 123%N (123%N :: r1)) with r1 in H by reflexivity.
      unfold p_escape_u in H. destruct (span_while_max is_hex (t_u_hex_max T) r1) as [h r2] eqn:S.
      destruct (span_while_max_app _ _ _ _ _ S) as (-> & Fh & _). injection H as <- <-.
      pose proof (hex_byte_len h Fh) as Bh.
      assert (Span.utf8_len (char_from_u32 (hex_num h)) < 3 + byte_len h) as W.
      { rewrite Bh. destruct h as [|a [|b h']].
        - rewrite hex_num_nil, utf8_small by lia. cbn; lia.
        - inversion Fh as [|? ? Ha _]; subst. rewrite hex_num_1, utf8_small by (pose proof (is_hex_val _ Ha); lia). cbn; lia.
        - pose proof (utf8_len_bounds (char_from_u32 (hex_num (a :: b :: h')))). cbn [length]. lia. }
      unfold opt_eat, eat. destruct r2 as [|d r3].
      * exists (c :: 123%N :: h). split; [reflexivity|].
        cbn [byte_len]. pose proof (utf8_len_bounds 123%N) as B123. set (u123 := Span.utf8_len 123%N) in *. clearbody u123. lia.
      * destruct (d =? 125)%N eqn:D.
        -- exists (c :: 123%N :: h ++ [d]). split; [cbn [app]; rewrite <- app_assoc; reflexivity|].
           cbn [byte_len]. rewrite byte_len_app. pose proof (utf8_len_bounds 123%N) as B123. set (u123 := Span.utf8_len 123%N) in *. clearbody u123. lia.
        -- exists (c :: 123%N :: h). split; [reflexivity|].
           cbn [byte_len]. pose proof (utf8_len_bounds 123%N) as B123. set (u123 := Span.utf8_len 123%N) in *. clearbody u123. lia.
    + destruct (c =? 120)%N eqn:X.
      * unfold p_escape_x in H. destruct (span_while_max is_hex (t_x_hex_len T) r0) as [h r2] eqn:S.
        destruct (span_while_max_app _ _ _ _ _ S) as (-> & Fh & Lh). pose proof (hex_byte_len h Fh) as Bh.
        exists (c :: h). destruct (Nat.eqb_spec (length h) (t_x_hex_len T)) as [E|E].
        -- injection H as <- <-. split; [reflexivity|]. cbn [byte_len]. rewrite OKx in E.
           destruct h as [|a [|b [|? ?]]]; cbn [length] in E; try lia.
           inversion Fh as [|? ? Ha Fb]; subst. inversion Fb as [|? ? Hb _]; subst.
           pose proof (is_hex_val _ Ha). pose proof (is_hex_val _ Hb).
           pose proof (utf8_byte (hex_num [a; b])) as W. rewrite hex_num_2 in W. specialize (W ltac:(lia)).
           rewrite hex_num_2. cbn [length] in Bh. lia.
        -- injection H as <- <-. split; [reflexivity|]. cbn [byte_len]. lia.
      * injection H as <- <-. exists [c]. split; [reflexivity|]. cbn [byte_len]. lia.
Qed.

(* ------------------------------------------------------------ the items of a token *)
Definition item_ok (it : item) : Prop :=
  if it_esc it then Span.utf8_len (it_char it) < it_src it else it_src it = Span.utf8_len (it_char it).

Lemma take_quotes_nil q n : n <> 0 -> take_quotes q n [] = None.
Proof. destruct n; [congruence | reflexivity]. Qed.

Lemma mq_items_nil T f q n : n <> 0 -> mq_items T f q n [] = None.
Proof. intro H. destruct f; [reflexivity|]. cbn [mq_items]. rewrite take_quotes_nil by assumption. reflexivity. Qed.

Theorem mq_items_ok T : tables_ok T = true -> forall fuel q n s items r,
  n <> 0 -> mq_items T fuel q n s = Some (items, r) -> Forall item_ok items.
Proof.
  intros OK. induction fuel as [|f IH]; intros q n s items r Hn H; [discriminate|].
  cbn [mq_items] in H. destruct (take_quotes q n s); [injection H as <- <-; constructor|].
  destruct s as [|c r0]; [discriminate|]. destruct (N.eqb c 92).
  - destruct (p_escape T r0) as [e r'] eqn:E.
    destruct (mq_items T f q n r') as [[b r'']|] eqn:M; [|discriminate]. injection H as <- <-.
    constructor; [|eapply IH; eassumption].
    destruct r0 as [|d r1].
    + (* backslash at the end of the input: the rest cannot close the string *)
      cbn [p_escape] in E. injection E as <- <-. rewrite mq_items_nil in M by assumption. discriminate.
    + destruct (p_escape_width T (d :: r1) e r' OK ltac:(discriminate) E) as (used & -> & W).
      unfold item_ok. cbn [it_esc it_char it_src]. rewrite byte_len_app. lia.
  - destruct (mq_items T f q n r0) as [[b r'']|] eqn:M; [|discriminate]. injection H as <- <-.
    constructor; [reflexivity | eapply IH; eassumption].
Qed.

(* content offset <= source offset, with equality exactly when no escape sequence precedes *)
Lemma offsets_compare items : Forall item_ok items -> forall k,
  content_bytes items k <= source_bytes items k /\
  (content_bytes items k = source_bytes items k <-> escapes_before items k = false).
Proof.
  induction 1 as [|it items Hit _ IH]; intro k.
  - unfold content_bytes, source_bytes, escapes_before. rewrite firstn_nil. cbn. split; [lia | tauto].
  - destruct k as [|k]; [unfold content_bytes, source_bytes, escapes_before; cbn; split; [lia | tauto]|].
    destruct (IH k) as [L E]. unfold content_bytes, source_bytes, escapes_before, erase in *.
    cbn [firstn map byte_len fold_right existsb]. unfold item_ok in Hit. destruct (it_esc it); cbn [orb].
    + split; [lia|]. split; [lia | discriminate].
    + rewrite Hit. split; [lia|]. rewrite <- E. lia.
Qed.

Lemma escapes_before_mono items k1 k2 : k1 <= k2 -> escapes_before items k2 = false -> escapes_before items k1 = false.
Proof.
  intros L H. unfold escapes_before in *. replace (firstn k1 items) with (firstn k1 (firstn k2 items)).
  - destruct (existsb it_esc (firstn k1 (firstn k2 items))) eqn:X; [|reflexivity].
    apply existsb_exists in X as (x & I & B). assert (In x (firstn k2 items)) as I2.
    { rewrite <- (firstn_skipn k1 (firstn k2 items)). apply in_or_app. left. exact I. }
    assert (existsb it_esc (firstn k2 items) = true) as Y by (apply existsb_exists; eauto). congruence.
  - rewrite firstn_firstn. f_equal. lia.
Qed.

(* ------------------------------------------------------------ exact characterisation of the rebasing *)
Theorem interp_reported_correct_iff items tok n k1 k2 :
  Forall item_ok items -> n <> 0 -> k1 <= k2 ->
  (interp_reported tok items k1 k2 = interp_true tok n items k1 k2 <-> n = 1 /\ escapes_before items k2 = false).
Proof.
  intros OK Hn L. unfold interp_reported, interp_true, interp_rebase, interp_actual.
  destruct (offsets_compare items OK k1) as [L1 E1]. destruct (offsets_compare items OK k2) as [L2 E2].
  split.
  - intro H. injection H as H1 H2. assert (n = 1) by lia. split; [assumption|]. apply E2. lia.
  - intros [-> N2]. pose proof (escapes_before_mono items k1 k2 L N2) as N1.
    apply E1 in N1. apply E2 in N2. rewrite N1, N2. f_equal; lia.
Qed.

(* the reported span is never to the right of the text: it is short by (n - 1) plus the excess of the escapes *)
Theorem interp_reported_le items tok n k1 k2 :
  Forall item_ok items -> n <> 0 ->
  sp_start (interp_reported tok items k1 k2) <= sp_start (interp_true tok n items k1 k2) /\
  sp_end (interp_reported tok items k1 k2) <= sp_end (interp_true tok n items k1 k2).
Proof.
  intros OK Hn. unfold interp_reported, interp_true, interp_rebase, interp_actual. cbn [sp_start sp_end].
  destruct (offsets_compare items OK k1) as [L1 _]. destruct (offsets_compare items OK k2) as [L2 _]. lia.
Qed.

(* whole token (after the s/f prefix) *)
Lemma quoted_items_ok T q s n items : tables_ok T = true -> quoted_items T q s = Some (n, items) ->
  n <> 0 /\ Forall item_ok items.
Proof.
  intros OK H. unfold quoted_items in H. destruct (count_prefix q s) as [m r]. destruct m as [|m]; [discriminate|].
  destruct (Nat.even (S m)).
  - injection H as <- <-. split; [discriminate | constructor].
  - destruct (mq_items T (S (length r)) q (S m) r) as [[b r']|] eqn:M; [|discriminate]. injection H as <- <-.
    split; [discriminate|]. eapply mq_items_ok; [exact OK | | exact M]. discriminate.
Qed.

Theorem interp_items_ok T s n items : tables_ok T = true -> interp_items T s = Some (n, items) ->
  n <> 0 /\ Forall item_ok items.
Proof.
  intros OK H. unfold interp_items in H. destruct (quoted_items T 34%N s) as [[n1 i1]|] eqn:Q.
  - injection H as <- <-. eapply quoted_items_ok; eassumption.
  - eapply quoted_items_ok; eassumption.
Qed.

(* the rebasing of an error over content characters [k1, k2) of a whole s-/f-string token is right exactly when the
   token has one quote character and no escape sequence precedes the end of the error *)
Theorem interp_token_correct_iff T s n items tok k1 k2 :
  tables_ok T = true -> interp_items T s = Some (n, items) -> k1 <= k2 ->
  (interp_reported tok items k1 k2 = interp_true tok n items k1 k2 <-> n = 1 /\ escapes_before items k2 = false).
Proof.
  intros OK H L. destruct (interp_items_ok T s n items OK H) as [Hn F].
  apply interp_reported_correct_iff; assumption.
Qed.

Theorem interp_token_partial T s n items tok k1 k2 :
  tables_ok T = true -> interp_items T s = Some (n, items) -> k1 <= k2 ->
  n = 1 -> escapes_before items k2 = false ->
  interp_reported tok items k1 k2 = interp_true tok n items k1 k2.
Proof. intros OK H L N E. apply (interp_token_correct_iff T s n items tok k1 k2 OK H L). split; assumption. Qed.

Theorem interp_token_reported_le T s n items tok k1 k2 :
  tables_ok T = true -> interp_items T s = Some (n, items) ->
  sp_start (interp_reported tok items k1 k2) <= sp_start (interp_true tok n items k1 k2) /\
  sp_end (interp_reported tok items k1 k2) <= sp_end (interp_true tok n items k1 k2).
Proof.
  intros OK H. destruct (interp_items_ok T s n items OK H) as [Hn F]. apply interp_reported_le; assumption.
Qed.

(* ------------------------------------------------------------ the byte span of the token *)
(* Lexer.v measures token spans with blen (N); Span.v with byte_len (nat): the same number *)
Lemma byte_len_blen s : N.of_nat (byte_len s) = blen s.
Proof.
  induction s as [|c s IH]; [reflexivity|]. cbn [byte_len blen]. rewrite Nat2N.inj_add, IH. f_equal.
  unfold Span.utf8_len, Lexer.utf8_len. destruct (c <? 128)%N; [reflexivity|]. destruct (c <? 2048)%N; [reflexivity|].
  destruct (c <? 65536)%N; reflexivity.
Qed.

Lemma all_src_cons it items : all_src (it :: items) = it_src it + all_src items.
Proof. unfold all_src, source_bytes. cbn [length firstn map fold_right]. reflexivity. Qed.

Lemma take_quotes_len q : forall n s r, take_quotes q n s = Some r -> byte_len s = n * Span.utf8_len q + byte_len r.
Proof.
  induction n as [|n IH]; intros s r H; cbn [take_quotes] in H; [injection H as <-; lia|].
  destruct s as [|c s]; [discriminate|]. destruct (c =? q)%N eqn:E; [|discriminate]. apply N.eqb_eq in E. subst c.
  apply IH in H. cbn [byte_len]. lia.
Qed.

Lemma count_prefix_len q : forall s n r, count_prefix q s = (n, r) -> byte_len s = n * Span.utf8_len q + byte_len r.
Proof.
  induction s as [|c s IH]; intros n r H; cbn [count_prefix] in H; [injection H as <- <-; reflexivity|].
  destruct (c =? q)%N eqn:E.
  - destruct (count_prefix q s) as [m r0] eqn:C. injection H as <- <-. apply N.eqb_eq in E. subst c.
    cbn [byte_len]. rewrite (IH _ _ eq_refl). lia.
  - injection H as <- <-. lia.
Qed.

(* what mq_items consumes: the source bytes of the items and the closing run of n quotes *)
Lemma mq_items_len T : tables_ok T = true -> forall fuel q n s items r,
  mq_items T fuel q n s = Some (items, r) -> byte_len s = all_src items + n * Span.utf8_len q + byte_len r.
Proof.
  intro OK. induction fuel as [|f IH]; intros q n s items r H; [discriminate|].
  cbn [mq_items] in H. destruct (take_quotes q n s) as [r0|] eqn:TQ.
  - injection H as <- <-. rewrite (take_quotes_len _ _ _ _ TQ). reflexivity.
  - destruct s as [|c r0]; [discriminate|]. destruct (N.eqb c 92) eqn:B.
    + apply N.eqb_eq in B. subst c. destruct (p_escape T r0) as [e r'] eqn:E.
      destruct (mq_items T f q n r') as [[b r'']|] eqn:M; [|discriminate]. injection H as <- <-.
      rewrite all_src_cons. cbn [it_src byte_len]. apply IH in M.
      assert (exists used, r0 = used ++ r') as (used & ->).
      { destruct r0 as [|d r1]; [cbn [p_escape] in E; injection E as <- <-; exists []; reflexivity|].
        destruct (p_escape_width T (d :: r1) e r' OK ltac:(discriminate) E) as (used & U & _). eauto. }
      rewrite byte_len_app in *. change (Span.utf8_len 92%N) with 1. lia.
    + destruct (mq_items T f q n r0) as [[b r'']|] eqn:M; [|discriminate]. injection H as <- <-.
      rewrite all_src_cons. cbn [it_src byte_len]. apply IH in M. lia.
Qed.

(* Lexer.p_multi_quoted and quoted_items go together: same content, and the consumed bytes are the quotes + the source
   bytes of the items *)
Lemma multi_quoted_items T q s : tables_ok T = true ->
  match p_multi_quoted T q s, quoted_items T q s with
  | Some (b, r), Some (n, items) =>
      b = erase items /\ byte_len s = quote_bytes n * Span.utf8_len q + all_src items + byte_len r
  | None, None => True
  | _, _ => False
  end.
Proof.
  intro OK. unfold p_multi_quoted, quoted_items. destruct (count_prefix q s) as [n r] eqn:C.
  pose proof (count_prefix_len _ _ _ _ C) as L. destruct n as [|n]; [exact I|].
  change (Coq.Init.Nat.even (S n)) with (Nat.even (S n)).
  assert (quote_bytes (S n) = if Nat.even (S n) then S n else 2 * S n) as QB by reflexivity.
  destruct (Nat.even (S n)) eqn:Ev.
  - split; [reflexivity|]. unfold all_src, source_bytes. cbn [length firstn map fold_right]. rewrite QB. lia.
  - rewrite mq_items_erase. destruct (mq_items T (S (length r)) q (S n) r) as [[b r']|] eqn:M; [|exact I].
    split; [reflexivity|]. apply (mq_items_len T OK) in M. rewrite QB, <- Nat.mul_assoc. lia.
Qed.

(* the token: prefix character, opening quotes, source bytes of the content, closing quotes *)
Theorem interp_token_span T c r0 k r' :
  tables_ok T = true -> p_interp T (c :: r0) = Some (k, r') ->
  exists n items, interp_items T r0 = Some (n, items) /\ k = KInterp c (erase items) /\
    byte_len (c :: r0) = Span.utf8_len c + quote_bytes n + all_src items + byte_len r'.
Proof.
  intros OK H. cbn [p_interp] in H. destruct (c_in c (t_interp T)); [|discriminate].
  unfold p_quoted, orelse in H. unfold interp_items.
  pose proof (multi_quoted_items T 34%N r0 OK) as M1. pose proof (multi_quoted_items T 39%N r0 OK) as M2.
  destruct (p_multi_quoted T 34%N r0) as [[b r]|].
  - destruct (quoted_items T 34%N r0) as [[n items]|]; [|contradiction]. destruct M1 as [-> L].
    injection H as <- <-. exists n, items. repeat split. cbn [byte_len]. change (Span.utf8_len 34%N) with 1 in L. lia.
  - destruct (quoted_items T 34%N r0) as [[n items]|]; [contradiction|].
    destruct (p_multi_quoted T 39%N r0) as [[b r]|]; [|discriminate].
    destruct (quoted_items T 39%N r0) as [[n items]|]; [|contradiction]. destruct M2 as [-> L].
    injection H as <- <-. exists n, items. repeat split. cbn [byte_len]. change (Span.utf8_len 39%N) with 1 in L. lia.
Qed.

(* split_off_back (Model/SplitOff.v), for pipelines of any length and any decision table:
   - the pipeline is cut, not rearranged: remaining ++ consumed = pipeline, and the atomic pipeline is the consumed part without
     its Selects, in order;
   - the walk stops only when forced: the table asks for a split in front of the transform, or a Compute (or a column of an
     Aggregate) cannot be materialized at the complexity its users allow;
   - requirements only accumulate, and every column a consumed transform requires is, at the end, either available inside the
     atomic pipeline (a column of its From / Joins, or a Compute materialized in it) or in `missing` -- the Select that is
     appended to the remaining pipeline, i.e. projected by the previous SELECT. *)
From Coq Require Import List Bool Arith Lia.
From PV Require Import Model.SplitBase Model.SplitOff Proofs.SplitProofs.
Import ListNotations.

Section P.
  Variable split : kind -> list nm -> bool.
  Variable records : kind -> bool.
  Notation step := (SplitOff.step split records).
  Notation walk := (SplitOff.walk split records).

  Definition notsel (t : tr) : bool := match t with TSelect _ => false | _ => true end.
  Definition following_after (s : state) (t : tr) : list nm :=
    if records (kind_of t) then as_name (kind_of t) :: s_following s else s_following s.

  (* the reason given for a stop is real *)
  Definition forced (s : state) (t : tr) (why : stop) : Prop :=
    match why with
    | StopTable => split (kind_of t) (s_following s) = true
    | StopCompute => exists c, t = TCompute c /\ split (kind_of t) (s_following s) = false /\
                     fst (can_materialize c (s_required s ++ get_requirements t (following_after s t) (s_required s))) = false
    | StopAggregate => exists p cs decls c, t = TAggregate p cs decls /\ split (kind_of t) (s_following s) = false /\ In (Some c) decls /\
                     fst (can_materialize c (s_required s ++ get_requirements t (following_after s t) (s_required s))) = false
    end.

  Lemma step_stop s t s' why : step s t = (s', Some why) -> forced s t why.
  Proof.
    unfold SplitOff.step. destruct (split (kind_of t) (s_following s)) eqn:Es.
    - intro H. injection H as _ <-. exact Es.
    - fold (following_after s t).
      destruct t as [cols|cols fe|c|partition cids decls|e|sup cids|range partition sort|cids| |cids| | | | ]; try (intro H; discriminate H).
      + (* compute *)
        destruct (can_materialize c _) as [ok mx] eqn:Ec. destruct ok; intro H; [discriminate H|].
        injection H as _ <-. exists c. repeat split; [exact Es|]. rewrite Ec. reflexivity.
      + (* aggregate *)
        destruct (forallb _ decls) eqn:Ef; intro H; [discriminate H|]. injection H as _ <-.
        assert (Hx : exists d, In d decls /\ (match d with Some c => fst (can_materialize c (s_required s ++ get_requirements (TAggregate partition cids decls) (following_after s (TAggregate partition cids decls)) (s_required s))) | None => true end) = false).
        { clear -Ef. induction decls as [|d r IH]; [discriminate|]. cbn [forallb] in Ef. apply andb_false_iff in Ef as [E|E].
          - exists d. split; [left; reflexivity | exact E].
          - destruct (IH E) as [x [Hx Ex]]. exists x. split; [right; exact Hx | exact Ex]. }
        destruct Hx as [[c|] [Hin Hc]]; [|discriminate]. exists partition, cids, decls, c. repeat split; assumption.
  Qed.

  (* a step that goes on: requirements grow, `curr` gets the transform unless it is a Select, availability grows *)
  Lemma step_go_split s t s' : step s t = (s', None) -> split (kind_of t) (s_following s) = false.
  Proof.
    unfold SplitOff.step. destruct (split (kind_of t) (s_following s)); [intro H; discriminate H | reflexivity].
  Qed.

  Lemma step_go s t s' : step s t = (s', None) ->
    s_following s' = following_after s t /\
    (exists more, s_required s' = s_required s ++ get_requirements t (following_after s t) (s_required s) ++ more) /\
    s_curr_rev s' = s_curr_rev s ++ (if notsel t then [t] else []) /\
    incl (s_avail s) (s_avail s').
  Proof.
    unfold SplitOff.step. destruct (split (kind_of t) (s_following s)); [intro H; discriminate H|].
    fold (following_after s t).
    destruct t as [cols|cols fe|c|partition cids decls|e|sup cids|range partition sort|cids| |cids| | | | ];
      try (intro H; injection H as <-; cbn [s_following s_required s_curr_rev s_avail notsel];
           split; [reflexivity | split; [exists []; rewrite !app_nil_r; reflexivity |
             split; [first [reflexivity | rewrite !app_nil_r; reflexivity] | first [apply incl_refl | apply incl_appr, incl_refl]]]]).
    - (* compute *)
      destruct (can_materialize c _) as [ok mx]. destruct ok; intro H; [|discriminate H]. injection H as <-.
      cbn [s_following s_required s_curr_rev s_avail notsel].
      split; [reflexivity | split; [eexists; rewrite <- app_assoc; reflexivity | split; [reflexivity | apply incl_tl, incl_refl]]].
    - (* aggregate *)
      destruct (forallb _ decls); intro H; [|discriminate H]. injection H as <-.
      cbn [s_following s_required s_curr_rev s_avail notsel].
      split; [reflexivity | split; [exists []; rewrite !app_nil_r; reflexivity | split; [reflexivity | apply incl_refl]]].
  Qed.

  (* the consumed transforms, in walk order, with the state each was met in *)
  Inductive consumed : state -> list tr -> state -> Prop :=
  | co_nil s : consumed s [] s
  | co_cons s t s1 r s2 : step s t = (s1, None) -> consumed s1 r s2 -> consumed s (t :: r) s2.

  Lemma walk_spec : forall rp s s' rem why, walk s rp = (s', rem, why) ->
    exists done s1, rp = done ++ rev rem /\ consumed s done s1 /\
      match why with
      | None => rem = [] /\ s' = s1
      | Some w => exists t rem', rem = rem' ++ [t] /\ step s1 t = (s', Some w)
      end.
  Proof.
    induction rp as [|t rest IH]; intros s s' rem why H; cbn [SplitOff.walk] in H.
    - injection H as <- <- <-. exists [], s. repeat split; constructor.
    - destruct (step s t) as [s1 [w|]] eqn:Est.
      + injection H as <- <- <-. exists [], s.
        split; [cbn [app]; symmetry; exact (rev_involutive (t :: rest))|]. split; [constructor|].
        exists t, (rev rest). split; [reflexivity | exact Est].
      + destruct (IH s1 s' rem why H) as (done & s2 & -> & Hc & Hw).
        exists (t :: done), s2. repeat split; [econstructor; eassumption | exact Hw].
  Qed.

  Lemma consumed_mono s done s' : consumed s done s' ->
    incl (s_required s) (s_required s') /\ incl (s_avail s) (s_avail s') /\
    s_curr_rev s' = s_curr_rev s ++ filter notsel done.
  Proof.
    induction 1 as [s|s t s1 r s2 Hs Hc IH]; [repeat split; try apply incl_refl; cbn; rewrite app_nil_r; reflexivity|].
    destruct (step_go s t s1 Hs) as (_ & [more Hr] & Hcur & Hav). destruct IH as (I1 & I2 & I3).
    repeat split.
    - eapply incl_tran; [|exact I1]. rewrite Hr. apply incl_appl, incl_refl.
    - eapply incl_tran; eassumption.
    - rewrite I3, Hcur, <- app_assoc. cbn [filter]. destruct (notsel t); reflexivity.
  Qed.

  (* every requirement a consumed transform raised is among the final requirements *)
  Lemma consumed_requirements s done s' : consumed s done s' ->
    forall pre t post, done = pre ++ t :: post ->
    exists si, consumed s pre si /\ incl (get_requirements t (following_after si t) (s_required si)) (s_required s').
  Proof.
    induction 1 as [s|s t0 s1 r s2 Hs Hc IH]; intros pre t post E; [destruct pre; discriminate|].
    destruct pre as [|x pre]; cbn [app] in E; injection E as -> ->.
    - exists s. split; [constructor|].
      destruct (step_go s t s1 Hs) as (_ & [more Hr] & _ & _). destruct (consumed_mono _ _ _ Hc) as (I1 & _ & _).
      eapply incl_tran; [|exact I1]. rewrite Hr. apply incl_appr, incl_appl, incl_refl.
    - destruct (IH pre t post eq_refl) as (si & Hci & Hi). exists si. split; [econstructor; eassumption | exact Hi].
  Qed.

  (* ---- clause order of what is consumed, under the table-level fact of SplitProofs ---- *)
  Hypothesis records_spec : forall k, records k = match k with KComputeAgg => false | _ => true end.
  Hypothesis table_ok : forall k f y, split k f = false -> In y f -> may_precede k y = true.

  Lemma consumed_ordered s done s' : consumed s done s' -> forall acc,
    clause_ordered acc = true -> SplitProofs.covers (s_following s) acc ->
    clause_ordered (rev (map kind_of done) ++ acc) = true.
  Proof.
    induction 1 as [s|s t s1 r s2 Hs Hc IH]; intros acc Hacc Hcov; [exact Hacc|].
    cbn [map rev]. rewrite <- app_assoc. cbn [app].
    pose proof (step_go_split _ _ _ Hs) as Esp.
    destruct (step_go _ _ _ Hs) as (Hf & _). apply IH.
    - rewrite SplitProofs.clause_ordered_cons. apply andb_true_iff; split; [|exact Hacc].
      apply forallb_forall. intros y Hy. destruct (Hcov y Hy) as [->|Hin].
      + apply orb_true_r.
      + rewrite (table_ok _ _ (as_name y) Esp Hin). reflexivity.
    - rewrite Hf. unfold following_after. intros y [<-|Hy].
      + rewrite records_spec. destruct (kind_of t); try (right; left; reflexivity). left; reflexivity.
      + destruct (Hcov y Hy) as [->|Hin]; [left; reflexivity|]. right.
        destruct (records (kind_of t)); [right; exact Hin | exact Hin].
  Qed.

  (* ---- the result record ---- *)
  Notation split_off_back := (SplitOff.split_off_back split records).

  Lemma nodup_nat_In l : forall seen x, In x (nodup_nat l seen) <-> In x l /\ ~ In x seen.
  Proof.
    induction l as [|a r IH]; intros seen x; cbn [nodup_nat]; [split; [intros []|intros [[] _]]|].
    destruct (existsb (Nat.eqb a) seen) eqn:E.
    - rewrite IH. apply existsb_exists in E as [y [Hy Ey]]. apply Nat.eqb_eq in Ey. subst y.
      split; [intros [H1 H2]; split; [right; exact H1 | exact H2] | intros [[->|H1] H2]; [contradiction | split; assumption]].
    - assert (Ha : ~ In a seen).
      { intro Hin. assert (existsb (Nat.eqb a) seen = true) by (apply existsb_exists; exists a; split; [exact Hin | apply Nat.eqb_refl]). congruence. }
      cbn [In]. rewrite IH. split.
      + intros [<-|[H1 H2]]; [split; [left; reflexivity | exact Ha] | split; [right; exact H1 | intro; apply H2; right; assumption]].
      + intros [[<-|H1] H2]; [left; reflexivity|]. destruct (Nat.eq_dec a x) as [->|Hne]; [left; reflexivity|].
        right. split; [exact H1 | intros [E'|H3]; [congruence | contradiction]].
  Qed.

  Definition avail_of (pipeline : list tr) (output : list nat) : list nat :=
    let '(s, _, _) := walk (mkState [] (should_select true (allow_up_to Aggregation (from_cids output))) [] []) (rev pipeline) in s_avail s.

  (* nothing is lost or reordered; the atomic pipeline is the consumed suffix without its Selects, plus the new Select *)
  Theorem split_off_back_partition pipeline output :
    let r := split_off_back pipeline output in
    exists remaining suffix, pipeline = remaining ++ suffix /\
      res_atomic r = TSelect (res_select r) :: filter notsel suffix /\
      res_remaining_len r = match remaining with [] => None | _ => Some (S (length remaining)) end.
  Proof.
    unfold SplitOff.split_off_back. set (s0 := mkState _ _ _ _).
    destruct (walk s0 (rev pipeline)) as [[s rem] why] eqn:Ew. cbn [res_atomic res_select res_remaining_len].
    destruct (walk_spec _ _ _ _ _ Ew) as (done & s1 & Erp & Hc & Hw).
    exists rem, (rev done). split.
    - rewrite <- (rev_involutive pipeline), Erp, rev_app_distr, rev_involutive. reflexivity.
    - split; [|reflexivity].
      assert (Hcur : s_curr_rev s = filter notsel done).
      { destruct (consumed_mono _ _ _ Hc) as (_ & _ & I3). cbn [s_curr_rev] in I3.
        destruct why as [w|].
        - destruct Hw as (t & rem' & _ & Hst). unfold SplitOff.step in Hst.
          destruct (split (kind_of t) (s_following s1)); [injection Hst as <- _; exact I3|].
          destruct t as [cols|cols fe|c|partition cids decls|e|sup cids|range partition sort|cids| |cids| | | | ]; try discriminate Hst.
          + destruct (can_materialize c _) as [ok mx]; destruct ok; [discriminate Hst|]. injection Hst as <- _. exact I3.
          + destruct (forallb _ decls); [discriminate Hst|]. injection Hst as <- _. exact I3.
        - destruct Hw as [_ ->]. exact I3. }
      rewrite rev_app_distr. cbn [rev app]. rewrite Hcur. f_equal.
      clear. induction done as [|t r IH]; [reflexivity|]. cbn [filter rev]. rewrite filter_app, <- IH. cbn [filter].
      destruct (notsel t); [cbn [rev]; reflexivity | rewrite app_nil_r; reflexivity].
  Qed.

  (* the kinds of the consumed suffix are clause-ordered, whatever made the walk stop *)
  Theorem split_off_back_clause_ordered pipeline output :
    let r := split_off_back pipeline output in
    exists remaining suffix, pipeline = remaining ++ suffix /\
      res_atomic r = TSelect (res_select r) :: filter notsel suffix /\ clause_ordered (map kind_of suffix) = true.
  Proof.
    unfold SplitOff.split_off_back. set (s0 := mkState _ _ _ _).
    destruct (walk s0 (rev pipeline)) as [[s rem] why] eqn:Ew. cbn [res_atomic res_select].
    destruct (walk_spec _ _ _ _ _ Ew) as (done & s1 & Erp & Hc & Hw).
    pose proof (split_off_back_partition pipeline output) as HP. unfold SplitOff.split_off_back in HP. fold s0 in HP. rewrite Ew in HP.
    cbn [res_atomic res_select res_remaining_len] in HP.
    exists rem, (rev done). split; [rewrite <- (rev_involutive pipeline), Erp, rev_app_distr, rev_involutive; reflexivity|].
    split.
    - destruct HP as (rem2 & suf2 & Ep & Ha & _).
      assert (Hcur : s_curr_rev s = filter notsel done).
      { destruct (consumed_mono _ _ _ Hc) as (_ & _ & I3). cbn [s_curr_rev] in I3.
        destruct why as [w|].
        - destruct Hw as (t & rem' & _ & Hst). unfold SplitOff.step in Hst.
          destruct (split (kind_of t) (s_following s1)); [injection Hst as <- _; exact I3|].
          destruct t as [cols|cols fe|c|partition cids decls|e|sup cids|range partition sort|cids| |cids| | | | ]; try discriminate Hst.
          + destruct (can_materialize c _) as [ok mx]; destruct ok; [discriminate Hst|]. injection Hst as <- _. exact I3.
          + destruct (forallb _ decls); [discriminate Hst|]. injection Hst as <- _. exact I3.
        - destruct Hw as [_ ->]. exact I3. }
      rewrite rev_app_distr. cbn [rev app]. rewrite Hcur. f_equal.
      clear. induction done as [|t r IH]; [reflexivity|]. cbn [filter rev]. rewrite filter_app, <- IH. cbn [filter].
      destruct (notsel t); [cbn [rev]; reflexivity | rewrite app_nil_r; reflexivity].
    - pose proof (consumed_ordered _ _ _ Hc [] eq_refl) as Ho. rewrite app_nil_r in Ho. rewrite map_rev. apply Ho.
      intros y [].
  Qed.

  (* the Select of the atomic pipeline is the requested output followed by the columns that some consumed transform asked to have
     SELECTed (the keys of a Sort / of a take's sort): this is what widens the top operand of a set operation when a Sort stands
     in front of it (the anchor's half of C07-N12) *)
  Lemma extend_select sel : forall out, exists extra,
    fold_left (fun o c => if existsb (Nat.eqb c) o then o else o ++ [c]) sel out = out ++ extra /\ incl extra sel.
  Proof.
    induction sel as [|c r IH]; intro out; [exists []; split; [rewrite app_nil_r; reflexivity | apply incl_refl]|].
    cbn [fold_left]. destruct (existsb (Nat.eqb c) out).
    - destruct (IH out) as (e & He & Hi). exists e. split; [exact He | apply incl_tl, Hi].
    - destruct (IH (out ++ [c])) as (e & He & Hi). exists (c :: e). split; [rewrite He, <- app_assoc; reflexivity|].
      intros x [<-|Hx]; [left; reflexivity | right; apply Hi, Hx].
  Qed.

  Theorem split_off_back_select_extends pipeline output :
    exists extra, res_select (split_off_back pipeline output) = output ++ extra /\
      (extra = [] -> length (res_select (split_off_back pipeline output)) = length output).
  Proof.
    unfold SplitOff.split_off_back. set (s0 := mkState _ _ _ _).
    destruct (walk s0 (rev pipeline)) as [[s rem] why]. cbn [res_select].
    destruct (extend_select (map r_col (filter r_sel (s_required s))) output) as (e & He & _).
    exists e. split; [exact He | intros ->; rewrite He, app_nil_r; reflexivity].
  Qed.

  (* the walk stops only when forced *)
  Theorem split_off_back_stop_forced pipeline output w :
    res_why (split_off_back pipeline output) = Some w ->
    exists remaining' t s, (exists suffix, pipeline = remaining' ++ t :: suffix) /\ forced s t w.
  Proof.
    unfold SplitOff.split_off_back. set (s0 := mkState _ _ _ _).
    destruct (walk s0 (rev pipeline)) as [[s rem] why] eqn:Ew. cbn [res_why]. intros ->.
    destruct (walk_spec _ _ _ _ _ Ew) as (done & s1 & Erp & _ & (t & rem' & -> & Hst)).
    exists rem', t, s1. split; [|exact (step_stop _ _ _ _ Hst)].
    exists (rev done). rewrite <- (rev_involutive pipeline), Erp, rev_app_distr, rev_involutive, <- app_assoc. reflexivity.
  Qed.

  (* every column a transform of the atomic pipeline requires is available in it or projected by the previous SELECT *)
  Theorem split_off_back_requirements_met pipeline output :
    let r := split_off_back pipeline output in
    forall t, In t (res_atomic r) -> notsel t = true ->
    exists s_t, forall q, In q (get_requirements t (following_after s_t t) (s_required s_t)) ->
      In (r_col q) (avail_of pipeline output) \/ In (r_col q) (res_missing r).
  Proof.
    unfold SplitOff.split_off_back, avail_of. set (s0 := mkState _ _ _ _).
    destruct (walk s0 (rev pipeline)) as [[s rem] why] eqn:Ew. cbn [res_atomic res_missing].
    destruct (walk_spec _ _ _ _ _ Ew) as (done & s1 & Erp & Hc & Hw).
    intros t Hin Hns.
    (* t was consumed *)
    assert (Hreq : incl (s_required s1) (s_required s) /\ s_curr_rev s = s_curr_rev s1).
    { destruct why as [w|].
      - destruct Hw as (t' & rem' & _ & Hst). unfold SplitOff.step in Hst.
        destruct (split (kind_of t') (s_following s1)); [injection Hst as <- _; split; [apply incl_refl | reflexivity]|].
        destruct t' as [cols|cols fe|c|partition cids decls|e|sup cids|range partition sort|cids| |cids| | | | ]; try discriminate Hst.
        + destruct (can_materialize c _) as [ok mx]; destruct ok; [discriminate Hst|]. injection Hst as <- _.
          cbn [s_required s_curr_rev]. split; [apply incl_appl, incl_refl | reflexivity].
        + destruct (forallb _ decls); [discriminate Hst|]. injection Hst as <- _.
          cbn [s_required s_curr_rev]. split; [apply incl_appl, incl_refl | reflexivity].
      - destruct Hw as [_ ->]. split; [apply incl_refl | reflexivity]. }
    destruct Hreq as [Hreq Hcur].
    destruct (consumed_mono _ _ _ Hc) as (_ & _ & I3). cbn [s_curr_rev app] in I3.
    rewrite Hcur, I3 in Hin. rewrite rev_app_distr in Hin. cbn [rev app] in Hin.
    destruct Hin as [E|Hin]; [subst t; discriminate Hns|].
    apply in_rev, filter_In in Hin as [Hin _].
    destruct (in_split _ _ Hin) as (pre & post & Ed).
    destruct (consumed_requirements _ _ _ Hc pre t post Ed) as (si & _ & Hi).
    exists si. intros q Hq.
    assert (Hq' : In q (s_required s)) by (apply Hreq, Hi, Hq).
    destruct (existsb (Nat.eqb (r_col q)) (s_avail s)) eqn:Ea.
    - left. apply existsb_exists in Ea as [y [Hy Ey]]. apply Nat.eqb_eq in Ey. subst y. exact Hy.
    - right. apply filter_In. split; [|rewrite Ea; reflexivity].
      apply nodup_nat_In. split; [apply in_map, Hq' | intros []].
  Qed.
End P.

(* C14 -- the statement layer: every well-formed program outside the two known classes parses back, through the model of
   parser/stmt.rs, from the tokens the model of Stmt::write emits. *)
From Coq Require Import List NArith Bool Arith Lia.
From PV Require Import Lib.ListX Model.FmtLit Model.FmtPratt Model.Fmt Model.FmtTy Model.FmtStmt Proofs.FmtPrattProofs Proofs.FmtProofs Proofs.FmtTyProofs.
Import ListNotations.

Set Warnings "-unused-intro-pattern".
Local Arguments N.max : simpl never.
Local Arguments N.ltb : simpl never.
Local Arguments N.eqb : simpl never.
Local Arguments Nat.leb : simpl never.

(* ------------------------------------------------------------------ more fuel never changes a parsed program *)
Section StmtMono.
  Variable T : ptab.

  Lemma p_anns_mono P Q (L : ple P Q) : forall n m ts r, n <= m -> p_anns P n ts = Some r -> p_anns Q m ts = Some r.
  Proof.
    induction n as [|n IH]; intros m ts r Hle H; [discriminate H|].
    destruct m as [|m]; [lia|]. cbn [p_anns] in *.
    destruct (has_nl ts); [|exact H].
    destruct (skip_nl ts) as [|t0 r0]; [exact H|].
    destruct t0; try exact H.
    destruct (q_bin P 0 r0) as [[a r1]|] eqn:E1; [|discriminate H]. rewrite (le_bin _ _ L _ _ _ E1).
    destruct (p_anns P n r1) as [[l r2]|] eqn:E2; [|discriminate H]. rewrite (IH m r1 _ ltac:(lia) E2). exact H.
  Qed.

  Lemma p_lines_mono P Q (L : ple P Q) : forall n m ts r, n <= m -> p_lines T P n ts = Some r -> p_lines T Q m ts = Some r.
  Proof.
    induction n as [|n IH]; intros m ts r Hle H; [discriminate H|].
    destruct m as [|m]; [lia|]. cbn [p_lines] in *.
    destruct (p_nested P true ts) as [[e r1]|] eqn:E1; [|discriminate H]. rewrite (p_nested_mono _ _ L _ _ _ E1).
    destruct (match r1 with TPipe :: r' => Some r' | TNL _ :: _ => Some (skip_nl r1) | _ => None end) as [[|t0 r0]|]; try exact H.
    destruct (starts_elem T t0); [|exact H].
    destruct (p_lines T P n (t0 :: r0)) as [[es r2]|] eqn:E2; [|discriminate H]. rewrite (IH m _ _ ltac:(lia) E2). exact H.
  Qed.

  Lemma p_stmt_mono P Q (L : ple P Q) (B B' : list tok -> option (list stmt * list tok)) :
    (forall ts r, B ts = Some r -> B' ts = Some r) ->
    forall n m ts r, n <= m -> p_stmt T P B n ts = Some r -> p_stmt T Q B' m ts = Some r.
  Proof.
    intros HB n m ts r Hle H. unfold p_stmt in *.
    destruct (p_anns P n ts) as [[anns r0]|] eqn:E0; [|discriminate H]. rewrite (p_anns_mono P Q L n m ts _ Hle E0).
    destruct (skip_nl r0) as [|t0 r1]; [exact H|].
    assert (ML : forall X, match p_lines T P n X with
                           | Some (es, r2) => match value_of es with
                               | None => None
                               | Some v => match match r2 with TPipe :: r' => r' | _ => skip_nl r2 end with
                                   | TKw KInto :: t2 :: r3 => match name_of t2 with Some nm => Some (SInto anns v nm, r3) | None => None end
                                   | _ => Some (SMain anns v, r2) end end
                           | None => None end = Some r ->
                         match p_lines T Q m X with
                           | Some (es, r2) => match value_of es with
                               | None => None
                               | Some v => match match r2 with TPipe :: r' => r' | _ => skip_nl r2 end with
                                   | TKw KInto :: t2 :: r3 => match name_of t2 with Some nm => Some (SInto anns v nm, r3) | None => None end
                                   | _ => Some (SMain anns v, r2) end end
                           | None => None end = Some r).
    { intros X HX. destruct (p_lines T P n X) as [[es r2]|] eqn:EL; [|discriminate HX].
      rewrite (p_lines_mono P Q L n m X _ Hle EL). exact HX. }
    destruct t0; try (apply ML; exact H).
    destruct k; try (apply ML; exact H).
    - (* let *)
      destruct r1 as [|t1 r2]; [apply ML; exact H|].
      destruct t1; try exact H; try (apply ML; exact H).
      destruct (p_lc P r2) as [[v r3]|] eqn:E1; [|discriminate H]. rewrite (p_lc_mono _ _ L _ _ E1). exact H.
    - (* module *)
      destruct r1 as [|t1 [|t2 r2]]; try (apply ML; exact H).
      destruct t2; try (apply ML; exact H). destruct k; try (apply ML; exact H).
      destruct (name_of t1); [|exact H].
      destruct (B r2) as [[ss r3]|] eqn:E1; [|discriminate H]. rewrite (HB _ _ E1). exact H.
    - (* import *)
      destruct r1 as [|t1 r2]; [apply ML; exact H|]. exact H.
    - (* type *)
      destruct r1 as [|t1 r2]; [apply ML; exact H|].
      destruct t1; try (apply ML; exact H).
      destruct (p_ty n r2) as [[ty0 r3]|] eqn:E1; [|discriminate H]. rewrite (p_ty_mono n m _ _ Hle E1). exact H.
  Qed.

  Lemma p_stmts_mono P Q (L : ple P Q) : forall n m ts r, n <= m -> p_stmts T P n ts = Some r -> p_stmts T Q m ts = Some r.
  Proof.
    induction n as [|n IH]; intros m ts r Hle H; [discriminate H|].
    destruct m as [|m]; [lia|]. cbn [p_stmts] in *.
    destruct (skip_nl ts) as [|t0 r0]; [exact H|].
    assert (K : match p_stmt T P (p_stmts T P n) n ts with
                | Some (s, r1) => match p_stmts T P n r1 with Some (ss, r') => Some (s :: ss, r') | None => None end
                | None => None end = Some r ->
                match p_stmt T Q (p_stmts T Q m) m ts with
                | Some (s, r1) => match p_stmts T Q m r1 with Some (ss, r') => Some (s :: ss, r') | None => None end
                | None => None end = Some r).
    { intro HX. destruct (p_stmt T P (p_stmts T P n) n ts) as [[s r1]|] eqn:E1; [|discriminate HX].
      rewrite (p_stmt_mono P Q L _ _ (fun ts0 r2 => IH m ts0 r2 ltac:(lia)) n m ts _ ltac:(lia) E1).
      destruct (p_stmts T P n r1) as [[ss r']|] eqn:E2; [|discriminate HX]. rewrite (IH m r1 _ ltac:(lia) E2). exact HX. }
    destruct t0; try (apply K; exact H). exact H.
  Qed.

  Theorem parse_prog_mono f g ts p : f <= g -> parse_prog T f ts = Some p -> parse_prog T g ts = Some p.
  Proof.
    intros Hle H. unfold parse_prog in *.
    destruct (p_stmts T (par T f) f (TNL O :: ts)) as [[ss r]|] eqn:E; [|discriminate H].
    rewrite (p_stmts_mono _ _ (par_le T f g Hle) f g _ _ Hle E). exact H.
  Qed.
End StmtMono.

Section StmtRoundTrip.
  Variable F : ftab.
  Variable T : ptab.
  Variable nb nu : nat.
  Hypothesis C : compat_facts F T nb nu.

  Notation ops_ok := (FmtPratt.ops_ok nb nu).
  Notation closes := (FmtProofs.closes).

  Ltac bsplit := repeat match goal with H : (_ && _) = true |- _ => apply andb_true_iff in H; destruct H end.

  Lemma forallb_and2 (p q : expr -> bool) l : forallb p l = true -> forallb q l = true -> forallb (fun a => p a && q a) l = true.
  Proof. induction l as [|a t IH]; [reflexivity|]. cbn [forallb]. intros H1 H2. bsplit. rewrite H, H1, IH by assumption. reflexivity. Qed.

  (* ---------------- line breaks *)
  Definition all_nl (ts : list tok) : Prop := Forall (fun t => match t with TNL _ => True | _ => False end) ts.
  Definition no_nl_head (ts : list tok) : Prop := match ts with TNL _ :: _ => False | _ => True end.

  Lemma skip_nl_app pre X : all_nl pre -> no_nl_head X -> skip_nl (pre ++ X) = X.
  Proof.
    induction 1 as [|t pre Ht Hpre IH]; intro HX; cbn [app skip_nl].
    - destruct X as [|[] ?]; try reflexivity. contradiction.
    - destruct t; try contradiction. apply IH; exact HX.
  Qed.
  Lemma has_nl_app pre X : all_nl pre -> pre <> [] -> has_nl (pre ++ X) = true.
  Proof. intros H Hne. destruct pre as [|t pre]; [contradiction Hne; reflexivity|]. inversion H; subst. destruct t; try contradiction. reflexivity. Qed.
  Lemma all_nl_cons k pre : all_nl pre -> all_nl (TNL k :: pre).
  Proof. intro H. constructor; [exact I | exact H]. Qed.

  (* ---------------- the first token of a list element *)
  Lemma elem_start a st : wf a = true -> ops_ok a = true -> is_named a = false ->
    exists t ts, fmt F a st = t :: ts /\ starts_elem T t = true.
  Proof.
    intros Hw Ho Hn. destruct (plain a) eqn:Hp.
    - destruct (fmt_head' F T nb nu C a (plain_operand a Hp) Hw Ho st (okst_plain F a _ Hp)) as [t [ts [E Hh]]].
      exists t, ts. split; [exact E|]. destruct Hh as [Hh| ->]; [|reflexivity].
      destruct t; try contradiction; try reflexivity. cbn [head_ok] in Hh. destruct Hh as [Hh _].
      unfold starts_elem, starts_arg. destruct (un_of_sym T s); [reflexivity | contradiction Hh; reflexivity].
    - destruct st as [[ctx pos] unb]. destruct a; try discriminate Hp; try discriminate Hn. rewrite fmt_eq.
      destruct (alias_ctx F <? ctx)%N; eexists _, _; split; reflexivity.
  Qed.

  (* ---------------- annotations *)
  Definition plain_head (X : list tok) : Prop :=
    match X with TNL _ :: _ | TAnn :: _ | [] => False | _ => True end.

  Lemma anns_ok ind X : plain_head X ->
    forall anns, wf_anns anns = true -> forallb ops_ok anns = true ->
    exists g, forall f n pre, g <= f -> g <= n -> all_nl pre -> pre <> [] ->
      exists pre', all_nl pre' /\ pre' <> [] /\
        p_anns (par T f) n (pre ++ fmt_anns F ind anns ++ X) = Some (anns, pre' ++ X).
  Proof.
    intros HX. induction anns as [|a t IH]; intros Hw Ho.
    - exists 1. intros f n pre _ Hn Hpre Hne. exists pre. repeat split; try assumption.
      destruct n as [|n']; [lia|]. cbn [fmt_anns flat_map app p_anns].
      rewrite (has_nl_app pre X Hpre Hne). rewrite (skip_nl_app pre X Hpre); [|destruct X as [|[] ?]; try exact I; contradiction].
      destruct X as [|[] ?]; try reflexivity; contradiction.
    - cbn [wf_anns forallb] in Hw, Ho. bsplit. destruct (IH ltac:(assumption) ltac:(assumption)) as [g2 Hg2].
      assert (Hna : is_named a = false) by (apply negb_true_iff; assumption).
      destruct (expr_at_rest F T nb nu C (annot_ctx F) a (TNL ind :: fmt_anns F ind t ++ X) (H_call_annot _ _ _ _ C) (H_alias_annot _ _ _ _ C)
                  ltac:(assumption) ltac:(assumption) Hna I) as [g1 Hg1].
      exists (S (g1 + g2)). intros f n pre Hf Hn Hpre Hne.
      destruct n as [|n']; [lia|].
      destruct (Hg2 f n' [TNL ind] ltac:(lia) ltac:(lia) ltac:(constructor; [exact I | constructor]) ltac:(discriminate)) as [pre' [Hp' [Hne' E2]]].
      exists pre'. repeat split; try assumption.
      change (fmt_anns F ind (a :: t)) with ((TAnn :: fmt F a (annot_ctx F, PUnspec, false) ++ [TNL ind]) ++ fmt_anns F ind t).
      cbn [p_anns]. rewrite (has_nl_app pre _ Hpre Hne).
      rewrite (skip_nl_app pre _ Hpre) by exact I.
      cbn [app]. rewrite <- !app_assoc. cbn [app].
      rewrite (up_bin T g1 f _ _ _ ltac:(lia) Hg1). cbn [app] in E2. rewrite E2. reflexivity.
  Qed.

  (* ---------------- the elements of a main pipeline *)
  (* what may follow a main pipeline: after the line breaks, nothing that begins an element and no `into` *)
  Definition boundary (rest : list tok) : Prop :=
    exists k r, rest = TNL k :: r /\
      match skip_nl r with
      | [] => True
      | t :: _ => starts_elem T t = false /\ match t with TKw KInto => False | _ => True end
      end.

  Lemma lines_ok rest : (exists k r, rest = TNL k :: r /\ match skip_nl r with [] => True | t :: _ => starts_elem T t = false end) ->
    forall es, es <> [] -> forallb (fun a => negb (is_named a) && wf a) es = true -> forallb ops_ok es = true ->
    exists g, forall f n, g <= f -> g <= n -> p_lines T (par T f) n (fmt_lines F es ++ rest) = Some (es, rest).
  Proof.
    intros [k [r [-> Hb]]]. induction es as [|a t IH]; intros Hne Hw Ho; [contradiction Hne; reflexivity|].
    cbn [forallb] in Hw, Ho. bsplit.
    assert (Hna : is_named a = false) by (apply negb_true_iff; assumption).
    destruct (all_good F T nb nu C a ltac:(assumption) ltac:(assumption)) as [Ga _].
    destruct t as [|b t'].
    - destruct (nested_elem F T nb nu C a true PUnspec ltac:(assumption) ltac:(assumption) Hna (fun _ => eq_refl) Ga (TNL k :: r) I) as [g1 Hg1].
      exists (S g1). intros f n Hf Hn. destruct n as [|n']; [lia|].
      cbn [fmt_lines p_lines]. unfold st0.
      rewrite (p_nested_mono _ _ (par_le T g1 f ltac:(lia)) _ _ _ Hg1).
      cbn [skip_nl]. destruct (skip_nl r) as [|t0 r0]; [reflexivity|]. rewrite Hb. reflexivity.
    - destruct (IH ltac:(discriminate) ltac:(assumption) ltac:(assumption)) as [g2 Hg2].
      destruct (nested_elem F T nb nu C a true PUnspec ltac:(assumption) ltac:(assumption) Hna (fun _ => eq_refl) Ga
                  (TNL O :: fmt_lines F (b :: t') ++ TNL k :: r) I) as [g1 Hg1].
      cbn [forallb] in *. bsplit.
      destruct (elem_start b st0 ltac:(assumption) ltac:(assumption) ltac:(apply negb_true_iff; assumption)) as [t0 [ts0 [E0 Hs0]]].
      exists (S (g1 + g2)). intros f n Hf Hn. destruct n as [|n']; [lia|].
      change (fmt_lines F (a :: b :: t')) with (fmt F a st0 ++ TNL O :: fmt_lines F (b :: t')).
      rewrite <- app_assoc. cbn [app p_lines]. unfold st0 in *.
      rewrite (p_nested_mono _ _ (par_le T g1 f ltac:(lia)) _ _ _ Hg1).
      assert (Hhd : exists ts1, fmt_lines F (b :: t') ++ TNL k :: r = t0 :: ts1).
      { destruct t' as [|c t'']; cbn [fmt_lines]; unfold st0; rewrite E0; cbn [app]; eexists; reflexivity. }
      destruct Hhd as [ts1 Ehd]. rewrite Ehd.
      change (skip_nl (TNL O :: t0 :: ts1)) with (skip_nl (t0 :: ts1)).
      assert (skip_nl (t0 :: ts1) = t0 :: ts1) as -> by (destruct t0; try reflexivity; discriminate Hs0).
      rewrite Hs0. rewrite <- Ehd. rewrite (Hg2 f n' ltac:(lia) ltac:(lia)). reflexivity.
  Qed.

  (* the value of a main pipeline: its lines parse back to it *)
  Lemma value_ok v rest : wf_value v = true -> ops_ok v = true ->
    (exists k r, rest = TNL k :: r /\ match skip_nl r with [] => True | t :: _ => starts_elem T t = false end) ->
    exists g, forall f n, g <= f -> g <= n ->
      exists es, p_lines T (par T f) n (fmt_value_lines F v ++ rest) = Some (es, rest) /\ value_of es = Some v.
  Proof.
    intros Hw Ho Hb. unfold wf_value in Hw. bsplit.
    assert (Hn : is_named v = false) by (apply negb_true_iff; assumption).
    destruct (is_pipe v) eqn:Ep.
    - (* a pipeline of two or more elements, one per line *)
      destruct v as [a|o l r|u x|l r|l|r| |f args|k es|n x|n x|ps ds b]; try discriminate Ep.
      + destruct k; try discriminate Ep. pose proof H0 as Hwv. cbn [wf] in H0. rewrite go_forall in H0. bsplit.
        cbn [FmtPratt.ops_ok] in Ho. rewrite go_forall in Ho.
        destruct (lines_ok rest Hb es) as [g Hg].
        * intros ->. match goal with H : (2 <=? length []) = true |- _ => discriminate H end.
        * apply forallb_and2; assumption.
        * exact Ho.
        * exists g. intros f n Hf Hn'. exists es. split; [apply Hg; assumption|].
          destruct es as [|a [|b t]]; try discriminate; reflexivity.
    - (* a lone expression *)
      destruct (lines_ok rest Hb [v]) as [g Hg]; [discriminate | cbn [forallb]; rewrite H, H0; reflexivity | cbn [forallb]; rewrite Ho; reflexivity|].
      exists g. intros f n Hf Hn'. exists [v]. split; [|reflexivity].
      assert (E : fmt_value_lines F v = fmt_lines F [v]).
      { unfold fmt_value_lines. cbn [fmt_lines].
        destruct v as [a|o l r|u x|l r|l|r| |f0 args|k es|n0 x|n0 x|ps ds b]; try reflexivity.
        destruct k; try reflexivity. discriminate Ep. }
      rewrite E. apply Hg; assumption.
  Qed.

  (* ---------------- statements *)
  (* the first token of a statement: `@`, a keyword, or the first token of a pipeline element *)
  Definition first_tok_ok (t : tok) : Prop :=
    match t with TAnn | TKw KLet | TKw KImport | TKw KModule => True | _ => starts_elem T t = true end.

  Lemma value_head v : wf_value v = true -> ops_ok v = true ->
    (forall es, v = EGroup GPipe es -> es <> []) -> (forall n es, v = EAlias n (EGroup GPipe es) -> es <> []) ->
    exists t ts, fmt_value_lines F v = t :: ts /\ starts_elem T t = true.
  Proof.
    intros Hw Ho Hne1 Hne2. unfold wf_value in Hw. bsplit.
    assert (Hn : is_named v = false) by (apply negb_true_iff; assumption).
    assert (L : forall es, es <> [] -> forallb (fun a => negb (is_named a) && wf a) es = true -> forallb ops_ok es = true ->
                exists t ts, fmt_lines F es = t :: ts /\ starts_elem T t = true).
    { intros es Hne Hws Hos. destruct es as [|a t]; [contradiction Hne; reflexivity|]. cbn [forallb] in Hws, Hos. bsplit.
      destruct (elem_start a st0 ltac:(assumption) ltac:(assumption) ltac:(apply negb_true_iff; assumption)) as [t0 [ts0 [E0 Hs0]]].
      destruct t as [|b t']; cbn [fmt_lines]; rewrite E0; cbn [app]; eexists _, _; split; try reflexivity; exact Hs0. }
    unfold fmt_value_lines.
    destruct v as [a|o l r|u x|l r|l|r| |f args|k es|n x|n x|ps ds b];
      try (apply elem_start; assumption).
    - destruct k; try (apply elem_start; assumption).
      cbn [wf] in H0. rewrite go_forall in H0. cbn [FmtPratt.ops_ok] in Ho. rewrite go_forall in Ho. bsplit.
      apply L; [apply (Hne1 es eq_refl) | | exact Ho].
      apply forallb_and2; assumption.
  Qed.

  (* ---------------- unfolding the module arm *)
  Lemma fmt_stmt_module ind anns n body :
    fmt_stmt F ind (SModule anns n body) =
    fmt_anns F ind anns ++ TKw KModule :: TA (APar n) :: TOpen GTup ::
    TNL (match body with [] => ind | _ => S ind end) :: fmt_stmts F (S ind) ind body ++ [TClose GTup].
  Proof.
    assert (G : forall l,
      (fix go (l : list stmt) : list tok :=
         match l with
         | [] => []
         | [s1] => fmt_stmt F (S ind) s1 ++ [TNL ind]
         | s1 :: (_ :: _) as t => fmt_stmt F (S ind) s1 ++ TNL O :: TNL (S ind) :: go t
         end) l = fmt_stmts F (S ind) ind l).
    { induction l as [|s1 t IH]; [reflexivity|]. destruct t as [|s2 t']; [reflexivity|].
      change (fmt_stmts F (S ind) ind (s1 :: s2 :: t')) with (fmt_stmt F (S ind) s1 ++ TNL O :: TNL (S ind) :: fmt_stmts F (S ind) ind (s2 :: t')).
      rewrite <- IH. reflexivity. }
    cbn [fmt_stmt]. rewrite G. reflexivity.
  Qed.

  Lemma stmt_ind2 (P : stmt -> Prop) :
    (forall a n v, P (SLet a n v)) -> (forall a v, P (SMain a v)) -> (forall a v n, P (SInto a v n)) ->
    (forall a al p, P (SImport a al p)) -> (forall a n t, P (STypeDef a n t)) ->
    (forall a n body, Forall P body -> P (SModule a n body)) -> forall s, P s.
  Proof.
    intros HL HM HI HP HT HMod. fix IH 1. intros [a n v|a v|a v n|a al p|a n ty0|a n body].
    - apply HL. - apply HM. - apply HI. - apply HP. - apply HT.
    - apply HMod. induction body as [|s t IHt]; constructor; [apply IH | exact IHt].
  Qed.

  Lemma go_forall_s (p : stmt -> bool) l :
    (fix go (l : list stmt) : bool := match l with [] => true | a :: t => p a && go t end) l = forallb p l.
  Proof. induction l as [|a t IH]; [reflexivity|]. cbn [forallb]. rewrite <- IH. reflexivity. Qed.
  Lemma go_exists_s (p : stmt -> bool) l :
    (fix go (l : list stmt) : bool := match l with [] => false | a :: t => p a || go t end) l = existsb p l.
  Proof. induction l as [|a t IH]; [reflexivity|]. cbn [existsb]. rewrite <- IH. reflexivity. Qed.

  (* ---------------- the first token of a statement *)
  Definition kind_toks_head (t : tok) (bare : bool) : Prop :=
    match t with
    | TAnn | TKw KLet | TKw KImport | TKw KModule | TKw KType => True
    | _ => starts_elem T t = true /\ bare = true
    end.

  Lemma value_head_wf v : wf_value v = true -> ops_ok v = true ->
    exists t ts, fmt_value_lines F v = t :: ts /\ starts_elem T t = true.
  Proof.
    intros Hw Ho. apply value_head; try assumption.
    - intros es ->. unfold wf_value in Hw. bsplit. cbn [wf] in *. bsplit. intros ->.
      match goal with H : (2 <=? length []) = true |- _ => discriminate H end.
    - intros n es ->. unfold wf_value in Hw. bsplit. cbn [wf plain is_alias is_named negb andb] in *. bsplit. intros ->.
      match goal with H : (2 <=? length []) = true |- _ => discriminate H end.
  Qed.

  Lemma stmt_first ind s : wf_stmt s = true -> ops_ok_stmt nb nu s = true ->
    exists t ts, fmt_stmt F ind s = t :: ts /\ kind_toks_head t (bare_pipeline s).
  Proof.
    intros Hw Ho.
    destruct (anns_of s) as [|a0 at0] eqn:Ea.
    - destruct s as [a n v|a v|a v n|a al p|a n ty0|a n body]; cbn [anns_of] in Ea; subst a;
        try rewrite fmt_stmt_module; cbn [fmt_stmt fmt_anns flat_map app].
      + destruct v; eexists _, _; split; try reflexivity; exact I.
      + cbn [wf_stmt ops_ok_stmt anns_of] in Hw, Ho. bsplit.
        destruct (value_head_wf v ltac:(assumption) ltac:(assumption)) as [t [ts [E Hs]]]. rewrite E.
        eexists _, _; split; [reflexivity|]. cbn [bare_pipeline]. destruct t; try exact I; try (split; [exact Hs | reflexivity]).
        destruct k; try exact I; discriminate Hs.
      + cbn [wf_stmt ops_ok_stmt anns_of] in Hw, Ho. bsplit.
        destruct (value_head_wf v ltac:(assumption) ltac:(assumption)) as [t [ts [E Hs]]]. rewrite E. cbn [app].
        eexists _, _; split; [reflexivity|]. cbn [bare_pipeline]. destruct t; try exact I; try (split; [exact Hs | reflexivity]).
        destruct k; try exact I; discriminate Hs.
      + eexists _, _; split; [reflexivity | exact I].
      + eexists _, _; split; [reflexivity | exact I].
      + eexists _, _; split; [reflexivity | exact I].
    - assert (E : exists ts, fmt_stmt F ind s = TAnn :: ts).
      { destruct s as [a n v|a v|a v n|a al p|a n ty0|a n body]; cbn [anns_of] in Ea; subst a;
          try rewrite fmt_stmt_module; cbn [fmt_stmt fmt_anns flat_map app]; try destruct v; eexists; reflexivity. }
      destruct E as [ts E]. rewrite E. eexists _, _; split; [reflexivity | exact I].
  Qed.


  Lemma head_no_nl t b X : kind_toks_head t b -> no_nl_head (t :: X).
  Proof. intro H. destruct t; try exact I. cbn in H. destruct H as [H _]. discriminate H. Qed.
  Lemma head_not_bare t X : kind_toks_head t false ->
    match skip_nl (t :: X) with [] => True | t' :: _ => starts_elem T t' = false /\ match t' with TKw KInto => False | _ => True end end.
  Proof.
    intro H. destruct t; cbn in H; try (destruct H as [_ H]; discriminate H); cbn [skip_nl]; try (split; [reflexivity | exact I]).
    destruct k; try contradiction; try (destruct H as [_ H]; discriminate H); split; try reflexivity; exact I.
  Qed.

  (* ---------------- one statement *)
  Definition stmt_good (s : stmt) : Prop :=
    forall ind, wf_stmt s = true -> ops_ok_stmt nb nu s = true -> known_stmt s = false ->
    forall rest, (exists k r, rest = TNL k :: r) -> (is_main s = true -> boundary rest) ->
    exists g, forall f n pre, g <= f -> g <= n -> all_nl pre -> pre <> [] ->
      p_stmt T (par T f) (p_stmts T (par T f) n) n (pre ++ fmt_stmt F ind s ++ rest) = Some (s, rest).

  Definition tail_ok (tail : list tok) : Prop := tail = [] \/ exists k r, tail = TClose k :: r.

  Lemma tail_skip tail : tail_ok tail -> skip_nl tail = tail.
  Proof. intros [->|[k [r ->]]]; reflexivity. Qed.
  Lemma tail_boundary k tail : tail_ok tail -> boundary (TNL k :: tail).
  Proof.
    intro H. exists k, tail. split; [reflexivity|]. rewrite (tail_skip tail H).
    destruct H as [->|[k' [r ->]]]; [exact I | split; [reflexivity | exact I]].
  Qed.

  (* ---------------- a list of statements *)
  Lemma stmts_good ind after tail : tail_ok tail ->
    forall ss, Forall stmt_good ss -> forallb wf_stmt ss = true -> forallb (ops_ok_stmt nb nu) ss = true ->
      existsb known_stmt ss = false -> adjacent_mains ss = false ->
    exists g, forall f n pre, g <= f -> g <= n -> all_nl pre -> pre <> [] ->
      exists r1, p_stmts T (par T f) n (pre ++ fmt_stmts F ind after ss ++ tail) = Some (ss, r1) /\ skip_nl r1 = tail.
  Proof.
    intros Htail. induction ss as [|s t IH]; intros HG Hw Ho Hk Ha.
    - exists 1. intros f n pre _ Hn Hpre Hne. exists (pre ++ tail). destruct n as [|n']; [lia|].
      cbn [fmt_stmts app p_stmts].
      assert (Hs : skip_nl (pre ++ tail) = tail).
      { apply skip_nl_app; [exact Hpre|]. destruct Htail as [->|[k [r ->]]]; exact I. }
      split; [|exact Hs]. rewrite Hs. destruct Htail as [->|[k [r ->]]]; reflexivity.
    - inversion HG as [|? ? Gs Gt]; subst. cbn [forallb existsb] in Hw, Ho, Hk. bsplit.
      apply orb_false_iff in Hk as [Hks Hkt].
      destruct (stmt_first ind s ltac:(assumption) ltac:(assumption)) as [t0 [ts0 [E0 Hh0]]].
      destruct t as [|s2 t'].
      + (* the last statement *)
        destruct (Gs ind ltac:(assumption) ltac:(assumption) Hks (TNL after :: tail) ltac:(eexists _, _; reflexivity)
                    ltac:(intros _; apply tail_boundary; exact Htail)) as [g1 Hg1].
        exists (S (S g1)). intros f n pre Hf Hn Hpre Hne. destruct n as [|n']; [lia|].
        exists (TNL after :: tail). split; [|cbn [skip_nl]; apply tail_skip; exact Htail].
        cbn [fmt_stmts p_stmts]. rewrite <- !app_assoc. cbn [app].
        assert (Hs : skip_nl (pre ++ fmt_stmt F ind s ++ TNL after :: tail) = fmt_stmt F ind s ++ TNL after :: tail).
        { apply skip_nl_app; [exact Hpre|]. rewrite E0. apply (head_no_nl t0 _ _ Hh0). }
        rewrite Hs. rewrite E0 at 1. cbn [app].
        assert (Hnc : match t0 with TClose _ => False | _ => True end).
        { destruct t0; try exact I. cbn in Hh0. destruct Hh0 as [Hh0 _]. discriminate Hh0. }
        rewrite (Hg1 f n' pre ltac:(lia) ltac:(lia) Hpre Hne).
        destruct n' as [|n'']; [lia|]. cbn [p_stmts skip_nl]. rewrite (tail_skip tail Htail).
        destruct t0; try contradiction; (destruct Htail as [->|[k0 [r0 ->]]]; reflexivity).
      + (* followed by another statement *)
        cbn [forallb existsb] in *. bsplit.
        assert (Ha2 : (is_main s && bare_pipeline s2) = false /\ adjacent_mains (s2 :: t') = false).
        { cbn [adjacent_mains] in Ha. apply orb_false_iff in Ha. exact Ha. }
        destruct Ha2 as [Ha1 Ha2].
        destruct (stmt_first ind s2 ltac:(assumption) ltac:(assumption)) as [t2 [ts2 [E2 Hh2]]].
        set (rest := TNL O :: TNL ind :: fmt_stmts F ind after (s2 :: t') ++ tail).
        assert (E2' : exists X, fmt_stmts F ind after (s2 :: t') ++ tail = t2 :: X).
        { destruct t' as [|s3 t'']; cbn [fmt_stmts]; rewrite E2; cbn [app]; eexists; reflexivity. }
        destruct E2' as [X2 EX2].
        destruct (Gs ind ltac:(assumption) ltac:(assumption) Hks rest ltac:(eexists _, _; reflexivity)) as [g1 Hg1].
        { intro Hm. rewrite Hm in Ha1. cbn [andb] in Ha1. exists O, (TNL ind :: fmt_stmts F ind after (s2 :: t') ++ tail).
          split; [reflexivity|]. cbn [skip_nl]. rewrite EX2. rewrite Ha1 in Hh2. apply (head_not_bare t2 X2 Hh2). }
        destruct (IH Gt ltac:(cbn [forallb]; rewrite ?andb_true_iff; auto) ltac:(cbn [forallb]; rewrite ?andb_true_iff; auto)
                    Hkt Ha2) as [g2 Hg2].
        exists (S (g1 + g2)). intros f n pre Hf Hn Hpre Hne. destruct n as [|n']; [lia|].
        destruct (Hg2 f n' [TNL O; TNL ind] ltac:(lia) ltac:(lia) ltac:(repeat constructor) ltac:(discriminate)) as [r1 [Hr1 Hsk]].
        exists r1. split; [|exact Hsk].
        change (fmt_stmts F ind after (s :: s2 :: t')) with (fmt_stmt F ind s ++ TNL O :: TNL ind :: fmt_stmts F ind after (s2 :: t')).
        cbn [p_stmts]. rewrite <- !app_assoc. cbn [app]. fold rest.
        assert (Hs : skip_nl (pre ++ fmt_stmt F ind s ++ rest) = fmt_stmt F ind s ++ rest).
        { apply skip_nl_app; [exact Hpre|]. rewrite E0. apply (head_no_nl t0 _ _ Hh0). }
        rewrite Hs. rewrite E0 at 1. cbn [app].
        assert (Hnc : match t0 with TClose _ => False | _ => True end).
        { destruct t0; try exact I. cbn in Hh0. destruct Hh0 as [Hh0 _]. discriminate Hh0. }
        rewrite (Hg1 f n' pre ltac:(lia) ltac:(lia) Hpre Hne). unfold rest. cbn [app] in Hr1. rewrite Hr1.
        destruct t0; try contradiction; reflexivity.
  Qed.

  (* after the annotations of a statement: dispatch on what follows *)
  Lemma stmt_anns ind anns X : plain_head X -> wf_anns anns = true -> forallb ops_ok anns = true ->
    exists g, forall f n pre, g <= f -> g <= n -> all_nl pre -> pre <> [] ->
      exists r0, p_anns (par T f) n (pre ++ fmt_anns F ind anns ++ X) = Some (anns, r0) /\ skip_nl r0 = X.
  Proof.
    intros HX Hw Ho. destruct (anns_ok ind X HX anns Hw Ho) as [g Hg]. exists g. intros f n pre Hf Hn Hpre Hne.
    destruct (Hg f n pre Hf Hn Hpre Hne) as [pre' [Hp' [_ E]]]. exists (pre' ++ X). split; [exact E|].
    apply skip_nl_app; [exact Hp'|]. destruct X as [|[] ?]; try exact I; contradiction.
  Qed.

  Theorem all_stmt_good s : stmt_good s.
  Proof.
    induction s as [anns n v|anns v|anns v n|anns al p|anns n ty0|anns n body IHb] using stmt_ind2;
      intros ind Hw Ho Hk rest [k [r ->]] Hb; cbn [wf_stmt ops_ok_stmt anns_of] in Hw, Ho; bsplit.
    - (* let *)
      destruct v as [v|].
      + bsplit. assert (Hpv : plain v = true) by assumption.
        destruct (all_good F T nb nu C v ltac:(assumption) ltac:(assumption)) as [_ Gv].
        assert (Hnv : is_named v = false) by (pose proof Hpv as Hx; unfold plain in Hx; apply andb_true_iff in Hx as [_ Hx]; apply negb_true_iff; exact Hx).
        specialize (Gv Hnv).
        destruct (Gv st0 (okst_plain F v _ Hpv)) as [_ [_ [_ Gc]]].
        destruct (Gc (plain_not_alias v Hpv) (TNL k :: r) I) as [g1 Hg1].
        destruct (stmt_anns ind anns (TKw KLet :: TAlias n :: fmt F v st0 ++ TNL k :: r) I ltac:(assumption) ltac:(assumption)) as [g0 Hg0].
        exists (S (g0 + g1)). intros f m pre Hf Hm Hpre Hne.
        destruct (Hg0 f m pre ltac:(lia) ltac:(lia) Hpre Hne) as [r0 [E0 Es]].
        cbn [fmt_stmt]. rewrite <- !app_assoc. cbn [app]. unfold p_stmt. rewrite E0, Es.
        rewrite (up_lc T g1 f _ _ ltac:(lia) Hg1). reflexivity.
      + destruct (stmt_anns ind anns (TKw KLet :: TA (APar n) :: TNL k :: r) I ltac:(assumption) ltac:(assumption)) as [g0 Hg0].
        exists g0. intros f m pre Hf Hm Hpre Hne.
        destruct (Hg0 f m pre ltac:(lia) ltac:(lia) Hpre Hne) as [r0 [E0 Es]].
        cbn [fmt_stmt]. rewrite <- !app_assoc. cbn [app]. unfold p_stmt. rewrite E0, Es. reflexivity.
    - (* main pipeline *)
      cbn [known_stmt] in Hk.
      destruct (Hb eq_refl) as [k' [r' [Er Hbd]]]. injection Er as <- <-.
      destruct (value_ok v (TNL k :: r) ltac:(assumption) ltac:(assumption)) as [g1 Hg1].
      { exists k, r. split; [reflexivity|]. destruct (skip_nl r) as [|t0 ?]; [exact I | apply Hbd]. }
      destruct (value_head_wf v ltac:(assumption) ltac:(assumption)) as [t0 [ts0 [Ev Hs0]]].
      destruct (stmt_anns ind anns (fmt_value_lines F v ++ TNL k :: r)) as [g0 Hg0]; try assumption.
      { rewrite Ev. cbn [app]. destruct t0; try exact I; discriminate Hs0. }
      exists (S (g0 + g1)). intros f m pre Hf Hm Hpre Hne.
      destruct (Hg0 f m pre ltac:(lia) ltac:(lia) Hpre Hne) as [r0 [E0 Es]].
      destruct (Hg1 f m ltac:(lia) ltac:(lia)) as [es [El Eval]].
      cbn [fmt_stmt]. rewrite <- !app_assoc. unfold p_stmt. rewrite E0, Es.
      rewrite Ev in *. cbn [app] in *.
      destruct t0; try discriminate Hs0; rewrite El, Eval; cbn [skip_nl];
        (revert Hbd; destruct (skip_nl r) as [|t1 r1]; intro Hbd; [reflexivity|]; destruct t1; try reflexivity;
         match goal with kk : kw |- _ => destruct kk; try reflexivity end; destruct Hbd as [_ []]).
    - (* into *)
      cbn [known_stmt] in Hk.
      destruct (value_ok v (TNL O :: TKw KInto :: TA (APar n) :: TNL k :: r) ltac:(assumption) ltac:(assumption)) as [g1 Hg1].
      { eexists _, _. split; [reflexivity|]. reflexivity. }
      destruct (value_head_wf v ltac:(assumption) ltac:(assumption)) as [t0 [ts0 [Ev Hs0]]].
      destruct (stmt_anns ind anns (fmt_value_lines F v ++ TNL O :: TKw KInto :: TA (APar n) :: TNL k :: r)) as [g0 Hg0]; try assumption.
      { rewrite Ev. cbn [app]. destruct t0; try exact I; discriminate Hs0. }
      exists (S (g0 + g1)). intros f m pre Hf Hm Hpre Hne.
      destruct (Hg0 f m pre ltac:(lia) ltac:(lia) Hpre Hne) as [r0 [E0 Es]].
      destruct (Hg1 f m ltac:(lia) ltac:(lia)) as [es [El Eval]].
      cbn [fmt_stmt]. rewrite <- !app_assoc. cbn [app]. unfold p_stmt. rewrite E0, Es.
      rewrite Ev in *. cbn [app] in *.
      destruct t0; try discriminate Hs0; rewrite El, Eval; reflexivity.
    - (* import *)
      destruct al as [a|].
      + destruct (stmt_anns ind anns (TKw KImport :: TAlias a :: TA (APath p) :: TNL k :: r)) as [g0 Hg0]; try assumption; [exact I|].
        exists g0. intros f m pre Hf Hm Hpre Hne.
        destruct (Hg0 f m pre ltac:(lia) ltac:(lia) Hpre Hne) as [r0 [E0 Es]].
        cbn [fmt_stmt]. rewrite <- !app_assoc. cbn [app] in *. unfold p_stmt. rewrite E0, Es. reflexivity.
      + destruct (stmt_anns ind anns (TKw KImport :: TA (APath p) :: TNL k :: r)) as [g0 Hg0]; try assumption; [exact I|].
        exists g0. intros f m pre Hf Hm Hpre Hne.
        destruct (Hg0 f m pre ltac:(lia) ltac:(lia) Hpre Hne) as [r0 [E0 Es]].
        cbn [fmt_stmt]. rewrite <- !app_assoc. cbn [app] in *. unfold p_stmt. rewrite E0, Es. reflexivity.
    - (* type definition *)
      bsplit. destruct (all_good_ty ty0) as [Gt _].
      destruct (Gt ltac:(assumption) ltac:(apply negb_true_iff; assumption) (TNL k :: r) ltac:(intros _; split; [reflexivity | exact I])) as [g1 Hg1].
      destruct (stmt_anns ind anns (TKw KType :: TAlias n :: fmt_ty ty0 ++ TNL k :: r) I ltac:(assumption) ltac:(assumption)) as [g0 Hg0].
      exists (S (g0 + g1)). intros f m pre Hf Hm Hpre Hne.
      destruct (Hg0 f m pre ltac:(lia) ltac:(lia) Hpre Hne) as [r0 [E0 Es]].
      cbn [fmt_stmt]. rewrite <- !app_assoc. cbn [app]. unfold p_stmt. rewrite E0, Es.
      rewrite (Hg1 m ltac:(lia)). reflexivity.
    - (* module *)
      cbn [known_stmt] in Hk. rewrite go_exists_s in Hk. apply orb_false_iff in Hk as [Hka Hkk].
      repeat match goal with H : _ = true |- _ => rewrite go_forall_s in H end.
      destruct (stmts_good (S ind) ind (TClose GTup :: TNL k :: r) ltac:(right; eexists _, _; reflexivity) body IHb
                  ltac:(assumption) ltac:(assumption) Hkk Hka) as [g1 Hg1].
      set (x := match body with [] => ind | _ => S ind end).
      destruct (stmt_anns ind anns (TKw KModule :: TA (APar n) :: TOpen GTup :: TNL x :: fmt_stmts F (S ind) ind body ++ TClose GTup :: TNL k :: r))
        as [g0 Hg0]; try assumption; [exact I|].
      exists (S (g0 + g1)). intros f m pre Hf Hm Hpre Hne.
      destruct (Hg0 f m pre ltac:(lia) ltac:(lia) Hpre Hne) as [r0 [E0 Es]].
      destruct (Hg1 f m [TNL x] ltac:(lia) ltac:(lia) ltac:(repeat constructor) ltac:(discriminate)) as [r1 [Er1 Esk]].
      rewrite fmt_stmt_module. fold x. rewrite <- !app_assoc. cbn [app] in *. rewrite <- !app_assoc. cbn [app].
      unfold p_stmt. rewrite E0, Es. cbn [name_of]. rewrite Er1, Esk. reflexivity.
  Qed.

  (* ---------------- whole programs *)
  Theorem prog_roundtrip ss : wf_prog ss = true -> ops_ok_prog nb nu ss = true -> known_prog ss = false ->
    exists f0, forall f, f0 <= f -> parse_prog T f (fmt_prog F ss) = Some ss.
  Proof.
    intros Hw Ho Hk. unfold known_prog in Hk. apply orb_false_iff in Hk as [Ha Hk].
    destruct (stmts_good O O [] ltac:(left; reflexivity) ss) as [g Hg]; try assumption.
    { apply Forall_forall. intros s _. apply all_stmt_good. }
    exists g. intros f Hf. unfold parse_prog, fmt_prog.
    destruct (Hg f f [TNL O] Hf Hf ltac:(repeat constructor) ltac:(discriminate)) as [r1 [E Es]].
    rewrite app_nil_r in E. cbn [app] in E. rewrite E, Es. reflexivity.
  Qed.
End StmtRoundTrip.

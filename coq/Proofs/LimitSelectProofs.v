(* C05: what the limiting SELECT of extract_atomic guarantees, and the link lineage -> closing Select of the lowerer
   (C16's Model/LowererSelect.v push_select_m, read-only). *)
From Coq Require Import List Bool Arith NArith.
From PV Require Import Lib.ListX Model.Wildcards Model.LimitSelect Model.Rq Model.Lowerer Model.LowererTrace Model.LowererSelect.
Import ListNotations.

Lemma mem_In x s : mem x s = true <-> In x s.
Proof.
  unfold mem. rewrite existsb_exists. split.
  - intros [y [Hy E]]. apply Nat.eqb_eq in E. subst; exact Hy.
  - intro H. exists x. split; [exact H | apply Nat.eqb_refl].
Qed.

(* no column that was not asked for is in the closing SELECT list: helper columns never reach the result through it *)
Theorem closing_select_within_output output select_cols : incl (closing_select output select_cols) output.
Proof.
  unfold closing_select. destruct (has_extra output select_cols) eqn:E; [apply incl_refl|].
  intros c Hc. unfold has_extra in E.
  destruct (mem c output) eqn:M; [apply mem_In; exact M|].
  exfalso. assert (existsb (fun c0 => negb (mem c0 output)) select_cols = true) as X.
  { apply existsb_exists. exists c. split; [exact Hc | rewrite M; reflexivity]. }
  rewrite X in E. discriminate.
Qed.

(* when a limiting SELECT is appended the list is exactly what was asked for, in order *)
Theorem closing_select_limited output select_cols :
  has_extra output select_cols = true -> closing_select output select_cols = output.
Proof. intro H. unfold closing_select. rewrite H. reflexivity. Qed.

(* PARTIAL: without it the list is the atomic SELECT's own; it is the requested list when the atomic pipeline selects the
   requested columns in order (checked on every real call: `select_cols = output` whenever extra = false) *)
Theorem closing_select_exact_partial output select_cols :
  has_extra output select_cols = true \/ select_cols = output -> closing_select output select_cols = output.
Proof.
  intros [H|H]; [apply closing_select_limited; exact H|]. subst. unfold closing_select.
  destruct (has_extra output output); reflexivity.
Qed.

(* ---- lineage -> closing Select of a relation (push_select): one relation column per Single column of the lineage, in
   order, under the lineage's name; an `All` contributes the input's columns except the named ones *)
Fixpoint expected_cols (m : list (N * target)) (cols : list lcol) : list (list relcol) :=
  match cols with
  | [] => []
  | LSingle name _ _ :: r => [RSingle name] :: expected_cols m r
  | LAll input except :: r =>
      (match lookup_node m input with Some (MInput ic) => map fst (all_cols ic except) | _ => [] end) :: expected_cols m r
  end.

Theorem push_select_frame_exact m inputs cols : forall f,
  push_select_m m inputs cols = Some f -> map fst f = concat (expected_cols m cols).
Proof.
  induction cols as [|c r IH]; intros f H; cbn [push_select_m] in H.
  - injection H as <-. reflexivity.
  - destruct c as [name tgt tname|input except].
    + destruct (lookup_cid_m m tgt tname) as [cd|]; [|discriminate].
      destruct (push_select_m m inputs r) as [f'|] eqn:R; [|discriminate].
      injection H as <-. cbn [map fst expected_cols concat app]. rewrite (IH f' eq_refl). reflexivity.
    + destruct (memN input inputs); [|discriminate].
      destruct (lookup_node m input) as [[cd|ic]|] eqn:L; try discriminate.
      destruct (push_select_m m inputs r) as [f'|] eqn:R; [|discriminate].
      injection H as <-. cbn [expected_cols concat]. rewrite L. rewrite map_app, (IH f' eq_refl). reflexivity.
Qed.

(* a lineage of named / unnamed Single columns only: the relation's columns are exactly the lineage's, names and order *)
Corollary push_select_singles_exact m inputs cols f :
  push_select_m m inputs cols = Some f ->
  (forall c, In c cols -> exists n t tn, c = LSingle n t tn) ->
  map fst f = map (fun c => match c with LSingle n _ _ => RSingle n | LAll _ _ => RWildcard end) cols.
Proof.
  intros H Hs. rewrite (push_select_frame_exact m inputs cols f H). clear H.
  induction cols as [|c r IH]; [reflexivity|].
  destruct (Hs c (or_introl eq_refl)) as (n & t & tn & ->). cbn [expected_cols concat app map].
  f_equal. apply IH. intros c Hc. apply Hs. right. exact Hc.
Qed.

(* what an `All` contributes: a named column of the input unless it is excepted; unnamed / wildcard columns always *)
Theorem all_cols_spec ic except rc :
  In rc (all_cols ic except) <->
  In rc ic /\ (forall n, fst rc = RSingle (Some n) -> ~ In n except).
Proof.
  unfold all_cols. rewrite filter_In. split; intros [Hin H]; split; try exact Hin.
  - intros n Hn Hex. rewrite Hn in H. apply negb_true_iff in H.
    assert (existsb (leqb n) except = true) as X by (apply existsb_exists; exists n; split; [exact Hex | apply leqb_refl]).
    rewrite X in H. discriminate.
  - destruct (fst rc) as [[n|]|] eqn:F; try reflexivity.
    apply negb_true_iff. destruct (existsb (leqb n) except) eqn:X; [|reflexivity].
    exfalso. apply existsb_exists in X as [y [Hy E]]. apply leqb_spec in E. subst y. exact (H n eq_refl Hy).
Qed.

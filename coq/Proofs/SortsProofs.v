(* C03: the sort inference model computes the order in effect, hands it to every take, and does so
   independently of how the pipeline was cut into CTEs. *)
From Coq Require Import List Bool Arith Lia.
From PV Require Import Model.Sorts.
Import ListNotations.

Section Proofs.
  Variable key : Type.
  Variable is_empty : key -> bool.
  Variable empty : key.

  Notation item := (item key).
  Notation st := (st key).
  Notation run := (run key is_empty empty).
  Notation step := (step key is_empty empty).
  Notation st0 := (st0 key empty).
  Notation lookup := (lookup key empty).
  Notation eff := (eff key).
  Notation takes_spec := (takes_spec key).
  Notation takes_emitted := (takes_emitted key).
  Notation takes_wf := (takes_wf key is_empty).

  Definition no_ref (p : list item) : Prop := forall t, ~ In (IFromRef t) p.

  (* state s agrees with a specified order o *)
  Definition agrees (s : st) (o : option key) : Prop :=
    forall k, o = Some k -> sorting key s = k /\ fdo key s = false.

  Lemma run_cons ctes s i r :
    run ctes s (i :: r) = let '(s1, o1) := step ctes s i in let '(s2, o2) := run ctes s1 r in (s2, o1 ++ o2).
  Proof. reflexivity. Qed.

  Lemma run_app ctes p : forall s q,
    run ctes s (p ++ q) = let '(s1, o1) := run ctes s p in let '(s2, o2) := run ctes s1 q in (s2, o1 ++ o2).
  Proof.
    induction p as [|i r IH]; intros s q.
    - cbn [app Sorts.run]. destruct (run ctes s q); reflexivity.
    - cbn [app]. rewrite !run_cons. destruct (step ctes s i) as [s1 o1]. rewrite IH.
      destruct (run ctes s1 r) as [s2 o2]. destruct (run ctes s2 q) as [s3 o3]. rewrite app_assoc. reflexivity.
  Qed.

  Lemma step_no_ref ctes ctes' s i : (forall t, i <> IFromRef t) -> step ctes s i = step ctes' s i.
  Proof. destruct i; intro H; try reflexivity. exfalso; eapply H; reflexivity. Qed.

  Lemma run_no_ref ctes ctes' p : no_ref p -> forall s, run ctes s p = run ctes' s p.
  Proof.
    induction p as [|i r IH]; intros H s; [reflexivity|].
    rewrite !run_cons. rewrite (step_no_ref ctes ctes' s i).
    - destruct (step ctes' s i) as [s1 o1]. rewrite IH; [reflexivity|]. intros t Ht. apply (H t). right; exact Ht.
    - intros t E. apply (H t). left; exact E.
  Qed.

  (* ---- one pipeline: the state tracks the order in effect ---- *)
  Lemma step_agrees ctes s o i : (forall t, i <> IFromRef t) -> agrees s o ->
    agrees (fst (step ctes s i)) (eff o [i]).
  Proof.
    intros Hi Ha. destruct i; cbn [step eff fst].
    - exfalso; eapply Hi; reflexivity.
    - intros k0 E; injection E as <-. split; reflexivity.
    - intros k0 E; discriminate.
    - intros k0 E. destruct (Ha k0 E) as [H1 H2]. rewrite H2. split; assumption.
    - exact Ha.
    - intros k0 E; discriminate.
    - exact Ha.
  Qed.

  Lemma eff_cons o i r : eff o (i :: r) = eff (eff o [i]) r.
  Proof. destruct i; reflexivity. Qed.

  Lemma run_agrees ctes p : no_ref p -> forall s o, agrees s o -> agrees (fst (run ctes s p)) (eff o p).
  Proof.
    induction p as [|i r IH]; intros H s o Ha; [exact Ha|].
    rewrite run_cons, eff_cons.
    pose proof (step_agrees ctes s o i) as Hs.
    destruct (step ctes s i) as [s1 o1] eqn:E. cbn [fst] in Hs.
    specialize (IH (fun t Ht => H t (or_intror Ht)) s1 (eff o [i])).
    destruct (run ctes s1 r) as [s2 o2] eqn:E2. cbn [fst] in *. apply IH. apply Hs; [|exact Ha].
    intros t Et. apply (H t). left; exact Et.
  Qed.

  (* every take is handed the order in effect at its position *)
  Lemma takes_emitted_sort_take k pe emb r : takes_emitted (ISort k :: ITake pe emb :: r) = k :: takes_emitted r.
  Proof. reflexivity. Qed.
  Lemma takes_emitted_skip i r : (forall k, i <> ISort k) -> takes_emitted (i :: r) = takes_emitted r.
  Proof. destruct i; intro H; try reflexivity. exfalso; eapply H; reflexivity. Qed.
  Lemma takes_emitted_sort_don k r : takes_emitted (ISort k :: IDistinctOn :: r) = takes_emitted r.
  Proof. reflexivity. Qed.

  Lemma run_takes ctes p : no_ref p -> forall s o, agrees s o -> takes_wf o p ->
    Forall2 (fun spec emitted => forall k, spec = Some k -> emitted = k)
            (takes_spec o p) (takes_emitted (snd (run ctes s p))).
  Proof.
    induction p as [|i r IH]; intros H s o Ha Hw; [constructor|].
    assert (Hr : no_ref r) by (intros t Ht; apply (H t); right; exact Ht).
    rewrite run_cons. destruct i; cbn [step].
    - exfalso. apply (H tid). left; reflexivity.
    - (* ISort *) cbn [takes_spec takes_wf] in *.
      destruct (run ctes (mkst key k false) r) as [s2 o2] eqn:E2. cbn [snd app].
      specialize (IH Hr (mkst key k false) (Some k)). rewrite E2 in IH. apply IH; [|exact Hw].
      intros k0 E; injection E as <-; split; reflexivity.
    - (* IReset *) cbn [takes_spec takes_wf] in *.
      destruct (run ctes st0 r) as [s2 o2] eqn:E2. cbn [snd app].
      rewrite takes_emitted_skip by (intros k E; discriminate).
      specialize (IH Hr st0 None). rewrite E2 in IH. apply IH; [|exact Hw]. intros k0 E; discriminate.
    - (* IJoin *) cbn [takes_spec takes_wf] in *.
      destruct (run ctes (if fdo key s then st0 else s) r) as [s2 o2] eqn:E2. cbn [snd app].
      rewrite takes_emitted_skip by (intros k E; discriminate).
      specialize (IH Hr (if fdo key s then st0 else s) o). rewrite E2 in IH. apply IH; [|exact Hw].
      intros k0 E. destruct (Ha k0 E) as [H1 H2]. rewrite H2. split; assumption.
    - (* ITake *) cbn [takes_spec takes_wf] in *. destruct Hw as [Hemb Hw].
      destruct (run ctes s r) as [s2 o2] eqn:E2. cbn [snd app].
      rewrite takes_emitted_sort_take. constructor.
      + intros k Ek. destruct (part_empty && negb (is_empty embedded)) eqn:Eb.
        * specialize (Hemb eq_refl). rewrite Hemb in Ek. injection Ek as <-. reflexivity.
        * destruct (Ha k Ek) as [H1 _]. exact H1.
      + specialize (IH Hr s o). rewrite E2 in IH. apply IH; assumption.
    - (* IDistinctOn *) cbn [takes_spec takes_wf] in *.
      destruct (run ctes (mkst key (sorting key s) true) r) as [s2 o2] eqn:E2. cbn [snd app].
      rewrite takes_emitted_sort_don.
      specialize (IH Hr (mkst key (sorting key s) true) None). rewrite E2 in IH. apply IH; [|exact Hw]. intros k0 E; discriminate.
    - (* IOther *) cbn [takes_spec takes_wf] in *.
      destruct (run ctes s r) as [s2 o2] eqn:E2. cbn [snd app].
      rewrite takes_emitted_skip by (intros k E; discriminate).
      specialize (IH Hr s o). rewrite E2 in IH. apply IH; assumption.
  Qed.

  (* ---- any number of sub-queries: a linear chain of CTEs behaves like the uncut pipeline ---- *)
  Fixpoint chain_cs (prev : nat) (qs : list (nat * list item)) : list (nat * list item) :=
    match qs with
    | [] => []
    | (tid, q) :: r => (tid, IFromRef prev :: q) :: chain_cs tid r
    end.
  Fixpoint chain_last (prev : nat) (qs : list (nat * list item)) : nat :=
    match qs with [] => prev | (tid, _) :: r => chain_last tid r end.

  Lemma lookup_head ctes t s : lookup ((t, s) :: ctes) t = s.
  Proof. unfold Sorts.lookup. cbn [find fst]. rewrite Nat.eqb_refl. reflexivity. Qed.

  Lemma run_ctes_chain qs : forall ctes prev s,
    lookup ctes prev = s -> (forall tq, In tq qs -> no_ref (snd tq)) ->
    lookup (fst (run_ctes key is_empty empty ctes (chain_cs prev qs))) (chain_last prev qs)
    = fst (run [] s (concat (map snd qs))).
  Proof.
    induction qs as [|[tid q] r IH]; intros ctes prev s Hl Hn.
    - cbn. exact Hl.
    - cbn [chain_cs chain_last map snd concat run_ctes].
      rewrite run_cons. cbn [step]. rewrite Hl.
      assert (Hq : no_ref q) by (apply (Hn (tid, q)); left; reflexivity).
      rewrite (run_no_ref ctes [] q Hq s).
      rewrite run_app. destruct (run [] s q) as [s1 o1] eqn:E1.
      specialize (IH ((tid, s1) :: ctes) tid s1 (lookup_head ctes tid s1) (fun tq Ht => Hn tq (or_intror Ht))).
      destruct (run_ctes key is_empty empty ((tid, s1) :: ctes) (chain_cs tid r)) as [ctes' os] eqn:E2.
      cbn [fst] in *. rewrite IH. destruct (run [] s1 (concat (map snd r))); reflexivity.
  Qed.

  (* the final ORDER BY of the main query is the order in effect of the whole pipeline, however many
     CTEs it was cut into *)
  Theorem final_order_any_split base qs qm k :
    (forall tq, In tq qs -> no_ref (snd tq)) -> no_ref qm ->
    eff None (concat (map snd qs) ++ qm) = Some k ->
    let '(_, out) := run_query key is_empty empty (chain_cs base qs) (IFromRef (chain_last base qs) :: qm) in
    last out IOther = ISort k.
  Proof.
    intros Hn Hm He. unfold run_query.
    pose proof (run_ctes_chain qs [] base st0 eq_refl Hn) as Hc.
    destruct (run_ctes key is_empty empty [] (chain_cs base qs)) as [ctes os] eqn:E. cbn [fst] in Hc.
    rewrite run_cons. cbn [step]. rewrite Hc.
    rewrite (run_no_ref ctes [] qm Hm).
    pose proof (run_agrees [] (concat (map snd qs) ++ qm)) as Ha.
    assert (Hnr : no_ref (concat (map snd qs) ++ qm)).
    { intros t Ht. apply in_app_or in Ht as [Ht|Ht]; [|exact (Hm t Ht)].
      apply in_concat in Ht as [q [Hq Ht]]. apply in_map_iff in Hq as [tq [<- Hq]]. exact (Hn tq Hq t Ht). }
    specialize (Ha Hnr st0 None (fun k0 E => ltac:(discriminate))).
    rewrite run_app in Ha. destruct (run [] st0 (concat (map snd qs))) as [s1 o1]. cbn [fst].
    destruct (run [] s1 qm) as [s2 o2]. cbn [fst] in Ha. rewrite He in Ha.
    destruct (Ha k eq_refl) as [Hk _]. rewrite <- Hk. rewrite last_last. reflexivity.
  Qed.
End Proofs.

(* ---- widening of a CTE's SELECT by its sort columns *)
Lemma widen_prefix : forall sc sel, exists extra, widen sel sc = sel ++ extra.
Proof.
  induction sc as [|c r IH]; intro sel; cbn [widen].
  - exists []. rewrite app_nil_r. reflexivity.
  - destruct (existsb (Nat.eqb c) sel).
    + apply IH.
    + destruct (IH (sel ++ [c])) as [e He]. exists (c :: e). rewrite He, <- app_assoc. reflexivity.
Qed.

Lemma widen_keeps : forall sc sel x, In x sel -> In x (widen sel sc).
Proof. intros sc sel x H. destruct (widen_prefix sc sel) as [e He]. rewrite He. apply in_or_app. left. exact H. Qed.

(* what the widening is for: every sort column is selected afterwards, and nothing selected before moves *)
Theorem widen_covers : forall sc sel, (forall c, In c sc -> In c (widen sel sc)) /\ exists extra, widen sel sc = sel ++ extra.
Proof.
  split; [|apply widen_prefix]. revert sel.
  induction sc as [|c r IH]; intros sel x Hx; [destruct Hx|].
  cbn [widen]. destruct Hx as [<-|Hx]; [|apply IH; exact Hx].
  destruct (existsb (Nat.eqb c) sel) eqn:E.
  - apply widen_keeps. apply existsb_exists in E. destruct E as [y [Hy Ey]]. apply Nat.eqb_eq in Ey. subst y. exact Hy.
  - apply widen_keeps. apply in_or_app. right. left. reflexivity.
Qed.

(* the operands of a set operation keep equal widths when the sort columns are selected already (or in the main query) *)
Theorem widen_noop : forall sc sel, (forall c, In c sc -> In c sel) -> widen sel sc = sel.
Proof.
  induction sc as [|c r IH]; intros sel H; [reflexivity|]. cbn [widen].
  assert (E : existsb (Nat.eqb c) sel = true).
  { apply existsb_exists. exists c. split; [apply H; left; reflexivity | apply Nat.eqb_refl]. }
  rewrite E. apply IH. intros x Hx. apply H. right. exact Hx.
Qed.

Theorem arity_kept_partial : forall main sel sc, (main = true \/ forall c, In c sc -> In c sel) -> arity_kept main sel sc = true.
Proof.
  intros main sel sc [->|H]; unfold arity_kept, select_after; [apply Nat.eqb_refl|].
  destruct main; [apply Nat.eqb_refl|]. rewrite (widen_noop sc sel H). apply Nat.eqb_refl.
Qed.

(* ---- the cid-level inference refines the kind-level one: forgetting the column ids (and what the redirects do to them) gives
   exactly the run of Model/Sorts.v on direction lists -- so c03_final_order_any_split, c03_takes_see_order_in_effect and
   c03_state_tracks_order_in_effect speak about the model that is compared with the code at the level of column ids *)
Definition is_nil (k : list bool) : bool := match k with [] => true | _ => false end.
Definition erase_cte (c : nat * st skey) : nat * st (list bool) := (fst c, erase_st (snd c)).

Lemma lookup_erase ctes tid : lookup (list bool) [] (map erase_cte ctes) tid = erase_st (lookup skey [] ctes tid).
Proof.
  unfold lookup. induction ctes as [|c r IH]; [reflexivity|].
  cbn [map find]. unfold erase_cte at 1. cbn [fst]. destruct (Nat.eqb (fst c) tid); [reflexivity | exact IH].
Qed.

Lemma map_snd_redirect rd k : map snd (redirect_sorts rd k) = map snd k.
Proof. unfold redirect_sorts. rewrite map_map. reflexivity. Qed.

Lemma is_nil_erase (k : skey) : is_nil (map snd k) = skey_empty k.
Proof. destruct k; reflexivity. Qed.

Lemma cstep_erase ctes rds s i :
  step (list bool) is_nil [] (map erase_cte ctes) (erase_st s) (erase_item i)
  = (erase_st (fst (cstep ctes rds s i)), map erase_item (snd (cstep ctes rds s i))).
Proof.
  destruct i; cbn [cstep erase_item step fst snd map]; try reflexivity.
  - rewrite lookup_erase. unfold erase_st. cbn [sorting fdo]. rewrite map_snd_redirect. reflexivity.
  - unfold erase_st. cbn [fdo]. destruct (fdo skey s) eqn:E; cbn [sorting fdo map]; rewrite ?E; reflexivity.
  - unfold erase_st at 1. cbn [sorting]. rewrite is_nil_erase. destruct (part_empty && negb (skey_empty emb)); reflexivity.
Qed.

Theorem crun_refines_run : forall p ctes rds s,
  run (list bool) is_nil [] (map erase_cte ctes) (erase_st s) (map erase_item p)
  = (erase_st (fst (crun ctes rds s p)), map erase_item (snd (crun ctes rds s p))).
Proof.
  induction p as [|i r IH]; intros ctes rds s; [reflexivity|].
  cbn [map run crun]. rewrite (cstep_erase ctes rds s i).
  destruct (cstep ctes rds s i) as [s1 o1]. cbn [fst snd].
  rewrite (IH ctes rds s1). destruct (crun ctes rds s1 r) as [s2 o2]. cbn [fst snd]. rewrite map_app. reflexivity.
Qed.

(* the inherited sorting is re-targeted column by column and keeps its directions; a column without a redirect in the reading
   instance keeps the id it has INSIDE the CTE (the situation of findings C07-N1 / F46 / F24: the emitted ORDER BY then names a
   column by the name it has in there) *)
Theorem redirect_sorts_spec rd k :
  map snd (redirect_sorts rd k) = map snd k /\
  forall c d, In (c, d) k -> In (redirect_cid rd c, d) (redirect_sorts rd k).
Proof.
  split; [apply map_snd_redirect|]. intros c d H. unfold redirect_sorts.
  apply (in_map (fun cb : nat * bool => (redirect_cid rd (fst cb), snd cb)) k (c, d) H).
Qed.
Theorem redirect_cid_unmapped rd c : (forall p, In p rd -> fst p <> c) -> redirect_cid rd c = c.
Proof.
  intro H. unfold redirect_cid. destruct (find (fun p => Nat.eqb (fst p) c) rd) as [p|] eqn:E; [|reflexivity].
  apply find_some in E as [Hin Eq]. apply Nat.eqb_eq in Eq. exfalso. exact (H p Hin Eq).
Qed.

(* ---- alias_last_sorting: whatever it does to the column ids, the final ORDER BY keeps the directions of the order in
   effect (so c03_final_order_any_split speaks about the ORDER BY whose ids are compared with the code), and without any
   redirect in the context it is the identity *)
Theorem alias_last_sorting_directions fuel decls rds fs from k :
  map snd (alias_last_sorting fuel decls rds fs from k) = map snd k.
Proof.
  unfold alias_last_sorting. rewrite map_snd_redirect, map_map.
  induction k as [|cb r IH]; [reflexivity|]. cbn [map]. rewrite IH. f_equal.
  destruct (revert fuel decls rds (fst cb) []) as [c0 riids]. reflexivity.
Qed.

Lemma revert_no_redirects fuel decls c riids : revert fuel decls [] c riids = (c, riids).
Proof.
  destruct fuel as [|f]; [reflexivity|]. cbn [revert]. destruct (decl_of decls c) as [[riid col|r]|]; reflexivity.
Qed.

Lemma redirect_sorts_nil k : redirect_sorts [] k = k.
Proof. induction k as [|[c d] r IH]; [reflexivity|]. unfold redirect_sorts in *. cbn [map fst snd]. rewrite IH. reflexivity. Qed.

Theorem alias_last_sorting_no_redirects fuel decls fs from k : alias_last_sorting fuel decls [] fs from k = k.
Proof.
  unfold alias_last_sorting. cbn [rd_of find]. rewrite redirect_sorts_nil.
  induction k as [|[c d] r IH]; [reflexivity|]. cbn [map fst snd]. rewrite revert_no_redirects. cbn [forward]. rewrite IH. reflexivity.
Qed.

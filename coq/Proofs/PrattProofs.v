(* Theta-1: the print/parse round trip of Model/Pratt.v, for arbitrary depth, arbitrary
   parenthesisation (decorated trees), prefix operators and call forms. *)
From Coq Require Import List Arith Lia Bool.
From PV Require Import Model.Pratt.
Import ListNotations.

Section PrattProofs.
Variable op uop atom fn : Type.
Variable prec : op -> nat.
Variable rassoc : op -> bool.
Variable uprec : uop -> nat.
Variable INF : nat.
Hypothesis assoc_consistent : forall a b, prec a = prec b -> rassoc a = rassoc b.
Hypothesis prec_lt_INF : forall o, S (prec o) < INF.
Hypothesis uprec_lt_INF : forall u, uprec u < INF.
Hypothesis uprec_distinct : forall u o, uprec u <> prec o.

Notation tok := (Pratt.tok op uop atom fn).
Notation expr := (Pratt.expr op uop atom fn).
Notation dexpr := (Pratt.dexpr op uop atom fn).
Notation parse := (Pratt.parse op uop atom fn prec rassoc uprec).
Notation loop := (Pratt.loop op uop atom fn prec rassoc uprec).
Notation pargs_parse := (Pratt.pargs_parse op uop atom fn prec rassoc uprec).
Notation strength := (Pratt.strength op uop atom fn prec uprec INF).
Notation dstrength := (Pratt.dstrength op uop atom fn prec uprec INF).
Notation lreq := (Pratt.lreq op prec rassoc).
Notation rreq := (Pratt.rreq op prec rassoc).
Notation dprint := (Pratt.dprint op uop atom fn).
Notation dpargs := (Pratt.dpargs op uop atom fn).
Notation dok := (Pratt.dok op uop atom fn prec rassoc uprec INF).

Lemma dexpr_ind2 (P : dexpr -> Prop) :
  (forall a, P (DAtom a)) ->
  (forall o wl l wr r, P l -> P r -> P (DBin o wl l wr r)) ->
  (forall u w x, P x -> P (DUn u w x)) ->
  (forall f args, Forall (fun p => P (snd p)) args -> P (DCall f args)) ->
  forall d, P d.
Proof.
  intros HA HB HU HC. fix IH 1. intros [a|o wl l wr r|u w x|f args].
  - apply HA. - apply HB; apply IH. - apply HU; apply IH.
  - apply HC. induction args as [|[n a] t IHt]; constructor; [apply IH|exact IHt].
Qed.

Lemma expr_ind2 (P : expr -> Prop) :
  (forall a, P (Atom a)) -> (forall o l r, P l -> P r -> P (Bin o l r)) ->
  (forall u x, P x -> P (Un u x)) -> (forall f args, Forall P args -> P (Call f args)) ->
  forall e, P e.
Proof.
  intros HA HB HU HC. fix IH 1. intros [a|o l r|u x|f args].
  - apply HA. - apply HB; apply IH. - apply HU; apply IH.
  - apply HC. induction args as [|a t IHt]; constructor; [apply IH|exact IHt].
Qed.

Lemma dstrength_erase d : dstrength d = strength (erase d).
Proof. destruct d; reflexivity. Qed.

Lemma parse_S f minp ts : parse (S f) minp ts =
  match ts with
  | TA a :: r => loop f minp (Atom a) r
  | TL :: r => match parse f 0 r with Some (e, TR :: r') => loop f minp e r' | _ => None end
  | TU u :: r => match parse f (uprec u) r with Some (x, r') => loop f minp (Un u x) r' | None => None end
  | TF fn_ :: TL :: TR :: r => loop f minp (Call fn_ []) r
  | TF fn_ :: TL :: r => match pargs_parse f r with Some (args, r') => loop f minp (Call fn_ args) r' | None => None end
  | _ => None end.
Proof. reflexivity. Qed.
Lemma loop_S f minp l ts : loop (S f) minp l ts =
  match ts with
  | TO o :: r => if minp <=? prec o then
      match parse f (rreq o) r with Some (rhs, r') => loop f minp (Bin o l rhs) r' | None => None end
    else Some (l, ts)
  | _ => Some (l, ts) end.
Proof. reflexivity. Qed.
Lemma pargs_S f ts : pargs_parse (S f) ts =
  match parse f 0 ts with
  | Some (a, TC :: r) => match pargs_parse f r with Some (rest, r') => Some (a :: rest, r') | None => None end
  | Some (a, TR :: r) => Some ([a], r)
  | _ => None end.
Proof. reflexivity. Qed.

Lemma mono : forall f,
  (forall minp ts r, parse f minp ts = Some r -> parse (S f) minp ts = Some r) /\
  (forall minp l ts r, loop f minp l ts = Some r -> loop (S f) minp l ts = Some r) /\
  (forall ts r, pargs_parse f ts = Some r -> pargs_parse (S f) ts = Some r).
Proof.
  induction f as [|f [IHp [IHl IHa]]]; (split; [|split]); intros; try discriminate.
  - (* parse *)
    rewrite parse_S in H. rewrite parse_S.
    destruct ts as [|[a|o|u|fn_| | |] ts']; try discriminate.
    + apply IHl; exact H.
    + destruct (parse f (uprec u) ts') as [[x r']|] eqn:E; try discriminate.
      apply IHp in E. rewrite E. apply IHl; exact H.
    + destruct ts' as [|[a|o|u|fn2| | |] ts'']; try discriminate.
      destruct ts'' as [|[a|o|u|fn2| | |] ts3];
        try (destruct (pargs_parse f _) as [[args r']|] eqn:E; [|discriminate];
             apply IHa in E; rewrite E; apply IHl; exact H); try discriminate.
      * apply IHl; exact H.
    + destruct (parse f 0 ts') as [[e [|[a|o|u|fn2| | |] r']]|] eqn:E; try discriminate.
      apply IHp in E. rewrite E. apply IHl; exact H.
  - (* loop *)
    rewrite loop_S in H. rewrite loop_S.
    destruct ts as [|[a|o|u|fn_| | |] ts']; try exact H.
    destruct (minp <=? prec o); [|exact H].
    destruct (parse f (rreq o) ts') as [[rhs r']|] eqn:E; try discriminate.
    apply IHp in E. rewrite E. apply IHl. exact H.
  - (* pargs_parse *)
    rewrite pargs_S in H. rewrite pargs_S.
    destruct (parse f 0 ts) as [[a [|[x|o|u|fn_| | |] r0]]|] eqn:E; try discriminate.
    + apply IHp in E. rewrite E. exact H.
    + apply IHp in E. rewrite E.
      destruct (pargs_parse f r0) as [[rest r']|] eqn:E2; try discriminate.
      apply IHa in E2. rewrite E2. exact H.
Qed.

Lemma mono_parse f g minp ts r : f <= g -> parse f minp ts = Some r -> parse g minp ts = Some r.
Proof. induction 1; auto. intro. apply (proj1 (mono m)). auto. Qed.
Lemma mono_loop f g minp l ts r : f <= g -> loop f minp l ts = Some r -> loop g minp l ts = Some r.
Proof. induction 1; auto. intro. apply (proj1 (proj2 (mono m))). auto. Qed.
Lemma mono_pargs f g ts r : f <= g -> pargs_parse f ts = Some r -> pargs_parse g ts = Some r.
Proof. induction 1; auto. intro. apply (proj2 (proj2 (mono m))). auto. Qed.

Definition stop (p : nat) (ts : list tok) : Prop :=
  match ts with TO o :: _ => prec o < p | _ => True end.
Definition edge (e : expr) :=
  match e with Atom _ | Call _ _ => INF | Bin o _ _ => rreq o | Un u _ => uprec u end.

Lemma loop_stop f minp e rest : stop minp rest -> loop (S f) minp e rest = Some (e, rest).
Proof.
  intros H. rewrite loop_S. destruct rest as [|[a|o|u|fn_| | |] r]; auto.
  cbn in H. destruct (Nat.leb_spec minp (prec o)); [lia|reflexivity].
Qed.
Lemma stop_mono p q ts : p <= q -> stop p ts -> stop q ts.
Proof. destruct ts as [|[a|o|u|fn_| | |] r]; cbn; auto. lia. Qed.
Lemma stop_INF rest : stop INF rest.
Proof. destruct rest as [|[a|o|u|fn_| | |] r]; cbn; auto. pose proof (prec_lt_INF o). lia. Qed.
Lemma stop_edge_of_strength e p rest : p <= strength e -> stop p rest -> stop (edge e) rest.
Proof.
  intros Hp Hs. destruct e as [a|o l r|u x|f args]; cbn in *; try apply stop_INF.
  - eapply stop_mono; [|exact Hs]. unfold Pratt.rreq. destruct (rassoc o); lia.
  - eapply stop_mono; [|exact Hs]. exact Hp.
Qed.

Lemma dprint_head d : exists t ts, dprint d = t :: ts /\ t <> TR.
Proof.
  induction d using dexpr_ind2; cbn [Pratt.dprint].
  - eexists _, _; split; [reflexivity|discriminate].
  - destruct wl as [|k]; cbn [wrap].
    + destruct IHd1 as [t [ts [-> Ht]]]. eexists _, _; split; [reflexivity|exact Ht].
    + eexists _, _; split; [reflexivity|discriminate].
  - eexists _, _; split; [reflexivity|discriminate].
  - eexists _, _; split; [reflexivity|discriminate].
Qed.
Lemma wrap_head n d : exists t ts, wrap n (dprint d) = t :: ts /\ t <> TR.
Proof.
  destruct n as [|k]; cbn [wrap]; [apply dprint_head|].
  eexists _, _; split; [reflexivity|discriminate].
Qed.

Definition good (d : dexpr) : Prop :=
  forall minp rest k f, minp <= strength (erase d) -> stop (edge (erase d)) rest ->
    loop f minp (erase d) rest = Some k -> exists g, parse g minp (dprint d ++ rest) = Some k.

(* a wrapped or sufficiently strong child, parsed at minimum power m, yields exactly the child *)
Lemma child_parses d (G : good d) : forall (w : nat) m rest,
  (w = 0 -> m <= strength (erase d)) -> stop m rest ->
  exists g, parse g m (wrap w (dprint d) ++ rest) = Some (erase d, rest).
Proof.
  induction w as [|w IHw]; intros m rest Hw Hs; cbn [wrap].
  - specialize (Hw eq_refl).
    destruct (G m rest (erase d, rest) 1) as [g Hg]; [exact Hw| |apply loop_stop; exact Hs|].
    + eapply stop_edge_of_strength; eauto.
    + exists g. exact Hg.
  - destruct (IHw 0 (TR :: rest)) as [g Hg]; [lia|exact I|].
    exists (S (S g)). cbn [app]. rewrite <- app_assoc. cbn [app].
    rewrite parse_S. cbv beta match.
    rewrite (mono_parse g (S g) _ _ _ (Nat.le_succ_diag_r g) Hg).
    apply loop_stop. exact Hs.
Qed.

Lemma args_parse args (G : Forall (fun p => good (snd p)) args) rest : args <> [] ->
  exists g, pargs_parse g (dpargs args ++ rest) = Some (map (fun p => erase (snd p)) args, rest).
Proof.
  induction G as [|[n a] t Ga Gt IH]; intros Hne; [congruence|]. cbn [snd] in Ga.
  destruct (child_parses a Ga n 0 (match t with [] => TR :: rest | _ => TC :: dpargs t ++ rest end)) as [g Hg];
    [lia|destruct t; exact I|].
  destruct t as [|b t'].
  - exists (S g). cbn [Pratt.dpargs map snd]. rewrite <- app_assoc. cbn [app].
    rewrite pargs_S.
    rewrite Hg. reflexivity.
  - destruct IH as [g2 Hg2]; [discriminate|].
    exists (S (g + g2)).
    change (dpargs ((n, a) :: b :: t')) with (wrap n (dprint a) ++ TC :: dpargs (b :: t')).
    rewrite <- app_assoc. cbn [app].
    rewrite pargs_S.
    rewrite (mono_parse g (g + g2) _ _ _ (Nat.le_add_r _ _) Hg).
    rewrite (mono_pargs g2 (g + g2) _ _ (Nat.le_add_l _ _) Hg2). reflexivity.
Qed.

Lemma edge_or b n m : negb (n =? 0) || (m <=? b) = true -> n = 0 -> m <= b.
Proof.
  intros H E. subst n. cbn in H. apply Nat.leb_le. exact H.
Qed.

Theorem parse_print d : dok d = true -> good d.
Proof.
  induction d as [a|o wl l wr r IHl IHr|u w x IHx|fn_ args IHargs] using dexpr_ind2;
    intros OK minp rest k f Hmin Hstop Hloop.
  - exists (S f). rewrite parse_S. exact Hloop.
  - cbn [Pratt.dok] in OK. rewrite !andb_true_iff in OK. destruct OK as [[[OKl OKr] OKwl] OKwr].
    specialize (IHl OKl). specialize (IHr OKr).
    rewrite dstrength_erase in OKwl, OKwr.
    cbn [erase Pratt.strength] in Hmin. cbn [erase edge] in Hstop. cbn [Pratt.dprint erase] in *.
    destruct (child_parses r IHr wr (rreq o) rest (edge_or _ _ _ OKwr) Hstop) as [g1 HA].
    set (R := wrap wr (dprint r)) in *.
    assert (HB : loop (S (g1 + f)) minp (erase l) (TO o :: R ++ rest) = Some k).
    { rewrite loop_S. destruct (Nat.leb_spec minp (prec o)); [|lia].
      rewrite (mono_parse g1 (g1 + f) _ _ _ (Nat.le_add_r _ _) HA).
      eapply mono_loop; [|exact Hloop]. lia. }
    rewrite <- app_assoc. cbn [app].
    destruct wl as [|wl']; cbn [wrap].
    + pose proof (edge_or _ _ _ OKwl eq_refl) as Hge.
      eapply (IHl minp (TO o :: R ++ rest) k); [| |exact HB].
      * unfold Pratt.lreq in Hge. destruct (rassoc o); lia.
      * destruct (erase l) as [a|o1 l1 r1|u1 x1|f1 a1]; cbn [edge stop Pratt.strength] in *.
        -- pose proof (prec_lt_INF o). lia.
        -- unfold Pratt.lreq, Pratt.rreq in *.
           destruct (rassoc o) eqn:Eo, (rassoc o1) eqn:Eo1; try lia.
           destruct (Nat.eq_dec (prec o1) (prec o)) as [Heq|]; [|lia].
           pose proof (assoc_consistent _ _ Heq). congruence.
        -- pose proof (uprec_distinct u1 o). unfold Pratt.lreq in Hge. destruct (rassoc o); lia.
        -- pose proof (prec_lt_INF o). lia.
    + destruct (child_parses l IHl wl' 0 (TR :: TO o :: R ++ rest)) as [g Hg]; [lia|exact I|].
      exists (S (g + S (g1 + f))). cbn [app]. rewrite <- app_assoc. cbn [app].
      rewrite parse_S. cbv beta match.
      rewrite (mono_parse g _ _ _ _ (Nat.le_add_r _ _) Hg).
      eapply mono_loop; [|exact HB]. lia.
  - cbn [Pratt.dok] in OK. rewrite !andb_true_iff in OK. destruct OK as [OKx OKw].
    specialize (IHx OKx). rewrite dstrength_erase in OKw.
    cbn [erase Pratt.strength] in Hmin. cbn [erase edge] in Hstop. cbn [Pratt.dprint erase] in *.
    destruct (child_parses x IHx w (uprec u) rest (edge_or _ _ _ OKw) Hstop) as [g1 HA].
    exists (S (g1 + f)). cbn [app].
    rewrite parse_S. cbv beta match.
    rewrite (mono_parse g1 (g1 + f) _ _ _ (Nat.le_add_r _ _) HA).
    eapply mono_loop; [|exact Hloop]. lia.
  - cbn [Pratt.dok] in OK. rewrite forallb_forall in OK.
    assert (G : Forall (fun p => good (snd p)) args).
    { rewrite Forall_forall in *. intros p Hp. apply IHargs; auto. }
    cbn [Pratt.dprint erase] in *. fold dpargs. destruct args as [|[n a] t].
    + exists (S f). rewrite parse_S. exact Hloop.
    + destruct (args_parse ((n, a) :: t) G rest) as [g Hg]; [discriminate|].
      exists (S (g + f)). cbn [app].
      destruct (wrap_head n a) as [t0 [ts0 [Hp Ht0]]].
      assert (Hshape : dpargs ((n, a) :: t) ++ rest = t0 :: (ts0 ++ match t with [] => [TR] | _ => TC :: dpargs t end) ++ rest).
      { destruct t; cbn [Pratt.dpargs]; rewrite Hp; cbn; rewrite <- ?app_assoc; reflexivity. }
      rewrite Hshape in *.
      destruct t0 as [a0|o0|u0|f0| | |]; try congruence;
      (rewrite parse_S; cbv beta match;
       rewrite (mono_pargs g (g + f) _ _ (Nat.le_add_r _ _) Hg);
       eapply mono_loop; [|exact Hloop]; lia).
Qed.

(* THE round trip, decorated form: any parenthesisation that respects the table re-parses to the tree *)
Theorem dprint_parse_roundtrip d : dok d = true -> exists g, parse g 0 (dprint d) = Some (erase d, []).
Proof.
  intros OK. destruct (parse_print d OK 0 [] (erase d, []) 1) as [g Hg]; [lia| |reflexivity|].
  - destruct (erase d); exact I.
  - exists g. rewrite app_nil_r in Hg. exact Hg.
Qed.

(* uniqueness: two table-respecting readings of the same token list are the same tree *)
Theorem dprint_unique d1 d2 : dok d1 = true -> dok d2 = true -> dprint d1 = dprint d2 -> erase d1 = erase d2.
Proof.
  intros O1 O2 E. destruct (dprint_parse_roundtrip d1 O1) as [g1 H1].
  destruct (dprint_parse_roundtrip d2 O2) as [g2 H2]. rewrite E in H1.
  pose proof (mono_parse g1 (g1 + g2) _ _ _ (Nat.le_add_r _ _) H1) as A.
  pose proof (mono_parse g2 (g1 + g2) _ _ _ (Nat.le_add_l _ _) H2) as B.
  rewrite A in B. congruence.
Qed.

End PrattProofs.

(* ---- policy form with the decidable [compat] ---- *)
Section Policy.
Variable op uop atom fn : Type.
Variable prec : op -> nat.
Variable rassoc : op -> bool.
Variable uprec : uop -> nat.
Variable INF : nat.
Variable ops : list op.
Variable uops : list uop.
Hypothesis ops_complete : forall o, In o ops.
Hypothesis uops_complete : forall u, In u uops.

Notation hstrength := (Pratt.hstrength op uop prec uprec INF).
Notation lreq := (Pratt.lreq op prec rassoc).
Notation rreq := (Pratt.rreq op prec rassoc).

Lemma table_ok_facts : table_ok op uop prec rassoc uprec INF ops uops = true ->
  (forall a b, prec a = prec b -> rassoc a = rassoc b) /\ (forall o, S (prec o) < INF) /\
  (forall u, uprec u < INF) /\ (forall u o, uprec u <> prec o).
Proof.
  unfold table_ok. rewrite andb_true_iff, !forallb_forall. intros [H1 H2]. repeat split.
  - intros a b E. specialize (H1 a (ops_complete a)). apply andb_true_iff in H1 as [_ H1].
    rewrite forallb_forall in H1. specialize (H1 b (ops_complete b)).
    rewrite E, Nat.eqb_refl in H1. cbn in H1. apply eqb_prop in H1. exact H1.
  - intros o. specialize (H1 o (ops_complete o)). apply andb_true_iff in H1 as [H1 _].
    apply Nat.ltb_lt in H1. exact H1.
  - intros u. specialize (H2 u (uops_complete u)). apply andb_true_iff in H2 as [H2 _].
    apply Nat.ltb_lt in H2. exact H2.
  - intros u o. specialize (H2 u (uops_complete u)). apply andb_true_iff in H2 as [_ H2].
    rewrite forallb_forall in H2. specialize (H2 o (ops_complete o)).
    apply negb_true_iff, Nat.eqb_neq in H2. exact H2.
Qed.

Lemma head_in (e : expr op uop atom fn) : In (head_of e) (heads op uop ops uops).
Proof.
  unfold heads. destruct e; cbn [head_of]; [left; reflexivity|..|right; left; reflexivity];
    right; right; apply in_or_app; [left|right]; apply in_map; auto.
Qed.

Lemma hstrength_head (e : expr op uop atom fn) : hstrength (head_of e) = Pratt.strength op uop atom fn prec uprec INF e.
Proof. destruct e; reflexivity. Qed.

Lemma dstrength_decorate P (e : expr op uop atom fn) :
  Pratt.dstrength op uop atom fn prec uprec INF (decorate op uop atom fn P e) = hstrength (head_of e).
Proof. destruct e; reflexivity. Qed.

Lemma erase_decorate P (e : expr op uop atom fn) : erase (decorate op uop atom fn P e) = e.
Proof.
  induction e using expr_ind2; cbn [decorate erase]; try congruence.
  f_equal. rewrite map_map. cbn [snd]. induction H; cbn; congruence.
Qed.

Lemma decorate_ok P : policy_ok op uop prec rassoc uprec INF ops uops P = true ->
  forall e : expr op uop atom fn, dok op uop atom fn prec rassoc uprec INF (decorate op uop atom fn P e) = true.
Proof.
  unfold policy_ok. rewrite forallb_forall. intros H e.
  induction e using expr_ind2; cbn [decorate Pratt.dok]; auto.
  - rewrite IHe1, IHe2, !dstrength_decorate. cbn [andb].
    pose proof (H _ (head_in e1)) as H1. pose proof (H _ (head_in e2)) as H2.
    apply andb_true_iff in H1 as [H1 _]. apply andb_true_iff in H2 as [H2 _].
    rewrite forallb_forall in H1, H2.
    specialize (H1 o (ops_complete o)). specialize (H2 o (ops_complete o)).
    apply andb_true_iff in H1 as [H1 _]. apply andb_true_iff in H2 as [_ H2].
    apply andb_true_iff; split.
    + destruct (pwrapL P o (head_of e1)); cbn in *; auto.
    + destruct (pwrapR P o (head_of e2)); cbn in *; auto.
  - rewrite IHe, dstrength_decorate. cbn [andb].
    pose proof (H _ (head_in e)) as H1. apply andb_true_iff in H1 as [_ H1].
    rewrite forallb_forall in H1. specialize (H1 u (uops_complete u)).
    destruct (pwrapU P u (head_of e)); cbn in *; auto.
  - rewrite forallb_forall. intros p Hp. apply in_map_iff in Hp as [a [<- Ha]]. cbn [snd].
    rewrite Forall_forall in H0. auto.
Qed.

(* Theta-1, policy form *)
Theorem print_parse_roundtrip P : compat op uop prec rassoc uprec INF ops uops P = true ->
  forall e : expr op uop atom fn,
  exists fuel, Pratt.parse op uop atom fn prec rassoc uprec fuel 0 (print op uop atom fn P e) = Some (e, []).
Proof.
  unfold compat. rewrite andb_true_iff. intros [T PO] e.
  destruct (table_ok_facts T) as [A [B [C D]]].
  destruct (dprint_parse_roundtrip op uop atom fn prec rassoc uprec INF A B D _ (decorate_ok P PO e)) as [g Hg].
  exists g. unfold print. rewrite Hg, erase_decorate. reflexivity.
Qed.

End Policy.

(* Permutation-invariance of the patterns of Model/Perm.v, and the refuting pairs of the order-dependent ones. *)
From Coq Require Import List NArith Bool Arith Lia Permutation Sorted.
From PV Require Import Model.Perm.
Import ListNotations.

Section SortInvariance.
  Variable A : Type.
  Variable leb : A -> A -> bool.
  Hypothesis leb_total : forall x y, leb x y = true \/ leb y x = true.
  Hypothesis leb_trans : forall x y z, leb x y = true -> leb y z = true -> leb x z = true.
  Notation insert := (insert A leb).
  Notation isort := (isort A leb).

  Definition le (x y : A) : Prop := leb x y = true.

  Lemma insert_perm x l : Permutation (x :: l) (insert x l).
  Proof.
    induction l as [|y l IH]; cbn [Perm.insert]; [apply Permutation_refl|].
    destruct (leb x y); [apply Permutation_refl|].
    eapply Permutation_trans; [apply perm_swap|]. apply perm_skip. exact IH.
  Qed.

  Lemma isort_perm l : Permutation l (isort l).
  Proof.
    induction l as [|x l IH]; cbn [Perm.isort]; [apply Permutation_refl|].
    eapply Permutation_trans; [apply perm_skip; exact IH | apply insert_perm].
  Qed.

  Lemma insert_sorted x l : StronglySorted le l -> StronglySorted le (insert x l).
  Proof.
    induction l as [|y l IH]; intro H; cbn [Perm.insert].
    - constructor; [constructor | constructor].
    - inversion H as [|? ? Hs Hall]; subst. destruct (leb x y) eqn:E.
      + constructor; [exact H|]. constructor; [exact E|].
        rewrite Forall_forall in *. intros z Hz. apply (leb_trans x y z E). apply Hall. exact Hz.
      + constructor; [apply IH; exact Hs|].
        assert (le y x) as Hyx by (destruct (leb_total x y) as [H1|H1]; [congruence | exact H1]).
        rewrite Forall_forall in *. intros z Hz.
        apply (Permutation_in _ (Permutation_sym (insert_perm x l))) in Hz. destruct Hz as [<-|Hz]; [exact Hyx | apply Hall; exact Hz].
  Qed.

  Lemma isort_sorted l : StronglySorted le (isort l).
  Proof. induction l as [|x l IH]; cbn [Perm.isort]; [constructor | apply insert_sorted; exact IH]. Qed.

  (* two sorted permutations of each other are equal when the order is antisymmetric on their elements *)
  Lemma sorted_perm_eq : forall l1 l2,
    (forall x y, In x l1 -> In y l1 -> le x y -> le y x -> x = y) ->
    StronglySorted le l1 -> StronglySorted le l2 -> Permutation l1 l2 -> l1 = l2.
  Proof.
    induction l1 as [|x l1 IH]; intros l2 Hanti H1 H2 HP.
    - apply Permutation_nil in HP. subst. reflexivity.
    - destruct l2 as [|y l2]; [apply Permutation_sym, Permutation_nil in HP; discriminate|].
      inversion H1 as [|? ? Hs1 Ha1]; subst. inversion H2 as [|? ? Hs2 Ha2]; subst.
      assert (x = y) as ->.
      { assert (In y (x :: l1)) as Hy by (apply (Permutation_in _ (Permutation_sym HP)); left; reflexivity).
        assert (In x (y :: l2)) as Hx by (apply (Permutation_in _ HP); left; reflexivity).
        destruct Hy as [Hy|Hy]; [exact Hy|]. destruct Hx as [Hx|Hx]; [symmetry; exact Hx|].
        rewrite Forall_forall in Ha1, Ha2.
        apply Hanti; [left; reflexivity | right; exact Hy | apply Ha1; exact Hy | apply Ha2; exact Hx]. }
      f_equal. apply IH; try assumption.
      + intros a b Ha Hb. apply Hanti; right; assumption.
      + eapply Permutation_cons_inv; exact HP.
  Qed.

  Theorem perm_invariant_sort l l' :
    (forall x y, In x l -> In y l -> le x y -> le y x -> x = y) ->
    Permutation l l' -> isort l = isort l'.
  Proof.
    intros Hanti HP. apply sorted_perm_eq; try apply isort_sorted.
    - intros x y Hx Hy. apply Hanti; apply (Permutation_in _ (Permutation_sym (isort_perm l))); assumption.
    - eapply Permutation_trans; [apply Permutation_sym, isort_perm|].
      eapply Permutation_trans; [exact HP | apply isort_perm].
  Qed.

  Theorem perm_invariant_by_len {B} (r0 : B) (r1 : A -> B) (rn : list A -> B) l l' :
    (forall x y, In x l -> In y l -> le x y -> le y x -> x = y) ->
    Permutation l l' -> by_len A leb r0 r1 rn l = by_len A leb r0 r1 rn l'.
  Proof.
    intros Hanti HP. pose proof (Permutation_length HP) as Hlen.
    destruct l as [|a [|b l]]; destruct l' as [|a' [|b' l']]; cbn [length] in Hlen; try discriminate Hlen.
    - reflexivity.
    - apply Permutation_length_1 in HP. subst. reflexivity.
    - unfold by_len. f_equal. apply perm_invariant_sort; assumption.
  Qed.
End SortInvariance.

(* sort by key on entries with pairwise distinct keys (HashMap entries): the comparison only looks at the key *)
Section SortByKey.
  Variable V : Type.
  Definition key_leb (a b : nat * V) : bool := Nat.leb (fst a) (fst b).

  Lemma key_leb_total x y : key_leb x y = true \/ key_leb y x = true.
  Proof. unfold key_leb. destruct (Nat.leb (fst x) (fst y)) eqn:E; [left; reflexivity|right]. apply Nat.leb_le. apply Nat.leb_gt in E. lia. Qed.

  Lemma key_leb_trans x y z : key_leb x y = true -> key_leb y z = true -> key_leb x z = true.
  Proof. unfold key_leb. intros H1 H2. apply Nat.leb_le in H1, H2. apply Nat.leb_le. lia. Qed.

  Lemma nodup_keys_inj (l : list (nat * V)) : NoDup (map fst l) ->
    forall x y, In x l -> In y l -> fst x = fst y -> x = y.
  Proof.
    induction l as [|a l IH]; intros Hnd x y Hx Hy Hk; [destruct Hx|].
    cbn [map] in Hnd. inversion Hnd as [|? ? Hnot Hnd']; subst.
    destruct Hx as [<-|Hx]; destruct Hy as [<-|Hy].
    - reflexivity.
    - exfalso. apply Hnot. rewrite Hk. apply in_map. exact Hy.
    - exfalso. apply Hnot. rewrite <- Hk. apply in_map. exact Hx.
    - apply IH; assumption.
  Qed.

  Theorem perm_invariant_sort_by_key l l' :
    NoDup (map fst l) -> Permutation l l' -> isort _ key_leb l = isort _ key_leb l'.
  Proof.
    intros Hnd HP. apply perm_invariant_sort; [apply key_leb_total | apply key_leb_trans | | exact HP].
    intros x y Hx Hy H1 H2. apply (nodup_keys_inj l Hnd x y Hx Hy).
    unfold le, key_leb in *. apply Nat.leb_le in H1, H2. lia.
  Qed.
End SortByKey.

Section Simple.
  Variable A : Type.

  Theorem perm_invariant_len (l l' : list A) : Permutation l l' -> length l = length l'.
  Proof. apply Permutation_length. Qed.

  Theorem perm_invariant_all (p : A -> bool) l l' : Permutation l l' -> all_of A p l = all_of A p l'.
  Proof.
    intro HP. unfold all_of. induction HP; cbn [forallb]; try reflexivity.
    - rewrite IHHP. reflexivity.
    - destruct (p x), (p y); reflexivity.
    - congruence.
  Qed.

  Theorem perm_invariant_any (p : A -> bool) l l' : Permutation l l' -> any_of A p l = any_of A p l'.
  Proof.
    intro HP. unfold any_of. induction HP; cbn [existsb]; try reflexivity.
    - rewrite IHHP. reflexivity.
    - destruct (p x), (p y); reflexivity.
    - congruence.
  Qed.

  (* find is order-independent when at most one element qualifies *)
  Theorem perm_invariant_find_unique (p : A -> bool) l l' :
    (forall x y, In x l -> In y l -> p x = true -> p y = true -> x = y) ->
    Permutation l l' -> find_first A p l = find_first A p l'.
  Proof.
    intros Hu HP. unfold find_first. induction HP.
    - reflexivity.
    - cbn [find]. destruct (p x); [reflexivity|]. apply IHHP. intros a b Ha Hb. apply Hu; right; assumption.
    - cbn [find]. destruct (p y) eqn:Ey, (p x) eqn:Ex; try reflexivity.
      f_equal. apply Hu; [left; reflexivity | right; left; reflexivity | exact Ey | exact Ex].
    - rewrite IHHP1 by exact Hu. apply IHHP2.
      intros a b Ha Hb. apply Hu; apply (Permutation_in _ (Permutation_sym HP1)); assumption.
  Qed.

  Theorem perm_invariant_at_most_one {B} (f : list A -> B) l l' :
    length l <= 1 -> Permutation l l' -> f l = f l'.
  Proof.
    intros Hl HP. destruct l as [|a [|b l]]; cbn [length] in Hl; try lia.
    - apply Permutation_nil in HP. subst. reflexivity.
    - apply Permutation_length_1_inv in HP. subst. reflexivity.
  Qed.
End Simple.

Theorem perm_invariant_max l l' : Permutation l l' -> max_of l = max_of l'.
Proof.
  intro HP. unfold max_of. induction HP; cbn [fold_right]; lia.
Qed.

Section Maps.
  Variables V W : Type.

  Lemma lookup_last_in k (l : list (nat * V)) v : lookup_last k l = Some v -> In (k, v) l.
  Proof.
    induction l as [|[k' v'] l IH]; cbn [lookup_last]; intro H; [discriminate|].
    destruct (lookup_last k l) as [r|] eqn:E.
    - injection H as <-. right. apply IH. reflexivity.
    - destruct (Nat.eqb k k') eqn:Ek; [|discriminate]. apply Nat.eqb_eq in Ek. injection H as <-. subst. left. reflexivity.
  Qed.

  Lemma lookup_last_none k (l : list (nat * V)) : lookup_last k l = None <-> ~ In k (map fst l).
  Proof.
    induction l as [|[k' v'] l IH]; cbn [lookup_last map fst In]; [tauto|].
    destruct (lookup_last k l) as [r|] eqn:E.
    - split; [discriminate|]. intro H. exfalso. apply H. right.
      apply lookup_last_in in E. apply (in_map fst) in E. exact E.
    - destruct (Nat.eqb k k') eqn:Ek.
      + apply Nat.eqb_eq in Ek. split; [discriminate | intro H; exfalso; apply H; left; symmetry; exact Ek].
      + apply Nat.eqb_neq in Ek. split; [|reflexivity]. intros _ [H|H]; [congruence | apply IH in H; [exact H | reflexivity]].
  Qed.

  Lemma lookup_last_nodup k (l : list (nat * V)) v : NoDup (map fst l) -> In (k, v) l -> lookup_last k l = Some v.
  Proof.
    induction l as [|[k' v'] l IH]; intros Hnd Hin; [destruct Hin|].
    cbn [map fst] in Hnd. inversion Hnd as [|? ? Hnot Hnd']; subst. cbn [lookup_last].
    destruct Hin as [Heq|Hin].
    - injection Heq as -> ->. assert (lookup_last k l = None) as -> by (apply lookup_last_none; exact Hnot).
      rewrite Nat.eqb_refl. reflexivity.
    - rewrite (IH Hnd' Hin). reflexivity.
  Qed.

  (* a map rebuilt from entries with distinct keys answers lookups independently of the order *)
  Theorem perm_invariant_lookup k (l l' : list (nat * V)) :
    NoDup (map fst l) -> Permutation l l' -> lookup_last k l = lookup_last k l'.
  Proof.
    intros Hnd HP.
    assert (NoDup (map fst l')) as Hnd' by (eapply Permutation_NoDup; [apply Permutation_map; exact HP | exact Hnd]).
    destruct (lookup_last k l) as [v|] eqn:E.
    - symmetry. apply lookup_last_nodup; [exact Hnd'|]. apply (Permutation_in _ HP). apply lookup_last_in. exact E.
    - symmetry. apply lookup_last_none. intro Hin. apply lookup_last_none in E. apply E.
      apply (Permutation_in _ (Permutation_sym (Permutation_map fst HP))). exact Hin.
  Qed.

  (* per-entry updates commute with reordering: the result is the same map *)
  Theorem perm_invariant_map_values (g : V -> W) l l' :
    Permutation l l' -> Permutation (map_values g l) (map_values g l').
  Proof. apply Permutation_map. Qed.
End Maps.

Theorem perm_invariant_find_value x l l' : Permutation l l' -> find_value x l = find_value x l'.
Proof.
  intro HP. unfold find_value.
  assert (forall m, option_map snd (find (fun kv : nat * nat => Nat.eqb (snd kv) x) m)
                    = if existsb (fun kv => Nat.eqb (snd kv) x) m then Some x else None) as H.
  { induction m as [|[k v] m IH]; cbn [find existsb snd]; [reflexivity|].
    destruct (Nat.eqb v x) eqn:E; [apply Nat.eqb_eq in E; subst; reflexivity | exact IH]. }
  rewrite !H. pose proof (perm_invariant_any _ (fun kv : nat * nat => Nat.eqb (snd kv) x) l l' HP) as Ha.
  unfold any_of in Ha. rewrite Ha. reflexivity.
Qed.


Theorem perm_invariant_min l l' : Permutation l l' -> min_of l = min_of l'.
Proof.
  intro HP. induction HP; cbn [min_of].
  - reflexivity.
  - rewrite IHHP. reflexivity.
  - destruct (min_of l) as [m|]; f_equal; lia.
  - congruence.
Qed.

(* sort by (order, name) with pairwise distinct names: a total order that is antisymmetric on the entries *)
Section SortByOrderName.
  Variable V : Type.
  Notation onleb := (@order_name_leb V).

  Lemma onleb_spec a b : onleb a b = true <->
    fst (fst a) < fst (fst b) \/ (fst (fst a) = fst (fst b) /\ snd (fst a) <= snd (fst b)).
  Proof.
    unfold order_name_leb. rewrite orb_true_iff, andb_true_iff, Nat.ltb_lt, Nat.eqb_eq, Nat.leb_le. tauto.
  Qed.

  Lemma onleb_total x y : onleb x y = true \/ onleb y x = true.
  Proof. rewrite !onleb_spec. lia. Qed.

  Lemma onleb_trans x y z : onleb x y = true -> onleb y z = true -> onleb x z = true.
  Proof. rewrite !onleb_spec. lia. Qed.

  Lemma nodup_names_inj (l : list (nat * nat * V)) : NoDup (map (fun e => snd (fst e)) l) ->
    forall x y, In x l -> In y l -> snd (fst x) = snd (fst y) -> x = y.
  Proof.
    induction l as [|a l IH]; intros Hnd x y Hx Hy Hk; [destruct Hx|].
    cbn [map] in Hnd. inversion Hnd as [|? ? Hnot Hnd']; subst.
    destruct Hx as [<-|Hx]; destruct Hy as [<-|Hy].
    - reflexivity.
    - exfalso. apply Hnot. rewrite Hk. apply (in_map (fun e => snd (fst e))). exact Hy.
    - exfalso. apply Hnot. rewrite <- Hk. apply (in_map (fun e => snd (fst e))). exact Hx.
    - apply IH; assumption.
  Qed.

  Theorem perm_invariant_sort_by_order_name l l' :
    NoDup (map (fun e => snd (fst e)) l) -> Permutation l l' -> isort _ onleb l = isort _ onleb l'.
  Proof.
    intros Hnd HP. apply perm_invariant_sort; [apply onleb_total | apply onleb_trans | | exact HP].
    intros x y Hx Hy H1 H2. apply (nodup_names_inj l Hnd x y Hx Hy).
    unfold le in *. rewrite onleb_spec in H1, H2. lia.
  Qed.
End SortByOrderName.

(* ---- compositions used by the repaired sites: sort (or take the minimum) first, then do the order-sensitive thing ---- *)
Lemma perm_filter {A} (p : A -> bool) l l' : Permutation l l' -> Permutation (filter p l) (filter p l').
Proof.
  intro HP. induction HP; cbn [filter].
  - apply Permutation_refl.
  - destruct (p x); [apply perm_skip|]; exact IHHP.
  - destruct (p x), (p y); try apply Permutation_refl. apply perm_swap.
  - eapply Permutation_trans; eassumption.
Qed.

Lemma nodup_keys_filter {V} (p : nat * V -> bool) (l : list (nat * V)) : NoDup (map fst l) -> NoDup (map fst (filter p l)).
Proof.
  induction l as [|a l IH]; intro H; cbn [filter map]; [constructor|].
  cbn [map] in H. inversion H as [|? ? Hn Hd]; subst.
  destruct (p a); [|apply IH; exact Hd]. cbn [map]. constructor; [|apply IH; exact Hd].
  intro Hi. apply Hn. apply in_map_iff in Hi as [x [Hx Hin]]. apply filter_In in Hin as [Hin _].
  rewrite <- Hx. apply in_map. exact Hin.
Qed.

(* anything computed from the list sorted by pairwise distinct keys *)
Theorem perm_invariant_after_sort_by_key {V B} (f : list (nat * V) -> B) l l' :
  NoDup (map fst l) -> Permutation l l' -> f (isort _ (key_leb V) l) = f (isort _ (key_leb V) l').
Proof. intros Hnd HP. f_equal. apply perm_invariant_sort_by_key; assumption. Qed.

(* `.filter(p).min_by_key(key)` with distinct keys *)
Theorem perm_invariant_filter_min_by_key {V} (p : nat * V -> bool) l l' :
  NoDup (map fst l) -> Permutation l l' ->
  hd_error (isort _ (key_leb V) (filter p l)) = hd_error (isort _ (key_leb V) (filter p l')).
Proof.
  intros Hnd HP. f_equal. apply perm_invariant_sort_by_key; [apply nodup_keys_filter; exact Hnd | apply perm_filter; exact HP].
Qed.

(* ---- LIBRARY: the order-sensitive patterns are really order-sensitive (why the sites sort first) ---- *)
Theorem head_of_refuted : exists l l' : list nat, Permutation l l' /\ head_of nat l <> head_of nat l'.
Proof. exists [1; 2], [2; 1]. split; [apply perm_swap | discriminate]. Qed.

Theorem concat_in_order_refuted :
  exists l l' : list nat, Permutation l l' /\ concat_in_order nat (fun x => [x]) l <> concat_in_order nat (fun x => [x]) l'.
Proof. exists [1; 2], [2; 1]. split; [apply perm_swap | discriminate]. Qed.

Theorem first_error_refuted :
  exists l l' : list nat, Permutation l l' /\ first_error nat (fun x => Some x) l <> first_error nat (fun x => Some x) l'.
Proof. exists [1; 2], [2; 1]. split; [apply perm_swap | discriminate]. Qed.

(* collecting entries with a repeated key: the last one in iteration order wins *)
Theorem lookup_last_refuted :
  exists l l' : list (nat * nat), Permutation l l' /\ lookup_last 0 l <> lookup_last 0 l'.
Proof. exists [(0, 1); (0, 2)], [(0, 2); (0, 1)]. split; [apply perm_swap | discriminate]. Qed.

(* find with two qualifying elements *)
Theorem find_first_refuted :
  exists l l' : list nat, Permutation l l' /\ find_first nat (fun _ => true) l <> find_first nat (fun _ => true) l'.
Proof. exists [1; 2], [2; 1]. split; [apply perm_swap | discriminate]. Qed.

(* stable sort by a key that is shared by two entries keeps their iteration order *)
Theorem sort_by_key_dup_refuted :
  exists l l' : list (nat * nat), Permutation l l' /\ isort _ (key_leb nat) l <> isort _ (key_leb nat) l'.
Proof. exists [(0, 1); (0, 2)], [(0, 2); (0, 1)]. split; [apply perm_swap | discriminate]. Qed.

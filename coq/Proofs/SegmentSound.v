(* Link between the kind-level split decision and Theta-2: a segment of filters, sorts, one
   aggregation and takes whose kinds are clause-ordered (which SplitProofs shows for every segment
   cut off under a decision function that passes the table check) assembles -- by plucking, as
   translate_select_pipeline does -- into a SELECT that means what the segment means. *)
From Coq Require Import List Bool Arith Lia Permutation.
From PV Require Import Model.SplitBase Proofs.Theta2.
Import ListNotations.

Section Seg.
  Variable row : Type.
  Notation rel := (Theta2.rel row).

  Inductive tr :=
  | TF (p : row -> bool)
  | TS (c : Theta2.cmp row)
  | TA (g : Theta2.agg row)
  | TT (r : Theta2.range).

  Definition kind_of (t : tr) : kind :=
    match t with TF _ => KFilter | TS _ => KSort | TA _ => KAggregate | TT _ => KTake end.

  Definition apply_tr (t : tr) (l : rel) : rel :=
    match t with
    | TF p => filter p l
    | TS c => Theta2.isort row c l
    | TA g => g l
    | TT r => Theta2.take_range row r l
    end.
  Definition run_flat (p : list tr) (l : rel) : rel := fold_left (fun l t => apply_tr t l) p l.

  (* assembling from the front; equivalent to plucking by kind on clause-ordered segments *)
  Fixpoint assemble (p : list tr) : Theta2.select row :=
    match p with
    | [] => Theta2.Build_select row [] None []
    | TF f :: r => let q := assemble r in Theta2.Build_select row (Theta2.F row f :: Theta2.pre row q) (Theta2.aggr row q) (Theta2.takes row q)
    | TS c :: r => let q := assemble r in Theta2.Build_select row (Theta2.S row c :: Theta2.pre row q) (Theta2.aggr row q) (Theta2.takes row q)
    | TA g :: r => let q := assemble r in Theta2.Build_select row [] (Some (g, Theta2.pre row q)) (Theta2.takes row q)
    | TT rg :: r => let q := assemble r in Theta2.Build_select row (Theta2.pre row q) (Theta2.aggr row q) (rg :: Theta2.takes row q)
    end.

  Definition only_takes (p : list tr) : Prop := forall t, In t p -> exists r, t = TT r.
  Definition no_agg (p : list tr) : Prop := forall t, In t p -> forall g, t <> TA g.

  Lemma assemble_only_takes p : only_takes p -> Theta2.pre row (assemble p) = [] /\ Theta2.aggr row (assemble p) = None.
  Proof.
    induction p as [|t r IH]; intro H; [split; reflexivity|].
    destruct (H t (or_introl eq_refl)) as [rg ->]. cbn [assemble Theta2.pre Theta2.aggr].
    apply IH. intros x Hx. apply H. right; exact Hx.
  Qed.

  Lemma assemble_no_agg p : no_agg p -> Theta2.aggr row (assemble p) = None.
  Proof.
    induction p as [|t r IH]; intro H; [reflexivity|].
    assert (Hr : no_agg r) by (intros x Hx; apply H; right; exact Hx).
    destruct t; cbn [assemble Theta2.aggr]; try (apply IH; exact Hr).
    exfalso. eapply (H (TA g)); [left; reflexivity | reflexivity].
  Qed.

  (* what clause-orderedness gives for the first element *)
  Lemma co_take_rest rg r : clause_ordered (map kind_of (TT rg :: r)) = true -> only_takes r.
  Proof.
    cbn [map kind_of clause_ordered]. intro H. apply andb_true_iff in H as [H _].
    intros t Ht. rewrite forallb_forall in H. specialize (H (kind_of t) (in_map kind_of r t Ht)).
    destruct t; cbn in H; try discriminate. eexists; reflexivity.
  Qed.

  Lemma co_agg_rest g r : clause_ordered (map kind_of (TA g :: r)) = true -> no_agg r.
  Proof.
    cbn [map kind_of clause_ordered]. intro H. apply andb_true_iff in H as [H _].
    intros t Ht g' E. subst t. rewrite forallb_forall in H. specialize (H KAggregate (in_map kind_of r (TA g') Ht)).
    cbn in H. discriminate.
  Qed.

  Lemma co_tail t r : clause_ordered (map kind_of (t :: r)) = true -> clause_ordered (map kind_of r) = true.
  Proof. cbn [map clause_ordered]. intro H. apply andb_true_iff in H as [_ H]. exact H. Qed.

  Lemma sem_pipeline_unfold q base :
    Theta2.sem_pipeline row q base =
    fold_left (fun l r => Theta2.take_range row r l) (Theta2.takes row q)
      (match Theta2.aggr row q with
       | Some (g, post) => Theta2.run_fs row post (g (Theta2.run_fs row (Theta2.pre row q) base))
       | None => Theta2.run_fs row (Theta2.pre row q) base
       end).
  Proof. unfold Theta2.sem_pipeline. destruct (Theta2.aggr row q) as [[g post]|]; reflexivity. Qed.

  Theorem segment_is_pipeline p : clause_ordered (map kind_of p) = true ->
    forall base, run_flat p base = Theta2.sem_pipeline row (assemble p) base.
  Proof.
    induction p as [|t r IH]; intros H base; [reflexivity|].
    pose proof (co_tail t r H) as Hr. specialize (IH Hr).
    unfold run_flat. cbn [fold_left]. fold (run_flat r (apply_tr t base)). rewrite IH.
    rewrite !sem_pipeline_unfold.
    destruct t; cbn [assemble Theta2.pre Theta2.aggr Theta2.takes apply_tr].
    - destruct (Theta2.aggr row (assemble r)) as [[g post]|]; reflexivity.
    - destruct (Theta2.aggr row (assemble r)) as [[g post]|]; reflexivity.
    - rewrite (assemble_no_agg r (co_agg_rest g r H)). reflexivity.
    - destruct (assemble_only_takes r (co_take_rest r0 r H)) as [Hp Ha]. rewrite Hp, Ha. reflexivity.
  Qed.

  Definition good_tr (t : tr) : Prop :=
    match t with TS c => Theta2.good row c | TA g => Theta2.agg_ok row g | TT r => Theta2.valid r | TF _ => True end.

  Lemma assemble_good p : Forall good_tr p ->
    Forall (Theta2.good_fs row) (Theta2.pre row (assemble p)) /\
    (match Theta2.aggr row (assemble p) with Some (g, post) => Theta2.agg_ok row g /\ Forall (Theta2.good_fs row) post | None => True end) /\
    Forall Theta2.valid (Theta2.takes row (assemble p)).
  Proof.
    induction 1 as [|t r Ht Hr IH]; [repeat split; constructor|].
    destruct IH as [I1 [I2 I3]]. destruct t; cbn [assemble Theta2.pre Theta2.aggr Theta2.takes good_tr] in *.
    - repeat split; try assumption. constructor; [exact I|exact I1].
    - repeat split; try assumption. constructor; [exact Ht|exact I1].
    - repeat split; try assumption. constructor.
    - repeat split; try assumption. constructor; assumption.
  Qed.

  (* the SELECT assembled from a clause-ordered segment returns what the segment means *)
  Theorem clause_ordered_segment_sound p : Forall good_tr p -> clause_ordered (map kind_of p) = true ->
    forall base, Theta2.sem_select row (assemble p) base = run_flat p base.
  Proof.
    intros G H base. rewrite (segment_is_pipeline p H base).
    destruct (assemble_good p G) as [G1 [G2 G3]]. apply Theta2.atomic_sound; assumption.
  Qed.
End Seg.

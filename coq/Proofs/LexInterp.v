(* C17: the inner lexer of s-/f-strings (Model/LexerInterp.v): termination, tiling, re-lexing.
   Same method as for the outer lexer: every sub-parser returns a suffix (LexProofs), succeeds identically on any prefix of
   its input that contains what it consumed (LexTrunc), hence every item re-lexes on its own slice. *)
From Coq Require Import List NArith Bool Lia Arith.
From PV Require Import Lib.ListX Model.Lexer Model.LexerInterp Proofs.LexProofs Proofs.LexTile Proofs.LexTrunc.
Import ListNotations.
Local Open Scope nat_scope.

(* ---- the string chunk ---- *)
Lemma p_ichunk_weak_n n : forall s t r, len s <= n -> p_ichunk s = (t, r) -> weak r s /\ (t = [] -> r = s) /\ (t <> [] -> len r < len s).
Proof.
  induction n as [|n IH]; intros s t r Hn H.
  - destruct s; [|cbn in Hn; lia]. cbn in H. inversion H; subst. repeat split; auto using suf_refl. intros X; now contradiction X.
  - destruct s as [|c s1]; [cbn in H; inversion H; subst; repeat split; auto using suf_refl; intros X; now contradiction X|].
    cbn [p_ichunk] in H. cbn [List.length] in Hn. destruct (is_brace c).
    + destruct s1 as [|c2 s2]; [inversion H; subst; repeat split; auto using suf_refl; intros X; now contradiction X|].
      destruct (N.eqb c2 c).
      * destruct (p_ichunk s2) as [t' r'] eqn:E. inversion H; subst; clear H.
        pose proof (IH s2 t' r ltac:(cbn [List.length] in Hn; lia) E) as [[Sf L] _].
        unfold weak. cbn [List.length]. repeat split; [do 2 apply suf_cons; exact Sf|lia|discriminate|intros _; lia].
      * inversion H; subst. repeat split; auto using suf_refl. intros X; now contradiction X.
    + destruct (p_ichunk s1) as [t' r'] eqn:E. inversion H; subst; clear H.
      pose proof (IH s1 t' r ltac:(lia) E) as [[Sf L] _].
      unfold weak. cbn [List.length]. repeat split; [apply suf_cons; exact Sf|lia|discriminate|intros _; lia].
Qed.
Lemma p_ichunk_weak s t r : p_ichunk s = (t, r) -> weak r s /\ (t = [] -> r = s) /\ (t <> [] -> len r < len s).
Proof. apply (p_ichunk_weak_n (len s)). lia. Qed.

(* the chunk parser gives the same text on a prefix that contains what it consumed *)
Lemma p_ichunk_trunc_n k : forall s t r, len s <= k -> p_ichunk s = (t, r) -> forall n, len s - len r <= n ->
  p_ichunk (firstn n s) = (t, cut n s r).
Proof.
  induction k as [|k IH]; intros s t r Hk H n Hn.
  - destruct s; [|cbn in Hk; lia]. cbn in H. inversion H; subst. now rewrite !firstn_nil.
  - destruct s as [|c s1]; [cbn in H; inversion H; subst; now rewrite !firstn_nil|].
    cbn [p_ichunk] in H. cbn [List.length] in Hk. destruct (is_brace c) eqn:B.
    + destruct s1 as [|c2 s2].
      * inversion H; subst. replace (n - (len [c] - len [c])) with n by lia.
        destruct n as [|n]; [reflexivity|]. cbn [firstn]. rewrite firstn_nil. cbn [p_ichunk]. now rewrite B.
      * destruct (N.eqb c2 c) eqn:Q.
        -- destruct (p_ichunk s2) as [t' r'] eqn:E. inversion H; subst; clear H.
           destruct (p_ichunk_weak _ _ _ E) as [[_ L] _]. cbn [List.length] in *.
           destruct n as [|[|n]]; [lia|lia|]. cbn [firstn p_ichunk]. rewrite B, Q.
           rewrite (IH s2 t' r ltac:(lia) E n ltac:(lia)). f_equal. f_equal. lia.
        -- inversion H; subst. replace (n - (len (c :: c2 :: s2) - len (c :: c2 :: s2))) with n by lia.
           destruct n as [|[|n]]; [reflexivity| |]; cbn [firstn p_ichunk]; rewrite B; [reflexivity|now rewrite Q].
    + destruct (p_ichunk s1) as [t' r'] eqn:E. inversion H; subst; clear H.
      destruct (p_ichunk_weak _ _ _ E) as [[_ L] _]. cbn [List.length] in *.
      destruct n as [|n]; [lia|]. cbn [firstn p_ichunk]. rewrite B.
      rewrite (IH s1 t' r ltac:(lia) E n ltac:(lia)). f_equal. f_equal. lia.
Qed.
Lemma p_ichunk_trunc s t r : p_ichunk s = (t, r) -> forall n, len s - len r <= n -> p_ichunk (firstn n s) = (t, cut n s r).
Proof. apply (p_ichunk_trunc_n (len s)). lia. Qed.

Section InterpProofs.
  Variable is_alpha is_alnum : chr -> bool.
  Notation ident_part := (p_ident_part is_alpha is_alnum).
  Notation p_path_rest := (p_path_rest is_alpha is_alnum).
  Notation p_path := (p_path is_alpha is_alnum).
  Notation p_iexpr := (p_iexpr is_alpha is_alnum).
  Notation p_iitem := (p_iitem is_alpha is_alnum).
  Notation interp_loop := (interp_loop is_alpha is_alnum).
  Notation interp_lex := (interp_lex is_alpha is_alnum).

  Let ident_strict s i r : ident_part s = Some (i, r) -> strict r s.
  Proof. apply p_ident_part_strict. Qed.

  (* ---- suffix facts ---- *)
  Lemma p_path_rest_weak f s l r : p_path_rest f s = (l, r) -> weak r s.
  Proof.
    revert s l r; induction f as [|f IH]; intros s l r H; cbn [LexerInterp.p_path_rest] in H.
    - inversion H; subst. split; [apply suf_refl|lia].
    - destruct (eat 46%N s) as [r0|] eqn:E0; [|inversion H; subst; split; [apply suf_refl|lia]].
      destruct (ident_part r0) as [[i r1]|] eqn:E1; [|inversion H; subst; split; [apply suf_refl|lia]].
      destruct (p_path_rest f r1) as [l' r2] eqn:E2. inversion H; subst; clear H.
      apply IH in E2 as [S2 L2]. apply ident_strict in E1 as [S1 L1]. apply eat_suf in E0 as [S0 L0].
      split; [eapply suf_trans; [exact S2|]; eapply suf_trans; [exact S1|exact S0]|lia].
  Qed.
  Lemma p_path_strict s l r : p_path s = Some (l, r) -> strict r s.
  Proof.
    unfold LexerInterp.p_path. intros H. destruct (ident_part s) as [[i r0]|] eqn:E0; [|discriminate].
    destruct (p_path_rest (len r0) r0) as [l' r1] eqn:E1. inversion H; subst; clear H.
    apply p_path_rest_weak in E1 as [S1 L1]. apply ident_strict in E0 as [S0 L0].
    split; [eapply suf_trans; eauto|lia].
  Qed.
  Lemma p_fmt_weak s f r : p_fmt s = (f, r) -> weak r s.
  Proof.
    unfold p_fmt. intros H. destruct (eat 58%N s) as [r0|] eqn:E0.
    - destruct (span_while not_rbrace r0) as [a r1] eqn:E1. inversion H; subst; clear H. facts. fin.
    - inversion H; subst. split; [apply suf_refl|lia].
  Qed.
  Lemma p_iexpr_strict pos s it r : p_iexpr pos s = Some (it, r) -> strict r s.
  Proof.
    unfold LexerInterp.p_iexpr. intros H. destruct (eat 123%N s) as [r0|] eqn:E0; [|discriminate].
    destruct (p_path r0) as [[l r1]|] eqn:E1; [|discriminate]. destruct (p_fmt r1) as [f r2] eqn:E2.
    destruct (eat 125%N r2) as [r3|] eqn:E3; [|discriminate]. inversion H; subst; clear H.
    apply p_path_strict in E1 as [S1 L1]. apply p_fmt_weak in E2 as [S2 L2]. apply eat_suf in E0 as [S0 L0]. apply eat_suf in E3 as [S3 L3].
    split; [eapply suf_trans; [exact S3|]; eapply suf_trans; [exact S2|]; eapply suf_trans; [exact S1|exact S0]|lia].
  Qed.
  Lemma p_iitem_strict pos s it r : p_iitem pos s = Some (it, r) -> strict r s.
  Proof.
    unfold LexerInterp.p_iitem. intros H. destruct (p_iexpr pos s) as [[it0 r0]|] eqn:E.
    - inversion H; subst. eapply p_iexpr_strict; eauto.
    - destruct (p_ichunk s) as [t r1] eqn:C. destruct t as [|c t]; [discriminate|]. inversion H; subst; clear H.
      destruct (p_ichunk_weak _ _ _ C) as [[S _] [_ L]]. split; [exact S|apply L; discriminate].
  Qed.

  (* ---- fuel ---- *)
  Lemma interp_loop_fuel f pos s : len s < f -> interp_loop f pos s = interp_loop (S f) pos s.
  Proof.
    revert pos s; induction f as [|f IH]; intros pos s H; [lia|].
    cbn [LexerInterp.interp_loop]. destruct s as [|c s']; [reflexivity|].
    destruct (p_iitem pos (c :: s')) as [[it r]|] eqn:E; [|reflexivity].
    apply p_iitem_strict in E as [_ L]. rewrite (IH _ r) by lia. reflexivity.
  Qed.
  Lemma interp_loop_fuel_ge f g pos s : len s < f -> f <= g -> interp_loop g pos s = interp_loop f pos s.
  Proof. intros H L. induction L as [|g L IH]; [reflexivity|]. rewrite <- IH. symmetry. apply interp_loop_fuel. lia. Qed.
  Theorem interp_terminates s f pos : len s < f -> interp_loop f pos s = interp_loop (S (len s)) pos s.
  Proof. intros H. apply interp_loop_fuel_ge; lia. Qed.

  (* ---- tiling: the items partition the content, with no gap at all ---- *)
  Local Open Scope N_scope.
  Inductive itiles : N -> str -> list itok -> Prop :=
  | itiles_nil pos : itiles pos [] []
  | itiles_cons pos text r t ts :
      text <> [] -> istart t = pos -> iend t = pos + blen text ->
      p_iitem pos (text ++ r) = Some (ikind t, r) ->
      itiles (iend t) r ts -> itiles pos (text ++ r) (t :: ts).

  Lemma interp_loop_tiles f pos s its : interp_loop f pos s = Some its -> itiles pos s its.
  Proof.
    revert pos s its; induction f as [|f IH]; intros pos s its H; cbn [LexerInterp.interp_loop] in H; [discriminate|].
    destruct s as [|c s']; [inversion H; constructor|]. remember (c :: s') as s0 eqn:Es.
    destruct (p_iitem pos s0) as [[it r]|] eqn:E; [|discriminate].
    destruct (interp_loop f (pos + (blen s0 - blen r)) r) as [l|] eqn:L; [|discriminate]. inversion H; subst its; clear H.
    pose proof (p_iitem_strict _ _ _ _ E) as [[text X] LL]. clear Es. subst s0.
    assert (text <> []) by (intros ->; cbn [app] in LL; lia).
    assert (B : blen (text ++ r) - blen r = blen text) by (rewrite blen_app; lia).
    rewrite B in *. apply IH in L. apply itiles_cons; cbn [istart iend ikind]; auto.
  Qed.
  Theorem interp_tiles s its : interp_lex s = Some its -> itiles 0 s its.
  Proof. apply interp_loop_tiles. Qed.

  (* consequences, in the shape of the token clauses *)
  Lemma itiles_bounds pos s its : itiles pos s its -> forall t, In t its -> pos <= istart t /\ istart t < iend t /\ iend t <= pos + blen s.
  Proof.
    induction 1 as [pos|pos text r t ts NE S1 S2 P Tl IH]; intros t' I; [destruct I|].
    pose proof (blen_pos text NE). rewrite blen_app. destruct I as [<-|I]; [lia|]. specialize (IH _ I). lia.
  Qed.
  Lemma itiles_contiguous pos s its : itiles pos s its -> forall l1 t1 t2 l2, its = l1 ++ t1 :: t2 :: l2 -> iend t1 = istart t2.
  Proof.
    induction 1 as [pos|pos text r t ts NE S1 S2 P Tl IH]; intros l1 t1 t2 l2 E; [destruct l1; discriminate|].
    destruct l1 as [|x l1]; cbn [app] in E; inversion E; subst.
    - inversion Tl; subst. congruence.
    - eapply IH; eauto.
  Qed.
  Lemma itiles_first pos s t ts : itiles pos s (t :: ts) -> istart t = pos.
  Proof. intros H. inversion H; subst. reflexivity. Qed.
  Lemma itiles_last pos s its : itiles pos s its -> forall l t, its = l ++ [t] -> iend t = pos + blen s.
  Proof.
    induction 1 as [pos|pos text r t ts NE S1 S2 P Tl IH]; intros l t' E; [destruct l; discriminate|].
    rewrite blen_app. destruct l as [|x l]; cbn [app] in E; inversion E; subst.
    - inversion Tl; subst. cbn [blen]. lia.
    - rewrite (IH _ _ eq_refl). lia.
  Qed.
  Lemma itiles_empty pos s : itiles pos s [] -> s = [].
  Proof. inversion 1; reflexivity. Qed.
  (* where an item is: the content splits as pre ++ text ++ rest around it, and the item parser was run exactly there *)
  Lemma itiles_in pos s its : itiles pos s its -> forall t, In t its ->
    exists pre text r, s = pre ++ text ++ r /\ text <> [] /\ istart t = pos + blen pre /\ iend t = istart t + blen text /\
      p_iitem (istart t) (text ++ r) = Some (ikind t, r).
  Proof.
    induction 1 as [pos|pos text r t ts NE S1 S2 P Tl IH]; intros t' I; [destruct I|].
    destruct I as [<-|I].
    - exists [], text, r. cbn [app blen]. rewrite S1. repeat split; auto; lia.
    - destruct (IH _ I) as (pre & tx & r' & E & N' & A & B & Q). exists (text ++ pre), tx, r'.
      rewrite E, <- app_assoc, blen_app. repeat split; auto. lia.
  Qed.
  Local Close Scope N_scope.

  (* ---- truncation ---- *)
  Lemma span_while_ext p x a c r z : span_while p x = (a, c :: r) -> span_while p (x ++ z) = (a, c :: r ++ z).
  Proof.
    revert a; induction x as [|y x IH]; intros a H; cbn in H; [discriminate|]. cbn [app span_while].
    destruct (p y); [|inversion H; subst; reflexivity].
    destruct (span_while p x) as [a' r'] eqn:E. inversion H; subst. now rewrite (IH a' eq_refl).
  Qed.
  Lemma p_ident_bt_ext x i r z : p_ident_bt x = Some (i, r) -> p_ident_bt (x ++ z) = Some (i, r ++ z).
  Proof.
    unfold p_ident_bt. intros H. destruct (eat 96%N x) as [r0|] eqn:E0; [|discriminate].
    destruct (span_while not_backtick r0) as [b r1] eqn:E1. destruct (eat 96%N r1) as [r2|] eqn:E2; [|discriminate].
    inversion H; subst; clear H. rewrite (eat_ext _ _ _ z E0). apply eat_inv in E2. subst r1.
    rewrite (span_while_ext _ _ _ _ _ z E1). unfold eat. now rewrite N.eqb_refl.
  Qed.
  Lemma p_ident_bt_none_trunc s : p_ident_bt s = None -> forall n, p_ident_bt (firstn n s) = None.
  Proof.
    intros H n. destruct (p_ident_bt (firstn n s)) as [[i r]|] eqn:E; [|reflexivity].
    apply (p_ident_bt_ext _ _ _ (skipn n s)) in E. rewrite firstn_skipn in E. congruence.
  Qed.
  Lemma ident_part_none_trunc s : ident_part s = None -> forall n, ident_part (firstn n s) = None.
  Proof.
    unfold p_ident_part, orelse. intros H n. destruct (p_ident_plain is_alpha is_alnum s) as [[i0 r0]|] eqn:E; [discriminate|].
    rewrite p_ident_plain_none_trunc by exact E. now apply p_ident_bt_none_trunc.
  Qed.

  (* ---- fuel of the path loop ---- *)
  Lemma p_path_rest_fuel f s : len s <= f -> p_path_rest f s = p_path_rest (S f) s.
  Proof.
    revert s; induction f as [|f IH]; intros s Hf.
    - destruct s; [reflexivity|cbn in Hf; lia].
    - cbn [LexerInterp.p_path_rest]. destruct (eat 46%N s) as [r0|] eqn:E0; [|reflexivity].
      destruct (ident_part r0) as [[i r1]|] eqn:E1; [|reflexivity].
      apply eat_suf in E0 as [_ L0]. apply ident_strict in E1 as [_ L1]. rewrite (IH r1) by lia. reflexivity.
  Qed.
  Lemma p_path_rest_fuel_ge f g s : len s <= f -> f <= g -> p_path_rest g s = p_path_rest f s.
  Proof. intros H L. induction L as [|g L IH]; [reflexivity|]. rewrite <- IH. symmetry. apply p_path_rest_fuel. lia. Qed.

  (* ---- a parser that succeeded gives the same value on any prefix containing what it consumed ---- *)
  Lemma p_path_rest_trunc f : forall s l r, p_path_rest f s = (l, r) -> len s <= f -> forall n, len s - len r <= n ->
    p_path_rest f (firstn n s) = (l, cut n s r).
  Proof.
    induction f as [|f IH]; intros s l r H Hf n Hn.
    - destruct s; [|cbn in Hf; lia]. cbn in H. inversion H; subst. now rewrite !firstn_nil.
    - cbn [LexerInterp.p_path_rest] in *. destruct (eat 46%N s) as [r0|] eqn:E0.
      + destruct (ident_part r0) as [[i r1]|] eqn:E1.
        * destruct (p_path_rest f r1) as [l' r2] eqn:E2. inversion H; subst; clear H.
          pose proof (p_path_rest_weak _ _ _ _ E2) as [_ L2]. pose proof (ident_strict _ _ _ E1) as [_ L1]. lens.
          rewrite (eat_trunc _ _ _ E0 n) by lia. rewrite (p_ident_part_trunc _ _ _ _ _ E1) by lia.
          rewrite (IH _ _ _ E2) by lia. cuteq.
        * inversion H; subst; clear H. replace (n - (len r - len r)) with n by lia.
          apply eat_inv in E0. subst r. destruct n as [|n]; [reflexivity|]. cbn [firstn]. unfold eat at 1. rewrite N.eqb_refl.
          now rewrite ident_part_none_trunc.
      + inversion H; subst; clear H. replace (n - (len r - len r)) with n by lia. now rewrite eat_none_trunc.
  Qed.
  Lemma p_path_trunc s l r : p_path s = Some (l, r) -> forall n, len s - len r <= n -> p_path (firstn n s) = Some (l, cut n s r).
  Proof.
    unfold LexerInterp.p_path. intros H n Hn. destruct (ident_part s) as [[i r0]|] eqn:E0; [|discriminate].
    destruct (p_path_rest (len r0) r0) as [l' r1] eqn:E1. inversion H; subst; clear H.
    pose proof (p_path_rest_weak _ _ _ _ E1) as [_ L1]. pose proof (ident_strict _ _ _ E0) as [_ L0].
    rewrite (p_ident_part_trunc _ _ _ _ _ E0 n) by lia.
    rewrite <- (p_path_rest_fuel_ge (len (cut n s r0)) (len r0) (cut n s r0)) by (try rewrite firstn_length; lia).
    rewrite (p_path_rest_trunc _ _ _ _ E1) by lia. cuteq.
  Qed.
  Lemma p_fmt_trunc s f r : p_fmt s = (f, r) -> forall n, len s - len r <= n -> p_fmt (firstn n s) = (f, cut n s r).
  Proof.
    unfold p_fmt. intros H n Hn. destruct (eat 58%N s) as [r0|] eqn:E0.
    - destruct (span_while not_rbrace r0) as [a r1] eqn:E1. inversion H; subst; clear H. lens.
      rewrite (eat_trunc _ _ _ E0 n) by lia. rewrite (span_while_trunc _ _ _ _ E1) by lia. cuteq.
    - inversion H; subst; clear H. replace (n - (len r - len r)) with n by lia. now rewrite eat_none_trunc.
  Qed.

  Lemma cut_blen (s r : str) n : suf r s -> len s - len r <= n -> (blen (firstn n s) - blen (cut n s r) = blen s - blen r)%N.
  Proof.
    intros [p ->] Hn. rewrite app_length in *. replace (len p + len r - len r) with (len p) in * by lia.
    rewrite firstn_app. rewrite firstn_all2 by lia. rewrite !blen_app. lia.
  Qed.

  Lemma p_iexpr_trunc pos s it r : p_iexpr pos s = Some (it, r) -> forall n, len s - len r <= n ->
    p_iexpr pos (firstn n s) = Some (it, cut n s r).
  Proof.
    unfold LexerInterp.p_iexpr. intros H n Hn. destruct (eat 123%N s) as [r0|] eqn:E0; [|discriminate].
    destruct (p_path r0) as [[l r1]|] eqn:E1; [|discriminate]. destruct (p_fmt r1) as [f r2] eqn:E2.
    destruct (eat 125%N r2) as [r3|] eqn:E3; [|discriminate]. inversion H; subst; clear H.
    pose proof (p_path_strict _ _ _ E1) as [S1 L1]. pose proof (p_fmt_weak _ _ _ E2) as [_ L2]. lens.
    apply eat_inv in E0. subst s. cbn [List.length] in *. destruct n as [|n]; [lia|]. cbn [firstn]. unfold eat at 1. rewrite N.eqb_refl.
    rewrite (p_path_trunc _ _ _ E1 n) by lia. rewrite (p_fmt_trunc _ _ _ E2) by lia. rewrite (eat_trunc _ _ _ E3) by lia.
    rewrite (cut_blen r0 r1 n S1) by lia. cuteq.
  Qed.

  (* ---- a parser that succeeded on x succeeds identically on x ++ z ---- *)
  Lemma p_ident_plain_ext x i c r z : p_ident_plain is_alpha is_alnum x = Some (i, c :: r) ->
    p_ident_plain is_alpha is_alnum (x ++ z) = Some (i, c :: r ++ z).
  Proof.
    unfold p_ident_plain. destruct x as [|y x]; [discriminate|]. cbn [app]. destruct (is_ident_start is_alpha y); [|discriminate].
    destruct (span_while (is_ident_cont is_alnum) x) as [a r'] eqn:E. intros H; inversion H; subst. now rewrite (span_while_ext _ _ _ _ _ z E).
  Qed.
  Lemma ident_part_ext x i c r z : ident_part x = Some (i, c :: r) -> ident_part (x ++ z) = Some (i, c :: r ++ z).
  Proof.
    unfold p_ident_part, orelse. intros H. destruct (p_ident_plain is_alpha is_alnum x) as [[i0 r0]|] eqn:E.
    - inversion H; subst. now rewrite (p_ident_plain_ext _ _ _ _ z E).
    - assert (p_ident_plain is_alpha is_alnum (x ++ z) = None) as ->.
      { unfold p_ident_plain in *. destruct x as [|y x]; [unfold p_ident_bt in H; cbn in H; discriminate|]. cbn [app].
        destruct (is_ident_start is_alpha y); [destruct (span_while (is_ident_cont is_alnum) x); discriminate|reflexivity]. }
      apply (p_ident_bt_ext _ _ _ z H).
  Qed.
  Lemma p_path_rest_ext f : forall x l c r z, p_path_rest f x = (l, c :: r) -> c <> 46%N -> len x <= f ->
    p_path_rest f (x ++ z) = (l, c :: r ++ z).
  Proof.
    induction f as [|f IH]; intros x l c r z H NC Hf.
    - destruct x; [cbn in H; discriminate|cbn in Hf; lia].
    - cbn [LexerInterp.p_path_rest] in *. destruct (eat 46%N x) as [r0|] eqn:E0.
      + rewrite (eat_ext _ _ _ z E0). destruct (ident_part r0) as [[i r1]|] eqn:E1.
        * destruct (p_path_rest f r1) as [l' r2] eqn:E2. inversion H; subst; clear H.
          pose proof (p_path_rest_weak _ _ _ _ E2) as [[p X] _]. destruct r1 as [|c1 r1]; [destruct p; discriminate|].
          rewrite (ident_part_ext _ _ _ _ z E1). apply eat_suf in E0 as [_ L0]. apply ident_strict in E1 as [_ L1].
          change (c1 :: r1 ++ z) with ((c1 :: r1) ++ z). rewrite (IH _ _ _ _ z E2 NC) by lia. reflexivity.
        * inversion H; subst. apply eat_inv in E0. congruence.
      + inversion H; subst; clear H. cbn [app]. unfold eat in *. destruct (N.eqb c 46); [discriminate|reflexivity].
  Qed.
  Lemma p_iexpr_ext pos x it r z : p_iexpr pos x = Some (it, r) -> p_iexpr pos (x ++ z) = Some (it, r ++ z).
  Proof.
    unfold LexerInterp.p_iexpr, LexerInterp.p_path. intros H. destruct (eat 123%N x) as [r0|] eqn:E0; [|discriminate].
    destruct (ident_part r0) as [[i ra]|] eqn:Ea; [|discriminate].
    destruct (p_path_rest (len ra) ra) as [l' r1] eqn:Eb. destruct (p_fmt r1) as [f r2] eqn:E2.
    destruct (eat 125%N r2) as [r3|] eqn:E3; [|discriminate]. inversion H; subst; clear H.
    rewrite (eat_ext _ _ _ z E0). apply eat_inv in E3. subst r2.
    (* r1 starts with ':' or '}' *)
    assert (exists c r1', r1 = c :: r1' /\ c <> 46%N) as (c & r1' & -> & NC).
    { unfold p_fmt in E2. destruct (eat 58%N r1) as [q|] eqn:Q.
      - apply eat_inv in Q. subst r1. exists 58%N, q. split; [reflexivity|discriminate].
      - inversion E2; subst. exists 125%N, r. split; [reflexivity|discriminate]. }
    pose proof (p_path_rest_weak _ _ _ _ Eb) as [[p X] _]. destruct ra as [|ca ra]; [destruct p; discriminate|].
    rewrite (ident_part_ext _ _ _ _ z Ea).
    rewrite <- (p_path_rest_fuel_ge (len (ca :: ra)) (len (ca :: ra ++ z)) (ca :: ra)) in Eb by (cbn [List.length]; rewrite ?app_length; lia).
    change (ca :: ra ++ z) with ((ca :: ra) ++ z) at 2. rewrite (p_path_rest_ext _ _ _ _ _ z Eb NC) by (cbn [List.length]; rewrite ?app_length; lia).
    assert (p_fmt (c :: r1' ++ z) = (f, 125%N :: r ++ z)) as ->.
    { unfold p_fmt in *. destruct (eat 58%N (c :: r1')) as [q|] eqn:Q.
      - change (c :: r1' ++ z) with ((c :: r1') ++ z). rewrite (eat_ext _ _ _ z Q).
        destruct (span_while not_rbrace q) as [a q'] eqn:SW. inversion E2; subst. now rewrite (span_while_ext _ _ _ _ _ z SW).
      - inversion E2; subst. unfold eat. cbn. reflexivity. }
    unfold eat at 1. rewrite N.eqb_refl.
    apply ident_strict in Ea as [[pa Xa] _]. rewrite Xa, X. change (c :: r1' ++ z) with ((c :: r1') ++ z).
    rewrite !blen_app. do 3 f_equal. lia.
  Qed.
  Lemma p_iexpr_none_trunc pos s : p_iexpr pos s = None -> forall n, p_iexpr pos (firstn n s) = None.
  Proof.
    intros H n. destruct (p_iexpr pos (firstn n s)) as [[it r]|] eqn:E; [|reflexivity].
    apply (p_iexpr_ext _ _ _ _ (skipn n s)) in E. rewrite firstn_skipn in E. congruence.
  Qed.

  Lemma p_iitem_trunc pos s it r : p_iitem pos s = Some (it, r) -> forall n, len s - len r <= n ->
    p_iitem pos (firstn n s) = Some (it, cut n s r).
  Proof.
    unfold LexerInterp.p_iitem. intros H n Hn. destruct (p_iexpr pos s) as [[it0 r0]|] eqn:E.
    - inversion H; subst. now rewrite (p_iexpr_trunc _ _ _ _ E n Hn).
    - rewrite p_iexpr_none_trunc by exact E. destruct (p_ichunk s) as [t r1] eqn:C. destruct t as [|c t]; [discriminate|].
      inversion H; subst; clear H. now rewrite (p_ichunk_trunc _ _ _ C n Hn).
  Qed.

  (* the position only enters an item through its path span *)
  Lemma p_iitem_shift pos d s it r : (d <= pos)%N -> p_iitem pos s = Some (it, r) -> p_iitem (pos - d) s = Some (shift_item d it, r).
  Proof.
    unfold LexerInterp.p_iitem, LexerInterp.p_iexpr. intros Hd H. destruct (eat 123%N s) as [r0|]; [|destruct (p_ichunk s) as [[|? ?] ?]; [discriminate|inversion H; subst; reflexivity]].
    destruct (p_path r0) as [[l r1]|]; [|destruct (p_ichunk s) as [[|? ?] ?]; [discriminate|inversion H; subst; reflexivity]].
    destruct (p_fmt r1) as [f r2]. destruct (eat 125%N r2) as [r3|]; [|destruct (p_ichunk s) as [[|? ?] ?]; [discriminate|inversion H; subst; reflexivity]].
    inversion H; subst. cbn [shift_item]. do 3 f_equal; lia.
  Qed.

  (* ---- re-lexing: the slice of every item, on its own, is accepted and gives exactly that item ---- *)
  Local Open Scope N_scope.
  Theorem interp_relex s its t : interp_lex s = Some its -> In t its ->
    interp_lex (bslice s (istart t) (iend t))
      = Some [{| ikind := shift_item (istart t) (ikind t); istart := 0; iend := iend t - istart t |}].
  Proof.
    intros H I. apply interp_tiles in H. destruct (itiles_in _ _ _ H _ I) as (pre & text & r & -> & NE & A & B & P).
    rewrite (bslice_app pre text r) by lia.
    pose proof (p_iitem_strict _ _ _ _ P) as [_ LL].
    pose proof (p_iitem_trunc _ _ _ _ P (len text)) as Q.
    rewrite app_length in Q, LL. replace (len text + len r - len r)%nat with (len text) in Q by lia. specialize (Q (Nat.le_refl _)).
    rewrite firstn_app, firstn_all, Nat.sub_diag in Q. cbn [firstn] in Q. rewrite app_nil_r in Q.
    apply (p_iitem_shift _ (istart t)) in Q; [|lia]. rewrite N.sub_diag in Q.
    unfold LexerInterp.interp_lex. cbn [LexerInterp.interp_loop]. destruct text as [|c text]; [congruence|].
    rewrite Q. cbn [blen]. destruct (len (c :: text)) eqn:LN; [cbn in LN; lia|]. cbn [LexerInterp.interp_loop].
    do 3 f_equal. cbn [blen] in B. lia.
  Qed.
  Local Close Scope N_scope.

  (* the span of the identifier path of an Expr item lies strictly inside the item's braces *)
  Local Open Scope N_scope.
  Theorem interp_path_inside s its t p a b f : interp_lex s = Some its -> In t its -> ikind t = IExpr p a b f ->
    a = istart t + 1 /\ a < b /\ b < iend t.
  Proof.
    intros H I K. apply interp_tiles in H. destruct (itiles_in _ _ _ H _ I) as (pre & text & r & -> & NE & A & B & P).
    rewrite K in P. unfold LexerInterp.p_iitem in P. destruct (p_iexpr (istart t) (text ++ r)) as [[it0 r0']|] eqn:E.
    - inversion P; subst it0 r0'; clear P. unfold LexerInterp.p_iexpr in E.
      destruct (eat 123%N (text ++ r)) as [r0|] eqn:E0; [|discriminate].
      destruct (p_path r0) as [[l r1]|] eqn:E1; [|discriminate]. destruct (p_fmt r1) as [f' r2] eqn:E2.
      destruct (eat 125%N r2) as [r3|] eqn:E3; [|discriminate]. inversion E; subst; clear E.
      apply eat_inv in E0. apply eat_inv in E3. subst r2.
      pose proof (p_path_strict _ _ _ E1) as [[p1 X1] L1]. pose proof (p_fmt_weak _ _ _ E2) as [[p2 X2] _].
      assert (p1 <> []) by (intros ->; subst r0; cbn [app] in L1; lia).
      pose proof (blen_pos p1 ltac:(assumption)).
      assert (BT : blen (text ++ r) = 1 + blen r0) by (rewrite E0; cbn [blen]; unfold utf8_len; cbn; lia).
      rewrite blen_app in BT. rewrite X1, blen_app in *. rewrite X2, blen_app in BT. cbn [blen] in BT.
      pose proof (utf8_len_pos 125). repeat split; lia.
    - destruct (p_ichunk (text ++ r)) as [[|? ?] ?]; [discriminate|inversion P].
  Qed.
  Local Close Scope N_scope.

  (* the clauses in the shape Props/C17.v states them *)
  Local Open Scope N_scope.
  Theorem interp_items_in_bounds s its t : interp_lex s = Some its -> In t its -> istart t < iend t /\ iend t <= blen s.
  Proof. intros H I. destruct (itiles_bounds _ _ _ (interp_tiles _ _ H) _ I) as (_ & A & B). split; [exact A|exact B]. Qed.
  Theorem interp_items_tile s its : interp_lex s = Some its ->
    (forall t ts, its = t :: ts -> istart t = 0) /\
    (forall l1 t1 t2 l2, its = l1 ++ t1 :: t2 :: l2 -> iend t1 = istart t2) /\
    (forall l t, its = l ++ [t] -> iend t = blen s) /\
    (its = [] -> s = []).
  Proof.
    intros H. pose proof (interp_tiles _ _ H) as Tl. repeat split.
    - intros t ts ->. exact (itiles_first _ _ _ _ Tl).
    - exact (itiles_contiguous _ _ _ Tl).
    - intros l t E. rewrite (itiles_last _ _ _ Tl _ _ E). reflexivity.
    - intros ->. exact (itiles_empty _ _ Tl).
  Qed.
  Local Close Scope N_scope.
End InterpProofs.

(* expand_sound: ast_expand preserves the documented meaning (in particular `**` with its operand swap);
   static_eval_sound: constant folding preserves the value.  The facts about the generated tables
   (Gen/GenExpand.v) are proved by computation on what the source says now. *)
From Coq Require Import List NArith ZArith QArith Bool Lia.
From PV Require Import Lib.ListX Model.Value Model.PrqlExpr Model.StaticEval Model.EvalDoc Model.EvalRq
                       Gen.GenPratt Gen.GenExpand.
Import ListNotations.

(* ---- induction principles for the nested types ---- *)
Lemma pexpr_ind2 (P : pexpr -> Prop) :
  (forall i, P (PCol i)) -> (forall l, P (PLit l)) ->
  (forall o l r, P l -> P r -> P (PBinE o l r)) ->
  (forall u x, P x -> P (PUnE u x)) ->
  (forall cs, Forall (fun cv => P (fst cv) /\ P (snd cv)) cs -> P (PCase cs)) ->
  (forall x lo hi, P x -> (forall b, lo = Some b -> P b) -> (forall b, hi = Some b -> P b) -> P (PIn x lo hi)) ->
  forall e, P e.
Proof.
  intros H1 H2 H3 H4 H5 H6. fix IH 1. intros [i|l|o l r|u x|cs|x lo hi].
  - apply H1. - apply H2. - apply H3; apply IH. - apply H4; apply IH.
  - apply H5. induction cs as [|[c v] t IHt]; constructor; [split; apply IH|exact IHt].
  - apply H6; [apply IH| |].
    + destruct lo as [b|]; intros b' E; [injection E as <-; apply IH|discriminate].
    + destruct hi as [b|]; intros b' E; [injection E as <-; apply IH|discriminate].
Qed.

Lemma rexpr_ind2 (P : rexpr -> Prop) :
  (forall i, P (RCol i)) -> (forall l, P (RLit l)) ->
  (forall n args, Forall P args -> P (ROp n args)) ->
  (forall cs, Forall (fun cv => P (fst cv) /\ P (snd cv)) cs -> P (RCase cs)) ->
  forall r, P r.
Proof.
  intros H1 H2 H3 H4. fix IH 1. intros [i|l|n args|cs].
  - apply H1. - apply H2.
  - apply H3. induction args as [|a t IHt]; constructor; [apply IH|exact IHt].
  - apply H4. induction cs as [|[c v] t IHt]; constructor; [split; apply IH|exact IHt].
Qed.

(* ---- facts about the generated tables ---- *)
Lemma binop_of_name_expand o : binop_of_name (expand_binop o) = Some o.
Proof. destruct o; vm_compute; reflexivity. Qed.
Lemma expand_binop_not_special o :
  leqb (expand_binop o) n_neg = false /\ leqb (expand_binop o) n_not = false /\
  leqb (expand_binop o) n_in = false /\ leqb (expand_binop o) n_and_in = false.
Proof. destruct o; vm_compute; repeat split; reflexivity. Qed.
Lemma expand_unop_table :
  expand_unop U_Neg = UCall n_neg /\ expand_unop U_Not = UCall n_not /\ expand_unop U_Add = UErase /\ expand_unop U_EqSelf = UEqSelf.
Proof. vm_compute. repeat split; reflexivity. Qed.

(* ast_expand swaps the operands exactly where the std function takes them reversed *)
Lemma swap_agrees o : expand_swaps o = rq_reversed o.
Proof. destruct o; vm_compute; reflexivity. Qed.

(* one unfolding step of eval_r on an operator node *)
Lemma eval_r_binop env o a b :
  eval_r env (ROp (expand_binop o) (if expand_swaps o then [b; a] else [a; b])) =
  match is_eq_op o, is_null a || is_null b with
  | Some negated, true => option_map (fun v => eval_isnull v negated) (if is_null a then eval_r env b else eval_r env a)
  | _, _ => match eval_r env a, eval_r env b with Some x, Some y => eval_binop o x y | _, _ => None end
  end.
Proof.
  destruct (expand_binop_not_special o) as [N1 [N2 [N3 N4]]].
  rewrite swap_agrees. destruct (rq_reversed o) eqn:SW; cbn [eval_r]; rewrite N1, N2, N3, N4, binop_of_name_expand, SW; reflexivity.
Qed.

Lemma is_null_expand x : is_null (expand x) = is_null_lit x.
Proof.
  induction x as [i|l|o l r IHl IHr|u x IHx|cs IH|x lo hi IHx IHlo IHhi] using pexpr_ind2;
    cbn [expand is_null_lit]; try reflexivity.
  destruct expand_unop_table as [E1 [E2 [E3 E4]]].
  destruct u; [rewrite E1|rewrite E3|rewrite E2|rewrite E4]; cbn; auto.
Qed.

(* ================= expand_sound ================= *)
Theorem expand_sound env e : eval_r env (expand e) = eval_doc env e.
Proof.
  induction e as [i|l|o l r IHl IHr|u x IHx|cs IH|x lo hi IHx IHlo IHhi] using pexpr_ind2.
  - reflexivity.
  - reflexivity.
  - cbn [expand eval_doc]. rewrite eval_r_binop, !is_null_expand, IHl, IHr.
    destruct (is_eq_op o), (is_null_lit l), (is_null_lit r); reflexivity.
  - cbn [expand eval_doc]. destruct expand_unop_table as [E1 [E2 [E3 E4]]].
    destruct u.
    + rewrite E1. cbn [eval_r]. rewrite leqb_refl. rewrite IHx. destruct (eval_doc env x); reflexivity.
    + rewrite E3. rewrite IHx. destruct (eval_doc env x); reflexivity.
    + rewrite E2. cbn [eval_r]. replace (leqb n_not n_neg) with false by (vm_compute; reflexivity).
      rewrite leqb_refl. rewrite IHx. destruct (eval_doc env x); reflexivity.
    + rewrite E4. cbn [eval_r].
      replace (leqb n_eqself n_neg) with false by (vm_compute; reflexivity).
      replace (leqb n_eqself n_not) with false by (vm_compute; reflexivity).
      replace (leqb n_eqself n_in) with false by (vm_compute; reflexivity).
      replace (leqb n_eqself n_and_in) with false by (vm_compute; reflexivity).
      replace (binop_of_name n_eqself) with (@None binop) by (vm_compute; reflexivity).
      destruct (eval_doc env x); reflexivity.
  - cbn [expand eval_doc eval_r]. induction IH as [|[c v] t [Hc Hv] Ht IHt]; [reflexivity|].
    cbn [map fst snd]. cbn [fst snd] in Hc, Hv. rewrite Hc, Hv, IHt. reflexivity.
  - cbn [expand eval_doc eval_r].
    replace (leqb n_in n_neg) with false by (vm_compute; reflexivity).
    replace (leqb n_in n_not) with false by (vm_compute; reflexivity).
    rewrite leqb_refl.
    assert (O : forall b, is_null (match b with Some b0 => expand b0 | None => RLit LNull end)
                          = match b with None => true | Some be => is_null_lit be end).
    { intros [b0|]; [apply is_null_expand|reflexivity]. }
    rewrite (O lo), (O hi).
    destruct ((match lo with None => true | Some be => is_null_lit be end) && (match hi with None => true | Some be => is_null_lit be end)); [reflexivity|].
    rewrite IHx. destruct (eval_doc env x) as [v|]; [|reflexivity].
    assert (S : forall b o, (forall b0, b = Some b0 -> eval_r env (expand b0) = eval_doc env b0) ->
      (if (match b with None => true | Some be => is_null_lit be end) then Some None
       else match eval_r env (match b with Some b0 => expand b0 | None => RLit LNull end) with
            | Some bv => Some (Some (eval_bop o v bv)) | None => None end) =
      match b with
      | None => Some None
      | Some be => if is_null_lit be then Some None
                   else match eval_doc env be with Some bv => Some (Some (eval_bop o v bv)) | None => None end
      end).
    { intros [b0|] o H; [|reflexivity]. rewrite (H b0 eq_refl). reflexivity. }
    rewrite (S lo Ge IHlo), (S hi Le IHhi). reflexivity.
Qed.

(* ================= static_eval_sound ================= *)

(* does the meaning of operator n look at whether an argument is the LITERAL null? *)
Definition uses_null_flag (n : str) : bool :=
  leqb n n_in || match binop_of_name n with Some o => match is_eq_op o with Some _ => true | None => false end | None => false end.

(* the corner that is not demanded: an `==`/`!=`/in-range operand that is not the literal null but folds to it *)
Fixpoint no_corner (r : rexpr) : bool :=
  match r with
  | ROp n args =>
      forallb no_corner args &&
      (if uses_null_flag n then forallb (fun a => is_null a || negb (is_null (seval a))) args else true)
  | RCase cs => forallb (fun cv => no_corner (fst cv) && no_corner (snd cv)) cs
  | _ => true
  end.

Lemma eval_r_case_cons env c v t :
  eval_r env (RCase ((c, v) :: t)) =
  match eval_r env c with Some cv => if Value.is_true cv then eval_r env v else eval_r env (RCase t) | None => None end.
Proof. reflexivity. Qed.

Lemma eval_r_cong env n args args' :
  Forall2 (fun a a' => eval_r env a' = eval_r env a /\ (uses_null_flag n = true -> is_null a' = is_null a)) args args' ->
  eval_r env (ROp n args') = eval_r env (ROp n args).
Proof.
  intros H. unfold uses_null_flag in H. cbn [eval_r].
  destruct (leqb n n_neg). { destruct H as [|a a' t t' [E _] [|? ? ? ? ? ?]]; try reflexivity. rewrite E. reflexivity. }
  destruct (leqb n n_not). { destruct H as [|a a' t t' [E _] [|? ? ? ? ? ?]]; try reflexivity. rewrite E. reflexivity. }
  destruct (leqb n n_in).
  { cbn [orb] in H.
    destruct H as [|a a' t t' [E _] H]; [reflexivity|].
    destruct H as [|b b' t t' [Eb Nb] H]; [reflexivity|].
    destruct H as [|c c' t t' [Ec Nc] H]; [reflexivity|].
    destruct H; [|reflexivity].
    rewrite E, Eb, Ec, (Nb eq_refl), (Nc eq_refl). reflexivity. }
  cbn [orb] in H.
  destruct (leqb n n_and_in).
  { destruct H as [|a a' t t' [E _] H]; [reflexivity|].
    destruct H as [|b b' t t' [Eb _] H]; [reflexivity|].
    destruct H; [|reflexivity]. rewrite E, Eb. reflexivity. }
  destruct (binop_of_name n) as [o|]; [|reflexivity].
  destruct H as [|a a' t t' [E N] H]; [reflexivity|].
  destruct H as [|b b' t t' [Eb Nb] H]; [reflexivity|].
  destruct H; [|reflexivity].
  destruct (is_eq_op o) as [ng|].
  - rewrite E, Eb, (N eq_refl), (Nb eq_refl). reflexivity.
  - rewrite E, Eb. destruct (rq_reversed o); reflexivity.
Qed.

(* --- literals --- *)
Lemma cmp_str s t : cmp_val (VStr s) (VStr t) = Some Datatypes.Eq <-> leqb s t = true.
Proof.
  cbn [cmp_val]. revert t; induction s as [|x s IH]; intros [|y t]; cbn [leqb]; try (split; intros; congruence).
  destruct (N.compare x y) eqn:C.
  - apply N.compare_eq_iff in C. subst y. rewrite N.eqb_refl. cbn [andb]. apply IH.
  - split; [intros E; discriminate|]. intros E. apply andb_true_iff in E as [E _]. apply N.eqb_eq in E. subst.
    rewrite N.compare_refl in C. discriminate.
  - split; [intros E; discriminate|]. intros E. apply andb_true_iff in E as [E _]. apply N.eqb_eq in E. subst.
    rewrite N.compare_refl in C. discriminate.
Qed.

Lemma pow2_pos k : (0 < pow2 k)%Z.
Proof. unfold pow2. apply Z.pow_pos_nonneg; lia. Qed.

(* equality of two literals of the same kind, as the documented comparison computes it *)
Lemma lit_cmp_eq l r : lit_same_kind l r = true -> is_temporal_lit l = false -> l <> LNull ->
  exists c, cmp_val (lit_val l) (lit_val r) = Some c /\ (lit_eqb l r = true <-> c = Datatypes.Eq).
Proof.
  destruct l as [|x|x kx|a|s|tk ts], r as [|y|y ky|b|t|tk' ts']; cbn [lit_same_kind is_temporal_lit]; try discriminate; intros _ _ NN; try congruence.
  - exists (Z.compare x y). split.
    + cbn. unfold Qcompare. cbn. rewrite !Z.mul_1_r. reflexivity.
    + cbn [lit_eqb]. rewrite Z.eqb_eq, Z.compare_eq_iff. reflexivity.
  - exists (Z.compare (x * pow2 ky) (y * pow2 kx)). split.
    + cbn [lit_val cmp_val to_q]. rewrite <- Qred_compare. unfold Qcompare. cbn [Qnum Qden].
      unfold pow2. rewrite !Z2Pos.id by (apply Z.pow_pos_nonneg; lia). reflexivity.
    + cbn [lit_eqb]. rewrite Z.eqb_eq, Z.compare_eq_iff. reflexivity.
  - exists (if Bool.eqb a b then Datatypes.Eq else if a then Datatypes.Gt else Datatypes.Lt).
    destruct a, b; vm_compute; split; try reflexivity; split; intros; congruence.
  - destruct (cmp_val (lit_val (LStr s)) (lit_val (LStr t))) as [c|] eqn:C; [|cbn in C; discriminate].
    exists c. split; [reflexivity|]. cbn [lit_eqb]. cbn [lit_val] in C. rewrite <- cmp_str, C. split; congruence.
Qed.

Lemma lit_eq_value l r : lit_same_kind l r = true -> is_temporal_lit l = false -> l <> LNull ->
  eval_bop Eq (lit_val l) (lit_val r) = b2v (lit_eqb l r) /\ eval_bop Ne (lit_val l) (lit_val r) = b2v (negb (lit_eqb l r)).
Proof.
  intros K T N. destruct (lit_cmp_eq l r K T N) as [c [C E]]. unfold eval_bop. rewrite C.
  destruct (lit_eqb l r).
  - rewrite (proj1 E eq_refl). split; reflexivity.
  - destruct c; [pose proof (proj2 E eq_refl) as X; discriminate X| |]; split; reflexivity.
Qed.

Lemma lit_eval_nt l : is_temporal_lit l = false -> lit_eval l = Some (lit_val l).
Proof. unfold lit_eval. intros ->. reflexivity. Qed.
Lemma same_kind_temporal l r : lit_same_kind l r = true -> is_temporal_lit r = is_temporal_lit l.
Proof. destruct l, r; cbn; intros; try discriminate; reflexivity. Qed.

Lemma same_kind_null l r : lit_same_kind l r = true -> (l = LNull <-> r = LNull).
Proof. destruct l, r; cbn; intros; try discriminate; split; congruence. Qed.

Lemma eval_r_std env o a b :
  eval_r env (ROp (expand_binop o) [a; b]) =
  (let (l, r) := if rq_reversed o then (b, a) else (a, b) in
   match is_eq_op o, is_null l || is_null r with
   | Some negated, true => option_map (fun v => eval_isnull v negated) (if is_null l then eval_r env r else eval_r env l)
   | _, _ => match eval_r env l, eval_r env r with Some x, Some y => eval_binop o x y | _, _ => None end
   end).
Proof.
  destruct (expand_binop_not_special o) as [N1 [N2 [N3 N4]]].
  cbn [eval_r]. rewrite N1, N2, N3, N4, binop_of_name_expand. destruct (rq_reversed o); reflexivity.
Qed.

(* --- one folding step --- *)
Lemma static_eval_op_sound env n args : eval_r env (static_eval_op n args) = eval_r env (ROp n args).
Proof.
  unfold static_eval_op.
  destruct (leqb n n_not) eqn:E1.
  { apply leqb_spec in E1. subst n. destruct args as [|[i|[| | |b| |]|m a|cs] [|? ?]]; try reflexivity.
    destruct b; vm_compute; reflexivity. }
  destruct (leqb n n_neg) eqn:E2.
  { apply leqb_spec in E2. subst n. destruct args as [|[i|[|v|v k|b| |]|m a|cs] [|? ?]]; try reflexivity.
    - destruct (Z.eqb v i64_min); reflexivity.   (* i64::MIN: the call is kept (/repo 222f71a) *)
    - cbn [eval_r]. rewrite leqb_refl. cbn [option_map eval_r lit_eval is_temporal_lit lit_val eval_neg arith to_q]. f_equal. f_equal.
      apply Qred_complete. rewrite Qred_correct. unfold Qminus, Qopp, Qplus, Qeq; cbn. ring. }
  destruct (leqb n n_eq) eqn:E3.
  { apply leqb_spec in E3. subst n.
    destruct args as [|[i|l|m a|cs] [|[j|r|m' a'|cs'] [|? ?]]]; try reflexivity.
    destruct (lit_same_kind l r && negb (is_temporal_lit l)) eqn:K0; [|reflexivity].
    apply andb_true_iff in K0 as [K T]. apply negb_true_iff in T.
    pose proof (same_kind_temporal _ _ K) as Tr. rewrite T in Tr.
    change n_eq with (expand_binop B_Eq). rewrite eval_r_std. cbn [rq_reversed is_eq_op eval_r is_null].
    rewrite (lit_eval_nt _ T), (lit_eval_nt _ Tr).
    destruct l as [|x|x kx|a|s|tk ts].
    - assert (r = LNull) by (apply (same_kind_null _ _ K); reflexivity). subst r. reflexivity.
    - destruct r; try discriminate K. cbn [orb]. cbn [eval_binop]. rewrite (proj1 (lit_eq_value _ _ K T ltac:(discriminate))). reflexivity.
    - destruct r; try discriminate K. cbn [orb]. cbn [eval_binop]. rewrite (proj1 (lit_eq_value _ _ K T ltac:(discriminate))). reflexivity.
    - destruct r; try discriminate K. cbn [orb]. cbn [eval_binop]. rewrite (proj1 (lit_eq_value _ _ K T ltac:(discriminate))). reflexivity.
    - destruct r; try discriminate K. cbn [orb]. cbn [eval_binop]. rewrite (proj1 (lit_eq_value _ _ K T ltac:(discriminate))). reflexivity.
    - discriminate T. }
  destruct (leqb n n_ne) eqn:E4.
  { apply leqb_spec in E4. subst n.
    destruct args as [|[i|l|m a|cs] [|[j|r|m' a'|cs'] [|? ?]]]; try reflexivity.
    destruct (lit_same_kind l r && negb (is_temporal_lit l)) eqn:K0; [|reflexivity].
    apply andb_true_iff in K0 as [K T]. apply negb_true_iff in T.
    pose proof (same_kind_temporal _ _ K) as Tr. rewrite T in Tr.
    change n_ne with (expand_binop B_Ne). rewrite eval_r_std. cbn [rq_reversed is_eq_op eval_r is_null].
    rewrite (lit_eval_nt _ T), (lit_eval_nt _ Tr).
    destruct l as [|x|x kx|a|s|tk ts].
    - assert (r = LNull) by (apply (same_kind_null _ _ K); reflexivity). subst r. reflexivity.
    - destruct r; try discriminate K. cbn [orb]. cbn [eval_binop]. rewrite (proj2 (lit_eq_value _ _ K T ltac:(discriminate))). reflexivity.
    - destruct r; try discriminate K. cbn [orb]. cbn [eval_binop]. rewrite (proj2 (lit_eq_value _ _ K T ltac:(discriminate))). reflexivity.
    - destruct r; try discriminate K. cbn [orb]. cbn [eval_binop]. rewrite (proj2 (lit_eq_value _ _ K T ltac:(discriminate))). reflexivity.
    - destruct r; try discriminate K. cbn [orb]. cbn [eval_binop]. rewrite (proj2 (lit_eq_value _ _ K T ltac:(discriminate))). reflexivity.
    - discriminate T. }
  destruct (leqb n n_and) eqn:E5.
  { apply leqb_spec in E5. subst n.
    destruct args as [|[i|[| | |a| |]|m a|cs] [|[j|[| | |b| |]|m' a'|cs'] [|? ?]]]; try reflexivity.
    destruct a, b; vm_compute; reflexivity. }
  destruct (leqb n n_or) eqn:E6.
  { apply leqb_spec in E6. subst n.
    destruct args as [|[i|[| | |a| |]|m a|cs] [|[j|[| | |b| |]|m' a'|cs'] [|? ?]]]; try reflexivity.
    destruct a, b; vm_compute; reflexivity. }
  destruct (leqb n n_coalesce) eqn:E7.
  { apply leqb_spec in E7. subst n.
    destruct args as [|[i|[| | | | |]|m a|cs] [|x [|? ?]]]; try reflexivity.
    change n_coalesce with (expand_binop B_Coalesce). rewrite eval_r_std. cbn [rq_reversed is_eq_op eval_r lit_val].
    destruct (eval_r env x); reflexivity. }
  reflexivity.
Qed.

(* --- case folding --- *)
Lemma case_filter_sound env cs : eval_r env (RCase (case_filter cs)) = eval_r env (RCase cs).
Proof.
  induction cs as [|[c v] t IH]; [reflexivity|].
  cbn [case_filter].
  destruct c as [i|[| | |b| |]|n a|cs']; try (rewrite !eval_r_case_cons, IH; reflexivity).
  destruct b.
  - rewrite !eval_r_case_cons. reflexivity.
  - rewrite eval_r_case_cons, IH. reflexivity.
Qed.

Lemma static_eval_case_sound env cs : eval_r env (static_eval_case cs) = eval_r env (RCase cs).
Proof.
  rewrite <- case_filter_sound. unfold static_eval_case.
  destruct (case_filter cs) as [|[c v] [|p t]]; [reflexivity| |].
  - destruct c as [i|[| | |b| |]|n a|cs']; try reflexivity.
    destruct b; [|reflexivity]. rewrite eval_r_case_cons. reflexivity.
  - destruct c as [i|[| | |b| |]|n a|cs']; try reflexivity. destruct b; reflexivity.
Qed.

(* --- `in` --- *)
Lemma keep_gte args : static_eval_op n_gte args = ROp n_gte args.
Proof. unfold static_eval_op. repeat (match goal with |- context [leqb n_gte ?m] => replace (leqb n_gte m) with false by (vm_compute; reflexivity) end). reflexivity. Qed.
Lemma keep_lte args : static_eval_op n_lte args = ROp n_lte args.
Proof. unfold static_eval_op. repeat (match goal with |- context [leqb n_lte ?m] => replace (leqb n_lte m) with false by (vm_compute; reflexivity) end). reflexivity. Qed.

Lemma eval_r_in env v lo hi :
  eval_r env (ROp n_in [v; lo; hi]) =
  if is_null lo && is_null hi then Some (b2v true) else
  match eval_r env v with
  | None => None
  | Some x =>
      match (if is_null lo then Some None else match eval_r env lo with Some bv => Some (Some (eval_bop Ge x bv)) | None => None end),
            (if is_null hi then Some None else match eval_r env hi with Some bv => Some (Some (eval_bop Le x bv)) | None => None end) with
      | Some (Some a), Some (Some b) => Some (and3 a b)
      | Some (Some a), Some None => Some a
      | Some None, Some (Some b) => Some b
      | Some None, Some None => Some (b2v true)
      | _, _ => None
      end
  end.
Proof.
  cbn [eval_r].
  replace (leqb n_in n_neg) with false by (vm_compute; reflexivity).
  replace (leqb n_in n_not) with false by (vm_compute; reflexivity).
  rewrite leqb_refl. reflexivity.
Qed.

Lemma eval_r_and_in env a b :
  eval_r env (ROp n_and_in [a; b]) = match eval_r env a, eval_r env b with Some x, Some y => Some (and3 x y) | _, _ => None end.
Proof.
  cbn [eval_r].
  replace (leqb n_and_in n_neg) with false by (vm_compute; reflexivity).
  replace (leqb n_and_in n_not) with false by (vm_compute; reflexivity).
  replace (leqb n_and_in n_in) with false by (vm_compute; reflexivity).
  rewrite leqb_refl. reflexivity.
Qed.

Lemma seval_in_sound env args : eval_r env (seval_in args) = eval_r env (ROp n_in args).
Proof.
  destruct args as [|v [|lo [|hi [|? ?]]]]; try reflexivity.
  unfold seval_in. rewrite keep_gte, keep_lte, eval_r_in.
  change n_gte with (expand_binop B_Gte). change n_lte with (expand_binop B_Lte).
  destruct (is_null lo), (is_null hi); rewrite ?eval_r_and_in, ?eval_r_std; cbn [rq_reversed is_eq_op eval_binop eval_r lit_val];
    destruct (eval_r env v), (eval_r env lo), (eval_r env hi); reflexivity.
Qed.

(* --- the theorem --- *)
Theorem static_eval_sound env r : no_corner r = true -> eval_r env (seval r) = eval_r env r.
Proof.
  induction r as [i|l|n args IH|cs IH] using rexpr_ind2; intros NC; try reflexivity.
  - cbn [seval]. cbn [no_corner] in NC. apply andb_true_iff in NC as [NC1 NC2].
    assert (CG : eval_r env (ROp n (map seval args)) = eval_r env (ROp n args)).
    { apply eval_r_cong. rewrite forallb_forall in NC1.
      assert (NF : uses_null_flag n = true -> forall a, In a args -> is_null (seval a) = is_null a).
      { intros U a Ha. rewrite U in NC2. rewrite forallb_forall in NC2. specialize (NC2 a Ha).
        destruct (is_null a) eqn:Na.
        - destruct a as [|[| | | | |]| |]; try discriminate. reflexivity.
        - cbn in NC2. apply negb_true_iff in NC2. exact NC2. }
      clear NC2. induction IH as [|a t Ha Ht IHt]; cbn [map]; constructor.
      - split; [apply Ha; apply NC1; left; reflexivity|]. intros U. apply NF; [exact U|left; reflexivity].
      - apply IHt; intros; [apply NC1|apply NF]; auto; right; auto. }
    destruct (leqb n n_in) eqn:EI.
    + apply leqb_spec in EI. subst n. rewrite seval_in_sound. exact CG.
    + rewrite static_eval_op_sound. exact CG.
  - cbn [seval]. rewrite static_eval_case_sound. cbn [no_corner] in NC. rewrite forallb_forall in NC.
    induction IH as [|[c v] t [Hc Hv] Ht IHt]; [reflexivity|].
    cbn [map fst snd]. cbn [fst snd] in Hc, Hv. rewrite !eval_r_case_cons.
    pose proof (NC (c, v) (or_introl eq_refl)) as N0. cbn [fst snd] in N0. apply andb_true_iff in N0 as [N1 N2].
    rewrite (Hc N1), (Hv N2). rewrite IHt; [reflexivity|]. intros x Hx. apply NC. right. exact Hx.
Qed.

(* the whole front half: resolve = static_eval after ast_expand *)
Theorem resolve_sound env e : no_corner (expand e) = true -> eval_r env (resolve e) = eval_doc env e.
Proof. intros H. unfold resolve. rewrite static_eval_sound by exact H. apply expand_sound. Qed.

(* C07 -- the reference translate_cid chooses resolves, and resolves uniquely, in the scope of the SELECT being assembled:
   a bare name is chosen only when the FROM list has exactly one item. *)
From Coq Require Import List NArith Bool Arith Lia.
From PV Require Import Model.Checked Model.SqlAst Model.SqlScope Model.SqlScopeX Model.TranslateCid Proofs.SqlScopeProofs.
Import ListNotations.
Local Open Scope N_scope.

(* the frame of the SELECT: one item per From / Join; [a] is the name of the instance the column belongs to, [r] its relation *)
Section Cid.
  Variables (fr : frame) (sc : scope) (a : name) (r : rel) (c : name).
  Hypothesis Hfind : find_alias fr a = Some r.        (* the instance is an item of this SELECT's FROM list, known as [a] *)
  Hypothesis Hexp : exposes r c = true.               (* and its relation has the column *)

  Lemma single_frame : length fr = 1%nat -> fr = [(a, r)].
  Proof.
    destruct fr as [|[a' r'] [|x l]]; cbn; try discriminate; intros _.
    cbn in Hfind. destruct (N.eqb a' a) eqn:E; [|discriminate]. apply N.eqb_eq in E. injection Hfind as ->. now subst.
  Qed.

  (* every RelationColumn reference the function can return resolves, pre- and post-projection *)
  Theorem cid_ref_resolves pre x :
    translate_cid pre (omit_prefix (length fr)) DRelCol (Some a) (CName c) = Ret x -> ref_resolves (fr :: sc) x = true.
  Proof.
    unfold translate_cid, translate_ident, omit_prefix.
    destruct (Nat.eqb (length fr) 1) eqn:E; destruct pre; intro H; injection H as <-; cbn [ref_resolves res_bare res_qual existsb].
    1,2: apply Nat.eqb_eq in E; rewrite (single_frame E); cbn; now rewrite Hexp.
    1,2: rewrite Hfind; exact Hexp.
  Qed.

  (* ... and uniquely, when the relation has the column name once (or does not list its columns) *)
  Theorem cid_ref_unique pre x : (count_name c (rcols r) <= 1)%nat ->
    translate_cid pre (omit_prefix (length fr)) DRelCol (Some a) (CName c) = Ret x -> ref_unique (fr :: sc) x = true.
  Proof.
    intros Hc. unfold translate_cid, translate_ident, omit_prefix.
    destruct (Nat.eqb (length fr) 1) eqn:E; destruct pre; intro H; injection H as <-; cbn [ref_unique bare_count qual_count].
    1,2: apply Nat.eqb_eq in E; rewrite (single_frame E); cbn [frame_exposes existsb snd]; rewrite Hexp; cbn [orb frame_count fold_right snd];
         apply Nat.leb_le; lia.
    1,2: rewrite Hfind; now apply Nat.leb_le.
  Qed.
End Cid.

(* the bare form is chosen only for a FROM list of one item *)
Theorem bare_only_single ntables pre d inst col q' c' :
  translate_cid pre (omit_prefix ntables) d (Some inst) col = Ret (q', c') -> q' = None -> d = DRelCol -> ntables = 1%nat.
Proof.
  unfold translate_cid, translate_ident, omit_prefix. intros H -> ->.
  destruct (Nat.eqb ntables 1) eqn:E; [now apply Nat.eqb_eq in E|]. destruct pre; discriminate.
Qed.

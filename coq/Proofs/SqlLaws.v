(* The algebraic laws behind [reassoc_ok] (Model/SqlCompat.v): for these operator pairs
   x o (y o2 z) = (x o y) o2 z  in the engine's scalar semantics (Model/SqlSem.v over Model/Value.v),
   for ALL values including NULL, integers, rationals and text. *)
From Coq Require Import List ZArith QArith Bool Lia.
From PV Require Import Model.Value Model.Pratt Model.SqlGrammar Model.SqlTree Model.SqlSem Model.SqlCompat Proofs.PrattNorm.
Import ListNotations.

Ltac qnorm := f_equal; apply Qred_complete;
  rewrite ?Qred_correct, ?inject_Z_plus, ?inject_Z_mult, ?inject_Z_opp; unfold Qminus;
  rewrite ?Qred_correct, ?inject_Z_plus, ?inject_Z_mult, ?inject_Z_opp; ring.

Lemma add_add a b c : arith Add a (arith Add b c) = arith Add (arith Add a b) c.
Proof.
  destruct a as [|x|p|s], b as [|y|q|t], c as [|z|r|u]; cbn [arith to_q]; try reflexivity;
    try (f_equal; lia); try qnorm.
Qed.
Lemma add_sub a b c : arith Add a (arith Sub b c) = arith Sub (arith Add a b) c.
Proof.
  destruct a as [|x|p|s], b as [|y|q|t], c as [|z|r|u]; cbn [arith to_q]; try reflexivity;
    try (f_equal; lia); try (unfold Z.sub; qnorm).
Qed.
Lemma mul_mul a b c : arith Mul a (arith Mul b c) = arith Mul (arith Mul a b) c.
Proof.
  destruct a as [|x|p|s], b as [|y|q|t], c as [|z|r|u]; cbn [arith to_q]; try reflexivity;
    try (f_equal; ring); try qnorm.
Qed.

Lemma truth_b2v b : truth (b2v b) = Some b.
Proof. destruct b; reflexivity. Qed.

Lemma and_and a b c : eval_bop And a (eval_bop And b c) = eval_bop And (eval_bop And a b) c.
Proof.
  unfold eval_bop.
  destruct (truth a) as [[|]|] eqn:Ta, (truth b) as [[|]|] eqn:Tb, (truth c) as [[|]|] eqn:Tc;
    rewrite ?truth_b2v; cbn [truth]; rewrite ?Ta, ?Tb, ?Tc; reflexivity.
Qed.
Lemma or_or a b c : eval_bop Or a (eval_bop Or b c) = eval_bop Or (eval_bop Or a b) c.
Proof.
  unfold eval_bop.
  destruct (truth a) as [[|]|] eqn:Ta, (truth b) as [[|]|] eqn:Tb, (truth c) as [[|]|] eqn:Tc;
    rewrite ?truth_b2v; cbn [truth]; rewrite ?Ta, ?Tb, ?Tc; reflexivity.
Qed.

Lemma lift2_rot (f g : val -> val -> val) :
  (forall a b c, f a (g b c) = g (f a b) c) ->
  forall x y z, lift2 f x (lift2 g y z) = lift2 g (lift2 f x y) z.
Proof. intros H x y z. destruct x, y, z; cbn; try reflexivity. rewrite H. reflexivity. Qed.

(* string concatenation is associative (text and NULL; a number anywhere puts both sides outside the model) *)
Lemma concat_concat x y z : sql_ev SConcat x (sql_ev SConcat y z) = sql_ev SConcat (sql_ev SConcat x y) z.
Proof.
  destruct x as [[|?|?|s]|? ?|], y as [[|?|?|t]|? ?|], z as [[|?|?|u]|? ?|]; cbn; try reflexivity.
  rewrite app_assoc. reflexivity.
Qed.

(* every pair of [reassoc_ok] is a rotation law of the engine semantics *)
Theorem reassoc_ok_sound : forall p, pair_in p reassoc_ok = true -> rot_ok sop sv sql_ev p.
Proof.
  intros [o o2] H. unfold rot_ok. cbn [fst snd].
  destruct o, o2; try discriminate H; try (apply concat_concat); cbn [sql_ev]; apply lift2_rot.
  - apply or_or. - apply and_and. - apply add_add. - apply add_sub. - apply mul_mul.
Qed.

(* C12: the backtracking parser of Model/ParseRetry.v accepts `f x:(f x:(.. 1 ..))` and invokes nested_expr
   calls n = 2 * calls (n-1) + 1 times: the default-value reading of lambda_func parses the whole inner
   argument, fails at the missing `->`, and func_call parses it again. *)
From Coq Require Import List Arith Lia.
From PV Require Import Model.ParseRetry.
Import ListNotations.

(* what follows the expression: nothing, or a closing parenthesis *)
Definition closes (r : list tok) : Prop := r = [] \/ exists r', r = TRParen :: r'.

Lemma expr_fails_at_close k r : closes r -> p k NExpr r = (None, 0).
Proof. intros [->|[r' ->]]; destruct k; reflexivity. Qed.

Lemma params_at_close k r : closes r -> p (S k) NParams r = (Some r, 0).
Proof. intros [->|[r' ->]]; reflexivity. Qed.

Lemma args_at_close k r : closes r -> p (S (S k)) NArgs r = (Some r, 0).
Proof.
  intros H. cbn [p]. assert (E : p (S k) NExpr r = (None, 0)) by (apply expr_fails_at_close; exact H).
  destruct H as [->|[r' ->]]; cbn [p] in *; reflexivity.
Qed.

Lemma arrow_at_close r : closes r -> is_arrow r = None.
Proof. intros [->|[r' ->]]; reflexivity. Qed.

(* one-step unfoldings *)
Lemma nested_step k ts : p (S k) NNested ts =
  match p k NLambda ts with
  | (Some r, c1) => (Some r, 1 + c1)
  | (None, c1) => match p k NCall ts with (o, c2) => (o, 1 + c1 + c2) end
  end.
Proof. reflexivity. Qed.
Lemma lambda_step k ts : p (S k) NLambda ts =
  match p k NParams ts with
  | (Some r, c) => match is_arrow r with
                   | Some r' => match p k NExpr r' with (o, c') => (o, c + c') end
                   | None => (None, c)
                   end
  | (None, c) => (None, c)
  end.
Proof. reflexivity. Qed.
Lemma params_ident_ident k r : p (S k) NParams (TIdent :: TIdent :: r) = p k NParams (TIdent :: r).
Proof. reflexivity. Qed.
Lemma params_ident_colon k r : p (S k) NParams (TIdent :: TColon :: r) =
  match p k NExpr r with
  | (Some r', c) => match p k NParams r' with (o, c') => (o, c + c') end
  | (None, c) => (Some (TColon :: r), c)
  end.
Proof. reflexivity. Qed.
Lemma expr_lparen k r : p (S k) NExpr (TLParen :: r) =
  match p k NNested r with
  | (Some (TRParen :: r'), c) => (Some r', c)
  | (_, c) => (None, c)
  end.
Proof. reflexivity. Qed.
Lemma expr_ident k r : p (S k) NExpr (TIdent :: r) = (Some r, 0).
Proof. reflexivity. Qed.
Lemma expr_one k r : p (S k) NExpr (TOne :: r) = (Some r, 0).
Proof. reflexivity. Qed.
Lemma params_one k r : p (S k) NParams (TOne :: r) = (Some (TOne :: r), 0).
Proof. reflexivity. Qed.
Lemma call_step k ts : p (S k) NCall ts =
  match p k NExpr ts with
  | (Some r, c) => match p k NArgs r with (o, c') => (o, c + c') end
  | (None, c) => (None, c)
  end.
Proof. reflexivity. Qed.
Lemma args_ident_colon k r : p (S k) NArgs (TIdent :: TColon :: r) =
  match p k NExpr r with
  | (Some r', c) => match p k NArgs r' with (o, c') => (o, c + c') end
  | (None, c) => (Some (TColon :: r), c)
  end.
Proof. reflexivity. Qed.

Theorem nested_cost : forall n fuel r, closes r -> 8 * n + 8 <= fuel ->
  p fuel NNested (nested_named n ++ r) = (Some r, calls n).
Proof.
  induction n as [|n IH]; intros fuel r Hr Hf.
  - do 5 (destruct fuel as [|fuel]; [lia|]). cbn [nested_named app].
    rewrite nested_step, lambda_step, params_one. cbn [is_arrow].
    rewrite call_step, expr_one, (args_at_close _ r Hr). reflexivity.
  - do 8 (destruct fuel as [|fuel]; [lia|]).
    cbn [nested_named]. rewrite <- !app_comm_cons, <- app_assoc. cbn [app].
    assert (Hc : closes (TRParen :: r)) by (right; eauto).
    (* lambda_func: ident, ident `:` default = `(` nested_expr `)` ... and no `->` *)
    rewrite nested_step, lambda_step, params_ident_ident, params_ident_colon, expr_lparen.
    rewrite (IH _ (TRParen :: r) Hc) by lia.
    rewrite (params_at_close _ r Hr), (arrow_at_close r Hr).
    (* func_call: ident, named argument ident `:` `(` nested_expr `)` -- the same tokens again *)
    rewrite call_step, expr_ident, args_ident_colon, expr_lparen.
    rewrite (IH _ (TRParen :: r) Hc) by lia.
    rewrite (args_at_close _ r Hr). cbn [calls]. f_equal. lia.
Qed.

(* the closed form: calls n = 2^(n+1) - 1 *)
Lemma calls_pow n : calls n + 1 = 2 ^ (n + 1).
Proof. induction n as [|n IH]; [reflexivity|]. cbn [calls]. replace (S n + 1) with (S (n + 1)) by lia. rewrite Nat.pow_succ_r'. lia. Qed.

Lemma pow_gt_lin : forall n, n < 2 ^ n.
Proof. induction n as [|n IH]; [cbn; lia|]. rewrite Nat.pow_succ_r'. lia. Qed.

(* no linear (indeed no polynomial; linear is what is stated) bound a * n + b holds for all n *)
Theorem calls_not_linear a b : exists n, a * n + b < calls n.
Proof.
  (* n = 2 * (a + b) + 4 *)
  exists (2 * (a + b) + 4). pose proof (calls_pow (2 * (a + b) + 4)) as E.
  set (m := a + b + 2) in *. replace (2 * (a + b) + 4) with (m + m) in * by (unfold m; lia).
  replace (m + m + 1) with (S (m + m)) in E by lia. rewrite Nat.pow_succ_r' in E.
  rewrite Nat.pow_add_r in E. pose proof (pow_gt_lin m) as L.
  assert (m * m < 2 ^ m * 2 ^ m) by (apply Nat.mul_lt_mono; lia).
  assert (a * (m + m) + b <= 2 * (m * m)) by (unfold m; nia). lia.
Qed.

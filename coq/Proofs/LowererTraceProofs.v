(* C16: the op-trace replay (Model/LowererTrace.v) is sound: a `true` of replay_ok means that the observed operation
   sequence is a run of the Lowerer machine whose finished RQ IS the RQ the implementation returned; hence everything
   proved about all runs (Proofs/LowererProofs.v) holds of that RQ. *)
From Coq Require Import List NArith Bool Lia.
From PV Require Import Lib.ListX Model.Rq Model.RqWf Model.Lowerer Model.RqEq Model.LowererTrace
                       Proofs.RqWfProofs Proofs.LowererProofs.
Import ListNotations.
Local Open Scope N_scope.

(* ------------------------------------------------------------------ boolean equality is Leibniz equality *)

Lemma list_eqb_sound {A} (f : A -> A -> bool) l :
  Forall (fun x => forall y, f x y = true -> x = y) l -> forall l', list_eqb f l l' = true -> l = l'.
Proof.
  induction 1 as [|x l Hx _ IH]; intros [|y l']; cbn [list_eqb]; try discriminate; [reflexivity|].
  intro H. apply andb_true_iff in H as [H1 H2]. f_equal; [apply Hx; exact H1 | apply IH; exact H2].
Qed.

Lemma list_eqb_sound' {A} (f : A -> A -> bool) :
  (forall x y, f x y = true -> x = y) -> forall l l', list_eqb f l l' = true -> l = l'.
Proof. intros Hf l. apply list_eqb_sound. apply Forall_forall. intros x _. apply Hf. Qed.

Lemma option_eqb_sound {A} (f : A -> A -> bool) :
  (forall x y, f x y = true -> x = y) -> forall a b, option_eqb f a b = true -> a = b.
Proof. intros Hf [x|] [y|]; cbn; try discriminate; [intro H; f_equal; apply Hf; exact H | reflexivity]. Qed.

Lemma pair_eqb_sound {A B} (f : A -> A -> bool) (g : B -> B -> bool) :
  (forall x y, f x y = true -> x = y) -> (forall x y, g x y = true -> x = y) ->
  forall a b, pair_eqb f g a b = true -> a = b.
Proof.
  intros Hf Hg [a1 a2] [b1 b2]. unfold pair_eqb. cbn [fst snd]. intro H. apply andb_true_iff in H as [H1 H2].
  f_equal; [apply Hf | apply Hg]; assumption.
Qed.

Lemma leqb_sound a b : leqb a b = true -> a = b.
Proof. apply leqb_spec. Qed.

Lemma Neqb_sound a b : N.eqb a b = true -> a = b.
Proof. apply N.eqb_eq. Qed.

Lemma rc_eqb_sound a b : rc_eqb a b = true -> a = b.
Proof.
  destruct a as [x|], b as [y|]; cbn [rc_eqb]; try discriminate; [|reflexivity].
  intro H. f_equal. revert H. apply option_eqb_sound. exact leqb_sound.
Qed.

Lemma ekind_eqb_sound a b : ekind_eqb a b = true -> a = b.
Proof. destruct a, b; cbn; try discriminate; try reflexivity. intro H. f_equal. apply leqb_sound. exact H. Qed.

(* induction principle for the nested type *)
Fixpoint expr_ind' (P : expr -> Prop)
  (Hr : forall c, P (ERef c)) (Hl : P ELit) (Hp : P EParam)
  (Hn : forall k l, Forall P l -> P (ENode k l)) (e : expr) {struct e} : P e :=
  match e with
  | ERef c => Hr c
  | ELit => Hl
  | EParam => Hp
  | ENode k l => Hn k l ((fix go (l : list expr) : Forall P l :=
                            match l with
                            | [] => Forall_nil P
                            | x :: l' => Forall_cons x (expr_ind' P Hr Hl Hp Hn x) (go l')
                            end) l)
  end.

Lemma expr_eqb_sound a : forall b, expr_eqb a b = true -> a = b.
Proof.
  induction a as [c| | |k l IH] using expr_ind'; intros [c'| | |k' l']; cbn [expr_eqb]; try discriminate; try reflexivity.
  - intro H. f_equal. apply Neqb_sound. exact H.
  - intro H. apply andb_true_iff in H as [H1 H2]. f_equal; [apply ekind_eqb_sound; exact H1|].
    eapply list_eqb_sound; [exact IH | exact H2].
Qed.

Lemma dir_eqb_sound a b : dir_eqb a b = true -> a = b.
Proof. destruct a, b; cbn; try discriminate; reflexivity. Qed.
Lemma side_eqb_sound a b : side_eqb a b = true -> a = b.
Proof. destruct a, b; cbn; try discriminate; reflexivity. Qed.
Lemma fk_eqb_sound a b : fk_eqb a b = true -> a = b.
Proof. destruct a, b; cbn; try discriminate; reflexivity. Qed.

Lemma range_eqb_sound a b : range_eqb a b = true -> a = b.
Proof. apply pair_eqb_sound; apply option_eqb_sound; exact expr_eqb_sound. Qed.

Lemma sorts_eqb_sound a b : sorts_eqb a b = true -> a = b.
Proof. apply list_eqb_sound'. apply pair_eqb_sound; [exact dir_eqb_sound | exact Neqb_sound]. Qed.

Lemma cids_eqb_sound a b : cids_eqb a b = true -> a = b.
Proof. apply list_eqb_sound'. exact Neqb_sound. Qed.

Lemma icols_eqb_sound (a b : list (relcol * cid)) : list_eqb (pair_eqb rc_eqb N.eqb) a b = true -> a = b.
Proof. apply list_eqb_sound'. apply pair_eqb_sound; [exact rc_eqb_sound | exact Neqb_sound]. Qed.

Lemma tref_eqb_sound a b : tref_eqb a b = true -> a = b.
Proof.
  destruct a as [s1 c1 n1], b as [s2 c2 n2]. unfold tref_eqb. cbn [tr_source tr_columns tr_name]. intro H.
  apply andb_true_iff in H as [H H3]. apply andb_true_iff in H as [H1 H2].
  apply Neqb_sound in H1. apply icols_eqb_sound in H2. apply (option_eqb_sound _ leqb_sound) in H3. subst. reflexivity.
Qed.

Lemma window_eqb_sound a b : window_eqb a b = true -> a = b.
Proof.
  destruct a as [k1 r1 p1 s1], b as [k2 r2 p2 s2]. unfold window_eqb. cbn [w_kind w_range w_partition w_sort]. intro H.
  apply andb_true_iff in H as [H H4]. apply andb_true_iff in H as [H H3]. apply andb_true_iff in H as [H1 H2].
  apply fk_eqb_sound in H1. apply range_eqb_sound in H2. apply cids_eqb_sound in H3. apply sorts_eqb_sound in H4.
  subst. reflexivity.
Qed.

Fixpoint transform_ind' (P : transform -> Prop)
  (H1 : forall r, P (TFrom r)) (H2 : forall i e w g, P (TCompute i e w g)) (H3 : forall c, P (TSelect c))
  (H4 : forall e, P (TFilter e)) (H5 : forall p c, P (TAggregate p c)) (H6 : forall s, P (TSort s))
  (H7 : forall r p s, P (TTake r p s)) (H8 : forall sd r f, P (TJoin sd r f)) (H9 : forall r, P (TAppend r))
  (H10 : forall p, Forall P p -> P (TLoop p)) (t : transform) {struct t} : P t :=
  match t with
  | TFrom r => H1 r | TCompute i e w g => H2 i e w g | TSelect c => H3 c | TFilter e => H4 e
  | TAggregate p c => H5 p c | TSort s => H6 s | TTake r p s => H7 r p s | TJoin sd r f => H8 sd r f
  | TAppend r => H9 r
  | TLoop p => H10 p ((fix go (l : list transform) : Forall P l :=
                         match l with
                         | [] => Forall_nil P
                         | x :: l' => Forall_cons x (transform_ind' P H1 H2 H3 H4 H5 H6 H7 H8 H9 H10 x) (go l')
                         end) p)
  end.

Lemma bool_eqb_sound a b : Bool.eqb a b = true -> a = b.
Proof. apply Bool.eqb_prop. Qed.

Lemma transform_eqb_sound a : forall b, transform_eqb a b = true -> a = b.
Proof.
  induction a using transform_ind'; intros b; destruct b; cbn [transform_eqb]; try discriminate; intro Heq;
    repeat match goal with H : _ && _ = true |- _ => apply andb_true_iff in H; destruct H end;
    repeat match goal with
           | H : tref_eqb _ _ = true |- _ => apply tref_eqb_sound in H
           | H : expr_eqb _ _ = true |- _ => apply expr_eqb_sound in H
           | H : N.eqb _ _ = true |- _ => apply Neqb_sound in H
           | H : cids_eqb _ _ = true |- _ => apply cids_eqb_sound in H
           | H : sorts_eqb _ _ = true |- _ => apply sorts_eqb_sound in H
           | H : range_eqb _ _ = true |- _ => apply range_eqb_sound in H
           | H : side_eqb _ _ = true |- _ => apply side_eqb_sound in H
           | H : Bool.eqb _ _ = true |- _ => apply bool_eqb_sound in H
           | H : option_eqb window_eqb _ _ = true |- _ => apply (option_eqb_sound _ window_eqb_sound) in H
           end; subst; try reflexivity.
  f_equal. eapply list_eqb_sound; eassumption.
Qed.

Lemma relkind_eqb_sound a b : relkind_eqb a b = true -> a = b.
Proof.
  destruct a, b; cbn [relkind_eqb]; try discriminate; intro H;
    repeat match goal with H : _ && _ = true |- _ => apply andb_true_iff in H; destruct H end;
    repeat match goal with
           | H : list_eqb leqb _ _ = true |- _ => apply (list_eqb_sound' _ leqb_sound) in H
           | H : list_eqb transform_eqb _ _ = true |- _ => apply (list_eqb_sound' _ transform_eqb_sound) in H
           | H : list_eqb expr_eqb _ _ = true |- _ => apply (list_eqb_sound' _ expr_eqb_sound) in H
           | H : leqb _ _ = true |- _ => apply leqb_sound in H
           | H : N.eqb _ _ = true |- _ => apply Neqb_sound in H
           end; subst; reflexivity.
Qed.

Lemma relation_eqb_sound a b : relation_eqb a b = true -> a = b.
Proof.
  destruct a as [k1 c1], b as [k2 c2]. unfold relation_eqb. cbn [r_kind r_columns]. intro H.
  apply andb_true_iff in H as [H1 H2]. apply relkind_eqb_sound in H1. apply (list_eqb_sound' _ rc_eqb_sound) in H2.
  subst. reflexivity.
Qed.

Lemma table_eqb_sound a b : table_eqb a b = true -> a = b.
Proof.
  destruct a as [i1 n1 r1], b as [i2 n2 r2]. unfold table_eqb. cbn [t_id t_name t_relation]. intro H.
  apply andb_true_iff in H as [H H3]. apply andb_true_iff in H as [H1 H2].
  apply Neqb_sound in H1. apply (option_eqb_sound _ leqb_sound) in H2. apply relation_eqb_sound in H3. subst. reflexivity.
Qed.

Theorem rq_eqb_sound a b : rq_eqb a b = true -> a = b.
Proof.
  destruct a as [t1 r1], b as [t2 r2]. unfold rq_eqb. cbn [q_tables q_relation]. intro H.
  apply andb_true_iff in H as [H1 H2]. apply (list_eqb_sound' _ table_eqb_sound) in H1. apply relation_eqb_sound in H2.
  subst. reflexivity.
Qed.

(* ------------------------------------------------------------------ the replay *)

Lemma run_obs_run l : forall s k s', run_obs s l k = inl s' -> run s (map fst l) = Some s'.
Proof.
  induction l as [|[o bs] l IH]; intros s k s'; cbn [run_obs map fst run].
  - intro H; injection H as <-. reflexivity.
  - destruct (step s o) as [s1|]; [|discriminate]. destruct (forallb (check_obs s s1 o) bs); [|discriminate].
    apply IH.
Qed.

Theorem replay_ok_sound l q :
  replay_ok l q = true -> exists s, run init (map fst l) = Some s /\ finish s = Some q.
Proof.
  unfold replay_ok. destruct (run_obs init l 0) as [s|k] eqn:R; [|discriminate].
  destruct (finish s) as [q'|] eqn:F; [|discriminate]. intro H. apply rq_eqb_sound in H. subst q'.
  exists s. split; [eapply run_obs_run; exact R | exact F].
Qed.

(* what the per-program correspondence buys: the implementation's RQ is the result of a run of the machine, so it is
   closed, its lookups are total, its ids are fresh and its tables are declared before use *)
Theorem replay_ok_closed l q : replay_ok l q = true -> rq_closed q /\ lookups_total q.
Proof.
  intro H. destruct (replay_ok_sound l q H) as [s [R F]]. eapply lowerer_emits_closed; eassumption.
Qed.

(* find_selected_all with an `except`: what it keeps are ids of `within`, and no excluded id survives *)
Theorem retain_m_spec within except c : In c (retain_m within except) <-> In c within /\ ~ In c except.
Proof.
  unfold retain_m. rewrite filter_In. split; intros [H1 H2]; split; try exact H1.
  - intro Hin. apply memN_In in Hin. rewrite Hin in H2. discriminate.
  - destruct (memN c except) eqn:E; [|reflexivity]. apply memN_In in E. contradiction.
Qed.

(* The clause assembly of translate_select_pipeline (Model/SelectPluck.v: plucking by kind) yields -- read as SQL clauses --
   the SELECT that Theta-2's `assemble` builds from the same segment; hence (SegmentDistinct.segment_d_sound) a clause-ordered
   atomic pipeline is translated into a SELECT that returns what the pipeline returns transform by transform. *)
From Coq Require Import List Bool Arith Lia Permutation.
From PV Require Import Model.SplitBase Model.SelectPluck Proofs.Theta2 Proofs.SegmentSound Proofs.SegmentDistinct.
Import ListNotations.

Section PS.
  Variable row : Type.
  Variable eqb : row -> row -> bool.
  Hypothesis eqb_spec : forall x y, eqb x y = true <-> x = y.

  Notation rel := (Theta2.rel row).
  Notation cmp := (Theta2.cmp row).
  Notation agg := (Theta2.agg row).
  Notation range := Theta2.range.
  Notation pt := (SelectPluck.pt (row -> bool) cmp agg range unit).
  Notation clauses := (SelectPluck.clauses (row -> bool) cmp agg range unit).
  Notation pluck := (SelectPluck.pluck (row -> bool) cmp agg range unit).
  Notation break_up := (SelectPluck.break_up (row -> bool) cmp agg range unit).
  Notation filters := (SelectPluck.filters (row -> bool) cmp agg range unit).
  Notation sorts := (SelectPluck.sorts (row -> bool) cmp agg range unit).
  Notation qtakes := (SelectPluck.takes (row -> bool) cmp agg range unit).
  Notation aggregates := (SelectPluck.aggregates (row -> bool) cmp agg range unit).
  Notation trd := (SegmentDistinct.trd row).
  Notation Old := (SegmentDistinct.Old row).
  Notation TD := (SegmentDistinct.TD row).
  Notation TF := (SegmentSound.TF row).
  Notation TS := (SegmentSound.TS row).
  Notation TA := (SegmentSound.TA row).
  Notation TT := (SegmentSound.TT row).
  Notation assemble := (SegmentSound.assemble row).
  Notation strip := (SegmentDistinct.strip row).
  Notation has_d := (SegmentDistinct.has_d row).
  Notation dd := (SegmentDistinct.dd row eqb).
  Notation FF := (Theta2.F row).
  Notation SS := (Theta2.S row).

  (* ---- the SELECT the plucked clauses denote: WHERE, [GROUP BY + HAVING], DISTINCT, ORDER BY, LIMIT/OFFSET ---- *)
  Definition conj (fs : list (row -> bool)) : row -> bool := fun r => forallb (fun f => f r) fs.
  Definition sem_clauses (c : clauses) (base : rel) : rel :=
    let r1 := filter (conj (q_where _ _ _ _ _ c)) base in
    let r2 := match q_group _ _ _ _ _ c with Some g => filter (conj (q_having _ _ _ _ _ c)) (g r1) | None => r1 end in
    Theta2.take_range row (Theta2.compose_all (q_takes _ _ _ _ _ c))
      (Theta2.sort_opt row (q_order _ _ _ _ _ c) (if q_distinct _ _ _ _ _ c then dd r2 else r2)).

  (* ---- the segment as Theta-2 sees it ---- *)
  Fixpoint to_trd (p : list pt) : list trd :=
    match p with
    | [] => []
    | QFilter f :: r => Old (TF f) :: to_trd r
    | QSort c :: r => Old (TS c) :: to_trd r
    | QAggregate g :: r => Old (TA g) :: to_trd r
    | QTake rg :: r => Old (TT rg) :: to_trd r
    | QDistinct :: r => TD :: to_trd r
    | _ :: r => to_trd r
    end.

  Notation supported := (SelectPluck.supported (row -> bool) cmp agg range unit).
  Notation one_agg := (SelectPluck.one_agg (row -> bool) cmp agg range unit).
  Notation sorts_behind_agg := (SelectPluck.sorts_behind_agg (row -> bool) cmp agg range unit).

  Fixpoint fsl (p : list pt) : list (Theta2.fs row) :=
    match p with
    | [] => []
    | QFilter f :: r => FF f :: fsl r
    | QSort c :: r => SS c :: fsl r
    | _ :: r => fsl r
    end.

  Lemma preds_fsl p r : Theta2.preds row (fsl p) r = conj (filters p) r.
  Proof.
    unfold Theta2.preds, conj. induction p as [|t p IH]; [reflexivity|].
    destruct t; cbn [fsl SelectPluck.filters flat_map app forallb]; try exact IH.
    - rewrite IH. reflexivity.
  Qed.

  Lemma last_opt_cons {A} (x : A) l : last_opt (x :: l) = match last_opt l with Some y => Some y | None => Some x end.
  Proof.
    unfold last_opt. cbn [rev]. destruct (rev l) as [|y t] eqn:E; reflexivity.
  Qed.

  Lemma last_sort_fsl p : Theta2.last_sort row (fsl p) = last_opt (sorts p).
  Proof.
    induction p as [|t p IH]; [reflexivity|].
    destruct t; cbn [fsl Theta2.last_sort]; try exact IH.
    change (sorts (QSort s :: p)) with (s :: sorts p). rewrite last_opt_cons, <- IH. reflexivity.
  Qed.

  Lemma takes_assemble p : Theta2.takes row (assemble (strip (to_trd p))) = qtakes p.
  Proof.
    induction p as [|t p IH]; [reflexivity|].
    destruct t; cbn [to_trd SegmentDistinct.strip SegmentSound.assemble Theta2.takes SelectPluck.takes flat_map app]; try exact IH.
    rewrite IH. reflexivity.
  Qed.

  Lemma has_d_to_trd p : has_d (to_trd p) = existsb (fun t : pt => match t with QDistinct => true | _ => false end) p.
  Proof.
    induction p as [|t p IH]; [reflexivity|].
    destruct t; cbn [to_trd SegmentDistinct.has_d existsb orb]; try exact IH.
    reflexivity.
  Qed.

  Lemma no_agg_break p : aggregates p = [] -> supported p = true -> break_up p = (p, []).
  Proof.
    induction p as [|t p IH]; intros Ha Hs; [reflexivity|].
    cbn [SelectPluck.supported forallb] in Hs. apply andb_true_iff in Hs as [Ht Hs].
    destruct t; cbn [SelectPluck.aggregates flat_map app] in Ha; try discriminate; try discriminate Ht;
      cbn [SelectPluck.break_up SelectPluck.breaks]; rewrite (IH Ha Hs); reflexivity.
  Qed.

  Lemma pre_no_agg p : aggregates p = [] -> Theta2.pre row (assemble (strip (to_trd p))) = fsl p /\
                                         Theta2.aggr row (assemble (strip (to_trd p))) = None.
  Proof.
    induction p as [|t p IH]; intro Ha; [split; reflexivity|].
    destruct t; cbn [SelectPluck.aggregates flat_map app] in Ha; try discriminate;
      cbn [to_trd SegmentDistinct.strip SegmentSound.assemble Theta2.pre Theta2.aggr fsl];
      destruct (IH Ha) as [I1 I2]; try (split; assumption); rewrite I1; split; try reflexivity; exact I2.
  Qed.

  (* pre / aggr of the assembled SELECT in terms of the code's break_up *)
  Lemma assemble_break p : supported p = true -> one_agg p = true ->
    let '(b, a) := break_up p in
    Theta2.pre row (assemble (strip (to_trd p))) = fsl b /\
    match a with
    | QAggregate g :: a' => Theta2.aggr row (assemble (strip (to_trd p))) = Some (g, fsl a') /\ aggregates a' = []
    | [] => Theta2.aggr row (assemble (strip (to_trd p))) = None
    | _ => False
    end.
  Proof.
    induction p as [|t p IH]; intros Hs H1; [split; reflexivity|].
    cbn [SelectPluck.supported forallb] in Hs. apply andb_true_iff in Hs as [Ht Hs].
    destruct t; try discriminate Ht; cbn [SelectPluck.break_up SelectPluck.breaks].
    1-5, 7-8:
      (assert (H1' : one_agg p = true) by exact H1;
       specialize (IH Hs H1'); destruct (break_up p) as [b a];
       cbn [to_trd SegmentDistinct.strip SegmentSound.assemble Theta2.pre Theta2.aggr fsl];
       destruct IH as [I1 I2]; split; [try (rewrite I1; reflexivity); exact I1 | exact I2]).
    (* the first Aggregate *)
    unfold SelectPluck.one_agg in H1. change (aggregates (QAggregate g :: p)) with (g :: aggregates p) in H1.
    assert (Ha : aggregates p = []) by (destruct (aggregates p); [reflexivity | cbn in H1; discriminate H1]).
    cbn [to_trd SegmentDistinct.strip SegmentSound.assemble Theta2.pre Theta2.aggr fsl].
    destruct (pre_no_agg p Ha) as [P1 _]. rewrite P1. repeat split. exact Ha.
  Qed.

  Lemma sorts_app a b : sorts (a ++ b) = sorts a ++ sorts b.
  Proof. unfold SelectPluck.sorts. apply flat_map_app. Qed.

  Lemma break_up_app p : let '(b, a) := break_up p in p = b ++ a.
  Proof.
    induction p as [|t p IH]; [reflexivity|]. cbn [SelectPluck.break_up].
    destruct (SelectPluck.breaks _ _ _ _ _ t); [reflexivity|].
    destruct (break_up p) as [b a]. cbn [app]. rewrite <- IH. reflexivity.
  Qed.

  Theorem pluck_is_assemble p : supported p = true -> one_agg p = true -> sorts_behind_agg p = true ->
    forall base, sem_clauses (pluck p) base =
                 SegmentDistinct.sem_select_d row eqb (assemble (strip (to_trd p))) (has_d (to_trd p)) base.
  Proof.
    intros Hs H1 Hb base.
    pose proof (assemble_break p Hs H1) as HA. pose proof (break_up_app p) as Hp.
    unfold SelectPluck.sorts_behind_agg in Hb. unfold SelectPluck.pluck, sem_clauses, SegmentDistinct.sem_select_d.
    destruct (break_up p) as [b a] eqn:Eb.
    cbn [q_where q_group q_having q_order q_takes q_distinct].
    rewrite takes_assemble, has_d_to_trd.
    destruct HA as [Hpre Hag]. rewrite Hpre.
    rewrite (filter_ext' row _ _ base (fun r => preds_fsl b r)).
    destruct a as [|t a'].
    - (* no aggregate *)
      rewrite Hag. cbn [SelectPluck.aggregates flat_map hd_error].
      rewrite app_nil_r in Hp. subst b. rewrite last_sort_fsl. reflexivity.
    - destruct t; try contradiction. destruct Hag as [Hag Ha']. rewrite Hag.
      cbn [SelectPluck.aggregates flat_map app hd_error].
      assert (Hf : filters (QAggregate g :: a') = filters a') by reflexivity. rewrite Hf.
      rewrite (filter_ext' row _ _ _ (fun r => preds_fsl a' r)).
      destruct (sorts b) eqn:Esb; [|discriminate].
      assert (Hso : sorts p = sorts a').
      { rewrite Hp, sorts_app, Esb. reflexivity. }
      rewrite Hso, last_sort_fsl. reflexivity.
  Qed.

  (* ---- composed with Theta-2: a clause-ordered atomic pipeline means what its SELECT means ---- *)
  Theorem pluck_sound p : supported p = true -> sorts_behind_agg p = true ->
    Forall (SegmentDistinct.good_d row) (to_trd p) ->
    clause_ordered (map (SegmentDistinct.kind_d row) (to_trd p)) = true ->
    one_agg p = true ->
    forall base, sem_clauses (pluck p) base = SegmentDistinct.run_d row eqb (to_trd p) base.
  Proof.
    intros Hs Hb Hg Hc H1 base. rewrite (pluck_is_assemble p Hs H1 Hb base).
    apply (SegmentDistinct.segment_d_sound row eqb eqb_spec); assumption.
  Qed.
End PS.

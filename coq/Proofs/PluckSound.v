(* The clause assembly of translate_select_pipeline (Model/SelectPluck.v: plucking by kind) yields -- read as SQL clauses --
   the SELECT that Theta-2's `assemble` builds from the same segment; hence (SegmentDistinct.segment_d_sound) a clause-ordered
   atomic pipeline is translated into a SELECT that returns what the pipeline returns transform by transform. *)
From Coq Require Import List Bool Arith Lia Permutation Sorting.Sorted.
From PV Require Import Model.SplitBase Model.SelectPluck Proofs.Theta2 Proofs.SegmentSound Proofs.SegmentDistinct.
Import ListNotations.

Section PS.
  Variable row : Type.
  Variable eqb : row -> row -> bool.
  Hypothesis eqb_spec : forall x y, eqb x y = true <-> x = y.

  Notation rel := (Theta2.rel row).
  Notation cmp := (Theta2.cmp row).
  Notation agg := (Theta2.agg row).
  Notation range := Theta2.range.
  Notation pt := (SelectPluck.pt (row -> bool) cmp agg range unit).
  Notation clauses := (SelectPluck.clauses (row -> bool) cmp agg range unit).
  Notation pluck := (SelectPluck.pluck (row -> bool) cmp agg range unit).
  Notation break_up := (SelectPluck.break_up (row -> bool) cmp agg range unit).
  Notation filters := (SelectPluck.filters (row -> bool) cmp agg range unit).
  Notation sorts := (SelectPluck.sorts (row -> bool) cmp agg range unit).
  Notation qtakes := (SelectPluck.takes (row -> bool) cmp agg range unit).
  Notation aggregates := (SelectPluck.aggregates (row -> bool) cmp agg range unit).
  Notation trd := (SegmentDistinct.trd row).
  Notation Old := (SegmentDistinct.Old row).
  Notation TD := (SegmentDistinct.TD row).
  Notation TF := (SegmentSound.TF row).
  Notation TS := (SegmentSound.TS row).
  Notation TA := (SegmentSound.TA row).
  Notation TT := (SegmentSound.TT row).
  Notation assemble := (SegmentSound.assemble row).
  Notation strip := (SegmentDistinct.strip row).
  Notation has_d := (SegmentDistinct.has_d row).
  Notation dd := (SegmentDistinct.dd row eqb).
  Notation FF := (Theta2.F row).
  Notation SS := (Theta2.S row).

  (* ---- the SELECT the plucked clauses denote: WHERE, [GROUP BY + HAVING], DISTINCT, ORDER BY, LIMIT/OFFSET ---- *)
  Definition conj (fs : list (row -> bool)) : row -> bool := fun r => forallb (fun f => f r) fs.
  Definition sem_clauses (c : clauses) (base : rel) : rel :=
    let r1 := filter (conj (q_where _ _ _ _ _ c)) base in
    let r2 := match q_group _ _ _ _ _ c with Some g => filter (conj (q_having _ _ _ _ _ c)) (g r1) | None => r1 end in
    Theta2.take_range row (Theta2.compose_all (q_takes _ _ _ _ _ c))
      (Theta2.sort_opt row (q_order _ _ _ _ _ c) (if q_distinct _ _ _ _ _ c then dd r2 else r2)).

  (* ---- the segment as Theta-2 sees it ---- *)
  Fixpoint to_trd (p : list pt) : list trd :=
    match p with
    | [] => []
    | QFilter f :: r => Old (TF f) :: to_trd r
    | QSort c :: r => Old (TS c) :: to_trd r
    | QAggregate g :: r => Old (TA g) :: to_trd r
    | QTake rg :: r => Old (TT rg) :: to_trd r
    | QDistinct :: r => TD :: to_trd r
    | _ :: r => to_trd r
    end.

  Notation supported := (SelectPluck.supported (row -> bool) cmp agg range unit).
  Notation one_agg := (SelectPluck.one_agg (row -> bool) cmp agg range unit).
  Notation sorts_behind_agg := (SelectPluck.sorts_behind_agg (row -> bool) cmp agg range unit).

  Fixpoint fsl (p : list pt) : list (Theta2.fs row) :=
    match p with
    | [] => []
    | QFilter f :: r => FF f :: fsl r
    | QSort c :: r => SS c :: fsl r
    | _ :: r => fsl r
    end.

  Lemma preds_fsl p r : Theta2.preds row (fsl p) r = conj (filters p) r.
  Proof.
    unfold Theta2.preds, conj. induction p as [|t p IH]; [reflexivity|].
    destruct t; cbn [fsl SelectPluck.filters flat_map app forallb]; try exact IH.
    - rewrite IH. reflexivity.
  Qed.

  Lemma last_opt_cons {A} (x : A) l : last_opt (x :: l) = match last_opt l with Some y => Some y | None => Some x end.
  Proof.
    unfold last_opt. cbn [rev]. destruct (rev l) as [|y t] eqn:E; reflexivity.
  Qed.

  Lemma last_sort_fsl p : Theta2.last_sort row (fsl p) = last_opt (sorts p).
  Proof.
    induction p as [|t p IH]; [reflexivity|].
    destruct t; cbn [fsl Theta2.last_sort]; try exact IH.
    change (sorts (QSort s :: p)) with (s :: sorts p). rewrite last_opt_cons, <- IH. reflexivity.
  Qed.

  Lemma takes_assemble p : Theta2.takes row (assemble (strip (to_trd p))) = qtakes p.
  Proof.
    induction p as [|t p IH]; [reflexivity|].
    destruct t; cbn [to_trd SegmentDistinct.strip SegmentSound.assemble Theta2.takes SelectPluck.takes flat_map app]; try exact IH.
    rewrite IH. reflexivity.
  Qed.

  Lemma has_d_to_trd p : has_d (to_trd p) = existsb (fun t : pt => match t with QDistinct => true | _ => false end) p.
  Proof.
    induction p as [|t p IH]; [reflexivity|].
    destruct t; cbn [to_trd SegmentDistinct.has_d existsb orb]; try exact IH.
    reflexivity.
  Qed.

  Lemma no_agg_break p : aggregates p = [] -> supported p = true -> break_up p = (p, []).
  Proof.
    induction p as [|t p IH]; intros Ha Hs; [reflexivity|].
    cbn [SelectPluck.supported forallb] in Hs. apply andb_true_iff in Hs as [Ht Hs].
    destruct t; cbn [SelectPluck.aggregates flat_map app] in Ha; try discriminate; try discriminate Ht;
      cbn [SelectPluck.break_up SelectPluck.breaks]; rewrite (IH Ha Hs); reflexivity.
  Qed.

  Lemma pre_no_agg p : aggregates p = [] -> Theta2.pre row (assemble (strip (to_trd p))) = fsl p /\
                                         Theta2.aggr row (assemble (strip (to_trd p))) = None.
  Proof.
    induction p as [|t p IH]; intro Ha; [split; reflexivity|].
    destruct t; cbn [SelectPluck.aggregates flat_map app] in Ha; try discriminate;
      cbn [to_trd SegmentDistinct.strip SegmentSound.assemble Theta2.pre Theta2.aggr fsl];
      destruct (IH Ha) as [I1 I2]; try (split; assumption); rewrite I1; split; try reflexivity; exact I2.
  Qed.

  (* pre / aggr of the assembled SELECT in terms of the code's break_up *)
  Lemma assemble_break p : supported p = true -> one_agg p = true ->
    let '(b, a) := break_up p in
    Theta2.pre row (assemble (strip (to_trd p))) = fsl b /\
    match a with
    | QAggregate g :: a' => Theta2.aggr row (assemble (strip (to_trd p))) = Some (g, fsl a') /\ aggregates a' = []
    | [] => Theta2.aggr row (assemble (strip (to_trd p))) = None
    | _ => False
    end.
  Proof.
    induction p as [|t p IH]; intros Hs H1; [split; reflexivity|].
    cbn [SelectPluck.supported forallb] in Hs. apply andb_true_iff in Hs as [Ht Hs].
    destruct t; try discriminate Ht; cbn [SelectPluck.break_up SelectPluck.breaks].
    1-5, 7-8:
      (assert (H1' : one_agg p = true) by exact H1;
       specialize (IH Hs H1'); destruct (break_up p) as [b a];
       cbn [to_trd SegmentDistinct.strip SegmentSound.assemble Theta2.pre Theta2.aggr fsl];
       destruct IH as [I1 I2]; split; [try (rewrite I1; reflexivity); exact I1 | exact I2]).
    (* the first Aggregate *)
    unfold SelectPluck.one_agg in H1. change (aggregates (QAggregate g :: p)) with (g :: aggregates p) in H1.
    assert (Ha : aggregates p = []) by (destruct (aggregates p); [reflexivity | cbn in H1; discriminate H1]).
    cbn [to_trd SegmentDistinct.strip SegmentSound.assemble Theta2.pre Theta2.aggr fsl].
    destruct (pre_no_agg p Ha) as [P1 _]. rewrite P1. repeat split. exact Ha.
  Qed.

  Lemma sorts_app a b : sorts (a ++ b) = sorts a ++ sorts b.
  Proof. unfold SelectPluck.sorts. apply flat_map_app. Qed.

  Lemma break_up_app p : let '(b, a) := break_up p in p = b ++ a.
  Proof.
    induction p as [|t p IH]; [reflexivity|]. cbn [SelectPluck.break_up].
    destruct (SelectPluck.breaks _ _ _ _ _ t); [reflexivity|].
    destruct (break_up p) as [b a]. cbn [app]. rewrite <- IH. reflexivity.
  Qed.

  Theorem pluck_is_assemble p : supported p = true -> one_agg p = true -> sorts_behind_agg p = true ->
    forall base, sem_clauses (pluck p) base =
                 SegmentDistinct.sem_select_d row eqb (assemble (strip (to_trd p))) (has_d (to_trd p)) base.
  Proof.
    intros Hs H1 Hb base.
    pose proof (assemble_break p Hs H1) as HA. pose proof (break_up_app p) as Hp.
    unfold SelectPluck.sorts_behind_agg in Hb. unfold SelectPluck.pluck, sem_clauses, SegmentDistinct.sem_select_d.
    destruct (break_up p) as [b a] eqn:Eb.
    cbn [q_where q_group q_having q_order q_takes q_distinct].
    rewrite takes_assemble, has_d_to_trd.
    destruct HA as [Hpre Hag]. rewrite Hpre.
    rewrite (filter_ext' row _ _ base (fun r => preds_fsl b r)).
    destruct a as [|t a'].
    - (* no aggregate *)
      rewrite Hag. cbn [SelectPluck.aggregates flat_map hd_error].
      rewrite app_nil_r in Hp. subst b. rewrite last_sort_fsl. reflexivity.
    - destruct t; try contradiction. destruct Hag as [Hag Ha']. rewrite Hag.
      cbn [SelectPluck.aggregates flat_map app hd_error].
      assert (Hf : filters (QAggregate g :: a') = filters a') by reflexivity. rewrite Hf.
      rewrite (filter_ext' row _ _ _ (fun r => preds_fsl a' r)).
      destruct (sorts b) eqn:Esb; [|discriminate].
      assert (Hso : sorts p = sorts a').
      { rewrite Hp, sorts_app, Esb. reflexivity. }
      rewrite Hso, last_sort_fsl. reflexivity.
  Qed.

  (* ---- composed with Theta-2: a clause-ordered atomic pipeline means what its SELECT means ---- *)
  Theorem pluck_sound p : supported p = true -> sorts_behind_agg p = true ->
    Forall (SegmentDistinct.good_d row) (to_trd p) ->
    clause_ordered (map (SegmentDistinct.kind_d row) (to_trd p)) = true ->
    one_agg p = true ->
    forall base, sem_clauses (pluck p) base = SegmentDistinct.run_d row eqb (to_trd p) base.
  Proof.
    intros Hs Hb Hg Hc H1 base. rewrite (pluck_is_assemble p Hs H1 Hb base).
    apply (SegmentDistinct.segment_d_sound row eqb eqb_spec); assumption.
  Qed.

  Lemma kinds_theta_spec p : map (SegmentDistinct.kind_d row) (to_trd p) = SelectPluck.kinds_theta (row -> bool) cmp agg range unit p.
  Proof.
    induction p as [|t p IH]; [reflexivity|].
    destruct t; cbn [to_trd map SelectPluck.kinds_theta flat_map app SegmentDistinct.kind_d SegmentSound.kind_of]; try exact IH;
      f_equal; exact IH.
  Qed.

  (* ================= re-emitted sorts ================= *)
  Variable same : cmp -> cmp -> bool.
  Hypothesis same_spec : forall a b, same a b = true -> a = b.
  Notation drop := (SelectPluck.drop_resorts (row -> bool) cmp agg range unit same).
  Notation run_d := (SegmentDistinct.run_d row eqb).
  Notation le := (Theta2.le row).

  Lemma isort_sorted_id c (G : Theta2.good row c) l : StronglySorted (le c) l -> Theta2.isort row c l = l.
  Proof.
    intro H. apply (Theta2.sorted_perm_unique row c G); [apply Theta2.isort_sorted, G | exact H | apply Theta2.isort_perm].
  Qed.

  Lemma skipn_sorted (R : row -> row -> Prop) n : forall l, StronglySorted R l -> StronglySorted R (skipn n l).
  Proof.
    induction n as [|n IH]; intros l H; [exact H|]. destruct l as [|a t]; [exact H|].
    cbn [skipn]. apply IH. inversion H; assumption.
  Qed.
  Lemma firstn_sorted (R : row -> row -> Prop) n : forall l, StronglySorted R l -> StronglySorted R (firstn n l).
  Proof.
    induction n as [|n IH]; intros l H; [constructor|]. destruct l as [|a t]; [constructor|].
    cbn [firstn]. inversion H as [|? ? Ht Ha]; subst. constructor; [apply IH, Ht|].
    rewrite Forall_forall in *. intros x Hx. apply Ha. revert Hx. clear. revert t. induction n as [|n IHn]; intros t Hx; [destruct Hx|]. destruct t as [|b t]; [destruct Hx|]. destruct Hx as [<-|Hx]; [left; reflexivity | right; apply IHn, Hx].
  Qed.
  Lemma take_sorted c rg l : StronglySorted (le c) l -> StronglySorted (le c) (Theta2.take_range row rg l).
  Proof.
    intro H. destruct rg as [st [e|]]; cbn [Theta2.take_range]; [apply firstn_sorted|]; apply skipn_sorted, H.
  Qed.

  (* the sort in effect: l is sorted by it *)
  Definition in_effect (cur : option cmp) (l : rel) : Prop :=
    match cur with Some c => Theta2.good row c /\ StronglySorted (le c) l | None => True end.

  Lemma run_d_cons t r l : run_d (t :: r) l = run_d r (SegmentDistinct.apply_d row eqb t l).
  Proof. reflexivity. Qed.

  (* dropping the re-emitted sorts does not change what the pipeline returns *)
  Theorem drop_resorts_run : forall p cur l, in_effect cur l -> (forall c, In c (sorts p) -> Theta2.good row c) ->
    run_d (to_trd (drop cur p)) l = run_d (to_trd p) l.
  Proof.
    induction p as [|t p IH]; intros cur l Hi Hg; [reflexivity|].
    assert (Hg' : forall c, In c (sorts p) -> Theta2.good row c).
    { intros c Hc. apply Hg. destruct t; cbn [SelectPluck.sorts flat_map app]; try exact Hc. right. exact Hc. }
    destruct t as [ | | |f|sk|g|rg| |d| | ]; cbn [SelectPluck.drop_resorts to_trd].
    - apply IH; assumption.
    - apply IH; assumption.
    - apply IH; assumption.
    - (* filter *) rewrite !run_d_cons. apply IH; [|exact Hg'].
      destruct cur as [c|]; [|exact I]. destruct Hi as [G Hs]. split; [exact G | exact (Theta2.filter_sorted row c f l Hs)].
    - (* sort *)
      assert (Gs : Theta2.good row sk) by (apply Hg; left; reflexivity).
      assert (Hnew : in_effect (Some sk) (Theta2.isort row sk l)) by (split; [exact Gs | apply Theta2.isort_sorted, Gs]).
      destruct cur as [c|].
      + destruct (same c sk) eqn:E.
        * apply same_spec in E. subst sk. destruct Hi as [G Hs].
          cbn [to_trd]. rewrite run_d_cons. cbn [SegmentDistinct.apply_d SegmentSound.apply_tr].
          rewrite (isort_sorted_id c G l Hs). apply IH; [split; assumption | exact Hg'].
        * cbn [to_trd]. rewrite !run_d_cons. apply IH; [exact Hnew | exact Hg'].
      + cbn [to_trd]. rewrite !run_d_cons. apply IH; [exact Hnew | exact Hg'].
    - (* aggregate *) rewrite !run_d_cons. apply IH; [exact I | exact Hg'].
    - (* take *) rewrite !run_d_cons. apply IH; [|exact Hg'].
      destruct cur as [c|]; [|exact I]. destruct Hi as [G Hs]. split; [exact G | exact (take_sorted c rg l Hs)].
    - (* distinct *) rewrite !run_d_cons. apply IH; [|exact Hg'].
      destruct cur as [c|]; [|exact I]. destruct Hi as [G Hs]. split; [exact G | exact (SegmentDistinct.dd_sorted row eqb eqb_spec c l Hs)].
    - apply IH; [exact I | exact Hg'].
    - apply IH; [exact I | exact Hg'].
    - apply IH; [exact I | exact Hg'].
  Qed.

  (* ... and the plucked clauses are the same.  drop_resorts only deletes Sorts: *)
  Inductive del_sorts : list pt -> list pt -> Prop :=
  | ds_nil : del_sorts [] []
  | ds_keep t q p : del_sorts q p -> del_sorts (t :: q) (t :: p)
  | ds_drop sk q p : del_sorts q p -> del_sorts q (QSort sk :: p).

  Lemma drop_del : forall p cur, del_sorts (drop cur p) p.
  Proof.
    induction p as [|t p IH]; intro cur; [constructor|].
    destruct t as [ | | |f|sk|g|rg| |d| | ]; cbn [SelectPluck.drop_resorts]; try (apply ds_keep, IH).
    destruct cur as [c|]; [destruct (same c sk)|]; [apply ds_drop, IH | apply ds_keep, IH | apply ds_keep, IH].
  Qed.

  Lemma del_break q p : del_sorts q p ->
    del_sorts (fst (break_up q)) (fst (break_up p)) /\ del_sorts (snd (break_up q)) (snd (break_up p)).
  Proof.
    induction 1 as [|t q p H IH|sk q p H IH]; [split; constructor| |].
    - cbn [SelectPluck.break_up]. destruct (SelectPluck.breaks _ _ _ _ _ t).
      + split; [constructor | apply ds_keep, H].
      + destruct (break_up q) as [b a], (break_up p) as [b' a']. cbn [fst snd] in *. destruct IH. split; [apply ds_keep|]; assumption.
    - cbn [SelectPluck.break_up SelectPluck.breaks].
      destruct (break_up q) as [b a], (break_up p) as [b' a']. cbn [fst snd] in *. destruct IH. split; [apply ds_drop|]; assumption.
  Qed.

  Lemma del_filters q p : del_sorts q p -> filters q = filters p.
  Proof. induction 1 as [|t q p H IH|sk q p H IH]; [reflexivity| |exact IH]. destruct t; cbn [SelectPluck.filters flat_map app]; rewrite ?IH; exact IH || (f_equal; exact IH) || reflexivity. Qed.
  Lemma del_aggregates q p : del_sorts q p -> aggregates q = aggregates p.
  Proof. induction 1 as [|t q p H IH|sk q p H IH]; [reflexivity| |exact IH]. destruct t; cbn [SelectPluck.aggregates flat_map app]; exact IH || (f_equal; exact IH). Qed.
  Lemma del_takes q p : del_sorts q p -> qtakes q = qtakes p.
  Proof. induction 1 as [|t q p H IH|sk q p H IH]; [reflexivity| |exact IH]. destruct t; cbn [SelectPluck.takes flat_map app]; exact IH || (f_equal; exact IH). Qed.
  Lemma del_distinct q p : del_sorts q p ->
    existsb (fun t : pt => match t with QDistinct => true | _ => false end) q = existsb (fun t : pt => match t with QDistinct => true | _ => false end) p.
  Proof. induction 1 as [|t q p H IH|sk q p H IH]; [reflexivity| |exact IH]. cbn [existsb]. rewrite IH. reflexivity. Qed.

  (* the last Sort keeps its key *)
  Definition lastc (cur o : option cmp) : option cmp := match o with Some y => Some y | None => cur end.
  Lemma lastc_none a b : lastc None a = lastc None b -> a = b.
  Proof. destruct a, b; cbn; congruence. Qed.
  Lemma drop_last : forall p cur, lastc cur (last_opt (sorts (drop cur p))) = lastc cur (last_opt (sorts p)).
  Proof.
    induction p as [|t p IH]; intro cur; [reflexivity|].
    destruct t as [ | | |f|sk|g|rg| |d| | ]; cbn [SelectPluck.drop_resorts];
      try (change (sorts (?x :: ?y)) with (sorts y); apply IH).
    - (* sort *)
      change (sorts (QSort sk :: p)) with (sk :: sorts p). rewrite last_opt_cons.
      destruct cur as [c|]; [destruct (same c sk) eqn:E|].
      + apply same_spec in E. subst sk. rewrite (IH (Some c)). unfold lastc. destruct (last_opt (sorts p)); reflexivity.
      + change (sorts (QSort sk :: drop (Some sk) p)) with (sk :: sorts (drop (Some sk) p)). rewrite last_opt_cons.
        specialize (IH (Some sk)). unfold lastc in *. destruct (last_opt (sorts (drop (Some sk) p))), (last_opt (sorts p)); congruence.
      + change (sorts (QSort sk :: drop (Some sk) p)) with (sk :: sorts (drop (Some sk) p)). rewrite last_opt_cons.
        specialize (IH (Some sk)). unfold lastc in *. destruct (last_opt (sorts (drop (Some sk) p))), (last_opt (sorts p)); congruence.
    - change (sorts (QAggregate g :: drop None p)) with (sorts (drop None p)). change (sorts (QAggregate g :: p)) with (sorts p).
      rewrite (lastc_none _ _ (IH None)). reflexivity.
    - change (sorts (QDistinctOn d :: drop None p)) with (sorts (drop None p)). change (sorts (QDistinctOn d :: p)) with (sorts p).
      rewrite (lastc_none _ _ (IH None)). reflexivity.
    - change (sorts (QUnion :: drop None p)) with (sorts (drop None p)). change (sorts (QUnion :: p)) with (sorts p).
      rewrite (lastc_none _ _ (IH None)). reflexivity.
    - change (sorts (QOther :: drop None p)) with (sorts (drop None p)). change (sorts (QOther :: p)) with (sorts p).
      rewrite (lastc_none _ _ (IH None)). reflexivity.
  Qed.

  Theorem drop_resorts_pluck p base : sem_clauses (pluck (drop None p)) base = sem_clauses (pluck p) base.
  Proof.
    pose proof (drop_del p None) as Hd. destruct (del_break _ _ Hd) as [Hb Ha].
    pose proof (lastc_none _ _ (drop_last p None)) as Ho.
    unfold SelectPluck.pluck.
    destruct (break_up (drop None p)) as [b a], (break_up p) as [b' a']. cbn [fst snd] in *.
    unfold sem_clauses. cbn [q_where q_group q_having q_order q_takes q_distinct].
    rewrite (del_filters _ _ Hb), (del_filters _ _ Ha), (del_aggregates _ _ Ha), (del_takes _ _ Hd), (del_distinct _ _ Hd).
    rewrite Ho. reflexivity.
  Qed.

  Lemma del_incl q p : del_sorts q p -> incl (to_trd q) (to_trd p).
  Proof.
    induction 1 as [|t q p H IH|sk q p H IH]; [intros x []| |].
    - destruct t; cbn [to_trd]; try exact IH; (intros x [<-|Hx]; [left; reflexivity | right; apply IH, Hx]).
    - cbn [to_trd]. intros x Hx. right. apply IH, Hx.
  Qed.

  (* the theorem for real pipelines: the hypotheses are asked of the pipeline WITHOUT its re-emitted sorts *)
  Theorem pluck_sound_resorted p : 
    supported (drop None p) = true -> sorts_behind_agg (drop None p) = true ->
    Forall (SegmentDistinct.good_d row) (to_trd p) ->
    clause_ordered (map (SegmentDistinct.kind_d row) (to_trd (drop None p))) = true ->
    one_agg (drop None p) = true ->
    forall base, sem_clauses (pluck p) base = run_d (to_trd p) base.
  Proof.
    intros Hs Hb Hg Hc H1 base.
    assert (Hgs : forall c, In c (sorts p) -> Theta2.good row c).
    { clear -Hg. induction p as [|t p IH]; intros c Hc; [destruct Hc|].
      destruct t as [ | | |f|sk|g|rg| |d| | ]; cbn [to_trd] in Hg; cbn [SelectPluck.sorts flat_map app] in Hc;
        try (apply IH; [exact Hg | exact Hc]); try (inversion Hg; subst; apply IH; assumption).
      inversion Hg as [|? ? Hx Hr]; subst. destruct Hc as [<-|Hc]; [exact Hx | apply IH; assumption]. }
    rewrite <- (drop_resorts_pluck p base), <- (drop_resorts_run p None base I Hgs).
    apply (pluck_sound (drop None p) Hs Hb); try assumption.
    (* goodness of the remaining transforms *)
    rewrite Forall_forall in *. intros x Hx. apply Hg. exact (del_incl _ _ (drop_del p None) x Hx).
  Qed.
End PS.

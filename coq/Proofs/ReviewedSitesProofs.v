(* C12: none of the sites restated in Model/ReviewedSites.v can fire. *)
From Coq Require Import List Arith Bool Lia.
From PV Require Import Model.Checked Model.ReviewedSites Proofs.CheckedProofs.
Import ListNotations.

Lemma slice_to_ret {A} (l : list A) n : n <= length l -> slice_to l n = Ret (firstn n l).
Proof.
  intro H. unfold slice_to, slice. cbn [Nat.leb andb]. apply Nat.leb_le in H. rewrite H.
  rewrite Nat.sub_0_r. reflexivity.
Qed.

Lemma rel_lookup_total {A} (found : ident A -> bool) mpath i : forall n,
  n <= length mpath -> rel_lookup found mpath n i <> Panic.
Proof.
  induction n as [|n IH]; intro H; cbn [rel_lookup]; [discriminate|].
  rewrite slice_to_ret by exact H. cbn [bind].
  destruct (found (prepend i (firstn (S n) mpath))); [discriminate|]. apply IH. lia.
Qed.

Theorem resolve_relative_total_lemma {A} (found : ident A -> bool) module_path i :
  resolve_relative found module_path i <> Panic.
Proof. unfold resolve_relative. apply rel_lookup_total. lia. Qed.

Lemma core_walk_total {A} (ok : ident A -> bool) mpath i : forall n res,
  n <= length mpath -> core_walk ok mpath n i res <> Panic.
Proof.
  induction n as [|n IH]; intros res H; cbn [core_walk]; [discriminate|].
  destruct (snd res); [discriminate|].
  rewrite slice_to_ret by lia. cbn [bind]. apply IH. lia.
Qed.

Theorem resolve_core_relative_total_lemma {A} (ok : ident A -> bool) module_path i :
  resolve_core_relative ok module_path i <> Panic.
Proof. unfold resolve_core_relative. apply core_walk_total. lia. Qed.

Theorem two_args_total_lemma {A} (args : list A) : two_args args <> Panic.
Proof.
  unfold two_args. destruct (Nat.eqb (length args) 2) eqn:E; [|discriminate]. apply Nat.eqb_eq in E.
  destruct args as [|a [|b [|c t]]]; cbn [length] in E; try lia. cbn. discriminate.
Qed.

Theorem rest_behind_total_lemma {A} (pipeline : list A) position :
  position < length pipeline -> rest_behind pipeline position <> Panic.
Proof. intro H. unfold rest_behind, slice_from. apply slice_total. lia. Qed.

Theorem table_at_total_lemma {A B} (pipeline : list A) (table : list B) position :
  length table = length pipeline -> position < length pipeline -> table_at pipeline table position <> Panic.
Proof. intros H1 H2. unfold table_at. apply index_total. lia. Qed.

Theorem lookup_cid_name_total_lemma {A} (v : A) : lookup_cid_name v = Ret (Some v).
Proof. reflexivity. Qed.

(* C12: none of the sites restated in Model/ReviewedSites.v can fire. *)
From Coq Require Import List Arith Bool Lia.
From PV Require Import Model.Checked Model.ReviewedSites Proofs.CheckedProofs.
Import ListNotations.

Lemma rel_lookup_total {A} (found : ident A -> bool) : forall k rel,
  k <= length (path rel) -> rel_lookup found k rel <> Panic.
Proof.
  induction k as [|k IH]; intros rel H; cbn [rel_lookup]; [discriminate|].
  destruct (found rel); [discriminate|].
  unfold pop_front. destruct rel as [[|p ps] nm]; cbn [path length] in *; [lia|].
  cbn [snd unwrap bind]. apply IH. cbn [path]. lia.
Qed.

Theorem resolve_relative_total_lemma {A} (found : ident A -> bool) module_path i :
  resolve_relative found module_path i <> Panic.
Proof.
  unfold resolve_relative. apply rel_lookup_total. unfold prepend. cbn [path]. rewrite app_length. lia.
Qed.

Theorem two_args_total_lemma {A} (args : list A) : two_args args <> Panic.
Proof.
  unfold two_args. destruct (Nat.eqb (length args) 2) eqn:E; [|discriminate]. apply Nat.eqb_eq in E.
  destruct args as [|a [|b [|c t]]]; cbn [length] in E; try lia. cbn. discriminate.
Qed.

Theorem rest_behind_total_lemma {A} (pipeline : list A) position :
  position < length pipeline -> rest_behind pipeline position <> Panic.
Proof. intro H. unfold rest_behind, slice_from. apply slice_total. lia. Qed.

Theorem table_at_total_lemma {A B} (pipeline : list A) (table : list B) position :
  length table = length pipeline -> position < length pipeline -> table_at pipeline table position <> Panic.
Proof. intros H1 H2. unfold table_at. apply index_total. lia. Qed.

Theorem lookup_cid_name_total_lemma {A} (v : A) : lookup_cid_name v = Ret (Some v).
Proof. reflexivity. Qed.

(* Theta-2, rung 2 (prototype): plain Computes anywhere in a Filter/Sort/Take segment.
   Pipeline semantics adds a column at the Compute's position; SQL inlines the defining expression
   wherever the column is referenced.  We prove the two agree, observationally (through a projection). *)
From Coq Require Import List Arith Lia Bool.
Import ListNotations.

Section Computes.
Variable V : Type.
Variable opn : Type.
Variable evop : opn -> list V -> V.
Variable dflt : V.
Variable istrue : V -> bool.

Definition cid := nat.
Inductive expr := Col (c : cid) | Op (o : opn) (args : list expr).

Lemma expr_ind2 (P : expr -> Prop) :
  (forall c, P (Col c)) -> (forall o args, Forall P args -> P (Op o args)) -> forall e, P e.
Proof.
  intros HC HO. fix IH 1. intros [c|o args]; [apply HC|apply HO].
  induction args as [|a t IHt]; constructor; [apply IH|exact IHt].
Qed.

(* rows are association lists; the most recent binding wins *)
Definition row := list (cid * V).
Fixpoint lookup (r : row) (c : cid) : V :=
  match r with [] => dflt | (c', v) :: t => if Nat.eqb c' c then v else lookup t c end.

Fixpoint eval (r : row) (e : expr) : V :=
  match e with
  | Col c => lookup r c
  | Op o args => evop o (map (eval r) args)
  end.

Fixpoint subst (c : cid) (d : expr) (e : expr) : expr :=
  match e with
  | Col c' => if Nat.eqb c c' then d else Col c'
  | Op o args => Op o (map (subst c d) args)
  end.

Lemma subst_sound c d e r : eval r (subst c d e) = eval ((c, eval r d) :: r) e.
Proof.
  induction e as [c'|o args IH] using expr_ind2; cbn.
  - destruct (Nat.eqb c c'); reflexivity.
  - f_equal. rewrite map_map. induction IH as [|a t Ha Ht IHt]; cbn; [reflexivity|]. now rewrite Ha, IHt.
Qed.

(* column declarations in pipeline order; later ones may mention earlier ones *)
Definition decls := list (cid * expr).
Definition extend (D : decls) (r : row) : row :=
  fold_left (fun r cd => (fst cd, eval r (snd cd)) :: r) D r.
Definition inline (D : decls) (e : expr) : expr :=
  fold_left (fun acc cd => subst (fst cd) (snd cd) acc) (rev D) e.

Lemma extend_snoc D c d r : extend (D ++ [(c, d)]) r = (c, eval (extend D r) d) :: extend D r.
Proof. unfold extend. now rewrite fold_left_app. Qed.

Lemma inline_sound D : forall e r, eval r (inline D e) = eval (extend D r) e.
Proof.
  induction D as [|[c d] D IH] using rev_ind; intros e r; [reflexivity|].
  rewrite extend_snoc. unfold inline. rewrite rev_app_distr. cbn [rev app fold_left fst snd].
  fold (inline D (subst c d e)). rewrite IH. apply subst_sound.
Qed.

(* ---------- transforms ---------- *)
Definition cmpk := list V -> list V -> bool.     (* comparison of key tuples *)
Inductive range := Rg (s e : option nat).
Definition off_of (s : option nat) := match s with Some s => s - 1 | None => 0 end.
Definition take_range {A} (r : range) (l : list A) : list A :=
  match r with Rg s e => let l' := skipn (off_of s) l in
                         match e with Some e => firstn (e - off_of s) l' | None => l' end end.

Inductive tr := Cp (c : cid) (e : expr) | F (e : expr) | S (keys : list expr) (c : cmpk) | T (r : range).

Fixpoint insert {A} (le : A -> A -> bool) (x : A) (l : list A) : list A :=
  match l with [] => [x] | y :: t => if le x y then x :: l else y :: insert le x t end.
Fixpoint isort {A} (le : A -> A -> bool) (l : list A) : list A :=
  match l with [] => [] | x :: t => insert le x (isort le t) end.

Definition apply (t : tr) (l : list row) : list row :=
  match t with
  | Cp c e => map (fun r => (c, eval r e) :: r) l
  | F e => filter (fun r => istrue (eval r e)) l
  | S keys c => isort (fun x y => c (map (eval x) keys) (map (eval y) keys)) l
  | T rg => take_range rg l
  end.
Definition run (p : list tr) (l : list row) : list row := fold_left (fun l t => apply t l) p l.

(* the SQL view of the same segment: every expression is inlined w.r.t. the computes that precede it,
   and the transforms act on BASE rows *)
Fixpoint skeleton (D : decls) (p : list tr) : list tr * decls :=
  match p with
  | [] => ([], D)
  | Cp c e :: t => skeleton (D ++ [(c, e)]) t
  | F e :: t => let (k, D') := skeleton D t in (F (inline D e) :: k, D')
  | S keys c :: t => let (k, D') := skeleton D t in (S (map (inline D) keys) c :: k, D')
  | T rg :: t => let (k, D') := skeleton D t in (T rg :: k, D')
  end.

Lemma isort_map {A B} (f : A -> B) (le : B -> B -> bool) (l : list A) :
  isort le (map f l) = map f (isort (fun x y => le (f x) (f y)) l).
Proof.
  induction l as [|x t IH]; cbn; [reflexivity|]. rewrite IH. clear IH.
  induction (isort (fun x y => le (f x) (f y)) t) as [|y u IHu]; cbn; [reflexivity|].
  destruct (le (f x) (f y)); cbn; [reflexivity|]. now rewrite IHu.
Qed.

Lemma filter_map {A B} (f : A -> B) (p : B -> bool) (l : list A) :
  filter p (map f l) = map f (filter (fun x => p (f x)) l).
Proof. induction l as [|x t IH]; cbn; auto. destruct (p (f x)); cbn; now rewrite IH. Qed.

Lemma take_range_map {A B} (f : A -> B) rg (l : list A) : take_range rg (map f l) = map f (take_range rg l).
Proof. destruct rg as [s [e|]]; cbn; now rewrite <- ?firstn_map, <- ?skipn_map. Qed.

Lemma map_ext_in' {A B} (f g : A -> B) l : (forall x, f x = g x) -> map f l = map g l.
Proof. intros H. induction l; cbn; auto. now rewrite H, IHl. Qed.

(* main simulation: the pipeline on extended rows = extension of the skeleton on base rows *)
Theorem run_skeleton : forall p D base,
  run p (map (extend D) base) =
  let (k, D') := skeleton D p in map (extend D') (run k base).
Proof.
  induction p as [|t p IH]; intros D base; cbn [run fold_left skeleton]; [reflexivity|].
  destruct t as [c e|e|keys c|rg]; cbn [apply].
  - (* Compute *)
    rewrite map_map.
    rewrite (map_ext_in' (fun x => (c, eval (extend D x) e) :: extend D x) (extend (D ++ [(c, e)])))
      by (intros; now rewrite extend_snoc).
    apply IH.
  - (* Filter *)
    rewrite filter_map. fold (run p). rewrite IH.
    destruct (skeleton D p) as [k D'] eqn:E. cbn [run fold_left apply]. fold (run k).
    assert (Hf : filter (fun x => istrue (eval (extend D x) e)) base =
                 filter (fun r => istrue (eval r (inline D e))) base).
    { clear. induction base as [|b t IHb]; cbn; auto. rewrite inline_sound.
      destruct (istrue (eval (extend D b) e)); cbn; now rewrite IHb. }
    now rewrite Hf.
  - (* Sort *)
    rewrite isort_map. fold (run p). rewrite IH.
    destruct (skeleton D p) as [k D'] eqn:E. cbn [run fold_left apply]. fold (run k).
    assert (Hk : forall x, map (eval (extend D x)) keys = map (eval x) (map (inline D) keys)).
    { intros x. rewrite map_map. apply map_ext_in'. intros a. now rewrite inline_sound. }
    assert (Hs : isort (fun x y => c (map (eval (extend D x)) keys) (map (eval (extend D y)) keys)) base =
                 isort (fun x y => c (map (eval x) (map (inline D) keys)) (map (eval y) (map (inline D) keys))) base).
    { clear - Hk. induction base as [|b t IHb]; cbn; auto. rewrite IHb. clear IHb.
      induction (isort (fun x y => c (map (eval x) (map (inline D) keys)) (map (eval y) (map (inline D) keys))) t) as [|y u IHu];
        cbn; auto. rewrite !Hk. destruct (c _ _); cbn; auto. now rewrite IHu. }
    now rewrite Hs.
  - (* Take *)
    rewrite take_range_map. fold (run p). rewrite IH.
    destruct (skeleton D p) as [k D'] eqn:E. reflexivity.
Qed.

(* what a SELECT list observes: the requested columns, each as an inlined expression over base rows *)
Definition project (out : list cid) (r : row) : list V := map (lookup r) out.

Corollary observe p base out :
  map (project out) (run p base) =
  let (k, D') := skeleton [] p in
  map (fun b => map (fun c => eval b (inline D' (Col c))) out) (run k base).
Proof.
  pose proof (run_skeleton p [] base) as H. cbn [extend fold_left] in H.
  rewrite (map_ext_in' (extend []) (fun x => x)) in H by reflexivity. rewrite map_id in H. rewrite H.
  destruct (skeleton [] p) as [k D']. rewrite map_map. apply map_ext_in'. intros b.
  unfold project. apply map_ext_in'. intros c. now rewrite inline_sound.
Qed.

End Computes.

(* C17: the executable character classes of Model/LexerExec.v satisfy the hypothesis [class_ok] of the re-lex
   theorem (so the theorem is not vacuous, and the refutation witness lives in the same setting). *)
From Coq Require Import List NArith Bool Lia.
From PV Require Import Lib.ListX Model.Lexer Model.LexerExec Proofs.LexRelexDefs.
Import ListNotations.
Local Open Scope N_scope.

Lemma class_ok_exec : class_ok alpha_exec alnum_exec.
Proof.
  split; intros c H L.
  - unfold alpha_exec, alpha_ranges, in_ranges in H. chr_unfold. b2p. lia.
  - unfold alnum_exec, alpha_exec, alpha_ranges, numeric_ranges, in_ranges in H. chr_unfold. b2p. lia.
Qed.

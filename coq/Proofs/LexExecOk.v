(* C17: the executable character classes of Model/LexerExec.v satisfy the hypothesis [class_ok] of the re-lex
   theorem (so the theorem is not vacuous, and the refutation witness lives in the same setting). *)
From Coq Require Import List NArith Bool Lia.
From PV Require Import Lib.ListX Model.Lexer Model.LexerExec Proofs.LexRelexDefs.
Import ListNotations.
Local Open Scope N_scope.

Lemma class_ok_exec : class_ok alpha_exec alnum_exec.
Proof.
  (* decided on all 128 ASCII code points by computation (LexRelexDefs.ascii_all_spec) *)
  split; intros c H L.
  - pose proof (ascii_all_spec (fun c => implb (alpha_exec c) (ascii_alpha c)) ltac:(vm_compute; reflexivity) c L) as X.
    cbv beta in X. rewrite H in X. exact X.
  - pose proof (ascii_all_spec (fun c => implb (alnum_exec c) (ascii_alnum c)) ltac:(vm_compute; reflexivity) c L) as X.
    cbv beta in X. rewrite H in X. exact X.
Qed.

(* C17, re-lexing, part 1: truncation lemmas.
   If a parser P succeeds on s leaving r, then it gives the same value on any prefix (firstn n s) of s that
   still contains everything P consumed (n >= |s| - |r|), leaving the correspondingly shortened rest.
   This holds for every sub-parser that does NOT end with the end_expr look-ahead (those are handled in
   Proofs/LexRelex.v, where the cut is made exactly at the end of the token).
   Uniform shape of every lemma (so that one tactic composes them):
       P s = Some (v, r)  ->  forall n, |s| - |r| <= n  ->  P (firstn n s) = Some (v, firstn (n - (|s| - |r|)) r)   *)
From Coq Require Import List NArith Bool Lia Arith.
From PV Require Import Lib.ListX Model.Lexer Proofs.LexProofs.
Import ListNotations.
Local Open Scope nat_scope.

Notation len := (@List.length N).
Notation cut n s r := (firstn (n - (len s - len r)) r).

Lemma firstn_0 {A} (l : list A) : firstn 0 l = [].
Proof. reflexivity. Qed.

Lemma suf_firstn_skipn (r s : str) : suf r s -> s = firstn (len s - len r) s ++ r.
Proof.
  intros [p ->]. rewrite app_length. replace (len p + len r - len r) with (len p + 0) by lia.
  rewrite firstn_app_2. cbn. now rewrite app_nil_r.
Qed.

(* n - (a - b) - (b - c) = n - (a - c): collapses the chains of truncated subtractions one link at a time (a single lia call on
   the whole chain is exponential in its length) *)
Lemma cut_arith n a b c : c <= b -> b <= a -> n - (a - b) - (b - c) = n - (a - c).
Proof. lia. Qed.
Ltac cuteq_nat := repeat (rewrite cut_arith by lia); first [reflexivity | lia].
Ltac cuteq := repeat first [reflexivity | match goal with |- @eq nat _ _ => cuteq_nat end | lia | progress f_equal].

(* ---- primitives ---- *)
Lemma eat_trunc c s r : eat c s = Some r -> forall n, len s - len r <= n -> eat c (firstn n s) = Some (cut n s r).
Proof.
  intros H n Hn. apply eat_inv in H. subst s. cbn [List.length] in *.
  replace (S (len r) - len r) with 1 in * by lia.
  destruct n as [|n]; [lia|]. cbn [firstn]. unfold eat. rewrite N.eqb_refl. replace (S n - 1) with n by lia. reflexivity.
Qed.
Lemma eat_none_trunc c s : eat c s = None -> forall n, eat c (firstn n s) = None.
Proof.
  unfold eat. destruct s as [|x t]; intros H n; [now rewrite firstn_nil|].
  destruct n; [reflexivity|]. cbn [firstn]. destruct (N.eqb x c); [discriminate|reflexivity].
Qed.
Lemma eat2_trunc a b s r : eat2 a b s = Some r -> forall n, len s - len r <= n -> eat2 a b (firstn n s) = Some (cut n s r).
Proof.
  intros H n Hn. apply eat2_inv in H. subst s. cbn [List.length] in *.
  replace (S (S (len r)) - len r) with 2 in * by lia.
  destruct n as [|[|n]]; try lia. cbn [firstn]. unfold eat2, eat. rewrite !N.eqb_refl.
  replace (S (S n) - 2) with n by lia. reflexivity.
Qed.
Lemma eat2_none_trunc a b s : eat2 a b s = None -> forall n, eat2 a b (firstn n s) = None.
Proof.
  unfold eat2. intros H n. destruct (eat a s) as [r1|] eqn:E.
  - destruct n as [|n]; [destruct s; reflexivity|].
    rewrite (eat_trunc _ _ _ E (S n)) by (apply eat_suf in E as [_ E]; lia).
    apply eat_none_trunc. exact H.
  - now rewrite eat_none_trunc.
Qed.
Lemma opt_eat_trunc c s : forall n, len s - len (opt_eat c s) <= n ->
  opt_eat c (firstn n s) = cut n s (opt_eat c s).
Proof.
  intros n Hn. unfold opt_eat in *. destruct (eat c s) as [r|] eqn:E.
  - now rewrite (eat_trunc _ _ _ E n Hn).
  - rewrite eat_none_trunc by exact E. replace (n - (len s - len s)) with n by lia. reflexivity.
Qed.

Lemma span_while_trunc p s a r : span_while p s = (a, r) -> forall n, len s - len r <= n ->
  span_while p (firstn n s) = (a, cut n s r).
Proof.
  revert a r; induction s as [|c t IH]; intros a r H n Hn; cbn [span_while] in H.
  - inversion H; subst. now rewrite !firstn_nil.
  - destruct (p c) eqn:Pc.
    + destruct (span_while p t) as [a' r'] eqn:E. inversion H; subst.
      pose proof (span_while_suf _ _ _ _ E) as [_ L]. cbn [List.length] in *.
      destruct n as [|n]; [lia|]. cbn [firstn span_while]. rewrite Pc.
      rewrite (IH _ _ eq_refl n) by lia. cuteq.
    + inversion H; subst. replace (n - (len (c :: t) - len (c :: t))) with n by lia.
      destruct n; [reflexivity|]. cbn [firstn span_while]. now rewrite Pc.
Qed.
Lemma span_while_max_trunc p m s a r : span_while_max p m s = (a, r) -> forall n, len s - len r <= n ->
  span_while_max p m (firstn n s) = (a, cut n s r).
Proof.
  revert s a r; induction m as [|m IH]; intros s a r H n Hn; cbn [span_while_max] in H.
  - assert (a = [] /\ r = s) as [-> ->] by (destruct s; inversion H; auto).
    replace (n - (len s - len s)) with n by lia. destruct (firstn n s); reflexivity.
  - destruct s as [|c t]; [inversion H; subst; now rewrite !firstn_nil|].
    destruct (p c) eqn:Pc.
    + destruct (span_while_max p m t) as [a' r'] eqn:E. inversion H; subst.
      pose proof (span_while_max_suf _ _ _ _ _ E) as [_ L]. cbn [List.length] in *.
      destruct n as [|n]; [lia|]. cbn [firstn span_while_max]. rewrite Pc.
      rewrite (IH _ _ _ E n) by lia. cuteq.
    + inversion H; subst. replace (n - (len (c :: t) - len (c :: t))) with n by lia.
      destruct n; [reflexivity|]. cbn [firstn span_while_max]. now rewrite Pc.
Qed.

Lemma strip_prefix_trunc pre s r : strip_prefix pre s = Some r -> forall n, len s - len r <= n ->
  strip_prefix pre (firstn n s) = Some (cut n s r).
Proof.
  intros H n Hn. apply strip_prefix_spec in H. subst s. rewrite app_length in *.
  replace (len pre + len r - len r) with (len pre) in * by lia.
  rewrite firstn_app. rewrite firstn_all2 by lia. apply strip_prefix_spec. reflexivity.
Qed.
Lemma strip_prefix_none_trunc pre s : strip_prefix pre s = None -> forall n, strip_prefix pre (firstn n s) = None.
Proof.
  intros H n. destruct (strip_prefix pre (firstn n s)) as [y|] eqn:E; [|reflexivity].
  apply strip_prefix_spec in E. rewrite <- (firstn_skipn n s) in H. rewrite E, <- app_assoc in H.
  assert (strip_prefix pre (pre ++ y ++ skipn n s) = Some (y ++ skipn n s)) by (now apply strip_prefix_spec).
  congruence.
Qed.

Lemma first_prefix_trunc cands s u r : first_prefix cands s = Some (u, r) -> forall n, len s - len r <= n ->
  first_prefix cands (firstn n s) = Some (u, cut n s r).
Proof.
  induction cands as [|c cs IH]; cbn [first_prefix]; intros H n Hn; [discriminate|].
  destruct (strip_prefix c s) as [r0|] eqn:E.
  - inversion H; subst. now rewrite (strip_prefix_trunc _ _ _ E n Hn).
  - rewrite strip_prefix_none_trunc by exact E. auto.
Qed.
Lemma first_prefix_none_trunc cands s : first_prefix cands s = None -> forall n, first_prefix cands (firstn n s) = None.
Proof.
  induction cands as [|c cs IH]; cbn [first_prefix]; intros H n; [reflexivity|].
  destruct (strip_prefix c s) as [r0|] eqn:E; [discriminate|].
  rewrite strip_prefix_none_trunc by exact E. auto.
Qed.

Lemma count_prefix_trunc q s k r : count_prefix q s = (k, r) -> forall n, len s - len r <= n ->
  count_prefix q (firstn n s) = (k, cut n s r).
Proof.
  revert k r; induction s as [|c t IH]; intros k r H n Hn; cbn [count_prefix] in H.
  - inversion H; subst. now rewrite !firstn_nil.
  - destruct (N.eqb c q) eqn:Pc.
    + destruct (count_prefix q t) as [k' r'] eqn:E. inversion H; subst.
      pose proof (count_prefix_weak _ _ _ _ E) as [_ L]. cbn [List.length] in *.
      destruct n as [|n]; [lia|]. cbn [firstn count_prefix]. rewrite Pc.
      rewrite (IH _ _ eq_refl n) by lia. cuteq.
    + inversion H; subst. replace (n - (len (c :: t) - len (c :: t))) with n by lia.
      destruct n; [reflexivity|]. cbn [firstn count_prefix]. now rewrite Pc.
Qed.
Lemma take_quotes_trunc q k s r : take_quotes q k s = Some r -> forall n, len s - len r <= n ->
  take_quotes q k (firstn n s) = Some (cut n s r).
Proof.
  revert s; induction k as [|k IH]; intros s H n Hn; cbn [take_quotes] in H.
  - inversion H; subst. replace (n - (len r - len r)) with n by lia. reflexivity.
  - destruct s as [|c t]; [discriminate|]. destruct (N.eqb c q) eqn:Pc; [|discriminate].
    pose proof (take_quotes_weak _ _ _ _ H) as [_ L]. cbn [List.length] in *.
    destruct n as [|n]; [lia|]. cbn [firstn take_quotes]. rewrite Pc.
    rewrite (IH _ H n) by lia. cuteq.
Qed.
Lemma take_quotes_none_trunc q k s : take_quotes q k s = None -> forall n, take_quotes q k (firstn n s) = None.
Proof.
  revert s; induction k as [|k IH]; intros s H n; cbn [take_quotes] in H; [discriminate|].
  destruct s as [|c t]; [now rewrite firstn_nil|].
  destruct n; [reflexivity|]. cbn [firstn take_quotes]. destruct (N.eqb c q); [auto|reflexivity].
Qed.

(* ---- rewriting tactic: use a truncation lemma for hypothesis H at the cut currently in the goal ---- *)
Ltac note_fact pf :=
  let T := type of pf in
  lazymatch goal with
  | _ : T |- _ => fail
  | _ => pose proof pf
  end.
(* non-destructive: adds the length facts of every primitive call that is recorded as a hypothesis *)
Ltac lens :=
  repeat match goal with
  | H : eat _ _ = Some _ |- _ => note_fact (proj2 (eat_suf _ _ _ H))
  | H : eat2 _ _ _ = Some _ |- _ => note_fact (proj2 (eat2_suf _ _ _ _ H))
  | H : span_while _ _ = (_, _) |- _ => note_fact (proj2 (span_while_suf _ _ _ _ H))
  | H : span_while_max _ _ _ = (_, _) |- _ => note_fact (proj2 (span_while_max_suf _ _ _ _ _ H))
  | H : strip_prefix _ _ = Some _ |- _ => note_fact (proj2 (strip_prefix_suf _ _ _ H))
  end.

(* ---- table-independent composite parsers ---- *)
Lemma p_newline_trunc s r : p_newline s = Some r -> forall n, len s - len r <= n -> p_newline (firstn n s) = Some (cut n s r).
Proof.
  unfold p_newline. intros H n Hn. destruct (eat 10%N s) as [r1|] eqn:E1.
  - inversion H; subst. now rewrite (eat_trunc _ _ _ E1 n Hn).
  - rewrite eat_none_trunc by exact E1. destruct (eat 13%N s) as [r2|] eqn:E2; [|discriminate].
    inversion H; subst; clear H. pose proof (opt_eat_weak 10%N r2) as [_ L]. pose proof E2 as E2'. apply eat_suf in E2' as [_ L2].
    rewrite (eat_trunc _ _ _ E2 n) by lia. rewrite opt_eat_trunc by lia. cuteq.
Qed.
Lemma p_newline_none_trunc s : p_newline s = None -> forall n, p_newline (firstn n s) = None.
Proof.
  unfold p_newline. intros H n. destruct (eat 10%N s) eqn:E1; [discriminate|]. destruct (eat 13%N s) eqn:E2; [discriminate|].
  now rewrite !eat_none_trunc.
Qed.

Lemma p_comment_raw_trunc s k r : p_comment_raw s = Some (k, r) -> forall n, len s - len r <= n ->
  p_comment_raw (firstn n s) = Some (k, cut n s r).
Proof.
  unfold p_comment_raw. intros H n Hn. destruct (eat2 35%N 33%N s) as [r1|] eqn:E1.
  - destruct (span_while not_nl r1) as [t r'] eqn:E2. inversion H; subst; clear H.
    lens.
    rewrite (eat2_trunc _ _ _ _ E1 n) by lia. rewrite (span_while_trunc _ _ _ _ E2) by lia. cuteq.
  - rewrite eat2_none_trunc by exact E1. destruct (eat 35%N s) as [r1|] eqn:E3; [|discriminate].
    destruct (span_while not_nl r1) as [t r'] eqn:E2. inversion H; subst; clear H.
    lens.
    rewrite (eat_trunc _ _ _ E3 n) by lia. rewrite (span_while_trunc _ _ _ _ E2) by lia. cuteq.
Qed.

Lemma skip_ws_trunc s : forall n, len s - len (skip_ws s) <= n -> skip_ws (firstn n s) = cut n s (skip_ws s).
Proof.
  intros n Hn. unfold skip_ws in *. destruct (span_while is_iws s) as [a r] eqn:E. cbn [snd] in *.
  now rewrite (span_while_trunc _ _ _ _ E n Hn).
Qed.

(* lw_comments: enough fuel is enough *)
Lemma lw_comments_fuel f s : len s <= f -> lw_comments f s = lw_comments (S f) s.
Proof.
  revert s; induction f as [|f IH]; intros s Hf.
  - destruct s; [|cbn in Hf; lia]. reflexivity.
  - cbn [lw_comments]. destruct (p_comment_raw (skip_ws s)) as [[k r]|] eqn:E1; [|reflexivity].
    destruct (p_newline r) as [r'|] eqn:E2; [|reflexivity].
    apply p_comment_raw_strict in E1 as [_ L1]. apply p_newline_strict in E2 as [_ L2].
    pose proof (skip_ws_suf s) as [_ L0].
    rewrite (IH r') by lia. reflexivity.
Qed.
Lemma lw_comments_fuel_ge f g s : len s <= f -> f <= g -> lw_comments g s = lw_comments f s.
Proof. intros H L. induction L as [|g L IH]; [reflexivity|]. rewrite <- IH. symmetry. apply lw_comments_fuel. lia. Qed.

Lemma p_comment_raw_none_trunc s : p_comment_raw s = None -> forall n, p_comment_raw (firstn n s) = None.
Proof.
  unfold p_comment_raw. intros H n. destruct (eat2 35%N 33%N s) as [l|] eqn:E1.
  { destruct (span_while not_nl l); discriminate. }
  destruct (eat 35%N s) as [l|] eqn:E2.
  { destruct (span_while not_nl l); discriminate. }
  now rewrite eat2_none_trunc, eat_none_trunc.
Qed.

Lemma skip_ws_cons_ws c t : is_iws c = true -> skip_ws (c :: t) = skip_ws t.
Proof. intros H. unfold skip_ws. cbn [span_while]. rewrite H. now destruct (span_while is_iws t). Qed.
Lemma skip_ws_cons_nws c t : is_iws c = false -> skip_ws (c :: t) = c :: t.
Proof. intros H. unfold skip_ws. cbn [span_while]. now rewrite H. Qed.
Lemma skip_ws_firstn_cases m s : exists m', skip_ws (firstn m s) = firstn m' (skip_ws s).
Proof.
  revert m; induction s as [|c t IH]; intros m.
  - exists 0. now rewrite !firstn_nil.
  - destruct m as [|m]; [exists 0; reflexivity|]. cbn [firstn]. destruct (is_iws c) eqn:W.
    + rewrite !skip_ws_cons_ws by exact W. apply IH.
    + rewrite !skip_ws_cons_nws by exact W. exists (S m). reflexivity.
Qed.

Lemma lw_comments_trunc f s ks r : lw_comments f s = (ks, r) -> len s <= f -> p_comment_raw (skip_ws r) = None ->
  forall n, len s - len r <= n -> lw_comments f (firstn n s) = (ks, cut n s r).
Proof.
  revert s ks r; induction f as [|f IH]; intros s ks r H Hf Hr n Hn.
  - destruct s; [|cbn in Hf; lia]. cbn in H. inversion H; subst. now rewrite !firstn_nil.
  - cbn [lw_comments] in H |- *.
    destruct (p_comment_raw (skip_ws s)) as [[k r1]|] eqn:E1.
    + destruct (p_newline r1) as [r2|] eqn:E2.
      * destruct (lw_comments f r2) as [ks' r3] eqn:E3. inversion H; subst; clear H.
        pose proof (p_comment_raw_strict _ _ _ E1) as [_ L1]. pose proof (p_newline_strict _ _ E2) as [_ L2].
        pose proof (skip_ws_suf s) as [_ L0]. pose proof (lw_comments_weak _ _ _ _ E3) as [_ L3].
        rewrite skip_ws_trunc by lia.
        rewrite (p_comment_raw_trunc _ _ _ E1) by lia.
        rewrite (p_newline_trunc _ _ E2) by lia.
        rewrite (IH _ _ _ E3) by (auto; lia). cuteq.
      * inversion H; subst; clear H. rewrite E1 in Hr. discriminate.
    + inversion H; subst; clear H. replace (n - (len r - len r)) with n by lia.
      destruct (skip_ws_firstn_cases n r) as [m' ->]. rewrite p_comment_raw_none_trunc by exact E1. reflexivity.
Qed.

(* ---- numbers ---- *)
Lemma p_integer_trunc s d r : p_integer s = Some (d, r) -> forall n, len s - len r <= n ->
  p_integer (firstn n s) = Some (d, cut n s r).
Proof.
  unfold p_integer. intros H n Hn. destruct s as [|c t]; [discriminate|].
  destruct (is_digit c && negb (N.eqb c 48%N)) eqn:D.
  - destruct (span_while is_digit_us t) as [a r'] eqn:E. inversion H; subst; clear H.
    pose proof (span_while_suf _ _ _ _ E) as [_ L]. cbn [List.length] in *.
    destruct n as [|n]; [lia|]. cbn [firstn]. rewrite D. rewrite (span_while_trunc _ _ _ _ E n) by lia.
    cuteq.
  - destruct (N.eqb c 48%N) eqn:Z; [|discriminate]. inversion H; subst; clear H. cbn [List.length] in *.
    destruct n as [|n]; [lia|]. cbn [firstn]. rewrite Z, D. cuteq.
Qed.
Lemma p_integer_none_trunc s : p_integer s = None -> forall n, p_integer (firstn n s) = None.
Proof.
  unfold p_integer. intros H n. destruct s as [|c t]; [now rewrite firstn_nil|]. destruct n; [reflexivity|]. cbn [firstn].
  destruct (is_digit c && negb (N.eqb c 48%N)); [destruct (span_while is_digit_us t); discriminate|].
  destruct (N.eqb c 48%N); [discriminate|reflexivity].
Qed.

Lemma p_frac_nofrac s : fst (p_frac s) = [] -> forall n, p_frac (firstn n s) = ([], firstn n s).
Proof.
  unfold p_frac, eat. intros H n.
  destruct s as [|a [|b s']]; destruct n as [|[|n]]; cbn [firstn]; try reflexivity;
    destruct (N.eqb a 46%N) eqn:A; try reflexivity.
  all: destruct (is_digit b) eqn:D; try reflexivity.
  all: destruct (span_while is_digit_us s'); cbn in H; discriminate.
Qed.
Lemma p_frac_trunc s f r : p_frac s = (f, r) -> forall n, len s - len r <= n -> p_frac (firstn n s) = (f, cut n s r).
Proof.
  intros H n Hn. destruct f as [|f0 f].
  - assert (r = s) as ->.
    { unfold p_frac in H. destruct (eat 46%N s) as [[|d r']|]; try (inversion H; reflexivity).
      destruct (is_digit d); [destruct (span_while is_digit_us r'); discriminate|inversion H; reflexivity]. }
    replace (n - (len s - len s)) with n by lia. apply p_frac_nofrac. now rewrite H.
  - unfold p_frac in *. destruct (eat 46%N s) as [[|d r']|] eqn:E1; try discriminate.
    destruct (is_digit d) eqn:D; [|discriminate].
    destruct (span_while is_digit_us r') as [a r''] eqn:E2. inversion H; subst; clear H.
    pose proof (span_while_suf _ _ _ _ E2) as [_ L]. apply eat_inv in E1. subst s. cbn [List.length] in *.
    destruct n as [|[|n]]; try lia. cbn [firstn]. unfold eat. rewrite N.eqb_refl, D.
    rewrite (span_while_trunc _ _ _ _ E2 n) by lia. cuteq.
Qed.

Lemma p_sign_trunc s g r : p_sign s = (g, r) -> forall n, len s - len r <= n -> p_sign (firstn n s) = (g, cut n s r).
Proof.
  unfold p_sign. intros H n Hn. destruct s as [|c t].
  - inversion H; subst. now rewrite !firstn_nil.
  - destruct ((N.eqb c 43%N) || (N.eqb c 45%N)) eqn:SG; inversion H; subst; clear H; cbn [List.length] in *.
    + destruct n as [|n]; [lia|]. cbn [firstn]. rewrite SG. cuteq.
    + replace (n - (S (len t) - S (len t))) with n by lia. destruct n; [reflexivity|]. cbn [firstn]. now rewrite SG.
Qed.

Lemma p_exp_noexp s : fst (p_exp s) = [] -> forall n, p_exp (firstn n s) = ([], firstn n s).
Proof.
  unfold p_exp, p_sign. intros H n.
  destruct s as [|e r']; [now rewrite firstn_nil|].
  destruct n as [|n]; [reflexivity|]. cbn [firstn].
  destruct ((N.eqb e 101%N) || (N.eqb e 69%N)) eqn:EE; [|reflexivity].
  destruct r' as [|c r2]; [rewrite firstn_nil; reflexivity|].
  destruct n as [|n]; [reflexivity|]. cbn [firstn].
  destruct ((N.eqb c 43%N) || (N.eqb c 45%N)) eqn:SG.
  - destruct r2 as [|d r3]; [rewrite firstn_nil; reflexivity|].
    destruct n as [|n]; [reflexivity|]. cbn [firstn span_while] in *.
    destruct (is_digit d) eqn:D; [|reflexivity].
    destruct (span_while is_digit r3). cbn in H. discriminate.
  - cbn [span_while] in *. destruct (is_digit c) eqn:D; [|reflexivity].
    destruct (span_while is_digit r2). cbn in H. discriminate.
Qed.
Lemma p_exp_trunc s e r : p_exp s = (e, r) -> forall n, len s - len r <= n -> p_exp (firstn n s) = (e, cut n s r).
Proof.
  intros H n Hn. destruct e as [|e0 e].
  - assert (r = s) as ->.
    { unfold p_exp in H. destruct s as [|c t]; [inversion H; reflexivity|].
      destruct ((N.eqb c 101%N) || (N.eqb c 69%N)); [|inversion H; reflexivity].
      destruct (p_sign t) as [sg r1]. destruct (span_while is_digit r1) as [[|d ds] r3]; [inversion H; reflexivity|discriminate]. }
    replace (n - (len s - len s)) with n by lia. apply p_exp_noexp. now rewrite H.
  - unfold p_exp in *. destruct s as [|c t]; [discriminate|].
    destruct ((N.eqb c 101%N) || (N.eqb c 69%N)) eqn:EE; [|discriminate].
    destruct (p_sign t) as [sg r1] eqn:ES. destruct (span_while is_digit r1) as [[|d ds] r3] eqn:ED; [discriminate|].
    inversion H; subst; clear H.
    pose proof (p_sign_weak _ _ _ ES) as [_ L1]. pose proof (span_while_suf _ _ _ _ ED) as [_ L2]. cbn [List.length] in *.
    destruct n as [|n]; [lia|]. cbn [firstn]. rewrite EE.
    rewrite (p_sign_trunc _ _ _ ES n) by lia. rewrite (span_while_trunc _ _ _ _ ED) by lia. cuteq.
Qed.

Lemma p_number_trunc s l r : p_number s = Some (l, r) -> forall n, len s - len r <= n ->
  p_number (firstn n s) = Some (l, cut n s r).
Proof.
  unfold p_number. intros H n Hn.
  destruct (p_integer s) as [[ip r0]|] eqn:E0; [|discriminate].
  destruct (p_frac r0) as [frac r1] eqn:E1. destruct (p_exp r1) as [ex r2] eqn:E2.
  pose proof (p_integer_strict _ _ _ E0) as [_ L0]. pose proof (p_frac_weak _ _ _ E1) as [_ L1]. pose proof (p_exp_weak _ _ _ E2) as [_ L2].
  assert (r2 = r) by (destruct frac, ex; repeat match type of H with (if ?b then _ else _) = _ => destruct b end; inversion H; reflexivity).
  subst r2.
  rewrite (p_integer_trunc _ _ _ E0) by lia. rewrite (p_frac_trunc _ _ _ E1) by lia. rewrite (p_exp_trunc _ _ _ E2) by lia.
  replace (n - (len s - len r0) - (len r0 - len r1) - (len r1 - len r)) with (n - (len s - len r)) by lia.
  destruct frac, ex; repeat match type of H with (if ?b then _ else _) = _ => destruct b end; inversion H; reflexivity.
Qed.

Lemma p_raw_trunc s l r : p_raw s = Some (l, r) -> forall n, len s - len r <= n -> p_raw (firstn n s) = Some (l, cut n s r).
Proof.
  unfold p_raw. intros H n Hn. destruct (eat 114%N s) as [[|q r0]|] eqn:E0; try discriminate.
  destruct (is_quote q) eqn:Q; [|discriminate]. destruct (span_while raw_body r0) as [b r1] eqn:E1.
  destruct r1 as [|q' r2]; [discriminate|]. destruct (is_quote q') eqn:Q'; [|discriminate]. inversion H; subst; clear H.
  pose proof (span_while_suf _ _ _ _ E1) as [_ L1]. pose proof (eat_inv _ _ _ E0). subst s. cbn [List.length] in *.
  destruct n as [|[|n]]; try lia. cbn [firstn]. unfold eat. rewrite N.eqb_refl, Q.
  rewrite (span_while_trunc _ _ _ _ E1 n) by (cbn [List.length]; lia).
  remember (n - (len r0 - len (q' :: r))) as m eqn:Hm. cbn [List.length] in Hm.
  destruct m as [|m]; [exfalso; lia|]. cbn [firstn]. rewrite Q'. cuteq.
Qed.

Lemma p_digits_n_trunc k s d r : p_digits_n k s = Some (d, r) -> forall n, len s - len r <= n ->
  p_digits_n k (firstn n s) = Some (d, cut n s r).
Proof.
  unfold p_digits_n. intros H n Hn. destruct (span_while_max is_digit k s) as [d' r'] eqn:E.
  destruct (Nat.eqb (len d') k) eqn:K; [|discriminate]. inversion H; subst; clear H.
  rewrite (span_while_max_trunc _ _ _ _ _ E n Hn). now rewrite K.
Qed.
Lemma p_digits_1_max_trunc k s d r : p_digits_1_max k s = Some (d, r) -> forall n, len s - len r <= n ->
  p_digits_1_max k (firstn n s) = Some (d, cut n s r).
Proof.
  unfold p_digits_1_max. intros H n Hn. destruct (span_while_max is_digit k s) as [[|a d'] r'] eqn:E; [discriminate|].
  inversion H; subst; clear H. now rewrite (span_while_max_trunc _ _ _ _ _ E n Hn).
Qed.


Lemma p_digits_n_none_trunc k s : p_digits_n k s = None -> forall n, p_digits_n k (firstn n s) = None.
Proof.
  unfold p_digits_n. revert s; induction k as [|k IH]; intros s H n.
  - cbn [span_while_max] in *. destruct s; discriminate.
  - destruct s as [|c t]; [now rewrite firstn_nil|]. destruct n as [|n]; [reflexivity|]. cbn [firstn span_while_max] in *.
    destruct (is_digit c); [|reflexivity].
    specialize (IH t). destruct (span_while_max is_digit k t) as [a r]. cbn [List.length] in H.
    assert (H' : (if Nat.eqb (len a) k then Some (a, r) else None) = None) by (destruct (Nat.eqb (len a) k) eqn:X; [cbn in H; rewrite X in H; discriminate|reflexivity]).
    specialize (IH H' n). destruct (span_while_max is_digit k (firstn n t)) as [a' r']. cbn [List.length].
    destruct (Nat.eqb (len a') k) eqn:Y; [discriminate|]. cbn. now rewrite Y.
Qed.
Lemma p_digits_1_max_none_trunc k s : p_digits_1_max k s = None -> forall n, p_digits_1_max k (firstn n s) = None.
Proof.
  unfold p_digits_1_max. intros H n. destruct k as [|k]; [destruct (firstn n s); reflexivity|].
  destruct s as [|c t]; [now rewrite firstn_nil|]. destruct n; [reflexivity|]. cbn [firstn span_while_max] in *.
  destruct (is_digit c); [|reflexivity]. destruct (span_while_max is_digit k t); discriminate.
Qed.

(* (sep p)? : needs both directions for p *)
Lemma opt_comp_trunc sep p s d r :
  (forall x y z, p x = Some (y, z) -> forall n, len x - len z <= n -> p (firstn n x) = Some (y, cut n x z)) ->
  (forall x, p x = None -> forall n, p (firstn n x) = None) ->
  (forall x y z, p x = Some (y, z) -> len z <= len x) ->
  opt_comp sep p s = (d, r) -> forall n, len s - len r <= n -> opt_comp sep p (firstn n s) = (d, cut n s r).
Proof.
  intros Htr Hno Hw. unfold opt_comp. intros H n Hn. destruct s as [|c t].
  - inversion H; subst. now rewrite !firstn_nil.
  - destruct (N.eqb c sep) eqn:C.
    + destruct (p t) as [[d' r']|] eqn:E.
      * inversion H; subst; clear H. pose proof (Hw _ _ _ E). cbn [List.length] in *.
        destruct n as [|n]; [lia|]. cbn [firstn]. rewrite C. rewrite (Htr _ _ _ E n) by lia. cuteq.
      * inversion H; subst; clear H. replace (n - (len (c :: t) - len (c :: t))) with n by lia.
        destruct n as [|n]; [reflexivity|]. cbn [firstn]. rewrite C. now rewrite (Hno _ E n).
    + inversion H; subst; clear H. replace (n - (len (c :: t) - len (c :: t))) with n by lia.
      destruct n as [|n]; [reflexivity|]. cbn [firstn]. now rewrite C.
Qed.

Lemma opt_eat_firstn_cases c m s : exists m', opt_eat c (firstn m s) = firstn m' (opt_eat c s).
Proof.
  unfold opt_eat, eat. destruct s as [|x t]; [exists 0; now rewrite !firstn_nil|].
  destruct m as [|m]; [exists 0; reflexivity|]. cbn [firstn]. destruct (N.eqb x c); [exists m|exists (S m)]; reflexivity.
Qed.

(* fewer characters than digits(k) needs: failure *)
Lemma span_while_max_len p k s a r : span_while_max p k s = (a, r) -> len a <= k /\ len a <= len s.
Proof.
  revert s a r; induction k as [|k IH]; intros s a r H; cbn [span_while_max] in H.
  - destruct s; inversion H; subst; cbn; lia.
  - destruct s as [|c t]; [inversion H; subst; cbn; lia|]. destruct (p c); [|inversion H; subst; cbn; lia].
    destruct (span_while_max p k t) as [a' r'] eqn:E. inversion H; subst. destruct (IH _ _ _ E). cbn. lia.
Qed.
Lemma p_digits_n_short k s n : n < k -> p_digits_n k (firstn n s) = None.
Proof.
  intros Hk. unfold p_digits_n. destruct (span_while_max is_digit k (firstn n s)) as [a r] eqn:E.
  apply span_while_max_len in E as [_ L]. rewrite firstn_length in L.
  destruct (Nat.eqb (len a) k) eqn:X; [apply Nat.eqb_eq in X; lia|reflexivity].
Qed.
Lemma p_digits_n_len k s d r : p_digits_n k s = Some (d, r) -> len s - len r = k /\ len r <= len s.
Proof.
  unfold p_digits_n. intros H. destruct (span_while_max is_digit k s) as [a r'] eqn:E.
  destruct (Nat.eqb (len a) k) eqn:X; [|discriminate]. inversion H; subst. apply Nat.eqb_eq in X.
  apply span_while_max_suf in E as [_ L]. lia.
Qed.

Section TruncTables.
  Variable is_alpha is_alnum : chr -> bool.
  Variable T : tables.

  Lemma p_ident_plain_trunc s i r : p_ident_plain is_alpha is_alnum s = Some (i, r) -> forall n, len s - len r <= n ->
    p_ident_plain is_alpha is_alnum (firstn n s) = Some (i, cut n s r).
  Proof.
    unfold p_ident_plain. intros H n Hn. destruct s as [|c t]; [discriminate|].
    destruct (is_ident_start is_alpha c) eqn:C; [|discriminate].
    destruct (span_while (is_ident_cont is_alnum) t) as [a r'] eqn:E. inversion H; subst; clear H. lens. cbn [List.length] in *.
    destruct n as [|n]; [lia|]. cbn [firstn]. rewrite C. rewrite (span_while_trunc _ _ _ _ E n) by lia. cuteq.
  Qed.
  Lemma p_ident_plain_none_trunc s : p_ident_plain is_alpha is_alnum s = None -> forall n,
    p_ident_plain is_alpha is_alnum (firstn n s) = None.
  Proof.
    unfold p_ident_plain. intros H n. destruct s as [|c t]; [now rewrite firstn_nil|]. destruct n; [reflexivity|]. cbn [firstn].
    destruct (is_ident_start is_alpha c); [destruct (span_while (is_ident_cont is_alnum) t); discriminate|reflexivity].
  Qed.
  Lemma p_ident_bt_trunc s i r : p_ident_bt s = Some (i, r) -> forall n, len s - len r <= n ->
    p_ident_bt (firstn n s) = Some (i, cut n s r).
  Proof.
    unfold p_ident_bt. intros H n Hn. destruct (eat 96%N s) as [r0|] eqn:E0; [|discriminate].
    destruct (span_while not_backtick r0) as [b r1] eqn:E1. destruct (eat 96%N r1) as [r2|] eqn:E2; [|discriminate].
    inversion H; subst; clear H. lens.
    rewrite (eat_trunc _ _ _ E0 n) by lia. rewrite (span_while_trunc _ _ _ _ E1) by lia. rewrite (eat_trunc _ _ _ E2) by lia. cuteq.
  Qed.
  Lemma p_ident_part_trunc s i r : p_ident_part is_alpha is_alnum s = Some (i, r) -> forall n, len s - len r <= n ->
    p_ident_part is_alpha is_alnum (firstn n s) = Some (i, cut n s r).
  Proof.
    unfold p_ident_part, orelse. intros H n Hn. destruct (p_ident_plain is_alpha is_alnum s) as [[i0 r0]|] eqn:E.
    - inversion H; subst. now rewrite (p_ident_plain_trunc _ _ _ E n Hn).
    - rewrite p_ident_plain_none_trunc by exact E. now apply p_ident_bt_trunc.
  Qed.
  Lemma p_ident_trunc s k r : p_ident is_alpha is_alnum s = Some (k, r) -> forall n, len s - len r <= n ->
    p_ident is_alpha is_alnum (firstn n s) = Some (k, cut n s r).
  Proof.
    unfold p_ident. intros H n Hn. destruct (p_ident_part is_alpha is_alnum s) as [[i0 r0]|] eqn:E; [|discriminate].
    inversion H; subst. now rewrite (p_ident_part_trunc _ _ _ E n Hn).
  Qed.

  Lemma p_param_trunc s k r : p_param is_alnum s = Some (k, r) -> forall n, len s - len r <= n ->
    p_param is_alnum (firstn n s) = Some (k, cut n s r).
  Proof.
    unfold p_param. intros H n Hn. destruct (eat 36%N s) as [r0|] eqn:E0; [|discriminate].
    destruct (span_while (is_param_char is_alnum) r0) as [b r1] eqn:E1. inversion H; subst; clear H. lens.
    rewrite (eat_trunc _ _ _ E0 n) by lia. rewrite (span_while_trunc _ _ _ _ E1) by lia. cuteq.
  Qed.

  Lemma p_comment_trunc s k r : p_comment s = Some (k, r) -> forall n, len s - len r <= n ->
    p_comment (firstn n s) = Some (k, cut n s r).
  Proof.
    unfold p_comment. intros H n Hn. destruct (p_comment_raw s) as [[c r0]|] eqn:E; [|discriminate].
    inversion H; subst. now rewrite (p_comment_raw_trunc _ _ _ E n Hn).
  Qed.

  (* ---- quoted strings ---- *)
  Lemma p_escape_u_trunc s c r : p_escape_u T s = (c, r) -> forall n, len s - len r <= n ->
    p_escape_u T (firstn n s) = (c, cut n s r).
  Proof.
    unfold p_escape_u. intros H n Hn. destruct (span_while_max is_hex (t_u_hex_max T) s) as [h r2] eqn:E.
    inversion H; subst; clear H. lens. pose proof (opt_eat_weak 125%N r2) as [_ L].
    rewrite (span_while_max_trunc _ _ _ _ _ E n) by lia. rewrite opt_eat_trunc by lia. cuteq.
  Qed.
  Lemma p_escape_x_trunc c0 s c r : p_escape_x T c0 s = (c, r) -> forall n, len s - len r <= n ->
    p_escape_x T c0 (firstn n s) = (c, cut n s r).
  Proof.
    unfold p_escape_x. intros H n Hn. destruct (span_while_max is_hex (t_x_hex_len T) s) as [h r2] eqn:E.
    assert (r2 = r) by (destruct (Nat.eqb (len h) (t_x_hex_len T)); inversion H; reflexivity). subst r2.
    rewrite (span_while_max_trunc _ _ _ _ _ E n Hn).
    destruct (Nat.eqb (len h) (t_x_hex_len T)); inversion H; reflexivity.
  Qed.
  Lemma p_escape_trunc s c r : p_escape T s = (c, r) -> s <> [] -> forall n, len s - len r <= n ->
    p_escape T (firstn n s) = (c, cut n s r).
  Proof.
    unfold p_escape. intros H NE n Hn. destruct s as [|x t]; [congruence|].
    destruct (lookup x (t_escapes T)) as [v|] eqn:LK.
    { inversion H; subst; clear H. cbn [List.length] in *. destruct n as [|n]; [lia|]. cbn [firstn]. rewrite LK. cuteq. }
    destruct ((N.eqb x 117%N) && peek_is 123%N t) eqn:U.
    - pose proof (p_escape_u_weak _ _ _ _ H) as [_ L1]. pose proof (opt_eat_weak 123%N t) as [_ L2].
      apply andb_true_iff in U as [U1 U2].
      assert (L3 : len t = S (len (opt_eat 123%N t))).
      { unfold opt_eat, eat, peek_is in *. destruct t as [|y t']; [discriminate|]. rewrite U2. reflexivity. }
      cbn [List.length] in *. destruct n as [|n]; [lia|]. cbn [firstn]. rewrite LK.
      assert (P : peek_is 123%N (firstn n t) = true).
      { unfold peek_is in *. destruct t as [|y t']; [discriminate|]. destruct n as [|n]; [cbn [List.length] in *; lia|]. exact U2. }
      rewrite U1, P. cbn [andb]. rewrite opt_eat_trunc by lia. rewrite (p_escape_u_trunc _ _ _ H) by lia. cuteq.
    - destruct (N.eqb x 120%N) eqn:X.
      + pose proof (p_escape_x_weak _ _ _ _ _ H) as [_ L1]. cbn [List.length] in *.
        destruct n as [|n]; [lia|]. cbn [firstn]. rewrite LK.
        assert (U' : (N.eqb x 117%N) && peek_is 123%N (firstn n t) = false).
        { apply N.eqb_eq in X. subst x. reflexivity. }
        rewrite U', X. rewrite (p_escape_x_trunc _ _ _ _ H n) by lia. cuteq.
      + inversion H; subst; clear H. cbn [List.length] in *. destruct n as [|n]; [lia|]. cbn [firstn]. rewrite LK.
        assert (U' : (N.eqb c 117%N) && peek_is 123%N (firstn n r) = false).
        { apply andb_false_iff in U as [U|U]; [now rewrite U|]. apply andb_false_iff. right.
          unfold peek_is in *. destruct r as [|y r']; [now rewrite firstn_nil|]. destruct n; [reflexivity|exact U]. }
        rewrite U', X. cuteq.
  Qed.

  Lemma mq_body_trunc f q k s b r : mq_body T f q k s = Some (b, r) -> forall n, len s - len r <= n ->
    mq_body T f q k (firstn n s) = Some (b, cut n s r).
  Proof.
    revert s b r; induction f as [|f IH]; intros s b r H n Hn; cbn [mq_body] in H; [discriminate|]. cbn [mq_body].
    destruct (take_quotes q k s) as [r0|] eqn:E0.
    - inversion H; subst; clear H. now rewrite (take_quotes_trunc _ _ _ _ E0 n Hn).
    - rewrite take_quotes_none_trunc by exact E0.
      destruct s as [|c t]; [discriminate|].
      destruct (N.eqb c 92%N) eqn:B.
      + destruct (p_escape T t) as [e r1] eqn:E1.
        destruct (mq_body T f q k r1) as [[b' r2]|] eqn:E2; [|discriminate]. inversion H; subst; clear H.
        pose proof (p_escape_weak _ _ _ _ E1) as [_ L1]. pose proof (mq_body_weak _ _ _ _ _ _ _ E2) as [_ L2].
        cbn [List.length] in *. destruct n as [|n]; [lia|]. cbn [firstn]. rewrite B.
        destruct t as [|y t'].
        * (* backslash at the very end: p_escape [] = (92, []), then the body must still close: impossible *)
          cbn in E1. inversion E1; subst. destruct k; [cbn in E0; discriminate|]. destruct f; cbn in E2; discriminate.
        * rewrite (p_escape_trunc _ _ _ E1) by (try discriminate; cbn [List.length] in *; lia).
          rewrite (IH _ _ _ E2) by (cbn [List.length] in *; lia). cuteq.
      + destruct (mq_body T f q k t) as [[b' r2]|] eqn:E2; [|discriminate]. inversion H; subst; clear H.
        pose proof (mq_body_weak _ _ _ _ _ _ _ E2) as [_ L2].
        cbn [List.length] in *. destruct n as [|n]; [lia|]. cbn [firstn]. rewrite B.
        rewrite (IH _ _ _ E2 n) by lia. cuteq.
  Qed.

  (* success does not depend on the fuel once it exceeds the input length *)
  Lemma mq_body_fuel f q k s v : mq_body T f q k s = Some v -> forall g, len s < g -> mq_body T g q k s = Some v.
  Proof.
    revert s v; induction f as [|f IH]; intros s v H g Hg; cbn [mq_body] in H; [discriminate|].
    destruct g as [|g]; [lia|]. cbn [mq_body].
    destruct (take_quotes q k s) as [r0|] eqn:E0; [exact H|].
    destruct s as [|c t]; [discriminate|]. cbn [List.length] in Hg.
    destruct (N.eqb c 92%N).
    - destruct (p_escape T t) as [e r1] eqn:E1. pose proof (p_escape_weak _ _ _ _ E1) as [_ L1].
      destruct (mq_body T f q k r1) as [[b' r2]|] eqn:E2; [|discriminate].
      rewrite (IH _ _ E2 g) by lia. exact H.
    - destruct (mq_body T f q k t) as [[b' r2]|] eqn:E2; [|discriminate].
      rewrite (IH _ _ E2 g) by lia. exact H.
  Qed.

  Lemma p_multi_quoted_trunc q s b r : p_multi_quoted T q s = Some (b, r) -> forall n, len s - len r <= n ->
    p_multi_quoted T q (firstn n s) = Some (b, cut n s r).
  Proof.
    unfold p_multi_quoted. intros H n Hn. destruct (count_prefix q s) as [k r0] eqn:E0.
    pose proof (count_prefix_weak _ _ _ _ E0) as [_ L0].
    destruct k as [|k]; [discriminate|].
    destruct (Nat.even (S k)) eqn:EV.
    - inversion H; subst; clear H. rewrite (count_prefix_trunc _ _ _ _ E0 n Hn). now rewrite EV.
    - pose proof (mq_body_weak _ _ _ _ _ _ _ H) as [_ L1].
      rewrite (count_prefix_trunc _ _ _ _ E0 n) by lia. rewrite EV.
      pose proof (mq_body_trunc _ _ _ _ _ _ H (n - (len s - len r0))) as H'.
      rewrite (mq_body_fuel _ _ _ _ _ (H' ltac:(lia)) (S (len (cut n s r0)))) by lia. cuteq.
  Qed.
  Lemma p_multi_quoted_head q s v : p_multi_quoted T q s = Some v -> exists t, s = q :: t.
  Proof.
    unfold p_multi_quoted. intros H. destruct s as [|c t]; [discriminate|]. cbn [count_prefix] in H.
    destruct (N.eqb c q) eqn:C; [apply N.eqb_eq in C; subst; eauto|discriminate].
  Qed.
  Lemma p_multi_quoted_not_head q s : (match s with c :: _ => N.eqb c q = false | [] => True end) -> p_multi_quoted T q s = None.
  Proof. unfold p_multi_quoted. destruct s as [|c t]; [reflexivity|]. intros H. cbn [count_prefix]. now rewrite H. Qed.

  Lemma p_quoted_trunc s b r : p_quoted T s = Some (b, r) -> forall n, len s - len r <= n ->
    p_quoted T (firstn n s) = Some (b, cut n s r).
  Proof.
    unfold p_quoted, orelse. intros H n Hn. destruct (p_multi_quoted T 34%N s) as [[b0 r0]|] eqn:E.
    - inversion H; subst. now rewrite (p_multi_quoted_trunc _ _ _ _ E n Hn).
    - destruct (p_multi_quoted_head _ _ _ H) as [t ->].
      rewrite (p_multi_quoted_not_head 34%N) by (destruct n; cbn; auto).
      now apply p_multi_quoted_trunc.
  Qed.
  Lemma p_quoted_head s v : p_quoted T s = Some v -> exists c t, s = c :: t /\ is_quote c = true.
  Proof.
    unfold p_quoted, orelse. intros H. destruct (p_multi_quoted T 34%N s) eqn:E.
    - destruct (p_multi_quoted_head _ _ _ E) as [t ->]. eauto.
    - destruct (p_multi_quoted_head _ _ _ H) as [t ->]. eauto.
  Qed.

  Lemma p_string_trunc s l r : p_string T s = Some (l, r) -> forall n, len s - len r <= n ->
    p_string T (firstn n s) = Some (l, cut n s r).
  Proof.
    unfold p_string. intros H n Hn. destruct (p_quoted T s) as [[b r0]|] eqn:E; [|discriminate].
    inversion H; subst. now rewrite (p_quoted_trunc _ _ _ E n Hn).
  Qed.

  Lemma p_interp_trunc s k r : p_interp T s = Some (k, r) -> forall n, len s - len r <= n ->
    p_interp T (firstn n s) = Some (k, cut n s r).
  Proof.
    unfold p_interp. intros H n Hn. destruct s as [|c t]; [discriminate|].
    destruct (c_in c (t_interp T)) eqn:C; [|discriminate].
    destruct (p_quoted T t) as [[b r0]|] eqn:E; [|discriminate]. inversion H; subst; clear H.
    pose proof (p_quoted_strict _ _ _ _ E) as [_ L]. cbn [List.length] in *.
    destruct n as [|n]; [lia|]. cbn [firstn]. rewrite C. rewrite (p_quoted_trunc _ _ _ E n) by lia. cuteq.
  Qed.

  (* ---- based numbers ---- *)
  Lemma p_based_entry_trunc e s l r : p_based_entry e s = Some (l, r) -> forall n, len s - len r <= n ->
    p_based_entry e (firstn n s) = Some (l, cut n s r).
  Proof.
    unfold p_based_entry. destruct e as [pre [base [maxd cls]]]. intros H n Hn.
    destruct (strip_prefix pre s) as [r0|] eqn:E0; [|discriminate].
    destruct (span_while_max (digit_class cls) maxd (opt_eat 95%N r0)) as [[|d ds] r2] eqn:E1; [discriminate|].
    inversion H; subst; clear H. lens. pose proof (opt_eat_weak 95%N r0) as [_ L].
    rewrite (strip_prefix_trunc _ _ _ E0 n) by lia. rewrite opt_eat_trunc by lia.
    rewrite (span_while_max_trunc _ _ _ _ _ E1) by lia. cuteq.
  Qed.
  (* what failed on the long input fails on every prefix *)
  Lemma p_based_entry_none_trunc e s : p_based_entry e s = None -> forall n, p_based_entry e (firstn n s) = None.
  Proof.
    unfold p_based_entry. destruct e as [pre [base [maxd cls]]]. intros H n.
    destruct (strip_prefix pre s) as [r0|] eqn:E0; [|now rewrite strip_prefix_none_trunc].
    destruct (strip_prefix pre (firstn n s)) as [r0'|] eqn:E0'; [|reflexivity].
    assert (exists m, r0' = firstn m r0) as [m ->].
    { apply strip_prefix_spec in E0, E0'. subst s.
      destruct (Nat.le_gt_cases (len pre) n) as [G|G].
      - rewrite firstn_app, firstn_all2 in E0' by lia. apply app_inv_head in E0'. eauto.
      - exists 0. rewrite firstn_app in E0'. replace (n - len pre) with 0 in E0' by lia. rewrite firstn_0, app_nil_r in E0'.
        assert (len (firstn n pre) = len (pre ++ r0')) by now rewrite E0'. rewrite firstn_length, app_length in H0.
        destruct r0'; [reflexivity|cbn in H0; lia]. }
    destruct (opt_eat_firstn_cases 95%N m r0) as [m' ->].
    destruct (span_while_max (digit_class cls) maxd (opt_eat 95%N r0)) as [[|d ds] r2] eqn:E1; [|discriminate].
    destruct maxd as [|maxd]; [destruct (firstn m' (opt_eat 95%N r0)); reflexivity|].
    destruct (opt_eat 95%N r0) as [|c t]; [now rewrite firstn_nil|]. destruct m'; [reflexivity|]. cbn [firstn span_while_max] in *.
    destruct (digit_class cls c); [destruct (span_while_max (digit_class cls) maxd t); discriminate|reflexivity].
  Qed.
  Lemma p_based_nth_trunc i s l r : p_based_nth T i s = Some (l, r) -> forall n, len s - len r <= n ->
    p_based_nth T i (firstn n s) = Some (l, cut n s r).
  Proof. unfold p_based_nth. destruct (nth_error (t_based T) i); [apply p_based_entry_trunc|discriminate]. Qed.
  Lemma p_based_nth_none_trunc i s : p_based_nth T i s = None -> forall n, p_based_nth T i (firstn n s) = None.
  Proof. unfold p_based_nth. destruct (nth_error (t_based T) i); [apply p_based_entry_none_trunc|reflexivity]. Qed.
End TruncTables.

(* ---- extension: success on x is success on x ++ z (parsers without optional parts) ---- *)
Lemma eat_ext c x r z : eat c x = Some r -> eat c (x ++ z) = Some (r ++ z).
Proof. intros H. apply eat_inv in H. subst x. cbn. unfold eat. now rewrite N.eqb_refl. Qed.
Lemma span_while_max_full_ext p k x a r z : span_while_max p k x = (a, r) -> len a = k ->
  span_while_max p k (x ++ z) = (a, r ++ z).
Proof.
  revert x a r; induction k as [|k IH]; intros x a r H L; cbn [span_while_max] in H.
  - assert (a = [] /\ r = x) as [-> ->] by (destruct x; inversion H; auto). cbn. destruct (x ++ z); reflexivity.
  - destruct x as [|c t]; [inversion H; subst; discriminate|]. destruct (p c) eqn:Pc; [|inversion H; subst; discriminate].
    destruct (span_while_max p k t) as [a' r'] eqn:E. inversion H; subst. cbn [List.length] in L.
    cbn [app span_while_max]. rewrite Pc. rewrite (IH _ _ _ E) by lia. reflexivity.
Qed.
Lemma p_digits_n_ext k x d r z : p_digits_n k x = Some (d, r) -> p_digits_n k (x ++ z) = Some (d, r ++ z).
Proof.
  unfold p_digits_n. intros H. destruct (span_while_max is_digit k x) as [a r'] eqn:E.
  destruct (Nat.eqb (len a) k) eqn:X; [|discriminate]. inversion H; subst. apply Nat.eqb_eq in X.
  rewrite (span_while_max_full_ext _ _ _ _ _ z E X). now rewrite (proj2 (Nat.eqb_eq _ _) X).
Qed.

Section TruncDate.
  Variable T : tables.

  Lemma p_date_inner_trunc s d r : p_date_inner T s = Some (d, r) -> forall n, len s - len r <= n ->
    p_date_inner T (firstn n s) = Some (d, cut n s r).
  Proof.
    unfold p_date_inner. intros H n Hn.
    destruct (p_digits_n (dd T 0) s) as [[y r0]|] eqn:E0; [|discriminate].
    destruct (eat 45%N r0) as [r1|] eqn:E1; [|discriminate].
    destruct (p_digits_n (dd T 1) r1) as [[m r2]|] eqn:E2; [|discriminate].
    destruct (eat 45%N r2) as [r3|] eqn:E3; [|discriminate].
    destruct (p_digits_n (dd T 2) r3) as [[d0 r4]|] eqn:E4; [|discriminate].
    inversion H; subst; clear H.
    pose proof (p_digits_n_weak _ _ _ _ E0) as [_ L0]. pose proof (p_digits_n_weak _ _ _ _ E2) as [_ L2].
    pose proof (p_digits_n_weak _ _ _ _ E4) as [_ L4]. lens.
    rewrite (p_digits_n_trunc _ _ _ _ E0) by lia. rewrite (eat_trunc _ _ _ E1) by lia.
    rewrite (p_digits_n_trunc _ _ _ _ E2) by lia. rewrite (eat_trunc _ _ _ E3) by lia.
    rewrite (p_digits_n_trunc _ _ _ _ E4) by lia. cuteq.
  Qed.
  Lemma p_date_inner_ext x d r z : p_date_inner T x = Some (d, r) -> p_date_inner T (x ++ z) = Some (d, r ++ z).
  Proof.
    unfold p_date_inner. intros H.
    destruct (p_digits_n (dd T 0) x) as [[y r0]|] eqn:E0; [|discriminate].
    destruct (eat 45%N r0) as [r1|] eqn:E1; [|discriminate].
    destruct (p_digits_n (dd T 1) r1) as [[m r2]|] eqn:E2; [|discriminate].
    destruct (eat 45%N r2) as [r3|] eqn:E3; [|discriminate].
    destruct (p_digits_n (dd T 2) r3) as [[d0 r4]|] eqn:E4; [|discriminate].
    inversion H; subst; clear H.
    rewrite (p_digits_n_ext _ _ _ _ z E0), (eat_ext _ _ _ z E1), (p_digits_n_ext _ _ _ _ z E2), (eat_ext _ _ _ z E3),
      (p_digits_n_ext _ _ _ _ z E4). reflexivity.
  Qed.
  Lemma p_date_inner_none_trunc s : p_date_inner T s = None -> forall n, p_date_inner T (firstn n s) = None.
  Proof.
    intros H n. destruct (p_date_inner T (firstn n s)) as [[d r]|] eqn:E; [|reflexivity].
    apply (p_date_inner_ext _ _ _ (skipn n s)) in E. rewrite firstn_skipn in E. congruence.
  Qed.

  Lemma p_tz_notz s : fst (p_tz T s) = [] -> forall n, p_tz T (firstn n s) = ([], firstn n s).
  Proof.
    unfold p_tz. intros H n. destruct (eat 90%N s) as [r'|] eqn:Z; [cbn in H; discriminate|].
    rewrite eat_none_trunc by exact Z.
    destruct s as [|sg r']; [now rewrite firstn_nil|]. destruct n as [|n]; [reflexivity|]. cbn [firstn].
    destruct ((N.eqb sg 43%N) || (N.eqb sg 45%N)); [|reflexivity].
    destruct (p_digits_n (zd T 0) r') as [[hh r'']|] eqn:D1.
    - destruct (p_digits_n_len _ _ _ _ D1) as [K1 K2].
      destruct (Nat.le_gt_cases (zd T 0) n) as [G|G].
      + rewrite (p_digits_n_trunc _ _ _ _ D1 n) by lia.
        destruct (opt_eat_firstn_cases 58%N (n - (len r' - len r'')) r'') as [m' ->].
        destruct (p_digits_n (zd T 1) (opt_eat 58%N r'')) as [[mm r5]|] eqn:D2; [cbn in H; discriminate|].
        now rewrite p_digits_n_none_trunc.
      + now rewrite p_digits_n_short.
    - now rewrite p_digits_n_none_trunc.
  Qed.
  Lemma p_tz_trunc s d r : p_tz T s = (d, r) -> forall n, len s - len r <= n -> p_tz T (firstn n s) = (d, cut n s r).
  Proof.
    intros H n Hn. destruct d as [|d0 d].
    - assert (r = s) as ->.
      { unfold p_tz in H. destruct (eat 90%N s); [discriminate|]. destruct s as [|sg r']; [inversion H; reflexivity|].
        destruct ((N.eqb sg 43%N) || (N.eqb sg 45%N)); [|inversion H; reflexivity].
        destruct (p_digits_n (zd T 0) r') as [[hh r'']|]; [|inversion H; reflexivity].
        destruct (p_digits_n (zd T 1) (opt_eat 58%N r'')) as [[mm r5]|]; [discriminate|inversion H; reflexivity]. }
      replace (n - (len s - len s)) with n by lia. apply p_tz_notz. now rewrite H.
    - unfold p_tz in *. destruct (eat 90%N s) as [r'|] eqn:Z.
      + inversion H; subst; clear H. now rewrite (eat_trunc _ _ _ Z n Hn).
      + rewrite eat_none_trunc by exact Z. destruct s as [|sg r']; [discriminate|].
        destruct ((N.eqb sg 43%N) || (N.eqb sg 45%N)) eqn:SG; [|discriminate].
        destruct (p_digits_n (zd T 0) r') as [[hh r'']|] eqn:D1; [|discriminate].
        destruct (p_digits_n (zd T 1) (opt_eat 58%N r'')) as [[mm r5]|] eqn:D2; [|discriminate].
        inversion H; subst; clear H.
        pose proof (p_digits_n_weak _ _ _ _ D1) as [_ L1]. pose proof (p_digits_n_weak _ _ _ _ D2) as [_ L2].
        pose proof (opt_eat_weak 58%N r'') as [_ L3]. cbn [List.length] in *.
        destruct n as [|n]; [lia|]. cbn [firstn]. rewrite SG.
        rewrite (p_digits_n_trunc _ _ _ _ D1 n) by lia. rewrite opt_eat_trunc by lia.
        rewrite (p_digits_n_trunc _ _ _ _ D2) by lia. cuteq.
  Qed.

  Lemma p_time_inner_trunc s d r : p_time_inner T s = Some (d, r) -> forall n, len s - len r <= n ->
    p_time_inner T (firstn n s) = Some (d, cut n s r).
  Proof.
    unfold p_time_inner. intros H n Hn.
    destruct (p_digits_n (td T 0) s) as [[h r0]|] eqn:E0; [|discriminate].
    destruct (opt_comp 58%N (p_digits_n (td T 1)) r0) as [mi r1] eqn:E1.
    destruct (opt_comp 58%N (p_digits_n (td T 2)) r1) as [se r2] eqn:E2.
    destruct (opt_comp 46%N (p_digits_1_max (t_ms_max T)) r2) as [ms r3] eqn:E3.
    destruct (p_tz T r3) as [tz r4] eqn:E4. inversion H; subst; clear H.
    pose proof (p_digits_n_weak _ _ _ _ E0) as [_ L0].
    assert (W1 : forall k x y z, p_digits_n k x = Some (y, z) -> len z <= len x) by (intros k x y z Hx; apply (p_digits_n_weak _ _ _ _ Hx)).
    assert (W2 : forall k x y z, p_digits_1_max k x = Some (y, z) -> len z <= len x) by (intros k x y z Hx; apply (p_digits_1_max_weak _ _ _ _ Hx)).
    pose proof (opt_comp_weak _ _ _ _ _ (fun x y z Hx => p_digits_n_weak _ _ _ _ Hx) E1) as [_ L1].
    pose proof (opt_comp_weak _ _ _ _ _ (fun x y z Hx => p_digits_n_weak _ _ _ _ Hx) E2) as [_ L2].
    pose proof (opt_comp_weak _ _ _ _ _ (fun x y z Hx => p_digits_1_max_weak _ _ _ _ Hx) E3) as [_ L3].
    pose proof (p_tz_weak _ _ _ _ E4) as [_ L4].
    rewrite (p_digits_n_trunc _ _ _ _ E0) by lia.
    rewrite (opt_comp_trunc _ _ _ _ _ (p_digits_n_trunc _) (p_digits_n_none_trunc _) (W1 _) E1) by lia.
    rewrite (opt_comp_trunc _ _ _ _ _ (p_digits_n_trunc _) (p_digits_n_none_trunc _) (W1 _) E2) by lia.
    rewrite (opt_comp_trunc _ _ _ _ _ (p_digits_1_max_trunc _) (p_digits_1_max_none_trunc _) (W2 _) E3) by lia.
    rewrite (p_tz_trunc _ _ _ E4) by lia. cuteq.
  Qed.
End TruncDate.

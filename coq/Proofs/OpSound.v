(* Per-operator soundness of the SQL emitted for the executable dialects (sqlite, generic): the value of
   the template / construct in SQLite's semantics (Model/SqlSem.v) against the documented meaning
   (Model/EvalDoc.v).  The trees are computed from the generated tables, so a changed template re-opens
   these proofs. *)
From Coq Require Import List NArith ZArith QArith Qround Qabs Bool Lia.
From PV Require Import Lib.ListX Model.Value Model.Pratt Model.PrqlExpr Model.StaticEval Model.SqlGrammar Model.SqlTree
                       Model.SqlPrint Model.SqlSem Model.EvalDoc Gen.GenPratt.
Import ListNotations.
Local Open Scope Z_scope.

Definition a_ := PCol 0.
Definition b_ := PCol 1.
Definition c_ := PCol 2.
Definition is_num (v : val) : Prop := match v with VStr _ => False | _ => True end.

(* atoms and functions of the emitted text, evaluated once *)
Lemma eva_col env (i : N) : (i < 26)%N -> sql_eva env (AText [(97 + i)%N]) = SV (nth (N.to_nat i) env VNull).
Proof.
  intros H. assert (K : In i (map N.of_nat (seq 0 26))).
  { apply in_map_iff. exists (N.to_nat i). split; [apply N2Nat.id|]. apply in_seq. lia. }
  cbn in K. repeat (destruct K as [<-|K]; [reflexivity|]). contradiction.
Qed.
Lemma eva_a env : sql_eva env (AText [97%N]) = SV (nth 0 env VNull). Proof. reflexivity. Qed.
Lemma eva_b env : sql_eva env (AText [98%N]) = SV (nth 1 env VNull). Proof. reflexivity. Qed.
Lemma eva_c env : sql_eva env (AText [99%N]) = SV (nth 2 env VNull). Proof. reflexivity. Qed.
Lemma eva_one env : sql_eva env (AText [49;46;48]%N) = SV (VRat 1). Proof. vm_compute. reflexivity. Qed.
Lemma eva_half env : sql_eva env (AText [48;46;53]%N) = SV (VRat (1 # 2)). Proof. vm_compute. reflexivity. Qed.
Lemma eva_null env : sql_eva env (AText s_null) = SV VNull. Proof. reflexivity. Qed.
Lemma evf_round x : sql_evf (FName f_round) [SV x] = opt_sv (fn_round x). Proof. reflexivity. Qed.
Lemma evf_abs x : sql_evf (FName f_abs) [SV x] = opt_sv (fn_abs x). Proof. reflexivity. Qed.
Lemma evf_sign x : sql_evf (FName f_sign) [SV x] = opt_sv (fn_sign x). Proof. reflexivity. Qed.
Lemma evf_floor x : sql_evf (FName f_floor) [SV x] = opt_sv (fn_floor x). Proof. reflexivity. Qed.
Lemma evf_coalesce x y : sql_evf (FName f_coalesce) [SV x; SV y] = SV (eval_bop Coalesce x y). Proof. reflexivity. Qed.

Ltac compute_tree := unfold sql_value;
  match goal with |- context [intended_reading ?d ?e] =>
    let r := fresh "r" in set (r := intended_reading d e); vm_compute in r; subst r end;
  unfold eval_sql, eval_sv; cbn [Pratt.eval map];
  rewrite ?eva_a, ?eva_b, ?eva_c, ?eva_one, ?eva_half;
  change (sql_eva ?e (AText [78;85;76;76]%N)) with (sql_eva e (AText s_null)); rewrite ?eva_null;
  cbn [nth sql_ev sql_evu lift2];
  change (FName [82;79;85;78;68]%N) with (FName f_round); change (FName [65;66;83]%N) with (FName f_abs);
  change (FName [83;73;71;78]%N) with (FName f_sign); change (FName [70;76;79;79;82]%N) with (FName f_floor);
  change (FName [67;79;65;76;69;83;67;69]%N) with (FName f_coalesce).

Lemma qeq_inject b : Qeq_bool (inject_Z b) 0 = (b =? 0).
Proof. unfold Qeq_bool, inject_Z. cbn. rewrite Z.mul_1_r. destruct b; reflexivity. Qed.

(* ---- `/` is real division ---- *)
Theorem div_f_real_sqlite x y : is_num x -> is_num y ->
  sql_value d_sqlite (PBinE B_DivFloat a_ b_) [x; y] = eval_doc [x; y] (PBinE B_DivFloat a_ b_).
Proof.
  intros Hx Hy. compute_tree. cbn [eval_doc a_ b_ is_eq_op is_null_lit nth orb eval_binop eval_bop].
  destruct x as [|a|p|s], y as [|b|q|t]; try contradiction; cbn [arith to_q sql_div]; try reflexivity;
    rewrite ?qeq_inject;
    match goal with |- context [if ?c then _ else _] => destruct c end; try reflexivity;
    do 2 f_equal; apply Qred_complete; rewrite Qred_correct, Qmult_1_r; reflexivity.
Qed.

(* generic: plain `l / r` -- SQLite (like Postgres, SQL Server) divides integers as integers (F16) *)
Theorem div_f_real_generic_refuted :
  exists x y, is_num x /\ is_num y /\
  sql_value d_generic (PBinE B_DivFloat a_ b_) [x; y] <> eval_doc [x; y] (PBinE B_DivFloat a_ b_).
Proof. exists (VInt 7), (VInt 2). repeat split. vm_compute. discriminate. Qed.

Definition is_int (v : val) : bool := match v with VInt _ => true | _ => false end.
Theorem div_f_real_generic_partial x y : is_num x -> is_num y -> is_int x && is_int y = false ->
  sql_value d_generic (PBinE B_DivFloat a_ b_) [x; y] = eval_doc [x; y] (PBinE B_DivFloat a_ b_).
Proof.
  intros Hx Hy NI. compute_tree. cbn [eval_doc a_ b_ is_eq_op is_null_lit nth orb eval_binop eval_bop].
  destruct x as [|a|p|s], y as [|b|q|t]; try contradiction; try discriminate NI; reflexivity.
Qed.

(* ---- `%` ---- *)
Theorem mod_sound d x y : d = d_sqlite \/ d = d_generic -> is_int x && is_int y = true ->
  sql_value d (PBinE B_Mod a_ b_) [x; y] = eval_doc [x; y] (PBinE B_Mod a_ b_).
Proof.
  intros [-> | ->] I; compute_tree; destruct x, y; try discriminate I; reflexivity.
Qed.

(* ---- `//` truncates toward zero ---- *)
Lemma quot_sign a b : b <> 0 -> Z.abs (Z.quot a b) * Z.sgn a * Z.sgn b = Z.quot a b.
Proof.
  intros Hb. rewrite (Z.quot_div a b Hb).
  assert (M : 0 <= Z.abs a / Z.abs b) by (apply Z.div_pos; lia).
  set (m := Z.abs a / Z.abs b) in *.
  destruct a as [|p|p], b as [|q|q]; try congruence; cbn [Z.sgn]; try lia.
Qed.


Theorem div_i_trunc_generic x y : is_int x && is_int y = true ->
  sql_value d_generic (PBinE B_DivInt a_ b_) [x; y] = eval_doc [x; y] (PBinE B_DivInt a_ b_).
Proof.
  intros I. destruct x as [|a| |], y as [|b| |]; try discriminate I. compute_tree.
  cbn [eval_doc a_ b_ is_eq_op is_null_lit nth orb eval_binop divi_val arith sql_div].
  destruct (b =? 0) eqn:B0.
  - reflexivity.
  - rewrite evf_abs. cbn [fn_abs opt_sv]. rewrite evf_floor, !evf_sign. cbn [fn_floor fn_sign opt_sv lift2 arith].
    apply Z.eqb_neq in B0. rewrite quot_sign by exact B0. reflexivity.
Qed.

(* sqlite: ROUND(ABS(l / r) - 0.5) * SIGN(l) * SIGN(r) with SQLite's integer `/` (F1) *)
Theorem div_i_trunc_sqlite_refuted :
  exists x y, is_int x && is_int y = true /\
  sql_value d_sqlite (PBinE B_DivInt a_ b_) [x; y] = Some (VRat (-1 # 1)) /\
  eval_doc [x; y] (PBinE B_DivInt a_ b_) = Some (VInt 0).
Proof. exists (VInt 1), (VInt 2). repeat split; vm_compute; reflexivity. Qed.

Lemma round_half n : 1 <= n -> round_half_away (Qred (inject_Z n - (1 # 2))) = n.
Proof.
  intros H. unfold round_half_away.
  assert (P : Qle_bool 0 (Qred (inject_Z n - (1 # 2))) = true).
  { apply Qle_bool_iff. rewrite Qred_correct. unfold Qle, Qminus, Qplus, Qopp, inject_Z. cbn. lia. }
  rewrite P.
  assert (E : Qred (inject_Z n - (1 # 2)) + (1 # 2) == inject_Z n) by (rewrite Qred_correct; ring).
  rewrite E. apply Qfloor_Z.
Qed.

Theorem div_i_trunc_sqlite_partial a b : b <> 0 -> Z.abs b <= Z.abs a ->
  exists r, sql_value d_sqlite (PBinE B_DivInt a_ b_) [VInt a; VInt b] = Some (VRat r) /\ r == inject_Z (Z.quot a b).
Proof.
  intros B0 AB. compute_tree. cbn [arith sql_div]. rewrite (proj2 (Z.eqb_neq b 0) B0).
  rewrite evf_abs. cbn [fn_abs opt_sv lift2 arith to_q].
  rewrite evf_round, !evf_sign. cbn [fn_round fn_sign opt_sv lift2 arith to_q].
  eexists. split; [reflexivity|].
  assert (N : 1 <= Z.abs (Z.quot a b)).
  { rewrite <- (Z.quot_abs a b B0). rewrite Z.quot_div_nonneg by lia. apply Z.div_le_lower_bound; lia. }
  rewrite (round_half _ N). rewrite !Qred_correct. rewrite <- !inject_Z_mult. rewrite quot_sign by exact B0. reflexivity.
Qed.

(* ---- null tests, coalesce, between, case ---- *)
Theorem is_null_sound d x : d = d_sqlite \/ d = d_generic ->
  sql_value d (PBinE B_Eq a_ (PLit LNull)) [x] = eval_doc [x] (PBinE B_Eq a_ (PLit LNull)) /\
  sql_value d (PBinE B_Ne a_ (PLit LNull)) [x] = eval_doc [x] (PBinE B_Ne a_ (PLit LNull)) /\
  sql_value d (PBinE B_Eq (PLit LNull) a_) [x] = eval_doc [x] (PBinE B_Eq (PLit LNull) a_).
Proof. intros [-> | ->]; repeat split; compute_tree; destruct x; reflexivity. Qed.

Theorem coalesce_sound d x y : d = d_sqlite \/ d = d_generic ->
  sql_value d (PBinE B_Coalesce a_ b_) [x; y] = eval_doc [x; y] (PBinE B_Coalesce a_ b_).
Proof. intros [-> | ->]; compute_tree; rewrite evf_coalesce; reflexivity. Qed.

Theorem between_sound d x y z : d = d_sqlite \/ d = d_generic ->
  sql_value d (PIn a_ (Some b_) (Some c_)) [x; y; z] = eval_doc [x; y; z] (PIn a_ (Some b_) (Some c_)) /\
  sql_value d (PIn a_ (Some b_) None) [x; y; z] = eval_doc [x; y; z] (PIn a_ (Some b_) None) /\
  sql_value d (PIn a_ None (Some c_)) [x; y; z] = eval_doc [x; y; z] (PIn a_ None (Some c_)).
Proof. intros [-> | ->]; repeat split; compute_tree; reflexivity. Qed.

Theorem case_else_sound d x y z : d = d_sqlite \/ d = d_generic ->
  sql_value d (PCase [(a_, b_); (PLit (LBool true), c_)]) [x; y; z] = eval_doc [x; y; z] (PCase [(a_, b_); (PLit (LBool true), c_)]) /\
  sql_value d (PCase [(a_, b_)]) [x; y; z] = eval_doc [x; y; z] (PCase [(a_, b_)]).
Proof.
  intros [-> | ->]; split; compute_tree; cbn [sql_evf case_eval eval_doc a_ b_ c_ nth lit_val];
    destruct (Value.is_true x); reflexivity.
Qed.


(* C14 -- the print/parse round trip of the formatter model (Model/Fmt.v) through the parser model
   (Model/FmtPratt.v), for arbitrary tables satisfying a finite compatibility condition. *)
From Coq Require Import List NArith Bool Arith Lia.
From PV Require Import Lib.ListX Model.FmtLit Model.FmtPratt Model.Fmt Proofs.FmtPrattProofs.
Import ListNotations.

Set Warnings "-unused-intro-pattern".
Local Arguments N.max : simpl never.
Local Arguments N.ltb : simpl never.
Local Arguments N.eqb : simpl never.
Local Arguments Nat.leb : simpl never.

(* ------------------------------------------------------------------ unfolding the printer *)
Section Unfold.
  Variable F : ftab.

  Definition fmt_args (c : N) (pos : position) (args : list expr) : list tok :=
    flat_map (fun a => fmt F a (c, pos, true)) args.

  Fixpoint fmt_items (k : gkind) (pos : position) (es : list expr) (i : nat) : list tok :=
    match es with
    | [] => []
    | [a] => fmt F a (item_ctx F k, pos, false)
    | a :: t => fmt F a (item_ctx F k, pos, false) ++ sep_of k i :: fmt_items k pos t (S i)
    end.

  (* the parameters of a lambda that carry a default value: `k:d`, written at context c *)
  Definition fmt_defaults (c : N) (unb : bool) (ds : list expr) : list tok :=
    flat_map (fun d => match d with ENamed k x => TNamed k :: fmt F x (c, PUnspec, unb) | _ => [] end) ds.

  (* `start.kind` *)
  Definition kind_of (e : expr) : expr := match e with EAlias _ k => k | _ => e end.

  (* the start of a range: parentheses keep a parameter apart from the following `..` *)
  Definition range_start (l : expr) (ctx : N) (unb : bool) : list tok :=
    let ts := fmt F l (N.max ctx (bs_rng F), PUnspec, unb) in
    if ends_close ts then ts else
    match kind_of l with
    | EAtom (AParam _) => TOpen GPipe :: ts ++ [TClose GPipe]
    | EUn u x =>
        if is_param (kind_of x)
        then TS (sym_un F u) true :: TOpen GPipe :: fmt F x (N.max ctx (bs_un F), PUnspec, unb) ++ [TClose GPipe]
        else ts
    | _ => ts
    end.

  (* what `self.kind.write(opt)` emits *)
  Definition kind_fmt (e : expr) (st : state) : list tok :=
    let '(ctx, pos, unb) := st in
    match e with
    | EAtom a => [TA a]
    | EBin o l r =>
        let c := N.max ctx (bs_bin F o) in
        fmt F l (c, PLeft, unb) ++ TS (sym_bin F o) false :: fmt F r (c, PRight, unb)
    | EUn u x => TS (sym_un F u) true :: fmt F x (N.max ctx (bs_un F), PUnspec, unb)
    | ERng l r => range_start l ctx unb ++ TRg true true :: fmt F r (N.max ctx (bs_rng F), PUnspec, unb)
    | ERngL l => range_start l ctx unb ++ [TRg true false]
    | ERngR r => TRg false true :: fmt F r (N.max ctx (bs_rng F), PUnspec, unb)
    | ERng0 => [TRg false false]
    | ECall f args =>
        fmt F f (N.max (no_alias F f ctx) (bs_call F), PUnspec, unb) ++ fmt_args (N.max ctx (bs_call F)) PUnspec args
    | EGroup k es => TOpen k :: fmt_items k PUnspec es O ++ [TClose k]
    | EFunc ps ds b =>
        TFunc :: map (fun p => TA (APar p)) ps ++ fmt_defaults (N.max ctx (default_ctx F)) unb ds ++
        TThin :: fmt F b (N.max ctx (body_ctx F), PUnspec, unb)
    | EAlias _ _ | ENamed _ _ => []
    end.

  Definition inner_state (st : state) (w : bool) : state :=
    let '(ctx, pos, unb) := st in if w then (0%N, pos, false) else st.

  Lemma fmt_eq e st :
    fmt F e st =
    match e with
    | EAlias n x =>
        let '(ctx, pos, unb) := st in
        if (alias_ctx F <? ctx)%N then TOpen GPipe :: TAlias n :: fmt F x (0%N, pos, false) ++ [TClose GPipe]
        else TAlias n :: fmt F x (ctx, pos, false)
    | ENamed n x => let '(ctx, pos, unb) := st in TNamed n :: fmt F x (no_alias F x ctx, pos, unb)
    | _ => wrap (needs F st e) (kind_fmt e (inner_state st (needs F st e)))
    end.
  Proof.
    destruct st as [[ctx pos] unb].
    destruct e as [a|o l r|u x|l r|l|r| |f args|k es|n x|n x|ps ds b]; cbn [fmt kind_fmt inner_state]; try reflexivity;
      try (destruct (needs F (ctx, pos, unb) _); reflexivity).
    - (* EGroup *)
      assert (G : forall l i,
        (fix go (l : list expr) (i : nat) {struct l} : list tok :=
           match l with
           | [] => []
           | [a] => fmt F a (item_ctx F k, PUnspec, false)
           | a :: (_ :: _) as t => fmt F a (item_ctx F k, PUnspec, false) ++ sep_of k i :: go t (S i)
           end) l i = fmt_items k PUnspec l i).
      { induction l as [|a t IH]; intros i; cbn [fmt_items]; [reflexivity|].
        destruct t; [reflexivity|]. rewrite IH. reflexivity. }
      destruct (needs F (ctx, pos, unb) (EGroup k es)); cbn [wrap]; rewrite G; reflexivity.
  Qed.
End Unfold.

(* ------------------------------------------------------------------ the round trip *)
Section RoundTrip.
  Variable F : ftab.
  Variable T : ptab.
  Variable nb nu : nat.          (* number of binary / unary operators: indices below are "in range" *)

  Notation bs := (bs_bin F).

  Notation unwrapped_at := (Fmt.unwrapped_at F).

  (* the compatibility facts (each a finite check over the operator tables; see `compat` below) *)
  Record compat_facts : Prop := {
    H_bin_sym : forall o, o < nb -> bin_of_sym T (sym_bin F o) = Some o;
    H_un_sym : forall u, u < nu -> un_of_sym T (sym_un F u) = Some u;
    H_cbl : forall u, u < nu -> cbl F u = false -> bin_of_sym T (sym_un F u) = None;
    H_left : forall o o2, o < nb -> o2 < nb -> unwrapped_at (bs o) PLeft o2 = true -> lbp T o < rbp T o2;
    H_right : forall o o2, o < nb -> o2 < nb -> unwrapped_at (bs o) PRight o2 = true -> rbp T o <= lbp T o2;
    H_edge : forall o2 o', o2 < nb -> o' < nb -> lbp T o' < lbp T o2 -> lbp T o' < rbp T o2;
    H_adj : forall o, o < nb -> rbp T o <= S (lbp T o);
    H_call_bin : forall o, o < nb -> (bs_call F <= bs o)%N;
    H_call_un : (bs_call F <= bs_un F)%N;
    H_call_rng : (bs_call F <= bs_rng F)%N;
    H_bin_un : forall o, o < nb -> (bs o < bs_un F)%N;
    H_rng_un : (bs_rng F <= bs_un F)%N;
    H_bin_rng : forall o, o < nb -> (bs o <= bs_rng F)%N;
    H_pos_bin : forall o, o < nb -> (0 < bs o)%N;
    H_pos_other : (0 < bs_un F)%N /\ (0 < bs_rng F)%N /\ (0 < bs_call F)%N /\ (0 < bs_other F)%N;
    (* an aliased expression is parenthesised as operand, range bound, callee and named-argument value ... *)
    H_alias_bin : forall o, o < nb -> (alias_ctx F < bs o)%N;
    H_alias_un : (alias_ctx F < bs_un F)%N;
    H_alias_rng : (alias_ctx F < bs_rng F)%N;
    H_alias_no : (alias_ctx F < noalias_ctx F)%N;
    (* ... and stays bare as a positional argument *)
    H_alias_call : (bs_call F <= alias_ctx F)%N;
    (* a lambda is weaker than a call, hence parenthesised as operand, bound, argument and callee; it is parenthesised
       as case branch and as lambda body; calls, lambdas and aliased expressions are parenthesised as default values *)
    H_func_pos : (0 < bs_func F)%N;
    H_func_call : (bs_func F <= bs_call F)%N;
    H_func_case : (bs_func F <= case_ctx F)%N;
    H_func_body : (bs_func F <= body_ctx F)%N;
    H_call_default : (bs_call F <= default_ctx F)%N;
    H_alias_default : (alias_ctx F < default_ctx F)%N;
    (* an annotation is read by `expr()`: calls (hence lambdas) and aliased expressions are parenthesised *)
    H_call_annot : (bs_call F <= annot_ctx F)%N;
    H_alias_annot : (alias_ctx F < annot_ctx F)%N;
  }.
  Hypothesis C : compat_facts.

  Notation ops_ok := (FmtPratt.ops_ok nb nu).

  Lemma expr_ind2 (P : expr -> Prop) :
    (forall a, P (EAtom a)) -> (forall o l r, P l -> P r -> P (EBin o l r)) -> (forall u x, P x -> P (EUn u x)) ->
    (forall l r, P l -> P r -> P (ERng l r)) -> (forall l, P l -> P (ERngL l)) -> (forall r, P r -> P (ERngR r)) -> P ERng0 ->
    (forall f args, P f -> Forall P args -> P (ECall f args)) -> (forall k es, Forall P es -> P (EGroup k es)) ->
    (forall n x, P x -> P (EAlias n x)) -> (forall n x, P x -> P (ENamed n x)) ->
    (forall ps ds b, Forall P ds -> P b -> P (EFunc ps ds b)) -> forall e, P e.
  Proof.
    intros HA HB HU HR HRL HRR HR0 HC HG HAl HN HF. fix IH 1.
    intros [a|o l r|u x|l r|l|r| |f args|k es|n x|n x|ps ds b].
    - apply HA. - apply HB; apply IH. - apply HU; apply IH. - apply HR; apply IH. - apply HRL; apply IH.
    - apply HRR; apply IH. - apply HR0.
    - apply HC; [apply IH|]. induction args as [|a t IHt]; constructor; [apply IH | exact IHt].
    - apply HG. induction es as [|a t IHt]; constructor; [apply IH | exact IHt].
    - apply HAl; apply IH. - apply HN; apply IH.
    - apply HF; [|apply IH]. induction ds as [|a t IHt]; constructor; [apply IH | exact IHt].
  Qed.

  Lemma go_forall (p : expr -> bool) l :
    (fix go (l : list expr) : bool := match l with [] => true | a :: t => p a && go t end) l = forallb p l.
  Proof. induction l as [|a t IH]; [reflexivity|]. cbn [forallb]. rewrite <- IH. reflexivity. Qed.
  Lemma go_exists (p : expr -> bool) l :
    (fix go (l : list expr) : bool := match l with [] => false | a :: t => p a || go t end) l = existsb p l.
  Proof. induction l as [|a t IH]; [reflexivity|]. cbn [existsb]. rewrite <- IH. reflexivity. Qed.

  (* ---------------- aliased operands *)
  (* an alias is written in parentheses (`wrapped`) wherever the state is above alias_ctx (`okst`) *)
  Definition wrapped (st : state) (e : expr) : bool := is_alias e || needs F st e.
  Definition okst (e : expr) (st : state) : Prop := is_alias e = true -> (alias_ctx F < fst (fst st))%N.

  Lemma okst_plain e st : plain e = true -> okst e st.
  Proof. intros Hp Ha. unfold plain in Hp. rewrite Ha in Hp. discriminate Hp. Qed.
  Lemma okst_lt e ctx pos unb : (alias_ctx F < ctx)%N -> okst e (ctx, pos, unb).
  Proof. intros H _. exact H. Qed.
  Lemma wrapped_plain e st : plain e = true -> wrapped st e = needs F st e.
  Proof. intro Hp. unfold wrapped. unfold plain in Hp. apply andb_true_iff in Hp as [Hp _]. apply negb_true_iff in Hp. rewrite Hp. reflexivity. Qed.
  Lemma plain_operand e : plain e = true -> operand e = true.
  Proof. unfold plain, operand. intro H. apply andb_true_iff in H as [_ H]. exact H. Qed.
  Lemma plain_not_alias e : plain e = true -> is_alias e = false.
  Proof. unfold plain. intro H. apply andb_true_iff in H as [H _]. apply negb_true_iff in H. exact H. Qed.
  Lemma operand_cases e : operand e = true -> plain e = true \/ exists n x, e = EAlias n x.
  Proof. destruct e; cbn; intro H; try discriminate; auto. right. eexists _, _. reflexivity. Qed.

  Lemma ends_close_snoc ts : ends_close (ts ++ [TClose GPipe]) = true.
  Proof. unfold ends_close. rewrite last_last. reflexivity. Qed.
  Lemma ends_close_cons_snoc t ts : ends_close (t :: ts ++ [TClose GPipe]) = true.
  Proof. change (t :: ts ++ [TClose GPipe]) with ((t :: ts) ++ [TClose GPipe]). apply ends_close_snoc. Qed.

  Lemma fmt_alias_hi n x ctx pos unb : (alias_ctx F < ctx)%N ->
    fmt F (EAlias n x) (ctx, pos, unb) = TOpen GPipe :: TAlias n :: fmt F x (0%N, pos, false) ++ [TClose GPipe].
  Proof. intro H. rewrite fmt_eq. apply N.ltb_lt in H. rewrite H. reflexivity. Qed.
  Lemma fmt_alias_lo n x ctx pos unb : (ctx <= alias_ctx F)%N ->
    fmt F (EAlias n x) (ctx, pos, unb) = TAlias n :: fmt F x (ctx, pos, false).
  Proof. intro H. rewrite fmt_eq. apply N.ltb_ge in H. rewrite H. reflexivity. Qed.

  (* the callee / a named-argument value is written at a context that parenthesises an alias and every call *)
  Lemma no_alias_ok x ctx pos unb : okst x (N.max (no_alias F x ctx) (bs_call F), pos, unb).
  Proof.
    intros Ha. cbn [fst]. unfold no_alias. replace (is_alias_e x) with (is_alias x) by (destruct x; reflexivity). rewrite Ha.
    pose proof (H_alias_no C). lia.
  Qed.
  Lemma no_alias_plain x ctx : is_alias x = false -> no_alias F x ctx = ctx.
  Proof. intro H. unfold no_alias. replace (is_alias_e x) with (is_alias x) by (destruct x; reflexivity). rewrite H. reflexivity. Qed.

  (* which of its three shapes the start of a range takes *)
  Lemma range_start_cases l ctx unb :
    let st := (N.max ctx (bs_rng F), PUnspec, unb) in
    range_start F l ctx unb = fmt F l st \/
    (exists s, l = EAtom (AParam s) /\ range_start F l ctx unb = TOpen GPipe :: fmt F l st ++ [TClose GPipe]) \/
    (exists u p, l = EUn u (EAtom (AParam p)) /\ needs F st l = false /\
       range_start F l ctx unb =
         TS (sym_un F u) true :: TOpen GPipe :: fmt F (EAtom (AParam p)) (N.max ctx (bs_un F), PUnspec, unb) ++ [TClose GPipe]).
  Proof.
    intros st. unfold range_start. fold st.
    destruct (ends_close (fmt F l st)) eqn:EC; [left; reflexivity|].
    destruct l as [a|o l1 r1|u x|l1 r1|l1|r1| |f args|k es|n x|n x|ps ds b]; cbn [kind_of]; try (left; reflexivity).
    - destruct a; try (left; reflexivity). right; left. eexists; split; reflexivity.
    - destruct (is_param (kind_of x)) eqn:EP; [|left; reflexivity].
      assert (EN : needs F st (EUn u x) = false).
      { destruct (needs F st (EUn u x)) eqn:EN; [|reflexivity]. rewrite fmt_eq, EN in EC. cbn [wrap] in EC.
        rewrite ends_close_cons_snoc in EC. discriminate EC. }
      destruct x as [a|o2 l2 r2|u2 x2|l2 r2|l2|r2| |f2 args2|k2 es2|n2 x2|n2 x2|ps ds b]; cbn [kind_of is_param] in EP; try discriminate EP.
      + destruct a; try discriminate EP. right; right. exists u, s. split; [reflexivity|]. split; [exact EN | reflexivity].
      + exfalso. rewrite fmt_eq, EN in EC. unfold st in EC. cbn [wrap inner_state kind_fmt] in EC.
        rewrite fmt_alias_hi in EC by (pose proof (H_alias_un C); lia).
        change (TS (sym_un F u) true :: TOpen GPipe :: TAlias n2 :: fmt F x2 (0%N, PUnspec, false) ++ [TClose GPipe])
          with (TS (sym_un F u) true :: (TOpen GPipe :: TAlias n2 :: fmt F x2 (0%N, PUnspec, false)) ++ [TClose GPipe]) in EC.
        rewrite ends_close_cons_snoc in EC. discriminate EC.
    - exfalso. unfold st in EC. rewrite fmt_alias_hi in EC by (pose proof (H_alias_rng C); lia).
      change (TOpen GPipe :: TAlias n :: fmt F x (0%N, PUnspec, false) ++ [TClose GPipe])
        with (TOpen GPipe :: (TAlias n :: fmt F x (0%N, PUnspec, false)) ++ [TClose GPipe]) in EC.
      rewrite ends_close_cons_snoc in EC. discriminate EC.
  Qed.

  (* ---------------- strengths *)
  Lemma needs_reset e pos : plain e = true -> ops_ok e = true -> needs F (0%N, pos, false) e = false.
  Proof.
    intros _ Ho. unfold needs. cbn [andb orb].
    destruct C as [_ _ _ _ _ _ _ _ _ _ _ _ _ Hpb [Hu [Hr [Hc Hot]]] _ _ _ _ _].
    assert (0 < strength F e)%N as Hs.
    { destruct e; cbn [strength]; try assumption. cbn [ops_ok] in Ho. apply andb_true_iff in Ho as [Ho _].
      apply andb_true_iff in Ho as [Ho _]. apply Nat.ltb_lt in Ho. apply Hpb; exact Ho. }
    destruct (N.ltb_spec (strength F e) 0); [lia|]. destruct (N.eqb_spec (strength F e) 0); [lia|]. reflexivity.
  Qed.

  (* when a node is not wrapped, the context does not exceed its strength: max ctx (strength e) = strength e *)
  Lemma ctx_le st e : needs F st e = false -> (fst (fst st) <= strength F e)%N.
  Proof.
    destruct st as [[ctx pos] unb]. unfold needs. cbn [fst]. intro H.
    apply orb_false_iff in H as [H _]. apply orb_false_iff in H as [_ H].
    apply N.ltb_ge in H. exact H.
  Qed.
  Lemma inner_ctx st e : (N.max (fst (fst (inner_state st (needs F st e)))) (strength F e) = strength F e)%N.
  Proof.
    destruct (needs F st e) eqn:E; destruct st as [[ctx pos] unb]; cbn [inner_state fst].
    - apply N.max_r. lia.
    - apply N.max_r. apply (ctx_le (ctx, pos, unb)). exact E.
  Qed.

  (* ---------------- the first token of a printed expression *)
  Definition head_ok (unb : bool) (t : tok) : Prop :=
    match t with
    | TA _ | TOpen _ => True
    | TRg bl _ => bl = false
    | TS s _ => un_of_sym T s <> None /\ (unb = true -> bin_of_sym T s = None)
    | _ => False
    end.

  Ltac bsplit := repeat match goal with H : (_ && _) = true |- _ => apply andb_true_iff in H; destruct H end.

  Lemma wrap_head w ts : w = true -> exists ts', wrap w ts = TOpen GPipe :: ts'.
  Proof. intros ->. cbn [wrap]. eexists; reflexivity. Qed.

  Definition is_func (e : expr) : bool := match e with EFunc _ _ _ => true | _ => false end.

  (* a lambda is parenthesised at every context strength that is not below its own (needs_parenthesis: at equal
     strength only a matching associativity saves the parentheses, and a lambda has none) *)
  Lemma func_needs ctx pos unb e : (bs_func F <= ctx)%N -> is_func e = true -> needs F (ctx, pos, unb) e = true.
  Proof.
    intros Hle Hf. destruct e; try discriminate Hf. unfold needs. cbn [strength assoc can_bind_left].
    destruct (N.ltb_spec (bs_func F) ctx); [rewrite orb_true_r; reflexivity|].
    assert (bs_func F = ctx) as -> by lia. rewrite N.eqb_refl. destruct pos; rewrite orb_true_r; reflexivity.
  Qed.
  (* ... in particular wherever a call would be *)
  Lemma func_wrapped ctx pos unb e : (bs_call F <= ctx)%N -> is_func e = true -> needs F (ctx, pos, unb) e = true.
  Proof. intros Hle Hf. apply func_needs; [pose proof (H_func_call C); lia | exact Hf]. Qed.

  (* the first token of the start of a range, given the first token of the start expression itself *)
  Lemma range_head l ctx unb (dummy : expr) :
    (operand l = true -> wf l = true -> ops_ok l = true ->
       forall st, okst l st -> (is_func l = true -> needs F st l = true) -> exists t ts, fmt F l st = t :: ts /\ head_ok (snd st) t) ->
    operand l = true -> wf l = true -> ops_ok l = true ->
    forall X, exists t ts, range_start F l ctx unb ++ X = t :: ts /\ head_ok unb t.
  Proof.
    intros IHl Hp Hw Ho X.
    destruct (range_start_cases l ctx unb) as [E|[[s [-> E]]|[u [p [-> [EN E]]]]]]; rewrite E.
    - destruct (IHl Hp Hw Ho (N.max ctx (bs_rng F), PUnspec, unb) ltac:(apply okst_lt; pose proof (H_alias_rng C); lia)
                  ltac:(apply func_wrapped; pose proof (H_call_rng C); lia)) as [t [ts [E2 Hh]]].
      rewrite E2. cbn [app]. eexists _, _; split; [reflexivity | exact Hh].
    - cbn [app]. eexists _, _; split; [reflexivity | exact I].
    - cbn [app]. eexists _, _; split; [reflexivity|]. cbn [head_ok].
      cbn [ops_ok] in Ho. apply andb_true_iff in Ho as [Hu _]. apply Nat.ltb_lt in Hu. split.
      + rewrite (H_un_sym C u Hu). discriminate.
      + intros ->. unfold needs in EN. cbn [can_bind_left andb] in EN.
        apply orb_false_iff in EN as [EN _]. apply orb_false_iff in EN as [EN _].
        apply (H_cbl C u Hu EN).
  Qed.

  (* a lambda that is not parenthesised begins with `func`: excluded here, see fmt_head' *)
  Lemma fmt_head e : operand e = true -> wf e = true -> ops_ok e = true ->
    forall st, okst e st -> (is_func e = true -> needs F st e = true) -> exists t ts, fmt F e st = t :: ts /\ head_ok (snd st) t.
  Proof.
    induction e as [a|o l r IHl IHr|u x IHx|l r IHl IHr|l IHl|r IHr| |f args IHf IHargs|k es IHes|n x IHx|n x IHx|ps ds b IHds IHb] using expr_ind2;
      intros Hp Hw Ho [[ctx pos] unb] Hok Hfn; try discriminate Hp.
    10: { (* alias, in parentheses *)
      rewrite fmt_alias_hi by (apply Hok; reflexivity). eexists _, _; split; [reflexivity | exact I]. }
    10: { (* lambda, in parentheses *)
      rewrite fmt_eq, (Hfn eq_refl). cbn [wrap]. eexists _, _; split; [reflexivity | exact I]. }
    all: rewrite fmt_eq;
      (destruct (needs F _ _) eqn:EN; [cbn [wrap]; eexists _, _; split; [reflexivity | exact I] | ]);
      cbn [wrap inner_state kind_fmt snd]; cbn [wf ops_ok] in Hw, Ho; bsplit.
    - eexists _, _; split; [reflexivity | exact I].
    - pose proof (H_alias_bin C o ltac:(apply Nat.ltb_lt; assumption)) as Hab.
      pose proof (H_call_bin C o ltac:(apply Nat.ltb_lt; assumption)) as Hcb.
      destruct (IHl ltac:(assumption) ltac:(assumption) ltac:(assumption) (N.max ctx (bs o), PLeft, unb) ltac:(apply okst_lt; lia)
                  ltac:(apply func_wrapped; lia)) as [t [ts [E Hh]]].
      rewrite E. cbn [app]. eexists _, _; split; [reflexivity | exact Hh].
    - match goal with H : (u <? nu) = true |- _ => apply Nat.ltb_lt in H; rename H into Hu end.
      eexists _, _; split; [reflexivity|]. cbn [head_ok]. split.
      + rewrite (H_un_sym C u Hu). discriminate.
      + intros ->. unfold needs in EN. cbn [can_bind_left andb] in EN.
        apply orb_false_iff in EN as [EN _]. apply orb_false_iff in EN as [EN _].
        apply (H_cbl C u Hu EN).
    - apply (range_head l ctx unb r IHl); assumption.
    - apply (range_head l ctx unb l IHl); assumption.
    - eexists _, _; split; [reflexivity | reflexivity].
    - eexists _, _; split; [reflexivity | reflexivity].
    - destruct (IHf ltac:(assumption) ltac:(assumption) ltac:(assumption) (N.max (no_alias F f ctx) (bs_call F), PUnspec, unb) (no_alias_ok f ctx PUnspec unb)
                  ltac:(apply func_wrapped; lia)) as [t [ts [E Hh]]].
      rewrite E. cbn [app]. eexists _, _; split; [reflexivity | exact Hh].
    - eexists _, _; split; [reflexivity | exact I].
  Qed.

  (* ... and in general: the first token is a good head or `func` *)
  Definition head_ok' (unb : bool) (t : tok) : Prop := head_ok unb t \/ t = TFunc.
  Lemma fmt_head' e : operand e = true -> wf e = true -> ops_ok e = true ->
    forall st, okst e st -> exists t ts, fmt F e st = t :: ts /\ head_ok' (snd st) t.
  Proof.
    intros Hp Hw Ho st Hok. destruct (is_func e && negb (needs F st e)) eqn:B.
    - apply andb_true_iff in B as [Hf Hn]. apply negb_true_iff in Hn. destruct e; try discriminate Hf.
      rewrite fmt_eq, Hn. destruct st as [[ctx pos] unb]. cbn [wrap kind_fmt inner_state].
      eexists _, _; split; [reflexivity | right; reflexivity].
    - destruct (fmt_head e Hp Hw Ho st Hok) as [t [ts [E Hh]]].
      { intro Hf. rewrite Hf in B. cbn [andb] in B. apply negb_false_iff in B. exact B. }
      exists t, ts. split; [exact E | left; exact Hh].
  Qed.

  (* ---------------- kinds, stop conditions *)
  Definition is_term (e : expr) : bool := match e with EAtom _ | EGroup _ _ => true | _ => false end.
  Definition is_un (e : expr) : bool := match e with EUn _ _ => true | _ => false end.
  Definition is_rng (e : expr) : bool := match e with ERng _ _ | ERngL _ | ERngR _ | ERng0 => true | _ => false end.
  Definition is_bin (e : expr) : bool := match e with EBin _ _ _ => true | _ => false end.
  Definition is_call (e : expr) : bool := match e with ECall _ _ => true | _ => false end.
  (* weaker than every operator: a call or a lambda is an operand only in parentheses *)
  Definition is_low (e : expr) : bool := match e with ECall _ _ | EFunc _ _ _ => true | _ => false end.

  (* `rest` begins with something that ends every expression: a closer, a separator, a line break, or nothing *)
  Definition closes (rest : list tok) : Prop :=
    match rest with [] => True | (TClose _ | TComma | TPipe | TArrow | TNL _) :: _ => True | _ => False end.
  (* `rest` does not glue a range onto what precedes it *)
  Definition norange (rest : list tok) : Prop :=
    match rest with TRg true _ :: _ => False | _ => True end.
  (* `rest` cannot continue an expression whose right edge binds with power p *)
  Definition stop (p : option nat) (rest : list tok) : Prop :=
    norange rest /\
    match rest with
    | TS s _ :: _ =>
        match bin_of_sym T s, p with
        | Some o', Some p => o' < nb /\ lbp T o' < p
        | _, _ => True
        end
    | _ => True
    end.

  Lemma closes_stop p rest : closes rest -> stop p rest.
  Proof. destruct rest as [|[] ?]; cbn; intros H; try contradiction; split; exact I. Qed.
  Lemma closes_norange rest : closes rest -> norange rest.
  Proof. intro H. apply (closes_stop None) in H. apply H. Qed.

  Definition edge (st : state) (e : expr) : option nat :=
    match e with EBin o _ _ => if needs F st e then None else Some (rbp T o) | _ => None end.
  Definition kedge (e : expr) : option nat :=
    match e with EBin o _ _ => Some (rbp T o) | _ => None end.

  (* ---------------- fuel plumbing *)
  Lemma up_term f g ts r : f <= g -> q_term (par T f) ts = Some r -> q_term (par T g) ts = Some r.
  Proof. intros L. apply (le_term _ _ (par_le T _ _ L)). Qed.
  Lemma up_bin f g m ts r : f <= g -> q_bin (par T f) m ts = Some r -> q_bin (par T g) m ts = Some r.
  Proof. intros L. apply (le_bin _ _ (par_le T _ _ L)). Qed.
  Lemma up_loop f g m l ts r : f <= g -> q_loop (par T f) m l ts = Some r -> q_loop (par T g) m l ts = Some r.
  Proof. intros L. apply (le_loop _ _ (par_le T _ _ L)). Qed.
  Lemma up_call f g ts r : f <= g -> q_call (par T f) ts = Some r -> q_call (par T g) ts = Some r.
  Proof. intros L. apply (le_call _ _ (par_le T _ _ L)). Qed.
  Lemma up_args f g ts r : f <= g -> q_args (par T f) ts = Some r -> q_args (par T g) ts = Some r.
  Proof. intros L. apply (le_args _ _ (par_le T _ _ L)). Qed.
  Lemma up_items f g k ts r : f <= g -> q_items (par T f) k ts = Some r -> q_items (par T g) k ts = Some r.
  Proof. intros L. apply (le_items _ _ (par_le T _ _ L)). Qed.
  Lemma up_params f g ts r : f <= g -> q_params (par T f) ts = Some r -> q_params (par T g) ts = Some r.
  Proof. intros L. apply (le_params _ _ (par_le T _ _ L)). Qed.
  Lemma up_lc f g ts r : f <= g -> p_lc (par T f) ts = Some r -> p_lc (par T g) ts = Some r.
  Proof. intros L. apply (p_lc_mono _ _ (par_le T _ _ L)). Qed.
  Lemma up_unary f g ts r : f <= g -> p_unary T (par T f) ts = Some r -> p_unary T (par T g) ts = Some r.
  Proof. intros L. apply (p_unary_mono T _ _ (par_le T _ _ L)). Qed.
  Lemma up_range f g ts r : f <= g -> p_range T (par T f) ts = Some r -> p_range T (par T g) ts = Some r.
  Proof. intros L. apply (p_range_mono T _ _ (par_le T _ _ L)). Qed.

  (* the operator loop stops at `rest` *)
  Lemma loop_stop f p e rest : stop (Some p) rest -> q_loop (par T (S f)) p e rest = Some (e, rest).
  Proof.
    intros [_ H]. cbn [par step q_loop]. destruct rest as [|[a|s un|bl br|k|k| | | |n|n| | |i|w| | | | ] r]; try reflexivity.
    destruct (bin_of_sym T s) as [o'|]; [|reflexivity]. destruct H as [_ H].
    destruct (Nat.leb_spec p (lbp T o')); [lia | reflexivity].
  Qed.
  Lemma loop_closes f p e rest : closes rest -> q_loop (par T (S f)) p e rest = Some (e, rest).
  Proof. intros H. cbn [par step q_loop]. destruct rest as [|[] r]; try reflexivity; contradiction. Qed.
  Lemma args_closes f rest : closes rest -> q_args (par T (S f)) rest = Some ([], rest).
  Proof. intros H. cbn [par step q_args]. destruct rest as [|[] r]; try reflexivity; contradiction. Qed.

  (* ---------------- what has to be shown for each node: its own (unparenthesised) text parses back *)
  Definition goodb (e : expr) : Prop :=
    forall ctx pos unb, N.max ctx (strength F e) = strength F e ->
    (is_term e = true -> forall rest, exists g, q_term (par T g) (kind_fmt F e (ctx, pos, unb) ++ rest) = Some (e, rest)) /\
    (is_un e = true -> forall rest, exists g, p_unary T (par T g) (kind_fmt F e (ctx, pos, unb) ++ rest) = Some (e, rest)) /\
    (is_rng e = true -> forall rest, exists g, p_range T (par T g) (kind_fmt F e (ctx, pos, unb) ++ rest) = Some (e, rest)) /\
    (is_bin e = true -> forall minp rest k f,
        (forall o l r, e = EBin o l r -> minp <= lbp T o) -> stop (kedge e) rest ->
        q_loop (par T f) minp e rest = Some k ->
        exists g, q_bin (par T g) minp (kind_fmt F e (ctx, pos, unb) ++ rest) = Some k) /\
    (is_call e = true -> forall rest, closes rest ->
        exists g, q_call (par T g) (kind_fmt F e (ctx, pos, unb) ++ rest) = Some (e, rest)) /\
    (is_func e = true -> forall rest, closes rest ->
        exists g, p_lc (par T g) (kind_fmt F e (ctx, pos, unb) ++ rest) = Some (e, rest)).

  (* what a parent uses about a child printed by `fmt` (with or without parentheses) *)
  Definition good (e : expr) : Prop :=
    forall st, okst e st ->
    (wrapped st e = true \/ is_term e = true -> forall rest, exists g, q_term (par T g) (fmt F e st ++ rest) = Some (e, rest)) /\
    (wrapped st e = true \/ is_term e = true \/ is_un e = true ->
       forall rest, exists g, p_unary T (par T g) (fmt F e st ++ rest) = Some (e, rest)) /\
    (forall minp rest k f,
        (wrapped st e = false -> is_low e = false) ->
        (wrapped st e = false -> forall o l r, e = EBin o l r -> minp <= lbp T o) ->
        stop (edge st e) rest -> q_loop (par T f) minp e rest = Some k ->
        exists g, q_bin (par T g) minp (fmt F e st ++ rest) = Some k) /\
    (* at the head of a list element (nested_expr = lambda_func | func_call).  func_call returns `name.kind` when there
       are no arguments: the alias of a parenthesised `(x = a)` is lost *)
    (is_alias e = false -> forall rest, closes rest -> exists g, p_lc (par T g) (fmt F e st ++ rest) = Some (e, rest)).

  (* where a lambda is in parentheses the head of a list element is a func_call *)
  Lemma lc_call e st rest P : operand e = true -> wf e = true -> ops_ok e = true -> okst e st ->
    (is_func e = true -> needs F st e = true) -> p_lc P (fmt F e st ++ rest) = q_call P (fmt F e st ++ rest).
  Proof.
    intros Hp Hw Ho Hok Hfn. destruct (fmt_head e Hp Hw Ho st Hok Hfn) as [t [ts [E Hh]]]. rewrite E. cbn [app].
    destruct t; try contradiction; reflexivity.
  Qed.

  Definition not_rng_head (ts : list tok) : Prop := match ts with TRg _ _ :: _ => False | _ => True end.

  Lemma range_of_unary P ts x rest :
    p_unary T P ts = Some (x, rest) -> not_rng_head ts -> norange rest -> p_range T P ts = Some (x, rest).
  Proof.
    intros H Hh Hn. unfold p_range. destruct ts as [|[a|s un|bl br|k|k| | | |n|n| | |i|w| | | | ] r]; try contradiction; rewrite H;
      (destruct rest as [|[a'|s' un'|bl' br'|k'|k'| | | |n'|n'| | |i'|w'| | | | ] r']; try reflexivity; destruct bl'; [contradiction | reflexivity]).
  Qed.

  Lemma unary_of_term P ts x rest :
    q_term P ts = Some (x, rest) -> match ts with TS _ _ :: _ => False | _ => True end -> p_unary T P ts = Some (x, rest).
  Proof. intros H Hh. unfold p_unary. destruct ts as [|[] r]; try contradiction; exact H. Qed.

  Lemma bin_of_range g minp ts e rest k f :
    p_range T (par T g) ts = Some (e, rest) -> q_loop (par T f) minp e rest = Some k ->
    q_bin (par T (S (g + f))) minp ts = Some k.
  Proof.
    intros H1 H2. cbn [par step q_bin]. rewrite (up_range g (g + f) _ _ ltac:(lia) H1).
    apply (up_loop f (g + f)); [lia | exact H2].
  Qed.

  Lemma call_of_bin g ts e rest : closes rest -> is_alias e = false ->
    q_bin (par T g) 0 ts = Some (e, rest) -> q_call (par T (S (S g))) ts = Some (e, rest).
  Proof.
    intros Hc Ha H. cbn [par step q_call]. change (step T (par T g)) with (par T (S g)).
    rewrite (up_bin g (S g) _ _ _ ltac:(lia) H). rewrite (args_closes g rest Hc).
    destruct e; try discriminate Ha; reflexivity.
  Qed.

  (* a term that starts with `(`, seen from the unary / range / binary levels *)
  Lemma of_term ts e :
    (forall rest, exists g, q_term (par T g) ((TOpen GPipe :: ts) ++ rest) = Some (e, rest)) ->
    (forall rest, exists g, p_unary T (par T g) ((TOpen GPipe :: ts) ++ rest) = Some (e, rest)) /\
    (forall rest, norange rest -> exists g, p_range T (par T g) ((TOpen GPipe :: ts) ++ rest) = Some (e, rest)) /\
    (forall minp rest k f, norange rest -> q_loop (par T f) minp e rest = Some k ->
       exists g, q_bin (par T g) minp ((TOpen GPipe :: ts) ++ rest) = Some k).
  Proof.
    intro W.
    assert (U : forall rest, exists g, p_unary T (par T g) ((TOpen GPipe :: ts) ++ rest) = Some (e, rest)).
    { intro rest. destruct (W rest) as [g Hg]. exists g. apply unary_of_term; [exact Hg | exact I]. }
    assert (R : forall rest, norange rest -> exists g, p_range T (par T g) ((TOpen GPipe :: ts) ++ rest) = Some (e, rest)).
    { intros rest Hn. destruct (U rest) as [g Hg]. exists g. apply range_of_unary; [exact Hg | exact I | exact Hn]. }
    repeat split; [exact U | exact R |].
    intros minp rest k f Hn Hloop. destruct (R rest Hn) as [g Hg]. eexists. eapply bin_of_range; eassumption.
  Qed.

  Lemma fmt_plain e st : plain e = true ->
    fmt F e st = wrap (needs F st e) (kind_fmt F e (inner_state st (needs F st e))).
  Proof. intro Hp. rewrite fmt_eq. destruct e; try reflexivity; discriminate Hp. Qed.

  Lemma kind_cases e : plain e = true ->
    is_term e = true \/ is_un e = true \/ is_rng e = true \/ is_bin e = true \/ is_call e = true \/ is_func e = true.
  Proof. destruct e; cbn; intro; try discriminate; auto 7. Qed.

  (* the unparenthesised text of a term / unary / range node, seen from the range level *)
  Lemma kb_range e ctx pos unb : goodb e -> N.max ctx (strength F e) = strength F e ->
    is_term e = true \/ is_un e = true \/ is_rng e = true ->
    forall rest, norange rest -> exists g, p_range T (par T g) (kind_fmt F e (ctx, pos, unb) ++ rest) = Some (e, rest).
  Proof.
    intros G Hc Hk rest Hn. destruct (G ctx pos unb Hc) as [Gt [Gu [Gr _]]].
    destruct Hk as [Hk|[Hk|Hk]].
    - destruct (Gt Hk rest) as [g Hg]. exists g. apply range_of_unary; [apply unary_of_term; [exact Hg|] | | exact Hn];
        destruct e; try discriminate Hk; cbn [kind_fmt app]; exact I.
    - destruct (Gu Hk rest) as [g Hg]. exists g. apply range_of_unary; [exact Hg | | exact Hn].
      destruct e; try discriminate Hk; cbn [kind_fmt app]; exact I.
    - exact (Gr Hk rest).
  Qed.

  Lemma kb_bin e ctx pos unb : plain e = true -> goodb e -> N.max ctx (strength F e) = strength F e ->
    is_low e = false ->
    forall minp rest k f,
      (forall o l r, e = EBin o l r -> minp <= lbp T o) -> stop (kedge e) rest ->
      q_loop (par T f) minp e rest = Some k ->
      exists g, q_bin (par T g) minp (kind_fmt F e (ctx, pos, unb) ++ rest) = Some k.
  Proof.
    intros Hp G Hc Hnc minp rest k f Hm Hs Hloop.
    destruct (kind_cases e Hp) as [Hk|[Hk|[Hk|[Hk|[Hk|Hk]]]]]; try (destruct e; discriminate).
    1-3: (destruct (kb_range e ctx pos unb G Hc ltac:(auto) rest (proj1 Hs)) as [g Hg];
          eexists; eapply bin_of_range; eassumption).
    destruct (G ctx pos unb Hc) as [_ [_ [_ [Gb _]]]]. exact (Gb Hk minp rest k f Hm Hs Hloop).
  Qed.

  Lemma kb_call e ctx pos unb : plain e = true -> goodb e -> N.max ctx (strength F e) = strength F e ->
    is_func e = false ->
    forall rest, closes rest -> exists g, q_call (par T g) (kind_fmt F e (ctx, pos, unb) ++ rest) = Some (e, rest).
  Proof.
    intros Hp G Hc Hnf rest Hcl.
    destruct (is_call e) eqn:Ek.
    - destruct (G ctx pos unb Hc) as [_ [_ [_ [_ [Gc _]]]]]. exact (Gc Ek rest Hcl).
    - destruct (kb_bin e ctx pos unb Hp G Hc ltac:(destruct e; try reflexivity; discriminate) 0 rest (e, rest) 1) as [g Hg].
      + intros; lia.
      + apply closes_stop; exact Hcl.
      + apply loop_closes; exact Hcl.
      + eexists. apply call_of_bin; [exact Hcl | apply plain_not_alias; exact Hp | eassumption].
  Qed.

  (* the unparenthesised text at the head of a list element *)
  Lemma kb_lc e ctx pos unb : plain e = true -> wf e = true -> ops_ok e = true -> goodb e ->
    needs F (ctx, pos, unb) e = false ->
    forall rest, closes rest -> exists g, p_lc (par T g) (kind_fmt F e (ctx, pos, unb) ++ rest) = Some (e, rest).
  Proof.
    intros Hp Hw Ho G EN rest Hcl.
    assert (Hc : N.max ctx (strength F e) = strength F e) by (apply N.max_r; apply (ctx_le (ctx, pos, unb) e EN)).
    destruct (is_func e) eqn:Ef.
    - destruct (G ctx pos unb Hc) as [_ [_ [_ [_ [_ Gf]]]]]. exact (Gf Ef rest Hcl).
    - destruct (kb_call e ctx pos unb Hp G Hc Ef rest Hcl) as [g Hg]. exists g.
      pose proof (lc_call e (ctx, pos, unb) rest (par T g) (plain_operand e Hp) Hw Ho (okst_plain e _ Hp)
                    ltac:(intro Hx; rewrite Hx in Ef; discriminate Ef)) as E.
      rewrite (fmt_plain e _ Hp), EN in E. cbn [wrap inner_state] in E. rewrite E. exact Hg.
  Qed.

  (* ---------------- a node in parentheses is a term *)
  (* `(` ts `)` where ts is the head of a list element that does not begin with an alias *)
  Lemma paren_of_lc g ts e rest :
    match ts with TAlias _ :: _ | TClose _ :: _ | [] => False | _ => True end ->
    p_lc (par T g) (ts ++ TClose GPipe :: rest) = Some (e, TClose GPipe :: rest) ->
    q_term (par T (S (S g))) (TOpen GPipe :: ts ++ TClose GPipe :: rest) = Some (e, rest).
  Proof.
    intros Hh H. cbn [par step q_term q_items]. change (step T (par T g)) with (par T (S g)).
    destruct ts as [|t ts']; [contradiction|]. cbn [app] in *.
    destruct t; try contradiction; cbn [p_item p_nested]; fold (par T g); rewrite H; cbn [gkind_eqb]; reflexivity.
  Qed.

  Lemma head_not_alias unb t : head_ok' unb t -> match t with TAlias _ | TClose _ => False | _ => True end.
  Proof. intros [H| ->]; [destruct t; try contradiction; exact I | exact I]. Qed.

  Lemma wrapped_term e pos : plain e = true -> wf e = true -> ops_ok e = true -> goodb e ->
    forall rest, exists g,
      q_term (par T g) (TOpen GPipe :: kind_fmt F e (0%N, pos, false) ++ TClose GPipe :: rest) = Some (e, rest).
  Proof.
    intros Hp Hw Ho G rest.
    pose proof (needs_reset e pos Hp Ho) as EN.
    destruct (kb_lc e 0%N pos false Hp Hw Ho G EN (TClose GPipe :: rest) I) as [g Hg].
    destruct (fmt_head' e (plain_operand e Hp) Hw Ho (0%N, pos, false) (okst_plain e _ Hp)) as [t [ts [E Hh]]].
    rewrite (fmt_plain e _ Hp), EN in E. cbn [wrap inner_state] in E.
    exists (S (S g)). apply paren_of_lc; [|exact Hg]. rewrite E. exact (head_not_alias _ _ Hh).
  Qed.

  Lemma goodb_good e : plain e = true -> wf e = true -> ops_ok e = true -> goodb e -> good e.
  Proof.
    intros Hp Hw Ho G [[ctx pos] unb] _.
    rewrite (wrapped_plain e _ Hp). rewrite (fmt_plain e _ Hp).
    destruct (needs F (ctx, pos, unb) e) eqn:EN; cbn [wrap inner_state].
    - (* in parentheses *)
      assert (W : forall rest, exists g,
                 q_term (par T g) ((TOpen GPipe :: kind_fmt F e (0%N, pos, false) ++ [TClose GPipe]) ++ rest) = Some (e, rest)).
      { intro rest. cbn [app]. rewrite <- app_assoc. cbn [app]. apply wrapped_term; assumption. }
      destruct (of_term _ _ W) as [U [R B]].
      repeat split.
      + intros _. exact W.
      + intros _. exact U.
      + intros minp rest k f _ _ Hs Hloop. exact (B minp rest k f (proj1 Hs) Hloop).
      + intros _ rest Hcl. destruct (R rest (closes_norange rest Hcl)) as [g Hg].
        eexists. cbn [app p_lc]. apply call_of_bin; [exact Hcl | apply plain_not_alias; exact Hp |].
        eapply bin_of_range; [exact Hg | apply (loop_closes 0); exact Hcl].
    - (* as is *)
      assert (Hc : N.max ctx (strength F e) = strength F e).
      { apply N.max_r. apply (ctx_le (ctx, pos, unb) e EN). }
      destruct (G ctx pos unb Hc) as [Gt [Gu _]].
      repeat split.
      + intros [H|H]; [discriminate | exact (Gt H)].
      + intros [H|[H|H]]; [discriminate | | exact (Gu H)].
        intro rest. destruct (Gt H rest) as [g Hg]. exists g. apply unary_of_term; [exact Hg|].
        destruct e; try discriminate H; cbn [kind_fmt app]; exact I.
      + intros minp rest k f Hnc Hm Hs Hloop.
        apply (kb_bin e ctx pos unb Hp G Hc (Hnc eq_refl) minp rest k f (Hm eq_refl)); [|exact Hloop].
        unfold edge in Hs. destruct e; try exact Hs. rewrite EN in Hs. exact Hs.
      + intros _ rest Hcl. apply kb_lc; assumption.
  Qed.

  (* ---------------- an aliased expression above alias_ctx: `(n = x)` is a term *)
  Lemma alias_good n x : plain x = true -> good x -> good (EAlias n x).
  Proof.
    intros Hp Gx [[ctx pos] unb] Hok. specialize (Hok eq_refl). cbn [fst] in Hok.
    rewrite fmt_alias_hi by exact Hok.
    assert (W : forall rest, exists g,
               q_term (par T g) ((TOpen GPipe :: TAlias n :: fmt F x (0%N, pos, false) ++ [TClose GPipe]) ++ rest) = Some (EAlias n x, rest)).
    { intro rest. destruct (Gx (0%N, pos, false) (okst_plain x _ Hp)) as [_ [_ [_ Gc]]].
      destruct (Gc (plain_not_alias x Hp) (TClose GPipe :: rest) I) as [g Hg].
      exists (S (S g)). cbn [app]. rewrite <- app_assoc. cbn [app].
      cbn [par step q_term q_items p_item p_nested]. fold (par T g). rewrite Hg. cbn [gkind_eqb andb]. reflexivity. }
    destruct (of_term _ _ W) as [U [R B]].
    repeat split.
    - intros _. exact W.
    - intros _. exact U.
    - intros minp rest k f _ _ Hs Hloop. exact (B minp rest k f (proj1 Hs) Hloop).
    - intro Ha. discriminate Ha.
  Qed.

  (* explicit parentheses around a plain expression written at any state *)
  Lemma paren_term x st : plain x = true -> wf x = true -> ops_ok x = true -> good x ->
    forall rest, exists g, q_term (par T g) (TOpen GPipe :: fmt F x st ++ TClose GPipe :: rest) = Some (x, rest).
  Proof.
    intros Hp Hw Ho Gx rest.
    destruct (Gx st (okst_plain x _ Hp)) as [_ [_ [_ Gc]]].
    destruct (Gc (plain_not_alias x Hp) (TClose GPipe :: rest) I) as [g Hg].
    destruct (fmt_head' x (plain_operand x Hp) Hw Ho st (okst_plain x _ Hp)) as [t [ts [E Hh]]].
    exists (S (S g)). apply paren_of_lc; [|exact Hg]. rewrite E. exact (head_not_alias _ _ Hh).
  Qed.

  (* ---------------- which children end up in parentheses *)
  Lemma assoc_unspec pos : assoc_matches pos PUnspec = false.
  Proof. destruct pos; reflexivity. Qed.

  Lemma needs_eq_unspec ctx pos unb e : assoc F e = PUnspec -> (strength F e <= ctx)%N -> needs F (ctx, pos, unb) e = true.
  Proof.
    intros Ha Hs. unfold needs. rewrite Ha, assoc_unspec. cbn [negb]. rewrite andb_true_r.
    destruct (N.ltb_spec (strength F e) ctx) as [|H1]; [rewrite orb_true_r; reflexivity|].
    assert (strength F e = ctx) as -> by lia. rewrite N.eqb_refl. apply orb_true_r.
  Qed.
  Lemma needs_lt ctx pos unb e : (strength F e < ctx)%N -> needs F (ctx, pos, unb) e = true.
  Proof. intros Hs. unfold needs. apply N.ltb_lt in Hs. rewrite Hs. rewrite orb_true_r. reflexivity. Qed.

  Lemma needs_call ctx pos unb f args : (bs_call F <= ctx)%N -> needs F (ctx, pos, unb) (ECall f args) = true.
  Proof. intro H. apply needs_eq_unspec; [reflexivity | exact H]. Qed.

  Lemma needs_bin ctx pos unb o l r : needs F (ctx, pos, unb) (EBin o l r) = negb (unwrapped_at ctx pos o).
  Proof. unfold needs, unwrapped_at. cbn [can_bind_left strength assoc]. rewrite andb_false_r. cbn [orb]. rewrite negb_involutive. reflexivity. Qed.

  Lemma ops_bin o l r : ops_ok (EBin o l r) = true -> o < nb.
  Proof. cbn [ops_ok]. intro H. apply andb_true_iff in H as [H _]. apply andb_true_iff in H as [H _]. apply Nat.ltb_lt; exact H. Qed.

  (* operand of a unary operator: in parentheses unless it is a term *)
  Lemma un_child x pos unb : operand x = true -> ops_ok x = true ->
    wrapped (bs_un F, pos, unb) x = true \/ is_term x = true.
  Proof.
    intros Hp Ho. unfold wrapped.
    destruct x as [a|o l r|u y|l r|l|r| |f args|k es|n y|n y|ps ds b]; try discriminate Hp; cbn [is_term is_alias orb]; auto; left.
    - apply needs_lt. apply (H_bin_un C). apply (ops_bin _ _ _ Ho).
    - apply needs_eq_unspec; [reflexivity | apply N.le_refl].
    - apply needs_eq_unspec; [reflexivity | apply (H_rng_un C)].
    - apply needs_eq_unspec; [reflexivity | apply (H_rng_un C)].
    - apply needs_eq_unspec; [reflexivity | apply (H_rng_un C)].
    - apply needs_eq_unspec; [reflexivity | apply (H_rng_un C)].
    - apply needs_call. apply (H_call_un C).
    - apply func_needs; [pose proof (H_func_call C); pose proof (H_call_un C); lia | reflexivity].
  Qed.

  (* bound of a range (written at position Unspecified): in parentheses unless it is a term or a unary operator *)
  Lemma rng_child c unb : operand c = true -> ops_ok c = true ->
    wrapped (bs_rng F, PUnspec, unb) c = true \/ is_term c = true \/ is_un c = true.
  Proof.
    intros Hp Ho. unfold wrapped.
    destruct c as [a|o l r|u y|l r|l|r| |f args|k es|n y|n y|ps ds b]; try discriminate Hp; cbn [is_term is_un is_alias orb]; auto; left.
    - rewrite needs_bin. unfold Fmt.unwrapped_at. rewrite negb_involutive.
      pose proof (H_bin_rng C o (ops_bin _ _ _ Ho)) as Hle.
      destruct (N.ltb_spec (bs o) (bs_rng F)) as [|Hge]; [reflexivity|].
      assert (bs o = bs_rng F) as E by lia. rewrite E. rewrite N.eqb_refl. cbn [assoc_matches negb andb]. apply orb_true_r.
    - apply needs_eq_unspec; [reflexivity | apply N.le_refl].
    - apply needs_eq_unspec; [reflexivity | apply N.le_refl].
    - apply needs_eq_unspec; [reflexivity | apply N.le_refl].
    - apply needs_eq_unspec; [reflexivity | apply N.le_refl].
    - apply needs_call. apply (H_call_rng C).
    - apply func_needs; [pose proof (H_func_call C); pose proof (H_call_rng C); lia | reflexivity].
  Qed.

  Lemma call_wrapped c ctx pos unb : (bs_call F <= ctx)%N -> wrapped (ctx, pos, unb) c = false -> is_low c = false.
  Proof.
    intros Hle EN. destruct c; try reflexivity; unfold wrapped in EN; cbn [is_alias orb] in EN.
    - rewrite needs_call in EN; [discriminate | exact Hle].
    - rewrite func_wrapped in EN; [discriminate | exact Hle | reflexivity].
  Qed.

  (* ---------------- list elements (tuple items, pipeline elements, arguments) *)
  Definition elem_good (a : expr) : Prop :=
    match a with EAlias _ x | ENamed _ x => good x | _ => good a end.
  Definition inner (a : expr) : expr := match a with EAlias _ x | ENamed _ x => x | _ => a end.

  Lemma elem_plain a : plain a = true -> elem_good a -> good a.
  Proof. destruct a; cbn; auto; discriminate. Qed.

  Definition not_close (t : tok) : Prop := match t with TClose _ => False | _ => True end.

  (* one element in a pipeline / tuple (alias allowed) or array / case (plain) *)
  Lemma nested_elem a ok pos : wf a = true -> ops_ok a = true -> is_named a = false -> (is_alias a = true -> ok = true) ->
    elem_good a ->
    forall rest, closes rest ->
    exists g, p_nested (par T g) ok (fmt F a (0%N, pos, false) ++ rest) = Some (a, rest).
  Proof.
    intros Hw Ho Hn Hal G rest Hcl.
    destruct a as [a0|o l r|u x|l r|l|r| |f args|k es|n x|n x|ps ds b]; try discriminate Hn.
    10: { (* alias, bare: nothing is below context strength 0 *)
      cbn [wf ops_ok elem_good] in *. bsplit.
      destruct (G (0%N, pos, false) (okst_plain x _ ltac:(assumption))) as [_ [_ [_ Gc]]].
      destruct (Gc (plain_not_alias x ltac:(assumption)) rest Hcl) as [g Hg].
      exists g. rewrite fmt_alias_lo by apply N.le_0_l. cbn [app p_nested]. rewrite (Hal eq_refl). rewrite Hg. reflexivity. }
    all: (lazymatch goal with |- context [fmt F ?e (0%N, _, false)] =>
            destruct (fmt_head' e eq_refl Hw Ho (0%N, pos, false) (okst_plain e _ eq_refl)) as [t [ts [E Hh]]];
            destruct (G (0%N, pos, false) (okst_plain e _ eq_refl)) as [_ [_ [_ Gc]]] end;
          destruct (Gc eq_refl rest Hcl) as [g Hg];
          exists g; rewrite E in *; cbn [app] in *; apply head_not_alias in Hh;
          destruct t; try contradiction; cbn [p_nested]; exact Hg).
  Qed.

  Lemma elem_head a st : wf a = true -> ops_ok a = true ->
    exists t ts, fmt F a st = t :: ts /\ not_close t.
  Proof.
    intros Hw Ho. destruct (plain a) eqn:Hp.
    - destruct (fmt_head' a (plain_operand a Hp) Hw Ho st (okst_plain a _ Hp)) as [t [ts [E Hh]]]. exists t, ts. split; [exact E|].
      apply head_not_alias in Hh. destruct t; try contradiction; exact I.
    - destruct st as [[ctx pos] unb]. destruct a; try discriminate Hp; rewrite fmt_eq.
      + destruct (alias_ctx F <? ctx)%N; eexists _, _; split; try reflexivity; exact I.
      + eexists _, _; split; try reflexivity; exact I.
  Qed.

  (* the first token of any printed well-formed tree: no closer, no `..` that binds to the left *)
  Lemma elem_head_gen a st : wf a = true -> ops_ok a = true ->
    exists t ts, fmt F a st = t :: ts /\ match t with TClose _ => False | TRg bl _ => bl = false | _ => True end.
  Proof.
    intros Hw Ho. destruct (plain a) eqn:Hp.
    - destruct (fmt_head' a (plain_operand a Hp) Hw Ho st (okst_plain a _ Hp)) as [t [ts [E Hh]]]. exists t, ts. split; [exact E|].
      destruct Hh as [Hh| ->]; [destruct t; try contradiction; try exact I; exact Hh | exact I].
    - destruct st as [[ctx pos] unb]. destruct a; try discriminate Hp; rewrite fmt_eq.
      + destruct (alias_ctx F <? ctx)%N; eexists _, _; split; try reflexivity; exact I.
      + eexists _, _; split; try reflexivity; exact I.
  Qed.

  Definition simple_kind (k : gkind) : bool := match k with GCase => false | _ => true end.
  Definition elem_ok_in (k : gkind) (a : expr) : bool :=
    match k with GPipe | GTup => negb (is_named a) | GArr | GCase => plain a end.

  Lemma sep_simple k i : simple_kind k = true -> is_sep k (sep_of k i) = true /\ closes (sep_of k i :: []).
  Proof. destruct k; cbn; intro H; try discriminate; split; auto. Qed.

  Lemma simple_item_ctx k : simple_kind k = true -> item_ctx F k = 0%N.
  Proof. destruct k; cbn; intro H; try discriminate; reflexivity. Qed.

  Lemma fmt_items_cons2 k pos a b t i :
    fmt_items F k pos (a :: b :: t) i = fmt F a (item_ctx F k, pos, false) ++ sep_of k i :: fmt_items F k pos (b :: t) (S i).
  Proof. reflexivity. Qed.

  Lemma items_simple k pos rest : simple_kind k = true ->
    forall es i, Forall elem_good es -> forallb wf es = true -> forallb ops_ok es = true ->
      forallb (elem_ok_in k) es = true ->
      (k = GPipe -> es <> []) ->
      exists g, q_items (par T g) k (fmt_items F k pos es i ++ TClose k :: rest) = Some (es, rest).
  Proof.
    intros Hk. pose proof (simple_item_ctx k Hk) as Hic.
    induction es as [|a t IH]; intros i HG Hw Ho Hin Hne.
    - exists 1. cbn [fmt_items app par step q_items]. destruct k; try discriminate Hk; try reflexivity. exfalso; apply Hne; reflexivity.
    - inversion HG as [|? ? Ga Gt]; subst. cbn [forallb existsb] in Hw, Ho, Hin. bsplit.
      assert (Hnamed : is_named a = false /\ (is_alias a = true -> (match k with GPipe | GTup => true | _ => false end) = true)).
      { destruct k; try discriminate Hk; cbn [elem_ok_in] in *.
        - split; [apply negb_true_iff; assumption | reflexivity].
        - split; [apply negb_true_iff; assumption | reflexivity].
        - unfold plain in *. bsplit. split; [apply negb_true_iff; assumption |].
          intro Hx. match goal with H : negb (is_alias a) = true |- _ => rewrite Hx in H; discriminate H end. }
      destruct Hnamed as [Hnn Hal].
      destruct (elem_head a (0%N, pos, false) ltac:(assumption) ltac:(assumption)) as [t0 [ts0 [E0 Hnc]]].
      destruct t as [|b t'].
      + (* last element *)
        destruct (nested_elem a _ pos ltac:(assumption) ltac:(assumption) Hnn Hal Ga (TClose k :: rest) I) as [g Hg].
        exists (S g). cbn [fmt_items]. rewrite Hic. rewrite E0 in *. cbn [app] in *. cbn [par step q_items].
        destruct t0; try contradiction;
          (destruct k; try discriminate Hk; cbn [p_item]; rewrite Hg; cbn [gkind_eqb]; reflexivity).
      + destruct (sep_simple k i Hk) as [Hsep Hcs].
        assert (Hcl : closes (sep_of k i :: fmt_items F k pos (b :: t') (S i) ++ TClose k :: rest)).
        { destruct k; try discriminate Hk; exact I. }
        destruct (nested_elem a _ pos ltac:(assumption) ltac:(assumption) Hnn Hal Ga _ Hcl) as [g1 Hg1].
        destruct (IH (S i) Gt ltac:(assumption) ltac:(assumption) ltac:(assumption) ltac:(discriminate)) as [g2 Hg2].
        exists (S (g1 + g2)).
        rewrite fmt_items_cons2, Hic.
        rewrite <- app_assoc. cbn [app]. rewrite E0 in *. cbn [app] in *. cbn [par step q_items].
        pose proof (p_nested_mono _ _ (par_le T g1 (g1 + g2) ltac:(lia)) _ _ _ Hg1) as Hg1'.
        pose proof (up_items g2 (g1 + g2) _ _ _ ltac:(lia) Hg2) as Hg2'.
        destruct t0; try contradiction;
          (destruct k; try discriminate Hk; cbn [p_item sep_of is_sep] in *; rewrite Hg1'; cbn [is_sep]; rewrite Hg2'; reflexivity).
  Qed.

  (* a lambda as a case branch is in parentheses *)
  Lemma func_case c pos : is_func c = true -> needs F (case_ctx F, pos, false) c = true.
  Proof. intro Hf. apply func_needs; [apply (H_func_case C) | exact Hf]. Qed.

  (* case [c1 => v1, c2 => v2, ...] : the flattened list has even length *)
  Lemma items_case pos rest :
    forall n es i, length es = 2 * n -> Nat.even i = true ->
      Forall elem_good es -> forallb wf es = true -> forallb ops_ok es = true ->
      forallb plain es = true ->
      exists g, q_items (par T g) GCase (fmt_items F GCase pos es i ++ TClose GCase :: rest) = Some (es, rest).
  Proof.
    induction n as [|n IH]; intros es i Hlen Hi HG Hw Ho Hp.
    - destruct es; [|discriminate Hlen]. exists 1. reflexivity.
    - destruct es as [|c [|v t]]; try (cbn in Hlen; lia).
      inversion HG as [|? ? Gc HG']; subst. inversion HG' as [|? ? Gv Gt]; subst.
      cbn [forallb existsb] in Hw, Ho, Hp. bsplit.
      pose proof (elem_plain c ltac:(assumption) Gc) as Gc'. pose proof (elem_plain v ltac:(assumption) Gv) as Gv'.
      set (cc := case_ctx F) in *.
      assert (Hpc : plain c = true) by assumption. assert (Hpv : plain v = true) by assumption.
      assert (Hwc : wf c = true) by assumption. assert (Hwv : wf v = true) by assumption.
      assert (Hoc : ops_ok c = true) by assumption. assert (Hov : ops_ok v = true) by assumption.
      destruct (fmt_head c (plain_operand c Hpc) Hwc Hoc (cc, pos, false) (okst_plain c _ Hpc) (func_case c pos)) as [t0 [ts0 [E0 Hh0]]].
      assert (LCc : forall rest' P, p_lc P (fmt F c (cc, pos, false) ++ rest') = q_call P (fmt F c (cc, pos, false) ++ rest')).
      { intros rest' P. apply lc_call; try assumption; [apply plain_operand; exact Hpc | apply okst_plain; exact Hpc | apply func_case]. }
      assert (LCv : forall rest' P, p_lc P (fmt F v (cc, pos, false) ++ rest') = q_call P (fmt F v (cc, pos, false) ++ rest')).
      { intros rest' P. apply lc_call; try assumption; [apply plain_operand; exact Hpv | apply okst_plain; exact Hpv | apply func_case]. }
      assert (Hsep : sep_of GCase i = TArrow) by (cbn [sep_of]; rewrite Hi; reflexivity).
      assert (Hsep2 : sep_of GCase (S i) = TComma).
      { cbn [sep_of]. rewrite Nat.even_succ. rewrite <- Nat.negb_even, Hi. reflexivity. }
      assert (Hi2 : Nat.even (S (S i)) = true) by (rewrite Nat.even_succ_succ; exact Hi).
      destruct t as [|c2 t2].
      + (* last pair *)
        destruct (Gv' (cc, pos, false) (okst_plain v _ Hpv)) as [_ [_ [_ Gvc]]].
        destruct (Gvc (plain_not_alias v Hpv) (TClose GCase :: rest) I) as [g2 Hg2]. rewrite LCv in Hg2.
        destruct (Gc' (cc, pos, false) (okst_plain c _ Hpc)) as [_ [_ [_ Gcc]]].
        destruct (Gcc (plain_not_alias c Hpc) (TArrow :: fmt F v (cc, pos, false) ++ TClose GCase :: rest) I) as [g1 Hg1]. rewrite LCc in Hg1.
        exists (S (g1 + g2)).
        change (fmt_items F GCase pos [c; v] i) with (fmt F c (cc, pos, false) ++ sep_of GCase i :: fmt F v (cc, pos, false)).
        rewrite Hsep. rewrite <- app_assoc. cbn [app]. rewrite E0 in *. cbn [app] in *.
        pose proof (up_call g1 (g1 + g2) _ _ ltac:(lia) Hg1) as Hg1'. pose proof (up_call g2 (g1 + g2) _ _ ltac:(lia) Hg2) as Hg2'.
        cbn [par step q_items]. destruct t0; try contradiction; cbn [p_item]; rewrite Hg1', Hg2'; reflexivity.
      + assert (Hlen' : length (c2 :: t2) = 2 * n) by (cbn [length] in *; lia).
        destruct (IH (c2 :: t2) (S (S i)) Hlen' Hi2 Gt ltac:(assumption) ltac:(assumption) ltac:(assumption)) as [g3 Hg3].
        destruct (Gv' (cc, pos, false) (okst_plain v _ Hpv)) as [_ [_ [_ Gvc]]].
        destruct (Gvc (plain_not_alias v Hpv) (TComma :: fmt_items F GCase pos (c2 :: t2) (S (S i)) ++ TClose GCase :: rest) I) as [g2 Hg2]. rewrite LCv in Hg2.
        destruct (Gc' (cc, pos, false) (okst_plain c _ Hpc)) as [_ [_ [_ Gcc]]].
        destruct (Gcc (plain_not_alias c Hpc) (TArrow :: fmt F v (cc, pos, false) ++ TComma :: fmt_items F GCase pos (c2 :: t2) (S (S i)) ++ TClose GCase :: rest) I) as [g1 Hg1]. rewrite LCc in Hg1.
        exists (S (g1 + g2 + g3)).
        change (fmt_items F GCase pos (c :: v :: c2 :: t2) i) with
          (fmt F c (cc, pos, false) ++ sep_of GCase i :: (fmt F v (cc, pos, false) ++ sep_of GCase (S i) :: fmt_items F GCase pos (c2 :: t2) (S (S i)))).
        rewrite Hsep, Hsep2. repeat (rewrite <- app_assoc; cbn [app]). rewrite E0 in *. cbn [app] in *.
        pose proof (up_call g1 (g1 + g2 + g3) _ _ ltac:(lia) Hg1) as Hg1'. pose proof (up_call g2 (g1 + g2 + g3) _ _ ltac:(lia) Hg2) as Hg2'.
        pose proof (up_items g3 (g1 + g2 + g3) _ _ _ ltac:(lia) Hg3) as Hg3'.
        cbn [par step q_items]. destruct t0; try contradiction; cbn [p_item]; rewrite Hg1', Hg2'; cbn [is_sep]; rewrite Hg3'; reflexivity.
  Qed.

  (* ---------------- argument lists *)
  Lemma fmt_args_cons c pos a t : fmt_args F c pos (a :: t) = fmt F a (c, pos, true) ++ fmt_args F c pos t.
  Proof. reflexivity. Qed.

  Lemma args_stop pos rest t : closes rest -> forallb wf t = true -> forallb ops_ok t = true ->
    forall p, stop p (fmt_args F (bs_call F) pos t ++ rest).
  Proof.
    intros Hcl Hw Ho p. destruct t as [|b t']; [apply closes_stop; exact Hcl|].
    cbn [forallb] in Hw, Ho. bsplit. rewrite fmt_args_cons.
    destruct (plain b) eqn:Hp.
    - destruct (fmt_head b (plain_operand b Hp) ltac:(assumption) ltac:(assumption) (bs_call F, pos, true) (okst_plain b _ Hp)
                  (func_wrapped _ _ _ b (N.le_refl _))) as [t0 [ts0 [E Hh]]].
      rewrite E. cbn [app]. cbn [snd] in Hh. destruct t0; try contradiction; cbn [head_ok] in Hh; split; try exact I.
      + destruct Hh as [_ Hh]. rewrite (Hh eq_refl). exact I.
      + subst. exact I.
    - destruct b; try discriminate Hp.
      + rewrite fmt_alias_lo by apply (H_alias_call C). cbn [app]; split; exact I.
      + rewrite fmt_eq; cbn [app]; split; exact I.
  Qed.

  Lemma args_parse pos rest : closes rest ->
    forall args, Forall elem_good args -> forallb wf args = true -> forallb ops_ok args = true ->
      exists g, q_args (par T g) (fmt_args F (bs_call F) pos args ++ rest) = Some (args, rest).
  Proof.
    intros Hcl. induction args as [|a t IH]; intros HG Hw Ho.
    - exists 1. apply args_closes; exact Hcl.
    - inversion HG as [|? ? Ga Gt]; subst. cbn [forallb existsb] in Hw, Ho. bsplit.
      destruct (IH Gt ltac:(assumption) ltac:(assumption)) as [g2 Hg2].
      pose proof (args_stop pos rest t Hcl ltac:(assumption) ltac:(assumption)) as Hstop.
      rewrite fmt_args_cons, <- app_assoc.
      set (rest1 := fmt_args F (bs_call F) pos t ++ rest) in *.
      assert (Hx : forall x c unb, good x -> (bs_call F <= c)%N -> okst x (c, pos, unb) ->
                exists g, q_bin (par T g) 0 (fmt F x (c, pos, unb) ++ rest1) = Some (x, rest1)).
      { intros x c unb Gx Hle Hok. destruct (Gx (c, pos, unb) Hok) as [_ [_ [Gb _]]].
        apply (Gb 0 rest1 (x, rest1) 1).
        - apply call_wrapped. exact Hle.
        - intros; lia.
        - apply Hstop.
        - apply loop_stop. apply Hstop. }
      destruct a as [a0|o l r|u x|l r|l|r| |f args|k es|n x|n x|ps ds b].
      10: { (* positional argument with an alias: bare at the strength of a call *)
            cbn [wf ops_ok elem_good] in *. bsplit.
            assert (Hpx : plain x = true) by assumption.
            destruct (Hx x (bs_call F) false Ga (N.le_refl _) (okst_plain x _ Hpx)) as [g1 Hg1].
            exists (S (g1 + g2)). rewrite fmt_alias_lo by apply (H_alias_call C). cbn [app par step q_args].
            rewrite (up_bin g1 (g1 + g2) _ _ _ ltac:(lia) Hg1), (up_args g2 (g1 + g2) _ _ ltac:(lia) Hg2).
            destruct x; try discriminate Hpx; reflexivity. }
      10: { (* named argument: its value is written at a context that parenthesises an alias *)
            cbn [wf ops_ok elem_good] in *. bsplit.
            assert (Hcx : no_alias F x (bs_call F) = N.max (no_alias F x (bs_call F)) (bs_call F)).
            { unfold no_alias. destruct (is_alias_e x); lia. }
            destruct (Hx x (no_alias F x (bs_call F)) true Ga) as [g1 Hg1].
            { unfold no_alias. destruct (is_alias_e x); lia. }
            { rewrite Hcx. apply no_alias_ok. }
            exists (S (g1 + g2)). rewrite fmt_eq. cbn [app par step q_args].
            rewrite (up_bin g1 (g1 + g2) _ _ _ ltac:(lia) Hg1), (up_args g2 (g1 + g2) _ _ ltac:(lia) Hg2). reflexivity. }
      all: (lazymatch goal with |- context [fmt F ?e (bs_call F, _, true)] =>
              destruct (Hx e (bs_call F) true Ga (N.le_refl _) (okst_plain e _ eq_refl)) as [g1 Hg1];
              destruct (fmt_head e eq_refl ltac:(assumption) ltac:(assumption) (bs_call F, pos, true) (okst_plain e _ eq_refl)
                          (func_wrapped _ _ _ e (N.le_refl _))) as [t0 [ts0 [E Hh]]] end;
            exists (S (g1 + g2)); rewrite E in *; cbn [app] in *; cbn [par step q_args]; cbn [snd] in Hh;
            pose proof (up_bin g1 (g1 + g2) _ _ _ ltac:(lia) Hg1) as Hg1'; pose proof (up_args g2 (g1 + g2) _ _ ltac:(lia) Hg2) as Hg2';
            destruct t0; try contradiction; cbn [starts_arg head_ok] in *;
            try (destruct Hh as [Hh _]; destruct (un_of_sym T s); [|contradiction Hh; reflexivity]);
            rewrite Hg1', Hg2'; reflexivity).
  Qed.

  Lemma named_first_id args : named_prefix args = true -> named_first args = args.
  Proof.
    unfold named_first. induction args as [|a t IH]; [reflexivity|]. cbn [named_prefix filter].
    destruct (is_named a) eqn:En; cbn [negb].
    - intro H. cbn [app]. f_equal. apply IH; exact H.
    - intro H. assert (filter is_named t = []) as ->.
      { clear IH. induction t as [|b t' IHt]; [reflexivity|]. cbn [forallb filter] in *. apply andb_true_iff in H as [Hb Ht].
        apply negb_true_iff in Hb. rewrite Hb. apply IHt; exact Ht. }
      cbn [app]. f_equal. clear IH. induction t as [|b t' IHt]; [reflexivity|]. cbn [forallb filter] in *.
      apply andb_true_iff in H as [Hb Ht]. rewrite Hb. f_equal. apply IHt; exact Ht.
  Qed.

  (* ---------------- every well-formed tree is good *)
  Definition Pgood (e : expr) : Prop := wf e = true -> ops_ok e = true -> elem_good e /\ (is_named e = false -> good e).

  Lemma pgood_operand c : Pgood c -> operand c = true -> wf c = true -> ops_ok c = true -> good c.
  Proof.
    intros P Hp Hw Ho. destruct (P Hw Ho) as [_ G]. apply G. unfold operand in Hp. apply negb_true_iff in Hp. exact Hp.
  Qed.

  Lemma forall_elem es : Forall Pgood es -> forallb wf es = true -> forallb ops_ok es = true -> Forall elem_good es.
  Proof.
    induction 1 as [|a t Pa Pt IH]; intros Hw Ho; constructor; cbn [forallb] in *; bsplit; [apply Pa; assumption | apply IH; assumption].
  Qed.

  Lemma stop_edge_child (o : nat) c st rest : o < nb -> ops_ok c = true ->
    (forall o2 l2 r2, c = EBin o2 l2 r2 -> needs F st c = false -> rbp T o <= lbp T o2) ->
    stop (Some (rbp T o)) rest -> stop (edge st c) rest.
  Proof.
    intros Ho Hoc Hr [Hn Hs]. split; [exact Hn|]. unfold edge.
    destruct rest as [|[a|s un|bl br|k|k| | | |n|n| | |i|w| | | | ] rest']; try exact I.
    destruct (bin_of_sym T s) as [o'|]; [|exact I]. destruct Hs as [Ho' Hlt].
    destruct c as [a0|o2 l2 r2|u x|l r|l|r| |f args|k es|n x|n x|ps ds b]; try exact I.
    destruct (needs F st (EBin o2 l2 r2)) eqn:EN; [exact I|]. split; [exact Ho'|].
    apply (H_edge C); [apply (ops_bin _ _ _ Hoc) | exact Ho' |]. specialize (Hr o2 l2 r2 eq_refl eq_refl). lia.
  Qed.

  Lemma atom_good a : good (EAtom a).
  Proof.
    apply goodb_good; try reflexivity. intros ctx pos unb _. repeat split; try (intro; discriminate).
    intros _ rest. exists 1. reflexivity.
  Qed.

  (* the start of a range parses back, at the unary level, to the start expression; it does not begin with `..` *)
  Lemma start_unary l ctx unb : operand l = true -> wf l = true -> ops_ok l = true -> good l ->
    N.max ctx (bs_rng F) = bs_rng F ->
    (forall rest, exists g, p_unary T (par T g) (range_start F l ctx unb ++ rest) = Some (l, rest)) /\
    (exists t ts, range_start F l ctx unb = t :: ts /\ match t with TRg _ _ => False | _ => True end).
  Proof.
    intros Hp Hw Ho Gl Hc.
    assert (Hok : okst l (bs_rng F, PUnspec, unb)) by (apply okst_lt; apply (H_alias_rng C)).
    destruct (range_start_cases l ctx unb) as [E|[[s [-> E]]|[u [p [-> [EN E]]]]]]; rewrite E; rewrite ?Hc.
    - (* the expression as it is *)
      split.
      + destruct (Gl (bs_rng F, PUnspec, unb) Hok) as [_ [GlU _]]. exact (GlU (rng_child l unb Hp Ho)).
      + destruct (fmt_head l Hp Hw Ho (bs_rng F, PUnspec, unb) Hok (func_wrapped _ _ _ l (H_call_rng C))) as [t0 [ts0 [E0 Hh]]].
        exists t0, ts0. split; [exact E0|].
        destruct (rng_child l unb Hp Ho) as [Hn|[Hn|Hn]].
        * destruct (operand_cases l Hp) as [Hpl|[n [x ->]]].
          -- rewrite (wrapped_plain l _ Hpl) in Hn. rewrite (fmt_plain l _ Hpl), Hn in E0. cbn [wrap] in E0. injection E0 as <- _. exact I.
          -- rewrite fmt_alias_hi in E0 by apply (H_alias_rng C). injection E0 as <- _. exact I.
        * destruct l; try discriminate Hn; rewrite fmt_eq in E0; destruct (needs F _ _) in E0; cbn [wrap kind_fmt inner_state] in E0; injection E0 as <- _; exact I.
        * destruct l; try discriminate Hn; rewrite fmt_eq in E0; destruct (needs F _ _) in E0; cbn [wrap kind_fmt inner_state] in E0; injection E0 as <- _; exact I.
    - (* ($p) *)
      split; [|eexists _, _; split; [reflexivity | exact I]].
      intro rest. destruct (paren_term (EAtom (AParam s)) (bs_rng F, PUnspec, unb) eq_refl eq_refl eq_refl (atom_good _) rest) as [g Hg].
      exists g. cbn [app]. rewrite <- app_assoc. cbn [app]. apply unary_of_term; [exact Hg | exact I].
    - (* op($p) *)
      split; [|eexists _, _; split; [reflexivity | exact I]].
      intro rest. cbn [ops_ok] in Ho. apply andb_true_iff in Ho as [Hu _]. apply Nat.ltb_lt in Hu.
      destruct (paren_term (EAtom (AParam p)) (N.max ctx (bs_un F), PUnspec, unb) eq_refl eq_refl eq_refl (atom_good _) rest) as [g Hg].
      exists g. cbn [app]. rewrite <- app_assoc. cbn [app p_unary]. rewrite (H_un_sym C u Hu). rewrite Hg. reflexivity.
  Qed.

  (* ---------------- the header of a lambda: parameter names, then `k:default` entries, up to `->` *)
  Lemma params_names ps : forall g X (ds : list expr) (r : list tok), q_params (par T g) X = Some ((@nil str, ds), r) ->
    q_params (par T (length ps + g)) (map (fun p => TA (APar p)) ps ++ X) = Some ((ps, ds), r).
  Proof.
    induction ps as [|p t IH]; intros g X ds r H; [exact H|].
    cbn [length map app Nat.add par step q_params]. fold (par T (length t + g)).
    rewrite (IH g X ds r H). reflexivity.
  Qed.

  Lemma stop_header p rest : match rest with (TNamed _ | TThin) :: _ => True | _ => False end -> stop p rest.
  Proof. destruct rest as [|[] ?]; cbn; intro H; try contradiction; split; exact I. Qed.

  Lemma fmt_defaults_cons c unb k x t :
    fmt_defaults F c unb (ENamed k x :: t) = TNamed k :: fmt F x (c, PUnspec, unb) ++ fmt_defaults F c unb t.
  Proof. reflexivity. Qed.

  Lemma defaults_parse c unb Y : (bs_call F <= c)%N -> (alias_ctx F < c)%N ->
    forall ds, Forall elem_good ds -> forallb is_named ds = true -> forallb wf ds = true -> forallb ops_ok ds = true ->
    exists g, q_params (par T g) (fmt_defaults F c unb ds ++ TThin :: Y) = Some ((@nil str, ds), TThin :: Y).
  Proof.
    intros Hcc Hac. induction ds as [|d t IH]; intros HG Hn Hw Ho.
    - exists 1. reflexivity.
    - inversion HG as [|? ? Gd Gt]; subst. cbn [forallb] in Hn, Hw, Ho. bsplit.
      destruct (IH Gt ltac:(assumption) ltac:(assumption) ltac:(assumption)) as [g2 Hg2].
      destruct d as [a0|o l r|u x|l r|l|r| |f args|k es|n x|n x|ps0 ds0 b0]; try discriminate.
      cbn [elem_good wf ops_ok] in *. bsplit.
      rewrite fmt_defaults_cons. cbn [app]. rewrite <- app_assoc.
      set (rest1 := fmt_defaults F c unb t ++ TThin :: Y) in *.
      assert (Hst : forall p, stop p rest1).
      { intro p. apply stop_header. unfold rest1. destruct t as [|d2 t2]; [exact I|].
        cbn [forallb] in *. bsplit. destruct d2; try discriminate. rewrite fmt_defaults_cons. exact I. }
      destruct (Gd (c, PUnspec, unb) ltac:(apply okst_lt; exact Hac)) as [_ [_ [Gb _]]].
      destruct (Gb 0 rest1 (x, rest1) 1) as [g1 Hg1].
      { apply call_wrapped. exact Hcc. }
      { intros; lia. }
      { apply Hst. }
      { apply loop_stop. apply Hst. }
      exists (S (g1 + g2)). cbn [par step q_params].
      rewrite (up_bin g1 (g1 + g2) _ _ _ ltac:(lia) Hg1), (up_params g2 (g1 + g2) _ _ ltac:(lia) Hg2). reflexivity.
  Qed.

  Theorem all_good e : Pgood e.
  Proof.
    induction e as [a|o l r IHl IHr|u x IHx|l r IHl IHr|l IHl|r IHr| |f args IHf IHargs|k es IHes|n x IHx|n x IHx|ps ds b IHds IHb] using expr_ind2;
      intros Hw Ho; cbn [elem_good].
    10: { (* alias *)
      cbn [wf ops_ok] in Hw, Ho. bsplit.
      pose proof (pgood_operand x IHx (plain_operand x ltac:(assumption)) ltac:(assumption) ltac:(assumption)) as Gx.
      split; [exact Gx | intros _; apply alias_good; assumption]. }
    10: { (* named *)
      cbn [wf ops_ok] in Hw, Ho. bsplit.
      split; [apply pgood_operand; assumption | intro Hnm; discriminate Hnm]. }
    all: match goal with |- good ?e /\ _ => cut (good e); [intro G0; split; [exact G0 | intros _; exact G0] |] end.
    - (* atom *)
      apply atom_good.
    - (* binary *)
      pose proof Hw as Hw0. pose proof Ho as Ho0. cbn [wf ops_ok] in Hw, Ho. bsplit.
      pose proof (ops_bin _ _ _ Ho0) as Hob.
      pose proof (pgood_operand l IHl ltac:(assumption) ltac:(assumption) ltac:(assumption)) as Gl.
      pose proof (pgood_operand r IHr ltac:(assumption) ltac:(assumption) ltac:(assumption)) as Gr.
      apply goodb_good; try assumption; try reflexivity.
      intros ctx pos unb Hc. cbn [strength] in Hc.
      repeat split; try (intro; discriminate).
      intros _ minp rest k f Hm Hs Hloop. cbn [kind_fmt]. rewrite Hc.
      specialize (Hm o l r eq_refl). cbn [kedge] in Hs.
      pose proof (H_alias_bin C o Hob) as Hab.
      (* A: the right operand *)
      destruct (Gr (bs o, PRight, unb) ltac:(apply okst_lt; exact Hab)) as [_ [_ [GrB _]]].
      assert (HrR : forall o2 l2 r2, r = EBin o2 l2 r2 -> needs F (bs o, PRight, unb) r = false -> rbp T o <= lbp T o2).
      { intros o2 l2 r2 -> EN. rewrite needs_bin in EN. apply negb_false_iff in EN.
        apply (H_right C); [exact Hob | apply (ops_bin o2 l2 r2); assumption | exact EN]. }
      destruct (GrB (rbp T o) rest (r, rest) 1) as [g1 HA].
      { apply call_wrapped. apply (H_call_bin C); exact Hob. }
      { intros EN o2 l2 r2 E. apply (HrR o2 l2 r2 E). subst r. exact EN. }
      { apply (stop_edge_child o); assumption. }
      { apply loop_stop; exact Hs. }
      (* B: the loop resumed at the left operand consumes `o r` *)
      assert (HB : q_loop (par T (S (g1 + f))) minp l (TS (sym_bin F o) false :: fmt F r (bs o, PRight, unb) ++ rest) = Some k).
      { cbn [par step q_loop]. rewrite (H_bin_sym C o Hob). destruct (Nat.leb_spec minp (lbp T o)); [|lia].
        rewrite (up_bin g1 (g1 + f) _ _ _ ltac:(lia) HA). apply (up_loop f (g1 + f)); [lia | exact Hloop]. }
      (* C: the left operand *)
      destruct (Gl (bs o, PLeft, unb) ltac:(apply okst_lt; exact Hab)) as [_ [_ [GlB _]]].
      rewrite <- app_assoc. cbn [app].
      apply (GlB minp _ k (S (g1 + f))); [ | | | exact HB].
      + apply call_wrapped. apply (H_call_bin C); exact Hob.
      + intros EN o2 l2 r2 ->. change (needs F (bs o, PLeft, unb) (EBin o2 l2 r2) = false) in EN.
        rewrite needs_bin in EN. apply negb_false_iff in EN.
        pose proof (H_left C o o2 Hob (ops_bin o2 l2 r2 ltac:(assumption)) EN).
        pose proof (H_adj C o2 (ops_bin o2 l2 r2 ltac:(assumption))). lia.
      + split; [exact I|]. rewrite (H_bin_sym C o Hob). unfold edge.
        destruct l as [a0|o2 l2 r2|u x|l1 r1|l1|r1| |f1 args1|k1 es1|n x|n x|ps ds b]; try exact I.
        destruct (needs F (bs o, PLeft, unb) (EBin o2 l2 r2)) eqn:EN; [exact I|].
        split; [exact Hob|]. rewrite needs_bin in EN. apply negb_false_iff in EN.
        apply (H_left C); [exact Hob | apply (ops_bin o2 l2 r2); assumption | exact EN].
    - (* unary *)
      pose proof Hw as Hw0. pose proof Ho as Ho0. cbn [wf ops_ok] in Hw, Ho. bsplit.
      match goal with H : (u <? nu) = true |- _ => apply Nat.ltb_lt in H; rename H into Hu end.
      pose proof (pgood_operand x IHx ltac:(assumption) ltac:(assumption) ltac:(assumption)) as Gx.
      apply goodb_good; try assumption; try reflexivity.
      intros ctx pos unb Hc. cbn [strength] in Hc.
      repeat split; try (intro; discriminate).
      intros _ rest. cbn [kind_fmt]. rewrite Hc.
      destruct (Gx (bs_un F, PUnspec, unb) ltac:(apply okst_lt; apply (H_alias_un C))) as [Gt _].
      destruct (Gt (un_child x PUnspec unb ltac:(assumption) ltac:(assumption)) rest) as [g Hg].
      exists g. cbn [app p_unary]. rewrite (H_un_sym C u Hu). rewrite Hg. reflexivity.
    - (* range l..r *)
      pose proof Hw as Hw0. pose proof Ho as Ho0. cbn [wf ops_ok] in Hw, Ho. bsplit.
      pose proof (pgood_operand l IHl ltac:(assumption) ltac:(assumption) ltac:(assumption)) as Gl.
      pose proof (pgood_operand r IHr ltac:(assumption) ltac:(assumption) ltac:(assumption)) as Gr.
      apply goodb_good; try assumption; try reflexivity.
      intros ctx pos unb Hc. cbn [strength] in Hc.
      repeat split; try (intro; discriminate).
      intros _ rest. cbn [kind_fmt]. rewrite Hc.
      destruct (Gr (bs_rng F, PUnspec, unb) ltac:(apply okst_lt; apply (H_alias_rng C))) as [_ [GrU _]].
      destruct (GrU (rng_child r unb ltac:(assumption) ltac:(assumption)) rest) as [g2 Hg2].
      destruct (start_unary l ctx unb ltac:(assumption) ltac:(assumption) ltac:(assumption) Gl Hc) as [GlU [t0 [ts0 [E Hnr]]]].
      destruct (GlU (TRg true true :: fmt F r (bs_rng F, PUnspec, unb) ++ rest)) as [g1 Hg1].
      exists (g1 + g2). rewrite <- app_assoc. cbn [app].
      pose proof (up_unary g1 (g1 + g2) _ _ ltac:(lia) Hg1) as Hg1'. pose proof (up_unary g2 (g1 + g2) _ _ ltac:(lia) Hg2) as Hg2'.
      rewrite E in *. cbn [app] in *. unfold p_range.
      destruct t0; try contradiction; rewrite Hg1'; rewrite Hg2'; reflexivity.
    - (* range l.. *)
      pose proof Hw as Hw0. pose proof Ho as Ho0. cbn [wf ops_ok] in Hw, Ho. bsplit.
      pose proof (pgood_operand l IHl ltac:(assumption) ltac:(assumption) ltac:(assumption)) as Gl.
      apply goodb_good; try assumption; try reflexivity.
      intros ctx pos unb Hc. cbn [strength] in Hc.
      repeat split; try (intro; discriminate).
      intros _ rest. cbn [kind_fmt].
      destruct (start_unary l ctx unb ltac:(assumption) ltac:(assumption) ltac:(assumption) Gl Hc) as [GlU [t0 [ts0 [E Hnr]]]].
      destruct (GlU (TRg true false :: rest)) as [g1 Hg1].
      exists g1. rewrite <- app_assoc. cbn [app].
      rewrite E in *. cbn [app] in *. unfold p_range.
      destruct t0; try contradiction; rewrite Hg1; reflexivity.
    - (* range ..r *)
      pose proof Hw as Hw0. pose proof Ho as Ho0. cbn [wf ops_ok] in Hw, Ho. bsplit.
      pose proof (pgood_operand r IHr ltac:(assumption) ltac:(assumption) ltac:(assumption)) as Gr.
      apply goodb_good; try assumption; try reflexivity.
      intros ctx pos unb Hc. cbn [strength] in Hc.
      repeat split; try (intro; discriminate).
      intros _ rest. cbn [kind_fmt]. rewrite Hc.
      destruct (Gr (bs_rng F, PUnspec, unb) ltac:(apply okst_lt; apply (H_alias_rng C))) as [_ [GrU _]].
      destruct (GrU (rng_child r unb ltac:(assumption) ltac:(assumption)) rest) as [g2 Hg2].
      exists g2. cbn [app p_range]. rewrite Hg2. reflexivity.
    - (* range .. *)
      apply goodb_good; try reflexivity. intros ctx pos unb _. repeat split; try (intro; discriminate).
      intros _ rest. exists 0. reflexivity.
    - (* call *)
      pose proof Hw as Hw0. pose proof Ho as Ho0. cbn [wf ops_ok] in Hw, Ho. rewrite go_forall in Hw, Ho. bsplit.
      pose proof (pgood_operand f IHf ltac:(assumption) ltac:(assumption) ltac:(assumption)) as Gf.
      pose proof (forall_elem args IHargs ltac:(assumption) ltac:(assumption)) as Gargs.
      apply goodb_good; try assumption; try reflexivity.
      intros ctx pos unb Hc. cbn [strength] in Hc.
      repeat split; try (intro; discriminate).
      intros _ rest Hcl. cbn [kind_fmt]. rewrite Hc. rewrite <- app_assoc.
      destruct (args_parse PUnspec rest Hcl args Gargs ltac:(assumption) ltac:(assumption)) as [g2 Hg2].
      pose proof (args_stop PUnspec rest args Hcl ltac:(assumption) ltac:(assumption)) as Hstop.
      set (cf := N.max (no_alias F f ctx) (bs_call F)).
      destruct (Gf (cf, PUnspec, unb) (no_alias_ok f ctx PUnspec unb)) as [_ [_ [GfB _]]].
      destruct (GfB 0 (fmt_args F (bs_call F) PUnspec args ++ rest) (f, fmt_args F (bs_call F) PUnspec args ++ rest) 1) as [g1 Hg1].
      { apply call_wrapped. unfold cf. lia. }
      { intros; lia. }
      { apply Hstop. }
      { apply loop_stop. apply Hstop. }
      exists (S (g1 + g2)). cbn [par step q_call].
      rewrite (up_bin g1 (g1 + g2) _ _ _ ltac:(lia) Hg1), (up_args g2 (g1 + g2) _ _ ltac:(lia) Hg2).
      destruct args as [|a t]; [discriminate|]. rewrite named_first_id; [reflexivity | assumption].
    - (* group *)
      pose proof Hw as Hw0. pose proof Ho as Ho0. cbn [wf ops_ok] in Hw, Ho. rewrite go_forall in Hw, Ho. bsplit.
      pose proof (forall_elem es IHes ltac:(assumption) ltac:(assumption)) as Ges.
      apply goodb_good; try assumption; try reflexivity.
      intros ctx pos unb Hc.
      repeat split; try (intro; discriminate).
      intros _ rest. cbn [kind_fmt]. cbn [app]. rewrite <- app_assoc. cbn [app].
      assert (HI : exists g, q_items (par T g) k (fmt_items F k PUnspec es 0 ++ TClose k :: rest) = Some (es, rest)).
      { destruct k.
        - bsplit. apply items_simple; try assumption; try reflexivity.
          intros _ ->. match goal with H : (2 <=? length []) = true |- _ => discriminate H end.
        - apply items_simple; try assumption; try reflexivity. discriminate.
        - apply items_simple; try assumption; try reflexivity. discriminate.
        - bsplit. match goal with H : Nat.even (length es) = true |- _ => apply Nat.even_spec in H; destruct H as [n Hn] end.
          apply (items_case PUnspec rest n); try assumption; reflexivity. }
      destruct HI as [g Hg]. exists (S g). cbn [par step q_term]. rewrite Hg.
      destruct k; try reflexivity. destruct es as [|a [|b t]]; try reflexivity.
      bsplit. match goal with H : (2 <=? length [a]) = true |- _ => discriminate H end.
    - (* lambda *)
      pose proof Hw as Hw0. pose proof Ho as Ho0. cbn [wf ops_ok] in Hw, Ho. rewrite go_forall in Hw, Ho. bsplit.
      assert (Hpb : plain b = true) by assumption.
      pose proof (pgood_operand b IHb (plain_operand b Hpb) ltac:(assumption) ltac:(assumption)) as Gb.
      pose proof (forall_elem ds IHds ltac:(assumption) ltac:(assumption)) as Gds.
      apply goodb_good; try assumption; try reflexivity.
      intros ctx pos unb Hc. cbn [strength] in Hc.
      repeat split; try (intro; discriminate).
      intros _ rest Hcl. cbn [kind_fmt app p_lc]. repeat rewrite <- app_assoc. cbn [app].
      set (cd := N.max ctx (default_ctx F)). set (cb := N.max ctx (body_ctx F)).
      (* the body *)
      destruct (Gb (cb, PUnspec, unb) (okst_plain b _ Hpb)) as [_ [_ [_ Gbc]]].
      destruct (Gbc (plain_not_alias b Hpb) rest Hcl) as [g3 Hg3].
      rewrite (lc_call b (cb, PUnspec, unb) rest (par T g3) (plain_operand b Hpb) ltac:(assumption) ltac:(assumption) (okst_plain b _ Hpb)) in Hg3.
      2: { intro Hf. apply func_needs; [pose proof (H_func_body C); unfold cb; lia | exact Hf]. }
      (* the header *)
      destruct (defaults_parse cd unb (fmt F b (cb, PUnspec, unb) ++ rest)
                  ltac:(pose proof (H_call_default C); unfold cd; lia) ltac:(pose proof (H_alias_default C); unfold cd; lia)
                  ds Gds ltac:(assumption) ltac:(assumption) ltac:(assumption)) as [g2 Hg2].
      pose proof (params_names ps g2 _ _ _ Hg2) as Hg1.
      exists (S (length ps + g2 + g3)). cbn [par step q_lam].
      rewrite (up_params (length ps + g2) (length ps + g2 + g3) _ _ ltac:(lia) Hg1).
      rewrite (up_call g3 (length ps + g2 + g3) _ _ ltac:(lia) Hg3). reflexivity.
  Qed.

  (* ---------------- a parameter is never glued to a following `..` (the repair of commit 1b7b9df, at token level) *)
  Definition ends_param (ts : list tok) : bool := match last ts TComma with TA (AParam _) => true | _ => false end.
  Definition starts_rng (ts : list tok) : bool := match ts with TRg true _ :: _ => true | _ => false end.

  Lemma glued_cons2 t t2 r :
    glued (t :: t2 :: r) = (match t, t2 with TA (AParam _), TRg true _ => true | _, _ => false end) || glued (t2 :: r).
  Proof. reflexivity. Qed.

  Lemma glued_app A B : glued (A ++ B) = glued A || glued B || (ends_param A && starts_rng B).
  Proof.
    induction A as [|t A IH]; [cbn; rewrite orb_false_r; reflexivity|].
    destruct A as [|t2 A'].
    - cbn [app]. destruct B as [|b B'].
      + destruct t as [a| | | | | | | | | | | | | | | | | ]; try reflexivity. destruct a; reflexivity.
      + rewrite glued_cons2. generalize (glued (b :: B')). intro y.
        destruct t as [a|s un|bl br|k|k| | | |n|n| | |i|w| | | | ]; try (destruct y; reflexivity).
        destruct a; try (destruct y; reflexivity).
        destruct b as [a2|s2 un2|bl2 br2|k2|k2| | | |n2|n2| | |i2|w2| | | | ]; try (destruct y; reflexivity).
        destruct bl2; destruct y; reflexivity.
    - change ((t :: t2 :: A') ++ B) with (t :: t2 :: (A' ++ B)). rewrite !glued_cons2.
      change (t2 :: A' ++ B) with ((t2 :: A') ++ B). rewrite IH.
      assert (ends_param (t :: t2 :: A') = ends_param (t2 :: A')) as -> by reflexivity.
      rewrite !orb_assoc. reflexivity.
  Qed.

  Lemma glued_app_false A B : glued A = false -> glued B = false -> (ends_param A = false \/ starts_rng B = false) ->
    glued (A ++ B) = false.
  Proof. intros HA HB H. rewrite glued_app, HA, HB. destruct H as [-> | ->]; [reflexivity | apply andb_false_r]. Qed.

  Lemma glued_cons t ts : (forall s, t <> TA (AParam s)) -> glued (t :: ts) = glued ts.
  Proof.
    intro H. cbn [glued]. destruct t as [a|s un|bl br|k|k| | | |n|n| | |i|w| | | | ]; try reflexivity.
    destruct a; try reflexivity. exfalso. apply (H s). reflexivity.
  Qed.

  Lemma ends_param_snoc ts t : (forall s, t <> TA (AParam s)) -> ends_param (ts ++ [t]) = false.
  Proof.
    intro H. unfold ends_param. rewrite last_last. destruct t as [a| | | | | | | | | | | | | | | | | ]; try reflexivity.
    destruct a; try reflexivity. exfalso. apply (H s). reflexivity.
  Qed.
  Lemma ends_param_cons t t2 ts : ends_param (t :: t2 :: ts) = ends_param (t2 :: ts).
  Proof. reflexivity. Qed.

  Lemma glued_wrap w ts : glued ts = false -> glued (wrap w ts) = false.
  Proof.
    intro H. destruct w; [|exact H]. cbn [wrap]. rewrite glued_cons by discriminate.
    apply glued_app_false; [exact H | reflexivity | right; reflexivity].
  Qed.
  Lemma ends_param_wrap ts : ends_param (wrap true ts) = false.
  Proof. cbn [wrap]. change (TOpen GPipe :: ts ++ [TClose GPipe]) with ((TOpen GPipe :: ts) ++ [TClose GPipe]). apply ends_param_snoc. discriminate. Qed.

  Lemma ends_close_not_param ts : ends_close ts = true -> ends_param ts = false.
  Proof. unfold ends_close, ends_param. destruct (last ts TComma) as [a| | | |k| | | | | | | | | | | | | ]; try discriminate; reflexivity. Qed.

  (* no printed expression begins with a `..` that binds to the left *)
  Lemma head_not_rng e st : wf e = true -> ops_ok e = true -> starts_rng (fmt F e st) = false.
  Proof.
    intros Hw Ho. destruct (elem_head_gen e st Hw Ho) as [t [ts [E H]]]. rewrite E. destruct t; try reflexivity.
    subst bl. reflexivity.
  Qed.

  (* in front of `..` the start of a range never ends in a parameter token *)
  Lemma start_not_param l ctx unb : operand l = true -> wf l = true -> ops_ok l = true ->
    N.max ctx (bs_rng F) = bs_rng F -> ends_param (range_start F l ctx unb) = false.
  Proof.
    intros Hp Hw Ho Hc.
    destruct (range_start_cases l ctx unb) as [E|[[s [-> E]]|[u [p [-> [EN E]]]]]]; rewrite E.
    2: { change (TOpen GPipe :: fmt F (EAtom (AParam s)) (N.max ctx (bs_rng F), PUnspec, unb) ++ [TClose GPipe])
           with (wrap true (fmt F (EAtom (AParam s)) (N.max ctx (bs_rng F), PUnspec, unb))). apply ends_param_wrap. }
    2: { change (TS (sym_un F u) true :: TOpen GPipe :: fmt F (EAtom (AParam p)) (N.max ctx (bs_un F), PUnspec, unb) ++ [TClose GPipe])
           with ((TS (sym_un F u) true :: TOpen GPipe :: fmt F (EAtom (AParam p)) (N.max ctx (bs_un F), PUnspec, unb)) ++ [TClose GPipe]).
         apply ends_param_snoc. discriminate. }
    (* the expression as it is: then either its text ends in `)`, or it is no parameter and no sign applied to one *)
    unfold range_start in E. rewrite Hc in *.
    destruct (ends_close (fmt F l (bs_rng F, PUnspec, unb))) eqn:EC; [apply ends_close_not_param; exact EC|].
    assert (Wr : forall x st', wrapped st' x = true -> operand x = true -> okst x st' -> ends_close (fmt F x st') = true).
    { intros x [[c' p'] u'] Hwx Hpx Hokx. destruct (operand_cases x Hpx) as [Hpl|[n [y ->]]].
      - rewrite (wrapped_plain x _ Hpl) in Hwx. rewrite (fmt_plain x _ Hpl), Hwx. cbn [wrap]. apply ends_close_cons_snoc.
      - rewrite fmt_alias_hi by (apply Hokx; reflexivity).
        change (TOpen GPipe :: TAlias n :: fmt F y (0%N, p', false) ++ [TClose GPipe])
          with (TOpen GPipe :: (TAlias n :: fmt F y (0%N, p', false)) ++ [TClose GPipe]). apply ends_close_cons_snoc. }
    assert (Hokl : okst l (bs_rng F, PUnspec, unb)) by (apply okst_lt; apply (H_alias_rng C)).
    destruct (rng_child l unb Hp Ho) as [Hn|[Hn|Hn]].
    - rewrite (Wr l (bs_rng F, PUnspec, unb) Hn Hp Hokl) in EC. discriminate EC.
    - destruct l as [a|o l1 r1|u x|l1 r1|l1|r1| |f args|k es|n x|n x|ps ds b]; try discriminate Hn.
      + (* an atom that is no parameter (a parameter is case 2 above) *)
        rewrite fmt_eq in *. destruct (needs F (bs_rng F, PUnspec, unb) (EAtom a)); cbn [wrap kind_fmt inner_state] in *; [apply ends_param_wrap|].
        destruct a; try reflexivity. cbn [kind_of] in E. cbn [ends_close last] in E. discriminate E.
      + rewrite fmt_eq. destruct (needs F (bs_rng F, PUnspec, unb) (EGroup k es)); cbn [wrap kind_fmt inner_state]; [apply ends_param_wrap|].
        change (TOpen k :: fmt_items F k PUnspec es 0 ++ [TClose k]) with ((TOpen k :: fmt_items F k PUnspec es 0) ++ [TClose k]).
        apply ends_param_snoc. discriminate.
    - destruct l as [a|o l1 r1|u x|l1 r1|l1|r1| |f args|k es|n x|n x|ps ds b]; try discriminate Hn.
      cbn [wf ops_ok] in Hw, Ho. bsplit.
      rewrite fmt_eq in *. destruct (needs F (bs_rng F, PUnspec, unb) (EUn u x)) eqn:EN; cbn [wrap kind_fmt inner_state] in *; [apply ends_param_wrap|].
      assert (Hokx : okst x (N.max (bs_rng F) (bs_un F), PUnspec, unb)) by (apply okst_lt; pose proof (H_alias_un C); lia).
      assert (Hmx : N.max (bs_rng F) (bs_un F) = bs_un F) by (pose proof (H_rng_un C); lia).
      rewrite Hmx in *.
      destruct (fmt F x (bs_un F, PUnspec, unb)) as [|t2 ts2] eqn:Ex.
      { destruct (fmt_head' x ltac:(assumption) ltac:(assumption) ltac:(assumption) _ Hokx) as [t3 [ts3 [E3 _]]]. rewrite E3 in Ex. discriminate Ex. }
      rewrite ends_param_cons. rewrite <- Ex.
      destruct (un_child x PUnspec unb ltac:(assumption) ltac:(assumption)) as [Hx|Hx].
      + apply ends_close_not_param. apply Wr; assumption.
      + destruct x as [a|o2 l2 r2|u2 x2|l2 r2|l2|r2| |f2 args2|k2 es2|n2 x2|n2 x2|ps2 ds2 b2]; try discriminate Hx.
        * rewrite fmt_eq. destruct (needs F _ (EAtom a)) eqn:ENa; cbn [wrap kind_fmt inner_state]; [apply ends_param_wrap|].
          destruct a; try reflexivity.
          (* a sign applied to a parameter is case 3 above *)
          exfalso. cbn [kind_of is_param] in E. injection E as E1 _.
          rewrite fmt_eq, ENa in Ex. cbn [wrap kind_fmt inner_state] in Ex. injection Ex as Ex1 _. rewrite <- Ex1 in E1. discriminate E1.
        * rewrite fmt_eq. destruct (needs F _ (EGroup k2 es2)); cbn [wrap kind_fmt inner_state]; [apply ends_param_wrap|].
          change (TOpen k2 :: fmt_items F k2 PUnspec es2 0 ++ [TClose k2]) with ((TOpen k2 :: fmt_items F k2 PUnspec es2 0) ++ [TClose k2]).
          apply ends_param_snoc. discriminate.
  Qed.

  Lemma starts_rng_app X Y : X <> [] -> starts_rng (X ++ Y) = starts_rng X.
  Proof. destruct X as [|t X']; [intro H; contradiction H; reflexivity | reflexivity]. Qed.

  Lemma starts_rng_fmt_app e st Y : wf e = true -> ops_ok e = true -> starts_rng (fmt F e st ++ Y) = false.
  Proof.
    intros Hw Ho. destruct (elem_head_gen e st Hw Ho) as [t [ts [E H]]]. rewrite E. cbn [app].
    destruct t; try reflexivity. subst bl. reflexivity.
  Qed.

  Lemma glued_atom a st : glued (fmt F (EAtom a) st) = false.
  Proof. rewrite fmt_eq. apply glued_wrap. destruct st as [[ctx pos] unb]. cbn [kind_fmt inner_state]. destruct (needs F _ _); destruct a; reflexivity. Qed.

  Lemma starts_rng_defaults c unb t Y : starts_rng Y = false -> starts_rng (fmt_defaults F c unb t ++ Y) = false.
  Proof.
    intro HY. induction t as [|d t IH]; [exact HY|].
    unfold fmt_defaults. cbn [flat_map]. fold (fmt_defaults F c unb t). rewrite <- app_assoc.
    destruct d; try exact IH. reflexivity.
  Qed.

  Lemma ends_param_names ps : ends_param (map (fun p => TA (APar p)) ps) = false.
  Proof.
    induction ps as [|p t IH]; [reflexivity|]. cbn [map]. destruct t as [|p2 t2]; [reflexivity|].
    cbn [map] in *. rewrite ends_param_cons. exact IH.
  Qed.
  Lemma glued_names ps : glued (map (fun p => TA (APar p)) ps) = false.
  Proof. induction ps as [|p t IH]; [reflexivity|]. cbn [map]. rewrite glued_cons by discriminate. exact IH. Qed.

  (* the induction predicate: the statement for e, and for the value of a named argument / default *)
  Definition Qglue (e : expr) : Prop :=
    (wf e = true -> ops_ok e = true -> forall st, glued (fmt F e st) = false) /\
    match e with ENamed _ x => wf x = true -> ops_ok x = true -> forall st, glued (fmt F x st) = false | _ => True end.

  Theorem no_glue_all e : Qglue e.
  Proof.
    induction e as [a|o l r IHl IHr|u x IHx|l r IHl IHr|l IHl|r IHr| |f args IHf IHargs|k es IHes|n x IHx|n x IHx|ps ds b IHds IHb] using expr_ind2.
    11: { (* named *)
      destruct IHx as [Gx _]. split; [|exact Gx].
      intros Hw Ho [[ctx pos] unb]. cbn [wf ops_ok] in Hw, Ho. bsplit. rewrite fmt_eq. rewrite glued_cons by discriminate. apply Gx; assumption. }
    10: { (* alias *)
      destruct IHx as [Gx _]. split; [|exact I].
      intros Hw Ho [[ctx pos] unb]. cbn [wf ops_ok] in Hw, Ho. bsplit. rewrite fmt_eq.
      destruct (alias_ctx F <? ctx)%N.
      - rewrite !glued_cons by discriminate. apply glued_app_false; [apply Gx; assumption | reflexivity | right; reflexivity].
      - rewrite glued_cons by discriminate. apply Gx; assumption. }
    all: split; [|exact I]; intros Hw Ho st; rewrite fmt_eq; apply glued_wrap;
      match goal with |- context [inner_state st (needs F st ?e)] =>
        pose proof (inner_ctx st e) as Hc; revert Hc; generalize (inner_state st (needs F st e)) end; intros [[ctx pos] unb] Hc;
      cbn [fst strength] in Hc; cbn [kind_fmt]; cbn [wf ops_ok] in Hw, Ho; bsplit.
    - destruct a; reflexivity.
    - destruct IHl as [Gl _]. destruct IHr as [Gr _].
      apply glued_app_false; [apply Gl; assumption | rewrite glued_cons by discriminate; apply Gr; assumption | right; reflexivity].
    - destruct IHx as [Gx _]. rewrite glued_cons by discriminate. apply Gx; assumption.
    - destruct IHl as [Gl _]. destruct IHr as [Gr _].
      apply glued_app_false; [ | rewrite glued_cons by discriminate; apply Gr; assumption | left; apply start_not_param; assumption].
      destruct (range_start_cases l ctx unb) as [E|[[s [-> E]]|[u [p [-> [EN E]]]]]]; rewrite E.
      + apply Gl; assumption.
      + apply (glued_wrap true). apply glued_atom.
      + rewrite glued_cons by discriminate. apply (glued_wrap true). apply glued_atom.
    - destruct IHl as [Gl _].
      apply glued_app_false; [ | reflexivity | left; apply start_not_param; assumption].
      destruct (range_start_cases l ctx unb) as [E|[[s [-> E]]|[u [p [-> [EN E]]]]]]; rewrite E.
      + apply Gl; assumption.
      + apply (glued_wrap true). apply glued_atom.
      + rewrite glued_cons by discriminate. apply (glued_wrap true). apply glued_atom.
    - destruct IHr as [Gr _]. rewrite glued_cons by discriminate. apply Gr; assumption.
    - reflexivity.
    - (* call *)
      rewrite go_forall in *. destruct IHf as [Gf _].
      assert (GA : forall c pos0, glued (fmt_args F c pos0 args) = false /\ (forall Y, starts_rng Y = false -> starts_rng (fmt_args F c pos0 args ++ Y) = false)).
      { intros c pos0. clear - IHargs H2 H0 C. revert H2 H0. induction IHargs as [|a t Pa Pt IH]; intros Hws Hos; [split; [reflexivity | intros Y HY; exact HY]|].
        cbn [forallb] in Hws, Hos. bsplit. destruct (IH ltac:(assumption) ltac:(assumption)) as [G1 G2]. destruct Pa as [Ga _].
        rewrite fmt_args_cons. split.
        - apply glued_app_false; [apply Ga; assumption | exact G1 | right; rewrite <- (app_nil_r (fmt_args F c pos0 t)); apply G2; reflexivity].
        - intros Y HY. rewrite <- app_assoc. apply starts_rng_fmt_app; assumption. }
      destruct (GA (N.max ctx (bs_call F)) PUnspec) as [G1 G2].
      apply glued_app_false; [apply Gf; assumption | exact G1 | right; rewrite <- (app_nil_r (fmt_args F _ _ args)); apply G2; reflexivity].
    - (* group *)
      rewrite go_forall in *.
      rewrite glued_cons by discriminate. apply glued_app_false; [ | reflexivity | right; reflexivity].
      match goal with H : forallb wf es = true |- _ => rename H into Hws end.
      match goal with H : forallb (ops_ok) es = true |- _ => rename H into Hos end.
      clear - IHes Hws Hos C. generalize 0 at 1. revert Hws Hos. induction IHes as [|a t Pa Pt IH]; intros Hws Hos i; [reflexivity|].
      cbn [forallb] in Hws, Hos. bsplit. destruct Pa as [Ga _].
      destruct t as [|b t']; [cbn [fmt_items]; apply Ga; assumption|].
      rewrite fmt_items_cons2. apply glued_app_false; [apply Ga; assumption | | right; destruct k; cbn [sep_of]; try reflexivity; destruct (Nat.even i); reflexivity].
      rewrite glued_cons by (destruct k; cbn [sep_of]; try discriminate; destruct (Nat.even i); discriminate).
      apply IH; assumption.
    - (* lambda *)
      rewrite go_forall in *. destruct IHb as [Gb _].
      rewrite glued_cons by discriminate.
      apply glued_app_false; [apply glued_names | | left; apply ends_param_names].
      match goal with H : forallb wf ds = true |- _ => rename H into Hws end.
      match goal with H : forallb (ops_ok) ds = true |- _ => rename H into Hos end.
      assert (GB : glued (TThin :: fmt F b (N.max ctx (body_ctx F), PUnspec, unb)) = false).
      { rewrite glued_cons by discriminate. apply Gb; assumption. }
      assert (SB : starts_rng (TThin :: fmt F b (N.max ctx (body_ctx F), PUnspec, unb)) = false) by reflexivity.
      revert GB SB. generalize (TThin :: fmt F b (N.max ctx (body_ctx F), PUnspec, unb)). intros B GB SB.
      clear - IHds Hws Hos C GB SB. revert Hws Hos. induction IHds as [|d t Pd Pt IH]; intros Hws Hos; [exact GB|].
      cbn [forallb] in Hws, Hos. bsplit. specialize (IH ltac:(assumption) ltac:(assumption)).
      unfold fmt_defaults. cbn [flat_map]. fold (fmt_defaults F (N.max ctx (default_ctx F)) unb t). rewrite <- app_assoc.
      destruct d; try exact IH.
      destruct Pd as [_ Gx]. cbn [wf ops_ok] in *. bsplit. cbn [app]. rewrite glued_cons by discriminate.
      apply glued_app_false; [apply Gx; assumption | exact IH | right; apply starts_rng_defaults; exact SB].
  Qed.

  Corollary no_glue e st : wf e = true -> ops_ok e = true -> glued (fmt F e st) = false.
  Proof. intros Hw Ho. destruct (no_glue_all e) as [G _]. apply G; assumption. Qed.

  (* ---------------- the theorem *)
  Theorem roundtrip e : wf e = true -> ops_ok e = true -> is_named e = false ->
    exists f0, forall f, f0 <= f -> parse T f (fmt_top F e) = Some e.
  Proof.
    intros Hw Ho Hn.
    destruct (nested_elem e true PUnspec Hw Ho Hn (fun _ => eq_refl) (proj1 (all_good e Hw Ho)) [] I) as [g Hg].
    rewrite app_nil_r in Hg. exists g. intros f Hle. unfold parse, fmt_top, st0.
    rewrite (p_nested_mono _ _ (par_le T g f Hle) _ _ _ Hg). reflexivity.
  Qed.

  (* an expression written where the parser reads `expr()` (an annotation), at any context strength that
     parenthesises calls and aliased expressions *)
  Lemma expr_at_rest c e rest : (bs_call F <= c)%N -> (alias_ctx F < c)%N ->
    wf e = true -> ops_ok e = true -> is_named e = false -> closes rest ->
    exists g, q_bin (par T g) 0 (fmt F e (c, PUnspec, false) ++ rest) = Some (e, rest).
  Proof.
    intros Hc Ha Hw Ho Hn Hcl.
    destruct (all_good e Hw Ho) as [_ G]. specialize (G Hn).
    destruct (G (c, PUnspec, false) ltac:(apply okst_lt; exact Ha)) as [_ [_ [Gb _]]].
    apply (Gb 0 rest (e, rest) 1).
    - apply call_wrapped. exact Hc.
    - intros; lia.
    - apply closes_stop. exact Hcl.
    - apply loop_closes. exact Hcl.
  Qed.

  Theorem roundtrip_expr_at c e : (bs_call F <= c)%N -> (alias_ctx F < c)%N ->
    wf e = true -> ops_ok e = true -> is_named e = false ->
    exists f0, forall f, f0 <= f -> parse_expr T f (fmt F e (c, PUnspec, false)) = Some e.
  Proof.
    intros Hc Ha Hw Ho Hn.
    destruct (all_good e Hw Ho) as [_ G]. specialize (G Hn).
    destruct (G (c, PUnspec, false) ltac:(apply okst_lt; exact Ha)) as [_ [_ [Gb _]]].
    destruct (Gb 0 [] (e, []) 1) as [g Hg].
    - apply call_wrapped. exact Hc.
    - intros; lia.
    - apply closes_stop. exact I.
    - apply loop_closes. exact I.
    - rewrite app_nil_r in Hg. exists g. intros f Hle. unfold parse_expr.
      rewrite (up_bin g f _ _ _ Hle Hg). reflexivity.
  Qed.

  Corollary idempotent e : wf e = true -> ops_ok e = true -> is_named e = false ->
    forall f e', parse T f (fmt_top F e) = Some e' -> fmt_top F e' = fmt_top F e.
  Proof.
    intros Hw Ho Hn f e' Hp. destruct (roundtrip e Hw Ho Hn) as [f0 H0].
    pose proof (parse_mono T f (f + f0) _ _ ltac:(lia) Hp) as H1. rewrite (H0 (f + f0) ltac:(lia)) in H1.
    injection H1 as ->. reflexivity.
  Qed.
End RoundTrip.

(* ------------------------------------------------------------------ the boolean check implies the facts *)
Lemma forallb_seq (p : nat -> bool) n : forallb p (seq 0 n) = true -> forall i, i < n -> p i = true.
Proof.
  intros H i Hi. rewrite forallb_forall in H. apply H. apply in_seq. lia.
Qed.

Lemma compat_sound F T nb nu : compat F T nb nu = true -> compat_facts F T nb nu.
Proof.
  unfold compat. intro H.
  apply andb_true_iff in H as [H Caa].
  apply andb_true_iff in H as [H Cca].
  apply andb_true_iff in H as [H Cad].
  apply andb_true_iff in H as [H Ccd].
  apply andb_true_iff in H as [H Cfb].
  apply andb_true_iff in H as [H Cfs].
  apply andb_true_iff in H as [H Cfc].
  apply andb_true_iff in H as [H Cfp].
  apply andb_true_iff in H as [H Cac].
  apply andb_true_iff in H as [H Can].
  apply andb_true_iff in H as [H Car].
  apply andb_true_iff in H as [H Cau].
  apply andb_true_iff in H as [H Cab].
  apply andb_true_iff in H as [H Cpo].
  apply andb_true_iff in H as [H Cpc].
  apply andb_true_iff in H as [H Cpr].
  apply andb_true_iff in H as [H Cpu].
  apply andb_true_iff in H as [H Cpb].
  apply andb_true_iff in H as [H Cbr].
  apply andb_true_iff in H as [H Cru].
  apply andb_true_iff in H as [H Cbu].
  apply andb_true_iff in H as [H Ccr].
  apply andb_true_iff in H as [H Ccu].
  apply andb_true_iff in H as [H Ccb].
  apply andb_true_iff in H as [H Cadj].
  apply andb_true_iff in H as [H Cedge].
  apply andb_true_iff in H as [H Cright].
  apply andb_true_iff in H as [H Cleft].
  apply andb_true_iff in H as [H Ccbl].
  apply andb_true_iff in H as [H Cun].
  rename H into Cbin.
  constructor.
  - intros o Ho. pose proof (forallb_seq _ _ Cbin o Ho) as X. cbv beta in X.
    destruct (bin_of_sym T (sym_bin F o)) as [o'|]; [|discriminate]. apply Nat.eqb_eq in X. subst; reflexivity.
  - intros u Hu. pose proof (forallb_seq _ _ Cun u Hu) as X. cbv beta in X.
    destruct (un_of_sym T (sym_un F u)) as [u'|]; [|discriminate]. apply Nat.eqb_eq in X. subst; reflexivity.
  - intros u Hu Hc. pose proof (forallb_seq _ _ Ccbl u Hu) as X. cbv beta in X. rewrite Hc in X. cbn [orb] in X.
    destruct (bin_of_sym T (sym_un F u)); [discriminate | reflexivity].
  - intros o o2 Ho Ho2 Hu. pose proof (forallb_seq _ _ (forallb_seq _ _ Cleft o Ho) o2 Ho2) as X. cbv beta in X.
    rewrite Hu in X. cbn [implb] in X. apply Nat.ltb_lt in X. exact X.
  - intros o o2 Ho Ho2 Hu. pose proof (forallb_seq _ _ (forallb_seq _ _ Cright o Ho) o2 Ho2) as X. cbv beta in X.
    rewrite Hu in X. cbn [implb] in X. apply Nat.leb_le in X. exact X.
  - intros o2 o' Ho2 Ho' Hlt. pose proof (forallb_seq _ _ (forallb_seq _ _ Cedge o2 Ho2) o' Ho') as X. cbv beta in X.
    apply Nat.ltb_lt in Hlt. rewrite Hlt in X. cbn [implb] in X. apply Nat.ltb_lt in X. exact X.
  - intros o Ho. pose proof (forallb_seq _ _ Cadj o Ho) as X. apply Nat.leb_le in X. exact X.
  - intros o Ho. pose proof (forallb_seq _ _ Ccb o Ho) as X. apply N.leb_le in X. exact X.
  - apply N.leb_le; exact Ccu.
  - apply N.leb_le; exact Ccr.
  - intros o Ho. pose proof (forallb_seq _ _ Cbu o Ho) as X. apply N.ltb_lt in X. exact X.
  - apply N.leb_le; exact Cru.
  - intros o Ho. pose proof (forallb_seq _ _ Cbr o Ho) as X. apply N.leb_le in X. exact X.
  - intros o Ho. pose proof (forallb_seq _ _ Cpb o Ho) as X. apply N.ltb_lt in X. exact X.
  - repeat split; apply N.ltb_lt; assumption.
  - intros o Ho. pose proof (forallb_seq _ _ Cab o Ho) as X. apply N.ltb_lt in X. exact X.
  - apply N.ltb_lt; exact Cau.
  - apply N.ltb_lt; exact Car.
  - apply N.ltb_lt; exact Can.
  - apply N.leb_le; exact Cac.
  - apply N.ltb_lt; exact Cfp.
  - apply N.leb_le; exact Cfc.
  - apply N.leb_le; exact Cfs.
  - apply N.leb_le; exact Cfb.
  - apply N.leb_le; exact Ccd.
  - apply N.ltb_lt; exact Cad.
  - apply N.leb_le; exact Cca.
  - apply N.ltb_lt; exact Caa.
Qed.

(* Whatever sorts the Flattener drops ("undone" in front of a group), every take and every windowed
   compute is handed exactly the order in effect and the partition at its position -- at any nesting
   depth -- except behind an aggregate inside a group body (finding F44: the code ends the sort at an
   aggregate only outside of groups) and inside a group nested in a group with a non-empty key (finding
   F45: the inner group is partitioned by its own key only). *)
From Coq Require Import List Bool Arith Lia.
From PV Require Import Model.Flatten.
Import ListNotations.

Section Proofs.
  Variable key : Type.
  Variable empty : key.
  Notation flat := (flat key empty).
  Notation carried_spec := (carried_spec key empty).
  Notation carried_of := (carried_of key).
  Notation tame_agg := (tame_agg key).
  Notation tame_nest := (tame_nest key).
  Notation has_agg := (has_agg key).

  Lemma carried_of_app a b : carried_of (a ++ b) = carried_of a ++ carried_of b.
  Proof. unfold Flatten.carried_of. apply flat_map_app. Qed.

  Lemma carried_of_take pt k o : carried_of (OTake pt k :: o) = (pt, k) :: carried_of o.
  Proof. reflexivity. Qed.
  Lemma carried_of_win pt k o : carried_of (OWin pt k :: o) = (pt, k) :: carried_of o.
  Proof. reflexivity. Qed.

  (* the last transform of the list is an aggregate *)
  Definition is_agg (i : pitem key) : bool := match i with PAgg => true | _ => false end.
  Fixpoint last_agg (p : list (pitem key)) : bool :=
    match p with
    | [] => false
    | it :: r => match r with [] => is_agg it | _ => last_agg r end
    end.
  (* the one place where the carried sort AFTER the list differs from the specification inside the tame class:
     a group body that ends in an aggregate (the group discards it) *)
  Definition ends_agg (ing : bool) (p : list (pitem key)) : bool := ing && last_agg p.

  Lemma last_agg_cons it r : r <> [] -> last_agg (it :: r) = last_agg r.
  Proof. destruct r; [congruence | reflexivity]. Qed.

  Lemma ends_agg_cons_false ing it r : is_agg it = false -> ends_agg ing (it :: r) = false -> ends_agg ing r = false.
  Proof.
    unfold ends_agg. destruct ing; [|reflexivity]. cbn [andb]. destruct r as [|x r']; [reflexivity|].
    intros _ H. exact H.
  Qed.

  Lemma has_agg_last f p : has_agg (S f) p = false -> last_agg p = false.
  Proof.
    induction p as [|it r IH]; intro H; [reflexivity|].
    cbn [Flatten.has_agg existsb] in H. apply orb_false_iff in H. destruct H as [H1 H2].
    destruct r as [|x r'].
    - cbn [last_agg]. destruct it; cbn [is_agg]; try reflexivity. discriminate.
    - rewrite last_agg_cons by discriminate. apply IH. exact H2.
  Qed.

  (* PARTIAL (the full statement, without the two `tame` hypotheses, is refuted in Props/C03.v) *)
  Theorem flat_carries_order_in_effect_partial : forall fuel und part s p,
    tame_agg fuel (in_group part) p = true -> tame_nest fuel part p = true ->
    carried_of (fst (flat fuel und part s p)) = fst (carried_spec fuel part s p) /\
    (ends_agg (in_group part) p = false -> snd (flat fuel und part s p) = snd (carried_spec fuel part s p)).
  Proof.
    induction fuel as [|f IH]; intros und part s p Ht Hn; [cbn in Ht; discriminate|].
    destruct p as [|it rest]; [split; reflexivity|].
    cbn [Flatten.tame_agg] in Ht. cbn [Flatten.tame_nest] in Hn.
    cbn [Flatten.flat Flatten.carried_spec].
    destruct it as [k| | | | |n body|body|body].
    - (* PSort *)
      destruct (IH und part k rest Ht Hn) as [H1 H2].
      destruct (flat f und part k rest) as [o s'] eqn:E. cbn [fst snd] in *.
      split.
      + rewrite carried_of_app. destruct (und || existsb (is_ne_group key) rest); cbn; exact H1.
      + intro He. apply H2. eapply ends_agg_cons_false; [|exact He]. reflexivity.
    - (* PTake *)
      destruct (IH und part s rest Ht Hn) as [H1 H2].
      destruct (flat f und part s rest) as [o s'] eqn:E.
      destruct (carried_spec f part s rest) as [o2 s2] eqn:E2. cbn [fst snd] in *.
      split; [rewrite carried_of_take, H1; reflexivity|].
      intro He. apply H2. eapply ends_agg_cons_false; [|exact He]. reflexivity.
    - (* PWin *)
      destruct (IH und part s rest Ht Hn) as [H1 H2].
      destruct (flat f und part s rest) as [o s'] eqn:E.
      destruct (carried_spec f part s rest) as [o2 s2] eqn:E2. cbn [fst snd] in *.
      split; [rewrite carried_of_win, H1; reflexivity|].
      intro He. apply H2. eapply ends_agg_cons_false; [|exact He]. reflexivity.
    - (* POther *)
      destruct (IH und part s rest Ht Hn) as [H1 H2]. split; [exact H1|].
      intro He. apply H2. eapply ends_agg_cons_false; [|exact He]. reflexivity.
    - (* PAgg *)
      apply andb_true_iff in Ht. destruct Ht as [Hc Ht].
      destruct (in_group part) eqn:Eg; cbn [negb orb] in Hc.
      + (* inside a group: tame forces the aggregate to be the last transform of the body *)
        destruct rest as [|x r']; [|discriminate].
        split.
        * destruct f; reflexivity.
        * unfold ends_agg. cbn. discriminate.
      + rewrite <- Eg in Ht. destruct (IH und part empty rest Ht Hn) as [H1 H2]. rewrite Eg in H2. split; [exact H1|].
        intros _. apply H2. reflexivity.
    - (* PGroup *)
      apply andb_true_iff in Ht. destruct Ht as [Htb Htr].
      apply andb_true_iff in Hn. destruct Hn as [Hn Hnr]. apply andb_true_iff in Hn. destruct Hn as [Hz Hnb].
      apply Nat.eqb_eq in Hz. rewrite Hz. cbn [Nat.add].
      destruct (IH (match n with S _ => true | O => und || existsb (is_ne_group key) rest end) (Some n) empty body Htb Hnb) as [B1 _].
      destruct (IH und part empty rest Htr Hnr) as [H1 H2].
      destruct (flat f (match n with S _ => true | O => und || existsb (is_ne_group key) rest end) (Some n) empty body) as [ob sb] eqn:Eb.
      destruct (flat f und part empty rest) as [o s'] eqn:E.
      destruct (carried_spec f (Some n) empty body) as [ob2 sb2] eqn:Eb2.
      destruct (carried_spec f part empty rest) as [o2 s2] eqn:E2. cbn [fst snd] in *.
      split; [rewrite carried_of_app, B1, H1; reflexivity|].
      intro He. apply H2. eapply ends_agg_cons_false; [|exact He]. reflexivity.
    - (* PWindow *)
      apply andb_true_iff in Ht. destruct Ht as [Ht Htr]. apply andb_true_iff in Ht. destruct Ht as [Hc Htb].
      apply andb_true_iff in Hn. destruct Hn as [Hnb Hnr].
      destruct (IH (und || existsb (is_ne_group key) rest) part s body Htb Hnb) as [B1 B2].
      assert (Hb : ends_agg (in_group part) body = false).
      { unfold ends_agg. destruct (in_group part); [|reflexivity]. cbn [negb orb andb] in *.
        destruct f as [|f']; [cbn in Hc; discriminate|].
        apply has_agg_last with (f := f'). destruct (has_agg (S f') body); [discriminate|reflexivity]. }
      specialize (B2 Hb).
      destruct (flat f (und || existsb (is_ne_group key) rest) part s body) as [ob sb] eqn:Eb.
      destruct (carried_spec f part s body) as [ob2 sb2] eqn:Eb2. cbn [fst snd] in *. subst sb2.
      destruct (IH und part sb rest Htr Hnr) as [H1 H2].
      destruct (flat f und part sb rest) as [o s'] eqn:E.
      destruct (carried_spec f part sb rest) as [o2 s2] eqn:E2. cbn [fst snd] in *.
      split; [rewrite carried_of_app, B1, H1; reflexivity|].
      intro He. apply H2. eapply ends_agg_cons_false; [|exact He]. reflexivity.
    - (* PSub *)
      destruct (IH und part s rest Ht Hn) as [H1 H2]. split; [exact H1|].
      intro He. apply H2. eapply ends_agg_cons_false; [|exact He]. reflexivity.
  Qed.

  (* a whole query (outside of any group): both the sorts handed out and the sort left in effect *)
  Corollary flat_carries_order_in_effect_top : forall fuel und s p,
    Flatten.tame key fuel None p = true ->
    carried_of (fst (flat fuel und None s p)) = fst (carried_spec fuel None s p) /\
    snd (flat fuel und None s p) = snd (carried_spec fuel None s p).
  Proof.
    intros fuel und s p Ht. unfold Flatten.tame in Ht. apply andb_true_iff in Ht. destruct Ht as [Ha Hn].
    destruct (flat_carries_order_in_effect_partial fuel und None s p Ha Hn) as [H1 H2].
    split; [exact H1 | apply H2; reflexivity].
  Qed.

  (* a pipeline without groups keeps every Sort transform *)
  Fixpoint plain (p : list (pitem key)) : bool :=
    match p with
    | [] => true
    | PSort _ :: r | PTake :: r | PWin :: r | POther :: r | PAgg :: r => plain r
    | _ => false
    end.

  Fixpoint sorts_of (p : list (pitem key)) : list key :=
    match p with PSort k :: r => k :: sorts_of r | _ :: r => sorts_of r | [] => [] end.

  Definition emitted_sorts (o : list (out key)) : list key :=
    flat_map (fun x => match x with OSort k => [k] | _ => [] end) o.

  Lemma plain_no_group p : plain p = true -> existsb (is_ne_group key) p = false.
  Proof.
    induction p as [|it r IH]; intro H; [reflexivity|].
    destruct it; cbn [plain] in H; try discriminate; cbn [existsb is_ne_group]; apply IH; exact H.
  Qed.

  Lemma emitted_sorts_cons x o : emitted_sorts (x :: o) = match x with OSort k => [k] | _ => [] end ++ emitted_sorts o.
  Proof. reflexivity. Qed.

  Theorem plain_pipeline_keeps_sorts : forall p fuel part s, plain p = true -> length p < fuel ->
    emitted_sorts (fst (flat fuel false part s p)) = sorts_of p.
  Proof.
    induction p as [|it r IH]; intros fuel part s H Hf.
    - destruct fuel; reflexivity.
    - destruct fuel as [|f]; [cbn in Hf; lia|]. cbn [length] in Hf.
      destruct it; cbn [plain] in H; try discriminate; cbn [Flatten.flat sorts_of].
      + rewrite (plain_no_group r H). cbn [orb].
        specialize (IH f part k H ltac:(lia)). destruct (flat f false part k r) as [o s'] eqn:E. cbn [fst] in *.
        change (emitted_sorts (OSort k :: o) = k :: sorts_of r). rewrite emitted_sorts_cons, IH. reflexivity.
      + specialize (IH f part s H ltac:(lia)). destruct (flat f false part s r) as [o s'] eqn:E. cbn [fst] in *.
        rewrite emitted_sorts_cons. exact IH.
      + specialize (IH f part s H ltac:(lia)). destruct (flat f false part s r) as [o s'] eqn:E. cbn [fst] in *.
        rewrite emitted_sorts_cons. exact IH.
      + apply IH; [exact H | lia].
      + apply IH; [exact H | lia].
  Qed.
End Proofs.

(* Whatever sorts the Flattener drops ("undone" in front of a group), every take and every windowed
   compute is handed exactly the order in effect and the partition at its position -- at any nesting
   depth -- except inside a group nested in a group with a non-empty key (finding F45: the inner group
   is partitioned by its own key only).  (The second exception of the previous round, F44, was repaired
   by f809321: an aggregate ends the sort inside group bodies too.) *)
From Coq Require Import List Bool Arith Lia.
From PV Require Import Model.Flatten.
Import ListNotations.

Section Proofs.
  Variable key : Type.
  Variable empty : key.
  Notation flat := (flat key empty).
  Notation carried_spec := (carried_spec key empty).
  Notation carried_of := (carried_of key).
  Notation tame_nest := (tame_nest key).

  Lemma carried_of_app a b : carried_of (a ++ b) = carried_of a ++ carried_of b.
  Proof. unfold Flatten.carried_of. apply flat_map_app. Qed.

  Lemma carried_of_take pt k o : carried_of (OTake pt k :: o) = (pt, k) :: carried_of o.
  Proof. reflexivity. Qed.
  Lemma carried_of_win pt k o : carried_of (OWin pt k :: o) = (pt, k) :: carried_of o.
  Proof. reflexivity. Qed.

  (* PARTIAL (the full statement, without the `tame_nest` hypothesis, is refuted in Props/C03.v) *)
  Theorem flat_carries_order_in_effect_partial : forall fuel und part s p,
    tame_nest fuel part p = true ->
    carried_of (fst (flat fuel und part s p)) = fst (carried_spec fuel part s p) /\
    snd (flat fuel und part s p) = snd (carried_spec fuel part s p).
  Proof.
    induction fuel as [|f IH]; intros und part s p Hn; [cbn in Hn; discriminate|].
    destruct p as [|it rest]; [split; reflexivity|].
    cbn [Flatten.tame_nest] in Hn.
    cbn [Flatten.flat Flatten.carried_spec].
    destruct it as [k| | | | |n body|body|body].
    - (* PSort *)
      destruct (IH und part k rest Hn) as [H1 H2].
      destruct (flat f und part k rest) as [o s'] eqn:E. cbn [fst snd] in *.
      split; [|exact H2].
      rewrite carried_of_app. destruct (und || existsb (is_ne_group key) rest); cbn; exact H1.
    - (* PTake *)
      destruct (IH und part s rest Hn) as [H1 H2].
      destruct (flat f und part s rest) as [o s'] eqn:E.
      destruct (carried_spec f part s rest) as [o2 s2] eqn:E2. cbn [fst snd] in *.
      split; [rewrite carried_of_take, H1; reflexivity | exact H2].
    - (* PWin *)
      destruct (IH und part s rest Hn) as [H1 H2].
      destruct (flat f und part s rest) as [o s'] eqn:E.
      destruct (carried_spec f part s rest) as [o2 s2] eqn:E2. cbn [fst snd] in *.
      split; [rewrite carried_of_win, H1; reflexivity | exact H2].
    - (* POther *) exact (IH und part s rest Hn).
    - (* PAgg *) exact (IH und part empty rest Hn).
    - (* PGroup *)
      apply andb_true_iff in Hn. destruct Hn as [Hn Hnr]. apply andb_true_iff in Hn. destruct Hn as [Hz Hnb].
      apply Nat.eqb_eq in Hz. rewrite Hz. cbn [Nat.add].
      destruct (IH (match n with S _ => true | O => und || existsb (is_ne_group key) rest end) (Some n) empty body Hnb) as [B1 _].
      destruct (IH und part empty rest Hnr) as [H1 H2].
      destruct (flat f (match n with S _ => true | O => und || existsb (is_ne_group key) rest end) (Some n) empty body) as [ob sb] eqn:Eb.
      destruct (flat f und part empty rest) as [o s'] eqn:E.
      destruct (carried_spec f (Some n) empty body) as [ob2 sb2] eqn:Eb2.
      destruct (carried_spec f part empty rest) as [o2 s2] eqn:E2. cbn [fst snd] in *.
      split; [rewrite carried_of_app, B1, H1; reflexivity | exact H2].
    - (* PWindow *)
      apply andb_true_iff in Hn. destruct Hn as [Hnb Hnr].
      destruct (IH (und || existsb (is_ne_group key) rest) part s body Hnb) as [B1 B2].
      destruct (flat f (und || existsb (is_ne_group key) rest) part s body) as [ob sb] eqn:Eb.
      destruct (carried_spec f part s body) as [ob2 sb2] eqn:Eb2. cbn [fst snd] in *. subst sb2.
      destruct (IH und part sb rest Hnr) as [H1 H2].
      destruct (flat f und part sb rest) as [o s'] eqn:E.
      destruct (carried_spec f part sb rest) as [o2 s2] eqn:E2. cbn [fst snd] in *.
      split; [rewrite carried_of_app, B1, H1; reflexivity | exact H2].
    - (* PSub *) exact (IH und part s rest Hn).
  Qed.

  (* programs without nested groups at all: full strength on that sub-language, whatever the enclosing partition *)
  Fixpoint no_nested (fuel : nat) (ing : bool) (p : list (pitem key)) : bool :=
    match fuel with
    | O => false
    | S f =>
      match p with
      | [] => true
      | PGroup _ body :: rest => negb ing && no_nested f true body && no_nested f ing rest
      | PWindow body :: rest => no_nested f ing body && no_nested f ing rest
      | _ :: rest => no_nested f ing rest
      end
    end.

  Lemma no_nested_tame : forall fuel part p, no_nested fuel (in_group part) p = true -> tame_nest fuel part p = true.
  Proof.
    induction fuel as [|f IH]; intros part p H; [discriminate|].
    destruct p as [|it rest]; [reflexivity|].
    cbn [no_nested] in H. cbn [Flatten.tame_nest].
    destruct it as [k| | | | |n body|body|body]; try (apply IH; exact H).
    - apply andb_true_iff in H. destruct H as [H Hr]. apply andb_true_iff in H. destruct H as [Hi Hb].
      destruct part as [m|]; cbn [in_group negb] in Hi; [discriminate|].
      cbn [pcount Nat.eqb andb]. rewrite (IH (Some n) body Hb). cbn [andb]. apply (IH None rest Hr).
    - apply andb_true_iff in H. destruct H as [Hb Hr]. rewrite (IH part body Hb), (IH part rest Hr). reflexivity.
  Qed.

  (* a pipeline without groups keeps every Sort transform *)
  Fixpoint plain (p : list (pitem key)) : bool :=
    match p with
    | [] => true
    | PSort _ :: r | PTake :: r | PWin :: r | POther :: r | PAgg :: r => plain r
    | _ => false
    end.

  Fixpoint sorts_of (p : list (pitem key)) : list key :=
    match p with PSort k :: r => k :: sorts_of r | _ :: r => sorts_of r | [] => [] end.

  Definition emitted_sorts (o : list (out key)) : list key :=
    flat_map (fun x => match x with OSort k => [k] | _ => [] end) o.

  Lemma plain_no_group p : plain p = true -> existsb (is_ne_group key) p = false.
  Proof.
    induction p as [|it r IH]; intro H; [reflexivity|].
    destruct it; cbn [plain] in H; try discriminate; cbn [existsb is_ne_group]; apply IH; exact H.
  Qed.

  Lemma emitted_sorts_cons x o : emitted_sorts (x :: o) = match x with OSort k => [k] | _ => [] end ++ emitted_sorts o.
  Proof. reflexivity. Qed.

  Theorem plain_pipeline_keeps_sorts : forall p fuel part s, plain p = true -> length p < fuel ->
    emitted_sorts (fst (flat fuel false part s p)) = sorts_of p.
  Proof.
    induction p as [|it r IH]; intros fuel part s H Hf.
    - destruct fuel; reflexivity.
    - destruct fuel as [|f]; [cbn in Hf; lia|]. cbn [length] in Hf.
      destruct it; cbn [plain] in H; try discriminate; cbn [Flatten.flat sorts_of].
      + rewrite (plain_no_group r H). cbn [orb].
        specialize (IH f part k H ltac:(lia)). destruct (flat f false part k r) as [o s'] eqn:E. cbn [fst] in *.
        change (emitted_sorts (OSort k :: o) = k :: sorts_of r). rewrite emitted_sorts_cons, IH. reflexivity.
      + specialize (IH f part s H ltac:(lia)). destruct (flat f false part s r) as [o s'] eqn:E. cbn [fst] in *.
        rewrite emitted_sorts_cons. exact IH.
      + specialize (IH f part s H ltac:(lia)). destruct (flat f false part s r) as [o s'] eqn:E. cbn [fst] in *.
        rewrite emitted_sorts_cons. exact IH.
      + apply IH; [exact H | lia].
      + apply IH; [exact H | lia].
  Qed.
End Proofs.

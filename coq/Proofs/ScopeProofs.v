(* C10: facts about the scope model (Model/Scope.v).  Statements are listed in Props/C10.v. *)
From Coq Require Import List NArith Bool Lia Permutation Arith.
From PV Require Import Lib.ListX Model.Scope.
Import ListNotations.
Local Open Scope N_scope.

(* ------------------------------------------------------------------ emptiness of the candidate pieces *)

Lemma index_of_nil n l : forall k, existsb (leqb n) l = false -> index_of n l k = [].
Proof.
  induction l as [|x l IH]; intros k H; cbn [index_of existsb] in *; [reflexivity|].
  apply orb_false_iff in H as [H1 H2]. rewrite H1. cbn [app]. apply IH. exact H2.
Qed.

Lemma assoc_all_nil {B} n (l : list (str * B)) : existsb (fun p => leqb n (fst p)) l = false -> assoc_all n l = [].
Proof.
  induction l as [|[x b] l IH]; intro H; cbn [assoc_all existsb fst] in *; [reflexivity|].
  apply orb_false_iff in H as [H1 H2]. rewrite H1. cbn [app]. apply IH. exact H2.
Qed.

Lemma std_all_nil p l : existsb (fun q => path_eqb p (fst q)) l = false -> std_all p l = [].
Proof.
  induction l as [|[x k] l IH]; intro H; cbn [std_all existsb fst] in *; [reflexivity|].
  apply orb_false_iff in H as [H1 H2]. rewrite H1. cbn [app]. apply IH. exact H2.
Qed.

Lemma inputs_any_nil that n ins : forall i,
  existsb (fun x => existsb (leqb n) (in_cols x)) ins = false ->
  existsb (fun x => leqb n (in_name x)) ins = false ->
  inputs_any that n ins i = [].
Proof.
  induction ins as [|x ins IH]; intros i H1 H2; cbn [inputs_any existsb] in *; [reflexivity|].
  apply orb_false_iff in H1 as [A1 A2]. apply orb_false_iff in H2 as [B1 B2].
  rewrite (index_of_nil _ _ 0%nat A1), B1. cbn [map app]. apply IH; assumption.
Qed.

Lemma wild_inputs_nil that q ins : forall i,
  forallb (fun x => negb (in_wild x)) ins = true -> wild_inputs that q ins i = [].
Proof.
  induction ins as [|x ins IH]; intros i H; cbn [wild_inputs forallb] in *; [reflexivity|].
  apply andb_true_iff in H as [H1 H2]. apply negb_true_iff in H1. rewrite H1. cbn [andb app]. apply IH. exact H2.
Qed.

Lemma frame_lookup_bare_nil that f n :
  frame_has f n = false -> existsb (fun x => leqb n (in_name x)) (f_inputs f) = false ->
  frame_lookup that f ([], n) = [].
Proof.
  unfold frame_has, frame_lookup. cbn [fst snd]. intros H Hn. apply orb_false_iff in H as [H1 H2].
  rewrite (index_of_nil _ _ 0%nat H1), (inputs_any_nil _ _ _ 0%nat H2 Hn). reflexivity.
Qed.

(* ------------------------------------------------------------------ (a) closed frame, unknown name *)

Theorem closed_frame_rejects_unknown sc n :
  scope_closed sc = true -> in_frames sc n = false -> names_other sc n = false ->
  resolve sc ([], n) = RErr EUnknown.
Proof.
  unfold scope_closed, in_frames, names_other. intros Hc Hf Ho.
  apply andb_true_iff in Hc as [Hc1 Hc2]. apply orb_false_iff in Hf as [Hf1 Hf2].
  repeat (apply orb_false_iff in Ho as [Ho ?]).
  unfold resolve, lookup, infer_candidates. cbn [fst snd].
  rewrite (assoc_all_nil _ _ Ho). cbn [map app].
  rewrite H0, H. cbn [app].
  rewrite (frame_lookup_bare_nil false _ _ Hf1 H2).
  assert (that_lookup sc ([], n) = []) as ->.
  { unfold that_lookup. destruct (s_that sc) as [f|]; [|reflexivity]. apply frame_lookup_bare_nil; assumption. }
  rewrite (assoc_all_nil _ _ H4). rewrite (std_all_nil _ _ H3). cbn [map app].
  unfold that_infer, frame_infer. unfold frame_closed in *.
  rewrite (wild_inputs_nil false None _ 0%nat Hc1).
  destruct (s_that sc) as [f|]; [rewrite (wild_inputs_nil true None _ 0%nat Hc2)|]; reflexivity.
Qed.

(* ------------------------------------------------------------------ (b) ambiguity; independence of enumeration order *)

Theorem ambiguous_never_picks cands infer :
  (2 <= length cands)%nat -> resolve_from cands infer = RErr EAmbiguous.
Proof. destruct cands as [|a [|b l]]; cbn; intro H; try lia. reflexivity. Qed.

Theorem ambiguous_inference_never_picks infer :
  (2 <= length infer)%nat -> resolve_from [] infer = RErr EAmbiguous.
Proof. destruct infer as [|a [|b l]]; cbn; intro H; try lia. reflexivity. Qed.

Lemma resolve_from_by_length {A} (l l' : list A) :
  Permutation l l' ->
  (l = [] /\ l' = []) \/ (exists a, l = [a] /\ l' = [a]) \/ ((2 <= length l)%nat /\ (2 <= length l')%nat).
Proof.
  intro P. pose proof (Permutation_length P) as L.
  destruct l as [|a [|b l]].
  - left. apply Permutation_nil in P. auto.
  - right; left. apply Permutation_length_1_inv in P. eauto.
  - right; right. cbn in *. lia.
Qed.

Theorem resolve_order_independent cands cands' infer infer' :
  Permutation cands cands' -> Permutation infer infer' ->
  resolve_from cands infer = resolve_from cands' infer'.
Proof.
  intros P Q.
  destruct (resolve_from_by_length _ _ P) as [[-> ->]|[[a [-> ->]]|[L L']]].
  - destruct (resolve_from_by_length _ _ Q) as [[-> ->]|[[a [-> ->]]|[M M']]]; try reflexivity.
    rewrite !ambiguous_inference_never_picks by assumption. reflexivity.
  - reflexivity.
  - rewrite !ambiguous_never_picks by assumption. reflexivity.
Qed.

Theorem resolve_ok_unique cands infer :
  (forall c, resolve_from cands infer = RBound c -> cands = [c])
  /\ (forall i, resolve_from cands infer = RInferred i -> cands = [] /\ infer = [i]).
Proof.
  split.
  - intros c. destruct cands as [|a [|b l]]; cbn.
    + destruct infer as [|i [|j l]]; discriminate.
    + intro H; injection H as ->. reflexivity.
    + discriminate.
  - intros i. destruct cands as [|a [|b l]]; cbn; try discriminate.
    destruct infer as [|i0 [|j l]]; try discriminate. intro H; injection H as ->. auto.
Qed.

(* resolution of a whole scope never answers with a candidate when the lookup found two *)
Corollary scope_ambiguous sc id : (2 <= length (lookup sc id))%nat -> resolve sc id = RErr EAmbiguous.
Proof. apply ambiguous_never_picks. Qed.

(* the same name known in both inputs of a join is ambiguous *)
Lemma index_of_In n l : forall k, In n l -> index_of n l k <> [].
Proof.
  induction l as [|x l IH]; intros k []; cbn [index_of].
  - subst. rewrite leqb_refl. discriminate.
  - destruct (leqb n x); [discriminate|]. cbn [app]. apply IH. assumption.
Qed.

Lemma app_length_ge2 {A} (l1 l2 l3 : list A) : l1 <> [] -> l3 <> [] -> (2 <= length (l1 ++ l2 ++ l3))%nat.
Proof. destruct l1; [congruence|]. destruct l3; [congruence|]. intros _ _. rewrite !app_length. cbn. lia. Qed.

Theorem both_sides_ambiguous root x y n d par std :
  In n (in_cols x) -> In n (in_cols y) ->
  resolve (mkScope root (mkFrame [x; y] d) None par std) ([], n) = RErr EAmbiguous.
Proof.
  intros Hx Hy. apply scope_ambiguous. unfold lookup. cbn [fst snd s_root s_this s_that s_param s_std].
  unfold frame_lookup. cbn [fst snd f_direct f_inputs inputs_any].
  set (cx := map (CInput false 0) (index_of n (in_cols x) 0)).
  set (cy := map (CInput false 1) (index_of n (in_cols y) 0)).
  assert (cx <> []) as Nx.
  { unfold cx. intro E. apply map_eq_nil in E. revert E. apply index_of_In. exact Hx. }
  assert (cy <> []) as Ny.
  { unfold cy. intro E. apply map_eq_nil in E. revert E. apply index_of_In. exact Hy. }
  rewrite !app_length.
  destruct cx as [|a cx']; [congruence|]. destruct cy as [|b cy']; [congruence|].
  cbn [length]. rewrite ?app_length. cbn [length]. lia.
Qed.

Theorem this_and_that_ambiguous root x y n d d' par std :
  In n (in_cols x) -> In n (in_cols y) ->
  resolve (mkScope root (mkFrame [x] d) (Some (mkFrame [y] d')) par std) ([], n) = RErr EAmbiguous.
Proof.
  intros Hx Hy. apply scope_ambiguous. unfold lookup, that_lookup. cbn [fst snd s_root s_this s_that s_param s_std].
  unfold frame_lookup. cbn [fst snd f_direct f_inputs inputs_any].
  set (cx := map (CInput false 0) (index_of n (in_cols x) 0)).
  set (cy := map (CInput true 0) (index_of n (in_cols y) 0)).
  assert (cx <> []) as Nx.
  { unfold cx. intro E. apply map_eq_nil in E. revert E. apply index_of_In. exact Hx. }
  assert (cy <> []) as Ny.
  { unfold cy. intro E. apply map_eq_nil in E. revert E. apply index_of_In. exact Hy. }
  rewrite !app_length.
  destruct cx as [|a cx']; [congruence|]. destruct cy as [|b cy']; [congruence|].
  cbn [length]. rewrite ?app_length. cbn [length]. lia.
Qed.

(* ------------------------------------------------------------------ (c)(d)(e) function application *)

Theorem too_many_args_rejected f args named :
  (length (fs_params f) < length args)%nat -> exists e, apply_fn f args named = AErr e.
Proof.
  intro H. unfold apply_fn. destruct (first_unknown named (fs_named f)); [eauto|].
  apply Nat.ltb_lt in H. rewrite H. eauto.
Qed.

Theorem too_many_args_error f args named :
  (length (fs_params f) < length args)%nat -> first_unknown named (fs_named f) = None ->
  apply_fn f args named = AErr ETooManyArgs.
Proof. intros H N. unfold apply_fn. rewrite N. apply Nat.ltb_lt in H. rewrite H. reflexivity. Qed.

Lemma first_unknown_some named allowed n :
  In n named -> existsb (leqb n) allowed = false -> first_unknown named allowed <> None.
Proof.
  induction named as [|m named IH]; intros [] Hn; cbn [first_unknown].
  - subst. rewrite Hn. discriminate.
  - destruct (existsb (leqb m) allowed); [apply IH; assumption | discriminate].
Qed.

Theorem unknown_named_arg_rejected f args named n :
  In n named -> existsb (leqb n) (fs_named f) = false -> apply_fn f args named = AErr EUnknownNamed.
Proof.
  intros Hi Hn. unfold apply_fn. pose proof (first_unknown_some _ _ _ Hi Hn) as H.
  destruct (first_unknown named (fs_named f)); [reflexivity | congruence].
Qed.

Lemma args_ok_scalar_for_rel ps : forall args i,
  nth_error ps i = Some PRel -> nth_error args i = Some AScalar -> args_ok ps args <> None.
Proof.
  induction ps as [|p ps IH]; intros args i Hp Ha; [destruct i; discriminate|].
  destruct args as [|a args]; [destruct i; discriminate|].
  destruct i as [|i]; cbn [nth_error] in *.
  - injection Hp as ->. injection Ha as ->. cbn. discriminate.
  - cbn [args_ok]. destruct (arg_ok p a); [discriminate|]. eapply IH; eassumption.
Qed.

Theorem scalar_where_relation_rejected f args named i :
  nth_error (fs_params f) i = Some PRel -> nth_error args i = Some AScalar ->
  length args = length (fs_params f) ->
  exists e, apply_fn f args named = AErr e.
Proof.
  intros Hp Ha L. unfold apply_fn. destruct (first_unknown named (fs_named f)); [eauto|].
  rewrite L, Nat.ltb_irrefl.
  pose proof (args_ok_scalar_for_rel _ _ _ Hp Ha) as H.
  destruct (args_ok (fs_params f) args); [eauto | congruence].
Qed.

Lemma args_ok_nonrel_for_rel ps : forall args i a,
  nth_error ps i = Some PRel -> nth_error args i = Some a -> a <> ARel -> args_ok ps args <> None.
Proof.
  induction ps as [|p ps IH]; intros args i a Hp Ha Hn; [destruct i; discriminate|].
  destruct args as [|a0 args]; [destruct i; discriminate|].
  destruct i as [|i]; cbn [nth_error] in *.
  - injection Hp as ->. injection Ha as ->. destruct a; [congruence | cbn; discriminate | cbn; discriminate].
  - cbn [args_ok]. destruct (arg_ok p a0); [discriminate|]. eapply IH; eassumption.
Qed.

Theorem nonrelation_where_relation_rejected f args named i a :
  nth_error (fs_params f) i = Some PRel -> nth_error args i = Some a -> a <> ARel ->
  length args = length (fs_params f) ->
  exists e, apply_fn f args named = AErr e.
Proof.
  intros Hp Ha Hn L. unfold apply_fn. destruct (first_unknown named (fs_named f)); [eauto|].
  rewrite L, Nat.ltb_irrefl.
  pose proof (args_ok_nonrel_for_rel _ _ _ _ Hp Ha Hn) as H.
  destruct (args_ok (fs_params f) args); [eauto | congruence].
Qed.

(* a let-bound constant (or a parameter value) in a relation position is a scalar argument, hence rejected *)
Theorem constant_where_relation_rejected sc n f args named i k :
  lookup (shadowed sc) ([], n) = [CRoot NValue] \/ lookup (shadowed sc) ([], n) = [CParam NValue] ->
  rel_arg_kind sc ([], n) = Some k ->
  nth_error (fs_params f) i = Some PRel -> nth_error args i = Some k ->
  length args = length (fs_params f) ->
  exists e, apply_fn f args named = AErr e.
Proof.
  intros H K Hp Ha L. assert (k = AScalar) as ->.
  { unfold rel_arg_kind in K. destruct H as [H|H]; rewrite H in K; injection K as <-; reflexivity. }
  eapply scalar_where_relation_rejected; eassumption.
Qed.

(* a positional parameter's name is not a named parameter *)
Theorem named_arg_must_be_a_named_param f args named n :
  In n named -> existsb (leqb n) (fs_named f) = false -> apply_fn f args named = AErr EUnknownNamed.
Proof. apply unknown_named_arg_rejected. Qed.

(* ------------------------------------------------------------------ passthrough *)

Lemma frame_lookup_kinds that f id c :
  In c (frame_lookup that f id) ->
  match c with CDirect _ _ | CInput _ _ _ | CSelf _ _ => True | _ => False end.
Proof.
  unfold frame_lookup. destruct (fst id) as [|q [|q2 r]]; [| |intros []].
  - intro H. apply in_app_or in H as [H|H].
    + apply in_map_iff in H as [p [<- _]]. exact I.
    + revert H. generalize 0%nat. induction (f_inputs f) as [|x ins IH]; intros i H; cbn [inputs_any] in H; [destruct H|].
      apply in_app_or in H as [H|H]; [apply in_map_iff in H as [p [<- _]]; exact I|].
      apply in_app_or in H as [H|H]; [|eapply IH; exact H].
      destruct (leqb (snd id) (in_name x)); [destruct H as [<-|[]]; exact I | destruct H].
  - generalize 0%nat. induction (f_inputs f) as [|x ins IH]; intros i H; cbn [inputs_named] in H; [destruct H|].
    apply in_app_or in H as [H|H]; [|eapply IH; exact H].
    destruct (leqb q (in_name x)); [apply in_map_iff in H as [p [<- _]]; exact I | destruct H].
Qed.

Lemma that_lookup_kinds sc id c :
  In c (that_lookup sc id) -> match c with CDirect _ _ | CInput _ _ _ | CSelf _ _ => True | _ => False end.
Proof. unfold that_lookup. destruct (s_that sc); [apply frame_lookup_kinds | intros []]. Qed.

Lemma lookup_bare_nonframe sc n c :
  In c (lookup sc ([], n)) ->
  match c with
  | CRoot k => In k (assoc_all n (s_root sc))
  | CParam k => In k (assoc_all n (s_param sc))
  | CStd k => In k (std_all [n] (s_std sc))
  | _ => True
  end.
Proof.
  unfold lookup. cbn [fst snd]. intro H.
  apply in_app_or in H as [H|H]; [apply in_map_iff in H as [k [<- Hk]]; exact Hk|].
  apply in_app_or in H as [H|H]; [destruct (leqb n s_this_name); [destruct H as [<-|[]]; exact I | destruct H]|].
  apply in_app_or in H as [H|H].
  { destruct (leqb n s_that_name); [destruct H as [<-|[]]; exact I | destruct H]. }
  apply in_app_or in H as [H|H]; [apply frame_lookup_kinds in H; destruct c; tauto|].
  apply in_app_or in H as [H|H]; [apply that_lookup_kinds in H; destruct c; tauto|].
  apply in_app_or in H as [H|H]; apply in_map_iff in H as [k [<- Hk]]; exact Hk.
Qed.

Lemma existsb_In_false {A} (f : A -> bool) l x : existsb f l = false -> In x l -> f x = false.
Proof. intros H Hi. destruct (f x) eqn:E; [|reflexivity]. assert (existsb f l = true) by (apply existsb_exists; eauto). congruence. Qed.

(* a candidate `that` itself only comes from the bare name `that` *)
Lemma lookup_cframe sc id t : In (CFrame t) (lookup sc id) ->
  fst id = [] /\ (if t then leqb (snd id) s_that_name else leqb (snd id) s_this_name) = true.
Proof.
  unfold lookup. destruct id as [q n]. cbn [fst snd]. destruct q as [|q rest]; intro H.
  - split; [reflexivity|].
    apply in_app_or in H as [H|H]; [apply in_map_iff in H as [k [E _]]; discriminate|].
    apply in_app_or in H as [H|H].
    { destruct (leqb n s_this_name) eqn:E; [destruct H as [H|[]]; injection H as <-; (reflexivity || exact E) | destruct H]. }
    apply in_app_or in H as [H|H].
    { destruct (leqb n s_that_name) eqn:E; [destruct H as [H|[]]; injection H as <-; (reflexivity || exact E) | destruct H]. }
    apply in_app_or in H as [H|H]; [apply frame_lookup_kinds in H; destruct H|].
    apply in_app_or in H as [H|H]; [apply that_lookup_kinds in H; destruct H|].
    apply in_app_or in H as [H|H]; apply in_map_iff in H as [k [E _]]; discriminate.
  - exfalso.
    apply in_app_or in H as [H|H].
    { destruct (leqb q s_this_name); [apply frame_lookup_kinds in H; destruct H | destruct H]. }
    apply in_app_or in H as [H|H].
    { destruct (leqb q s_that_name); [apply that_lookup_kinds in H; destruct H | destruct H]. }
    apply in_app_or in H as [H|H].
    { destruct (leqb q s_std_name); [apply in_map_iff in H as [k [E _]]; discriminate | destruct H]. }
    apply in_app_or in H as [H|H].
    { destruct (leqb q s_param_name); [|destruct H]. destruct rest; [apply in_map_iff in H as [k [E _]]; discriminate | destruct H]. }
    apply in_app_or in H as [H|H]; [apply frame_lookup_kinds in H; destruct H|].
    apply in_app_or in H as [H|H]; [apply that_lookup_kinds in H; destruct H|].
    apply in_map_iff in H as [k [E _]]; discriminate.
Qed.

(* Since a131b2a the ONLY reference that can still reach SQL through lower_expr's unresolved-ident fallback is the bare
   name `that` outside a join condition (the empty shadow module; finding C10-F2) -- and only while lower_expr does not
   test for it (cfg_that_rejected = false) *)
Theorem passthrough_only_bare_that c sc id :
  lower_ref c sc id = OPassthrough ->
  fst id = [] /\ leqb (snd id) s_that_name = true /\ s_that sc = None /\ cfg_that_rejected c = false.
Proof.
  unfold lower_ref, lower_ref_in. destruct (resolve sc id) as [x|i|e] eqn:R; [| |discriminate].
  - unfold resolve in R. destruct (resolve_ok_unique (lookup sc id) (infer_candidates sc id)) as [U _].
    specialize (U x R). assert (In x (lookup sc id)) as Hin by (rewrite U; left; reflexivity).
    destruct x as [k|k|k| | | |t]; try discriminate; try (destruct k; discriminate).
    destruct t; [|discriminate].
    apply lookup_cframe in Hin as [Hq Hn]. unfold lower_that.
    destruct (s_that sc); [discriminate|]. destruct (cfg_that_rejected c); [discriminate|]. auto.
  - destruct i; discriminate.
Qed.

(* with the C10-F2 repair in the source: NO identifier, qualified or not, in any scope, reaches SQL unresolved *)
Theorem no_silent_passthrough_fixed c : cfg_that_rejected c = true -> forall sc id, lower_ref c sc id <> OPassthrough.
Proof. intros H sc id E. apply passthrough_only_bare_that in E as [_ [_ [_ E]]]. congruence. Qed.

Theorem no_silent_passthrough_partial c sc n :
  leqb n s_that_name = false \/ s_that sc <> None -> lower_ref c sc ([], n) <> OPassthrough.
Proof.
  intros H E. apply passthrough_only_bare_that in E as [_ [E1 [E2 _]]]. cbn [snd] in E1.
  destruct H as [H|H]; congruence.
Qed.

(* a131b2a at full strength: a name that denotes a module or a relation variable is never a value -- the reference is
   an error (not a value / ambiguous with something else), whatever the scope *)
Lemma lookup_has_modtab sc n : names_module_or_table sc n = true ->
  exists c k, In c (lookup sc ([], n)) /\ (c = CRoot k \/ c = CParam k \/ c = CStd k) /\ is_modtab k = true.
Proof.
  unfold names_module_or_table, lookup. cbn [fst snd]. intro H.
  apply orb_true_iff in H as [H|H]; [apply orb_true_iff in H as [H|H]|];
    apply existsb_exists in H as [k [Hin Hk]].
  - exists (CRoot k), k. split; [|auto]. apply in_or_app. left. apply in_map. exact Hin.
  - exists (CParam k), k. split; [|auto]. do 5 (apply in_or_app; right). apply in_or_app. left. apply in_map. exact Hin.
  - exists (CStd k), k. split; [|auto]. do 6 (apply in_or_app; right). apply in_map. exact Hin.
Qed.

Theorem module_or_relation_name_is_not_a_value c sc n :
  names_module_or_table sc n = true ->
  lower_ref c sc ([], n) = OErr ENotAValue \/ lower_ref c sc ([], n) = OErr EAmbiguous.
Proof.
  intro H. destruct (lookup_has_modtab sc n H) as [x [k [Hin [Hc Hk]]]].
  unfold lower_ref, lower_ref_in, resolve.
  destruct (lookup sc ([], n)) as [|c1 [|c2 l]]; [destruct Hin| |right; reflexivity].
  destruct Hin as [<-|[]]. left. cbn [resolve_from].
  destruct Hc as [->|[->| ->]]; destruct k; try discriminate Hk; reflexivity.
Qed.

(* a closed frame, a name that is in no frame: the only way not to be rejected is to denote something else *)

Definition is_col (c : cand) : bool := match c with CDirect _ _ | CInput _ _ _ => true | _ => false end.

Lemma index_of_nonempty n l : forall k, index_of n l k <> [] -> existsb (leqb n) l = true.
Proof.
  intros k H. destruct (existsb (leqb n) l) eqn:E; [reflexivity|]. exfalso. apply H. apply index_of_nil. exact E.
Qed.

Lemma inputs_any_col that n ins c : forall i,
  In c (inputs_any that n ins i) -> is_col c = true -> existsb (fun x => existsb (leqb n) (in_cols x)) ins = true.
Proof.
  induction ins as [|x ins IH]; intros i H Hc; cbn [inputs_any] in H; [destruct H|].
  cbn [existsb]. apply orb_true_iff.
  apply in_app_or in H as [H|H].
  - left. apply (index_of_nonempty n (in_cols x) 0%nat). intro E. rewrite E in H. destruct H.
  - apply in_app_or in H as [H|H]; [|right; eapply IH; eassumption].
    destruct (leqb n (in_name x)); [destruct H as [<-|[]]; discriminate | destruct H].
Qed.

Lemma frame_lookup_col that f n c :
  In c (frame_lookup that f ([], n)) -> is_col c = true -> frame_has f n = true.
Proof.
  unfold frame_lookup, frame_has. cbn [fst snd]. intros H Hc. apply orb_true_iff.
  apply in_app_or in H as [H|H].
  - left. apply (index_of_nonempty n (f_direct f) 0%nat). intro E. rewrite E in H. destruct H.
  - right. eapply inputs_any_col; eassumption.
Qed.

Lemma lookup_bare_col sc n c : In c (lookup sc ([], n)) -> is_col c = true -> in_frames sc n = true.
Proof.
  unfold lookup, in_frames. cbn [fst snd]. intros H Hc. apply orb_true_iff.
  apply in_app_or in H as [H|H]; [apply in_map_iff in H as [k [<- _]]; discriminate|].
  apply in_app_or in H as [H|H]; [destruct (leqb n s_this_name); [destruct H as [<-|[]]; discriminate | destruct H]|].
  apply in_app_or in H as [H|H].
  { destruct (leqb n s_that_name); [destruct H as [<-|[]]; discriminate | destruct H]. }
  apply in_app_or in H as [H|H]; [left; eapply frame_lookup_col; eassumption|].
  apply in_app_or in H as [H|H].
  { right. unfold that_lookup in H. destruct (s_that sc) as [f|]; [eapply frame_lookup_col; eassumption | destruct H]. }
  apply in_app_or in H as [H|H]; apply in_map_iff in H as [k [<- _]]; discriminate.
Qed.

Theorem closed_frame_outcome c sc n :
  scope_closed sc = true -> in_frames sc n = false ->
  match lower_ref c sc ([], n) with
  | OColumn _ _ _ | OInferredColumn _ _ => False
  | _ => True
  end.
Proof.
  intros Hc Hf. unfold lower_ref, lower_ref_in.
  destruct (resolve sc ([], n)) as [x|i|e] eqn:R; [| |exact I].
  - unfold resolve in R. destruct (resolve_ok_unique (lookup sc ([], n)) (infer_candidates sc ([], n))) as [U _].
    specialize (U x R). assert (In x (lookup sc ([], n))) as Hin by (rewrite U; left; reflexivity).
    destruct x as [k|k|k|t p|t i p|t i|t]; try (destruct k; exact I); try exact I;
      try (destruct t; [unfold lower_that; destruct (s_that sc); [|destruct (cfg_that_rejected c)]|]; exact I);
      (pose proof (lookup_bare_col sc n _ Hin eq_refl); congruence).
  - (* inferred: impossible in a closed scope *)
    destruct i as [t i|]; [|exact I]. exfalso.
    unfold resolve in R. destruct (resolve_ok_unique (lookup sc ([], n)) (infer_candidates sc ([], n))) as [_ U].
    destruct (U _ R) as [_ E]. unfold infer_candidates in E. cbn [fst] in E.
    unfold scope_closed in Hc. apply andb_true_iff in Hc as [Hc1 Hc2]. unfold frame_closed in *.
    unfold that_infer, frame_infer in E. rewrite (wild_inputs_nil false None _ 0%nat Hc1) in E.
    destruct (s_that sc) as [f|]; [rewrite (wild_inputs_nil true None _ 0%nat Hc2) in E|]; discriminate.
Qed.

(* ------------------------------------------------------------------ declarations inside modules (d92afac) *)

Lemma tails_ne_head m l : tails_ne (m :: l) = (m :: l) :: tails_ne l.
Proof. reflexivity. Qed.

(* both walks start at the declaration's own module *)
Lemma walk_head c m cur : exists rest, walk c (m :: cur) = (m :: cur) :: rest.
Proof.
  unfold walk. destruct (cfg_parent_walk c); [|eexists; reflexivity].
  unfold inits_ne. destruct (rev (m :: cur)) as [|y l] eqn:E.
  - apply (f_equal (@length str)) in E. rewrite rev_length in E. discriminate.
  - cbn [tails_ne map]. rewrite <- E, rev_involutive. eexists; reflexivity.
Qed.

Lemma rel_enclosing_sibling c mods sc m cur q n x :
  mlookup mods sc ((m :: cur) ++ q, n) = [x] -> rel_enclosing c mods sc (m :: cur) (q, n) = Some x.
Proof.
  intro H. unfold rel_enclosing. destruct (walk_head c m cur) as [rest ->].
  cbn [first_unique fst snd]. rewrite H. reflexivity.
Qed.

(* whatever the enclosing-modules step finds that is not a relation variable -- a sibling constant, function or
   module -- makes the call an error; before d92afac the same reference was a database table *)
Theorem enclosing_nonrelation_where_relation_rejected c ms id x f args named i k :
  rel_enclosing c (ms_mods ms) (shadowed (ms_scope ms)) (ms_cur ms) id = Some x ->
  arg_kind_of x <> ARel ->
  rel_arg_kind_m c ms id = Some k ->
  nth_error (fs_params f) i = Some PRel -> nth_error args i = Some k ->
  length args = length (fs_params f) ->
  exists e, apply_fn f args named = AErr e.
Proof.
  intros He Hc K Hp Ha L. unfold rel_arg_kind_m in K. rewrite He in K. injection K as <-.
  eapply nonrelation_where_relation_rejected; eassumption.
Qed.

Corollary sibling_constant_where_relation_rejected c ms m cur n f args named i k :
  ms_cur ms = m :: cur ->
  mlookup (ms_mods ms) (shadowed (ms_scope ms)) (m :: cur, n) = [CRoot NValue] ->
  rel_arg_kind_m c ms ([], n) = Some k ->
  nth_error (fs_params f) i = Some PRel -> nth_error args i = Some k ->
  length args = length (fs_params f) ->
  exists e, apply_fn f args named = AErr e.
Proof.
  intros Hcur Hl. eapply enclosing_nonrelation_where_relation_rejected.
  - rewrite Hcur. apply rel_enclosing_sibling. rewrite app_nil_r. exact Hl.
  - discriminate.
Qed.

(* a sibling relation variable is found, and is a relation *)
Theorem sibling_table_is_a_relation c ms m cur n :
  ms_cur ms = m :: cur ->
  mlookup (ms_mods ms) (shadowed (ms_scope ms)) (m :: cur, n) = [CRoot NTable] ->
  rel_arg_kind_m c ms ([], n) = Some ARel.
Proof.
  intros Hcur Hl. unfold rel_arg_kind_m. rewrite Hcur.
  rewrite (rel_enclosing_sibling c _ _ m cur [] n (CRoot NTable)); [reflexivity|]. rewrite app_nil_r. exact Hl.
Qed.

(* outside modules nothing changed *)
Theorem rel_arg_kind_m_at_root c ms id : ms_cur ms = [] -> rel_arg_kind_m c ms id = rel_arg_kind_m_before_d92afac ms id.
Proof.
  intro H. unfold rel_arg_kind_m, rel_arg_kind_m_before_d92afac, rel_enclosing, walk, inits_ne. rewrite H.
  destruct (cfg_parent_walk c); reflexivity.
Qed.

(* value positions: the first attempt that resolves wins, the declaration's own module first *)
Theorem sibling_shadows_in_value_position c ms m cur id r :
  ms_cur ms = m :: cur ->
  resolve_core_m (ms_mods ms) (ms_scope ms) ((m :: cur) ++ fst id, snd id) = r ->
  (forall e, r <> RErr e) -> resolve_m c ms id = r.
Proof.
  intros Hcur Hr Hne. unfold resolve_m, resolve_enclosing. rewrite Hcur.
  destruct (walk_head c m cur) as [rest ->]. cbn [first_resolved]. rewrite Hr.
  destruct r; try reflexivity. exfalso. eapply Hne. reflexivity.
Qed.

(* ---- the walk to the PARENT module (reference/spec/modules.md; the C10-F3 repair) ---- *)

(* with the prefix walk every enclosing module is visited, innermost first: a declaration of an ancestor is found
   unless something closer is *)
Lemma inits_ne_app pre x suf : In (pre ++ [x]) (inits_ne (pre ++ x :: suf)).
Proof.
  unfold inits_ne. apply in_map_iff. exists (rev (pre ++ [x])). split; [apply rev_involutive|].
  rewrite rev_app_distr. cbn [rev app]. replace (pre ++ x :: suf) with ((pre ++ [x]) ++ suf) by (rewrite <- app_assoc; reflexivity).
  rewrite rev_app_distr, rev_app_distr. cbn [rev app].
  induction (rev suf) as [|y l IH]; [left; reflexivity | right; exact IH].
Qed.

Theorem parent_walk_visits_every_ancestor c pre x suf :
  cfg_parent_walk c = true -> In (pre ++ [x]) (walk c (pre ++ x :: suf)).
Proof. intro H. unfold walk. rewrite H. apply inits_ne_app. Qed.

(* depth 2, the case of finding C10-F3: nothing of that name in m.n, one declaration in m *)
Theorem parent_declaration_found c mods sc m n id x :
  cfg_parent_walk c = true ->
  (forall y, mlookup mods sc ([m; n] ++ fst id, snd id) <> [y]) ->
  mlookup mods sc ([m] ++ fst id, snd id) = [x] ->
  rel_enclosing c mods sc [m; n] id = Some x.
Proof.
  intros H Hn Hp. unfold rel_enclosing, walk, inits_ne. rewrite H. cbn [rev app tails_ne map first_unique] in *.
  destruct (mlookup mods sc (m :: n :: fst id, snd id)) as [|y [|z l]] eqn:E.
  - rewrite Hp. reflexivity.
  - exfalso. apply (Hn y). reflexivity.
  - rewrite Hp. reflexivity.
Qed.

Corollary parent_constant_where_relation_rejected c ms m n name f args named i k :
  cfg_parent_walk c = true -> ms_cur ms = [m; n] ->
  (forall y, mlookup (ms_mods ms) (shadowed (ms_scope ms)) ([m; n], name) <> [y]) ->
  mlookup (ms_mods ms) (shadowed (ms_scope ms)) ([m], name) = [CRoot NValue] ->
  rel_arg_kind_m c ms ([], name) = Some k ->
  nth_error (fs_params f) i = Some PRel -> nth_error args i = Some k ->
  length args = length (fs_params f) ->
  exists e, apply_fn f args named = AErr e.
Proof.
  intros H Hcur Hn Hp. eapply enclosing_nonrelation_where_relation_rejected.
  - rewrite Hcur. apply (parent_declaration_found c _ _ m n ([], name) (CRoot NValue)); [exact H | |]; cbn [fst snd app]; assumption.
  - discriminate.
Qed.

(* the pop_front walk visits [n] instead of [m]: with nothing called n at the root the parent's declaration is missed *)
Theorem pop_front_walk_misses_parent c mods sc m n id :
  cfg_parent_walk c = false ->
  (forall y, mlookup mods sc ([m; n] ++ fst id, snd id) <> [y]) ->
  (forall y, mlookup mods sc ([n] ++ fst id, snd id) <> [y]) ->
  rel_enclosing c mods sc [m; n] id = None.
Proof.
  intros H H1 H2. unfold rel_enclosing, walk. rewrite H. cbn [tails_ne first_unique app] in *.
  destruct (mlookup mods sc (m :: n :: fst id, snd id)) as [|y [|z l]] eqn:E1; try (exfalso; apply (H1 y); reflexivity);
    destruct (mlookup mods sc (n :: fst id, snd id)) as [|y' [|z' l']] eqn:E2; try (exfalso; apply (H2 y'); reflexivity); reflexivity.
Qed.

(* ------------------------------------------------------------------ value positions inside modules: open frames *)

Theorem parent_value_found c mods sc m n id r :
  cfg_parent_walk c = true ->
  (exists e, resolve_core_m mods sc ([m; n] ++ fst id, snd id) = RErr e) ->
  resolve_core_m mods sc ([m] ++ fst id, snd id) = r -> (forall e, r <> RErr e) ->
  resolve_enclosing c mods sc [m; n] id = r.
Proof.
  intros H [e He] Hr Hne. unfold resolve_enclosing, walk, inits_ne. rewrite H.
  cbn [rev app tails_ne map first_resolved] in *. rewrite He, Hr.
  destruct r; try reflexivity. exfalso. eapply Hne. reflexivity.
Qed.

(* pop_front: both qualified attempts fail, so the identifier as written decides -- in an open frame that is inference:
   the parent's name silently becomes a column of the wildcard input *)
Theorem pop_front_leaves_parents_name_to_inference c mods sc m n id :
  cfg_parent_walk c = false ->
  (exists e, resolve_core_m mods sc ([m; n] ++ fst id, snd id) = RErr e) ->
  (exists e, resolve_core_m mods sc ([n] ++ fst id, snd id) = RErr e) ->
  resolve_enclosing c mods sc [m; n] id = resolve_core_m mods sc id.
Proof.
  intros H [e1 H1] [e2 H2]. unfold resolve_enclosing, walk. rewrite H.
  cbn [tails_ne first_resolved app] in *. rewrite H1, H2. reflexivity.
Qed.

(* ------------------------------------------------------------------ type names: this / that are shadowed (fold_type) *)

Theorem type_ref_ignores_frames root f1 t1 f2 t2 par std id :
  type_ref (mkScope root f1 t1 par std) id = type_ref (mkScope root f2 t2 par std) id.
Proof. reflexivity. Qed.

Theorem column_is_never_a_type sc n :
  names_decl sc n = false -> type_ref sc ([], n) = TErr EUnknown.
Proof.
  unfold names_decl. intro H. repeat (apply orb_false_iff in H as [H ?]).
  unfold type_ref. rewrite (closed_frame_rejects_unknown (shadowed sc) n); [reflexivity | reflexivity | reflexivity |].
  unfold names_other, shadowed. cbn [s_root s_param s_std s_this s_that f_inputs existsb].
  rewrite H, H2, H1, H0, H3. reflexivity.
Qed.

(* a type declared at the root, as a parameter or in std is a type, whatever the frame holds -- also a column of that name *)
Theorem type_name_not_captured_by_column sc n k :
  lookup (shadowed sc) ([], n) = [k] -> (k = CRoot NType \/ k = CStd NType \/ k = CParam NType) ->
  type_ref sc ([], n) = TOk.
Proof.
  intros H Hk. unfold type_ref, resolve. rewrite H. cbn [resolve_from].
  destruct Hk as [->|[->| ->]]; reflexivity.
Qed.

(* ------------------------------------------------------------------ case branches that static evaluation removes (C10-F7) *)

Theorem dead_branch_judged_like_a_live_one c sc id :
  cfg_dead_case_checked c = true -> lower_ref_dead c sc id = lower_ref c sc id.
Proof. intro H. unfold lower_ref_dead. rewrite H. reflexivity. Qed.

(* in particular: never dropped unchecked *)
Theorem dead_branch_never_unchecked c sc id :
  cfg_dead_case_checked c = true -> lower_ref_dead c sc id <> ODropped.
Proof.
  intro H. rewrite (dead_branch_judged_like_a_live_one c sc id H).
  unfold lower_ref, lower_ref_in, lower_that, of_kind.
  destruct (resolve sc id) as [x|i|e]; [|destruct i; discriminate|discriminate].
  destruct x as [k|k|k| | | |t]; try discriminate; try (destruct k; discriminate).
  destruct t; [|discriminate]. destruct (s_that sc); [discriminate|]. destruct (cfg_that_rejected c); discriminate.
Qed.

(* what the resolver itself rejects is rejected in a dead branch whatever the flag *)
Theorem dead_branch_resolver_errors_stay c sc id e :
  resolve sc id = RErr e -> lower_ref_dead c sc id = OErr e.
Proof.
  intro H. unfold lower_ref_dead, checked_at_lowering, lower_ref, lower_ref_in. rewrite H.
  rewrite andb_false_r. reflexivity.
Qed.

(* without the check a module or relation name in a dead branch is dropped unseen *)
Theorem dead_branch_module_dropped c sc n k :
  cfg_dead_case_checked c = false ->
  lookup sc ([], n) = [k] -> (k = CRoot NModule \/ k = CStd NModule \/ k = CRoot NTable) ->
  lower_ref_dead c sc ([], n) = ODropped.
Proof.
  intros H Hl Hk. unfold lower_ref_dead, checked_at_lowering, resolve. rewrite H, Hl. cbn [resolve_from negb andb].
  destruct Hk as [->|[->| ->]]; reflexivity.
Qed.

(* ------------------------------------------------------------------ calls of std operators in relation positions (C10-F4) *)

Theorem std_call_is_not_a_relation c a :
  cfg_std_call_rejected c = true -> a <> SRel -> seen c a <> ARel.
Proof. intros H Ha. destruct a; cbn [seen]; try rewrite H; try discriminate. congruence. Qed.

Theorem std_call_where_relation_rejected c f args named i :
  cfg_std_call_rejected c = true ->
  nth_error (fs_params f) i = Some PRel -> nth_error args i = Some (seen c SStdCall) ->
  length args = length (fs_params f) ->
  exists e, apply_fn f args named = AErr e.
Proof.
  intros H Hp Ha L. eapply nonrelation_where_relation_rejected; try eassumption.
  apply std_call_is_not_a_relation; [exact H | discriminate].
Qed.

Theorem std_call_taken_for_a_table c : cfg_std_call_rejected c = false -> seen c SStdCall = ARel.
Proof. intro H. cbn [seen]. rewrite H. reflexivity. Qed.

(* ------------------------------------------------------------------ C10-F6: excluded columns, characterised exactly *)

Lemma lower_ref_inferred c sc id t i : resolve sc id = RInferred (IInput t i) -> lower_ref c sc id = OInferredColumn t i.
Proof. intro H. unfold lower_ref, lower_ref_in. rewrite H. reflexivity. Qed.

(* the implementation (faithful model) differs from what the property demands EXACTLY on inferences of excluded columns *)
Theorem excluded_characterised ex c sc id :
  lower_ref c sc id <> lower_ref_x ex c sc id <-> excluded_inference ex sc id = true.
Proof.
  unfold lower_ref_x. destruct (excluded_inference ex sc id) eqn:E.
  - split; [reflexivity|]. intros _.
    unfold excluded_inference in E.
    destruct (resolve sc id) as [x|[t i|]|e] eqn:R; try discriminate. destruct t; [discriminate|].
    rewrite (lower_ref_inferred c sc id false i R). discriminate.
  - split; [|discriminate]. intro H. exfalso. apply H. reflexivity.
Qed.

Theorem no_exclusions_no_difference c sc id : lower_ref_x [] c sc id = lower_ref c sc id.
Proof.
  unfold lower_ref_x, excluded_inference. destruct (resolve sc id) as [x|[t i|]|e]; try reflexivity. destruct t; reflexivity.
Qed.

(* an excluded column that is inferred: the property says Unknown, the implementation binds it *)
Theorem excluded_inference_is_a_binding ex c sc id :
  excluded_inference ex sc id = true ->
  lower_ref_x ex c sc id = OErr EUnknown /\ exists i, lower_ref c sc id = OInferredColumn false i.
Proof.
  intro E. split; [unfold lower_ref_x; rewrite E; reflexivity|].
  unfold excluded_inference in E. destruct (resolve sc id) as [x|[t i|]|e] eqn:R; try discriminate. destruct t; [discriminate|].
  exists i. apply lower_ref_inferred. exact R.
Qed.

(* ------------------------------------------------------------------ C10-F5: the un-naming rule, characterised exactly *)

Lemma same_slot_same_name f g : same_slot f g = true -> same_name f g = true.
Proof. unfold same_slot. intro H. apply andb_true_iff in H as [H _]. exact H. Qed.

Lemma existsb_slot_name f r : existsb (same_slot f) r = true -> existsb (same_name f) r = true.
Proof.
  intro H. apply existsb_exists in H as [g [Hi Hg]]. apply existsb_exists. exists g. split; [exact Hi | apply same_slot_same_name; exact Hg].
Qed.

(* the implemented rule and the rule that respects relation prefixes agree EXACTLY on tuples in which no field's name is taken by
   a field of another relation *)
Theorem unname_characterised fs : unname fs = unname_spec fs <-> dup_across fs = false.
Proof.
  induction fs as [|f r IH]; [split; reflexivity|].
  cbn [unname unname_spec dup_across]. unfold stolen.
  destruct (existsb (same_name f) r) eqn:A; destruct (existsb (same_slot f) r) eqn:B; cbn [andb negb orb].
  - split; intro H; [injection H as H; apply IH; exact H | f_equal; apply IH; exact H].
  - split; intro H; discriminate.
  - apply existsb_slot_name in B. congruence.
  - split; intro H; [injection H as H; apply IH; exact H | f_equal; apply IH; exact H].
Qed.

(* after the implemented rule at most ONE field answers to a bare name: a bare name is never ambiguous among the fields of one
   tuple -- whatever relations they came from *)
Lemma named_unname_le n : forall fs, (named n (unname fs) <= 1)%nat.
Proof.
  induction fs as [|f r IH]; [cbn; lia|].
  cbn [unname]. unfold named in *. cbn [filter].
  destruct (existsb (same_name f) r) eqn:A; [exact IH|].
  destruct (leqb n (snd f)) eqn:E; [|exact IH].
  cbn [length]. assert (filter (fun o => match o with Some f0 => leqb n (snd f0) | None => false end) (unname r) = []) as ->; [|cbn; lia].
  clear IH. induction r as [|g r IHr]; [reflexivity|].
  cbn [existsb] in A. apply orb_false_iff in A as [A1 A2].
  cbn [unname filter]. destruct (existsb (same_name g) r); [apply IHr; exact A2|].
  unfold same_name in A1. apply leqb_spec in E. subst n.
  rewrite A1. apply IHr. exact A2.
Qed.

(* C12 lemmas about Model/RangeArith.v: when the checked arithmetic returns, it returns the ideal
   value; the ideal composition of take ranges is sound on lists (port of the design prototype
   compose_sound); the checked arithmetic cannot panic while the running sums stay inside i64. *)
From Coq Require Import List ZArith Bool Lia Arith.
From PV Require Import Model.Checked Model.RangeArith Proofs.CheckedProofs.
Import ListNotations.
Local Open Scope Z_scope.

Local Arguments Z.add : simpl never.
Local Arguments Z.sub : simpl never.
Local Arguments Z.mul : simpl never.
Local Arguments Z.min : simpl never.
Local Arguments Z.max : simpl never.
Local Arguments Z.to_nat : simpl never.
Local Arguments Z.ltb : simpl never.

(* ------------------------------------------------------------------ ideal composition *)
Definition icompose (cur nxt : irange) : irange :=
  let s := match r_start nxt, r_start cur with
           | Some a, Some b => Some (a + b - 1) | Some a, None => Some a | None, b => b end in
  let e := match r_end nxt with
           | Some b => Some ((match r_start cur with Some c => c | None => 1 end) + b - 1) | None => None end in
  let e' := match r_end cur, e with
            | Some a, Some b => Some (Z.min a b) | Some a, None => Some a | None, b => b end in
  IRange s e'.

Lemma add64_ret a b t : add64 a b = Ret t -> t = a + b.
Proof. intro H. apply chk64_ret in H. tauto. Qed.
Lemma sub64_ret a b t : sub64 a b = Ret t -> t = a - b.
Proof. intro H. apply chk64_ret in H. tauto. Qed.

Lemma try_lit r : try_range_into_int (lit r) = Ret r.
Proof. destruct r as [[s|] [e|]]; reflexivity. Qed.

Lemma step_ret cur r c : step cur (lit r) = Ret c -> c = icompose cur r.
Proof.
  unfold step. rewrite try_lit. cbn [bind].
  destruct cur as [cs ce], r as [rs re]. cbn [r_start r_end]. unfold icompose; cbn [r_start r_end].
  intro H.
  apply bind_ret in H as (s & Hs & H). apply bind_ret in H as (e & He & H).
  apply bind_ret in H as (e' & He' & H). injection H as <-.
  assert (s = match rs, cs with Some a, Some b => Some (a + b - 1) | Some a, None => Some a | None, b => b end) as ->.
  { destruct rs as [a|], cs as [b|]; cbn [or_map] in Hs; try (injection Hs as <-; reflexivity).
    apply bind_ret in Hs as (z & Hz & Hs). injection Hs as <-.
    apply bind_ret in Hz as (t & Ht & Hz). apply add64_ret in Ht. apply sub64_ret in Hz. subst. reflexivity. }
  assert (e = match re with Some b => Some (match cs with Some c => c | None => 1 end + b - 1) | None => None end) as ->.
  { destruct re as [b|]; [|injection He as <-; reflexivity].
    apply bind_ret in He as (t & Ht & He). apply bind_ret in He as (u & Hu & He). injection He as <-.
    apply add64_ret in Ht. apply sub64_ret in Hu. subst. reflexivity. }
  f_equal.
  destruct ce as [a|]; destruct (match re with Some b => Some (match cs with Some c => c | None => 1 end + b - 1) | None => None end) as [b|];
    cbn [or_map bind] in He'; injection He' as <-; reflexivity.
Qed.

Lemma fold_ret : forall rs cur c, fold_ranges cur (map lit rs) = Ret c -> c = fold_left icompose rs cur.
Proof.
  induction rs as [|r rs IH]; intros cur c H; cbn [map fold_ranges fold_left] in *.
  - injection H as <-. reflexivity.
  - apply bind_ret in H as (c1 & H1 & H2). apply step_ret in H1. subst c1. apply IH. exact H2.
Qed.

(* ------------------------------------------------------------------ lists *)
Lemma nth_error_ext (A : Type) (l1 l2 : list A) :
  (forall i, nth_error l1 i = nth_error l2 i) -> l1 = l2.
Proof.
  revert l2; induction l1 as [|a t IH]; intros [|b u] H; auto.
  - specialize (H 0%nat); discriminate.
  - specialize (H 0%nat); discriminate.
  - f_equal.
    + specialize (H 0%nat); cbn in H; congruence.
    + apply IH; intros i; exact (H (S i)).
Qed.

Lemma nth_error_skipn (A : Type) n (l : list A) i : nth_error (skipn n l) i = nth_error l (n + i)%nat.
Proof. revert l; induction n; intros [|a t]; cbn; auto. now destruct i. Qed.

Lemma nth_error_firstn (A : Type) n (l : list A) i :
  nth_error (firstn n l) i = if (i <? n)%nat then nth_error l i else None.
Proof.
  destruct (Nat.ltb_spec i n) as [H|H].
  - revert l i H; induction n as [|n IH]; intros l i H; [lia|].
    destruct l as [|a t]; [destruct i; reflexivity|]. destruct i as [|i]; [reflexivity|].
    rewrite firstn_cons. cbn [nth_error]. apply IH. lia.
  - apply nth_error_None. rewrite firstn_length. lia.
Qed.

Definition win (r : irange) (i : nat) : bool :=
  match r_end r with Some e => (i <? Z.to_nat (e - offz (r_start r)))%nat | None => true end.

Lemma nth_take (A : Type) r (l : list A) i :
  nth_error (take_range r l) i = if win r i then nth_error l (Z.to_nat (offz (r_start r)) + i)%nat else None.
Proof.
  unfold take_range, win. destruct (r_end r) as [e|].
  - rewrite nth_error_firstn, nth_error_skipn. reflexivity.
  - apply nth_error_skipn.
Qed.

Lemma valid_icompose r1 r2 : valid r1 -> valid r2 -> valid (icompose r1 r2).
Proof.
  destruct r1 as [[s1|] [e1|]], r2 as [[s2|] [e2|]]; unfold valid, icompose; cbn [r_start r_end]; lia.
Qed.

Theorem compose_sound (A : Type) r1 r2 (l : list A) : valid r1 -> valid r2 ->
  take_range (icompose r1 r2) l = take_range r2 (take_range r1 l).
Proof.
  intros V1 V2. apply nth_error_ext; intros i. rewrite !nth_take.
  destruct r1 as [[s1|] [e1|]], r2 as [[s2|] [e2|]]; unfold valid, icompose, win, offz in *; cbn [r_start r_end] in *;
    destruct V1 as [V1 V1'], V2 as [V2 V2'];
    repeat match goal with
    | |- context [(?a <? ?b)%nat] => destruct (Nat.ltb_spec a b)
    end; try reflexivity; try (f_equal; lia); try lia;
    try (symmetry; apply nth_error_None; lia).
Qed.

Lemma takes_compose (A : Type) rs : Forall valid rs -> forall r0 (l : list A), valid r0 ->
  fold_left (fun l r => take_range r l) rs (take_range r0 l) = take_range (fold_left icompose rs r0) l.
Proof.
  induction 1 as [|r rs Hr Hrs IH]; intros r0 l V0; cbn [fold_left]; [reflexivity|].
  rewrite <- compose_sound by assumption. apply IH. apply valid_icompose; assumption.
Qed.

Lemma valid_fold rs : Forall valid rs -> forall r0, valid r0 -> valid (fold_left icompose rs r0).
Proof.
  induction 1 as [|r rs Hr Hrs IH]; intros r0 V0; cbn [fold_left]; [assumption|].
  apply IH. apply valid_icompose; assumption.
Qed.

Lemma take_none (A : Type) (l : list A) : take_range (IRange None None) l = l.
Proof. reflexivity. Qed.

(* LIMIT/OFFSET of a valid range = the range; of the collapsed range (None, Some 0) = nothing *)
Lemma limit_offset_sound (A : Type) t ol (l : list A) :
  limit_offset t = Ret ol -> apply_limit_offset ol l = take_range t l.
Proof.
  unfold limit_offset. intro H. apply bind_ret in H as (off & Ho & H). apply bind_ret in H as (lim & Hl & H).
  injection H as <-. unfold apply_limit_offset, take_range. cbn [fst snd].
  assert (off = offz (r_start t)) as ->.
  { destruct (r_start t) as [s|]; cbn [offz]; [apply sub64_ret in Ho; exact Ho | injection Ho as <-; reflexivity]. }
  destruct (r_end t) as [e|].
  - apply bind_ret in Hl as (x & Hx & Hl). injection Hl as <-. apply sub64_ret in Hx. subst. reflexivity.
  - injection Hl as <-. reflexivity.
Qed.

Theorem range_of_ranges_sound_lemma (A : Type) rs ol (l : list A) :
  Forall valid rs -> take_sql (map lit rs) = Ret ol ->
  apply_limit_offset ol l = fold_left (fun l r => take_range r l) rs l.
Proof.
  intros V H. unfold take_sql, range_of_ranges in H.
  apply bind_ret in H as (t & Ht & Hlo). apply bind_ret in Ht as (c & Hc & Ht).
  apply fold_ret in Hc.
  rewrite (limit_offset_sound A t ol l Hlo).
  rewrite <- (take_none A l) at 2. rewrite (takes_compose A rs V (IRange None None) l) by (split; exact I).
  rewrite <- Hc.
  destruct (r_start c) as [s|] eqn:Es; destruct (r_end c) as [e|] eqn:Ee; try (injection Ht as <-; reflexivity).
  destruct (Z.ltb_spec e s); injection Ht as <-; [|reflexivity].
  (* collapsed: e < s, the composed range selects nothing *)
  unfold take_range. rewrite Es, Ee. cbn [r_start r_end offz].
  replace (Z.to_nat (e - (s - 1))) with 0%nat by lia. replace (Z.to_nat (0 - 0)) with 0%nat by lia. reflexivity.
Qed.

(* ------------------------------------------------------------------ totality *)
Lemma chk64_bounded z M : 0 <= M <= i64_max -> - M <= z <= M -> chk64 z = Ret z.
Proof. intros HM Hz. apply chk64_in. unfold i64_min, i64_max in *. lia. Qed.

(* magnitude of a range *)
Definition mag (M : Z) (r : irange) : Prop :=
  (match r_start r with Some s => - M <= s <= M | None => True end) /\
  (match r_end r with Some e => - M <= e <= M | None => True end).

Lemma unpack_opt_cases b : (exists z, b = Some (BInt z) /\ unpack_opt b = Ret (Some z)) \/ (b = None /\ unpack_opt b = Ret None) \/ unpack_opt b = Fail.
Proof. destruct b as [[z|]|]; cbn; eauto. Qed.

Lemma step_total B M cur r :
  0 <= B -> 0 <= M -> M + B + 1 <= i64_max -> mag M cur -> bounded B r ->
  step cur r = Fail \/ exists c, step cur r = Ret c /\ mag (M + B + 1) c.
Proof.
  intros HB HM Hmax [Hcs Hce] [Hrs Hre]. unfold step, try_range_into_int.
  destruct (unpack_opt_cases (e_start r)) as [(a & Ea & ->)|[[Ea ->]| ->]]; [| |left; reflexivity];
  (destruct (unpack_opt_cases (e_end r)) as [(b & Eb & ->)|[[Eb ->]| ->]]; [| |left; reflexivity]);
  right; cbn [bind r_start r_end]; rewrite ?Ea, ?Eb in *; cbn [bounded_b] in *;
  destruct cur as [[cs|] [ce|]]; cbn [r_start r_end or_map bind] in *; unfold add64, sub64, min64;
  repeat (rewrite (chk64_bounded _ (M + B + 1)) by (unfold i64_max in *; lia); cbn [bind or_map]);
  eexists; (split; [reflexivity|]); split; cbn [r_start r_end]; try exact I; lia.
Qed.

Lemma fold_total B : 0 <= B -> forall rs M cur,
  0 <= M -> M + Z.of_nat (length rs) * (B + 1) <= i64_max -> mag M cur -> Forall (bounded B) rs ->
  fold_ranges cur rs = Fail \/ exists c, fold_ranges cur rs = Ret c /\ mag (M + Z.of_nat (length rs) * (B + 1)) c.
Proof.
  intros HB. induction rs as [|r rs IH]; intros M cur HM Hmax Hmag Hb.
  - right. exists cur. split; [reflexivity|]. cbn [length]. replace (M + Z.of_nat 0 * (B + 1)) with M by lia. exact Hmag.
  - inversion Hb as [|? ? Hr Hrs]; subst. cbn [fold_ranges]. cbn [length] in Hmax.
    destruct (step_total B M cur r HB HM ltac:(lia) Hmag Hr) as [->|(c & -> & Hc)]; [left; reflexivity|].
    cbn [bind]. destruct (IH (M + B + 1) c ltac:(lia) ltac:(lia) Hc Hrs) as [->|(c' & -> & Hc')]; [left; reflexivity|].
    right. exists c'. split; [reflexivity|]. cbn [length].
    replace (M + Z.of_nat (S (length rs)) * (B + 1)) with (M + B + 1 + Z.of_nat (length rs) * (B + 1)) by lia. exact Hc'.
Qed.

Theorem range_of_ranges_total_lemma rs B :
  0 <= B -> Forall (bounded B) rs -> Z.of_nat (length rs) * (B + 1) <= i64_max ->
  range_of_ranges rs <> Panic.
Proof.
  intros HB Hb Hmax. unfold range_of_ranges.
  destruct (fold_total B HB rs 0 (IRange None None) ltac:(lia) ltac:(lia) ltac:(split; exact I) Hb) as [->|(c & -> & _)];
    cbn [bind]; [discriminate|].
  destruct (r_start c), (r_end c); try discriminate. destruct (_ <? _); discriminate.
Qed.

Theorem take_sql_total_lemma rs B :
  0 <= B -> Forall (bounded B) rs -> 2 * (Z.of_nat (length rs) * (B + 1)) + 1 <= i64_max ->
  take_sql rs <> Panic.
Proof.
  intros HB Hb Hmax. unfold take_sql, range_of_ranges.
  destruct (fold_total B HB rs 0 (IRange None None) ltac:(lia) ltac:(lia) ltac:(split; exact I) Hb) as [->|(c & -> & Hc)];
    cbn [bind]; [discriminate|].
  set (M := 0 + Z.of_nat (length rs) * (B + 1)) in *.
  assert (0 <= M) by (unfold M; lia).
  assert (forall t, mag M t -> limit_offset t <> Panic) as L.
  { intros [[s|] [e|]] [Hs He]; unfold limit_offset, sub64; cbn [r_start r_end bind] in *;
      repeat (rewrite (chk64_bounded _ (2 * M + 1)) by (unfold i64_max in *; lia); cbn [bind]); discriminate. }
  destruct c as [[s|] [e|]]; cbn [r_start r_end]; try (apply L; exact Hc).
  destruct (e <? s); [|apply L; exact Hc].
  apply L. split; cbn [r_start r_end]; [exact I | lia].
Qed.

(* ------------------------------------------------------------------ ids *)
Lemma id_load_total : forall ids next, 0 <= next <= usize_max ->
  Forall (fun i => 0 <= i < usize_max) ids ->
  exists n, id_load next ids = Ret n /\ 0 <= n <= usize_max.
Proof.
  induction ids as [|i ids IH]; intros next Hn Hi; cbn [id_load].
  - exists next. split; [reflexivity | exact Hn].
  - inversion Hi as [|? ? H1 H2]; subst. unfold id_skip, addus. rewrite chkus_in by lia. cbn [bind].
    apply IH; [lia | exact H2].
Qed.

Lemma id_gen_total next : 0 <= next < usize_max -> exists n, id_gen next = Ret (next, n) /\ n = next + 1.
Proof. intro H. unfold id_gen, addus. rewrite chkus_in by lia. cbn [bind]. eauto. Qed.

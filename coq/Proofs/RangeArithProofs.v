(* C12 lemmas about Model/RangeArith.v: when the checked arithmetic returns, it returns the ideal
   value; the ideal composition of take ranges is sound on lists (port of the design prototype
   compose_sound); the checked arithmetic cannot panic while the running sums stay inside i64. *)
From Coq Require Import List ZArith Bool Lia Arith.
From PV Require Import Model.Checked Model.RangeArith Proofs.CheckedProofs.
Import ListNotations.
Local Open Scope Z_scope.

Local Arguments Z.add : simpl never.
Local Arguments Z.sub : simpl never.
Local Arguments Z.mul : simpl never.
Local Arguments Z.min : simpl never.
Local Arguments Z.max : simpl never.
Local Arguments Z.to_nat : simpl never.
Local Arguments Z.ltb : simpl never.

(* ------------------------------------------------------------------ ideal composition *)
Definition icompose (cur nxt : irange) : irange :=
  let s := match r_start nxt, r_start cur with
           | Some a, Some b => Some (a + b - 1) | Some a, None => Some a | None, b => b end in
  let e := match r_end nxt with
           | Some b => Some ((match r_start cur with Some c => c | None => 1 end) + b - 1) | None => None end in
  let e' := match r_end cur, e with
            | Some a, Some b => Some (Z.min a b) | Some a, None => Some a | None, b => b end in
  IRange s e'.

Lemma shift_ret a b t : shift a b = Ret t -> t = a + b - 1.
Proof.
  unfold shift, checked_add64, checked_sub64. destruct (opt64 (a + b)) as [x|] eqn:E1; [|discriminate].
  destruct (opt64 (x - 1)) as [y|] eqn:E2; [|discriminate]. intro H. injection H as <-.
  apply opt64_some in E1 as [-> _]. apply opt64_some in E2 as [-> _]. reflexivity.
Qed.

Lemma shift_not_panic a b : shift a b <> Panic.
Proof. unfold shift. destruct (checked_add64 a b); [destruct (checked_sub64 z 1)|]; discriminate. Qed.

Lemma shift_in a b : i64_min <= a + b <= i64_max -> i64_min <= a + b - 1 <= i64_max -> shift a b = Ret (a + b - 1).
Proof. intros H1 H2. unfold shift, checked_add64, checked_sub64. rewrite (opt64_in _ H1), (opt64_in _ H2). reflexivity. Qed.

Lemma csub_ret a b t : ok_or (checked_sub64 a b) = Ret t -> t = a - b.
Proof.
  unfold checked_sub64. destruct (opt64 (a - b)) as [x|] eqn:E; cbn; [|discriminate].
  intro H. injection H as <-. apply opt64_some in E. tauto.
Qed.

Lemma try_lit r : try_range_into_int (lit r) = Ret r.
Proof. destruct r as [[s|] [e|]]; reflexivity. Qed.

Lemma step_ret cur r c : step cur (lit r) = Ret c -> c = icompose cur r.
Proof.
  unfold step. rewrite try_lit. cbn [bind].
  destruct cur as [cs ce], r as [rs re]. cbn [r_start r_end]. unfold icompose; cbn [r_start r_end].
  intro H.
  apply bind_ret in H as (s & Hs & H). apply bind_ret in H as (e & He & H).
  apply bind_ret in H as (e' & He' & H). injection H as <-.
  assert (s = match rs, cs with Some a, Some b => Some (a + b - 1) | Some a, None => Some a | None, b => b end) as ->.
  { destruct rs as [a|], cs as [b|]; cbn [or_map] in Hs; try (injection Hs as <-; reflexivity).
    apply bind_ret in Hs as (z & Hz & Hs). injection Hs as <-.
    apply shift_ret in Hz. subst. reflexivity. }
  assert (e = match re with Some b => Some (match cs with Some c => c | None => 1 end + b - 1) | None => None end) as ->.
  { destruct re as [b|]; [|injection He as <-; reflexivity].
    apply bind_ret in He as (u & Hu & He). injection He as <-.
    apply shift_ret in Hu. subst. reflexivity. }
  f_equal.
  destruct ce as [a|]; destruct (match re with Some b => Some (match cs with Some c => c | None => 1 end + b - 1) | None => None end) as [b|];
    cbn [or_map bind] in He'; injection He' as <-; reflexivity.
Qed.

Lemma fold_ret : forall rs cur c, fold_ranges cur (map lit rs) = Ret c -> c = fold_left icompose rs cur.
Proof.
  induction rs as [|r rs IH]; intros cur c H; cbn [map fold_ranges fold_left] in *.
  - injection H as <-. reflexivity.
  - apply bind_ret in H as (c1 & H1 & H2). apply step_ret in H1. subst c1. apply IH. exact H2.
Qed.

(* ------------------------------------------------------------------ lists *)
Lemma nth_error_ext (A : Type) (l1 l2 : list A) :
  (forall i, nth_error l1 i = nth_error l2 i) -> l1 = l2.
Proof.
  revert l2; induction l1 as [|a t IH]; intros [|b u] H; auto.
  - specialize (H 0%nat); discriminate.
  - specialize (H 0%nat); discriminate.
  - f_equal.
    + specialize (H 0%nat); cbn in H; congruence.
    + apply IH; intros i; exact (H (S i)).
Qed.

Lemma nth_error_skipn (A : Type) n (l : list A) i : nth_error (skipn n l) i = nth_error l (n + i)%nat.
Proof. revert l; induction n; intros [|a t]; cbn; auto. now destruct i. Qed.

Lemma nth_error_firstn (A : Type) n (l : list A) i :
  nth_error (firstn n l) i = if (i <? n)%nat then nth_error l i else None.
Proof.
  destruct (Nat.ltb_spec i n) as [H|H].
  - revert l i H; induction n as [|n IH]; intros l i H; [lia|].
    destruct l as [|a t]; [destruct i; reflexivity|]. destruct i as [|i]; [reflexivity|].
    rewrite firstn_cons. cbn [nth_error]. apply IH. lia.
  - apply nth_error_None. rewrite firstn_length. lia.
Qed.

Definition win (r : irange) (i : nat) : bool :=
  match r_end r with Some e => (i <? Z.to_nat (e - offz (r_start r)))%nat | None => true end.

Lemma nth_take (A : Type) r (l : list A) i :
  nth_error (take_range r l) i = if win r i then nth_error l (Z.to_nat (offz (r_start r)) + i)%nat else None.
Proof.
  unfold take_range, win. destruct (r_end r) as [e|].
  - rewrite nth_error_firstn, nth_error_skipn. reflexivity.
  - apply nth_error_skipn.
Qed.

Lemma valid_icompose r1 r2 : valid r1 -> valid r2 -> valid (icompose r1 r2).
Proof.
  destruct r1 as [[s1|] [e1|]], r2 as [[s2|] [e2|]]; unfold valid, icompose; cbn [r_start r_end]; lia.
Qed.

Theorem compose_sound (A : Type) r1 r2 (l : list A) : valid r1 -> valid r2 ->
  take_range (icompose r1 r2) l = take_range r2 (take_range r1 l).
Proof.
  intros V1 V2. apply nth_error_ext; intros i. rewrite !nth_take.
  destruct r1 as [[s1|] [e1|]], r2 as [[s2|] [e2|]]; unfold valid, icompose, win, offz in *; cbn [r_start r_end] in *;
    destruct V1 as [V1 V1'], V2 as [V2 V2'];
    repeat match goal with
    | |- context [(?a <? ?b)%nat] => destruct (Nat.ltb_spec a b)
    end; try reflexivity; try (f_equal; lia); try lia;
    try (symmetry; apply nth_error_None; lia).
Qed.

Lemma takes_compose (A : Type) rs : Forall valid rs -> forall r0 (l : list A), valid r0 ->
  fold_left (fun l r => take_range r l) rs (take_range r0 l) = take_range (fold_left icompose rs r0) l.
Proof.
  induction 1 as [|r rs Hr Hrs IH]; intros r0 l V0; cbn [fold_left]; [reflexivity|].
  rewrite <- compose_sound by assumption. apply IH. apply valid_icompose; assumption.
Qed.

Lemma valid_fold rs : Forall valid rs -> forall r0, valid r0 -> valid (fold_left icompose rs r0).
Proof.
  induction 1 as [|r rs Hr Hrs IH]; intros r0 V0; cbn [fold_left]; [assumption|].
  apply IH. apply valid_icompose; assumption.
Qed.

Lemma take_none (A : Type) (l : list A) : take_range (IRange None None) l = l.
Proof. reflexivity. Qed.

(* LIMIT/OFFSET of a valid range = the range; of the collapsed range (None, Some 0) = nothing *)
Lemma limit_offset_sound (A : Type) t ol (l : list A) :
  limit_offset t = Ret ol -> apply_limit_offset ol l = take_range t l.
Proof.
  unfold limit_offset. intro H. apply bind_ret in H as (off & Ho & H). apply bind_ret in H as (lim & Hl & H).
  injection H as <-. unfold apply_limit_offset, take_range. cbn [fst snd].
  assert (off = offz (r_start t)) as ->.
  { destruct (r_start t) as [s|]; cbn [offz]; [apply csub_ret in Ho; exact Ho | injection Ho as <-; reflexivity]. }
  destruct (r_end t) as [e|].
  - apply bind_ret in Hl as (x & Hx & Hl). injection Hl as <-. apply csub_ret in Hx. subst. reflexivity.
  - injection Hl as <-. reflexivity.
Qed.

Theorem range_of_ranges_sound_lemma (A : Type) rs ol (l : list A) :
  Forall valid rs -> take_sql (map lit rs) = Ret ol ->
  apply_limit_offset ol l = fold_left (fun l r => take_range r l) rs l.
Proof.
  intros V H. unfold take_sql, range_of_ranges in H.
  apply bind_ret in H as (t & Ht & Hlo). apply bind_ret in Ht as (c & Hc & Ht).
  apply fold_ret in Hc.
  rewrite (limit_offset_sound A t ol l Hlo).
  rewrite <- (take_none A l) at 2. rewrite (takes_compose A rs V (IRange None None) l) by (split; exact I).
  rewrite <- Hc.
  destruct (r_start c) as [s|] eqn:Es; destruct (r_end c) as [e|] eqn:Ee; try (injection Ht as <-; reflexivity).
  destruct (Z.ltb_spec e s); injection Ht as <-; [|reflexivity].
  (* collapsed: e < s, the composed range selects nothing *)
  unfold take_range. rewrite Es, Ee. cbn [r_start r_end offz].
  replace (Z.to_nat (e - (s - 1))) with 0%nat by lia. replace (Z.to_nat (0 - 0)) with 0%nat by lia. reflexivity.
Qed.

(* ------------------------------------------------------------------ totality *)
(* the arithmetic is checked (commit 18f8c11): no input makes it panic *)
Lemma unpack_opt_not_panic b : unpack_opt b <> Panic.
Proof. destruct b as [[z|]|]; discriminate. Qed.

Lemma or_map_not_panic a b f : (forall x y, f x y <> Panic) -> or_map a b f <> Panic.
Proof.
  intro H. destruct a as [x|], b as [y|]; cbn [or_map]; try discriminate.
  apply bind_not_panic; [apply H | discriminate].
Qed.

Lemma step_not_panic cur r : step cur r <> Panic.
Proof.
  unfold step, try_range_into_int.
  apply bind_not_panic.
  { apply bind_not_panic; [apply unpack_opt_not_panic|]. intro s.
    apply bind_not_panic; [apply unpack_opt_not_panic | discriminate]. }
  intro r'. apply bind_not_panic; [apply or_map_not_panic; apply shift_not_panic|]. intro s.
  apply bind_not_panic.
  { destruct (r_end r'); [|discriminate]. apply bind_not_panic; [apply shift_not_panic | discriminate]. }
  intro e. apply bind_not_panic; [apply or_map_not_panic; discriminate | discriminate].
Qed.

Lemma fold_not_panic : forall rs cur, fold_ranges cur rs <> Panic.
Proof.
  induction rs as [|r rs IH]; intro cur; cbn [fold_ranges]; [discriminate|].
  apply bind_not_panic; [apply step_not_panic | intro c; apply IH].
Qed.

Theorem range_of_ranges_total_lemma rs : range_of_ranges rs <> Panic.
Proof.
  unfold range_of_ranges. apply bind_not_panic; [apply fold_not_panic|]. intro c.
  destruct (r_start c), (r_end c); try discriminate. destruct (_ <? _); discriminate.
Qed.

Lemma limit_offset_not_panic t : limit_offset t <> Panic.
Proof.
  unfold limit_offset. apply bind_not_panic.
  { destruct (r_start t); [apply ok_or_not_panic | discriminate]. }
  intro off. apply bind_not_panic; [|discriminate].
  destruct (r_end t); [|discriminate]. apply bind_not_panic; [apply ok_or_not_panic | discriminate].
Qed.

Theorem take_sql_total_lemma rs : take_sql rs <> Panic.
Proof. unfold take_sql. apply bind_not_panic; [apply range_of_ranges_total_lemma | intro t; apply limit_offset_not_panic]. Qed.

(* ... and it does not reject what fits: n ranges of literals bounded by B in absolute value are accepted
   whenever 2 n (B+1) + 1 fits i64 (the "take range is too large" error is not spurious) *)
Definition mag (M : Z) (r : irange) : Prop :=
  (match r_start r with Some s => - M <= s <= M | None => True end) /\
  (match r_end r with Some e => - M <= e <= M | None => True end).
Definition bounded_i (B : Z) (r : irange) : Prop := mag B r.

Lemma step_accepts B M cur r :
  0 <= B -> 0 <= M -> M + B + 1 <= i64_max -> mag M cur -> bounded_i B r ->
  exists c, step cur (lit r) = Ret c /\ mag (M + B + 1) c.
Proof.
  intros HB HM Hmax [Hcs Hce] [Hrs Hre]. unfold step. rewrite try_lit. cbn [bind].
  destruct cur as [[cs|] [ce|]], r as [[rs|] [re|]]; cbn [r_start r_end or_map bind] in *; unfold min64;
  repeat (rewrite shift_in by (unfold i64_min, i64_max in *; lia); cbn [bind or_map]);
  eexists; (split; [reflexivity|]); split; cbn [r_start r_end]; try exact I; lia.
Qed.

Lemma fold_accepts B : 0 <= B -> forall rs M cur,
  0 <= M -> M + Z.of_nat (length rs) * (B + 1) <= i64_max -> mag M cur -> Forall (bounded_i B) rs ->
  exists c, fold_ranges cur (map lit rs) = Ret c /\ mag (M + Z.of_nat (length rs) * (B + 1)) c.
Proof.
  intros HB. induction rs as [|r rs IH]; intros M cur HM Hmax Hmag Hb.
  - exists cur. split; [reflexivity|]. cbn [length]. replace (M + Z.of_nat 0 * (B + 1)) with M by lia. exact Hmag.
  - inversion Hb as [|? ? Hr Hrs]; subst. cbn [map fold_ranges]. cbn [length] in Hmax.
    destruct (step_accepts B M cur r HB HM ltac:(lia) Hmag Hr) as (c & -> & Hc).
    cbn [bind]. destruct (IH (M + B + 1) c ltac:(lia) ltac:(lia) Hc Hrs) as (c' & -> & Hc').
    exists c'. split; [reflexivity|]. cbn [length].
    replace (M + Z.of_nat (S (length rs)) * (B + 1)) with (M + B + 1 + Z.of_nat (length rs) * (B + 1)) by lia. exact Hc'.
Qed.

Theorem take_sql_accepts_lemma rs B :
  0 <= B -> Forall (bounded_i B) rs -> 2 * (Z.of_nat (length rs) * (B + 1)) + 1 <= i64_max ->
  exists ol, take_sql (map lit rs) = Ret ol.
Proof.
  intros HB Hb Hmax. unfold take_sql, range_of_ranges.
  destruct (fold_accepts B HB rs 0 (IRange None None) ltac:(lia) ltac:(lia) ltac:(split; exact I) Hb) as (c & -> & Hc).
  cbn [bind]. set (M := 0 + Z.of_nat (length rs) * (B + 1)) in *.
  assert (0 <= M) by (unfold M; lia).
  assert (forall t, mag M t -> exists ol, limit_offset t = Ret ol) as L.
  { intros [[s|] [e|]] [Hs He]; unfold limit_offset, checked_sub64; cbn [r_start r_end bind] in *;
      repeat (rewrite opt64_in by (unfold i64_min, i64_max in *; lia); cbn [bind ok_or]); eexists; reflexivity. }
  destruct c as [[s|] [e|]]; cbn [r_start r_end]; try (apply L; exact Hc).
  destruct (e <? s); [|apply L; exact Hc].
  apply L. split; cbn [r_start r_end]; [exact I | lia].
Qed.

(* ------------------------------------------------------------------ ids *)
Lemma id_limit_val : id_limit = 9223372036854775807.
Proof. vm_compute. reflexivity. Qed.
Lemma usize_max_val : usize_max = 18446744073709551615.
Proof. reflexivity. Qed.

Definition usize (i : Z) : Prop := 0 <= i <= usize_max.

Lemma id_skip_cases next id : usize id ->
  (id_limit < id /\ id_skip next id = Fail) \/ (id <= id_limit /\ id_skip next id = Ret (Z.max next (id + 1))).
Proof.
  intros [H0 H1]. unfold id_skip. rewrite Z.gtb_ltb. destruct (id_limit <? id) eqn:E.
  - left. apply Z.ltb_lt in E. split; [exact E | reflexivity].
  - right. apply Z.ltb_ge in E. split; [exact E|].
    unfold addus. rewrite chkus_in; [reflexivity|].
    rewrite id_limit_val in E. rewrite usize_max_val. lia.
Qed.

Theorem id_skip_total_lemma next id : usize id -> id_skip next id <> Panic.
Proof. intro H. destruct (id_skip_cases next id H) as [[_ E]|[_ E]]; rewrite E; discriminate. Qed.

Theorem id_load_total_lemma : forall ids next, Forall usize ids -> id_load next ids <> Panic.
Proof.
  induction ids as [|i ids IH]; intros next Hi; cbn [id_load]; [discriminate|].
  inversion Hi as [|? ? H1 H2]; subst.
  destruct (id_skip_cases next i H1) as [[_ E]|[_ E]]; rewrite E; cbn [bind]; [discriminate | apply IH; exact H2].
Qed.

(* the error is raised exactly when some id is above usize::MAX / 2 ... *)
Theorem id_load_fail_iff : forall ids next, Forall usize ids ->
  (id_load next ids = Fail <-> Exists (fun i => id_limit < i) ids).
Proof.
  induction ids as [|i ids IH]; intros next Hi; cbn [id_load].
  - split; [discriminate | intro H; inversion H].
  - inversion Hi as [|? ? H1 H2]; subst.
    destruct (id_skip_cases next i H1) as [[L E]|[L E]]; rewrite E; cbn [bind].
    + split; [intros _; apply Exists_cons_hd; exact L | reflexivity].
    + rewrite (IH _ H2). split; [intro H; apply Exists_cons_tl; exact H|].
      intro H. inversion H as [? ? H3|? ? H3]; subst; [lia | exact H3].
Qed.

(* ... otherwise the generator ends above every id of the query and at most at usize::MAX / 2 + 1 *)
Theorem id_load_ret : forall ids next n, Forall usize ids -> id_load next ids = Ret n ->
  n = fold_left (fun a i => Z.max a (i + 1)) ids next /\ Forall (fun i => i < n) ids /\ next <= n /\
  (next <= id_limit + 1 -> n <= id_limit + 1).
Proof.
  induction ids as [|i ids IH]; intros next n Hi; cbn [id_load fold_left].
  - intro H. injection H as <-. repeat split; [apply Forall_nil | lia | tauto].
  - inversion Hi as [|? ? H1 H2]; subst.
    destruct (id_skip_cases next i H1) as [[L E]|[L E]]; rewrite E; cbn [bind]; [discriminate|].
    intro H. destruct (IH _ _ H2 H) as (Ea & Eb & Ec & Ed).
    split; [exact Ea|]. split; [|split].
    + apply Forall_cons; [lia | exact Eb].
    + lia.
    + intro Hn. apply Ed. lia.
Qed.

Lemma id_gen_total next : 0 <= next < usize_max -> id_gen next = Ret (next, next + 1).
Proof. intro H. unfold id_gen, addus. rewrite chkus_in by lia. reflexivity. Qed.

Theorem id_gens_total : forall k next, 0 <= next -> next + Z.of_nat k <= usize_max ->
  id_gens k next = Ret (next + Z.of_nat k).
Proof.
  induction k as [|k IH]; intros next H0 H1; cbn [id_gens].
  - f_equal. cbn [Z.of_nat]. lia.
  - rewrite Nat2Z.inj_succ in H1. rewrite id_gen_total by lia. cbn [bind snd].
    rewrite IH by lia. f_equal. rewrite Nat2Z.inj_succ. lia.
Qed.

(* a generator loaded from ANY query can hand out usize::MAX / 2 further ids without overflowing *)
Theorem id_load_then_gens : forall ids n k, Forall usize ids -> id_load 0 ids = Ret n ->
  Z.of_nat k <= id_limit -> id_gens k n = Ret (n + Z.of_nat k).
Proof.
  intros ids n k Hi Hl Hk. destruct (id_load_ret ids 0 n Hi Hl) as (_ & _ & H0 & H1).
  apply id_gens_total; [exact H0|].
  assert (n <= id_limit + 1) by (apply H1; rewrite id_limit_val; lia).
  rewrite id_limit_val in *. rewrite usize_max_val. lia.
Qed.

(* ------------------------------------------------------------------ negation of integer literals *)
Lemma i64_vals : i64_min = -9223372036854775808 /\ i64_max = 9223372036854775807.
Proof. split; reflexivity. Qed.

Theorem static_neg_total_lemma v : static_neg v <> Panic.
Proof. discriminate. Qed.

Theorem static_neg_spec v : i64_min <= v <= i64_max ->
  (v <> i64_min -> static_neg v = Ret (Some (- v)) /\ i64_min <= - v <= i64_max) /\
  (v = i64_min -> static_neg v = Ret None).
Proof.
  intro H. destruct i64_vals as [Emin Emax]. unfold static_neg, checked_neg64. split; intro Hv.
  - rewrite opt64_in by (rewrite Emin, Emax in *; lia). split; [reflexivity | rewrite Emin, Emax in *; lia].
  - subst v. vm_compute. reflexivity.
Qed.

Theorem parse_bound_total_lemma b : parse_bound b <> Panic.
Proof. destruct b; cbn; discriminate. Qed.

Theorem parse_bound_spec z : i64_min <= z <= i64_max ->
  (z = 0 -> parse_bound (BInt z) = Ret CurrentRow) /\
  (0 < z -> parse_bound (BInt z) = Ret (Following z)) /\
  (z < 0 -> parse_bound (BInt z) = Ret (Preceding (- z)) /\ 0 < - z <= usize_max).
Proof.
  intro H. destruct i64_vals as [Emin Emax]. unfold parse_bound, unpack, unsigned_abs64. cbn [bind].
  repeat split.
  - intros ->. reflexivity.
  - intro Hz. destruct (Z.eqb_spec z 0); [lia|]. destruct (Z.leb_spec 1 z); [reflexivity | lia].
  - destruct (Z.eqb_spec z 0); [lia|]. destruct (Z.leb_spec 1 z); [lia|]. rewrite Z.abs_neq by lia. reflexivity.
  - lia.
  - rewrite usize_max_val. rewrite Emin in H. lia.
Qed.

Lemma opt_bound_total (o : option bound) :
  match o with Some b => bind (parse_bound b) (fun x => Ret (Some x)) | None => Ret None end <> Panic.
Proof.
  destruct o as [b|]; [|discriminate].
  apply bind_not_panic; [apply parse_bound_total_lemma | discriminate].
Qed.

Theorem frame_bounds_total_lemma r : frame_bounds r <> Panic.
Proof.
  unfold frame_bounds. apply bind_not_panic; [apply opt_bound_total|]. intro s.
  apply bind_not_panic; [apply opt_bound_total|]. discriminate.
Qed.

(* Round-trip lemmas of the hand-written codecs: decimal text, Span "id:start-end", Ident as array. *)
From Coq Require Import List NArith ZArith Bool Lia.
From PV Require Import Lib.ListX Model.Json Model.Serde.
Import ListNotations.
Local Open Scope N_scope.
Local Arguments N.add : simpl never.
Local Arguments N.sub : simpl never.
Local Arguments N.mul : simpl never.
Local Arguments N.div : simpl never.
Local Arguments N.modulo : simpl never.
Local Arguments N.ltb : simpl never.
Local Arguments N.leb : simpl never.

Lemma is_digit_48 d : d < 10 -> is_digit (48 + d) = true.
Proof. intro H. unfold is_digit. apply andb_true_iff; split; apply N.leb_le; lia. Qed.

(* value of the digits produced by lsd *)
Lemma lsd_val : forall f n, n < 2 ^ N.of_nat f -> (0 < f)%nat -> val_lsd (lsd f n) = Some n.
Proof.
  induction f as [|f IH]; intros n Hn Hf; [lia|].
  cbn [lsd]. destruct (n <? 10) eqn:E.
  - apply N.ltb_lt in E. cbn [val_lsd]. rewrite is_digit_48 by exact E.
    f_equal. lia.
  - apply N.ltb_ge in E. cbn [val_lsd].
    assert (n mod 10 < 10) as Hm by (apply N.mod_lt; lia).
    rewrite is_digit_48 by exact Hm.
    assert (0 < f)%nat as Hf'.
    { destruct f; [|lia]. cbn in Hn. lia. }
    rewrite IH; [| |exact Hf'].
    + f_equal. pose proof (N.div_mod n 10 ltac:(lia)) as H. clear - H.
      set (q := n / 10) in *. set (m := n mod 10) in *. clearbody q m. lia.
    + rewrite Nat2N.inj_succ, N.pow_succ_r' in Hn.
      apply N.div_lt_upper_bound; [lia|].
      assert (2 ^ N.of_nat f > 0) by (apply N.lt_gt, N.neq_0_lt_0, N.pow_nonzero; lia). lia.
Qed.

Lemma lsd_digits : forall f n, Forall (fun c => is_digit c = true) (lsd f n).
Proof.
  induction f as [|f IH]; intro n; cbn [lsd]; [constructor|].
  destruct (n <? 10) eqn:E.
  - apply N.ltb_lt in E. constructor; [apply is_digit_48; exact E | constructor].
  - constructor; [apply is_digit_48, N.mod_lt; lia | apply IH].
Qed.

Lemma lsd_nonempty : forall f n, (0 < f)%nat -> lsd f n <> [].
Proof. intros [|f] n H; [lia|]. cbn [lsd]. destruct (n <? 10); discriminate. Qed.

Lemma size_nat_bound n : n < 2 ^ N.of_nat (S (N.size_nat n)).
Proof.
  destruct n as [|p]; [cbn; lia|].
  rewrite Nat2N.inj_succ, N.pow_succ_r'.
  assert (N.pos p < 2 ^ N.of_nat (N.size_nat (N.pos p))); [|lia].
  cbn [N.size_nat]. induction p as [p IH|p IH|]; cbn [Pos.size_nat].
  - rewrite Nat2N.inj_succ, N.pow_succ_r'. lia.
  - rewrite Nat2N.inj_succ, N.pow_succ_r'. lia.
  - cbn. lia.
Qed.

Lemma print_dec_digits n : Forall (fun c => is_digit c = true) (print_dec n).
Proof. unfold print_dec. apply Forall_rev, lsd_digits. Qed.

Lemma print_dec_nonempty n : print_dec n <> [].
Proof.
  unfold print_dec. intro H. apply (f_equal (@rev N)) in H. rewrite rev_involutive in H.
  apply lsd_nonempty in H; [exact H | lia].
Qed.

Lemma digit_not_plus c : is_digit c = true -> (c =? 43) = false.
Proof. unfold is_digit. intro H. apply andb_true_iff in H as [H _]. apply N.leb_le in H. apply N.eqb_neq. lia. Qed.

Lemma parse_dec_print bound n : n < bound -> parse_dec bound (print_dec n) = Some n.
Proof.
  intro Hb. unfold parse_dec.
  pose proof (print_dec_digits n) as Hd. pose proof (print_dec_nonempty n) as Hne.
  destruct (print_dec n) as [|c s] eqn:Ep; [congruence|].
  inversion Hd as [|? ? Hc _]; subst. rewrite (digit_not_plus c Hc).
  rewrite <- Ep. unfold print_dec. rewrite rev_involutive.
  rewrite lsd_val; [|apply size_nat_bound|lia].
  apply N.ltb_lt in Hb. rewrite Hb. reflexivity.
Qed.

Lemma split_once_app c a b : ~ In c a -> split_once c (a ++ c :: b) = Some (a, b).
Proof.
  induction a as [|x a IH]; intro H; cbn [app split_once].
  - rewrite N.eqb_refl. reflexivity.
  - destruct (x =? c) eqn:E; [apply N.eqb_eq in E; subst; exfalso; apply H; left; reflexivity|].
    rewrite IH; [reflexivity|]. intro Hi; apply H; right; exact Hi.
Qed.

Lemma digits_no c l : is_digit c = false -> Forall (fun x => is_digit x = true) l -> ~ In c l.
Proof. intros Hc Hl Hi. rewrite Forall_forall in Hl. apply Hl in Hi. congruence. Qed.

Theorem span_codec_roundtrip id s e :
  id < u16_bound -> s < usize_bound -> e < usize_bound -> span_de (span_ser id s e) = Some (id, s, e).
Proof.
  intros Hi Hs He. unfold span_de, span_ser. cbn [app].
  rewrite split_once_app by (apply digits_no; [reflexivity | apply print_dec_digits]).
  rewrite parse_dec_print by exact Hi.
  rewrite split_once_app by (apply digits_no; [reflexivity | apply print_dec_digits]).
  rewrite !parse_dec_print by assumption. reflexivity.
Qed.

Lemma jstrs_map l : jstrs (map JStr l) = Some l.
Proof. induction l as [|x l IH]; cbn [map jstrs]; [reflexivity | rewrite IH; reflexivity]. Qed.

Theorem ident_codec_roundtrip p n : ident_de (ident_ser p n) = Some (p, n).
Proof.
  unfold ident_de, ident_ser. rewrite jstrs_map.
  destruct (p ++ [n]) as [|x r] eqn:E; [destruct p; discriminate|].
  rewrite <- E. rewrite removelast_last, last_last. reflexivity.
Qed.

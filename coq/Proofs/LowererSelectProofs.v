(* C16: push_select / lookup_cid (Model/LowererSelect.v): the closing Select only names ids held by node_mapping, every
   lstep is a step of the machine, and the replay with computed frames is sound. *)
From Coq Require Import List NArith Bool Lia.
From PV Require Import Lib.ListX Model.Rq Model.RqWf Model.Lowerer Model.RqEq Model.LowererTrace Model.LowererVis
                       Model.LowererSelect Proofs.RqWfProofs Proofs.LowererProofs Proofs.LowererTraceProofs Proofs.LowererVisProofs.
Import ListNotations.
Local Open Scope N_scope.

Lemma lookup_node_in m id t : lookup_node m id = Some t -> incl (target_cids t) (mapping_cids m).
Proof.
  unfold lookup_node. destruct (find (fun p => N.eqb (fst p) id) m) as [[n t']|] eqn:F; [|discriminate].
  cbn [option_map snd]. intro H; injection H as <-. apply find_some in F as [F _].
  intros x Hx. unfold mapping_cids. apply in_flat_map. exists (n, t'). split; [exact F | exact Hx].
Qed.

Lemma lookup_cid_m_in m id name c : lookup_cid_m m id name = Some c -> In c (mapping_cids m).
Proof.
  unfold lookup_cid_m. destruct (lookup_node m id) as [[c0|cols]|] eqn:L; [| |discriminate].
  - intro H; injection H as <-. apply (lookup_node_in _ _ _ L). left. reflexivity.
  - destruct name as [v|]; [|discriminate].
    destruct (find (fun rc => relcol_eqb (fst rc) (RSingle (Some v))) cols) as [rc|] eqn:F; [|discriminate].
    cbn [option_map]. intro H; injection H as <-. apply find_some in F as [F _].
    apply (lookup_node_in _ _ _ L). cbn [target_cids]. apply in_map. exact F.
Qed.

(* the closing Select that push_select computes only names ids that node_mapping holds ... *)
Theorem push_select_in_mapping m inputs cols : forall f,
  push_select_m m inputs cols = Some f -> incl (map snd f) (mapping_cids m).
Proof.
  induction cols as [|c cols IH]; intros f; cbn [push_select_m].
  - intro H; injection H as <-. intros ? [].
  - destruct c as [name tgt tname|input except].
    + destruct (lookup_cid_m m tgt tname) as [c|] eqn:L; [|discriminate].
      destruct (push_select_m m inputs cols) as [f'|]; [|discriminate]. cbn [option_map]. intro H; injection H as <-.
      cbn [map snd]. intros x [<-|Hx]; [eapply lookup_cid_m_in; exact L | eapply IH; [reflexivity | exact Hx]].
    + destruct (memN input inputs); [|discriminate].
      destruct (lookup_node m input) as [[c0|ic]|] eqn:L; try discriminate.
      destruct (push_select_m m inputs cols) as [f'|]; [|discriminate]. cbn [option_map]. intro H; injection H as <-.
      rewrite map_app. apply incl_app; [|eapply IH; reflexivity].
      intros x Hx. apply in_map_iff in Hx as [rc [<- Hrc]]. unfold all_cols in Hrc. apply filter_In in Hrc as [Hrc _].
      apply (lookup_node_in _ _ _ L). cbn [target_cids]. apply in_map. exact Hrc.
Qed.

(* ... so the guard of OEndTable / OEndInline on the frame always holds for a computed frame *)
Theorem push_select_guard s inputs cols f : push_select_m (mapping s) inputs cols = Some f -> guard s (map snd f) = true.
Proof.
  intro H. unfold guard. apply forallb_forall. intros c Hc. apply memN_In. eapply push_select_in_mapping; eassumption.
Qed.

(* one column of the relation per selected id, by construction *)
Theorem push_select_arity m inputs cols f : push_select_m m inputs cols = Some f -> length (map fst f) = length (map snd f).
Proof. intros _. rewrite !map_length. reflexivity. Qed.

(* every lstep is a step *)
Lemma lstep_step s lo s' : lstep s lo = Some s' -> exists o, elaborate s lo = Some o /\ step s o = Some s'.
Proof. unfold lstep. destruct (elaborate s lo) as [o|]; [|discriminate]. intro H. exists o. auto. Qed.

Lemma lrun_run lops : forall s s', lrun s lops = Some s' -> exists ops, run s ops = Some s'.
Proof.
  induction lops as [|lo lops IH]; intros s s'; cbn [lrun].
  - intro H; injection H as <-. exists []. reflexivity.
  - destruct (lstep s lo) as [s1|] eqn:E; [|discriminate]. intro H. apply lstep_step in E as [o [_ E]].
    destruct (IH _ _ H) as [ops R]. exists (o :: ops). cbn [run]. rewrite E. exact R.
Qed.

Theorem lrun_emits_closed lops s q : lrun init lops = Some s -> finish s = Some q -> rq_closed q /\ lookups_total q.
Proof. intros R F. destruct (lrun_run _ _ _ R) as [ops R']. eapply lowerer_emits_closed; eassumption. Qed.

(* the replay *)
Lemma run_obs_l_run strict l : forall s k s', run_obs_l strict s l k = inl s' ->
  exists ops, run s ops = Some s' /\ (strict = true -> vrun s ops = Some s').
Proof.
  induction l as [|[lo bs] l IH]; intros s k s'; cbn [run_obs_l].
  - intro H; injection H as <-. exists []. split; reflexivity.
  - destruct (elaborate s lo) as [o|]; [|discriminate].
    destruct (if strict then vstep s o else step s o) as [s1|] eqn:E; [|discriminate].
    destruct (forallb (check_obs s s1 o) bs); [|discriminate]. intro H. destruct (IH _ _ _ H) as [ops [R V]].
    exists (o :: ops). cbn [run vrun]. destruct strict.
    + rewrite (vstep_step _ _ _ E), E. split; [exact R | exact V].
    + rewrite E. split; [exact R | discriminate].
Qed.

Theorem replay_l_sound strict l q : replay_l_ok strict l q = true ->
  (exists ops s, run init ops = Some s /\ finish s = Some q) /\ (strict = true -> rq_wf q = true).
Proof.
  unfold replay_l_ok, replay_l_verdict. destruct (run_obs_l strict init l 0) as [s|k] eqn:R.
  - destruct (finish s) as [q'|] eqn:F.
    + destruct (rq_eqb q' q) eqn:E; [|intro H; apply N.eqb_eq in H; lia]. intros _. apply rq_eqb_sound in E. subst q'.
      destruct (run_obs_l_run _ _ _ _ _ R) as [ops [Rn V]]. split; [exists ops, s; auto|].
      intro Hs. eapply strict_runs_emit_wf; [apply V; exact Hs | exact F].
    + intro H; apply N.eqb_eq in H; lia.
  - intro H; apply N.eqb_eq in H; lia.
Qed.

Theorem replay_l_closed strict l q : replay_l_ok strict l q = true -> rq_closed q /\ lookups_total q.
Proof. intro H. destruct (replay_l_sound _ _ _ H) as [[ops [s [R F]]] _]. eapply lowerer_emits_closed; eassumption. Qed.

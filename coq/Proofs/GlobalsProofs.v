(* Schedule- and history-independence of what a thread reads from the process-global state.
   Since the repair 2f50a3c (LogSuppressLock::drop saturates) NO step of the machine -- compile steps and the debug
   API alike -- can panic on or poison the log lock, so the invariant no longer needs the count of held suppress
   locks and the theorems hold for ARBITRARY programs of the threads (compilations and debug-API calls mixed, on any
   number of threads, under any schedule). *)
From Coq Require Import List NArith Bool Arith Lia.
From PV Require Import Model.Globals.
Import ListNotations.

Section GlobalsProofs.
  Variable cell_init : cell -> N.
  Variable env : N.
  Notation gstep := (gstep cell_init env).
  Notation tstep := (tstep cell_init env).
  Notation run := (run cell_init env).
  Notation expected_reads := (expected_reads cell_init env).
  Notation expected_reads_from := (expected_reads_from cell_init env).

  Definition cells_ok (g : gstate) : Prop := forall c v, cell_get c (g_cells g) = Some v -> v = cell_init c.

  Definition GInv (g : gstate) : Prop := g_poisoned g = false /\ cells_ok g.

  (* thread t is running program prog correctly so far (prog: ANY steps) *)
  Definition good (prog : list step) (t : thread) : Prop :=
    t_panicked t = false /\ forallb closure_safe (t_todo t) = true /\
    t_reads t ++ expected_reads_from (t_gen t) (t_todo t) = expected_reads prog.

  Lemma cell_eqb_eq a b : cell_eqb a b = true -> a = b.
  Proof. destruct a, b; cbn; intro H; try discriminate; reflexivity. Qed.

  Lemma nth_error_upd_same : forall ts i t t', nth_error ts i = Some t -> nth_error (upd ts i t') i = Some t'.
  Proof. induction ts as [|x ts IH]; intros [|i] t t' H; cbn in *; try discriminate; [reflexivity | eapply IH; eauto]. Qed.

  Lemma nth_error_upd_other : forall ts i j t', i <> j -> nth_error (upd ts i t') j = nth_error ts j.
  Proof.
    induction ts as [|x ts IH]; intros [|i] [|j] t' H; cbn; try reflexivity; try lia.
    apply IH. lia.
  Qed.

  Lemma length_upd : forall ts i t', length (upd ts i t') = length ts.
  Proof. induction ts as [|x ts IH]; intros [|i] t'; cbn; try reflexivity. rewrite IH. reflexivity. Qed.

  (* one atomic step, whichever it is and however many suppress locks the thread holds: the state stays good, the
     step does not panic, and what it reads is the constant *)
  Lemma gstep_inv g held s : GInv g -> closure_safe s = true ->
    GInv (fst (fst (gstep g held s))) /\
    match snd (fst (gstep g held s)) with
    | OPanic => False
    | ORead v => match s with SGetOrInit c => v = cell_init c | SReadEnv => v = env | _ => False end
    | ONone => match s with SGetOrInit _ | SReadEnv => False | _ => True end
    end.
  Proof.
    intros [Hpo Hcells] Hsafe. destruct s; cbn [closure_safe] in Hsafe; try discriminate Hsafe; cbn [Globals.gstep]; try rewrite Hpo.
    - (* SLogEntry *) destruct (g_log g) as [[es [|n]]|]; cbn [fst snd]; (split; [split; [reflexivity || exact Hpo | exact Hcells] | exact I]).
    - (* SLogEnabled *) cbn [fst snd]. split; [split; assumption | exact I].
    - (* SSuppressInc *) destruct (g_log g) as [[es n]|]; cbn [fst snd]; (split; [split; [reflexivity || exact Hpo | exact Hcells] | exact I]).
    - (* SSuppressDec *)
      destruct held as [|h]; [cbn [fst snd]; split; [split; assumption | exact I]|].
      destruct (g_log g) as [[es n]|]; cbn [fst snd]; (split; [split; [reflexivity || exact Hpo | exact Hcells] | exact I]).
    - (* SGetOrInit *)
      destruct (cell_get c (g_cells g)) as [v|] eqn:Ec; cbn [fst snd].
      + split; [split; [reflexivity || exact Hpo | exact Hcells] | apply Hcells; exact Ec].
      + split; [|reflexivity]. split; [reflexivity || exact Hpo|].
        intros c' v'. cbn [g_cells cell_get]. destruct (cell_eqb c' c) eqn:Ee.
        * apply cell_eqb_eq in Ee. subst. intro H; injection H as <-. reflexivity.
        * apply Hcells.
    - (* SReadEnv *) cbn [fst snd]. split; [split; [reflexivity || exact Hpo | exact Hcells] | reflexivity].
    - (* SGenName *) cbn [fst snd]. split; [split; [reflexivity || exact Hpo | exact Hcells] | exact I].
    - (* SLogStart *) cbn [fst snd]. split; [split; [reflexivity || exact Hpo | exact Hcells] | exact I].
    - (* SLogFinish *) cbn [fst snd]. split; [split; [reflexivity | exact Hcells] | exact I].
  Qed.

  (* one step of a good thread preserves everything *)
  Lemma tstep_good g t prog g' t' :
    GInv g -> good prog t -> tstep g t = (g', t') -> GInv g' /\ good prog t'.
  Proof.
    intros HG [Hpan [Hsafe Hreads]] Hstep.
    unfold Globals.tstep in Hstep. rewrite Hpan in Hstep.
    destruct (t_todo t) as [|s rest] eqn:Etodo.
    { injection Hstep as <- <-. split; [exact HG|]. split; [exact Hpan|]. rewrite Etodo. split; [reflexivity | exact Hreads]. }
    cbn [forallb] in Hsafe. apply andb_true_iff in Hsafe as [Hs1 Hsafe].
    assert (s = SGenName \/ s <> SGenName) as [->|Hs] by (destruct s; (left; reflexivity) || (right; discriminate)).
    { injection Hstep as <- <-. split; [exact HG|]. split; [reflexivity|]. cbn [t_reads t_todo t_gen]. split; [exact Hsafe|].
      cbn [Globals.expected_reads_from] in Hreads. rewrite <- app_assoc. exact Hreads. }
    assert (tstep_rest : match gstep g (t_held t) s with
             | (g1, ONone, h) => (g1, mkT rest (t_reads t) h (t_gen t) false)
             | (g1, ORead v, h) => (g1, mkT rest (t_reads t ++ [v]) h (t_gen t) false)
             | (g1, OPanic, h) => (g1, mkT [] (t_reads t) h (t_gen t) true)
             end = (g', t')) by (destruct s; try exact Hstep; congruence).
    clear Hstep.
    pose proof (gstep_inv g (t_held t) s HG Hs1) as [HG' Hout].
    destruct (gstep g (t_held t) s) as [[g1 o] h]. cbn [fst snd] in HG', Hout.
    destruct o as [|v|]; [| |destruct Hout].
    - injection tstep_rest as <- <-. split; [exact HG'|]. split; [reflexivity|]. cbn [t_reads t_todo t_gen]. split; [exact Hsafe|].
      destruct s; try (exfalso; exact Hout); try exact Hreads; try discriminate Hs1. congruence.
    - injection tstep_rest as <- <-. split; [exact HG'|]. split; [reflexivity|]. cbn [t_reads t_todo t_gen]. split; [exact Hsafe|].
      destruct s; try (exfalso; exact Hout); subst v; cbn [Globals.expected_reads_from] in Hreads; rewrite <- app_assoc; exact Hreads.
  Qed.

  Definition all_good (progs : list (list step)) (ts : list thread) : Prop :=
    length progs = length ts /\ forall i p t, nth_error progs i = Some p -> nth_error ts i = Some t -> good p t.

  Lemma run_good : forall sched g ts progs,
    GInv g -> all_good progs ts ->
    GInv (fst (run g ts sched)) /\ all_good progs (snd (run g ts sched)).
  Proof.
    induction sched as [|i sched IH]; intros g ts progs HI [Hlen HG]; cbn [Globals.run]; [split; [exact HI | split; assumption]|].
    destruct (nth_error ts i) as [t|] eqn:Et; [|apply IH; [exact HI | split; assumption]].
    destruct (tstep g t) as [g' t'] eqn:Es.
    destruct (nth_error progs i) as [p|] eqn:Ep.
    2: { apply nth_error_None in Ep. assert (i < length ts) by (apply nth_error_Some; congruence). lia. }
    destruct (tstep_good g t p g' t' HI (HG i p t Ep Et) Es) as [HI' Hg'].
    apply IH; [exact HI'|]. split; [rewrite length_upd; exact Hlen|].
    intros j q u Hq Hu. destruct (Nat.eq_dec i j) as [<-|Hne].
    - rewrite (nth_error_upd_same ts i t t' Et) in Hu. injection Hu as <-. rewrite Ep in Hq. injection Hq as <-. exact Hg'.
    - rewrite nth_error_upd_other in Hu by exact Hne. eapply HG; eauto.
  Qed.

  (* the standing assumption: no entry closure of any thread panics *)
  Definition safe_progs (progs : list (list step)) : Prop := Forall (fun p => forallb closure_safe p = true) progs.

  Lemma spawn_good p : forallb closure_safe p = true -> good p (spawn p).
  Proof. intro H. unfold good, spawn. cbn [t_panicked t_todo t_reads t_gen]. split; [reflexivity | split; [exact H | reflexivity]]. Qed.

  Lemma spawn_all_good progs : safe_progs progs -> all_good progs (map spawn progs).
  Proof.
    intro H. split; [rewrite map_length; reflexivity|].
    intros i p t Hp Ht. rewrite nth_error_map, Hp in Ht. cbn in Ht. injection Ht as <-. apply spawn_good.
    unfold safe_progs in H. rewrite Forall_forall in H. apply H. eapply nth_error_In; eauto.
  Qed.

  (* Every thread that runs to completion has read exactly the constants, whatever the other threads do -- compile,
     start, restart or finish the debug log -- and whatever ran before (g is any state satisfying GInv). *)
  Theorem reads_schedule_independent g progs sched :
    GInv g -> safe_progs progs ->
    forall i p t, nth_error progs i = Some p -> nth_error (snd (run g (map spawn progs) sched)) i = Some t ->
    finished t = true -> t_reads t = expected_reads p.
  Proof.
    intros HG Hs i p t Hp Ht Hfin.
    destruct (run_good sched g (map spawn progs) progs HG (spawn_all_good progs Hs)) as [_ [_ Hgood]].
    destruct (Hgood i p t Hp Ht) as [_ [_ Hr]].
    unfold finished in Hfin. destruct (t_todo t); [|discriminate]. cbn [Globals.expected_reads_from] in Hr. rewrite app_nil_r in Hr. exact Hr.
  Qed.

  (* no step can poison the lock or panic: every thread that was scheduled often enough finishes *)
  Theorem never_panics g progs sched :
    GInv g -> safe_progs progs ->
    forall i t, nth_error (snd (run g (map spawn progs) sched)) i = Some t -> t_panicked t = false.
  Proof.
    intros HG Hs i t Ht.
    destruct (run_good sched g (map spawn progs) progs HG (spawn_all_good progs Hs)) as [_ [Hlen Hgood]].
    destruct (nth_error progs i) as [p|] eqn:Ep.
    - destruct (Hgood i p t Ep Ht) as [H _]. exact H.
    - apply nth_error_None in Ep. assert (i < length (snd (run g (map spawn progs) sched))) by (apply nth_error_Some; congruence). lia.
  Qed.

  (* any state reached by any schedule of any programs (complete or cut short) is again a good start *)
  Theorem history_preserves_GInv g progs sched :
    GInv g -> safe_progs progs -> GInv (fst (run g (map spawn progs) sched)).
  Proof.
    intros HG Hs. destruct (run_good sched g (map spawn progs) progs HG (spawn_all_good progs Hs)) as [H _]. exact H.
  Qed.

  Theorem never_poisons g progs sched :
    GInv g -> safe_progs progs -> g_poisoned (fst (run g (map spawn progs) sched)) = false.
  Proof. intros HG Hs. destruct (history_preserves_GInv g progs sched HG Hs) as [H _]. exact H. Qed.

  Lemma GInv_init : GInv g_init.
  Proof. split; [reflexivity|]. intros c v H. discriminate H. Qed.

  Lemma safe_one p : forallb closure_safe p = true -> safe_progs [p].
  Proof. intro H. constructor; [exact H | constructor]. Qed.

  Lemma safe_nth progs i p : safe_progs progs -> nth_error progs i = Some p -> forallb closure_safe p = true.
  Proof. intros H Hp. unfold safe_progs in H. rewrite Forall_forall in H. apply H. eapply nth_error_In; eauto. Qed.

  Theorem interleaving_independent progs sched i p t :
    safe_progs progs ->
    nth_error progs i = Some p -> nth_error (snd (run g_init (map spawn progs) sched)) i = Some t -> finished t = true ->
    forall t1, nth_error (snd (run g_init [spawn p] (repeat 0 (length p)))) 0 = Some t1 -> finished t1 = true ->
    t_reads t = t_reads t1.
  Proof.
    intros Hs Hp Ht Hf t1 Ht1 Hf1.
    rewrite (reads_schedule_independent g_init progs sched GInv_init Hs i p t Hp Ht Hf).
    symmetry. apply (reads_schedule_independent g_init [p] (repeat 0 (length p)) GInv_init (safe_one p (safe_nth progs i p Hs Hp)) 0 p t1 eq_refl Ht1 Hf1).
  Qed.

  (* the thread really finishes when it runs alone for length p steps: the conclusion above is not vacuous *)
  Lemma run_alone_finishes : forall p g t, GInv g -> t_panicked t = false -> t_todo t = p -> forallb closure_safe p = true ->
    exists t1, nth_error (snd (run g [t] (repeat 0 (length p)))) 0 = Some t1 /\ finished t1 = true.
  Proof.
    induction p as [|s p IH]; intros g t HG Hpan Htodo Hsafe.
    - exists t. cbn. split; [reflexivity|]. unfold finished. rewrite Htodo, Hpan. reflexivity.
    - cbn [length repeat Globals.run nth_error].
      cbn [forallb] in Hsafe. apply andb_true_iff in Hsafe as [Hs1 Hsafe].
      destruct (tstep g t) as [g' t'] eqn:Es. cbn [upd].
      assert (GInv g' /\ t_panicked t' = false /\ t_todo t' = p) as [HG' [Hpan' Htodo']].
      { unfold Globals.tstep in Es. rewrite Hpan, Htodo in Es.
        assert (s = SGenName \/ s <> SGenName) as [->|Hs] by (destruct s; (left; reflexivity) || (right; discriminate)).
        { injection Es as <- <-. auto. }
        assert (Es' : match gstep g (t_held t) s with
             | (g1, ONone, h) => (g1, mkT p (t_reads t) h (t_gen t) false)
             | (g1, ORead v, h) => (g1, mkT p (t_reads t ++ [v]) h (t_gen t) false)
             | (g1, OPanic, h) => (g1, mkT [] (t_reads t) h (t_gen t) true)
             end = (g', t')) by (destruct s; try exact Es; congruence).
        pose proof (gstep_inv g (t_held t) s HG Hs1) as [HG1 Hout].
        destruct (gstep g (t_held t) s) as [[g1 o] h]. cbn [fst snd] in HG1, Hout.
        destruct o; [| |destruct Hout]; injection Es' as <- <-; auto. }
      apply IH; assumption.
  Qed.

  Theorem alone_finishes p : forallb closure_safe p = true -> exists t1,
    nth_error (snd (run g_init [spawn p] (repeat 0 (length p)))) 0 = Some t1 /\ finished t1 = true.
  Proof. intro H. apply run_alone_finishes; [exact GInv_init | reflexivity | reflexivity | exact H]. Qed.

  Theorem history_independent hist hsched p sched t :
    safe_progs hist -> forallb closure_safe p = true ->
    let g := fst (run g_init (map spawn hist) hsched) in
    nth_error (snd (run g [spawn p] sched)) 0 = Some t -> finished t = true ->
    t_reads t = expected_reads p.
  Proof.
    intros Hh Hp g Ht Hf.
    apply (reads_schedule_independent g [p] sched (history_preserves_GInv g_init hist hsched GInv_init Hh) (safe_one p Hp) 0 p t eq_refl Ht Hf).
  Qed.

  (* a history: batches of concurrent threads (any steps, any schedule, complete or cut short), with calls of the
     debug API between the batches *)
  Inductive hitem := HCompiles (progs : list (list step)) (sched : list nat) | HApi (s : step).

  Definition hitem_safe (h : hitem) : Prop :=
    match h with HCompiles progs _ => safe_progs progs | HApi s => closure_safe s = true end.

  Definition hstep (g : gstate) (h : hitem) : gstate :=
    match h with
    | HCompiles progs sched => fst (run g (map spawn progs) sched)
    | HApi s => fst (fst (gstep g 0 s))
    end.

  Lemma history_GInv hist : Forall hitem_safe hist -> forall g, GInv g -> GInv (fold_left hstep hist g).
  Proof.
    induction hist as [|h hist IH]; intros Hs g HG; [exact HG|].
    inversion Hs as [|? ? Hh Hrest]; subst.
    cbn [fold_left]. apply IH; [exact Hrest|].
    destruct h as [progs sched|s]; cbn [hstep hitem_safe] in *.
    - apply history_preserves_GInv; assumption.
    - apply gstep_inv; assumption.
  Qed.

  Theorem history_with_api_independent hist p sched t :
    Forall hitem_safe hist -> forallb closure_safe p = true ->
    let g := fold_left hstep hist g_init in
    nth_error (snd (run g [spawn p] sched)) 0 = Some t -> finished t = true ->
    t_reads t = expected_reads p /\ t_panicked t = false.
  Proof.
    intros Hh Hp g Ht Hf.
    pose proof (history_GInv hist Hh g_init GInv_init) as HG.
    split.
    - apply (reads_schedule_independent g [p] sched HG (safe_one p Hp) 0 p t eq_refl Ht Hf).
    - apply (never_panics g [p] sched HG (safe_one p Hp) 0 t Ht).
  Qed.

  (* the debug API used CONCURRENTLY with compilations (was false: F10j): after any history, threads that compile and
     threads that start / restart / finish the log in any interleaving -- nobody panics, the lock is not poisoned, and
     every thread that completes has read the constants *)
  Theorem concurrent_api_independent hist progs sched :
    Forall hitem_safe hist -> safe_progs progs ->
    let g := fold_left hstep hist g_init in
    g_poisoned (fst (run g (map spawn progs) sched)) = false /\
    forall i p t, nth_error progs i = Some p -> nth_error (snd (run g (map spawn progs) sched)) i = Some t ->
      t_panicked t = false /\ (finished t = true -> t_reads t = expected_reads p).
  Proof.
    intros Hh Hs g. pose proof (history_GInv hist Hh g_init GInv_init) as HG. split.
    - apply never_poisons; assumption.
    - intros i p t Hp Ht. split.
      + apply (never_panics g progs sched HG Hs i t Ht).
      + intro Hf. apply (reads_schedule_independent g progs sched HG Hs i p t Hp Ht Hf).
  Qed.

  (* what a call whose only reads are generated names reads: 0, 1, ..., k-1 -- whatever else it does in between *)
  Definition reads_nothing_else (s : step) : bool := match s with SGetOrInit _ | SReadEnv => false | _ => true end.
  Definition is_gen (s : step) : bool := match s with SGenName => true | _ => false end.

  Lemma expected_names_from p : forall k, forallb reads_nothing_else p = true ->
    expected_reads_from k p = map N.of_nat (seq k (length (filter is_gen p))).
  Proof.
    induction p as [|s p IH]; intros k H; [reflexivity|].
    cbn [forallb] in H. apply andb_true_iff in H as [Hs H].
    destruct s; cbn [reads_nothing_else] in Hs; try discriminate Hs; cbn [Globals.expected_reads_from filter is_gen]; try (apply IH; exact H).
    cbn [length seq map]. f_equal. apply IH. exact H.
  Qed.

  (* generated-name state per call is a function of the call alone: after any history, among any threads, under any schedule *)
  Theorem generated_names_per_call hist progs sched i p t :
    Forall hitem_safe hist -> safe_progs progs ->
    let g := fold_left hstep hist g_init in
    forallb reads_nothing_else p = true ->
    nth_error progs i = Some p -> nth_error (snd (run g (map spawn progs) sched)) i = Some t -> finished t = true ->
    t_reads t = map N.of_nat (seq 0 (length (filter is_gen p))).
  Proof.
    intros Hh Hs g Hp Hi Ht Hf.
    destruct (concurrent_api_independent hist progs sched Hh Hs) as [_ H]. destruct (H i p t Hi Ht) as [_ Hr].
    rewrite (Hr Hf). apply expected_names_from. exact Hp.
  Qed.

  (* ---- an entry closure that panics (the assumption closure_safe dropped) ---- *)

  (* while NO debug log is active -- the library used without debug::log_start, e.g. every ordinary `compile` -- the closures
     are never called: whatever they would do, nothing is poisoned and nobody panics *)
  Theorem no_log_no_closure_call g held :
    g_poisoned g = false -> g_log g = None -> gstep g held SLogEntryPanics = (g, ONone, held).
  Proof. intros Hp Hl. cbn [Globals.gstep]. rewrite Hp, Hl. reflexivity. Qed.

  (* ... and the same while the log is suppressed (std is being loaded) *)
  Theorem suppressed_no_closure_call g held es n :
    g_poisoned g = false -> g_log g = Some (es, S n) -> gstep g held SLogEntryPanics = (g, ONone, held).
  Proof. intros Hp Hl. cbn [Globals.gstep]. rewrite Hp, Hl. reflexivity. Qed.

  (* with a log active one panicking closure poisons the lock for good: the thread panics, and so does every later
     log call of every thread -- also after log_start, which takes the guard out of the poisoned lock but cannot clear it *)
  Theorem panicking_closure_poisons_for_good :
    exists progs sched,
      let r := run g_init (map spawn progs) sched in
      g_poisoned (fst r) = true
      /\ option_map t_panicked (nth_error (snd r) 1) = Some true        (* the call whose closure panicked *)
      /\ option_map t_panicked (nth_error (snd r) 2) = Some true        (* an innocent later compilation *)
      /\ forallb compile_step (nth 2 progs []) = true /\ forallb closure_safe (nth 2 progs []) = true.
  Proof.
    exists [[SLogStart; SLogStart]; [SLogEntryPanics]; [SLogEnabled; SLogEntry 0%N]], [0; 1; 0; 2; 2]. vm_compute. auto.
  Qed.
End GlobalsProofs.


(* Schedule- and history-independence of what a compilation reads from the process-global state. *)
From Coq Require Import List NArith Bool Arith Lia.
From PV Require Import Model.Globals.
Import ListNotations.

Section GlobalsProofs.
  Variable cell_init : cell -> N.
  Variable env : N.
  Notation gstep := (gstep cell_init env).
  Notation tstep := (tstep cell_init env).
  Notation run := (run cell_init env).
  Notation expected_reads := (expected_reads cell_init env).

  Definition total_held (ts : list thread) : nat := list_sum (map t_held ts).

  Definition cells_ok (g : gstate) : Prop := forall c v, cell_get c (g_cells g) = Some v -> v = cell_init c.

  Definition held_ok (g : gstate) (ts : list thread) : Prop :=
    match g_log g with Some (_, n) => total_held ts <= n | None => total_held ts = 0 end.

  Definition GInv (g : gstate) : Prop := g_poisoned g = false /\ cells_ok g.
  Definition Inv (g : gstate) (ts : list thread) : Prop := GInv g /\ held_ok g ts.

  (* thread t is running program prog correctly so far *)
  Definition good (prog : list step) (t : thread) : Prop :=
    t_panicked t = false /\ forallb compile_step (t_todo t) = true /\
    t_reads t ++ expected_reads (t_todo t) = expected_reads prog.

  Lemma cell_eqb_eq a b : cell_eqb a b = true -> a = b.
  Proof. destruct a, b; cbn; intro H; try discriminate; reflexivity. Qed.

  Lemma total_held_upd : forall ts i t t', nth_error ts i = Some t ->
    total_held (upd ts i t') + t_held t = total_held ts + t_held t'.
  Proof.
    unfold total_held. induction ts as [|x ts IH]; intros [|i] t t' H; cbn in H; try discriminate.
    - injection H as ->. cbn. lia.
    - specialize (IH i t t' H). cbn [upd map list_sum]. simpl. lia.
  Qed.

  Lemma nth_error_upd_same : forall ts i t t', nth_error ts i = Some t -> nth_error (upd ts i t') i = Some t'.
  Proof. induction ts as [|x ts IH]; intros [|i] t t' H; cbn in *; try discriminate; [reflexivity | eapply IH; eauto]. Qed.

  Lemma nth_error_upd_other : forall ts i j t', i <> j -> nth_error (upd ts i t') j = nth_error ts j.
  Proof.
    induction ts as [|x ts IH]; intros [|i] [|j] t' H; cbn; try reflexivity; try lia.
    apply IH. lia.
  Qed.

  Lemma length_upd : forall ts i t', length (upd ts i t') = length ts.
  Proof. induction ts as [|x ts IH]; intros [|i] t'; cbn; try reflexivity. rewrite IH. reflexivity. Qed.

  (* one step of a good thread preserves everything *)
  Lemma tstep_good g ts i t prog g' t' :
    Inv g ts -> nth_error ts i = Some t -> good prog t -> tstep g t = (g', t') ->
    Inv g' (upd ts i t') /\ good prog t'.
  Proof.
    intros [[Hpo Hcells] Hheld] Hnth [Hpan [Hall Hreads]] Hstep.
    unfold Globals.tstep in Hstep. rewrite Hpan in Hstep.
    pose proof (total_held_upd ts i t) as Hupd.
    destruct (t_todo t) as [|s rest] eqn:Etodo.
    { injection Hstep as <- <-. split.
      - split; [split; assumption|]. unfold held_ok in *. specialize (Hupd t Hnth).
        destruct (g_log g) as [[es n]|]; lia.
      - split; [exact Hpan|]. rewrite Etodo. split; [reflexivity | exact Hreads]. }
    cbn [forallb] in Hall. apply andb_true_iff in Hall as [Hs Hall].
    unfold held_ok in Hheld.
    destruct s; cbn [compile_step] in Hs; try discriminate Hs;
      cbn [Globals.gstep] in Hstep; try rewrite Hpo in Hstep.
    - (* SLogEntry *)
      destruct (g_log g) as [[es [|n]]|] eqn:El; injection Hstep as <- <-;
        (split; [split; [split; [reflexivity || exact Hpo | exact Hcells]|] | split; [reflexivity | split; [exact Hall | exact Hreads]]]);
        unfold held_ok; cbn [g_log]; try rewrite El; specialize (Hupd (mkT rest (t_reads t) (t_held t) false) Hnth); cbn [t_held] in Hupd; lia.
    - (* SLogEnabled *)
      injection Hstep as <- <-.
      split; [split; [split; [exact Hpo | exact Hcells]|] | split; [reflexivity | split; [exact Hall | exact Hreads]]].
      unfold held_ok. specialize (Hupd (mkT rest (t_reads t) (t_held t) false) Hnth). cbn [t_held] in Hupd.
      destruct (g_log g) as [[es n]|]; lia.
    - (* SSuppressInc *)
      destruct (g_log g) as [[es n]|] eqn:El; injection Hstep as <- <-;
        (split; [split; [split; [reflexivity || exact Hpo | exact Hcells]|] | split; [reflexivity | split; [exact Hall | exact Hreads]]]);
        unfold held_ok; cbn [g_log]; try rewrite El.
      + specialize (Hupd (mkT rest (t_reads t) (S (t_held t)) false) Hnth). cbn [t_held] in Hupd. lia.
      + specialize (Hupd (mkT rest (t_reads t) (t_held t) false) Hnth). cbn [t_held] in Hupd. lia.
    - (* SSuppressDec *)
      destruct (t_held t) as [|h] eqn:Eh.
      + injection Hstep as <- <-.
        split; [split; [split; [exact Hpo | exact Hcells]|] | split; [reflexivity | split; [exact Hall | exact Hreads]]].
        unfold held_ok. specialize (Hupd (mkT rest (t_reads t) 0 false) Hnth). cbn [t_held] in Hupd.
        destruct (g_log g) as [[es n]|]; lia.
      + assert (t_held t <= total_held ts) as Hle.
        { clear - Hnth. unfold total_held. revert i Hnth. induction ts as [|x ts IH]; intros [|i] H; cbn in H; try discriminate.
          - injection H as ->. simpl. lia.
          - specialize (IH i H). simpl. lia. }
        destruct (g_log g) as [[es [|n]]|] eqn:El; try lia.
        injection Hstep as <- <-.
        split; [split; [split; [reflexivity | exact Hcells]|] | split; [reflexivity | split; [exact Hall | exact Hreads]]].
        unfold held_ok. cbn [g_log]. specialize (Hupd (mkT rest (t_reads t) h false) Hnth). cbn [t_held] in Hupd. lia.
    - (* SGetOrInit *)
      cbn [Globals.expected_reads] in Hreads.
      destruct (cell_get c (g_cells g)) as [v|] eqn:Ec; injection Hstep as <- <-.
      + pose proof (Hcells c v Ec) as ->.
        split; [split; [split; [exact Hpo | exact Hcells]|] | split; [reflexivity | split; [exact Hall|]]].
        * unfold held_ok. specialize (Hupd (mkT rest (t_reads t ++ [cell_init c]) (t_held t) false) Hnth). cbn [t_held] in Hupd.
          destruct (g_log g) as [[es n]|]; lia.
        * cbn [t_reads t_todo]. rewrite <- app_assoc. exact Hreads.
      + split; [split; [split; [reflexivity || exact Hpo|]|] | split; [reflexivity | split; [exact Hall|]]].
        * intros c' v'. cbn [g_cells cell_get]. destruct (cell_eqb c' c) eqn:Ee.
          -- apply cell_eqb_eq in Ee. subst. intro H; injection H as <-. reflexivity.
          -- apply Hcells.
        * unfold held_ok. cbn [g_log]. specialize (Hupd (mkT rest (t_reads t ++ [cell_init c]) (t_held t) false) Hnth). cbn [t_held] in Hupd.
          destruct (g_log g) as [[es n]|]; lia.
        * cbn [t_reads t_todo]. rewrite <- app_assoc. exact Hreads.
    - (* SReadEnv *)
      cbn [Globals.expected_reads] in Hreads. injection Hstep as <- <-.
      split; [split; [split; [exact Hpo | exact Hcells]|] | split; [reflexivity | split; [exact Hall|]]].
      + unfold held_ok. specialize (Hupd (mkT rest (t_reads t ++ [env]) (t_held t) false) Hnth). cbn [t_held] in Hupd.
        destruct (g_log g) as [[es n]|]; lia.
      + cbn [t_reads t_todo]. rewrite <- app_assoc. exact Hreads.
  Qed.

  Definition all_good (progs : list (list step)) (ts : list thread) : Prop :=
    length progs = length ts /\ forall i p t, nth_error progs i = Some p -> nth_error ts i = Some t -> good p t.

  Lemma run_good : forall sched g ts progs,
    Inv g ts -> all_good progs ts ->
    Inv (fst (run g ts sched)) (snd (run g ts sched)) /\ all_good progs (snd (run g ts sched)).
  Proof.
    induction sched as [|i sched IH]; intros g ts progs HI [Hlen HG]; cbn [Globals.run]; [split; [exact HI | split; assumption]|].
    destruct (nth_error ts i) as [t|] eqn:Et; [|apply IH; [exact HI | split; assumption]].
    destruct (tstep g t) as [g' t'] eqn:Es.
    destruct (nth_error progs i) as [p|] eqn:Ep.
    2: { apply nth_error_None in Ep. assert (i < length ts) by (apply nth_error_Some; congruence). lia. }
    destruct (tstep_good g ts i t p g' t' HI Et (HG i p t Ep Et) Es) as [HI' Hg'].
    apply IH; [exact HI'|]. split; [rewrite length_upd; exact Hlen|].
    intros j q u Hq Hu. destruct (Nat.eq_dec i j) as [<-|Hne].
    - rewrite (nth_error_upd_same ts i t t' Et) in Hu. injection Hu as <-. rewrite Ep in Hq. injection Hq as <-. exact Hg'.
    - rewrite nth_error_upd_other in Hu by exact Hne. eapply HG; eauto.
  Qed.

  Lemma spawn_good p : forallb compile_step p = true -> good p (spawn p).
  Proof. intro H. unfold good, spawn. cbn [t_panicked t_todo t_reads]. split; [reflexivity | split; [exact H | reflexivity]]. Qed.

  Lemma total_held_spawn progs : total_held (map spawn progs) = 0.
  Proof. unfold total_held. induction progs as [|p ps IH]; [reflexivity|]. cbn [map]. simpl. exact IH. Qed.

  Lemma spawn_all_good progs :
    Forall (fun p => forallb compile_step p = true) progs -> all_good progs (map spawn progs).
  Proof.
    intro H. split; [rewrite map_length; reflexivity|].
    intros i p t Hp Ht. rewrite nth_error_map, Hp in Ht. cbn in Ht. injection Ht as <-.
    apply spawn_good. rewrite Forall_forall in H. apply H. eapply nth_error_In; eauto.
  Qed.

  Lemma Inv_spawn g progs : GInv g -> Inv g (map spawn progs).
  Proof.
    intro HG. split; [exact HG|]. unfold held_ok. rewrite total_held_spawn. destruct (g_log g) as [[es n]|]; lia.
  Qed.

  (* Every compilation that runs to completion has read exactly the constants, whatever the other threads do
     and whatever compilations ran before (g is any state satisfying GInv). *)
  Theorem reads_schedule_independent g progs sched :
    GInv g -> Forall (fun p => forallb compile_step p = true) progs ->
    forall i p t, nth_error progs i = Some p -> nth_error (snd (run g (map spawn progs) sched)) i = Some t ->
    finished t = true -> t_reads t = expected_reads p.
  Proof.
    intros HG Hall i p t Hp Ht Hfin.
    destruct (run_good sched g (map spawn progs) progs (Inv_spawn g progs HG) (spawn_all_good progs Hall)) as [_ [_ Hgood]].
    destruct (Hgood i p t Hp Ht) as [_ [_ Hr]].
    unfold finished in Hfin. destruct (t_todo t); [|discriminate]. cbn in Hr. rewrite app_nil_r in Hr. exact Hr.
  Qed.

  (* no compile step can poison the lock or panic: every thread that was scheduled often enough finishes *)
  Theorem never_panics g progs sched :
    GInv g -> Forall (fun p => forallb compile_step p = true) progs ->
    forall i t, nth_error (snd (run g (map spawn progs) sched)) i = Some t -> t_panicked t = false.
  Proof.
    intros HG Hall i t Ht.
    destruct (run_good sched g (map spawn progs) progs (Inv_spawn g progs HG) (spawn_all_good progs Hall)) as [_ [Hlen Hgood]].
    destruct (nth_error progs i) as [p|] eqn:Ep.
    - destruct (Hgood i p t Ep Ht) as [H _]. exact H.
    - apply nth_error_None in Ep. assert (i < length (snd (run g (map spawn progs) sched))) by (apply nth_error_Some; congruence). lia.
  Qed.

  (* any state reached by any schedule of any compile-only programs (complete or cut short) is again a good start *)
  Theorem history_preserves_GInv g progs sched :
    GInv g -> Forall (fun p => forallb compile_step p = true) progs -> GInv (fst (run g (map spawn progs) sched)).
  Proof.
    intros HG Hall.
    destruct (run_good sched g (map spawn progs) progs (Inv_spawn g progs HG) (spawn_all_good progs Hall)) as [[H _] _]. exact H.
  Qed.

  Lemma GInv_init : GInv g_init.
  Proof. split; [reflexivity|]. intros c v H. discriminate H. Qed.

  Theorem interleaving_independent progs sched i p t :
    Forall (fun p => forallb compile_step p = true) progs ->
    nth_error progs i = Some p -> nth_error (snd (run g_init (map spawn progs) sched)) i = Some t -> finished t = true ->
    forall t1, nth_error (snd (run g_init [spawn p] (repeat 0 (length p)))) 0 = Some t1 -> finished t1 = true ->
    t_reads t = t_reads t1.
  Proof.
    intros Hall Hp Ht Hf t1 Ht1 Hf1.
    rewrite (reads_schedule_independent g_init progs sched GInv_init Hall i p t Hp Ht Hf).
    assert (Forall (fun p => forallb compile_step p = true) [p]) as Hall1.
    { constructor; [|constructor]. rewrite Forall_forall in Hall. apply Hall. eapply nth_error_In; eauto. }
    symmetry. apply (reads_schedule_independent g_init [p] (repeat 0 (length p)) GInv_init Hall1 0 p t1 eq_refl Ht1 Hf1).
  Qed.

  Theorem history_independent hist hsched p sched t :
    Forall (fun q => forallb compile_step q = true) hist -> forallb compile_step p = true ->
    let g := fst (run g_init (map spawn hist) hsched) in
    nth_error (snd (run g [spawn p] sched)) 0 = Some t -> finished t = true ->
    t_reads t = expected_reads p.
  Proof.
    intros Hh Hp g Ht Hf.
    apply (reads_schedule_independent g [p] sched (history_preserves_GInv g_init hist hsched GInv_init Hh)
             (Forall_cons _ Hp (Forall_nil _)) 0 p t eq_refl Ht Hf).
  Qed.

  (* the debug API between compilations: log_start / log_finish never poison the lock and do not touch the cells *)
  Lemma api_step_GInv g s : GInv g -> compile_step s = false -> GInv (fst (fst (gstep g 0 s))).
  Proof.
    intros [Hp Hc] Hs. destruct s; cbn [compile_step] in Hs; try discriminate Hs; cbn [Globals.gstep].
    - split; [exact Hp | exact Hc].
    - rewrite Hp. split; [reflexivity | exact Hc].
  Qed.

  (* a history: batches of concurrent compilations (any schedule, complete or cut short), with calls of the debug
     API between the batches *)
  Inductive hitem := HCompiles (progs : list (list step)) (sched : list nat) | HApi (s : step).

  Definition hitem_ok (h : hitem) : Prop :=
    match h with
    | HCompiles progs _ => Forall (fun q => forallb compile_step q = true) progs
    | HApi s => compile_step s = false
    end.

  Definition hstep (g : gstate) (h : hitem) : gstate :=
    match h with
    | HCompiles progs sched => fst (run g (map spawn progs) sched)
    | HApi s => fst (fst (gstep g 0 s))
    end.

  Lemma history_GInv hist : Forall hitem_ok hist -> forall g, GInv g -> GInv (fold_left hstep hist g).
  Proof.
    induction hist as [|h hist IH]; intros Hok g HG; [exact HG|].
    inversion Hok as [|? ? Hh Hrest]; subst. cbn [fold_left]. apply IH; [exact Hrest|].
    destruct h as [progs sched|s]; cbn [hstep hitem_ok] in *.
    - apply history_preserves_GInv; assumption.
    - apply api_step_GInv; assumption.
  Qed.

  Theorem history_with_api_independent hist p sched t :
    Forall hitem_ok hist -> forallb compile_step p = true ->
    let g := fold_left hstep hist g_init in
    nth_error (snd (run g [spawn p] sched)) 0 = Some t -> finished t = true ->
    t_reads t = expected_reads p /\ t_panicked t = false.
  Proof.
    intros Hh Hp g Ht Hf.
    pose proof (history_GInv hist Hh g_init GInv_init) as HG.
    split.
    - apply (reads_schedule_independent g [p] sched HG (Forall_cons _ Hp (Forall_nil _)) 0 p t eq_refl Ht Hf).
    - apply (never_panics g [p] sched HG (Forall_cons _ Hp (Forall_nil _)) 0 t Ht).
  Qed.
End GlobalsProofs.

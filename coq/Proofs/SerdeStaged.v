(* staged = compile up to error decoration, by composition over the serde round trip *)
From Coq Require Import List NArith Bool.
From PV Require Import Lib.ListX Model.Json Model.Serde Model.SerdeDoc Model.SerdeStaged Proofs.SerdeProofs Proofs.SerdeDeProofs.
Import ListNotations.

Section StagedProofs.
  Variables src opts sql err errc : Type.
  Variable E : env.
  Variables dPL dRQ : desc.
  Variable parse : src -> res err value.
  Variable resolve : value -> res err value.
  Variable gen : opts -> value -> res err sql.
  Variables tagNR tagSQL : err -> err.
  Variable compose : src -> opts -> err -> err.
  Variable compose1 : src -> err -> err.
  Variable json_err : json -> err.
  (* what is compared of an error: reason, span, code, hints -- not display / location *)
  Variable core : err -> errc.

  Hypothesis Hschema : schema_ok E = true.
  Hypothesis HdPL : desc_ok E dPL = true.
  Hypothesis HdRQ : desc_ok E dRQ = true.
  Hypothesis Hparse_wt : forall s v, parse s = Ok v -> wt E dPL v.
  Hypothesis Hresolve_wt : forall v w, resolve v = Ok w -> wt E dRQ w.
  Hypothesis Hcore_compose : forall s o e, core (compose s o e) = core e.
  Hypothesis Hcore_compose1 : forall s e, core (compose1 s e) = core e.

  Definition observe (r : res err sql) : sql + errc :=
    match r with Ok a => inl a | Err e => inr (core e) end.

  Notation compile := (compile src opts sql err parse resolve gen tagNR tagSQL compose).
  Notation staged := (staged src opts sql err E dPL dRQ parse resolve gen tagNR tagSQL compose1 json_err).

  Theorem staged_eq_direct s o :
    (forall v, parse s = Ok v -> json_ok v = true) ->
    (forall v w, parse s = Ok v -> resolve v = Ok w -> json_ok w = true) ->
    observe (staged s o) = observe (compile s o).
  Proof.
    intros Hj1 Hj2. unfold SerdeStaged.staged, SerdeStaged.compile, prql_to_pl, pl_to_rq, rq_to_sql, to_json, from_json.
    destruct (parse s) as [pl|e] eqn:Ep; cbn [bind map_err observe].
    2: { rewrite Hcore_compose, Hcore_compose1. reflexivity. }
    rewrite (serde_roundtrip E Hschema dPL pl HdPL (Hparse_wt s pl Ep) (Hj1 pl eq_refl)). cbn [bind].
    destruct (resolve pl) as [rq|e] eqn:Er; cbn [bind map_err observe].
    2: { rewrite Hcore_compose. reflexivity. }
    rewrite (serde_roundtrip E Hschema dRQ rq HdRQ (Hresolve_wt pl rq Er) (Hj2 pl rq eq_refl Er)). cbn [bind].
    destruct (gen o rq) as [q|e]; cbn [map_err observe]; [reflexivity|].
    rewrite Hcore_compose. reflexivity.
  Qed.

  (* when a stage output does not survive JSON, the staged path reports a JSON error instead *)
  Theorem staged_breaks_without_roundtrip s o pl :
    parse s = Ok pl -> de E dPL (ser E dPL pl) = None ->
    observe (staged s o) = inr (core (json_err (ser E dPL pl))).
  Proof.
    intros Ep Hd. unfold SerdeStaged.staged, prql_to_pl, to_json, from_json. rewrite Ep. cbn [bind map_err]. rewrite Hd. reflexivity.
  Qed.
End StagedProofs.

(* The same theorem with the hypotheses in the form the correspondence tests on every run: the value a stage returns
   is one the model READS from some document (stream `model-de-ser`: the document is the one prqlc
   itself wrote for that value, the model's `de` accepts it and `ser (de j) = j`).  Typing and finiteness are then
   consequences (`de_wt`), not assumptions; and the only hypotheses about errors are the two `core` equations. *)
Section StagedDocs.
  Variables src opts sql err errc : Type.
  Variable E : env.
  Variables dPL dRQ : desc.
  Variable parse : src -> res err value.
  Variable resolve : value -> res err value.
  Variable gen : opts -> value -> res err sql.
  Variables tagNR tagSQL : err -> err.
  Variable compose : src -> opts -> err -> err.
  Variable compose1 : src -> err -> err.
  Variable json_err : json -> err.
  Variable core : err -> errc.

  Hypothesis Hschema : schema_ok E = true.
  Hypothesis HdPL : desc_ok E dPL = true.
  Hypothesis HdRQ : desc_ok E dRQ = true.
  Hypothesis Hcore_compose : forall s o e, core (compose s o e) = core e.
  Hypothesis Hcore_compose1 : forall s e, core (compose1 s e) = core e.

  Definition from_doc (d : desc) (v : value) : Prop := exists j, de E d j = Some v.

  Notation compile := (compile src opts sql err parse resolve gen tagNR tagSQL compose).
  Notation staged := (staged src opts sql err E dPL dRQ parse resolve gen tagNR tagSQL compose1 json_err).
  Notation observe := (observe sql err errc core).

  Theorem staged_eq_direct_docs s o :
    (forall v, parse s = Ok v -> from_doc dPL v) ->
    (forall v w, parse s = Ok v -> resolve v = Ok w -> from_doc dRQ w) ->
    observe (staged s o) = observe (compile s o).
  Proof.
    intros H1 H2. unfold SerdeStaged.staged, SerdeStaged.compile, prql_to_pl, pl_to_rq, rq_to_sql, to_json, from_json.
    destruct (parse s) as [pl|e] eqn:Ep; cbn [bind map_err SerdeStaged.observe].
    2: { rewrite Hcore_compose, Hcore_compose1. reflexivity. }
    destruct (H1 pl eq_refl) as [j1 Hd1].
    rewrite (reserialise_stable E dPL j1 pl Hschema HdPL Hd1). cbn [bind].
    destruct (resolve pl) as [rq|e] eqn:Er; cbn [bind map_err SerdeStaged.observe].
    2: { rewrite Hcore_compose. reflexivity. }
    destruct (H2 pl rq eq_refl Er) as [j2 Hd2].
    rewrite (reserialise_stable E dRQ j2 rq Hschema HdRQ Hd2). cbn [bind].
    destruct (gen o rq) as [q|e]; cbn [map_err SerdeStaged.observe]; [reflexivity|].
    rewrite Hcore_compose. reflexivity.
  Qed.
End StagedDocs.

(* Staged = compile for ALL sources, conditional on the lexer: once no token carries a non-finite float (the repair
   proposed for F14: a number literal whose f64 value is not finite is a lexer error), the parser builds its value
   from finite tokens only, and the resolver keeps values finite, the side condition of `staged_eq_direct` is
   discharged for every source.  `parse` is `lex` followed by `parse_tokens`, as in prqlc_parser::parse_source. *)
Section StagedLexer.
  Variables src opts sql err errc tok : Type.
  Variable E : env.
  Variables dPL dRQ : desc.
  Variable lex : src -> res err (list tok).
  Variable parse_tokens : list tok -> res err value.
  Variable tok_finite : tok -> bool.           (* the token is not a float literal whose value is inf / NaN *)
  Variable resolve : value -> res err value.
  Variable gen : opts -> value -> res err sql.
  Variables tagNR tagSQL : err -> err.
  Variable compose : src -> opts -> err -> err.
  Variable compose1 : src -> err -> err.
  Variable json_err : json -> err.
  Variable core : err -> errc.

  Definition parse_of (s : src) : res err value :=
    match lex s with Ok ts => parse_tokens ts | Err e => Err e end.

  Hypothesis Hschema : schema_ok E = true.
  Hypothesis HdPL : desc_ok E dPL = true.
  Hypothesis HdRQ : desc_ok E dRQ = true.
  Hypothesis Hparse_wt : forall s v, parse_of s = Ok v -> wt E dPL v.
  Hypothesis Hresolve_wt : forall v w, resolve v = Ok w -> wt E dRQ w.
  Hypothesis Hcore_compose : forall s o e, core (compose s o e) = core e.
  Hypothesis Hcore_compose1 : forall s e, core (compose1 s e) = core e.
  (* the lexer condition (what fixes/F14-lexer-rejects-nonfinite-float.diff establishes) *)
  Hypothesis Hlex_finite : forall s ts, lex s = Ok ts -> forallb tok_finite ts = true.
  (* the parser invents no non-finite float; the resolver / lowerer neither (no constant folding of floats) *)
  Hypothesis Hparse_finite : forall ts v, forallb tok_finite ts = true -> parse_tokens ts = Ok v -> json_ok v = true.
  Hypothesis Hresolve_finite : forall v w, json_ok v = true -> resolve v = Ok w -> json_ok w = true.

  Notation compile := (compile src opts sql err parse_of resolve gen tagNR tagSQL compose).
  Notation staged := (staged src opts sql err E dPL dRQ parse_of resolve gen tagNR tagSQL compose1 json_err).

  Lemma parse_of_finite s v : parse_of s = Ok v -> json_ok v = true.
  Proof.
    unfold parse_of. destruct (lex s) as [ts|e] eqn:El; [|discriminate].
    intro H. exact (Hparse_finite ts v (Hlex_finite s ts El) H).
  Qed.

  Theorem staged_eq_direct_lexer : forall s o,
    observe sql err errc core (staged s o) = observe sql err errc core (compile s o).
  Proof.
    intros s o.
    apply (staged_eq_direct src opts sql err errc E dPL dRQ parse_of resolve gen tagNR tagSQL compose compose1
             json_err core Hschema HdPL HdRQ Hparse_wt Hresolve_wt Hcore_compose Hcore_compose1 s o).
    - intros v Hv. exact (parse_of_finite s v Hv).
    - intros v w Hv Hw. exact (Hresolve_finite v w (parse_of_finite s v Hv) Hw).
  Qed.

  (* and the lexer condition is necessary for the parser's part: a token stream with a non-finite float literal that
     the parser turns into a value with that float breaks the PL round trip (c15_roundtrip_refuted_nonfinite) *)
End StagedLexer.

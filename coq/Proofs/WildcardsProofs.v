(* C05: translate_wildcards neither drops nor adds a requested column (as a set), provided the
   dialect can exclude columns from a star; without EXCLUDE nothing is dropped, but known columns
   that were not requested (helper columns) may be shown. *)
From Coq Require Import List Bool Arith Lia.
From PV Require Import Model.Wildcards.
Import ListNotations.

Lemma mem_In x s : mem x s = true <-> In x s.
Proof.
  unfold mem. rewrite existsb_exists. split.
  - intros [y [Hy E]]. apply Nat.eqb_eq in E. subst. exact Hy.
  - intro H. exists x. split; [exact H | apply Nat.eqb_refl].
Qed.
Lemma mem_false x s : mem x s = false <-> ~ In x s.
Proof. rewrite <- mem_In. destruct (mem x s); split; intro H; try reflexivity; try discriminate; try (intro; discriminate). exfalso; apply H; reflexivity. Qed.
Lemma remove_In x y s : In y (remove x s) <-> In y s /\ y <> x.
Proof.
  unfold remove. rewrite filter_In. split; intros [H1 H2]; split; try exact H1.
  - intro E. subst. rewrite Nat.eqb_refl in H2. discriminate.
  - apply negb_true_iff. apply Nat.eqb_neq. intro E. apply H2. symmetry; exact E.
Qed.

Section WP.
  Variable orig_of : cid -> option (list cid).

  Definition X (st : wst) (c : cid) : list cid :=
    match star st with
    | Some (sc, s) => if Nat.eqb sc c then s else lookup_ex (excluded st) c
    | None => lookup_ex (excluded st) c
    end.

  Definition showsX (Xc : list cid) (c : cid) : list cid :=
    match orig_of c with
    | None => [c]
    | Some orig => c :: filter (fun x => negb (mem x Xc)) (remove c orig)
    end.

  Lemma showsX_In Xc c x :
    In x (showsX Xc c) <->
    match orig_of c with
    | None => x = c
    | Some orig => x = c \/ (In x orig /\ x <> c /\ ~ In x Xc)
    end.
  Proof.
    unfold showsX. destruct (orig_of c) as [orig|].
    - cbn [In]. rewrite filter_In, remove_In, negb_true_iff, mem_false. split.
      + intros [H|[[H1 H2] H3]]; [left; symmetry; exact H | right; repeat split; assumption].
      + intros [H|[H1 [H2 H3]]]; [left; symmetry; exact H | right; repeat split; assumption].
    - cbn [In]. split; [intros [H|[]]; symmetry; exact H | intro H; left; symmetry; exact H].
  Qed.

  Definition D (st : wst) (x : cid) : Prop := exists c, In c (output st) /\ In x (showsX (X st c) c).

  Lemma lookup_ex_notkey ex c : ~ In c (map fst ex) -> lookup_ex ex c = [].
  Proof.
    induction ex as [|[k s] r IH]; intro H; [reflexivity|]. cbn [lookup_ex].
    destruct (Nat.eqb k c) eqn:E.
    - apply Nat.eqb_eq in E. subst. exfalso. apply H. left; reflexivity.
    - apply IH. intro Hc. apply H. right; exact Hc.
  Qed.

  (* well-formed request list, relative to the ids already processed *)
  Fixpoint wf_cols (P : list cid) (cols : list col) : Prop :=
    match cols with
    | [] => True
    | (id, d) :: r =>
        d = orig_of id /\
        (forall orig, d = Some orig -> ~ In id P /\ forall y, In y (remove id orig) -> orig_of y = None) /\
        wf_cols (P ++ [id]) r
    end.

  Record Inv (st : wst) (P : list cid) : Prop := {
    inv_D : forall x, D st x <-> In x P;
    inv_star : forall sc s, star st = Some (sc, s) ->
               In sc (output st) /\ (exists orig, orig_of sc = Some orig /\ forall y, In y s -> In y (remove sc orig))
               /\ ~ In sc (map fst (excluded st));
    inv_keys : forall c, In c (map fst (excluded st)) -> In c P;
    inv_out : forall c, In c (output st) -> In c P
  }.

  (* closing the current star does not change what anything shows *)
  Lemma X_exclude st P c : Inv st P -> X (exclude st) c = X st c.
  Proof.
    intros I. unfold exclude, X. destruct (star st) as [[sc s]|] eqn:E; [|rewrite E; reflexivity].
    cbn [star excluded]. destruct (inv_star st P I sc s E) as [_ [_ Hk]].
    destruct (Nat.eqb sc c) eqn:Ec.
    - apply Nat.eqb_eq in Ec. subst c. destruct s as [|y s'].
      + apply lookup_ex_notkey. exact Hk.
      + cbn [lookup_ex]. rewrite Nat.eqb_refl. reflexivity.
    - destruct s as [|y s']; [reflexivity|]. cbn [lookup_ex]. rewrite Ec. reflexivity.
  Qed.

  Lemma Inv_exclude st P : Inv st P -> Inv (exclude st) P /\ star (exclude st) = None.
  Proof.
    intro I. split.
    - constructor.
      + intro x. rewrite <- (inv_D st P I x). unfold D.
        assert (output (exclude st) = output st) as -> by (unfold exclude; destruct (star st) as [[? ?]|]; reflexivity).
        split; intros [c [H1 H2]]; exists c; (split; [exact H1|]); [rewrite <- (X_exclude st P c I) | rewrite (X_exclude st P c I)]; exact H2.
      + intros sc s E. unfold exclude in E. destruct (star st) as [[a b]|] eqn:E0; cbn [star] in E; [discriminate | congruence].
      + intros c Hc. unfold exclude in Hc. destruct (star st) as [[sc s]|] eqn:E; [|apply (inv_keys st P I); exact Hc].
        cbn [excluded] in Hc. destruct s as [|y s'].
        * apply (inv_keys st P I); exact Hc.
        * cbn [map fst In] in Hc. destruct Hc as [<-|Hc]; [|apply (inv_keys st P I); exact Hc].
          apply (inv_out st P I). destruct (inv_star st P I sc (y :: s') E) as [H _]. exact H.
      + intros c Hc. apply (inv_out st P I). unfold exclude in Hc. destruct (star st) as [[? ?]|]; exact Hc.
    - unfold exclude. destruct (star st) as [[? ?]|] eqn:E; [reflexivity | exact E].
  Qed.

  (* specification of the pop loop *)
  Lemma pop_spec out : forall s out' s',
    pop_included out s = (out', s') ->
    exists popped, out = popped ++ out' /\ (forall p, In p popped -> In p s) /\
                   (forall y, In y s' <-> In y s /\ ~ In y popped).
  Proof.
    induction out as [|prev r IH]; intros s out' s' H; cbn [pop_included] in H.
    - injection H as <- <-. exists []. split; [reflexivity|]. split; [intros p []|]. intro y. cbn [In]. tauto.
    - destruct (mem prev s) eqn:E.
      + apply IH in H as [popped [H1 [H2 H3]]]. exists (prev :: popped). split; [|split; [|intro y; split]].
        * cbn [app]. rewrite H1. reflexivity.
        * intros p [<-|Hp]; [apply mem_In; exact E|]. apply H2 in Hp. apply remove_In in Hp as [Hp _]. exact Hp.
        * intro Hy. apply H3 in Hy as [Hy1 Hy2]. apply remove_In in Hy1 as [Hy1 Hne].
          split; [exact Hy1|]. intros [Hc|Hc]; [apply Hne; symmetry; exact Hc | apply Hy2; exact Hc].
        * intros [Hy1 Hy2]. apply H3. split.
          -- apply remove_In. split; [exact Hy1|]. intro Hc. apply Hy2. left; symmetry; exact Hc.
          -- intro Hc. apply Hy2. right; exact Hc.
      + injection H as <- <-. exists []. split; [reflexivity|]. split; [intros p []|]. intro y. cbn [In]. tauto.
  Qed.

  Lemma step_Inv st P id d :
    Inv st P -> d = orig_of id ->
    (forall orig, d = Some orig -> ~ In id P /\ forall y, In y (remove id orig) -> orig_of y = None) ->
    Inv (step st (id, d)) (P ++ [id]).
  Proof.
    intros I Hd Hw. unfold step.
    destruct (star st) as [[sc s]|] eqn:Es.
    - destruct (mem id s) eqn:Em.
      + (* A: covered by the current star *)
        apply mem_In in Em. destruct (inv_star st P I sc s Es) as [Hsc [[orig [Ho Hs]] Hk]].
        constructor; cbn [star excluded output].
        * intro x. rewrite in_app_iff. cbn [In]. rewrite <- (inv_D st P I x). unfold D. cbn [output].
          split.
          -- intros [c [H1 H2]]. destruct (Nat.eq_dec x id) as [->|Hne]; [right; left; reflexivity|]. left.
             exists c. split; [exact H1|]. revert H2. rewrite !showsX_In. unfold X. cbn [star excluded]. rewrite Es.
             destruct (orig_of c) as [oc|]; [|tauto]. intros [H|[Ha [Hb Hc]]]; [left; exact H|]. right. repeat split; try assumption.
             destruct (Nat.eqb sc c); [|exact Hc]. intro Hin. apply Hc. apply remove_In. split; assumption.
          -- intros [[c [H1 H2]]|[<-|[]]].
             ++ exists c. split; [exact H1|]. revert H2. rewrite !showsX_In. unfold X. cbn [star excluded]. rewrite Es.
                destruct (orig_of c) as [oc|]; [|tauto]. intros [H|[Ha [Hb Hc]]]; [left; exact H|]. right. repeat split; try assumption.
                destruct (Nat.eqb sc c); [|exact Hc]. intro Hin. apply remove_In in Hin as [Hin _]. apply Hc; exact Hin.
             ++ exists sc. split; [exact Hsc|]. rewrite showsX_In, Ho. unfold X. cbn [star]. rewrite Nat.eqb_refl.
                specialize (Hs id Em). apply remove_In in Hs as [Hs1 Hs2]. right. repeat split; try assumption.
                intro Hin. apply remove_In in Hin as [_ Hin]. apply Hin; reflexivity.
        * intros sc' s' E. injection E as <- <-. split; [exact Hsc|]. split; [|exact Hk].
          exists orig. split; [exact Ho|]. intros y Hy. apply remove_In in Hy as [Hy _]. apply Hs; exact Hy.
        * intros c Hc. apply in_app_iff. left. apply (inv_keys st P I); exact Hc.
        * intros c Hc. apply in_app_iff. left. apply (inv_out st P I); exact Hc.
      + (* not covered: B or C *)
        apply mem_false in Em.
        destruct d as [orig|].
        * (* C: a new star *)
          destruct (Hw orig eq_refl) as [HnP Hsingle].
          assert (Hst : mk (Some (sc, s)) (excluded st) (output st) = st) by (destruct st; cbn in *; subst; reflexivity).
          rewrite Hst. destruct (Inv_exclude st P I) as [I1 Hnone].
          destruct (pop_included (output (exclude st)) (remove id orig)) as [out' s'] eqn:Ep.
          destruct (pop_spec _ _ _ _ Ep) as [popped [Hout [Hpop Hs']]].
          assert (Hidout : ~ In id (output (exclude st))) by (intro Hc; apply HnP; apply (inv_out _ _ I1); exact Hc).
          constructor; cbn [star excluded output].
          -- intro x. rewrite in_app_iff. cbn [In]. rewrite <- (inv_D _ _ I1 x). unfold D. cbn [output]. rewrite Hout.
             split.
             ++ intros [c [[<-|H1] H2]].
                ** revert H2. rewrite showsX_In. rewrite <- Hd. unfold X. cbn [star]. rewrite Nat.eqb_refl.
                   intros [->|[Ha [Hb Hc]]]; [right; left; reflexivity|]. left.
                   assert (In x popped) as Hxp.
                   { destruct (in_dec Nat.eq_dec x popped) as [Hi|Hn]; [exact Hi|]. exfalso. apply Hc. apply Hs'. split; [apply remove_In; split; assumption | exact Hn]. }
                   exists x. split; [apply in_app_iff; left; exact Hxp|]. rewrite showsX_In.
                   rewrite (Hsingle x (Hpop x Hxp)). reflexivity.
                ** left. exists c. split; [apply in_app_iff; right; exact H1|].
                   revert H2. rewrite !showsX_In. unfold X. cbn [star excluded]. rewrite Hnone.
                   assert (Nat.eqb id c = false) as -> by (apply Nat.eqb_neq; intro E; subst c; apply Hidout; rewrite Hout; apply in_app_iff; right; exact H1).
                   tauto.
             ++ intros [[c [H1 H2]]|[<-|[]]].
                ** apply in_app_iff in H1 as [H1|H1].
                   --- (* c popped: now shown through the new star *)
                       rewrite showsX_In in H2. rewrite (Hsingle c (Hpop c H1)) in H2. subst x.
                       exists id. split; [left; reflexivity|]. rewrite showsX_In, <- Hd. unfold X. cbn [star]. rewrite Nat.eqb_refl.
                       pose proof (Hpop c H1) as Hc. apply remove_In in Hc as [Hc1 Hc2]. right. repeat split; try assumption.
                       intro Hin. apply Hs' in Hin as [_ Hin]. apply Hin; exact H1.
                   --- exists c. split; [right; exact H1|]. revert H2. rewrite !showsX_In. unfold X. cbn [star excluded]. rewrite Hnone.
                       assert (Nat.eqb id c = false) as -> by (apply Nat.eqb_neq; intro E; subst c; apply Hidout; rewrite Hout; apply in_app_iff; right; exact H1).
                       tauto.
                ** exists id. split; [left; reflexivity|]. rewrite showsX_In, <- Hd. left; reflexivity.
          -- intros sc' s'' E. injection E as <- <-. split; [left; reflexivity|]. split.
             ++ exists orig. split; [symmetry; exact Hd|]. intros y Hy. apply Hs' in Hy as [Hy _]. exact Hy.
             ++ intro Hc. apply HnP. apply (inv_keys _ _ I1); exact Hc.
          -- intros c Hc. apply in_app_iff. left. apply (inv_keys _ _ I1); exact Hc.
          -- intros c [<-|Hc]; apply in_app_iff; [right; left; reflexivity|]. left. apply (inv_out _ _ I1). rewrite Hout. apply in_app_iff; right; exact Hc.
        * (* B: a plain column *)
          constructor; cbn [star excluded output].
          -- intro x. rewrite in_app_iff. cbn [In]. rewrite <- (inv_D st P I x). unfold D. cbn [output].
             assert (HX : forall c, X (mk (Some (sc, s)) (excluded st) (id :: output st)) c = X st c) by (intro c; unfold X; cbn [star excluded]; rewrite Es; reflexivity).
             split.
             ++ intros [c [[<-|H1] H2]].
                ** rewrite showsX_In, <- Hd in H2. subst x. right; left; reflexivity.
                ** left. exists c. split; [exact H1|]. rewrite <- HX. exact H2.
             ++ intros [[c [H1 H2]]|[<-|[]]].
                ** exists c. split; [right; exact H1|]. rewrite HX. exact H2.
                ** exists id. split; [left; reflexivity|]. rewrite showsX_In, <- Hd. reflexivity.
          -- intros sc' s' E. injection E as <- <-. destruct (inv_star st P I sc s Es) as [H1 [H2 H3]]. split; [right; exact H1|]. split; assumption.
          -- intros c Hc. apply in_app_iff. left. apply (inv_keys st P I); exact Hc.
          -- intros c [<-|Hc]; apply in_app_iff; [right; left; reflexivity | left; apply (inv_out st P I); exact Hc].
    - (* no current star *)
      destruct d as [orig|].
      + destruct (Hw orig eq_refl) as [HnP Hsingle].
        assert (Hst : mk None (excluded st) (output st) = st) by (destruct st; cbn in *; subst; reflexivity).
        rewrite Hst. destruct (Inv_exclude st P I) as [I1 Hnone].
        destruct (pop_included (output (exclude st)) (remove id orig)) as [out' s'] eqn:Ep.
        destruct (pop_spec _ _ _ _ Ep) as [popped [Hout [Hpop Hs']]].
        assert (Hidout : ~ In id (output (exclude st))) by (intro Hc; apply HnP; apply (inv_out _ _ I1); exact Hc).
        constructor; cbn [star excluded output].
        * intro x. rewrite in_app_iff. cbn [In]. rewrite <- (inv_D _ _ I1 x). unfold D. cbn [output]. rewrite Hout.
          split.
          -- intros [c [[<-|H1] H2]].
             ++ revert H2. rewrite showsX_In. rewrite <- Hd. unfold X. cbn [star]. rewrite Nat.eqb_refl.
                intros [->|[Ha [Hb Hc]]]; [right; left; reflexivity|]. left.
                assert (In x popped) as Hxp.
                { destruct (in_dec Nat.eq_dec x popped) as [Hi|Hn]; [exact Hi|]. exfalso. apply Hc. apply Hs'. split; [apply remove_In; split; assumption | exact Hn]. }
                exists x. split; [apply in_app_iff; left; exact Hxp|]. rewrite showsX_In.
                rewrite (Hsingle x (Hpop x Hxp)). reflexivity.
             ++ left. exists c. split; [apply in_app_iff; right; exact H1|].
                revert H2. rewrite !showsX_In. unfold X. cbn [star excluded]. rewrite Hnone.
                assert (Nat.eqb id c = false) as -> by (apply Nat.eqb_neq; intro E; subst c; apply Hidout; rewrite Hout; apply in_app_iff; right; exact H1).
                tauto.
          -- intros [[c [H1 H2]]|[<-|[]]].
             ++ apply in_app_iff in H1 as [H1|H1].
                ** rewrite showsX_In in H2. rewrite (Hsingle c (Hpop c H1)) in H2. subst x.
                   exists id. split; [left; reflexivity|]. rewrite showsX_In, <- Hd. unfold X. cbn [star]. rewrite Nat.eqb_refl.
                   pose proof (Hpop c H1) as Hc. apply remove_In in Hc as [Hc1 Hc2]. right. repeat split; try assumption.
                   intro Hin. apply Hs' in Hin as [_ Hin]. apply Hin; exact H1.
                ** exists c. split; [right; exact H1|]. revert H2. rewrite !showsX_In. unfold X. cbn [star excluded]. rewrite Hnone.
                   assert (Nat.eqb id c = false) as -> by (apply Nat.eqb_neq; intro E; subst c; apply Hidout; rewrite Hout; apply in_app_iff; right; exact H1).
                   tauto.
             ++ exists id. split; [left; reflexivity|]. rewrite showsX_In, <- Hd. left; reflexivity.
        * intros sc' s'' E. injection E as <- <-. split; [left; reflexivity|]. split.
          -- exists orig. split; [symmetry; exact Hd|]. intros y Hy. apply Hs' in Hy as [Hy _]. exact Hy.
          -- intro Hc. apply HnP. apply (inv_keys _ _ I1); exact Hc.
        * intros c Hc. apply in_app_iff. left. apply (inv_keys _ _ I1); exact Hc.
        * intros c [<-|Hc]; apply in_app_iff; [right; left; reflexivity|]. left. apply (inv_out _ _ I1). rewrite Hout. apply in_app_iff; right; exact Hc.
      + constructor; cbn [star excluded output].
        * intro x. rewrite in_app_iff. cbn [In]. rewrite <- (inv_D st P I x). unfold D. cbn [output].
          assert (HX : forall c, X (mk None (excluded st) (id :: output st)) c = X st c) by (intro c; unfold X; cbn [star excluded]; rewrite Es; reflexivity).
          split.
          -- intros [c [[<-|H1] H2]].
             ++ rewrite showsX_In, <- Hd in H2. subst x. right; left; reflexivity.
             ++ left. exists c. split; [exact H1|]. rewrite <- HX. exact H2.
          -- intros [[c [H1 H2]]|[<-|[]]].
             ++ exists c. split; [right; exact H1|]. rewrite HX. exact H2.
             ++ exists id. split; [left; reflexivity|]. rewrite showsX_In, <- Hd. reflexivity.
        * intros sc' s' E. discriminate.
        * intros c Hc. apply in_app_iff. left. apply (inv_keys st P I); exact Hc.
        * intros c [<-|Hc]; apply in_app_iff; [right; left; reflexivity | left; apply (inv_out st P I); exact Hc].
  Qed.

  Lemma fold_Inv cols : forall st P, Inv st P -> wf_cols P cols -> Inv (fold_left step cols st) (P ++ map fst cols).
  Proof.
    induction cols as [|[id d] r IH]; intros st P I W.
    - cbn. rewrite app_nil_r. exact I.
    - cbn [fold_left map fst]. destruct W as [Hd [Hw Wr]].
      replace (P ++ id :: map fst r) with ((P ++ [id]) ++ map fst r) by (rewrite <- app_assoc; reflexivity).
      apply IH; [|exact Wr]. apply step_Inv; assumption.
  Qed.

  Lemma Inv_w0 : Inv w0 [].
  Proof.
    constructor; cbn.
    - intro x. split; [intros [c [[] _]] | intros []].
    - intros sc s E; discriminate.
    - intros c [].
    - intros c [].
  Qed.

  (* with EXCLUDE: the select list shows exactly the requested columns *)
  Theorem translate_wildcards_exact cols : wf_cols [] cols ->
    forall x, In x (denote orig_of true (translate_wildcards cols)) <-> In x (map fst cols).
  Proof.
    intros W x. pose proof (fold_Inv cols w0 [] Inv_w0 W) as I. cbn [app] in I.
    destruct (Inv_exclude _ _ I) as [I1 Hnone].
    rewrite <- (inv_D _ _ I1 x). unfold translate_wildcards, denote, D. cbn [fst snd].
    rewrite in_flat_map. split.
    - intros [c [H1 H2]]. exists c. split; [apply in_rev; exact H1|].
      unfold shows in H2. unfold showsX, X. rewrite Hnone. exact H2.
    - intros [c [H1 H2]]. exists c. split; [apply in_rev in H1; exact H1|].
      unfold shows. unfold showsX, X in H2. rewrite Hnone in H2. exact H2.
  Qed.

  (* without EXCLUDE nothing requested is lost (but more may be shown) *)
  Theorem translate_wildcards_no_loss cols : wf_cols [] cols ->
    forall x, In x (map fst cols) -> In x (denote orig_of false (translate_wildcards cols)).
  Proof.
    intros W x Hx. apply (translate_wildcards_exact cols W) in Hx.
    unfold denote in *. rewrite in_flat_map in *. destruct Hx as [c [H1 H2]]. exists c. split; [exact H1|].
    unfold shows in *. destruct (orig_of c) as [orig|]; [|exact H2].
    destruct H2 as [H2|H2]; [left; exact H2|]. right. apply filter_In in H2 as [H2 _]. apply filter_In. split; [exact H2 | reflexivity].
  Qed.
End WP.

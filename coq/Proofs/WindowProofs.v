(* C04 -- proofs about window transforms of the reference semantics (Model/Rel.v, Model/Window.v):
   they keep the number of rows and the multiset of the non-window columns; functions that ignore the
   frame; per-group `sort | take n` is a filter on row_number. *)
From Coq Require Import List ZArith QArith NArith Bool Lia Arith Permutation.
From PV Require Import Model.Rel Model.Window Proofs.RelFacts.
Import ListNotations.
Local Open Scope Z_scope.

(* ---------------------------------------------------------------- generic list facts *)
Lemma filter_partition_perm {A} (P : A -> bool) (l : list A) :
  Permutation (filter P l ++ filter (fun x => negb (P x)) l) l.
Proof.
  induction l as [|x t IH]; [constructor|]. cbn [filter]. destruct (P x); cbn [negb app].
  - constructor. exact IH.
  - apply Permutation_sym. apply Permutation_cons_app. apply Permutation_sym. exact IH.
Qed.

Lemma flat_map_perm {A B} (f g : A -> list B) (l : list A) :
  (forall x, In x l -> Permutation (f x) (g x)) -> Permutation (flat_map f l) (flat_map g l).
Proof.
  induction l as [|x t IH]; intro H; [constructor|]. cbn [flat_map].
  apply Permutation_app; [apply H; left; reflexivity | apply IH; intros y Hy; apply H; right; exact Hy].
Qed.

Lemma map_flat_map {A B C} (f : B -> C) (g : A -> list B) (l : list A) :
  map f (flat_map g l) = flat_map (fun x => map f (g x)) l.
Proof. induction l as [|x t IH]; [reflexivity|]. cbn [flat_map]. rewrite map_app, IH. reflexivity. Qed.

Lemma flat_map_length_sum {A B} (f g : A -> list B) (l : list A) :
  (forall x, In x l -> length (f x) = length (g x)) -> length (flat_map f l) = length (flat_map g l).
Proof.
  induction l as [|x t IH]; intro H; [reflexivity|]. cbn [flat_map]. rewrite !app_length.
  rewrite (H x (or_introl eq_refl)), IH; [reflexivity | intros y Hy; apply H; right; exact Hy].
Qed.

(* ---------------------------------------------------------------- sorting and grouping permute *)
Lemma insert_perm le x l : Permutation (insert le x l) (x :: l).
Proof.
  induction l as [|y t IH]; cbn [insert]; [constructor; constructor|].
  destruct (le x y); [apply Permutation_refl|].
  eapply Permutation_trans; [apply perm_skip; exact IH | apply perm_swap].
Qed.

Lemma isort_perm le l : Permutation (isort le l) l.
Proof.
  induction l as [|x t IH]; [constructor|]. unfold isort in *. cbn [fold_right].
  eapply Permutation_trans; [apply insert_perm | constructor; exact IH].
Qed.

Lemma str_cmp_refl s :
  (fix go (s t : list N) : comparison :=
     match s, t with
     | [], [] => Datatypes.Eq | [], _ => Datatypes.Lt | _, [] => Datatypes.Gt
     | x :: s', y :: t' => match N.compare x y with Datatypes.Eq => go s' t' | c => c end
     end) s s = Datatypes.Eq.
Proof. induction s as [|x s IH]; [reflexivity|]. rewrite N.compare_refl. exact IH. Qed.

Lemma val_eqb_refl v : val_eqb v v = true.
Proof.
  destruct v as [|z|q|s]; cbn [val_eqb cmp_val to_q]; [reflexivity| | |].
  - unfold Qcompare. rewrite Z.compare_refl. reflexivity.
  - unfold Qcompare. rewrite Z.compare_refl. reflexivity.
  - rewrite str_cmp_refl. reflexivity.
Qed.

Lemma keys_eqb_refl k : keys_eqb k k = true.
Proof. induction k as [|v k IH]; [reflexivity|]. cbn [keys_eqb]. rewrite val_eqb_refl, IH. reflexivity. Qed.

Lemma filter_length_le {A} (P : A -> bool) l : (length (filter P l) <= length l)%nat.
Proof. induction l as [|x t IH]; [constructor|]. cbn [filter]. destruct (P x); cbn [length]; lia. Qed.

(* the groups are a partition of the input *)
Lemma groups_perm by_ fuel l : (length l < fuel)%nat -> Permutation (flat_map snd (groups fuel by_ l)) l.
Proof.
  revert l. induction fuel as [|f IH]; intros l H; [lia|].
  destruct l as [|r t]; [constructor|].
  cbn [groups flat_map snd].
  set (P := fun x : row => keys_eqb (key_of by_ x) (key_of by_ r)).
  eapply Permutation_trans; [| apply (filter_partition_perm P (r :: t))].
  apply Permutation_app_head. apply IH.
  cbn [filter]. unfold P at 1. rewrite keys_eqb_refl. cbn [negb].
  pose proof (filter_length_le (fun x => negb (P x)) t). cbn [length] in H. lia.
Qed.

(* ---------------------------------------------------------------- window columns are appended *)
Lemma vals_app r s : vals (r ++ s) = vals r ++ vals s.
Proof. unfold vals. apply map_app. Qed.

Lemma vals_unname (n : name) (r : row) :
  vals (map (fun c' : col => match c' with (q, Some n', v) => if N.eqb n n' then (q, None, v) else c' | _ => c' end) r) = vals r.
Proof.
  unfold vals. rewrite map_map. apply map_ext. intros [[q [n'|]] v]; [destruct (N.eqb n n')|]; reflexivity.
Qed.

Lemma shadow_vals r q nm v : vals (shadow r (q, nm, v)) = vals r ++ [v].
Proof. unfold shadow. destruct nm as [n|]; rewrite vals_app; [rewrite vals_unname|]; reflexivity. Qed.

Lemma shadow_length r c : length (shadow r c) = S (length r).
Proof. destruct c as [[q [n|]] v]; unfold shadow; rewrite app_length, ?map_length; cbn [length]; lia. Qed.

Section Appended.
  Context {F : Type} (value : F -> expr -> val).
  Let step := fun (acc : row) (c : option name * F * expr) => match c with (nm, w, e) => shadow acc (None, nm, value w e) end.

  Lemma fold_step_length cols r : length (fold_left step cols r) = (length r + length cols)%nat.
  Proof.
    revert r. induction cols as [|[[nm w] e] cols IH]; intro r; cbn [fold_left length]; [lia|].
    rewrite IH. unfold step. rewrite shadow_length. lia.
  Qed.

  Lemma fold_step_vals cols r : firstn (length r) (vals (fold_left step cols r)) = vals r.
  Proof.
    revert r. induction cols as [|[[nm w] e] cols IH]; intro r; cbn [fold_left].
    - unfold vals. rewrite <- (map_length (fun c : col => match c with (_, _, v) => v end) r). apply firstn_all.
    - specialize (IH (step r (nm, w, e))).
      assert (L : length (step r (nm, w, e)) = S (length r)) by (unfold step; apply shadow_length).
      rewrite L in IH.
      assert (E : firstn (length r) (firstn (S (length r)) (vals (fold_left step cols (step r (nm, w, e))))) = firstn (length r) (vals (step r (nm, w, e)))) by (rewrite IH; reflexivity).
      rewrite firstn_firstn in E. replace (Nat.min (length r) (S (length r))) with (length r) in E by lia.
      rewrite E. unfold step. rewrite shadow_vals.
      unfold vals at 1. rewrite <- (map_length (fun c : col => match c with (_, _, v) => v end) r).
      rewrite firstn_app, Nat.sub_diag, firstn_all. cbn [firstn]. apply app_nil_r.
  Qed.

  Lemma strip_fold_step cols r : vals (strip (length cols) (fold_left step cols r)) = vals r.
  Proof.
    unfold strip. rewrite fold_step_length. replace (length r + length cols - length cols)%nat with (length r) by lia.
    unfold vals at 1. rewrite <- firstn_map. apply fold_step_vals.
  Qed.
End Appended.

Lemma combine_seq_map {A B} (f : nat * A -> B) (g : A -> B) (l : list A) k :
  (forall i x, f (i, x) = g x) -> map f (combine (seq k (length l)) l) = map g l.
Proof.
  intro H. revert k. induction l as [|x t IH]; intro k; [reflexivity|]. cbn [length seq combine map]. rewrite H, IH. reflexivity.
Qed.

(* the rows of a windowed partition, without their window columns, are the rows of the partition (sorted) *)
Lemma win_colsx_strip fr keys cols p :
  map (fun r => vals (strip (length cols) r)) (win_colsx fr keys cols p) =
  map vals (match keys with [] => p | _ => isort (keys_le keys) p end).
Proof.
  unfold win_colsx. set (ps := match keys with [] => p | _ => isort (keys_le keys) p end).
  rewrite map_map.
  (* the window value depends on the index; the stripped row does not *)
  assert (G : forall k, map (fun ir : nat * row => vals (strip (length cols)
                 (fold_left (fun acc c => match c with (nm, w, e) => shadow acc (None, nm, win_applyx fr w keys e ps (fst ir)) end) cols (snd ir))))
               (combine (seq k (length ps)) ps) = map vals ps).
  { generalize ps at 2 3 4 as l. intro l. induction l as [|x t IH]; intro k; [reflexivity|].
    cbn [length seq combine map fst snd]. rewrite IH. f_equal.
    apply (strip_fold_step (fun w e => win_applyx fr w keys e ps k)). }
  apply G.
Qed.

Lemma win_colsx_perm fr keys cols p :
  Permutation (map (fun r => vals (strip (length cols) r)) (win_colsx fr keys cols p)) (map vals p).
Proof.
  rewrite win_colsx_strip. apply Permutation_map. destruct keys; [apply Permutation_refl | apply isort_perm].
Qed.

Lemma win_colsx_length fr keys cols p : length (win_colsx fr keys cols p) = length p.
Proof.
  unfold win_colsx. rewrite map_length, combine_length, seq_length.
  destruct keys; [apply Nat.min_id | rewrite isort_length; apply Nat.min_id].
Qed.

(* ---------------------------------------------------------------- window_preserves_rows *)
Lemma xwin_preserves_rows fr keys cols l :
  length (applyx (XWinF fr keys cols) l) = length l /\
  Permutation (map (fun r => vals (strip (length cols) r)) (applyx (XWinF fr keys cols) l)) (map vals l).
Proof. cbn [applyx]. split; [apply win_colsx_length | apply win_colsx_perm]. Qed.

Lemma xgroupwin_length by_ fr keys cols l : length (applyx (XGroupWinF by_ fr keys cols) l) = length l.
Proof.
  cbn [applyx].
  rewrite (flat_map_length_sum _ (fun g : list val * rel => snd g)).
  - apply Permutation_length. apply groups_perm. lia.
  - intros g _. rewrite map_length. apply win_colsx_length.
Qed.

(* group {by} (...) moves the key columns to the front of each row (by_first).  A window column whose name
   is not a group key is untouched by that: it stays appended at the end. *)
Definition not_key (by_ : list name) (nm : option name) : Prop := match nm with Some n => ~ In n by_ | None => True end.

Lemma existsb_eqb_false n by_ : ~ In n by_ -> existsb (N.eqb n) by_ = false.
Proof.
  intro H. destruct (existsb (N.eqb n) by_) eqn:E; [|reflexivity].
  apply existsb_exists in E as [x [Hx E]]. apply N.eqb_eq in E. subst. contradiction.
Qed.

Definition unname (n : name) (c' : col) : col := match c' with (q, Some n', v) => if N.eqb n n' then (q, None, v) else c' | _ => c' end.

Lemma filter_unname (P : col -> bool) n r :
  (forall c, P (unname n c) = P c) -> filter P (map (unname n) r) = map (unname n) (filter P r).
Proof.
  intro H. induction r as [|c t IH]; [reflexivity|]. cbn [map filter]. rewrite H. destruct (P c); cbn [map]; rewrite IH; reflexivity.
Qed.

Lemma is_by_unname by_ n c : ~ In n by_ -> is_by by_ (unname n c) = is_by by_ c.
Proof.
  intro H. destruct c as [[q [n'|]] v]; cbn [unname]; [|reflexivity].
  destruct (N.eqb n n') eqn:E; [|reflexivity]. apply N.eqb_eq in E. subst n'. cbn [is_by]. symmetry. apply existsb_eqb_false. exact H.
Qed.

Lemma named_unname b n c : n <> b ->
  (match unname n c with (_, Some m, _) => N.eqb m b | _ => false end) = (match c with (_, Some m, _) => N.eqb m b | _ => false end).
Proof.
  intro H. destruct c as [[q [n'|]] v]; cbn [unname]; [|reflexivity].
  destruct (N.eqb n n') eqn:E; [|reflexivity]. apply N.eqb_eq in E. subst n'. symmetry. apply N.eqb_neq. exact H.
Qed.

Lemma vals_by_first_shadow by_ r q nm v : not_key by_ nm ->
  vals (by_first by_ (shadow r (q, nm, v))) = vals (by_first by_ r) ++ [v].
Proof.
  intro H. unfold by_first. rewrite !vals_app.
  destruct nm as [n|]; cbn [not_key] in H; unfold shadow.
  - fold (unname n). rewrite filter_app, (filter_unname _ n r) by (intro c; rewrite (is_by_unname by_ n c H); reflexivity).
    cbn [filter is_by]. rewrite (existsb_eqb_false n by_ H). cbn [negb]. rewrite vals_app.
    replace (vals (map (unname n) (filter (fun c : col => negb (is_by by_ c)) r))) with (vals (filter (fun c : col => negb (is_by by_ c)) r)) by (symmetry; apply vals_unname).
    rewrite app_assoc. f_equal. f_equal.
    (* the key columns picked first are the same *)
    assert (G : forall bs, (forall b, In b bs -> In b by_) ->
      vals (flat_map (fun b => match rev (filter (fun c : col => match c with (_, Some m, _) => N.eqb m b | _ => false end) (map (unname n) r ++ [(q, Some n, v)])) with c :: _ => [c] | [] => [] end) bs) =
      vals (flat_map (fun b => match rev (filter (fun c : col => match c with (_, Some m, _) => N.eqb m b | _ => false end) r) with c :: _ => [c] | [] => [] end) bs)).
    { induction bs as [|b bs IHb]; intro Hin; [reflexivity|]. cbn [flat_map]. rewrite !vals_app. f_equal; [| apply IHb; intros; apply Hin; right; assumption].
      assert (Hnb : n <> b) by (intro E; subst; apply H; apply Hin; left; reflexivity).
      rewrite filter_app. cbn [filter]. assert (E : N.eqb n b = false) by (apply N.eqb_neq; exact Hnb). rewrite E, app_nil_r.
      rewrite (filter_unname _ n r) by (intro c; apply named_unname; exact Hnb).
      rewrite <- map_rev. destruct (rev (filter (fun c : col => match c with (_, Some m, _) => N.eqb m b | _ => false end) r)) as [|c0 rest]; [reflexivity|].
      cbn [map]. unfold vals. cbn [map]. destruct c0 as [[q0 [n0|]] v0]; cbn [unname]; [destruct (N.eqb n n0)|]; reflexivity. }
    apply G. auto.
  - rewrite filter_app. cbn [filter is_by negb]. rewrite vals_app, app_assoc. f_equal. f_equal.
    assert (G : forall bs,
      vals (flat_map (fun b => match rev (filter (fun c : col => match c with (_, Some m, _) => N.eqb m b | _ => false end) (r ++ [(q, None, v)])) with c :: _ => [c] | [] => [] end) bs) =
      vals (flat_map (fun b => match rev (filter (fun c : col => match c with (_, Some m, _) => N.eqb m b | _ => false end) r) with c :: _ => [c] | [] => [] end) bs)).
    { induction bs as [|b bs IHb]; [reflexivity|]. cbn [flat_map]. rewrite !vals_app, IHb. f_equal. rewrite filter_app. cbn [filter]. rewrite app_nil_r. reflexivity. }
    apply G.
Qed.

Lemma by_first_shadow_length by_ r q nm v : not_key by_ nm ->
  length (by_first by_ (shadow r (q, nm, v))) = S (length (by_first by_ r)).
Proof.
  intro H. pose proof (vals_by_first_shadow by_ r q nm v H) as E.
  apply (f_equal (@length val)) in E. unfold vals in E. rewrite app_length, !map_length in E. cbn [length] in E. lia.
Qed.

Section AppendedGrouped.
  Context {F : Type} (value : F -> expr -> val) (by_ : list name).
  Let step := fun (acc : row) (c : option name * F * expr) => match c with (nm, w, e) => shadow acc (None, nm, value w e) end.
  Definition cols_not_keys (cols : list (option name * F * expr)) : Prop := forall nm w e, In (nm, w, e) cols -> not_key by_ nm.

  Lemma step_by_first_length r nm w e : not_key by_ nm -> length (by_first by_ (step r (nm, w, e))) = S (length (by_first by_ r)).
  Proof. intro H. unfold step. apply by_first_shadow_length. exact H. Qed.

  Lemma step_by_first_vals r nm w e : not_key by_ nm -> vals (by_first by_ (step r (nm, w, e))) = vals (by_first by_ r) ++ [value w e].
  Proof. intro H. unfold step. apply vals_by_first_shadow. exact H. Qed.

  Lemma by_first_fold_vals cols r : cols_not_keys cols ->
    length (by_first by_ (fold_left step cols r)) = (length (by_first by_ r) + length cols)%nat /\
    firstn (length (by_first by_ r)) (vals (by_first by_ (fold_left step cols r))) = vals (by_first by_ r).
  Proof.
    revert r. induction cols as [|[[nm w] e] cols IH]; intros r H; cbn [fold_left length].
    - split; [lia|]. unfold vals. rewrite <- (map_length (fun c : col => match c with (_, _, v) => v end) (by_first by_ r)). apply firstn_all.
    - assert (Hk : not_key by_ nm) by (apply (H nm w e); left; reflexivity).
      assert (H' : cols_not_keys cols) by (intros a b c Hi; apply (H a b c); right; exact Hi).
      destruct (IH (step r (nm, w, e)) H') as [L V].
      rewrite (step_by_first_length r nm w e Hk) in L, V.
      split; [lia|].
      set (big := vals (by_first by_ (fold_left step cols (step r (nm, w, e))))) in *.
      set (m := length (by_first by_ r)) in *.
      assert (E : firstn m (firstn (S m) big) = firstn m (vals (by_first by_ (step r (nm, w, e))))) by (rewrite V; reflexivity).
      rewrite firstn_firstn in E. replace (Nat.min m (S m)) with m in E by lia.
      rewrite E, (step_by_first_vals r nm w e Hk).
      subst m. unfold vals at 1. rewrite <- (map_length (fun c : col => match c with (_, _, v) => v end) (by_first by_ r)).
      rewrite firstn_app, Nat.sub_diag, firstn_all. cbn [firstn]. apply app_nil_r.
  Qed.

  Lemma strip_by_first_fold cols r : cols_not_keys cols ->
    vals (strip (length cols) (by_first by_ (fold_left step cols r))) = vals (by_first by_ r).
  Proof.
    intro H. destruct (by_first_fold_vals cols r H) as [L V]. unfold strip. rewrite L.
    replace (length (by_first by_ r) + length cols - length cols)%nat with (length (by_first by_ r)) by lia.
    unfold vals at 1. rewrite <- firstn_map. exact V.
  Qed.
End AppendedGrouped.

Lemma xgroupwin_perm by_ fr keys cols l :
  cols_not_keys by_ cols ->
  Permutation (map (fun r => vals (strip (length cols) r)) (applyx (XGroupWinF by_ fr keys cols) l))
              (map (fun r => vals (by_first by_ r)) l).
Proof.
  intro H. cbn [applyx]. rewrite map_flat_map.
  eapply Permutation_trans.
  - apply (flat_map_perm _ (fun g : list val * rel => map (fun r => vals (by_first by_ r)) (snd g))).
    intros g _. rewrite map_map. unfold win_colsx.
    set (ps := match keys with [] => snd g | _ => isort (keys_le keys) (snd g) end).
    rewrite map_map.
    assert (G : forall k l0, map (fun ir : nat * row => vals (strip (length cols) (by_first by_
                   (fold_left (fun acc c => match c with (nm, w, e) => shadow acc (None, nm, win_applyx fr w keys e ps (fst ir)) end) cols (snd ir)))))
                 (combine (seq k (length l0)) l0) = map (fun r => vals (by_first by_ r)) l0).
    { intros k l0. revert k. induction l0 as [|x t IH]; intro k; [reflexivity|].
      cbn [length seq combine map fst snd]. rewrite IH. f_equal.
      apply (strip_by_first_fold (fun w e => win_applyx fr w keys e ps k) by_ cols x H). }
    rewrite G. apply Permutation_map. subst ps. destruct keys; [apply Permutation_refl | apply isort_perm].
  - rewrite <- map_flat_map. apply Permutation_map. apply groups_perm. lia.
Qed.

(* the same for the transforms of Rel.v proper *)
Lemma group_win_lengths by_ fr keys cols l :
  length (apply (TGroupWin by_ keys cols) l) = length l /\ length (apply (TGroupWinF by_ fr keys cols) l) = length l.
Proof.
  cbn [apply]. split.
  - rewrite (flat_map_length_sum _ (fun g : list val * rel => snd g)).
    + apply Permutation_length. apply groups_perm. lia.
    + intros g _. rewrite map_length. unfold win_cols. rewrite map_length, combine_length, seq_length.
      destruct keys; [apply Nat.min_id | rewrite isort_length; apply Nat.min_id].
  - rewrite (flat_map_length_sum _ (fun g : list val * rel => snd g)).
    + apply Permutation_length. apply groups_perm. lia.
    + intros g _. rewrite map_length. unfold win_colsf. rewrite map_length, combine_length, seq_length.
      destruct keys; [apply Nat.min_id | rewrite isort_length; apply Nat.min_id].
Qed.

(* embedding: Rel.v's own window transforms are the WB instances of the extended ones *)
Definition lift_cols (cols : list (option name * wfn * expr)) : list (option name * wfnx * expr) :=
  map (fun c => match c with (nm, w, e) => (nm, WB w, e) end) cols.

Lemma fold_lift {A} (f : A -> option name * wfnx * expr -> A) (g : A -> option name * wfn * expr -> A) cols a :
  (forall a nm w e, f a (nm, WB w, e) = g a (nm, w, e)) -> fold_left f (lift_cols cols) a = fold_left g cols a.
Proof.
  intro H. revert a. induction cols as [|[[nm w] e] cols IH]; intro a; [reflexivity|]. cbn [lift_cols map fold_left]. rewrite H. apply IH.
Qed.

Lemma win_colsx_lift fr keys cols p : win_colsx fr keys (lift_cols cols) p = win_colsf fr keys cols p.
Proof.
  unfold win_colsx, win_colsf. apply map_ext. intros [i r]. apply fold_lift. reflexivity.
Qed.

Lemma xwin_embeds fr keys cols l : applyx (XWinF fr keys (lift_cols cols)) l = apply (TWinF fr keys cols) l.
Proof. cbn [applyx apply]. apply win_colsx_lift. Qed.

Lemma xgroupwin_embeds by_ fr keys cols l : applyx (XGroupWinF by_ fr keys (lift_cols cols)) l = apply (TGroupWinF by_ fr keys cols) l.
Proof. cbn [applyx apply]. apply flat_map_ext. intro g. rewrite win_colsx_lift. reflexivity. Qed.

(* no frame = the whole partition: TWin is TWinF FNone *)
Lemma nth_seq_all {A} (l : list A) d : map (fun j => nth j l d) (seq 0 (length l)) = l.
Proof.
  induction l as [|x t IH] using rev_ind; [reflexivity|].
  rewrite app_length. cbn [length]. rewrite Nat.add_1_r, seq_S, map_app. cbn [map Nat.add].
  rewrite app_nth2, Nat.sub_diag by lia. cbn [nth]. f_equal.
  rewrite <- IH at 2. apply map_ext_in. intros j Hj. apply in_seq in Hj. apply app_nth1. lia.
Qed.

Lemma win_applyf_none w keys e p i : win_applyf FNone w keys e p i = win_apply w keys e p i.
Proof.
  unfold win_applyf, win_apply. cbn [seg].
  rewrite <- (map_length (fun r => ev r e) p). rewrite nth_seq_all. reflexivity.
Qed.

Lemma fold_left_ext_all {A B} (f g : A -> B -> A) l a : (forall a x, f a x = g a x) -> fold_left f l a = fold_left g l a.
Proof. intro H. revert a. induction l as [|x t IH]; intro a; [reflexivity|]. cbn [fold_left]. rewrite H. apply IH. Qed.

Lemma twin_is_twinf_none keys cols l : apply (TWinF FNone keys cols) l = apply (TWin keys cols) l.
Proof.
  cbn [apply]. unfold win_colsf, win_cols. apply map_ext. intros [i r].
  apply fold_left_ext_all. intros a [[nm w] e]. rewrite win_applyf_none. reflexivity.
Qed.

Lemma tgroupwin_is_tgroupwinf_none by_ keys cols l : apply (TGroupWinF by_ FNone keys cols) l = apply (TGroupWin by_ keys cols) l.
Proof.
  cbn [apply]. apply flat_map_ext. intro g. f_equal.
  unfold win_colsf, win_cols. apply map_ext. intros [i r].
  apply fold_left_ext_all. intros a [[nm w] e]. rewrite win_applyf_none. reflexivity.
Qed.

Lemma lift_cols_length cols : length (lift_cols cols) = length cols.
Proof. apply map_length. Qed.

Lemma lift_cols_not_keys by_ cols :
  (forall nm w e, In (nm, w, e) cols -> not_key by_ nm) -> cols_not_keys by_ (lift_cols cols).
Proof.
  intros H nm w e Hin. unfold lift_cols in Hin. apply in_map_iff in Hin as [[[nm' w'] e'] [E Hin]].
  injection E as -> _ _. apply (H nm w' e'). exact Hin.
Qed.

(* window_preserves_rows over the four window transforms of Rel.v *)
Lemma twinf_preserves_rows fr keys cols l :
  length (apply (TWinF fr keys cols) l) = length l /\
  Permutation (map (fun r => vals (strip (length cols) r)) (apply (TWinF fr keys cols) l)) (map vals l).
Proof. rewrite <- xwin_embeds, <- (lift_cols_length cols). apply xwin_preserves_rows. Qed.

Lemma twin_preserves_rows keys cols l :
  length (apply (TWin keys cols) l) = length l /\
  Permutation (map (fun r => vals (strip (length cols) r)) (apply (TWin keys cols) l)) (map vals l).
Proof. rewrite <- twin_is_twinf_none. apply twinf_preserves_rows. Qed.

Lemma tgroupwinf_preserves_rows by_ fr keys cols l :
  (forall nm w e, In (nm, w, e) cols -> not_key by_ nm) ->
  length (apply (TGroupWinF by_ fr keys cols) l) = length l /\
  Permutation (map (fun r => vals (strip (length cols) r)) (apply (TGroupWinF by_ fr keys cols) l)) (map (fun r => vals (by_first by_ r)) l).
Proof.
  intro H. rewrite <- xgroupwin_embeds, <- (lift_cols_length cols). split.
  - apply xgroupwin_length.
  - apply xgroupwin_perm. apply lift_cols_not_keys. exact H.
Qed.

Lemma tgroupwin_preserves_rows by_ keys cols l :
  (forall nm w e, In (nm, w, e) cols -> not_key by_ nm) ->
  length (apply (TGroupWin by_ keys cols) l) = length l /\
  Permutation (map (fun r => vals (strip (length cols) r)) (apply (TGroupWin by_ keys cols) l)) (map (fun r => vals (by_first by_ r)) l).
Proof. intro H. rewrite <- tgroupwin_is_tgroupwinf_none. apply tgroupwinf_preserves_rows. exact H. Qed.

(* ---------------------------------------------------------------- functions that ignore the frame *)
Definition frame_insensitive_fn (w : wfnx) : bool :=
  match w with
  | WRankDense | WB WRowNumber | WB WRank | WB (WLag _) | WB (WLead _) => true
  | _ => false
  end.

Lemma frame_insensitive fr fr' w keys e p i : frame_insensitive_fn w = true -> win_applyx fr w keys e p i = win_applyx fr' w keys e p i.
Proof. destruct w as [[| |k|k| | |a]|]; cbn [frame_insensitive_fn]; intro H; try discriminate; reflexivity. Qed.

(* ---------------------------------------------------------------- take inside a group = filter on row_number *)
Lemma take_by_row_number_gen (l : rel) : forall (k : nat) (n : Z),
  map snd (filter (fun ir : nat * row => Z.of_nat (S (fst ir)) <=? Z.of_nat k + n) (combine (seq k (length l)) l)) = firstn (Z.to_nat n) l.
Proof.
  induction l as [|x t IH]; intros k n; cbn [length seq combine filter map]; [rewrite firstn_nil; reflexivity|].
  cbn [fst]. destruct (Z.of_nat (S k) <=? Z.of_nat k + n) eqn:E.
  - apply Z.leb_le in E. cbn [map snd].
    replace (Z.to_nat n) with (S (Z.to_nat (n - 1))) by lia. cbn [firstn]. f_equal.
    rewrite (filter_ext _ (fun ir : nat * row => Z.of_nat (S (fst ir)) <=? Z.of_nat (S k) + (n - 1))) by (intros [i r]; cbn [fst]; f_equal; lia).
    apply IH.
  - apply Z.leb_gt in E. replace (Z.to_nat n) with O by lia. cbn [firstn].
    rewrite (filter_ext _ (fun ir : nat * row => Z.of_nat (S (fst ir)) <=? Z.of_nat (S k) + (n - 1))) by (intros [i r]; cbn [fst]; f_equal; lia).
    rewrite IH. replace (Z.to_nat (n - 1)) with O by lia. reflexivity.
Qed.

Lemma take_is_row_number_filter n (ps : rel) : take_range None (Some n) ps = take_by_row_number n ps.
Proof.
  unfold take_range, take_by_row_number, number_rows. cbn [skipn]. rewrite Z.sub_0_r.
  rewrite <- (take_by_row_number_gen ps 0 n). reflexivity.
Qed.

(* the number the filter tests is the value of row_number at that row *)
Lemma row_number_value fr keys e p i : win_applyx fr (WB WRowNumber) keys e p i = VInt (Z.of_nat (S i)).
Proof. reflexivity. Qed.

Lemma take_in_group_is_row_number by_ keys n l :
  apply (TGroupTake by_ keys None (Some n)) l =
  flat_map (fun g => map (by_first by_) (take_by_row_number n (match keys with [] => snd g | _ => isort (keys_le keys) (snd g) end)))
           (groups (S (length l)) by_ l).
Proof. cbn [apply]. apply flat_map_ext. intro g. rewrite take_is_row_number_filter. reflexivity. Qed.

(* ---------------------------------------------------------------- range frames read the generalised way (XWinR / XGroupWinR) *)
Lemma win_colsr_length a b keys cols p : length (win_colsr a b keys cols p) = length p.
Proof.
  unfold win_colsr. rewrite map_length, combine_length, seq_length.
  destruct keys; [apply Nat.min_id | rewrite isort_length; apply Nat.min_id].
Qed.

Lemma win_colsr_strip a b keys cols p :
  map (fun r => vals (strip (length cols) r)) (win_colsr a b keys cols p) =
  map vals (match keys with [] => p | _ => isort (keys_le keys) p end).
Proof.
  unfold win_colsr. set (ps := match keys with [] => p | _ => isort (keys_le keys) p end).
  rewrite map_map.
  assert (G : forall k, map (fun ir : nat * row => vals (strip (length cols)
                 (fold_left (fun acc c => match c with (nm, w, e) => shadow acc (None, nm, win_applyxr a b w keys e ps (fst ir)) end) cols (snd ir))))
               (combine (seq k (length ps)) ps) = map vals ps).
  { generalize ps at 2 3 4 as l. intro l. induction l as [|x t IH]; intro k; [reflexivity|].
    cbn [length seq combine map fst snd]. rewrite IH. f_equal.
    apply (strip_fold_step (fun w e => win_applyxr a b w keys e ps k)). }
  apply G.
Qed.

Lemma xwinr_preserves_rows a b keys cols l :
  length (applyx (XWinR a b keys cols) l) = length l /\
  Permutation (map (fun r => vals (strip (length cols) r)) (applyx (XWinR a b keys cols) l)) (map vals l).
Proof.
  cbn [applyx]. split; [apply win_colsr_length|].
  rewrite win_colsr_strip. apply Permutation_map. destruct keys; [apply Permutation_refl | apply isort_perm].
Qed.

Lemma xgroupwinr_length by_ a b keys cols l : length (applyx (XGroupWinR by_ a b keys cols) l) = length l.
Proof.
  cbn [applyx].
  rewrite (flat_map_length_sum _ (fun g : list val * rel => snd g)).
  - apply Permutation_length. apply groups_perm. lia.
  - intros g _. rewrite map_length. apply win_colsr_length.
Qed.

Lemma xgroupwinr_perm by_ a b keys cols l :
  cols_not_keys by_ cols ->
  Permutation (map (fun r => vals (strip (length cols) r)) (applyx (XGroupWinR by_ a b keys cols) l))
              (map (fun r => vals (by_first by_ r)) l).
Proof.
  intro H. cbn [applyx]. rewrite map_flat_map.
  eapply Permutation_trans.
  - apply (flat_map_perm _ (fun g : list val * rel => map (fun r => vals (by_first by_ r)) (snd g))).
    intros g _. rewrite map_map. unfold win_colsr.
    set (ps := match keys with [] => snd g | _ => isort (keys_le keys) (snd g) end).
    rewrite map_map.
    assert (G : forall k l0, map (fun ir : nat * row => vals (strip (length cols) (by_first by_
                   (fold_left (fun acc c => match c with (nm, w, e) => shadow acc (None, nm, win_applyxr a b w keys e ps (fst ir)) end) cols (snd ir)))))
                 (combine (seq k (length l0)) l0) = map (fun r => vals (by_first by_ r)) l0).
    { intros k l0. revert k. induction l0 as [|x t IH]; intro k; [reflexivity|].
      cbn [length seq combine map fst snd]. rewrite IH. f_equal.
      apply (strip_by_first_fold (fun w e => win_applyxr a b w keys e ps k) by_ cols x H). }
    rewrite G. apply Permutation_map. subst ps. destruct keys; [apply Permutation_refl | apply isort_perm].
  - rewrite <- map_flat_map. apply Permutation_map. apply groups_perm. lia.
Qed.

(* where the segments agree, so do the values: on Rel.v's domain XWinR is XWinF (FRange ..) *)
Lemma win_applyfx_agrees fr w keys e p i : segx fr keys p i = seg fr keys p i -> win_applyfx fr w keys e p i = win_applyf fr w keys e p i.
Proof. intro H. unfold win_applyfx, win_applyf. rewrite H. destruct w as [| |k|k| | |[]]; reflexivity. Qed.

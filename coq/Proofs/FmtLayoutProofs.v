(* C12: the number of invocations of <pr::Expr as WriteSource>::write that Model/FmtLayout.v counts is polynomial in
   the size of the expression: at most size^1 once both single_line and no_line_break are set (a single pass), one
   power more for each of the two flags that is still clear -- size^3 at the top. *)
From Coq Require Import List ZArith NArith Bool Arith Lia.
From PV Require Import Lib.ListX Model.Checked Model.WidthArith Model.FmtLayout.
Import ListNotations.

(* ---- arithmetic ---- *)
Lemma pow_ge_1 a k : 1 <= a -> 1 <= a ^ k.
Proof. intro H. induction k as [|k IH]; cbn; nia. Qed.

Lemma pow_mono_exp a j k : 1 <= a -> j <= k -> a ^ j <= a ^ k.
Proof. intros H L. apply Nat.pow_le_mono_r; lia. Qed.

Lemma pow_sum a b k : 1 <= k -> a ^ k + b ^ k <= (a + b) ^ k.
Proof.
  intro H. destruct k as [|k]; [lia|]. clear H. induction k as [|k IH]; [cbn; lia|].
  replace ((a + b) ^ S (S k)) with ((a + b) * (a + b) ^ S k) by reflexivity.
  replace (a ^ S (S k)) with (a * a ^ S k) by reflexivity. replace (b ^ S (S k)) with (b * b ^ S k) by reflexivity.
  assert (a ^ S k <= (a + b) ^ S k) by (apply Nat.pow_le_mono_l; lia).
  assert (b ^ S k <= (a + b) ^ S k) by (apply Nat.pow_le_mono_l; lia). nia.
Qed.

Lemma one_plus_pow x k : 1 <= k -> 1 + x ^ k <= (1 + x) ^ k.
Proof. intro H. pose proof (pow_sum 1 x k H). rewrite Nat.pow_1_l in H0. exact H0. Qed.

Lemma one_plus_two_pows x j : 1 <= j -> 1 + x ^ j + x ^ S j <= (1 + x) ^ S j.
Proof.
  intro H. replace ((1 + x) ^ S j) with ((1 + x) * (1 + x) ^ j) by reflexivity.
  pose proof (one_plus_pow x j H). replace (x ^ S j) with (x * x ^ j) by reflexivity. nia.
Qed.

(* ---- counts of the combinators ---- *)
Lemma bind_snd {A B} (x : res A) (f : A -> res B) m :
  (forall a, snd (f a) <= m) -> snd (bind x f) <= snd x + m.
Proof.
  intro H. destruct x as [[a|] c]; cbn [bind snd]; [|lia]. specialize (H a). destruct (f a) as [r c']. cbn [snd] in *. lia.
Qed.

Lemma bind_ofopt_snd {A B} (x : option A) (f : A -> res B) m :
  (forall a, x = Some a -> snd (f a) <= m) -> snd (bind (ofopt x) f) <= m.
Proof.
  intro H. destruct x as [a|]; cbn [bind ofopt snd]; [|lia]. specialize (H a eq_refl). destruct (f a) as [r c']. cbn [snd] in *. lia.
Qed.

(* the exponent: 1 + the number of the two flags that are still clear *)
Definition ex (o : lopt) : nat := 1 + (if sl o then 0 else 1) + (if nlb o then 0 else 1).

Lemma consume_flags o s o' : consume o s = Some o' -> sl o' = sl o /\ nlb o' = nlb o.
Proof. unfold consume. destruct (consume_width (lw o) _); cbn; [|discriminate]. intro H. injection H as <-. auto. Qed.
Lemma consume_len_flags o n o' : consume_len o n = Some o' -> sl o' = sl o /\ nlb o' = nlb o.
Proof. unfold consume_len. destruct (consume_width (lw o) _); cbn; [|discriminate]. intro H. injection H as <-. auto. Qed.
Lemma reset_flags o o' : reset o = Some o' -> sl o' = sl o /\ nlb o' = nlb o.
Proof. unfold reset. destruct (reset_line (lw o)) as [[w|]| |]; try discriminate. intro H. injection H as <-. auto. Qed.

Lemma ex_flags o o' : sl o' = sl o -> nlb o' = nlb o -> ex o' = ex o.
Proof. unfold ex. intros -> ->. reflexivity. Qed.

(* write_between: the count is the inner writer's, which sees the same flags *)
Lemma between_snd pre suf o inner m :
  (forall o', sl o' = sl o -> nlb o' = nlb o -> snd (inner o') <= m) -> snd (between pre suf o inner) <= m.
Proof.
  intro H. unfold between. apply bind_ofopt_snd. intros o1 E1. apply consume_flags in E1 as [S1 N1].
  eapply Nat.le_trans; [apply bind_snd with (m := 0)|].
  - intro s. apply bind_ofopt_snd. intros o3 _. apply bind_ofopt_snd. intros ? _. cbn. lia.
  - rewrite Nat.add_0_r. apply H; cbn; assumption.
Qed.

Fixpoint sumpw (cs : nodes) (k : nat) : nat :=
  match cs with NNil => 0 | NCons c t => size c ^ k + sumpw t k end.

Lemma size_pos e : 1 <= size e.
Proof. destruct e; cbn; lia. Qed.

Lemma sumpw_le cs k : 1 <= k -> sumpw cs k <= sizes cs ^ k.
Proof.
  intro H. induction cs as [|c t IH]; cbn [sumpw sizes].
  - destruct k; [lia|]. cbn. lia.
  - eapply Nat.le_trans; [|apply pow_sum; exact H]. lia.
Qed.

Lemma sumpw_mono cs j k : j <= k -> sumpw cs j <= sumpw cs k.
Proof.
  intro H. induction cs as [|c t IH]; cbn [sumpw]; [lia|].
  pose proof (pow_mono_exp (size c) j k (size_pos c) H). lia.
Qed.

Scheme node_mut := Induction for node Sort Prop
  with nodes_mut := Induction for nodes Sort Prop.
Combined Scheme node_nodes_ind from node_mut, nodes_mut.

Definition P (e : node) : Prop := forall o, snd (we e o) <= size e ^ ex o.
Definition Q (cs : nodes) : Prop :=
  (forall o acc, snd (winl cs o acc) <= sumpw cs (ex o)) /\ (forall o, snd (wlines cs o) <= sumpw cs (ex o)).

(* the parenthesis protocol around a kind writer whose count is bounded by W k at exponent k *)
Lemma protocol_snd (e : node) (o : lopt) (wk : lopt -> res text) (W : nat -> nat) :
  (forall o', sl o' = sl o -> snd (wk o') <= W (ex o')) ->
  (forall j k, j <= k -> W j <= W k) ->
  snd (protocol e o wk)
  <= 1 + (if nlb o then W (ex o) else W (ex o - 1) + W (ex o)).
Proof.
  intros HW Hm. unfold protocol. destruct (needs_paren e o).
  - set (oi := LOpt (lw o) (ctx o) (pos o) (sl o) true).
    assert (Hi : snd (between t_lparen t_rparen oi wk) <= W (ex oi)).
    { apply between_snd. intros o' S1 N1. pose proof (HW o' S1) as H0. rewrite (ex_flags oi o' S1 N1) in H0. exact H0. }
    assert (Ei : ex oi = if nlb o then ex o else ex o - 1).
    { unfold ex, oi. cbn [sl nlb]. destruct (sl o), (nlb o); reflexivity. }
    destruct (between t_lparen t_rparen oi wk) as [[s|] c] eqn:Eb; cbn [snd] in Hi.
    + cbn [tick snd]. rewrite Ei in Hi. destruct (nlb o); cbv iota in *; lia.
    + destruct (nlb o) eqn:En.
      * cbn [tick snd]. rewrite Ei in Hi. cbv iota in *. lia.
      * assert (Hb : snd (bind (ofopt (reset (with_w o (indent_in (lw o))))) (fun o2 => wk o2)) <= W (ex o)).
        { apply bind_ofopt_snd. intros o2 E2. apply reset_flags in E2 as [S2 N2]. cbn [with_w sl nlb] in S2, N2.
          pose proof (HW o2 S2) as H0. rewrite (ex_flags o o2 S2 N2) in H0. exact H0. }
        cbv zeta. destruct (bind (ofopt (reset (with_w o (indent_in (lw o))))) (fun o2 => wk o2)) as [[s'|] c'];
          cbn [tick snd] in *; rewrite Ei in Hi; cbv iota in *; lia.
  - specialize (HW o eq_refl). destruct (wk o) as [r c]. cbn [tick snd] in *.
    destruct (nlb o); [lia|]. pose proof (Hm (ex o - 1) (ex o)). lia.
Qed.

Lemma ex_range o : 1 <= ex o <= 3.
Proof. unfold ex. destruct (sl o), (nlb o); lia. Qed.

(* Binary arm: the two operands are written with the flags of the node *)
Lemma wk_bin_snd wl wr o a b :
  (forall o', sl o' = sl o -> nlb o' = nlb o -> snd (wl o') <= a) ->
  (forall o', sl o' = sl o -> nlb o' = nlb o -> snd (wr o') <= b) ->
  snd (wk_bin wl wr o) <= a + b.
Proof.
  intros Hl Hr. unfold wk_bin. eapply Nat.le_trans; [apply bind_snd with (m := b)|].
  - intro left. apply bind_ofopt_snd. intros o1 E1. apply consume_flags in E1 as [S1 N1].
    apply bind_ofopt_snd. intros o2 E2. apply consume_flags in E2 as [S2 N2].
    apply bind_ofopt_snd. intros o3 E3. apply consume_flags in E3 as [S3 N3].
    apply bind_ofopt_snd. intros o4 E4. apply consume_flags in E4 as [S4 N4].
    eapply Nat.le_trans; [apply bind_snd with (m := 0); intro; cbn; lia|]. rewrite Nat.add_0_r.
    apply Hr; cbn [sl nlb]; congruence.
  - apply Nat.add_le_mono_r. apply Hl; reflexivity.
Qed.

(* Tuple arm: one inline attempt with single_line set, then -- unless single_line -- one item per line *)
Lemma wk_tup_snd inl lines o (Winl Wlines : nat -> nat) :
  (forall o' acc, snd (inl o' acc) <= Winl (ex o')) ->
  (forall o', snd (lines o') <= Wlines (ex o')) ->
  snd (wk_tup inl lines o) <= Winl (if sl o then ex o else ex o - 1) + (if sl o then 0 else Wlines (ex o)).
Proof.
  intros Hi Hl. unfold wk_tup. apply between_snd. intros o' S1 N1. cbn [sl nlb] in S1, N1.
  set (oi := LOpt (lw o') (ctx o') (pos o') true (nlb o')).
  assert (Ei : ex oi = if sl o then ex o else ex o - 1).
  { unfold ex, oi. cbn [sl nlb]. rewrite N1. destruct (sl o), (nlb o); reflexivity. }
  pose proof (Hi oi []) as H1. rewrite Ei in H1.
  destruct (inl oi []) as [[s|] c]; cbn [snd] in *.
  - destruct (sl o); lia.
  - rewrite S1. destruct (sl o) eqn:Es; cbn [snd]; [lia|].
    pose proof (Hl (with_w o' (indent_in (lw o')))) as H2.
    assert (E2 : ex (with_w o' (indent_in (lw o'))) = ex o) by (apply ex_flags; cbn [with_w sl nlb]; congruence).
    rewrite E2 in H2. destruct (lines (with_w o' (indent_in (lw o')))) as [[s'|] c']; cbn [snd] in *; lia.
Qed.

Theorem calls_bound : (forall e, P e) /\ (forall cs, Q cs).
Proof.
  apply node_nodes_ind; unfold P, Q.
  - (* Id *)
    intros w o. cbn [we size].
    eapply Nat.le_trans; [apply (protocol_snd _ o _ (fun _ => 0)); [intros; cbn; lia | intros; lia]|].
    rewrite Nat.pow_1_l. destruct (nlb o); lia.
  - (* Tup *)
    intros cs [Hin Hln] o. cbn [we size].
    pose proof (ex_range o) as R.
    eapply Nat.le_trans;
      [apply (protocol_snd _ o _ (fun k => if sl o then sumpw cs k else sumpw cs (k - 1) + sumpw cs k))|].
    + intros o' S1. eapply Nat.le_trans; [apply (wk_tup_snd _ _ o' (sumpw cs) (sumpw cs)); [intros; apply Hin | intros; apply Hln]|].
      rewrite S1. destruct (sl o); lia.
    + intros j k L. pose proof (sumpw_mono cs (j - 1) (k - 1)). pose proof (sumpw_mono cs j k). destruct (sl o); lia.
    + (* arithmetic: n = 1 + sizes cs *)
      set (x := sizes cs). set (k := ex o) in *.
      assert (B : forall j, 1 <= j -> sumpw cs j <= x ^ j) by (intros; apply sumpw_le; assumption).
      assert (M : forall i j, i <= j -> sumpw cs i <= sumpw cs j) by (intros; apply sumpw_mono; assumption).
      replace (S x) with (1 + x) by lia.
      destruct (sl o) eqn:Es, (nlb o) eqn:En; unfold k, ex in *; rewrite ?Es, ?En in *; cbn [Nat.add Nat.sub] in *.
      * (* single pass *) pose proof (B 1). cbn [Nat.pow] in *. nia.
      * pose proof (B 1). pose proof (B 2). cbn [Nat.pow] in *. nia.
      * pose proof (B 1). pose proof (B 2). pose proof (M 1 2). cbn [Nat.pow] in *. nia.
      * pose proof (B 1). pose proof (B 2). pose proof (B 3). pose proof (M 1 2). pose proof (M 2 3). cbn [Nat.pow] in *. nia.
  - (* Bin *)
    intros l Hl r Hr o. cbn [we size].
    pose proof (ex_range o) as R. pose proof (size_pos l). pose proof (size_pos r).
    eapply Nat.le_trans;
      [apply (protocol_snd _ o _ (fun k => size l ^ k + size r ^ k))|].
    + intros o' _. apply wk_bin_snd; intros o'' S1 N1; rewrite <- (ex_flags o' o'' S1 N1); [apply Hl | apply Hr].
    + intros j k L. pose proof (pow_mono_exp (size l) j k). pose proof (pow_mono_exp (size r) j k). lia.
    + set (a := size l) in *. set (b := size r) in *. set (k := ex o) in *.
      assert (Ps : forall j, 1 <= j -> a ^ j + b ^ j <= (a + b) ^ j) by (intros; apply pow_sum; assumption).
      destruct (nlb o) eqn:En.
      * pose proof (Ps k). pose proof (one_plus_pow (a + b) k). replace (S (a + b)) with (1 + (a + b)) by lia. lia.
      * assert (2 <= k) by (unfold k, ex; rewrite En; destruct (sl o); lia).
        destruct k as [|[|j]]; try lia. cbn [Nat.sub]. rewrite ?Nat.sub_0_r.
        pose proof (Ps (S j)). pose proof (Ps (S (S j))). pose proof (one_plus_two_pows (a + b) (S j)).
        replace (S (a + b)) with (1 + (a + b)) by lia. lia.
  - (* NNil *)
    split; intros; cbn [winl wlines sumpw].
    + apply bind_ofopt_snd. intros. cbn. lia.
    + cbn. lia.
  - (* NCons *)
    intros c Hc t [Hin Hln]. split.
    + intros o acc. cbn [winl sumpw]. eapply Nat.le_trans; [apply bind_snd with (m := sumpw t (ex o))|].
      * intro s. destruct (has_nl s); [cbn; lia|]. apply bind_ofopt_snd. intros o' E. apply consume_len_flags in E as [S1 N1].
        rewrite <- (ex_flags o o' S1 N1). apply Hin.
      * pose proof (Hc o). lia.
    + intro o. cbn [wlines sumpw]. apply bind_ofopt_snd. intros o1 E1. apply reset_flags in E1 as [S1 N1].
      apply bind_ofopt_snd. intros ? _.
      eapply Nat.le_trans; [apply bind_snd with (m := sumpw t (ex o))|].
      * intro s. eapply Nat.le_trans; [apply bind_snd with (m := 0); intro; cbn; lia|]. rewrite Nat.add_0_r.
        rewrite <- (ex_flags o o1 S1 N1). apply Hln.
      * pose proof (Hc o1). rewrite (ex_flags o o1 S1 N1) in H. lia.
Qed.

Theorem we_calls_le e o : snd (we e o) <= size e ^ ex o.
Proof. exact (proj1 calls_bound e o). Qed.

(* at most cubic, whatever the options *)
Theorem we_calls_cubic e o : snd (we e o) <= size e ^ 3.
Proof.
  eapply Nat.le_trans; [apply we_calls_le|]. apply pow_mono_exp; [apply size_pos | apply ex_range].
Qed.

(* a single pass once both flags are set: the inline attempts are linear *)
Theorem we_calls_single_pass e o : sl o = true -> nlb o = true -> snd (we e o) <= size e.
Proof.
  intros S N. pose proof (we_calls_le e o) as H. unfold ex in H. rewrite S, N in H. cbn [Nat.add] in H.
  rewrite Nat.pow_1_r in H. exact H.
Qed.

Lemma stmt_write_snd e o : snd (stmt_write e o) <= size e ^ 3.
Proof.
  unfold stmt_write. apply bind_ofopt_snd. intros o1 _.
  eapply Nat.le_trans; [apply bind_snd with (m := 0); intro; cbn; lia|]. rewrite Nat.add_0_r. apply we_calls_cubic.
Qed.

Lemma stmt_expand_snd fuel : forall e o, snd (stmt_expand fuel e o) <= fuel * size e ^ 3.
Proof.
  induction fuel as [|f IH]; intros e o; cbn [stmt_expand]; [cbn; lia|].
  pose proof (stmt_write_snd e o) as H. destruct (stmt_write e o) as [[s|] c]; cbn [snd] in *; [lia|].
  destruct (widen (lw o)) as [w| |]; cbn [snd]; try lia.
  specialize (IH e (with_w o w)). destruct (stmt_expand f e (with_w o w)) as [r c']. cbn [snd] in *. lia.
Qed.

(* the whole of pl_to_prql on `let v = e`, the widening retries of write_or_expand included *)
Theorem format_let_calls e : snd (format_let e) <= 28 * size e ^ 3.
Proof. unfold format_let. apply bind_ofopt_snd. intros o _. apply stmt_expand_snd. Qed.

(* Lemmas about Model/NameGen.v: the regenerate-until-unused loop returns an unused name and always terminates
   within |used|+2 attempts; assign_names yields pairwise distinct names and keeps user names that are free;
   anchor_split's single regeneration is NOT collision-free in general (witness) but is when no user column is
   spelled like a future generated name. *)
From Coq Require Import List NArith Bool Lia FinFun.
From PV Require Import Lib.ListX Model.SqlLex Model.Literal Model.Ident Model.NameGen
                       Proofs.LiteralProofs Proofs.IdentProofs.
Import ListNotations.
Local Open Scope N_scope.

Lemma digits_of_inj a b : digits_of a = digits_of b -> a = b.
Proof. intro H. rewrite <- (digits_of_value a), <- (digits_of_value b), H. reflexivity. Qed.

Lemma gen_name_inj p a b : gen_name p a = gen_name p b -> a = b.
Proof. unfold gen_name. intro H. apply app_inv_head in H. apply digits_of_inj, H. Qed.

(* ------------------------------------------------------------------ regen *)

Lemma regen_some_unfold fuel p used nm n :
  regen fuel p used (Some nm) n =
  if mem_str nm used then match fuel with O => None | S f => regen f p used (Some (gen_name p n)) (N.succ n) end
  else Some (nm, n).
Proof. destruct fuel; reflexivity. Qed.

Lemma regen_none_unfold fuel p used n :
  regen fuel p used None n =
  match fuel with O => None | S f => regen f p used (Some (gen_name p n)) (N.succ n) end.
Proof. destruct fuel; reflexivity. Qed.

Lemma regen_fresh_some p used : forall fuel x n nm n',
  regen fuel p used (Some x) n = Some (nm, n') -> mem_str nm used = false.
Proof.
  induction fuel as [|f IH]; intros x n nm n' H; rewrite regen_some_unfold in H.
  - destruct (mem_str x used) eqn:E; [discriminate|]. injection H as <- _. exact E.
  - destruct (mem_str x used) eqn:E; [exact (IH _ _ _ _ H)|]. injection H as <- _. exact E.
Qed.

Theorem regen_fresh p used fuel cur n nm n' :
  regen fuel p used cur n = Some (nm, n') -> ~ In nm used.
Proof.
  intro H. apply mem_str_false. destruct cur as [x|].
  - exact (regen_fresh_some p used fuel x n nm n' H).
  - rewrite regen_none_unfold in H. destruct fuel as [|f]; [discriminate|].
    exact (regen_fresh_some p used f _ _ nm n' H).
Qed.

Theorem regen_keeps p used fuel nm n : ~ In nm used -> regen fuel p used (Some nm) n = Some (nm, n).
Proof. intro H. apply mem_str_false in H. rewrite regen_some_unfold, H. reflexivity. Qed.

(* failure means the next `fuel` generated names are all taken *)
Lemma regen_none_all_used p used : forall fuel x n,
  regen fuel p used (Some x) n = None ->
  forall i, (i < fuel)%nat -> In (gen_name p (n + N.of_nat i)) used.
Proof.
  induction fuel as [|f IH]; intros x n H i Hi; [lia|].
  rewrite regen_some_unfold in H. destruct (mem_str x used) eqn:E; [|discriminate].
  destruct i as [|i].
  - rewrite N.add_0_r.
    rewrite regen_some_unfold in H. destruct (mem_str (gen_name p n) used) eqn:E2.
    + apply mem_str_spec, E2.
    + discriminate.
  - replace (n + N.of_nat (S i)) with (N.succ n + N.of_nat i) by lia.
    apply (IH _ _ H). lia.
Qed.

Lemma gen_names_nodup p n : forall f, NoDup (map (fun i => gen_name p (n + N.of_nat i)) (seq 0 f)).
Proof.
  intro f. apply FinFun.Injective_map_NoDup; [|apply seq_NoDup].
  intros a b H. apply gen_name_inj in H. lia.
Qed.

Lemma regen_some_total p used fuel x n : (length used < fuel)%nat ->
  exists nm n', regen fuel p used (Some x) n = Some (nm, n').
Proof.
  intro Hf. destruct (regen fuel p used (Some x) n) as [[nm n']|] eqn:E; [eauto|]. exfalso.
  pose proof (regen_none_all_used p used fuel x n E) as A.
  pose proof (gen_names_nodup p n fuel) as ND.
  assert (incl (map (fun i => gen_name p (n + N.of_nat i)) (seq 0 fuel)) used) as I.
  { intros y Hy. apply in_map_iff in Hy as [i [<- Hi]]. apply in_seq in Hi. apply A. lia. }
  pose proof (NoDup_incl_length ND I) as L. rewrite map_length, seq_length in L. lia.
Qed.

Theorem regen_total p used fuel cur n : (S (length used) < fuel)%nat ->
  exists nm n', regen fuel p used cur n = Some (nm, n').
Proof.
  intro Hf. destruct cur as [x|].
  - apply regen_some_total. lia.
  - rewrite regen_none_unfold. destruct fuel as [|f]; [lia|]. apply regen_some_total. lia.
Qed.

(* ------------------------------------------------------------------ assign_names *)

Theorem assign_names_spec p : forall decls names n l n',
  assign_names p decls names n = Some (l, n') ->
  NoDup l /\ (forall x, In x l -> ~ In x names).
Proof.
  induction decls as [|d ds IH]; intros names n l n' H; cbn [assign_names] in H.
  - injection H as <- _. split; [constructor | intros x []].
  - destruct (regen (S (S (length names))) p names d n) as [[nm n1]|] eqn:R; [|discriminate].
    destruct (assign_names p ds (nm :: names) n1) as [[l1 n2]|] eqn:A; [|discriminate].
    injection H as <- _. destruct (IH _ _ _ _ A) as [ND F]. pose proof (regen_fresh _ _ _ _ _ _ _ R) as Fr.
    split.
    + constructor; [|exact ND]. intro Hin. apply (F nm Hin). left. reflexivity.
    + intros x [<-|Hx]; [exact Fr|]. intro Hn. apply (F x Hx). right. exact Hn.
Qed.

Theorem assign_names_total p : forall decls names n, exists l n', assign_names p decls names n = Some (l, n').
Proof.
  induction decls as [|d ds IH]; intros names n; cbn [assign_names]; [eauto|].
  destruct (regen_total p names (S (S (length names))) d n) as (nm & n1 & R); [lia|]. rewrite R.
  destruct (IH (nm :: names) n1) as (l & n2 & A). rewrite A. eauto.
Qed.

(* a declaration that already has a name not taken by an earlier one keeps it: user tables keep their names *)
Theorem assign_names_keeps_user p nm ds names n l n' :
  ~ In nm names -> assign_names p (Some nm :: ds) names n = Some (l, n') -> exists l', l = nm :: l'.
Proof.
  intros Hn H. cbn [assign_names] in H. rewrite (regen_keeps p names _ nm n Hn) in H.
  destruct (assign_names p ds (nm :: names) n) as [[l1 n2]|]; [|discriminate]. injection H as <- _. eauto.
Qed.

(* ------------------------------------------------------------------ anchor_split *)

Section Split.
  Variable p : str.
  Variable all : list (option str).
  Variable n0 : N.
  Hypothesis clash_free : forall k, n0 <= k -> ~ In (Some (gen_name p k)) all.

  Lemma split_names_once_inv : forall cs used n,
    (forall x, In x used -> In (Some x) all \/ exists k, k < n /\ x = gen_name p k) ->
    incl cs all -> n0 <= n ->
    NoDup (somes (fst (split_names_once p cs used n))) /\
    (forall x, In x (somes (fst (split_names_once p cs used n))) -> ~ In x used).
  Proof.
    induction cs as [|c cs IH]; intros used n Inv Hi Hn.
    - cbn. split; [constructor | intros x []].
    - assert (incl cs all) as Hi' by (intros y Hy; apply Hi; right; exact Hy).
      destruct c as [nm|]; cbn [split_names_once].
      + destruct (mem_str nm used) eqn:E.
        * (* duplicate: replaced by one generated name *)
          assert (~ In (gen_name p n) used) as Fr.
          { intro Hin. destruct (Inv _ Hin) as [Ha|[k [Hk Ek]]].
            - exact (clash_free n Hn Ha).
            - apply gen_name_inj in Ek. lia. }
          assert (forall x, In x (gen_name p n :: used) -> In (Some x) all \/ exists k, k < N.succ n /\ x = gen_name p k) as Inv'.
          { intros x [<-|Hx]; [right; exists n; split; [lia | reflexivity]|].
            destruct (Inv _ Hx) as [Ha|[k [Hk Ek]]]; [left; exact Ha | right; exists k; split; [lia | exact Ek]]. }
          destruct (IH (gen_name p n :: used) (N.succ n) Inv' Hi' ltac:(lia)) as [ND F].
          destruct (split_names_once p cs (gen_name p n :: used) (N.succ n)) as [l n'] eqn:S. cbn [fst somes] in *.
          split.
          -- constructor; [|exact ND]. intro Hin. apply (F _ Hin). left. reflexivity.
          -- intros x [<-|Hx]; [exact Fr|]. intro Hu. apply (F _ Hx). right. exact Hu.
        * apply mem_str_false in E.
          assert (forall x, In x (nm :: used) -> In (Some x) all \/ exists k, k < n /\ x = gen_name p k) as Inv'.
          { intros x [<-|Hx]; [left; apply Hi; left; reflexivity | exact (Inv _ Hx)]. }
          destruct (IH (nm :: used) n Inv' Hi' Hn) as [ND F].
          destruct (split_names_once p cs (nm :: used) n) as [l n'] eqn:S. cbn [fst somes] in *.
          split.
          -- constructor; [|exact ND]. intro Hin. apply (F _ Hin). left. reflexivity.
          -- intros x [<-|Hx]; [exact E|]. intro Hu. apply (F _ Hx). right. exact Hu.
      + destruct (IH used n Inv Hi' Hn) as [ND F].
        destruct (split_names_once p cs used n) as [l n'] eqn:S. cbn [fst somes] in *. split; assumption.
  Qed.
End Split.

Theorem split_names_once_nodup p cols n :
  (forall k, n <= k -> ~ In (Some (gen_name p k)) cols) ->
  NoDup (somes (fst (split_names_once p cols [] n))).
Proof.
  intro H. apply (split_names_once_inv p cols n H cols [] n); [intros x [] | apply incl_refl | lia].
Qed.

(* anchor_split as it is NOW (regenerate until unused) is collision-free for ALL inputs *)
Theorem split_names_spec p : forall cols used n l n',
  split_names p cols used n = Some (l, n') ->
  NoDup (somes l) /\ (forall x, In x (somes l) -> ~ In x used).
Proof.
  induction cols as [|c cs IH]; intros used n l n' H; cbn [split_names] in H.
  - injection H as <- _. split; [constructor | intros x []].
  - destruct c as [nm|].
    + destruct (regen (S (S (length used))) p used (Some nm) n) as [[nm1 n1]|] eqn:R; [|discriminate].
      destruct (split_names p cs (nm1 :: used) n1) as [[l1 n2]|] eqn:A; [|discriminate].
      injection H as <- _. destruct (IH _ _ _ _ A) as [ND F]. pose proof (regen_fresh _ _ _ _ _ _ _ R) as Fr.
      cbn [somes]. split.
      * constructor; [|exact ND]. intro Hin. apply (F _ Hin). left. reflexivity.
      * intros x [<-|Hx]; [exact Fr|]. intro Hu. apply (F _ Hx). right. exact Hu.
    + destruct (split_names p cs used n) as [[l1 n2]|] eqn:A; [|discriminate].
      injection H as <- _. cbn [somes]. exact (IH _ _ _ _ A).
Qed.

(* ------------------------------------------------------------------ the statements of Props/C09.v *)

Theorem regen_terminates p used cur n : exists nm n', regen (S (S (length used))) p used cur n = Some (nm, n').
Proof. apply regen_total. apply le_n. Qed.

Lemma assign_names_length p : forall decls names n l n', assign_names p decls names n = Some (l, n') -> length l = length decls.
Proof.
  induction decls as [|d ds IH]; intros names n l n' A; cbn [assign_names] in A.
  - injection A as <- _. reflexivity.
  - destruct (regen (S (S (length names))) p names d n) as [[nm n1]|]; [|discriminate].
    destruct (assign_names p ds (nm :: names) n1) as [[l1 n2]|] eqn:B; [|discriminate].
    injection A as <- _. cbn [length]. f_equal. exact (IH _ _ _ _ B).
Qed.

Theorem assign_names_fresh p decls n :
  exists l n', assign_names p decls [] n = Some (l, n') /\ NoDup l /\ length l = length decls.
Proof.
  destruct (assign_names_total p decls [] n) as (l & n' & A). exists l, n'. split; [exact A|]. split.
  - exact (proj1 (assign_names_spec p decls [] n l n' A)).
  - exact (assign_names_length p decls [] n l n' A).
Qed.

Theorem split_names_nodup p cols n l n' : split_names p cols [] n = Some (l, n') -> NoDup (somes l).
Proof. intro H. exact (proj1 (split_names_spec p cols [] n l n' H)). Qed.

Lemma not_nodup_witness (x : str) (l : list str) : In x l -> ~ NoDup (x :: l).
Proof. intros Hin H. inversion H as [|y l' Hx _]. exact (Hx Hin). Qed.

Theorem split_names_total p : forall cols used n, exists l n', split_names p cols used n = Some (l, n').
Proof.
  induction cols as [|c cs IH]; intros used n; cbn [split_names]; [eauto|].
  destruct c as [nm|].
  - destruct (regen_total p used (S (S (length used))) (Some nm) n) as (nm1 & n1 & R); [lia|]. rewrite R.
    destruct (IH (nm1 :: used) n1) as (l & n2 & A). rewrite A. eauto.
  - destruct (IH used n) as (l & n2 & A). rewrite A. eauto.
Qed.

Lemma split_names_length p : forall cols used n l n', split_names p cols used n = Some (l, n') -> length l = length cols.
Proof.
  induction cols as [|c cs IH]; intros used n l n' H; cbn [split_names] in H.
  - injection H as <- _. reflexivity.
  - destruct c as [nm|].
    + destruct (regen (S (S (length used))) p used (Some nm) n) as [[nm1 n1]|]; [|discriminate].
      destruct (split_names p cs (nm1 :: used) n1) as [[l1 n2]|] eqn:A; [|discriminate].
      injection H as <- _. cbn [length]. f_equal. exact (IH _ _ _ _ A).
    + destruct (split_names p cs used n) as [[l1 n2]|] eqn:A; [|discriminate].
      injection H as <- _. cbn [length]. f_equal. exact (IH _ _ _ _ A).
Qed.

Theorem split_names_fresh p cols n :
  exists l n', split_names p cols [] n = Some (l, n') /\ NoDup (somes l) /\ length l = length cols.
Proof.
  destruct (split_names_total p cols [] n) as (l & n' & A). exists l, n'. split; [exact A|]. split.
  - exact (split_names_nodup p cols n l n' A).
  - exact (split_names_length p cols [] n l n' A).
Qed.

(* a column name that is not taken earlier at the split keeps its name *)
Theorem split_names_keeps p nm cs used n l n' :
  ~ In nm used -> split_names p (Some nm :: cs) used n = Some (l, n') -> exists l', l = Some nm :: l'.
Proof.
  intros Hn H. cbn [split_names] in H. rewrite (regen_keeps p used _ nm n Hn) in H.
  destruct (split_names p cs (nm :: used) n) as [[l1 n2]|]; [|discriminate]. injection H as <- _. eauto.
Qed.

(* Lemmas about Model/NameGen.v.
   - the regenerate-until-unused loop (regen_with) returns a name outside the used set, keeps a free name, and
     terminates within |used|+2 attempts for every generator that hands out gen_name p k with increasing k;
   - gen_unreserved / gen_table_name: the result is a generated name whose lower-cased form is not reserved; it
     terminates within |reserved|+1 attempts when lower-casing leaves generated names unchanged;
   - assign_names: pairwise distinct names; every name it generates differs, compared through `lower`, from every
     user name in the reserved set and from every other name of the result; user names that are free are kept;
   - ensure_column_name / split_names / select_item_alias, for every reserved set of column names: exact distinctness
     for all inputs; case-insensitive distinctness when the incoming names are reserved (split_names_ci_fresh: the repair
     of F33b); false with nothing reserved (witness in Props) and true there when no incoming name is a case variant of
     a generated name (split_names_ci_partial); column_ci_status ties the two to the flag read from the source. *)
From Coq Require Import List NArith Bool Lia FinFun.
From PV Require Import Lib.ListX Model.SqlLex Model.Literal Model.Ident Model.NameGen
                       Proofs.LiteralProofs Proofs.IdentProofs.
Import ListNotations.
Local Open Scope N_scope.

Lemma digits_of_inj a b : digits_of a = digits_of b -> a = b.
Proof. intro H. rewrite <- (digits_of_value a), <- (digits_of_value b), H. reflexivity. Qed.

Lemma gen_name_inj p a b : gen_name p a = gen_name p b -> a = b.
Proof. unfold gen_name. intro H. apply app_inv_head in H. apply digits_of_inj, H. Qed.

(* a generator in the sense of the loops: hands out gen_name p k for some k at or after the counter *)
Definition gen_ok (p : str) (g : N -> option (str * N)) : Prop :=
  forall n x n', g n = Some (x, n') -> exists k, n <= k /\ x = gen_name p k /\ n' = N.succ k.
Definition gen_total (g : N -> option (str * N)) : Prop := forall n, exists x n', g n = Some (x, n').

Lemma plain_gen_ok p : gen_ok p (plain_gen p).
Proof. intros n x n' H. injection H as <- <-. exists n. split; [lia | split; reflexivity]. Qed.
Lemma plain_gen_total p : gen_total (plain_gen p).
Proof. intro n. eexists _, _. reflexivity. Qed.

(* ------------------------------------------------------------------ regen_with *)

Section Regen.
  Variable p : str.
  Variable g : N -> option (str * N).
  Variable used : list str.

  Lemma regen_some_unfold fuel nm n :
    regen_with g fuel used (Some nm) n =
    if mem_str nm used then
      match fuel with
      | O => None
      | S f => match g n with Some (x, n1) => regen_with g f used (Some x) n1 | None => None end
      end
    else Some (nm, n).
  Proof. destruct fuel; reflexivity. Qed.

  Lemma regen_none_unfold fuel n :
    regen_with g fuel used None n =
    match fuel with
    | O => None
    | S f => match g n with Some (x, n1) => regen_with g f used (Some x) n1 | None => None end
    end.
  Proof. destruct fuel; reflexivity. Qed.

  Lemma regen_with_fresh_some : forall fuel x n nm n',
    regen_with g fuel used (Some x) n = Some (nm, n') -> mem_str nm used = false.
  Proof.
    induction fuel as [|f IH]; intros x n nm n' H; rewrite regen_some_unfold in H.
    - destruct (mem_str x used) eqn:E; [discriminate|]. injection H as <- _. exact E.
    - destruct (mem_str x used) eqn:E.
      + destruct (g n) as [[x1 n1]|]; [exact (IH _ _ _ _ H) | discriminate].
      + injection H as <- _. exact E.
  Qed.

  Lemma regen_with_fresh fuel cur n nm n' :
    regen_with g fuel used cur n = Some (nm, n') -> ~ In nm used.
  Proof.
    intro H. apply mem_str_false. destruct cur as [x|].
    - exact (regen_with_fresh_some fuel x n nm n' H).
    - rewrite regen_none_unfold in H. destruct fuel as [|f]; [discriminate|].
      destruct (g n) as [[x1 n1]|]; [|discriminate].
      exact (regen_with_fresh_some f _ _ nm n' H).
  Qed.

  Lemma regen_with_keeps fuel nm n : ~ In nm used -> regen_with g fuel used (Some nm) n = Some (nm, n).
  Proof. intro H. apply mem_str_false in H. rewrite regen_some_unfold, H. reflexivity. Qed.

  (* the result is the current name (counter untouched) or a name the generator handed out at or after the counter *)
  Lemma regen_with_origin_some (G : gen_ok p g) : forall fuel x n nm n',
    regen_with g fuel used (Some x) n = Some (nm, n') ->
    (nm = x /\ n' = n) \/ (exists k, n <= k /\ nm = gen_name p k /\ k < n').
  Proof.
    induction fuel as [|f IH]; intros x n nm n' H; rewrite regen_some_unfold in H.
    - destruct (mem_str x used); [discriminate|]. injection H as <- <-. left. split; reflexivity.
    - destruct (mem_str x used).
      + destruct (g n) as [[x1 n1]|] eqn:E; [|discriminate].
        destruct (G _ _ _ E) as (k & Hk & -> & ->).
        destruct (IH _ _ _ _ H) as [[-> ->]|(k' & Hk' & -> & Hlt)]; right.
        * exists k. split; [exact Hk | split; [reflexivity | lia]].
        * exists k'. split; [lia | split; [reflexivity | exact Hlt]].
      + injection H as <- <-. left. split; reflexivity.
  Qed.

  Lemma regen_with_origin (G : gen_ok p g) fuel cur n nm n' :
    regen_with g fuel used cur n = Some (nm, n') ->
    (cur = Some nm /\ n' = n) \/ (exists k, n <= k /\ nm = gen_name p k /\ k < n').
  Proof.
    intro H. destruct cur as [x|].
    - destruct (regen_with_origin_some G _ _ _ _ _ H) as [[-> ->]|R]; [left; split; reflexivity | right; exact R].
    - rewrite regen_none_unfold in H. destruct fuel as [|f]; [discriminate|].
      destruct (g n) as [[x1 n1]|] eqn:E; [|discriminate].
      destruct (G _ _ _ E) as (k & Hk & -> & ->). right.
      destruct (regen_with_origin_some G _ _ _ _ _ H) as [[-> ->]|(k' & Hk' & -> & Hlt)].
      + exists k. split; [exact Hk | split; [reflexivity | lia]].
      + exists k'. split; [lia | split; [reflexivity | exact Hlt]].
  Qed.

  Lemma regen_with_counter (G : gen_ok p g) fuel cur n nm n' :
    regen_with g fuel used cur n = Some (nm, n') -> n <= n'.
  Proof. intro H. destruct (regen_with_origin G _ _ _ _ _ H) as [[_ ->]|(k & Hk & _ & Hlt)]; lia. Qed.

  (* failure means `fuel` different generated names are all taken *)
  Lemma regen_with_none_all_used (G : gen_ok p g) (T : gen_total g) : forall fuel x n,
    regen_with g fuel used (Some x) n = None ->
    mem_str x used = true /\
    exists ks, length ks = fuel /\ NoDup ks /\ forall k, In k ks -> n <= k /\ In (gen_name p k) used.
  Proof.
    induction fuel as [|f IH]; intros x n H; rewrite regen_some_unfold in H;
      destruct (mem_str x used) eqn:E; try discriminate.
    - split; [reflexivity|]. exists []. split; [reflexivity | split; [constructor | intros k []]].
    - split; [reflexivity|].
      destruct (T n) as (x1 & n1 & Eg). rewrite Eg in H.
      destruct (G _ _ _ Eg) as (k & Hk & -> & ->).
      destruct (IH _ _ H) as (M & ks & L & ND & A).
      exists (k :: ks). split; [cbn; congruence|]. split.
      + constructor; [|exact ND]. intro Hin. destruct (A _ Hin) as [Hle _]. lia.
      + intros k' [<-|Hin].
        * split; [exact Hk | apply mem_str_spec, M].
        * destruct (A _ Hin) as [Hle Hu]. split; [lia | exact Hu].
  Qed.

  Lemma regen_with_some_total (G : gen_ok p g) (T : gen_total g) fuel x n : (length used < fuel)%nat ->
    exists nm n', regen_with g fuel used (Some x) n = Some (nm, n').
  Proof.
    intro Hf. destruct (regen_with g fuel used (Some x) n) as [[nm n']|] eqn:E; [eauto|]. exfalso.
    destruct (regen_with_none_all_used G T _ _ _ E) as (_ & ks & L & ND & A).
    assert (NoDup (map (gen_name p) ks)) as ND'.
    { apply FinFun.Injective_map_NoDup; [|exact ND]. intros a b Hab. exact (gen_name_inj _ _ _ Hab). }
    assert (incl (map (gen_name p) ks) used) as I.
    { intros y Hy. apply in_map_iff in Hy as [k [<- Hk]]. exact (proj2 (A _ Hk)). }
    pose proof (NoDup_incl_length ND' I) as Len. rewrite map_length in Len. lia.
  Qed.

  Lemma regen_with_total (G : gen_ok p g) (T : gen_total g) fuel cur n : (S (length used) < fuel)%nat ->
    exists nm n', regen_with g fuel used cur n = Some (nm, n').
  Proof.
    intro Hf. destruct cur as [x|].
    - apply regen_with_some_total; [exact G | exact T | lia].
    - rewrite regen_none_unfold. destruct fuel as [|f]; [lia|].
      destruct (T n) as (x1 & n1 & Eg). rewrite Eg. apply regen_with_some_total; [exact G | exact T | lia].
  Qed.
End Regen.

(* ------------------------------------------------------------------ gen_unreserved *)

Section Unreserved.
  Variable lower : str -> str.
  Variable p : str.
  Variable reserved : list str.

  Lemma gen_unreserved_spec : forall fuel n x n',
    gen_unreserved fuel lower p reserved n = Some (x, n') ->
    exists k, n <= k /\ x = gen_name p k /\ n' = N.succ k /\ ~ In (lower x) reserved.
  Proof.
    induction fuel as [|f IH]; intros n x n' H; cbn [gen_unreserved] in H; [discriminate|].
    destruct (mem_str (lower (gen_name p n)) reserved) eqn:E.
    - destruct (IH _ _ _ H) as (k & Hk & Hx & Hn & Hr). exists k. split; [lia | auto].
    - injection H as <- <-. exists n. split; [lia|]. split; [reflexivity|]. split; [reflexivity|].
      apply mem_str_false, E.
  Qed.

  Lemma gen_table_name_ok : gen_ok p (gen_table_name lower p reserved).
  Proof.
    intros n x n' H. destruct (gen_unreserved_spec _ _ _ _ H) as (k & Hk & Hx & Hn & _). exists k. auto.
  Qed.

  (* lower-casing leaves generated names unchanged (true of to_lowercase / lower_ascii for the prefixes of the source) *)
  Hypothesis gen_stable : forall k, lower (gen_name p k) = gen_name p k.

  Lemma gen_unreserved_none : forall fuel n,
    gen_unreserved fuel lower p reserved n = None ->
    forall i, (i < fuel)%nat -> In (gen_name p (n + N.of_nat i)) reserved.
  Proof.
    induction fuel as [|f IH]; intros n H i Hi; [lia|]. cbn [gen_unreserved] in H.
    destruct (mem_str (lower (gen_name p n)) reserved) eqn:E; [|discriminate].
    destruct i as [|i].
    - rewrite N.add_0_r. rewrite gen_stable in E. apply mem_str_spec, E.
    - replace (n + N.of_nat (S i)) with (N.succ n + N.of_nat i) by lia. apply (IH _ H). lia.
  Qed.

  Lemma gen_names_nodup n : forall f, NoDup (map (fun i => gen_name p (n + N.of_nat i)) (seq 0 f)).
  Proof.
    intro f. apply FinFun.Injective_map_NoDup; [|apply seq_NoDup].
    intros a b H. apply gen_name_inj in H. lia.
  Qed.

  Lemma gen_table_name_total : gen_total (gen_table_name lower p reserved).
  Proof.
    intro n. unfold gen_table_name.
    destruct (gen_unreserved (S (length reserved)) lower p reserved n) as [[x n']|] eqn:E; [eauto|]. exfalso.
    pose proof (gen_unreserved_none _ _ E) as A.
    pose proof (gen_names_nodup n (S (length reserved))) as ND.
    assert (incl (map (fun i => gen_name p (n + N.of_nat i)) (seq 0 (S (length reserved)))) reserved) as I.
    { intros y Hy. apply in_map_iff in Hy as [i [<- Hi]]. apply in_seq in Hi. apply A. lia. }
    pose proof (NoDup_incl_length ND I) as L. rewrite map_length, seq_length in L. lia.
  Qed.
End Unreserved.

(* without reserved names the generator is plain NameGenerator::gen *)
Lemma gen_table_name_nil lower p n : gen_table_name lower p [] n = plain_gen p n.
Proof. reflexivity. Qed.

(* ---- the loop around it (tables and columns) *)
Theorem regen_r_fresh lower p reserved used fuel cur n nm n' :
  regen_r fuel lower p reserved used cur n = Some (nm, n') -> ~ In nm used.
Proof. exact (regen_with_fresh _ _ _ _ _ _ _). Qed.

Theorem regen_r_keeps lower p reserved used fuel nm n :
  ~ In nm used -> regen_r fuel lower p reserved used (Some nm) n = Some (nm, n).
Proof. exact (regen_with_keeps _ _ _ _ _). Qed.

Theorem regen_r_total lower p reserved used cur n :
  (forall k, lower (gen_name p k) = gen_name p k) ->
  exists nm n', regen_r (S (S (length used))) lower p reserved used cur n = Some (nm, n').
Proof.
  intro St. apply (regen_with_total p _ _ (gen_table_name_ok lower p reserved) (gen_table_name_total lower p reserved St)). apply le_n.
Qed.

(* the result is the name that came in, or a generated name whose lower-cased form is not reserved *)
Lemma regen_with_unreserved lower p reserved used : forall fuel cur n nm n',
  regen_r fuel lower p reserved used cur n = Some (nm, n') ->
  (cur = Some nm /\ n' = n) \/ ((exists k, n <= k /\ nm = gen_name p k /\ k < n') /\ ~ In (lower nm) reserved).
Proof.
  unfold regen_r.
  assert (forall fuel x n nm n', regen_with (gen_table_name lower p reserved) fuel used (Some x) n = Some (nm, n') ->
            (x = nm /\ n' = n) \/ ((exists k, n <= k /\ nm = gen_name p k /\ k < n') /\ ~ In (lower nm) reserved)) as S.
  { induction fuel as [|f IH]; intros x n nm n' H; rewrite regen_some_unfold in H.
    - destruct (mem_str x used); [discriminate|]. injection H as <- <-. left. split; reflexivity.
    - destruct (mem_str x used).
      + destruct (gen_table_name lower p reserved n) as [[x1 n1]|] eqn:E; [|discriminate].
        destruct (gen_unreserved_spec _ _ _ _ _ _ _ E) as (k & Hk & -> & -> & Hr).
        destruct (IH _ _ _ _ H) as [[<- ->]|[(k' & Hk' & -> & Hlt) Hr']]; right.
        * split; [exists k; split; [exact Hk | split; [reflexivity | lia]] | exact Hr].
        * split; [exists k'; split; [lia | split; [reflexivity | exact Hlt]] | exact Hr'].
      + injection H as <- <-. left. split; reflexivity. }
  intros fuel cur n nm n' H. destruct cur as [x|].
  - destruct (S _ _ _ _ _ H) as [[-> ->]|R]; [left; split; reflexivity | right; exact R].
  - rewrite regen_none_unfold in H. destruct fuel as [|f]; [discriminate|].
    destruct (gen_table_name lower p reserved n) as [[x1 n1]|] eqn:E; [|discriminate].
    destruct (gen_unreserved_spec _ _ _ _ _ _ _ E) as (k & Hk & -> & -> & Hr). right.
    destruct (S _ _ _ _ _ H) as [[<- ->]|[(k' & Hk' & -> & Hlt) Hr']].
    + split; [exists k; split; [exact Hk | split; [reflexivity | lia]] | exact Hr].
    + split; [exists k'; split; [lia | split; [reflexivity | exact Hlt]] | exact Hr'].
Qed.

(* ------------------------------------------------------------------ assign_names *)

Lemma Forall2_imp {A B} (P Q : A -> B -> Prop) (H : forall a b, P a b -> Q a b) : forall l1 l2, Forall2 P l1 l2 -> Forall2 Q l1 l2.
Proof. induction 1; constructor; auto. Qed.

(* per position: the declared name was kept, or the name was generated at or after counter n and is unreserved *)
Definition assigned (lower : str -> str) (p : str) (reserved : list str) (n : N) (d : option str) (x : str) : Prop :=
  d = Some x \/ ((exists k, n <= k /\ x = gen_name p k) /\ ~ In (lower x) reserved).

Theorem assign_names_spec lower p reserved : forall decls names n l n',
  assign_names lower p reserved decls names n = Some (l, n') ->
  NoDup l /\ (forall x, In x l -> ~ In x names) /\ length l = length decls /\ n <= n' /\
  Forall2 (assigned lower p reserved n) decls l.
Proof.
  induction decls as [|d ds IH]; intros names n l n' H; cbn [assign_names] in H.
  - injection H as <- <-. repeat split; [constructor | intros x [] | lia | constructor].
  - destruct (regen_r (S (S (length names))) lower p reserved names d n) as [[nm n1]|] eqn:R; [|discriminate].
    destruct (assign_names lower p reserved ds (nm :: names) n1) as [[l1 n2]|] eqn:A; [|discriminate].
    injection H as <- <-. destruct (IH _ _ _ _ A) as (ND & F & Len & Hle & FA).
    pose proof (regen_r_fresh _ _ _ _ _ _ _ _ _ R) as Fr.
    pose proof (regen_with_unreserved _ _ _ _ _ _ _ _ _ R) as Or.
    assert (n <= n1) as Hn1 by (destruct Or as [[_ ->]|[(k & Hk & _ & Hlt) _]]; lia).
    split; [|split; [|split; [|split]]].
    + constructor; [|exact ND]. intro Hin. apply (F nm Hin). left. reflexivity.
    + intros x [<-|Hx]; [exact Fr|]. intro Hn. apply (F x Hx). right. exact Hn.
    + cbn [length]. f_equal. exact Len.
    + lia.
    + constructor.
      * destruct Or as [[-> _]|[(k & Hk & -> & _) Hr]]; [left; reflexivity | right].
        split; [exists k; split; [exact Hk | reflexivity] | exact Hr].
      * eapply Forall2_imp; [|exact FA]. intros d' x [->|[(k & Hk & ->) Hr]]; [left; reflexivity | right].
        split; [exists k; split; [lia | reflexivity] | exact Hr].
Qed.

Theorem assign_names_total lower p reserved : (forall k, lower (gen_name p k) = gen_name p k) ->
  forall decls names n, exists l n', assign_names lower p reserved decls names n = Some (l, n').
Proof.
  intro St. induction decls as [|d ds IH]; intros names n; cbn [assign_names]; [eauto|].
  destruct (regen_r_total lower p reserved names d n St) as (nm & n1 & R). rewrite R.
  destruct (IH (nm :: names) n1) as (l & n2 & A). rewrite A. eauto.
Qed.

(* a declaration that already has a name not taken by an earlier one keeps it: user tables keep their names *)
Theorem assign_names_keeps_user lower p reserved nm ds names n l n' :
  ~ In nm names -> assign_names lower p reserved (Some nm :: ds) names n = Some (l, n') -> exists l', l = nm :: l'.
Proof.
  intros Hn H. cbn [assign_names] in H. rewrite (regen_r_keeps lower p reserved names _ nm n Hn) in H.
  destruct (assign_names lower p reserved ds (nm :: names) n) as [[l1 n2]|]; [|discriminate]. injection H as <- _. eauto.
Qed.

Theorem assign_names_fresh lower p reserved decls n : (forall k, lower (gen_name p k) = gen_name p k) ->
  exists l n', assign_names lower p reserved decls [] n = Some (l, n') /\ NoDup l /\ length l = length decls.
Proof.
  intro St. destruct (assign_names_total lower p reserved St decls [] n) as (l & n' & A). exists l, n'. split; [exact A|].
  destruct (assign_names_spec _ _ _ _ _ _ _ _ A) as (ND & _ & Len & _). split; assumption.
Qed.

(* THE statement behind fix 99a89d3.  users = every table name / alias the user wrote; reserved = their lower-cased forms.
   Every position of the result either keeps the declared name or holds a generated name that differs from EVERY user name
   when both are compared through `lower` (case-insensitively). *)
Theorem assign_names_never_capture lower p users decls n l n' :
  assign_names lower p (reserved_of lower users) decls [] n = Some (l, n') ->
  NoDup l /\ length l = length decls /\
  Forall2 (fun d x => d = Some x \/ ((exists k, n <= k /\ x = gen_name p k) /\ forall u, In u users -> lower u <> lower x)) decls l.
Proof.
  intro A. destruct (assign_names_spec _ _ _ _ _ _ _ _ A) as (ND & _ & Len & _ & FA).
  split; [exact ND | split; [exact Len|]].
  eapply Forall2_imp; [|exact FA]. intros d x [->|[G Hr]]; [left; reflexivity | right]. split; [exact G|].
  intros u Hu E. apply Hr. unfold reserved_of. rewrite <- E. apply in_map, Hu.
Qed.

(* the same with termination, for callers that want one statement *)
Theorem assign_names_never_capture_total lower p users decls n :
  (forall k, lower (gen_name p k) = gen_name p k) ->
  exists l n', assign_names lower p (reserved_of lower users) decls [] n = Some (l, n') /\
    NoDup l /\ length l = length decls /\
    Forall2 (fun d x => d = Some x \/ ((exists k, n <= k /\ x = gen_name p k) /\ forall u, In u users -> lower u <> lower x)) decls l.
Proof.
  intro St. destruct (assign_names_total lower p (reserved_of lower users) St decls [] n) as (l & n' & A).
  exists l, n'. split; [exact A | exact (assign_names_never_capture _ _ _ _ _ _ _ A)].
Qed.

(* AnchorContext::gen_table_name on its own (alias of a wrapped sub-query) *)
Theorem gen_table_name_never_capture lower p users n x n' :
  gen_table_name lower p (reserved_of lower users) n = Some (x, n') ->
  (exists k, n <= k /\ x = gen_name p k /\ n' = N.succ k) /\ forall u, In u users -> lower u <> lower x.
Proof.
  intro H. destruct (gen_unreserved_spec _ _ _ _ _ _ _ H) as (k & Hk & Hx & Hn & Hr). split; [eauto|].
  intros u Hu E. apply Hr. unfold reserved_of. rewrite <- E. apply in_map, Hu.
Qed.

(* ... and from every OTHER name of the same scope, whether that one was written by the user or generated *)
Theorem assign_names_ci_distinct lower p users decls n l n' :
  (forall k, lower (gen_name p k) = gen_name p k) -> incl (somes decls) users ->
  assign_names lower p (reserved_of lower users) decls [] n = Some (l, n') ->
  forall i j di xi xj, i <> j ->
    nth_error decls i = Some di -> nth_error l i = Some xi -> nth_error l j = Some xj ->
    di <> Some xi -> lower xi <> lower xj.
Proof.
  intros St Inc A i j di xi xj Hij Hdi Hxi Hxj Hgen.
  destruct (assign_names_never_capture _ _ _ _ _ _ _ A) as (ND & Len & FA).
  assert (forall (k : nat) d x, nth_error decls k = Some d -> nth_error l k = Some x ->
            d = Some x \/ ((exists m, n <= m /\ x = gen_name p m) /\ forall u, In u users -> lower u <> lower x)) as At.
  { clear - FA. induction FA as [|d0 x0 ds xs H0 FA IH]; intros k d x Hd Hx; destruct k; try discriminate.
    - injection Hd as <-. injection Hx as <-. exact H0.
    - exact (IH _ _ _ Hd Hx). }
  destruct (At _ _ _ Hdi Hxi) as [E|[(k & _ & ->) Fi]]; [contradiction|].
  assert (exists dj, nth_error decls j = Some dj) as [dj Hdj].
  { destruct (nth_error decls j) eqn:E; [eauto|]. apply nth_error_None in E.
    assert (nth_error l j <> None) as N by congruence. apply nth_error_Some in N. lia. }
  destruct (At _ _ _ Hdj Hxj) as [E|[(k' & _ & ->) _]].
  - intro Heq. apply (Fi xj); [|symmetry; exact Heq].
    apply Inc. clear - Hdj E. subst dj. revert j Hdj. induction decls as [|d ds IH]; intros j Hj; destruct j; try discriminate.
    + injection Hj as ->. left. reflexivity.
    + destruct d; [right|]; exact (IH _ Hj).
  - rewrite !St. intro Heq. apply Hij. exact (proj1 (NoDup_nth_error l) ND i j ltac:(apply nth_error_Some; congruence) ltac:(congruence)).
Qed.

(* ------------------------------------------------------------------ columns *)

Section Columns.
  Variable lower : str -> str.
  Variable p : str.
  Variable reserved : list str.

  (* a generated name in the sense of the repair: spelled prefix+number and not reserved *)
  Definition genlike (x : str) : Prop := (exists k, x = gen_name p k) /\ ~ In (lower x) reserved.

  Lemma ensure_column_name_wild d b n old n' : ensure_column_name lower p reserved d b n = Some (old, n') -> (old = None <-> d = DWild).
  Proof.
    destruct d as [|[nm|]|]; destruct b; cbn [ensure_column_name]; intro H;
      try (destruct (gen_table_name lower p reserved n) as [[x n1]|]; [|discriminate]);
      injection H as <- _; split; intro E; try reflexivity; discriminate.
  Qed.

  (* the name that comes out came in (as `before` or as the declared name), or was generated just now *)
  Lemma ensure_column_name_origin d b n x n' : ensure_column_name lower p reserved d b n = Some (Some x, n') ->
    (n' = n /\ (b = Some x \/ d = DSingle (Some x))) \/ (b = None /\ genlike x /\ exists k, n <= k /\ x = gen_name p k /\ n' = N.succ k).
  Proof.
    assert (forall x n', gen_table_name lower p reserved n = Some (x, n') -> genlike x /\ exists k, n <= k /\ x = gen_name p k /\ n' = N.succ k) as G.
    { intros y m H. destruct (gen_unreserved_spec _ _ _ _ _ _ _ H) as (k & Hk & -> & -> & Hr).
      split; [split; [eauto | exact Hr] | eauto]. }
    assert (b = None -> match gen_table_name lower p reserved n with Some (x0, n0) => Some (Some x0, n0) | None => None end = Some (Some x, n') ->
            (n' = n /\ (b = Some x \/ d = DSingle (Some x))) \/ (b = None /\ genlike x /\ exists k, n <= k /\ x = gen_name p k /\ n' = N.succ k)) as GC.
    { intros Hb H. destruct (gen_table_name lower p reserved n) as [[y n1]|] eqn:E; [|discriminate].
      injection H as <- <-. right. split; [exact Hb | exact (G _ _ eq_refl)]. }
    destruct d as [|[nm|]|]; destruct b as [b0|]; cbn [ensure_column_name]; intro H.
    - discriminate.
    - discriminate.
    - injection H as <- <-. left. split; [reflexivity | left; reflexivity].
    - injection H as <- <-. left. split; [reflexivity | right; reflexivity].
    - injection H as <- <-. left. split; [reflexivity | left; reflexivity].
    - exact (GC eq_refl H).
    - injection H as <- <-. left. split; [reflexivity | left; reflexivity].
    - exact (GC eq_refl H).
  Qed.

  Lemma split_step_spec used old n new n' : split_step lower p reserved used old n = Some (new, n') ->
    (old = None /\ new = None /\ n' = n) \/
    (exists o x, old = Some o /\ new = Some x /\ ~ In x used /\ ((x = o /\ n' = n) \/ genlike x)).
  Proof.
    destruct old as [o|]; cbn [split_step]; intro H.
    - destruct (regen_r (S (S (length used))) lower p reserved used (Some o) n) as [[x n1]|] eqn:R; [|discriminate]. injection H as <- <-.
      right. exists o, x. split; [reflexivity | split; [reflexivity|]]. split; [exact (regen_r_fresh _ _ _ _ _ _ _ _ _ R)|].
      destruct (regen_with_unreserved _ _ _ _ _ _ _ _ _ R) as [[E ->]|[(k & _ & -> & _) Hr]].
      + left. split; [congruence | reflexivity].
      + right. split; [eauto | exact Hr].
    - injection H as <- <-. left. auto.
  Qed.

  Lemma split_step_keeps used nm n : ~ In nm used -> split_step lower p reserved used (Some nm) n = Some (Some nm, n).
  Proof. intro H. cbn [split_step]. rewrite (regen_r_keeps lower p reserved used _ nm n H). reflexivity. Qed.

  (* anchor_split is collision-free (EXACT comparison) for ALL inputs and all reserved sets *)
  Theorem split_names_spec : forall cols used n l n',
    split_names lower p reserved cols used n = Some (l, n') ->
    NoDup (somes l) /\ (forall x, In x (somes l) -> ~ In x used) /\ length l = length cols /\
    Forall2 (fun c x => x = None <-> fst c = DWild) cols l.
  Proof.
    induction cols as [|[d b] cs IH]; intros used n l n' H; cbn [split_names] in H.
    - injection H as <- _. repeat split; [constructor | intros x [] | constructor].
    - destruct (ensure_column_name lower p reserved d b n) as [[old n0]|] eqn:En; [|discriminate].
      destruct (split_step lower p reserved used old n0) as [[new n1]|] eqn:St; [|discriminate].
      destruct (split_names lower p reserved cs (add_used new used) n1) as [[l1 n2]|] eqn:A; [|discriminate].
      injection H as <- _. destruct (IH _ _ _ _ A) as (ND & F & Len & FW).
      assert (new = None <-> d = DWild) as W.
      { rewrite <- (ensure_column_name_wild _ _ _ _ _ En).
        destruct (split_step_spec _ _ _ _ _ St) as [(-> & -> & _)|(o & x & -> & -> & _)]; split; intro; try reflexivity; discriminate. }
      destruct (split_step_spec _ _ _ _ _ St) as [(_ & -> & _)|(o & x & _ & -> & Fr & _)]; cbn [somes add_used] in *.
      + split; [exact ND | split; [exact F | split; [cbn [length]; f_equal; exact Len | constructor; [exact W | exact FW]]]].
      + split; [|split; [|split]].
        * constructor; [|exact ND]. intro Hin. apply (F _ Hin). left. reflexivity.
        * intros y [<-|Hy]; [exact Fr|]. intro Hu. apply (F _ Hy). right. exact Hu.
        * cbn [length]. f_equal. exact Len.
        * constructor; [exact W | exact FW].
  Qed.

  (* a column that has a name which is not taken earlier at the split keeps it *)
  Theorem split_names_keeps d b nm cs used n l n' :
    ensure_column_name lower p reserved d b n = Some (Some nm, n) -> ~ In nm used ->
    split_names lower p reserved ((d, b) :: cs) used n = Some (l, n') -> exists l', l = Some nm :: l'.
  Proof.
    intros En Hn H. cbn [split_names] in H. rewrite En, (split_step_keeps used nm n Hn) in H.
    destruct (split_names lower p reserved cs (add_used (Some nm) used) n) as [[l1 n2]|]; [|discriminate]. injection H as <- _. eauto.
  Qed.

  (* the names that reach a split from outside: `before` names and declared names *)
  Definition col_user_names (cols : list (cdecl * option str)) (x : str) : Prop :=
    exists d b, In (d, b) cols /\ (b = Some x \/ d = DSingle (Some x)).

  (* every output name is a name that came in or a name generated (and unreserved) here *)
  Lemma split_names_origin : forall cols used n l n',
    split_names lower p reserved cols used n = Some (l, n') ->
    forall x, In x (somes l) -> genlike x \/ col_user_names cols x.
  Proof.
    induction cols as [|[d b] cs IH]; intros used n l n' H x Hx; cbn [split_names] in H.
    - injection H as <- _. destruct Hx.
    - destruct (ensure_column_name lower p reserved d b n) as [[old n0]|] eqn:En; [|discriminate].
      destruct (split_step lower p reserved used old n0) as [[new n1]|] eqn:St; [|discriminate].
      destruct (split_names lower p reserved cs (add_used new used) n1) as [[l1 n2]|] eqn:A; [|discriminate].
      injection H as <- _.
      assert (In x (somes l1) -> genlike x \/ col_user_names ((d, b) :: cs) x) as Rec.
      { intro Hin. destruct (IH _ _ _ _ A x Hin) as [K|(d0 & b0 & Hin0 & Hor)]; [left; exact K | right].
        exists d0, b0. split; [right; exact Hin0 | exact Hor]. }
      destruct (split_step_spec _ _ _ _ _ St) as [(_ & -> & _)|(o & y & -> & -> & _ & Hy)]; cbn [somes] in Hx.
      + exact (Rec Hx).
      + destruct Hx as [<-|Hx]; [|exact (Rec Hx)].
        destruct Hy as [[-> _]|G]; [|left; exact G].
        destruct (ensure_column_name_origin _ _ _ _ _ En) as [(_ & Hor)|(_ & G & _)]; [right | left; exact G].
        exists d, b. split; [left; reflexivity | exact Hor].
  Qed.

  Hypothesis gen_stable : forall k, lower (gen_name p k) = gen_name p k.

  Lemma ensure_column_name_total d b n : exists old n', ensure_column_name lower p reserved d b n = Some (old, n').
  Proof.
    destruct d as [|[nm|]|]; destruct b; cbn [ensure_column_name]; eauto;
      destruct (gen_table_name_total lower p reserved gen_stable n) as (x & n' & E); rewrite E; eauto.
  Qed.

  Lemma split_step_total used old n : exists new n', split_step lower p reserved used old n = Some (new, n').
  Proof.
    destruct old as [o|]; cbn [split_step]; [|eauto].
    destruct (regen_r_total lower p reserved used (Some o) n gen_stable) as (x & n' & R). rewrite R. eauto.
  Qed.

  Theorem split_names_total : forall cols used n, exists l n', split_names lower p reserved cols used n = Some (l, n').
  Proof.
    induction cols as [|[d b] cs IH]; intros used n; cbn [split_names]; [eauto|].
    destruct (ensure_column_name_total d b n) as (old & n0 & En). rewrite En.
    destruct (split_step_total used old n0) as (new & n1 & St). rewrite St.
    destruct (IH (add_used new used) n1) as (l & n2 & A). rewrite A. eauto.
  Qed.

  Theorem split_names_fresh cols n :
    exists l n', split_names lower p reserved cols [] n = Some (l, n') /\ NoDup (somes l) /\ length l = length cols /\
                 Forall2 (fun c x => x = None <-> fst c = DWild) cols l.
  Proof.
    destruct (split_names_total cols [] n) as (l & n' & A). exists l, n'. split; [exact A|].
    destruct (split_names_spec _ _ _ _ _ A) as (ND & _ & Len & FW). auto.
  Qed.

  (* the invented alias: a generated, unreserved name outside the used set *)
  Theorem select_item_alias_fresh used n :
    exists nm n', select_item_alias lower p reserved used n = Some (nm, n') /\ ~ In nm used /\ genlike nm /\
                  exists k, n <= k /\ nm = gen_name p k /\ k < n'.
  Proof.
    unfold select_item_alias. destruct (regen_r_total lower p reserved used None n gen_stable) as (nm & n' & R). exists nm, n'.
    split; [exact R | split; [exact (regen_r_fresh _ _ _ _ _ _ _ _ _ R)|]].
    destruct (regen_with_unreserved _ _ _ _ _ _ _ _ _ R) as [[E _]|[(k & Hk & -> & Hlt) Hr]]; [discriminate|].
    split; [split; [eauto | exact Hr] | eauto].
  Qed.

  (* CASE-INSENSITIVE distinctness at a split -- what the repair of F33b buys.  Hypothesis: every name that comes in is a
     user name whose lower-cased form is reserved, or a generated unreserved name (one that an earlier call made). *)
  Theorem split_names_ci_fresh cols n l n' :
    (forall u, col_user_names cols u -> In (lower u) reserved \/ genlike u) ->
    split_names lower p reserved cols [] n = Some (l, n') ->
    forall x y, In x (somes l) -> In y (somes l) -> genlike x -> x <> y -> lower x <> lower y.
  Proof.
    intros HU A x y Hx Hy [(k & ->) Hr] Hne E. rewrite gen_stable in E, Hr.
    assert (In (lower y) reserved \/ genlike y) as [Ry|[(k' & ->) _]].
    { destruct (split_names_origin _ _ _ _ _ A y Hy) as [G|U]; [right; exact G | exact (HU _ U)]. }
    - apply Hr. rewrite E. exact Ry.
    - rewrite gen_stable in E. apply Hne. exact E.
  Qed.

  (* PARTIAL (any reserved set, in particular none): when no incoming name is a case variant of a generated name (other
     than the generated spelling itself), a name of the split that is spelled like a generated one is matched,
     case-insensitively, only by itself *)
  Theorem split_names_ci_partial cols n l n' :
    (forall u k, col_user_names cols u -> lower u = gen_name p k -> u = gen_name p k) ->
    split_names lower p reserved cols [] n = Some (l, n') ->
    forall x y k, In x (somes l) -> In y (somes l) -> x = gen_name p k -> lower y = lower x -> y = x.
  Proof.
    intros NK A x y k Hx Hy -> E. rewrite gen_stable in E.
    destruct (split_names_origin _ _ _ _ _ A y Hy) as [[(k' & ->) _]|U].
    - rewrite gen_stable in E. exact E.
    - exact (NK _ _ U E).
  Qed.
End Columns.

(* ------------------------------------------------------------------ which names reach the column-name places *)

Lemma is_gen_spec p u : is_gen p u = true <-> exists k, u = gen_name p k.
Proof.
  unfold is_gen. split.
  - destruct (strip_prefix p u) as [ds|]; [|discriminate]. intro H. apply leqb_spec in H. eauto.
  - intros [k ->]. unfold gen_name at 1.
    assert (strip_prefix p (p ++ digits_of k) = Some (digits_of k)) as -> by (apply strip_prefix_spec; reflexivity).
    rewrite digits_of_value. apply leqb_refl.
Qed.

Section Context.
  Variable lower : str -> str.
  Variable p : str.
  Variable reserved : list str.
  Hypothesis gen_stable : forall k, lower (gen_name p k) = gen_name p k.

  Notation class_ok := (name_class_ok lower p reserved).
  Notation genlike := (genlike lower p reserved).

  Lemma class_ok_spec u : class_ok u = true <-> In (lower u) reserved \/ genlike u.
  Proof.
    unfold name_class_ok. split.
    - intro H. destruct (mem_str (lower u) reserved) eqn:M; [left; apply mem_str_spec, M|].
      cbn [orb] in H. right. split; [apply is_gen_spec, H | apply mem_str_false, M].
    - intros [H|[G _]]; apply orb_true_iff; [left; apply mem_str_spec, H | right; apply is_gen_spec, G].
  Qed.

  Lemma col_user_names_incoming cols u : col_user_names cols u <-> In u (flat_map col_incoming cols).
  Proof.
    unfold col_user_names. rewrite in_flat_map. split.
    - intros (d & b & Hin & Hor). exists (d, b). split; [exact Hin|]. unfold col_incoming. cbn [fst snd]. apply in_or_app.
      destruct Hor as [->| ->]; [left | right]; left; reflexivity.
    - intros ([d b] & Hin & Hu). exists d, b. split; [exact Hin|]. unfold col_incoming in Hu. cbn [fst snd] in Hu.
      apply in_app_or in Hu as [Hu|Hu].
      + destruct b as [b0|]; [|destruct Hu]. destruct Hu as [<-|[]]. left. reflexivity.
      + destruct d as [|[nm|]|]; [destruct Hu | | destruct Hu | destruct Hu]. destruct Hu as [<-|[]]. right. reflexivity.
  Qed.

  (* the boolean hypothesis gives the hypothesis of split_names_ci_fresh *)
  Lemma incoming_ok_spec cols : incoming_ok lower p reserved cols = true ->
    forall u, col_user_names cols u -> In (lower u) reserved \/ genlike u.
  Proof.
    unfold incoming_ok. rewrite forallb_forall. intros H u Hu. apply class_ok_spec, H, col_user_names_incoming, Hu.
  Qed.

  Theorem split_names_ci_checked cols n l n' :
    incoming_ok lower p reserved cols = true ->
    split_names lower p reserved cols [] n = Some (l, n') ->
    forall x y, In x (somes l) -> In y (somes l) -> genlike x -> x <> y -> lower x <> lower y.
  Proof. intro H. exact (split_names_ci_fresh lower p reserved gen_stable cols n l n' (incoming_ok_spec cols H)). Qed.

  (* the invariant of the context: every name it holds is a name of the RQ or a generated name *)
  Definition ctx_ok (known : list str) : Prop := forall u, In u known -> class_ok u = true.

  Lemma wf_incoming_ok known names : ctx_ok known -> forallb (fun u => mem_str u known) names = true ->
    forallb class_ok names = true.
  Proof.
    intros K W. rewrite forallb_forall in *. intros u Hu. apply K, mem_str_spec, W, Hu.
  Qed.

  Lemma run_op_invariant known n op known' n' splits :
    ctx_ok known -> run_op lower p reserved known n op = Some (known', n', splits) ->
    ctx_ok known' /\
    forall l, In l splits -> forall x y, In x (somes l) -> In y (somes l) -> genlike x -> x <> y -> lower x <> lower y.
  Proof.
    intros K H. unfold run_op in H. destruct (op_wf lower reserved known op) eqn:W; [|discriminate].
    destruct op as [names|d b|cols|]; cbn [op_wf] in W.
    - injection H as <- <- <-. split; [|intros l []].
      intros u Hu. apply in_app_or in Hu as [Hu|Hu]; [|exact (K u Hu)].
      rewrite forallb_forall in W. apply class_ok_spec. left. apply mem_str_spec, W, Hu.
    - destruct (ensure_column_name lower p reserved d b n) as [[[x|] n1]|] eqn:En; [| |discriminate];
        injection H as <- <- <-; (split; [|intros l []]); [|exact K].
      intros u [<-|Hu]; [|exact (K u Hu)].
      destruct (ensure_column_name_origin lower p reserved _ _ _ _ _ En) as [(_ & Hor)|(_ & G & _)].
      + pose proof (wf_incoming_ok known _ K W) as C. rewrite forallb_forall in C. apply C.
        unfold col_incoming. cbn [fst snd]. apply in_or_app. destruct Hor as [->| ->]; [left | right]; left; reflexivity.
      + apply class_ok_spec. right. exact G.
    - destruct (split_names lower p reserved cols [] n) as [[l n1]|] eqn:A; [|discriminate].
      injection H as <- <- <-.
      pose proof (wf_incoming_ok known _ K W) as C. split.
      + intros u Hu. apply in_app_or in Hu as [Hu|Hu]; [|exact (K u Hu)].
        destruct (split_names_origin lower p reserved _ _ _ _ _ A u Hu) as [G|U].
        * apply class_ok_spec. right. exact G.
        * rewrite forallb_forall in C. apply C, col_user_names_incoming, U.
      + intros l0 [<-|[]]. exact (split_names_ci_checked cols n l n1 C A).
    - destruct (select_item_alias lower p reserved known n) as [[x n1]|] eqn:A; [|discriminate].
      injection H as <- <- <-. split; [|intros l []].
      intros u [<-|Hu]; [|exact (K u Hu)].
      destruct (select_item_alias_fresh lower p reserved gen_stable known n) as (nm & n2 & A2 & _ & G & _).
      rewrite A in A2. injection A2 as <- _. apply class_ok_spec. right. exact G.
  Qed.

  (* for EVERY sequence of operations that starts from a context of RQ names / generated names: the invariant is kept
     and in every anchor_split of the sequence a generated name differs case-insensitively from every other name *)
  Theorem run_ops_invariant : forall ops known n known' n' splits,
    ctx_ok known -> run_ops lower p reserved known n ops = Some (known', n', splits) ->
    ctx_ok known' /\
    forall l, In l splits -> forall x y, In x (somes l) -> In y (somes l) -> genlike x -> x <> y -> lower x <> lower y.
  Proof.
    induction ops as [|op r IH]; intros known n known' n' splits K H; cbn [run_ops] in H.
    - injection H as <- <- <-. split; [exact K | intros l []].
    - destruct (run_op lower p reserved known n op) as [[[k1 n1] s1]|] eqn:O; [|discriminate].
      destruct (run_ops lower p reserved k1 n1 r) as [[[k2 n2] s2]|] eqn:R; [|discriminate].
      injection H as <- <- <-.
      destruct (run_op_invariant _ _ _ _ _ _ K O) as [K1 S1]. destruct (IH _ _ _ _ _ K1 R) as [K2 S2].
      split; [exact K2|]. intros l Hl. apply in_app_or in Hl as [Hl|Hl]; [exact (S1 l Hl) | exact (S2 l Hl)].
  Qed.
End Context.

(* the statement about the source as it is: full strength with the repair, the refutation without *)
Lemma column_ci_status p (repaired : bool) (Refuted : Prop) : Refuted ->
  if repaired
  then forall lower rq_columns cols n l n',
         (forall k, lower (gen_name p k) = gen_name p k) ->
         (forall u, (exists d b, In (d, b) cols /\ (b = Some u \/ d = DSingle (Some u))) ->
                    In u rq_columns \/ ((exists k, u = gen_name p k) /\ ~ In (lower u) (code_col_reserved true lower rq_columns))) ->
         split_names lower p (code_col_reserved true lower rq_columns) cols [] n = Some (l, n') ->
         forall x y, In x (somes l) -> In y (somes l) ->
           ((exists k, x = gen_name p k) /\ ~ In (lower x) (code_col_reserved true lower rq_columns)) -> x <> y -> lower x <> lower y
  else Refuted.
Proof.
  intro R. destruct repaired; [|exact R].
  intros lower rq cols n l n' St HU A. apply (split_names_ci_fresh lower p _ St cols n l n'); [|exact A].
  intros u Hu. destruct (HU u Hu) as [Hin|G]; [left | right; exact G].
  cbn [code_col_reserved]. unfold reserved_of. apply in_map, Hin.
Qed.

Lemma not_nodup_witness (x : str) (l : list str) : In x l -> ~ NoDup (x :: l).
Proof. intros Hin H. inversion H as [|y l' Hx _]. exact (Hx Hin). Qed.

(* ------------------------------------------------------------------ lower-casing *)

Lemma lower_ascii_app a b : lower_ascii (a ++ b) = lower_ascii a ++ lower_ascii b.
Proof. apply map_app. Qed.

Lemma lower_ascii_digits : forall w, forallb is_digit w = true -> lower_ascii w = w.
Proof.
  induction w as [|c w IH]; intro H; [reflexivity|]. cbn [forallb] in H. apply andb_prop in H as [Hc Hw].
  unfold lower_ascii in *. cbn [map]. rewrite (IH Hw). f_equal.
  unfold is_digit in Hc. unfold lower_ascii_c. apply andb_prop in Hc as [H1 H2].
  apply N.leb_le in H1. apply N.leb_le in H2.
  destruct ((65 <=? c) && (c <=? 90)) eqn:E; [|reflexivity].
  apply andb_prop in E as [E1 _]. apply N.leb_le in E1. lia.
Qed.

(* generated names are their own lower-case form when the prefix is *)
Theorem gen_name_lower_stable p : lower_ascii p = p -> forall k, lower_ascii (gen_name p k) = gen_name p k.
Proof.
  intros Hp k. unfold gen_name. rewrite lower_ascii_app, Hp. f_equal. apply lower_ascii_digits, digits_of_all_digit.
Qed.

Lemma lower_ascii_c_ascii c : (lower_ascii_c c <? 128) = (c <? 128).
Proof.
  unfold lower_ascii_c. destruct ((65 <=? c) && (c <=? 90)) eqn:E; [|reflexivity].
  apply andb_prop in E as [E1 E2]. apply N.leb_le in E1. apply N.leb_le in E2.
  assert (c + 32 <? 128 = true) as -> by (apply N.ltb_lt; lia). symmetry. apply N.ltb_lt. lia.
Qed.

Lemma lower_ascii_ascii_only s : ascii_only (lower_ascii s) = ascii_only s.
Proof.
  unfold ascii_only, lower_ascii. induction s as [|c s IH]; [reflexivity|]. cbn [map forallb].
  rewrite lower_ascii_c_ascii, IH. reflexivity.
Qed.

(* Rust compares through Unicode lower-casing, SQLite (MySQL, SQL Server: at least) folds ASCII letters.  Any lower-casing
   that agrees with ASCII lower-casing on ASCII-only strings gives ASCII-case-insensitive distinctness from an ASCII name *)
Theorem lower_distinct_implies_ascii_distinct (lower : str -> str) u g :
  (forall s, ascii_only s = true -> lower s = lower_ascii s) -> ascii_only g = true ->
  lower u <> lower g -> lower_ascii u <> lower_ascii g.
Proof.
  intros Ag Hg Hne E. apply Hne.
  assert (ascii_only u = true) as Hu.
  { rewrite <- lower_ascii_ascii_only, E, lower_ascii_ascii_only. exact Hg. }
  rewrite (Ag _ Hu), (Ag _ Hg). exact E.
Qed.

(* Lemmas about Model/Interval.v: the token structure of an emitted interval literal. *)
From Coq Require Import List NArith ZArith Bool Lia.
From PV Require Import Lib.ListX Model.Escape Model.SqlLex Model.Interval Model.Literal Proofs.EscapeProofs Proofs.LiteralProofs.
Import ListNotations.
Local Open Scope N_scope.
Local Arguments N.eqb : simpl never.
Local Arguments N.leb : simpl never.

(* a field name as sqlparser prints it: a bare word without quote or backslash *)
Definition field_ok (f : str) : bool :=
  match f with
  | c :: w => is_alpha c && forallb is_wordc w && forallb safe_char (c :: w)
  | [] => false
  end.

Lemma lex_space_word d c w : is_alpha c = true -> forallb is_wordc w = true -> sql_lex d (32 :: c :: w) = [TWord (c :: w)].
Proof.
  intros Hc Hw. unfold sql_lex. cbn [run]. change (step d L0 32) with (L0, @nil tok). cbn [app].
  pose proof (lex_word d c w [] Hc Hw eq_refl) as L. rewrite app_nil_r in L. exact L.
Qed.

Lemma digits_safe n : forallb safe_char (digits_of n) = true.
Proof.
  pose proof (digits_of_all_digit n) as A. rewrite forallb_forall in *. intros x Hx. apply digit_safe, A, Hx.
Qed.

Definition interval_tokens_of (st : istyle) (digits field : str) : list tok :=
  match st with
  | INoQuotes => [TWord s_INTERVAL; TNumber digits; TWord field]
  | IValueAndUnitQuoted => [TWord s_INTERVAL; TString (digits ++ [32] ++ field)]
  | IValueQuoted => [TWord s_INTERVAL; TString digits; TWord field]
  end.

Theorem interval_tokens d st n field : field_ok field = true ->
  sql_lex d (emit_interval st (digits_of n) field) = interval_tokens_of st (digits_of n) field.
Proof.
  unfold field_ok. destruct field as [|c w]; [discriminate|]. intro H.
  apply andb_true_iff in H as [H Hs]. apply andb_true_iff in H as [Hc Hw].
  assert (closed_prefix d (s_INTERVAL ++ [32]) = true) as CP by reflexivity.
  assert (sql_lex d (s_INTERVAL ++ [32]) = [TWord s_INTERVAL]) as LP by reflexivity.
  destruct st; unfold emit_interval, interval_tokens_of.
  - rewrite app_assoc. rewrite (int_in_context d n (s_INTERVAL ++ [32]) ([32] ++ c :: w) CP eq_refl).
    rewrite LP. cbn [app]. rewrite (lex_space_word d c w Hc Hw). reflexivity.
  - rewrite app_assoc. rewrite <- (app_nil_r (emit_string _)).
    rewrite (string_in_context d (digits_of n ++ [32] ++ c :: w) (s_INTERVAL ++ [32]) [] ); [rewrite LP; reflexivity | | exact CP | reflexivity].
    apply safe_chars_ok. rewrite forallb_app, digits_safe.
    change (fun c0 : N => negb (c0 =? 39) && negb (c0 =? 92)) with safe_char.
    cbn [andb app forallb]. cbn [forallb] in Hs. apply andb_true_iff in Hs as [Hs1 Hs2]. rewrite Hs1, Hs2. reflexivity.
  - rewrite app_assoc.
    rewrite (string_in_context d (digits_of n) (s_INTERVAL ++ [32]) ([32] ++ c :: w)); [| apply safe_chars_ok, digits_safe | exact CP | reflexivity].
    rewrite LP. cbn [app]. rewrite (lex_space_word d c w Hc Hw). reflexivity.
Qed.

(* by name: for every unit of the table whose field is a bare word, whatever the dialect's styles *)
Theorem interval_text_tokens d fields styles n unit t :
  forallb (fun kv => field_ok (fst (snd kv))) fields = true ->
  interval_text fields styles (digits_of n) unit = Some t ->
  exists st field, sql_lex d t = interval_tokens_of st (digits_of n) field.
Proof.
  intros Hf H. unfold interval_text in H.
  assert (forall v, lookup_str unit fields = Some v -> field_ok (fst v) = true) as L.
  { clear H. induction fields as [|[k v'] r IH]; intros v Hl; [discriminate|].
    cbn [forallb fst snd] in Hf. apply andb_true_iff in Hf as [H1 H2]. cbn [lookup_str] in Hl.
    destruct (leqb unit k); [injection Hl as <-; exact H1 | exact (IH H2 v Hl)]. }
  destruct (lookup_str unit fields) as [[field week]|]; [|discriminate]. injection H as <-.
  eexists _, field. apply interval_tokens. exact (L _ eq_refl).
Qed.


(* every unit the lexer accepts has a field: "Unsupported interval unit" is unreachable from source text *)
Definition units_covered (units : list str) (fields : list (str * (str * bool))) : bool :=
  forallb (fun u => match lookup_str u fields with Some _ => true | None => false end) units.

Theorem interval_unit_supported units fields styles dg u :
  units_covered units fields = true -> In u units -> interval_text fields styles dg u <> None.
Proof.
  intros H Hin. unfold units_covered in H. rewrite forallb_forall in H. specialize (H u Hin).
  unfold interval_text. destruct (lookup_str u fields) as [[f w]|]; [discriminate | discriminate].
Qed.

(* the lexer: an accepted interval literal has exactly the count its digits spell, and it fits i64 (full strength since
   fix 8948ad3; before, a count beyond i64::MAX was read as 1) *)
Theorem lex_interval_count units s n u r : lex_interval units s = Some (LInterval n u, r) ->
  exists ip r1, parse_integer s = Some (ip, r1) /\ match_unit units r1 = Some (u, r) /\
                n = base_value 10 (no_us ip) /\ n <= I64_MAX.
Proof.
  unfold lex_interval. destruct (parse_integer s) as [[ip r1]|]; [|discriminate].
  destruct (match_unit units r1) as [[u' r2]|] eqn:M; [|discriminate]. destruct (end_expr r2); [|discriminate].
  cbv zeta. destruct (base_value 10 (no_us ip) <=? I64_MAX) eqn:L; [|discriminate].
  intro H. injection H as <- <- <-. exists ip, r1. repeat split; try reflexivity; [exact M | apply N.leb_le, L].
Qed.

(* Proofs of the C06 rewrites over the reference semantics Model/Rel.v (and Model/Rewrite.v):
   filter split/merge, identity transforms, let-inlining (any number of references), module paths. *)
From Coq Require Import List ZArith QArith NArith Bool Lia Arith Permutation Sorted.
From PV Require Import Model.Rel Model.Subst Model.Rewrite Proofs.SubstProofs.
Import ListNotations.
Local Open Scope nat_scope.

(* ---------------------------------------------------------------- filter split *)
Lemma truth_b2v b : truth (b2v b) = Some b.
Proof. destruct b; reflexivity. Qed.

Lemma is_true_and x y : is_true (eval_bop And x y) = is_true x && is_true y.
Proof.
  unfold is_true, eval_bop.
  destruct (truth x) as [[|]|]; destruct (truth y) as [[|]|]; try rewrite truth_b2v; reflexivity.
Qed.

Lemma filter_filter {A} (f g : A -> bool) (l : list A) :
  filter g (filter f l) = filter (fun x => f x && g x) l.
Proof.
  induction l as [|x t IH]; [reflexivity|]. cbn [filter].
  destruct (f x); cbn [filter andb]; [destruct (g x)|]; rewrite IH; reflexivity.
Qed.

Lemma eval_S_bin f r o a b : eval (S f) r (EBin o a b) = eval_bop o (eval f r a) (eval f r b).
Proof. reflexivity. Qed.

Lemma ev_and r a b : depth a < 50 -> depth b < 50 -> ev r (EBin And a b) = eval_bop And (ev r a) (ev r b).
Proof.
  intros Ha Hb. unfold ev. rewrite (eval_S_bin 49 r And a b).
  rewrite (eval_fuel_irrelevant 49 50 a r) by lia. rewrite (eval_fuel_irrelevant 49 50 b r) by lia. reflexivity.
Qed.

Theorem filter_split : forall a b l, depth a < 50 -> depth b < 50 ->
  apply (TFilter (EBin And a b)) l = apply (TFilter b) (apply (TFilter a) l).
Proof.
  intros a b l Ha Hb. cbn [apply]. rewrite filter_filter. apply filter_ext. intro r.
  rewrite ev_and by assumption. apply is_true_and.
Qed.

(* the same over the fuel-free evaluator, without any side condition: a row passes the conjunction iff it passes both *)
Theorem filter_split_T : forall a b r, is_true (evalT r (EBin And a b)) = is_true (evalT r a) && is_true (evalT r b).
Proof. intros. cbn [evalT]. apply is_true_and. Qed.

(* ---------------------------------------------------------------- identity transforms *)
Theorem derive_empty_id : forall l, apply (TDerive []) l = l.
Proof. intro l. cbn [apply fold_left]. apply map_id. Qed.

Theorem filter_true_id : forall l, apply (TFilter (ELit (VInt 1))) l = l.
Proof.
  intro l. cbn [apply]. induction l as [|r t IH]; [reflexivity|]. cbn [filter].
  assert (E : is_true (ev r (ELit (VInt 1))) = true) by reflexivity. rewrite E, IH. reflexivity.
Qed.

Theorem take_open_id : forall l, apply (TTake (Some 1%Z) None) l = l /\ apply (TTake None None) l = l.
Proof. intro l. split; reflexivity. Qed.

Theorem append_empty_id : forall l, apply (TAppend []) l = l.
Proof. intro l. cbn [apply]. apply app_nil_r. Qed.

(* --- sort directly before another sort --- *)
Lemma isort_cons le x (l : rel) : isort le (x :: l) = insert le x (isort le l).
Proof. reflexivity. Qed.

Lemma insert_perm le x (l : rel) : Permutation (insert le x l) (x :: l).
Proof.
  induction l as [|y t IH]; [apply Permutation_refl|]. cbn [insert]. destruct (le x y); [apply Permutation_refl|].
  eapply Permutation_trans; [apply perm_skip; exact IH | apply perm_swap].
Qed.

Lemma isort_perm le (l : rel) : Permutation (isort le l) l.
Proof.
  induction l as [|x t IH]; [apply Permutation_refl|]. rewrite isort_cons.
  eapply Permutation_trans; [apply insert_perm | apply perm_skip; exact IH].
Qed.

Section Order.
  Variable le : row -> row -> bool.
  Variable dom : row -> Prop.
  Hypothesis total : forall x y, dom x -> dom y -> le x y = true \/ le y x = true.
  Hypothesis trans : forall x y z, dom x -> dom y -> dom z -> le x y = true -> le y z = true -> le x z = true.
  Hypothesis antisym : forall x y, dom x -> dom y -> le x y = true -> le y x = true -> x = y.

  Notation R := (fun x y => le x y = true).

  Lemma insert_sorted x l : dom x -> Forall dom l -> StronglySorted R l -> StronglySorted R (insert le x l).
  Proof.
    intros Hx Hl Hs. induction l as [|y t IH]; cbn [insert]; [constructor; constructor|].
    inversion Hl as [|? ? Hy Ht]; subst. inversion Hs as [|? ? Hst Hyt]; subst.
    destruct (le x y) eqn:E.
    - constructor; [exact Hs|]. constructor; [exact E|].
      rewrite Forall_forall in *. intros z Hz. apply (trans x y z); auto.
    - constructor; [apply IH; assumption|].
      assert (Hyx : le y x = true) by (destruct (total x y Hx Hy) as [H|H]; [congruence | exact H]).
      rewrite Forall_forall in *. intros z Hz.
      apply (Permutation_in _ (insert_perm le x t)) in Hz. destruct Hz as [<-|Hz]; [exact Hyx | apply Hyt; exact Hz].
  Qed.

  Lemma isort_sorted l : Forall dom l -> StronglySorted R (isort le l).
  Proof.
    induction l as [|x t IH]; intro H; [constructor|]. inversion H; subst. rewrite isort_cons.
    apply insert_sorted; [assumption| |apply IH; assumption].
    rewrite Forall_forall in *. intros z Hz. apply (Permutation_in _ (isort_perm le t)) in Hz. auto.
  Qed.

  Lemma sorted_perm_eq l1 : forall l2, Forall dom l1 -> StronglySorted R l1 -> StronglySorted R l2 -> Permutation l1 l2 -> l1 = l2.
  Proof.
    induction l1 as [|x t1 IH]; intros l2 Hd H1 H2 Hp.
    - apply Permutation_nil in Hp. symmetry; exact Hp.
    - destruct l2 as [|y t2]; [apply Permutation_sym, Permutation_nil in Hp; discriminate|].
      inversion Hd as [|? ? Hx Ht]; subst. inversion H1 as [|? ? Hs1 Hx1]; subst. inversion H2 as [|? ? Hs2 Hy2]; subst.
      assert (Hdy : dom y).
      { assert (In y (x :: t1)) by (apply (Permutation_in _ (Permutation_sym Hp)); left; reflexivity).
        rewrite Forall_forall in Ht. destruct H as [<-|H]; auto. }
      assert (x = y).
      { assert (Hxin : In x (y :: t2)) by (apply (Permutation_in _ Hp); left; reflexivity).
        assert (Hyin : In y (x :: t1)) by (apply (Permutation_in _ (Permutation_sym Hp)); left; reflexivity).
        destruct Hxin as [E|Hxin]; [symmetry; exact E|]. destruct Hyin as [E|Hyin]; [exact E|].
        rewrite Forall_forall in Hx1, Hy2. apply antisym; auto. }
      subst y. f_equal. apply IH; try assumption. apply (Permutation_cons_inv Hp).
  Qed.

  Lemma isort_perm_unique l l' : Forall dom l -> Permutation l l' -> isort le l = isort le l'.
  Proof.
    intros Hd Hp.
    assert (Hd' : Forall dom l') by (rewrite Forall_forall in *; intros z Hz; apply Hd; apply (Permutation_in _ (Permutation_sym Hp)); exact Hz).
    apply sorted_perm_eq.
    - rewrite Forall_forall in *. intros z Hz. apply Hd. apply (Permutation_in _ (isort_perm le l)). exact Hz.
    - apply isort_sorted; assumption.
    - apply isort_sorted; assumption.
    - eapply Permutation_trans; [apply isort_perm|]. eapply Permutation_trans; [exact Hp|]. apply Permutation_sym, isort_perm.
  Qed.
End Order.

(* the boolean check gives the three order properties on the rows of l *)
Lemma str_same_eq a : forall b, str_same a b = true -> a = b.
Proof. induction a as [|x t IH]; intros [|y b] H; try discriminate; [reflexivity|]. cbn in H. apply andb_prop in H. destruct H as [H1 H2]. apply N.eqb_eq in H1. subst. f_equal. apply IH; exact H2. Qed.
Lemma val_same_eq a b : val_same a b = true -> a = b.
Proof.
  destruct a as [|x|p|s]; destruct b as [|y|q|t]; cbn; intro H; try discriminate; try reflexivity.
  - apply Z.eqb_eq in H. subst; reflexivity.
  - unfold q_same in H. apply andb_prop in H. destruct H as [H1 H2]. apply Z.eqb_eq in H1. apply Pos.eqb_eq in H2.
    destruct p, q; cbn in *; subst; reflexivity.
  - apply str_same_eq in H. subst; reflexivity.
Qed.
Lemma oname_same_eq a b : oname_same a b = true -> a = b.
Proof. destruct a, b; cbn; intro H; try discriminate; try reflexivity. apply N.eqb_eq in H. subst; reflexivity. Qed.
Lemma col_same_eq a b : col_same a b = true -> a = b.
Proof.
  destruct a as [[q1 n1] v1], b as [[q2 n2] v2]. cbn. intro H. apply andb_prop in H. destruct H as [H H3]. apply andb_prop in H. destruct H as [H1 H2].
  apply oname_same_eq in H1. apply oname_same_eq in H2. apply val_same_eq in H3. subst; reflexivity.
Qed.
Lemma row_same_eq a : forall b, row_same a b = true -> a = b.
Proof. induction a as [|x t IH]; intros [|y b] H; try discriminate; [reflexivity|]. cbn in H. apply andb_prop in H. destruct H as [H1 H2]. apply col_same_eq in H1. subst. f_equal. apply IH; exact H2. Qed.

Lemma ord_ok_spec le l : ord_ok le l = true ->
  (forall x y, In x l -> In y l -> le x y = true \/ le y x = true) /\
  (forall x y z, In x l -> In y l -> In z l -> le x y = true -> le y z = true -> le x z = true) /\
  (forall x y, In x l -> In y l -> le x y = true -> le y x = true -> x = y).
Proof.
  unfold ord_ok. intro H. rewrite forallb_forall in H.
  assert (K : forall x y, In x l -> In y l ->
     (le x y || le y x) = true /\ (negb (le x y && le y x) || row_same x y) = true /\
     (forall z, In z l -> (negb (le x y && le y z) || le x z) = true)).
  { intros x y Hx Hy. specialize (H x Hx). rewrite forallb_forall in H. specialize (H y Hy).
    apply andb_prop in H. destruct H as [H H3]. apply andb_prop in H. destruct H as [H1 H2].
    rewrite forallb_forall in H3. auto. }
  repeat split.
  - intros x y Hx Hy. destruct (K x y Hx Hy) as [H1 _]. apply orb_prop in H1. exact H1.
  - intros x y z Hx Hy Hz Hxy Hyz. destruct (K x y Hx Hy) as [_ [_ H3]]. specialize (H3 z Hz). rewrite Hxy, Hyz in H3. exact H3.
  - intros x y Hx Hy Hxy Hyx. destruct (K x y Hx Hy) as [_ [H2 _]]. rewrite Hxy, Hyx in H2. apply row_same_eq. exact H2.
Qed.

Theorem sort_overridden : forall k1 k2 l, ord_ok (keys_le k2) l = true ->
  apply (TSort k2) (apply (TSort k1) l) = apply (TSort k2) l.
Proof.
  intros k1 k2 l H. cbn [apply]. destruct (ord_ok_spec _ _ H) as [Ht [Htr Ha]].
  apply (isort_perm_unique (keys_le k2) (fun x => In x l)).
  - intros; apply Ht; assumption.
  - intros x y z; intros; apply (Htr x y z); assumption.
  - intros; apply Ha; assumption.
  - rewrite Forall_forall. intros z Hz. apply (Permutation_in _ (isort_perm (keys_le k1) l)). exact Hz.
  - apply isort_perm.
Qed.

(* --- select of the full frame --- *)
Lemma filter_none {A} (p : A -> bool) l : (forall x, In x l -> p x = false) -> filter p l = [].
Proof. induction l as [|x t IH]; intro H; [reflexivity|]. cbn [filter]. rewrite (H x (or_introl eq_refl)). apply IH. intros y Hy. apply H. right; exact Hy. Qed.

Lemma lookup_unique r1 q n v r2 :
  (forall c, In c r1 -> col_name c <> Some n) -> (forall c, In c r2 -> col_name c <> Some n) ->
  lookup (r1 ++ (q, Some n, v) :: r2) None n = v.
Proof.
  intros H1 H2. rewrite lookup_def, filter_app. cbn [filter hit]. rewrite N.eqb_refl. cbn [andb].
  assert (F : forall r, (forall c, In c r -> col_name c <> Some n) -> filter (hit None n) r = []).
  { intros r Hr. apply filter_none. intros [[cq [cn|]] cv] Hin; [|reflexivity]. cbn [hit]. rewrite Bool.andb_true_r.
    apply N.eqb_neq. intro E. subst cn. apply (Hr _ Hin). reflexivity. }
  rewrite (F r1 H1), (F r2 H2). reflexivity.
Qed.

Lemma shadow_fresh acc n v : (forall c, In c acc -> col_name c <> Some n) ->
  shadow acc (None, Some n, v) = acc ++ [(None, Some n, v)].
Proof.
  intro H. cbn [shadow]. f_equal. rewrite <- (map_id acc) at 2. apply map_ext_in.
  intros [[q [m|]] w] Hin; [|reflexivity]. destruct (N.eqb n m) eqn:E; [|reflexivity].
  apply N.eqb_eq in E. subst m. exfalso. apply (H _ Hin). reflexivity.
Qed.

Lemma select_all_row : forall (r2 r1 : row) (ns2 : list name) (full : row),
  full = r1 ++ r2 -> map col_name r2 = map Some ns2 -> NoDup (map col_name full) ->
  fold_left (fun acc (c : option name * expr) => shadow acc (mk_col (fst c) (snd c) (ev full (snd c)))) (all_cols ns2) (unq r1)
  = unq full.
Proof.
  induction r2 as [|[[q on] v] r2 IH]; intros r1 ns2 full Hf Hn Hd.
  - destruct ns2; [|discriminate]. cbn [all_cols map fold_left]. rewrite Hf, app_nil_r. reflexivity.
  - destruct ns2 as [|n ns2]; [discriminate|]. cbn [map col_name] in Hn. injection Hn as Hon Hn. subst on.
    cbn [all_cols map fold_left fst snd]. fold (all_cols ns2).
    assert (Hsplit : NoDup (map col_name r1 ++ Some n :: map col_name r2)).
    { rewrite Hf, map_app in Hd. exact Hd. }
    assert (H1 : forall c, In c r1 -> col_name c <> Some n).
    { intros c Hc E. apply NoDup_remove_2 in Hsplit. apply Hsplit. apply in_or_app. left. rewrite <- E. apply in_map. exact Hc. }
    assert (H2 : forall c, In c r2 -> col_name c <> Some n).
    { intros c Hc E. apply NoDup_remove_2 in Hsplit. apply Hsplit. apply in_or_app. right. rewrite <- E. apply in_map. exact Hc. }
    assert (Hev : ev full (ECol None n) = v).
    { change (ev full (ECol None n)) with (lookup full None n). rewrite Hf. apply lookup_unique; assumption. }
    rewrite Hev. unfold mk_col. cbn [name_of].
    rewrite shadow_fresh.
    + change (unq r1 ++ [(None, Some n, v)]) with (unq r1 ++ unq [(q, Some n, v)]). unfold unq at 1 2. rewrite <- map_app. fold (unq (r1 ++ [(q, Some n, v)])).
      apply IH; [rewrite Hf, <- app_assoc; reflexivity | exact Hn | exact Hd].
    + intros c Hc. unfold unq in Hc. apply in_map_iff in Hc. destruct Hc as [[[cq cn] cv] [E Hin]]. subst c. cbn [col_name]. apply (H1 _ Hin).
Qed.

Theorem select_all_id : forall ns l, NoDup ns -> Forall (fun r => map col_name r = map Some ns) l ->
  apply (TSelect (all_cols ns)) l = map unq l.
Proof.
  intros ns l Hd Hl. cbn [apply]. apply map_ext_in. intros r Hr. rewrite Forall_forall in Hl. specialize (Hl r Hr).
  apply (select_all_row r [] ns r); [reflexivity | exact Hl|].
  rewrite Hl. apply FinFun.Injective_map_NoDup; [intros a b E; injection E; auto | exact Hd].
Qed.

Lemma values_unq l : values (map unq l) = values l.
Proof.
  unfold values. rewrite map_map. apply map_ext. intro r. unfold unq. rewrite map_map. apply map_ext. intros [[q n] v]. reflexivity.
Qed.
Lemma names_unq l : names (map unq l) = names l.
Proof. destruct l as [|r t]; [reflexivity|]. cbn [map names]. unfold unq. rewrite map_map. apply map_ext. intros [[q n] v]. reflexivity. Qed.

Corollary select_all_values : forall ns l, NoDup ns -> Forall (fun r => map col_name r = map Some ns) l ->
  values (apply (TSelect (all_cols ns)) l) = values l /\ names (apply (TSelect (all_cols ns)) l) = names l.
Proof. intros ns l Hd Hl. rewrite select_all_id by assumption. split; [apply values_unq | apply names_unq]. Qed.

(* ---------------------------------------------------------------- let-bound tables *)
Theorem let_prefix_sound : forall (base : rel) (p rest : list transform), run base (p ++ rest) = run (run base p) rest.
Proof. intros. unfold run. apply fold_left_app. Qed.

Lemma tsem_pipeline env src ts : tsem env (pipeline src ts) = run (tsem env src) ts.
Proof.
  unfold pipeline, run. revert src. induction ts as [|t ts IH]; intro src; [reflexivity|]. cbn [fold_left]. rewrite IH. reflexivity.
Qed.

Scheme texp_mut := Induction for texp Sort Prop
with tstep_mut := Induction for tstep Sort Prop.

Lemma tget_here env x v : tget ((x, v) :: env) x = v.
Proof. unfold tget. cbn [find fst]. rewrite N.eqb_refl. reflexivity. Qed.
Lemma tget_other env x y v : N.eqb x y = false -> tget ((x, v) :: env) y = tget env y.
Proof. intro H. unfold tget. cbn [find fst]. rewrite H. reflexivity. Qed.

(* every reference to x -- one, two (self-join, append) or none -- may be replaced by x's definition *)
Theorem let_inline_sound : forall env x d e, tsem (tlet env x d) e = tsem env (tsubst x d e).
Proof.
  intros env x d. unfold tlet.
  apply (texp_mut (fun e => tsem ((x, tsem env d) :: env) e = tsem env (tsubst x d e))
                  (fun st => tstep_sem ((x, tsem env d) :: env) st = tstep_sem env (tstep_subst x d st))).
  - reflexivity.
  - intro y. cbn [tsem tsubst]. destruct (N.eqb y x) eqn:E.
    + apply N.eqb_eq in E. subst y. apply tget_here.
    + cbn [tsem]. apply tget_other. rewrite N.eqb_sym. exact E.
  - intros src Hs st Hst. cbn [tsem tsubst]. rewrite Hs, Hst. reflexivity.
  - reflexivity.
  - intros b Hb. cbn [tstep_sem tstep_subst]. rewrite Hb. reflexivity.
  - intros s al uc u Hu on. cbn [tstep_sem tstep_subst]. rewrite Hu. reflexivity.
Qed.

(* `let x = (from b | p)` then `from x | rest`  ==  `from b | p | rest` *)
Corollary let_then_from : forall env x b p rest,
  tsem (tlet env x (pipeline (TBase b) p)) (pipeline (TVar x) rest) = run b (p ++ rest).
Proof.
  intros. rewrite tsem_pipeline. unfold tlet. cbn [tsem]. rewrite tget_here, tsem_pipeline. cbn [tsem]. symmetry. apply let_prefix_sound.
Qed.

(* two references: `from x | append x | rest` and `from x | join y = x (on) | rest` against the inlined forms *)
Corollary let_two_refs_append : forall env x d rest,
  tsem (tlet env x d) (pipeline (TApply (TVar x) (SAppend (TVar x))) rest)
  = run (tsem env d ++ tsem env d) rest.
Proof. intros. rewrite tsem_pipeline. unfold tlet. cbn [tsem tstep_sem apply]. rewrite tget_here. reflexivity. Qed.

Corollary let_two_refs_join : forall env x d s al uc on rest,
  tsem (tlet env x d) (pipeline (TApply (TVar x) (SJoin s al uc (TVar x) on)) rest)
  = tsem env (pipeline (TApply d (SJoin s al uc d on)) rest).
Proof.
  intros. rewrite let_inline_sound. f_equal. unfold pipeline.
  assert (G : forall e, tsubst x d (fold_left (fun e t => TApply e (SPlain t)) rest e) = fold_left (fun e t => TApply e (SPlain t)) rest (tsubst x d e)).
  { induction rest as [|t ts IH]; intro e; [reflexivity|]. cbn [fold_left]. rewrite IH. reflexivity. }
  rewrite G. cbn [tsubst tstep_subst]. rewrite N.eqb_refl. reflexivity.
Qed.

(* ---------------------------------------------------------------- module paths *)
Lemma find_set_same {B} (m : list (name * B)) n d : find_name (set_name m n d) n = Some d.
Proof.
  unfold find_name. induction m as [|[k v] t IH]; cbn [set_name find fst].
  - rewrite N.eqb_refl. reflexivity.
  - destruct (N.eqb k n) eqn:E; cbn [find fst]; rewrite E; [reflexivity | exact IH].
Qed.
Lemma find_set_other {B} (m : list (name * B)) n d q : q <> n -> find_name (set_name m n d) q = find_name m q.
Proof.
  intro H. unfold find_name. induction m as [|[k v] t IH]; cbn [set_name find fst].
  - destruct (N.eqb n q) eqn:E; [apply N.eqb_eq in E; congruence | reflexivity].
  - destruct (N.eqb k n) eqn:E; cbn [find fst].
    + apply N.eqb_eq in E. subst k. destruct (N.eqb n q) eqn:E2; [apply N.eqb_eq in E2; congruence | reflexivity].
    + destruct (N.eqb k q); [reflexivity | exact IH].
Qed.

(* lookup by the path a declaration was inserted at returns the declaration itself *)
Theorem mget_minsert_same : forall A path (m m' : module A) n d, minsert m path n d = Some m' -> mget m' path n = Some d.
Proof.
  intros A path. induction path as [|p rest IH]; intros m m' n d H.
  - cbn [minsert] in H. injection H as <-. cbn [mget]. apply find_set_same.
  - cbn [minsert] in H. cbn [mget].
    destruct (find_name m p) as [[a|inner]|].
    + discriminate.
    + destruct (minsert inner rest n d) as [i|] eqn:E; [|discriminate]. injection H as <-. rewrite find_set_same. apply (IH _ _ _ _ E).
    + destruct (minsert [] rest n d) as [i|] eqn:E; [|discriminate]. injection H as <-. rewrite find_set_same. apply (IH _ _ _ _ E).
Qed.

(* everything reached through another top-level name is untouched: in particular a top-level declaration with the
   same NAME as one that lives in a module is not what the path finds, and is not changed by the insertion *)
Theorem mget_minsert_other_top : forall A (m m' : module A) p rest n d q path' n',
  minsert m (p :: rest) n d = Some m' -> q <> p ->
  mget m' (q :: path') n' = mget m (q :: path') n' /\ mget m' [] q = mget m [] q.
Proof.
  intros A m m' p rest n d q path' n' H Hq. cbn [minsert] in H.
  assert (K : exists i, m' = set_name m p (DMod i)).
  { destruct (find_name m p) as [[a|inner]|]; [discriminate| |];
      match type of H with context [minsert ?x rest n d] => destruct (minsert x rest n d) as [i|]; [|discriminate] end;
      injection H as <-; eexists; reflexivity. }
  destruct K as [i ->]. cbn [mget]. rewrite !find_set_other by exact Hq. split; reflexivity.
Qed.

(* a declaration is the same thing at top level and behind a module path *)
Theorem module_path_irrelevant : forall A (m m1 m2 : module A) path n d,
  minsert m [] n d = Some m1 -> minsert m path n d = Some m2 ->
  mget m2 path n = mget m1 [] n /\ mget m1 [] n = Some d.
Proof.
  intros A m m1 m2 path n d H1 H2. rewrite (mget_minsert_same _ _ _ _ _ _ H2), (mget_minsert_same _ _ _ _ _ _ H1). split; reflexivity.
Qed.

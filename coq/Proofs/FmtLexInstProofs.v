(* C14, text level: Proofs/FmtLexProofs.v instantiated (Model/FmtLexInst.v).  [text_tables_ok] is the finite obligation on
   the two sets of regenerated tables, decided by vm_compute in Props/C14.v (fmt_text_tables):
     - C17's three table obligations (tables_wf, relex_tables_ok, forward_tables_ok),
     - every keyword of the lexer and true / false / null are among the words both identifier printers put in backticks,
     - true / false / null are spelled alike on both sides,
     - every operator spelling of the formatter is a control character or a two-character operator of the lexer,
       `=` and `|` are control characters, `=>` is an operator,
     - reading the kinds of the spellings back gives the symbols (FmtLex.back_ok). *)
From Coq Require Import List NArith ZArith Bool Arith Lia.
From PV Require Import Lib.ListX Model.FmtLit Model.FmtPratt Model.Fmt Model.FmtInst Model.FmtLex Model.FmtLexInst
  Proofs.FmtLitProofs Proofs.FmtProofs Proofs.FmtLexProofs.
From PV Require Model.Lexer Model.LexerGen Proofs.LexProofs Proofs.LexRelexDefs Proofs.LexRelex Proofs.LexForward.
Import ListNotations.
Local Open Scope N_scope.

Definition text_tables_ok : bool :=
  LexProofs.tables_wf LT && LexRelexDefs.relex_tables_ok LT && LexForward.forward_tables_ok LT &&
  forallb (fun k => existsb (leqb k) (it_disp_reserved I_prql) && existsb (leqb k) (it_fmt_keywords I_prql))
          (Lexer.t_keywords LT ++ LexRelexDefs.words LT) &&
  leqb (Lexer.t_true LT) w_true && leqb (Lexer.t_false LT) w_false && leqb (Lexer.t_null LT) w_null &&
  forallb (fun txt => match sym_kind LT txt with Some _ => true | None => false end) symtab &&
  Lexer.c_in 61 (Lexer.t_controls LT) && Lexer.c_in 124 (Lexer.t_controls LT) &&
  match sym_kind LT [61; 62] with Some _ => true | None => false end &&
  back_ok (length symtab) skind_prql arrow_prql (sym_tok LT symtab).

Section Inst.
  Hypothesis HT : text_tables_ok = true.
  Hypothesis HI : idtab_ok I_prql = true.
  Variable is_alpha is_alnum : N -> bool.
  Hypothesis ascii_alpha : forall c, c < 128 -> is_alpha c = in_ranges letters c.
  Hypothesis ascii_alnum : forall c, c < 128 -> is_alnum c = in_ranges alnum_ascii c.

  Theorem text_lexes ts : spaced_prql ts = true ->
    exists toks, Lexer.lex is_alpha is_alnum LT (render R_prql ts) = Some (Lexer.start_token :: toks) /\
                 map Lexer.tkind toks = kinds_prql ts /\ untok_prql (map Lexer.tkind toks) = Some ts.
  Proof.
    pose proof HT as H. unfold text_tables_ok in H.
    apply andb_true_iff in H as [H Hback].
    apply andb_true_iff in H as [H Harrow]. apply andb_true_iff in H as [H Hpipe]. apply andb_true_iff in H as [H Heq].
    apply andb_true_iff in H as [H Hsym]. apply andb_true_iff in H as [H Hnull]. apply andb_true_iff in H as [H Hfalse].
    apply andb_true_iff in H as [H Htrue]. apply andb_true_iff in H as [H Hkw]. apply andb_true_iff in H as [H FK].
    apply andb_true_iff in H as [WF TK].
    pose proof (symtab_lexes LT is_alpha is_alnum TK FK symtab Hsym) as [HS HF].
    assert (HA : LexForward.lexes_as is_alpha is_alnum LT [61; 62] arrow_prql /\ LexForward.kind_finite arrow_prql = true).
    { unfold arrow_prql. destruct (sym_kind LT [61; 62]) as [k|] eqn:E; [|discriminate Harrow].
      exact (sym_kind_lexes LT is_alpha is_alnum TK FK _ k E). }
    destruct HA as [HA1 HA2].
    apply (text_roundtrip R_prql (length symtab) LT is_alpha is_alnum skind_prql arrow_prql WF TK FK ascii_alpha ascii_alnum HI).
    - intros w K. rewrite forallb_forall in Hkw.
      assert (Hin : In w (Lexer.t_keywords LT ++ LexRelexDefs.words LT)) by (apply in_or_app; exact K).
      specialize (Hkw w Hin). apply andb_true_iff in Hkw. exact Hkw.
    - repeat split; apply leqb_spec; assumption.
    - exact HS.
    - exact Heq.
    - exact Hpipe.
    - exact HA1.
    - split; [exact HF | exact HA2].
    - exact Hback.
  Qed.

  (* composed with the token-level round trip: text -> lexer -> tokens -> parser gives the tree back *)
  Hypothesis HC : compat F_prql P_prql nbin nun = true.
  Theorem expr_text_roundtrip e : wf e = true -> ops_ok nbin nun e = true -> is_named e = false -> spaced_prql (fmt_toks e) = true ->
    exists toks f0, Lexer.lex is_alpha is_alnum LT (fmt_text e) = Some (Lexer.start_token :: toks) /\
                    forall f, (f0 <= f)%nat -> parse_kinds f (map Lexer.tkind toks) = Some e.
  Proof.
    intros Hw Ho Hn Hs. destruct (text_lexes (fmt_toks e) Hs) as [toks [E1 [_ E3]]].
    destruct (roundtrip F_prql P_prql nbin nun (compat_sound _ _ _ _ HC) e Hw Ho Hn) as [f0 Hf].
    exists toks, f0. split; [exact E1|]. intros f Lf. unfold parse_kinds. rewrite E3. exact (Hf f Lf).
  Qed.
End Inst.

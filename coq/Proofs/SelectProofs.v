From Coq Require Import List NArith Bool Lia.
From PV Require Import Lib.ListX Model.Select.
Import ListNotations.
Local Open Scope N_scope.

Section Proofs.
  Variable names : list str.
  Variable default : nat.
  Variable prefix any : str.
  Hypothesis Hok : table_ok names default any = true.

  Let ND : NoDup names.
  Proof. unfold table_ok in Hok. apply andb_true_iff in Hok as [H _]. apply andb_true_iff in H as [H _]. apply nodupb_spec; exact H. Qed.

  Let AnyNot : ~ In any names.
  Proof.
    unfold table_ok in Hok. apply andb_true_iff in Hok as [H _]. apply andb_true_iff in H as [_ H].
    apply negb_true_iff in H. intro Hin.
    assert (existsb (leqb any) names = true) as E by (apply existsb_exists; exists any; split; [exact Hin|apply leqb_refl]).
    congruence.
  Qed.

  Notation tfs := (target_from_str names prefix any).
  Notation sel := (select_dialect names default prefix any).
  Notation tname := (target_name names prefix).

  Lemma from_str_name d : (d < length names)%nat -> tfs (tname d) = Some (TSql (Some d)).
  Proof.
    intro Hd. unfold target_from_str, target_name.
    assert (strip_prefix prefix (prefix ++ nth d names []) = Some (nth d names [])) as -> by (apply strip_prefix_spec; reflexivity).
    assert (In (nth d names []) names) as Hin by (apply nth_In; exact Hd).
    destruct (leqb (nth d names []) any) eqn:E.
    - apply leqb_spec in E. rewrite E in Hin. contradiction.
    - unfold dialect_from_str. erewrite find_index_nodup; [reflexivity | exact ND | apply nth_error_nth'; exact Hd].
  Qed.

  (* from_str is the inverse of naming: Ok d  <->  s = "sql." ++ name d  (d a declared variant) *)
  Lemma from_str_total_inverse s d :
    tfs s = Some (TSql (Some d)) <-> ((d < length names)%nat /\ s = tname d).
  Proof.
    split.
    - unfold target_from_str. destruct (strip_prefix prefix s) as [r|] eqn:E; [|discriminate].
      apply strip_prefix_spec in E. destruct (leqb r any); [discriminate|].
      unfold dialect_from_str. destruct (find_index r names) as [i|] eqn:F; [|discriminate].
      intro H; injection H as <-. apply find_index_some in F.
      split; [apply nth_error_Some; congruence|]. unfold target_name. rewrite (nth_error_nth _ _ _ F). exact E.
    - intros [Hd ->]. apply from_str_name; exact Hd.
  Qed.

  Lemma from_str_any s : tfs s = Some (TSql None) <-> s = prefix ++ any.
  Proof.
    unfold target_from_str. split.
    - destruct (strip_prefix prefix s) as [r|] eqn:E; [|discriminate]. apply strip_prefix_spec in E.
      destruct (leqb r any) eqn:A; [apply leqb_spec in A; subst; reflexivity|].
      unfold dialect_from_str. destruct (find_index r names); discriminate.
    - intros ->. assert (strip_prefix prefix (prefix ++ any) = Some any) as -> by (apply strip_prefix_spec; reflexivity).
      rewrite leqb_refl. reflexivity.
  Qed.

  Lemma unknown_target_is_error s :
    (forall d, (d < length names)%nat -> s <> tname d) -> s <> prefix ++ any ->
    sel None (Some s) = Err.
  Proof.
    intros Hn Ha. unfold select_dialect. destruct (tfs s) as [[[d|]]|] eqn:E; [| |reflexivity].
    - apply from_str_total_inverse in E as [Hd ->]. exfalso. eapply Hn; eauto.
    - apply from_str_any in E. contradiction.
  Qed.

  Lemma option_overrides_header d h : sel (Some d) h = Ok d.
  Proof. reflexivity. Qed.

  Lemma neither_is_default : sel None None = Ok default.
  Proof. reflexivity. Qed.

  Lemma header_any_is_default : sel None (Some (prefix ++ any)) = Ok default.
  Proof. unfold select_dialect. assert (tfs (prefix ++ any) = Some (TSql None)) as -> by (apply from_str_any; reflexivity). reflexivity. Qed.

  Lemma option_eq_header d : (d < length names)%nat -> sel (Some d) None = sel None (Some (tname d)).
  Proof. intro Hd. unfold select_dialect. rewrite (from_str_name d Hd). reflexivity. Qed.

  Variable rq sql : Type.
  Variable gen : dialect -> rq -> res sql.
  Notation cw := (compile_with names default prefix any rq sql gen).

  Lemma option_eq_header_sql d q : (d < length names)%nat -> cw (Some d) None q = cw None (Some (tname d)) q.
  Proof. intro Hd. unfold compile_with. rewrite (option_eq_header d Hd). reflexivity. Qed.

  Lemma option_overrides_header_sql d h q : cw (Some d) h q = gen d q.
  Proof. reflexivity. Qed.

  Lemma neither_is_default_sql q : cw None None q = gen default q.
  Proof. reflexivity. Qed.

  Lemma unknown_target_is_error_sql s q :
    (forall d, (d < length names)%nat -> s <> tname d) -> s <> prefix ++ any -> cw None (Some s) q = Err.
  Proof. intros H1 H2. unfold compile_with. rewrite (unknown_target_is_error s H1 H2). reflexivity. Qed.

  (* selection is total and never invents a dialect outside the table *)
  Lemma select_in_table opt h d :
    (default < length names)%nat -> (forall o, opt = Some o -> (o < length names)%nat) ->
    sel opt h = Ok d -> (d < length names)%nat.
  Proof.
    intros Hdef Ho. unfold select_dialect. destruct opt as [o|].
    - intro H; injection H as <-. apply Ho; reflexivity.
    - destruct h as [s|]; [|intro H; injection H as <-; exact Hdef].
      destruct (tfs s) as [[[x|]]|] eqn:E; [| |discriminate].
      + apply from_str_total_inverse in E as [Hx _]. intro H; injection H as <-; exact Hx.
      + intro H; injection H as <-; exact Hdef.
  Qed.
End Proofs.

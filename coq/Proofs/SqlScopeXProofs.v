(* C07 -- lemmas about the second layer of the scope checker (Model/SqlScopeX.v): the verdict is the conjunction of its
   obligations; the traversal visits every column reference and every window frame of the syntax tree exactly once, in
   order (mutual induction over the AST); what each kind of obligation gives when it holds. *)
From Coq Require Import List NArith Bool Arith Lia.
From PV Require Import Model.SqlAst Model.SqlScope Model.SqlScopeX Proofs.SqlScopeProofs.
Import ListNotations.
Local Open Scope N_scope.

Lemma xws_ok_iff XP P te q :
  well_formed_x XP P te q = true <-> Forall (fun o => xobl_ok XP o = true) (xobligations P te q).
Proof.
  unfold well_formed_x, xfailing. split.
  - intros H. apply filter_nil_forall. destruct (filter _ _); [reflexivity|discriminate].
  - intros H. now rewrite (forall_filter_nil _ _ H).
Qed.

(* ------------------------------------------------------------------ the traversal misses no site *)
Lemma omap_grouped kc ks outs cl (l : list cref) :
  omap site_of_xobl (map (fun qc => XGrouped kc ks outs cl (fst qc) (snd qc)) l) = [].
Proof. induction l; cbn; auto. Qed.

Lemma omap_gitems kc ks i : omap site_of_xobl (x_gitems kc ks i) = [].
Proof.
  induction i as [|e a r IH|q ek ex r IH]; cbn [x_gitems]; [reflexivity| |cbn; exact IH].
  rewrite omap_app, omap_grouped. exact IH.
Qed.

Lemma xokey_one P e :
  (forall te sc al cl, omap site_of_xobl (x_expr P te sc al cl e) = xr_expr e) ->
  forall te sc outs,
    omap site_of_xobl (match e with
                       | ECol None c => [XAmbBare sc outs COrder c]
                       | _ => x_expr P te sc (when (al_order_nested P) outs) COrder e
                       end) = xr_expr e.
Proof.
  intros H te sc outs.
  destruct e as [[qq|] c | | qq | f a | f a p o fr | q0]; try apply H. reflexivity.
Qed.

Theorem xsites_complete_all P :
  (forall e te sc al cl, omap site_of_xobl (x_expr P te sc al cl e) = xr_expr e) /\
  (forall x, (forall te sc al cl, omap site_of_xobl (x_exprs P te sc al cl x) = xr_exprs x)
             /\ (forall te sc outs, omap site_of_xobl (x_okeys P te sc outs x) = xr_exprs x)) /\
  (forall q te sc, omap site_of_xobl (x_query P te sc q) = xr_query q) /\
  (forall c te rc, omap site_of_xobl (x_ctes P te rc c) = xr_ctes c) /\
  (forall s te sc, omap site_of_xobl (x_setexpr P te sc s) = xr_setexpr s) /\
  (forall i te sc, omap site_of_xobl (x_items P te sc i) = xr_items i) /\
  (forall f te sc, omap site_of_xobl (x_from P te sc f) = xr_from f).
Proof.
  apply ast_mutind; intros; cbn [x_expr x_exprs x_query x_okeys x_ctes x_setexpr x_items x_from
                                   xr_expr xr_exprs xr_query xr_ctes xr_setexpr xr_items xr_from omap site_of_xobl].
  - destruct q; reflexivity.
  - reflexivity.
  - reflexivity.
  - apply H.
  - rewrite !omap_app. destruct H as [H _], H0 as [H0 _], H1 as [H1 _]. rewrite H, H0, H1.
    destruct fr; reflexivity.
  - apply H.
  - split; reflexivity.
  - destruct H0 as [H0a H0b]. split; intros; rewrite omap_app.
    + now rewrite H, H0a.
    + rewrite H0b. f_equal. now apply xokey_one.
  - rewrite !omap_app. destruct H1 as [_ H1]. rewrite H, H0, H1.
    assert (E : omap site_of_xobl
      match body with
      | SSelect _ _ proj _ _ g h =>
          if agg_select proj g h
          then map (fun qc => XGrouped (kc_exprs g) (ks_exprs g) (rcols (out_setexpr (env_ctes te cs) body)) COrder (fst qc) (snd qc)) (fc_exprs order)
          else []
      | _ => []
      end = []).
    { destruct body; try reflexivity. destruct (agg_select _ _ _); [apply omap_grouped | reflexivity]. }
    rewrite E, app_nil_r. reflexivity.
  - reflexivity.
  - rewrite omap_app. now rewrite H, H0.
  - rewrite !omap_app.
    destruct H as [H _], H2 as [H2 _], H3 as [H3 _], H4 as [H4 _].
    rewrite H0, H1, H, H2, H3, H4.
    destruct (agg_select _ _ _); [|now rewrite app_nil_r].
    rewrite omap_app, omap_gitems, omap_grouped. now rewrite app_nil_r.
  - rewrite !omap_app. now rewrite H, H0.
  - apply H.
  - reflexivity.
  - rewrite omap_app. now rewrite H, H0.
  - apply H.
  - reflexivity.
  - rewrite omap_app. destruct H as [H _]. now rewrite H, H0.
  - rewrite !omap_app. destruct H0 as [H0 _]. now rewrite H, H0, H1.
Qed.

Corollary xsites_complete P te q : omap site_of_xobl (xobligations P te q) = xr_query q.
Proof. unfold xobligations. apply (xsites_complete_all P). Qed.

(* ------------------------------------------------------------------ what a verdict gives *)
Theorem bare_unambiguous XP P te q :
  well_formed_x XP P te q = true -> forall sc al cl c, In (XAmbBare sc al cl c) (xobligations P te q) ->
  ((if mem c al then count_name c al else bare_count sc c) <= 1)%nat.
Proof.
  intros H sc al cl c Hin. apply xws_ok_iff in H. rewrite Forall_forall in H.
  specialize (H _ Hin). cbn in H. now apply Nat.leb_le.
Qed.

Theorem qual_unambiguous XP P te q :
  well_formed_x XP P te q = true -> forall sc cl qq c, In (XAmbQual sc cl qq c) (xobligations P te q) ->
  (qual_count sc qq c <= 1)%nat.
Proof.
  intros H sc cl qq c Hin. apply xws_ok_iff in H. rewrite Forall_forall in H.
  specialize (H _ Hin). cbn in H. now apply Nat.leb_le.
Qed.

Theorem frames_valid XP P te q :
  well_formed_x XP P te q = true -> forall u s e n, In (XWFrame u s e n) (xobligations P te q) -> frame_valid u s e n = true.
Proof.
  intros H u s e n Hin. apply xws_ok_iff in H. rewrite Forall_forall in H. exact (H _ Hin).
Qed.

(* the rules [frame_valid] stands for *)
Definition end_of (e : option wbound) : wbound := match e with Some b => b | None => WCur end.
Theorem frame_valid_spec u s e n : frame_valid u s e n = true ->
  s <> WFol None /\ end_of e <> WPrec None /\
  (s = WCur -> forall k, end_of e <> WPrec k) /\
  (forall j, s = WFol j -> exists k, end_of e = WFol k) /\
  (u = 2 -> (bound_has_offset s = true \/ bound_has_offset (end_of e) = true) -> n = 1%nat).
Proof.
  unfold frame_valid, end_of. intros H.
  apply andb_prop in H as [H H4]. apply andb_prop in H as [H H3]. apply andb_prop in H as [H1 H2].
  repeat split.
  - intros ->. discriminate.
  - intros E. rewrite E in H2. discriminate.
  - intros -> k E. rewrite E in H3. discriminate.
  - intros j ->. destruct (match e with Some b => b | None => WCur end) as [|k|k]; try discriminate. now exists k.
  - intros -> Ho. cbn in H4. destruct Ho as [Ho|Ho]; rewrite Ho in H4; cbn in H4; rewrite ?orb_true_r in H4; cbn in H4;
      now apply Nat.eqb_eq.
Qed.

Theorem grouped_columns XP P te q : bare_agg XP = false ->
  well_formed_x XP P te q = true -> forall kc ks outs cl qq c, In (XGrouped kc ks outs cl qq c) (xobligations P te q) ->
  key_match kc ks qq c = true \/ (qq = None /\ mem c outs = true).
Proof.
  intros Hb H kc ks outs cl qq c Hin. apply xws_ok_iff in H. rewrite Forall_forall in H.
  specialize (H _ Hin). cbn in H. rewrite Hb in H. cbn in H.
  apply orb_prop in H as [H|H]; [left; exact H | right]. destruct qq; [discriminate | auto].
Qed.

(* the select list of an aggregate SELECT: every column reference outside an aggregate call gets its obligation *)
Fixpoint fc_items (i : items) : list cref :=
  match i with INil => [] | IExpr e _ r => fc_expr e ++ fc_items r | IWild _ _ _ r => fc_items r end.
Lemma gitems_cover kc ks i qc : In qc (fc_items i) -> In (XGrouped kc ks [] CProj (fst qc) (snd qc)) (x_gitems kc ks i).
Proof.
  induction i as [|e a r IH|q ek ex r IH]; cbn [fc_items x_gitems]; intros H; [destruct H| |right; auto].
  apply in_app_or in H as [H|H]; apply in_or_app; [left|right; auto].
  apply (in_map (fun qc => XGrouped kc ks [] CProj (fst qc) (snd qc))) in H. exact H.
Qed.

(* C16: invariants of the Lowerer state machine (Model/Lowerer.v), for ALL operation sequences. *)
From Coq Require Import List NArith Bool Lia Arith.
From PV Require Import Lib.ListX Model.Rq Model.RqWf Model.Lowerer Proofs.RqWfProofs.
Import ListNotations.
Local Open Scope N_scope.

(* ------------------------------------------------------------------ counting *)

Definition cnt (l : list N) (x : N) : nat := count_occ N.eq_dec l x.

Lemma cnt_app l1 l2 x : cnt (l1 ++ l2) x = (cnt l1 x + cnt l2 x)%nat.
Proof. apply count_occ_app. Qed.

Lemma cnt_nil x : cnt [] x = 0%nat.
Proof. reflexivity. Qed.

Lemma cnt_In l x : In x l <-> (cnt l x > 0)%nat.
Proof. apply count_occ_In. Qed.

Lemma cnt_NoDup l : NoDup l <-> forall x, (cnt l x <= 1)%nat.
Proof. apply NoDup_count_occ. Qed.

Lemma cnt_single a x : cnt [a] x = if N.eq_dec a x then 1%nat else 0%nat.
Proof. unfold cnt. cbn. destruct (N.eq_dec a x); reflexivity. Qed.

Lemma cnt_incl l1 l2 : incl l1 l2 <-> forall x, (cnt l1 x > 0 -> cnt l2 x > 0)%nat.
Proof.
  split.
  - intros H x Hx. apply cnt_In. apply H. apply cnt_In. exact Hx.
  - intros H x Hx. apply cnt_In. apply H. apply cnt_In. exact Hx.
Qed.

Global Opaque cnt.

Lemma seqN_In b n x : In x (seqN b n) <-> b <= x < b + N.of_nat n.
Proof.
  unfold seqN. rewrite in_map_iff. split.
  - intros [i [<- Hi]]. apply in_seq in Hi. lia.
  - intros H. exists (N.to_nat (x - b)). split; [lia|]. apply in_seq. lia.
Qed.

Lemma seqN_NoDup b n : NoDup (seqN b n).
Proof.
  unfold seqN. generalize 0%nat as k. induction n as [|n IH]; intro k; cbn [seq map]; [constructor|].
  constructor; [|apply IH]. rewrite in_map_iff. intros [i [E Hi]]. apply in_seq in Hi. lia.
Qed.

Lemma seqN_length b n : length (seqN b n) = n.
Proof. unfold seqN. rewrite map_length, seq_length. reflexivity. Qed.

Lemma cnt_seqN_le b n x : (cnt (seqN b n) x <= 1)%nat.
Proof. apply cnt_NoDup. apply seqN_NoDup. Qed.

Lemma cnt_seqN_pos b n x : (cnt (seqN b n) x > 0)%nat -> b <= x < b + N.of_nat n.
Proof. intro H. apply seqN_In. apply cnt_In. exact H. Qed.

Lemma combine_snd {A B} (l : list A) (l' : list B) : length l = length l' -> map snd (combine l l') = l'.
Proof.
  revert l'. induction l as [|a l IH]; intros [|b l'] H; cbn in *; try reflexivity; try discriminate.
  f_equal. apply IH. lia.
Qed.

Lemma combine_fst {A B} (l : list A) (l' : list B) : length l = length l' -> map fst (combine l l') = l.
Proof.
  revert l'. induction l as [|a l IH]; intros [|b l'] H; cbn in *; try reflexivity; try discriminate.
  f_equal. apply IH. lia.
Qed.

Ltac nlia := unfold tid, cid in *; lia.

(* ------------------------------------------------------------------ structure of the aggregated lists *)

Lemma Tdefs_snoc ts t : Tdefs (ts ++ [t]) = Tdefs ts ++ relation_defs (t_relation t).
Proof. unfold Tdefs. rewrite flat_map_app. cbn [flat_map]. rewrite app_nil_r. reflexivity. Qed.

Lemma Tuses_snoc ts t : Tuses (ts ++ [t]) = Tuses ts ++ relation_uses (t_relation t).
Proof. unfold Tuses. rewrite flat_map_app. cbn [flat_map]. rewrite app_nil_r. reflexivity. Qed.

Lemma pdefs_snoc p t : pipeline_defs (p ++ [t]) = pipeline_defs p ++ transform_defs t.
Proof. unfold pipeline_defs. rewrite flat_map_app. cbn [flat_map]. rewrite app_nil_r. reflexivity. Qed.

Lemma puses_snoc p t : flat_map transform_uses (p ++ [t]) = flat_map transform_uses p ++ transform_uses t.
Proof. rewrite flat_map_app. cbn [flat_map]. rewrite app_nil_r. reflexivity. Qed.

Lemma ptrefs_snoc p t : flat_map transform_trefs (p ++ [t]) = flat_map transform_trefs p ++ transform_trefs t.
Proof. rewrite flat_map_app. cbn [flat_map]. rewrite app_nil_r. reflexivity. Qed.

Lemma Fdefs_cons k p fs : Fdefs ((k, p) :: fs) = pipeline_defs p ++ Fdefs fs.
Proof. reflexivity. Qed.

Lemma Fuses_cons k p fs : Fuses ((k, p) :: fs) = flat_map transform_uses p ++ Fuses fs.
Proof. reflexivity. Qed.

Lemma push_top_some t fs fs' :
  push_top t fs = Some fs' -> exists k p r, fs = (k, p) :: r /\ fs' = (k, p ++ [t]) :: r.
Proof. destruct fs as [|[k p] r]; cbn; [discriminate|]. intro H; injection H as <-. eauto. Qed.

Lemma guard_incl s cs : guard s cs = true -> incl cs (mapping_cids (mapping s)).
Proof.
  unfold guard. intros H c Hc. rewrite forallb_forall in H. apply memN_In. apply H. exact Hc.
Qed.

Lemma guard_cnt s cs : guard s cs = true -> forall x, (cnt cs x > 0 -> cnt (mapping_cids (mapping s)) x > 0)%nat.
Proof. intro H. apply cnt_incl. apply guard_incl. exact H. Qed.

(* ------------------------------------------------------------------ the cid invariant, with pending definitions *)

(* pend = cids already handed out (recorded in `mapping`) whose defining transform is about to be pushed *)
Record InvC (pend : list cid) (s : lstate) : Prop := {
  c_nodup : forall x, (cnt (defs_of s) x + cnt pend x <= 1)%nat;
  c_bound : forall x, (cnt (defs_of s) x + cnt pend x > 0)%nat -> x < next_cid s;
  c_map : forall x, (cnt (mapping_cids (mapping s)) x > 0 -> cnt (defs_of s) x + cnt pend x > 0)%nat;
  c_uses : forall x, (cnt (uses_of s) x > 0 -> cnt (defs_of s) x + cnt pend x > 0)%nat }.

Definition tables_ordered (ts : list table_decl) : Prop :=
  forall k t, nth_error ts k = Some t -> incl (relation_trefs (t_relation t)) (firstn k (map t_id ts)).

Record InvT (s : lstate) : Prop := {
  t_nodup : forall x, (cnt (tids_of s) x <= 1)%nat;
  t_bound : forall x, (cnt (tids_of s) x > 0)%nat -> x < next_tid s;
  t_order : tables_ordered (tables s);
  t_ftrefs : forall f, In f (frames s) -> incl (flat_map transform_trefs (snd f)) (map t_id (tables s));
  t_shape : forall t, In t (tables s) -> pipeline_shape (t_relation t);
  t_from : forall f, In f (frames s) -> fst f <> FLoop -> exists r p', snd f = TFrom r :: p' }.

Definition Inv (s : lstate) : Prop := InvC [] s /\ InvT s.

Lemma Inv_init : Inv init.
Proof.
  split; constructor; unfold defs_of, uses_of, tids_of, tables_ordered; cbn [init tables frames mapping next_cid next_tid Tdefs Tuses Fdefs Fuses flat_map map reserved mapping_cids app];
    intros; rewrite ?cnt_nil in *; try nlia; try contradiction.
  destruct k; discriminate.
Qed.

(* ---- generic facts about tables_ordered ---- *)

Lemma ordered_snoc ts t :
  tables_ordered ts -> incl (relation_trefs (t_relation t)) (map t_id ts) -> tables_ordered (ts ++ [t]).
Proof.
  intros Ho Hi k t' Hk. rewrite map_app.
  destruct (Nat.lt_ge_cases k (length ts)) as [Hlt|Hge].
  - rewrite nth_error_app1 in Hk by exact Hlt. specialize (Ho k t' Hk).
    rewrite firstn_app. rewrite map_length.
    replace (k - length ts)%nat with 0%nat by nlia. cbn [firstn]. rewrite app_nil_r. exact Ho.
  - rewrite nth_error_app2 in Hk by exact Hge.
    destruct (k - length ts)%nat as [|j] eqn:E; cbn in Hk; [|destruct j; discriminate].
    injection Hk as <-. assert (k = length ts) as -> by nlia.
    rewrite firstn_app, map_length, Nat.sub_diag. cbn [firstn]. rewrite app_nil_r.
    rewrite <- (map_length t_id ts), firstn_all. exact Hi.
Qed.

Lemma ids_snoc ts t : map t_id (ts ++ [t]) = map t_id ts ++ [t_id t].
Proof. rewrite map_app. reflexivity. Qed.

(* ---- the invariants only read some fields ---- *)

Lemma InvC_ext pend s s' :
  next_cid s' = next_cid s -> mapping s' = mapping s -> frames s' = frames s -> tables s' = tables s ->
  InvC pend s -> InvC pend s'.
Proof.
  intros E1 E2 E3 E4 [H1 H2 H3 H4].
  constructor; unfold defs_of, uses_of in *; rewrite ?E1, ?E2, ?E3, ?E4; assumption.
Qed.

Lemma InvT_ext s s' :
  next_tid s' = next_tid s -> frames s' = frames s -> tables s' = tables s -> InvT s -> InvT s'.
Proof.
  intros E1 E3 E4 [H1 H2 H3 H4 H5 H6].
  constructor; unfold tids_of in *; rewrite ?E1, ?E3, ?E4; assumption.
Qed.

Lemma InvT_tid_mono s n :
  next_tid s <= n -> InvT s -> InvT (mkL (next_cid s) n (mapping s) (frames s) (tables s)).
Proof.
  intros Hn [H1 H2 H3 H4 H5 H6]. constructor; unfold tids_of in *; cbn [next_tid frames tables]; try assumption.
  intros x Hx. specialize (H2 x Hx). nlia.
Qed.

(* ---- resolve_src ---- *)

Lemma find_table_some ts t d : find_table ts t = Some d -> In d ts /\ t_id d = t.
Proof. unfold find_table. intro H. apply find_some in H as [H1 H2]. apply N.eqb_eq in H2. auto. Qed.

Lemma pipeline_shape_leaf k cols : (forall p, k <> KPipeline p) -> pipeline_shape (mkRel k cols).
Proof. intros H p E. cbn in E. subst. exfalso. eapply H. reflexivity. Qed.

Lemma resolve_src_inv s x t cols s2 :
  InvC [] s -> InvT s -> resolve_src s x = Some (t, cols, s2) ->
  InvC [] s2 /\ InvT s2 /\ In t (map t_id (tables s2))
  /\ next_cid s2 = next_cid s /\ mapping s2 = mapping s /\ frames s2 = frames s
  /\ next_tid s <= next_tid s2
  /\ (forall y, y < next_tid s -> cnt (tids_of s2) y = cnt (tids_of s) y).
Proof.
  intros HC HT. destruct x as [t0|l lc]; cbn [resolve_src].
  - destruct (find_table (tables s) t0) as [d|] eqn:F; [|discriminate].
    intro H; injection H as <- <- <-. apply find_table_some in F as [Hin Hid].
    split; [exact HC|]. split; [exact HT|]. split; [rewrite <- Hid; apply in_map; exact Hin|].
    repeat split; try reflexivity; nlia.
  - destruct (guard s (leaf_cids l)) eqn:G; [|discriminate].
    intro H; injection H as <- <- <-. cbn [next_cid next_tid mapping frames tables].
    destruct HC as [C1 C2 C3 C4]. destruct HT as [T1 T2 T3 T4 T5 T6].
    assert (forall y, cnt (tids_of (mkL (next_cid s) (next_tid s + 1) (mapping s) (frames s)
              (tables s ++ [mkTable (next_tid s) None (mkRel (leaf_kind l) lc)]))) y
            = (cnt (tids_of s) y + cnt [next_tid s] y)%nat) as Et.
    { intro y. unfold tids_of. cbn [tables frames]. rewrite ids_snoc. cbn [t_id]. rewrite !cnt_app. nlia. }
    split; [|split; [|split; [|split; [|split; [|split; [|split]]]]]]; try reflexivity.
    + (* InvC *) constructor; unfold defs_of, uses_of; cbn [next_cid mapping frames tables];
        rewrite ?Tdefs_snoc, ?Tuses_snoc; cbn [t_relation].
      * intro y. specialize (C1 y). unfold defs_of in C1. unfold relation_defs. cbn [r_kind].
        destruct l; cbn [leaf_kind]; rewrite !cnt_app, ?cnt_nil in *; nlia.
      * intros y Hy. apply C2. unfold defs_of. unfold relation_defs in Hy. cbn [r_kind] in Hy.
        destruct l; cbn [leaf_kind] in Hy; rewrite !cnt_app, ?cnt_nil in *; nlia.
      * intros y Hy. specialize (C3 y Hy). unfold defs_of in C3. unfold relation_defs. cbn [r_kind].
        destruct l; cbn [leaf_kind]; rewrite !cnt_app, ?cnt_nil in *; nlia.
      * intros y Hy. rewrite !cnt_app in Hy.
        assert (cnt (Tuses (tables s) ++ Fuses (frames s)) y > 0 \/ cnt (leaf_cids l) y > 0)%nat as [Hu|Hu].
        { unfold relation_uses in Hy. cbn [r_kind] in Hy. rewrite cnt_app.
          destruct l; cbn [leaf_kind leaf_cids] in *; rewrite ?cnt_nil in *; nlia. }
        -- specialize (C4 y Hu). unfold defs_of in C4. unfold relation_defs. cbn [r_kind].
           destruct l; cbn [leaf_kind]; rewrite !cnt_app, ?cnt_nil in *; nlia.
        -- pose proof (guard_cnt s _ G y Hu) as Hm. specialize (C3 y Hm). unfold defs_of in C3. unfold relation_defs. cbn [r_kind].
           destruct l; cbn [leaf_kind]; rewrite !cnt_app, ?cnt_nil in *; nlia.
    + (* InvT *) constructor; cbn [next_tid frames tables].
      * intro y. rewrite Et. rewrite cnt_single. specialize (T1 y).
        destruct (N.eq_dec (next_tid s) y) as [<-|]; [|nlia].
        assert (cnt (tids_of s) (next_tid s) = 0)%nat; [|nlia].
        destruct (cnt (tids_of s) (next_tid s)) eqn:E; [reflexivity|]. specialize (T2 (next_tid s)). nlia.
      * intros y Hy. rewrite Et in Hy. rewrite cnt_single in Hy.
        destruct (N.eq_dec (next_tid s) y) as [<-|]; [nlia|]. specialize (T2 y). nlia.
      * apply ordered_snoc; [exact T3|]. cbn [t_relation]. unfold relation_trefs. cbn [r_kind].
        destruct l; cbn [leaf_kind]; intros ? [].
      * intros f Hf y Hy. rewrite ids_snoc. apply in_or_app. left. eapply T4; eassumption.
      * intros t' Ht'. apply in_app_or in Ht' as [Ht'|[<-|[]]]; [apply T5; exact Ht'|].
        cbn [t_relation]. apply pipeline_shape_leaf. intros p. destruct l; discriminate.
      * exact T6.
    + rewrite ids_snoc. apply in_or_app. right. left. reflexivity.
    + nlia.
    + intros y Hy. rewrite Et, cnt_single. destruct (N.eq_dec (next_tid s) y); [nlia|nlia].
Qed.

(* ---- mk_instance ---- *)

Lemma hm_collect_incl l : incl (hm_collect l) l.
Proof.
  induction l as [|x l IH]; cbn [hm_collect]; [apply incl_refl|].
  destruct (existsb _ l); [apply incl_tl; exact IH|].
  intros y [<-|Hy]; [left; reflexivity | right; apply IH; exact Hy].
Qed.

Lemma mk_instance_inv s node name t cols r s3 :
  InvC [] s -> mk_instance s node name t cols = (r, s3) ->
  InvC (tref_cids r) s3 /\ tr_source r = t
  /\ tables s3 = tables s /\ frames s3 = frames s /\ next_tid s3 = next_tid s.
Proof.
  intros [C1 C2 C3 C4]. unfold mk_instance. intro H; injection H as <- <-.
  set (u := cols). set (b := next_cid s).
  assert (tref_cids (mkTRef t (combine u (seqN b (length u))) name) = seqN b (length u)) as Er.
  { unfold tref_cids. cbn [tr_columns]. apply combine_snd. rewrite seqN_length. reflexivity. }
  cbn [tr_source tables frames next_tid]. split; [|repeat split; reflexivity].
  rewrite Er. constructor; unfold defs_of, uses_of in *; cbn [next_cid mapping frames tables].
  - intro x. specialize (C1 x). pose proof (cnt_seqN_le b (length u) x).
    destruct (cnt (seqN b (length u)) x) eqn:E; [nlia|].
    assert (b <= x) by (apply (cnt_seqN_pos b (length u) x); nlia).
    destruct (cnt (Tdefs (tables s) ++ Fdefs (frames s)) x) eqn:E2; [nlia|].
    specialize (C2 x). rewrite E2 in C2. cbn in C2. unfold b in *. nlia.
  - intros x Hx. destruct (cnt (seqN b (length u)) x) eqn:E.
    + specialize (C2 x). rewrite cnt_nil in C2. unfold b. nlia.
    + pose proof (cnt_seqN_pos b (length u) x). nlia.
  - intros x Hx. apply cnt_In in Hx. unfold mapping_cids in Hx. cbn [flat_map snd target_cids] in Hx.
    fold (mapping_cids (mapping s)) in Hx. apply in_app_or in Hx as [Hx|Hx].
    + (* a column of the new instance: the HashMap holds a subset of the instance's cids *)
      apply in_map_iff in Hx as [rc [<- Hrc]]. apply hm_collect_incl in Hrc.
      assert (In (snd rc) (seqN b (length u))) as Hin.
      { rewrite <- (combine_snd u (seqN b (length u))) by (rewrite seqN_length; reflexivity). apply in_map. exact Hrc. }
      apply cnt_In in Hin. nlia.
    + apply cnt_In in Hx. specialize (C3 x Hx). rewrite cnt_nil in C3. nlia.
  - intros x Hx. specialize (C4 x Hx). rewrite cnt_nil in C4. nlia.
Qed.

Lemma mk_instance_columns s node name t cols r s3 :
  mk_instance s node name t cols = (r, s3) ->
  map fst (tr_columns r) = cols /\ tref_cids r = seqN (next_cid s) (length cols)
  /\ mapping s3 = (node, MInput (hm_collect (tr_columns r))) :: mapping s.
Proof.
  unfold mk_instance. intro H; injection H as <- <-. cbn [tr_columns mapping]. unfold tref_cids. cbn [tr_columns].
  repeat split; [apply combine_fst | apply combine_snd]; rewrite seqN_length; reflexivity.
Qed.

(* ---- redirect_mappings ---- *)

Lemma redirect_cid_cases rs c : redirect_cid rs c = c \/ In (redirect_cid rs c) (map snd rs).
Proof.
  unfold redirect_cid. destruct (find (fun p => N.eqb (fst p) c) (rev rs)) as [p|] eqn:F; [|left; reflexivity].
  right. apply find_some in F as [F _]. apply in_map. apply in_rev. exact F.
Qed.

Lemma redirect_cids rs m x :
  In x (mapping_cids (redirect rs m)) -> In x (mapping_cids m) \/ In x (map snd rs).
Proof.
  unfold mapping_cids, redirect. rewrite flat_map_concat_map, map_map, <- flat_map_concat_map.
  intro H. apply in_flat_map in H as [[n tg] [Hin Hx]]. cbn [snd fst] in Hx.
  destruct tg as [c|cols]; cbn [redirect_target target_cids] in Hx.
  - destruct Hx as [<-|[]]. destruct (redirect_cid_cases rs c) as [->|Hr]; [|right; exact Hr].
    left. apply in_flat_map. exists (n, MCompute c). split; [exact Hin | left; reflexivity].
  - rewrite map_map in Hx. cbn [snd] in Hx. apply in_map_iff in Hx as [[rc c] [<- Hc]]. cbn [snd].
    destruct (redirect_cid_cases rs c) as [->|Hr]; [|right; exact Hr].
    left. apply in_flat_map. exists (n, MInput cols). split; [exact Hin|]. cbn [snd target_cids].
    change c with (snd (rc, c)). apply in_map. exact Hc.
Qed.

Lemma redirect_inv pend s rs :
  InvC pend s -> incl (map snd rs) pend ->
  InvC pend (mkL (next_cid s) (next_tid s) (redirect rs (mapping s)) (frames s) (tables s)).
Proof.
  intros [C1 C2 C3 C4] Hrs. constructor; unfold defs_of, uses_of in *; cbn [next_cid mapping frames tables]; try assumption.
  intros x Hx. apply cnt_In in Hx. apply redirect_cids in Hx as [Hx|Hx].
  - apply C3. apply cnt_In. exact Hx.
  - apply Hrs in Hx. apply cnt_In in Hx. nlia.
Qed.

Lemma combine_snd_incl {A B} (l : list A) (l' : list B) : incl (map snd (combine l l')) l'.
Proof.
  revert l'. induction l as [|a l IH]; intros [|b l']; cbn; try (intros ? []; fail).
  intros x [<-|H]; [left; reflexivity | right; apply IH; exact H].
Qed.

(* ---- pushing a transform that defines exactly the pending cids ---- *)

Lemma push_inv pend s tr fs :
  InvC pend s -> InvT s -> push_top tr (frames s) = Some fs ->
  (forall x, cnt (transform_defs tr) x = cnt pend x) ->
  (forall x, (cnt (transform_uses tr) x > 0 -> cnt (defs_of s) x + cnt pend x > 0)%nat) ->
  incl (transform_trefs tr) (map t_id (tables s)) ->
  Inv (mkL (next_cid s) (next_tid s) (mapping s) fs (tables s)).
Proof.
  intros [C1 C2 C3 C4] [T1 T2 T3 T4 T5 T6] Hp Hd Hu Ht.
  apply push_top_some in Hp as [k [p [r [Ef ->]]]].
  assert (forall x, cnt (defs_of (mkL (next_cid s) (next_tid s) (mapping s) ((k, p ++ [tr]) :: r) (tables s))) x
                    = (cnt (defs_of s) x + cnt pend x)%nat) as Ed.
  { intro x. unfold defs_of. cbn [tables frames]. rewrite Ef, !Fdefs_cons, pdefs_snoc, !cnt_app, Hd. nlia. }
  assert (forall x, cnt (uses_of (mkL (next_cid s) (next_tid s) (mapping s) ((k, p ++ [tr]) :: r) (tables s))) x
                    = (cnt (uses_of s) x + cnt (transform_uses tr) x)%nat) as Eu.
  { intro x. unfold uses_of. cbn [tables frames]. rewrite Ef, !Fuses_cons, puses_snoc, !cnt_app. nlia. }
  split; constructor; cbn [next_cid next_tid mapping tables].
  - intro x. rewrite Ed, cnt_nil. specialize (C1 x). nlia.
  - intros x Hx. rewrite Ed, cnt_nil in Hx. apply C2. nlia.
  - intros x Hx. rewrite Ed, cnt_nil. specialize (C3 x Hx). nlia.
  - intros x Hx. rewrite Ed, cnt_nil. rewrite Eu in Hx.
    destruct (cnt (uses_of s) x) eqn:E; [specialize (Hu x); nlia | specialize (C4 x); nlia].
  - intro x. unfold tids_of in *. cbn [tables frames]. rewrite Ef in T1. exact (T1 x).
  - intros x Hx. unfold tids_of in *. cbn [tables frames] in Hx. rewrite Ef in T2. exact (T2 x Hx).
  - exact T3.
  - cbn [frames]. intros f [<-|Hf]; cbn [snd].
    + rewrite ptrefs_snoc. apply incl_app; [|exact Ht]. apply (T4 (k, p)). rewrite Ef. left; reflexivity.
    + apply T4. rewrite Ef. right; exact Hf.
  - exact T5.
  - cbn [frames]. intros f [<-|Hf] Hk; cbn [snd fst] in *.
    + destruct (T6 (k, p)) as [r0 [p' E]]; [rewrite Ef; left; reflexivity | exact Hk |].
      cbn [snd] in E. subst p. exists r0, (p' ++ [tr]). reflexivity.
    + apply T6; [rewrite Ef; right; exact Hf | exact Hk].
Qed.

(* ---- opening a frame with its From ---- *)

Lemma reserved_cons k p fs :
  reserved ((k, p) :: fs) = (match k with FInline t => [t] | _ => [] end) ++ reserved fs.
Proof. reflexivity. Qed.

Lemma newframe_inv pend s k r :
  InvC pend s -> InvT s ->
  (forall x, cnt (tref_cids r) x = cnt pend x) ->
  In (tr_source r) (map t_id (tables s)) ->
  match k with
  | FInline t0 => cnt (tids_of s) t0 = 0%nat /\ t0 < next_tid s
  | FTable => True
  | FLoop => False
  end ->
  Inv (mkL (next_cid s) (next_tid s) (mapping s) ((k, [TFrom r]) :: frames s) (tables s)).
Proof.
  intros [C1 C2 C3 C4] [T1 T2 T3 T4 T5 T6] Hd Hs Hk.
  assert (forall x, cnt (defs_of (mkL (next_cid s) (next_tid s) (mapping s) ((k, [TFrom r]) :: frames s) (tables s))) x
                    = (cnt (defs_of s) x + cnt pend x)%nat) as Ed.
  { intro x. unfold defs_of. cbn [tables frames]. rewrite Fdefs_cons. unfold pipeline_defs. cbn [flat_map transform_defs].
    rewrite app_nil_r, !cnt_app, Hd. nlia. }
  assert (forall x, cnt (uses_of (mkL (next_cid s) (next_tid s) (mapping s) ((k, [TFrom r]) :: frames s) (tables s))) x
                    = cnt (uses_of s) x) as Eu.
  { intro x. unfold uses_of. cbn [tables frames]. rewrite Fuses_cons. cbn [flat_map transform_uses app]. reflexivity. }
  split; constructor; cbn [next_cid next_tid mapping tables].
  - intro x. rewrite Ed, cnt_nil. specialize (C1 x). nlia.
  - intros x Hx. rewrite Ed, cnt_nil in Hx. apply C2. nlia.
  - intros x Hx. rewrite Ed, cnt_nil. specialize (C3 x Hx). nlia.
  - intros x Hx. rewrite Ed, cnt_nil. rewrite Eu in Hx. specialize (C4 x Hx). nlia.
  - intro x. unfold tids_of in *. cbn [tables frames]. rewrite reserved_cons, !cnt_app. specialize (T1 x). rewrite cnt_app in T1.
    destruct k as [|t0|]; rewrite ?cnt_nil; try nlia.
    destruct Hk as [Hk _]. rewrite cnt_app in Hk. rewrite cnt_single. destruct (N.eq_dec t0 x) as [<-|]; nlia.
  - intros x Hx. unfold tids_of in *. cbn [tables frames] in Hx. rewrite reserved_cons, !cnt_app in Hx.
    destruct k as [|t0|]; rewrite ?cnt_nil in Hx; try (apply T2; rewrite ?cnt_app; nlia).
    rewrite cnt_single in Hx. destruct (N.eq_dec t0 x) as [<-|]; [tauto | apply T2; rewrite ?cnt_app; nlia].
  - exact T3.
  - cbn [frames]. intros f [<-|Hf]; cbn [snd]; [|apply T4; exact Hf].
    cbn [flat_map transform_trefs app]. intros ? [<-|[]]. exact Hs.
  - exact T5.
  - cbn [frames]. intros f [<-|Hf] Hk'; cbn [snd fst] in *; [eauto | apply T6; assumption].
Qed.

(* ---- instance + use + push: shared by OInstance and OEndInline ---- *)

Lemma apply_use_facts s r u tr :
  apply_use s r u = Some tr ->
  transform_defs tr = tref_cids r /\ transform_trefs tr = [tr_source r]
  /\ (forall x, (cnt (transform_uses tr) x > 0 -> cnt (mapping_cids (mapping s)) x > 0)%nat).
Proof.
  destruct u as [|sd f|]; cbn [apply_use].
  - intro H; injection H as <-. cbn. repeat split. intros x Hx. rewrite cnt_nil in Hx. nlia.
  - destruct (guard s (expr_cids f)) eqn:G; [|discriminate]. intro H; injection H as <-. cbn. repeat split.
    apply guard_cnt. exact G.
  - intro H; injection H as <-. cbn. repeat split. intros x Hx. rewrite cnt_nil in Hx. nlia.
Qed.

Lemma use_push_inv s r u tr fs :
  InvC (tref_cids r) s -> InvT s -> In (tr_source r) (map t_id (tables s)) ->
  apply_use s r u = Some tr -> push_top tr (frames s) = Some fs ->
  Inv (mkL (next_cid s) (next_tid s) (mapping s) fs (tables s)).
Proof.
  intros HC HT Hs Hu Hp. apply apply_use_facts in Hu as [Hd [Ht Hu]].
  eapply push_inv; try eassumption.
  - intro x. rewrite Hd. reflexivity.
  - intros x Hx. apply (c_map _ _ HC). apply Hu. exact Hx.
  - rewrite Ht. intros ? [<-|[]]. exact Hs.
Qed.

(* ------------------------------------------------------------------ every step keeps the invariant *)

Lemma simple_facts t : simple t = true -> transform_defs t = [] /\ transform_trefs t = [].
Proof. destruct t; cbn; try discriminate; auto. Qed.

Theorem step_inv s o s' : Inv s -> step s o = Some s' -> Inv s'.
Proof.
  intros [HC HT]. destruct o; cbn [step].
  - (* ODeclExtern *)
    intro H; injection H as <-. destruct HC as [C1 C2 C3 C4]. destruct HT as [T1 T2 T3 T4 T5 T6].
    assert (forall y, cnt (tids_of (mkL (next_cid s) (next_tid s + 1) (mapping s) (frames s)
              (tables s ++ [mkTable (next_tid s) None (mkRel (KExternRef name) cols)]))) y
            = (cnt (tids_of s) y + cnt [next_tid s] y)%nat) as Et.
    { intro y. unfold tids_of. cbn [tables frames]. rewrite ids_snoc. cbn [t_id]. rewrite !cnt_app. nlia. }
    split; constructor; unfold defs_of, uses_of in *; cbn [next_cid next_tid mapping frames tables];
      rewrite ?Tdefs_snoc, ?Tuses_snoc; cbn [t_relation]; unfold relation_defs, relation_uses; cbn [r_kind];
      rewrite ?app_nil_r; try assumption.
    + intro y. rewrite Et, cnt_single. specialize (T1 y). destruct (N.eq_dec (next_tid s) y) as [<-|]; [|nlia].
      destruct (cnt (tids_of s) (next_tid s)) eqn:E; [nlia|]. specialize (T2 (next_tid s)). nlia.
    + intros y Hy. rewrite Et, cnt_single in Hy. destruct (N.eq_dec (next_tid s) y) as [<-|]; [nlia|].
      specialize (T2 y). nlia.
    + apply ordered_snoc; [exact T3|]. intros ? [].
    + intros f Hf y Hy. rewrite ids_snoc. apply in_or_app. left. eapply T4; eassumption.
    + intros t' Ht'. apply in_app_or in Ht' as [Ht'|[<-|[]]]; [apply T5; exact Ht'|].
      apply pipeline_shape_leaf. discriminate.
  - (* OBegin *)
    set (k := if inline then FInline (next_tid s) else FTable).
    set (s1 := if inline then mkL (next_cid s) (next_tid s + 1) (mapping s) (frames s) (tables s) else s).
    assert (InvC [] s1) as HC1 by (unfold s1; destruct inline; [eapply InvC_ext; [..|exact HC]; reflexivity | exact HC]).
    assert (InvT s1) as HT1.
    { unfold s1; destruct inline; [|exact HT]. apply InvT_tid_mono; [nlia | exact HT]. }
    destruct (resolve_src s1 s0) as [[[t cols] s2]|] eqn:R; [|discriminate].
    destruct (resolve_src_inv _ _ _ _ _ HC1 HT1 R) as [HC2 [HT2 [Hin [E1 [E2 [E3 [E4 E5]]]]]]].
    destruct (mk_instance s2 node name t cols) as [r s3] eqn:M.
    destruct (mk_instance_inv _ _ _ _ _ _ _ HC2 M) as [HC3 [Hsrc [Et [Ef En]]]].
    intro H; injection H as <-.
    apply newframe_inv with (pend := tref_cids r).
    + exact HC3.
    + eapply InvT_ext; [..|exact HT2]; assumption.
    + reflexivity.
    + rewrite Hsrc, Et. exact Hin.
    + unfold k. destruct inline; [|exact I].
      assert (next_tid s1 = next_tid s + 1) as En1 by reflexivity.
      split.
      * unfold tids_of. rewrite Et, Ef. fold (tids_of s2). rewrite E5 by nlia.
        unfold s1, tids_of. cbn [tables frames]. fold (tids_of s).
        destruct (cnt (tids_of s) (next_tid s)) eqn:E; [reflexivity|]. pose proof (t_bound _ HT (next_tid s)). nlia.
      * rewrite En. nlia.
  - (* OBeginLoop *)
    destruct (frames s) as [|f fs] eqn:Ef; [discriminate|]. intro H; injection H as <-.
    destruct HC as [C1 C2 C3 C4]. destruct HT as [T1 T2 T3 T4 T5 T6].
    split; constructor; unfold defs_of, uses_of, tids_of in *; cbn [next_cid next_tid mapping frames tables]; rewrite Ef in *;
      try assumption.
    + intros g [<-|Hg]; [cbn; intros ? [] | apply T4; exact Hg].
    + intros g [<-|Hg] Hk; [cbn in Hk; congruence | apply T6; assumption].
  - (* OInstance *)
    destruct (resolve_src s s0) as [[[t cols] s2]|] eqn:R; [|discriminate].
    destruct (resolve_src_inv _ _ _ _ _ HC HT R) as [HC2 [HT2 [Hin [E1 [E2 [E3 [E4 E5]]]]]]].
    destruct (mk_instance s2 node name t cols) as [r s3] eqn:M.
    destruct (mk_instance_inv _ _ _ _ _ _ _ HC2 M) as [HC3 [Hsrc [Et [Ef En]]]].
    destruct (apply_use s3 r u) as [tr|] eqn:U; [|discriminate].
    destruct (push_top tr (frames s3)) as [fs|] eqn:P; [|discriminate].
    intro H; injection H as <-.
    eapply use_push_inv; try eassumption.
    + eapply InvT_ext; [..|exact HT2]; assumption.
    + rewrite Hsrc, Et. exact Hin.
  - (* ODeclare *)
    assert (forall X, (match lookup_node (mapping s) node with Some (MCompute _) => Some s | _ => X end = Some s') ->
                      (Some s = Some s' \/ X = Some s')) as Hcase.
    { intros X. destruct (lookup_node (mapping s) node) as [[?|?]|]; auto. }
    intro H. apply Hcase in H as [H|H]; [injection H as <-; split; assumption|].
    destruct (guard s (expr_cids e ++ window_cids w)) eqn:G; [|discriminate].
    assert (forall c, e = ERef c -> plain_ok = true ->
              Inv (mkL (next_cid s) (next_tid s) ((node, MCompute c) :: mapping s) (frames s) (tables s))) as Halias.
    { intros c -> _. split; [|eapply InvT_ext; [..|exact HT]; reflexivity].
      destruct HC as [C1 C2 C3 C4]. constructor; unfold defs_of, uses_of in *; cbn [next_cid mapping frames tables]; try assumption.
      intros x Hx. unfold mapping_cids in Hx. cbn [flat_map snd target_cids] in Hx. fold (mapping_cids (mapping s)) in Hx.
      rewrite cnt_app in Hx. pose proof (guard_cnt s _ G x) as Hg. cbn [expr_cids] in Hg. rewrite cnt_app in Hg.
      apply C3. nlia. }
    assert (forall fs, push_top (TCompute (next_cid s) e w agg) (frames s) = Some fs ->
              Inv (mkL (next_cid s + 1) (next_tid s) ((node, MCompute (next_cid s)) :: mapping s) fs (tables s))) as Hnew.
    { intros fs P.
      set (s1 := mkL (next_cid s + 1) (next_tid s) ((node, MCompute (next_cid s)) :: mapping s) (frames s) (tables s)).
      assert (InvC [next_cid s] s1) as HC1.
      { destruct HC as [C1 C2 C3 C4]. constructor; unfold defs_of, uses_of in *; cbn [s1 next_cid mapping frames tables].
        - intro x. specialize (C1 x). rewrite cnt_single, cnt_nil in *. destruct (N.eq_dec (next_cid s) x) as [<-|]; [|nlia].
          destruct (cnt (Tdefs (tables s) ++ Fdefs (frames s)) (next_cid s)) eqn:E; [nlia|]. specialize (C2 (next_cid s)). nlia.
        - intros x Hx. rewrite cnt_single in Hx. destruct (N.eq_dec (next_cid s) x) as [<-|]; [nlia|].
          specialize (C2 x). rewrite cnt_nil in C2. nlia.
        - intros x Hx. unfold mapping_cids in Hx. cbn [flat_map snd target_cids] in Hx. fold (mapping_cids (mapping s)) in Hx.
          rewrite cnt_app in Hx. unfold cid in *. rewrite !cnt_single in *. specialize (C3 x). rewrite cnt_nil in C3.
          destruct (N.eq_dec (next_cid s) x); nlia.
        - intros x Hx. specialize (C4 x Hx). rewrite cnt_nil in C4. nlia. }
      assert (InvT s1) as HT1 by (eapply InvT_ext; [..|exact HT]; reflexivity).
      change (Inv (mkL (next_cid s1) (next_tid s1) (mapping s1) fs (tables s1))).
      eapply push_inv; try eassumption.
      - intro x. reflexivity.
      - intros x Hx. apply (c_map _ _ HC1). cbn [s1 mapping]. unfold mapping_cids. cbn [flat_map snd target_cids].
        fold (mapping_cids (mapping s)). rewrite cnt_app. cbn [transform_uses] in Hx.
        pose proof (guard_cnt s _ G x Hx). nlia.
      - intros ? []. }
    destruct e; destruct plain_ok; cbv beta iota in H;
      try (revert H; match goal with |- context [push_top ?t ?f] => destruct (push_top t f) as [fs|] eqn:P end;
           intro H; [|discriminate]; injection H as <-; apply Hnew; first [exact P | reflexivity]).
    injection H as <-. apply (Halias c); reflexivity.
  - (* OPush *)
    destruct (simple t && guard s (transform_uses t)) eqn:G; [|discriminate].
    apply andb_true_iff in G as [G1 G2]. destruct (simple_facts t G1) as [Hd Ht].
    destruct (push_top t (frames s)) as [fs|] eqn:P; [|discriminate]. intro H; injection H as <-.
    eapply push_inv; try eassumption.
    + intro x. rewrite Hd. reflexivity.
    + intros x Hx. apply (c_map _ _ HC). apply (guard_cnt s _ G2). exact Hx.
    + rewrite Ht. intros ? [].
  - (* OEndTable *)
    destruct (frames s) as [|[[| |] p] fs] eqn:Ef; try discriminate.
    destruct (guard s (map snd frame)) eqn:G; [|discriminate]. intro H; injection H as <-.
    destruct HC as [C1 C2 C3 C4]. destruct HT as [T1 T2 T3 T4 T5 T6].
    set (nt := mkTable (next_tid s) name (select_relation p frame)).
    assert (relation_defs (t_relation nt) = pipeline_defs p) as Erd.
    { cbn. rewrite pdefs_snoc. cbn [transform_defs]. apply app_nil_r. }
    assert (relation_uses (t_relation nt) = flat_map transform_uses p ++ map snd frame) as Eru.
    { cbn. rewrite puses_snoc. reflexivity. }
    assert (relation_trefs (t_relation nt) = flat_map transform_trefs p) as Ert.
    { cbn. rewrite ptrefs_snoc. cbn [transform_trefs]. apply app_nil_r. }
    assert (forall x, cnt (defs_of (mkL (next_cid s) (next_tid s + 1) (mapping s) fs (tables s ++ [nt]))) x = cnt (defs_of s) x) as Ed.
    { intro x. unfold defs_of. cbn [tables frames]. rewrite Ef, Tdefs_snoc, Erd, Fdefs_cons, !cnt_app. nlia. }
    assert (forall x, cnt (uses_of (mkL (next_cid s) (next_tid s + 1) (mapping s) fs (tables s ++ [nt]))) x
                      = (cnt (uses_of s) x + cnt (map snd frame) x)%nat) as Eu.
    { intro x. unfold uses_of. cbn [tables frames]. rewrite Ef, Tuses_snoc, Eru, Fuses_cons, !cnt_app. nlia. }
    assert (forall y, cnt (tids_of (mkL (next_cid s) (next_tid s + 1) (mapping s) fs (tables s ++ [nt]))) y
                      = (cnt (tids_of s) y + cnt [next_tid s] y)%nat) as Et.
    { intro y. unfold tids_of. cbn [tables frames]. rewrite Ef, ids_snoc. cbn [reserved flat_map fst app t_id nt].
      fold (reserved fs). rewrite !cnt_app. nlia. }
    split; constructor; cbn [next_cid next_tid mapping].
    + intro x. rewrite Ed. exact (C1 x).
    + intros x Hx. rewrite Ed in Hx. exact (C2 x Hx).
    + intros x Hx. rewrite Ed. exact (C3 x Hx).
    + intros x Hx. rewrite Ed, cnt_nil. rewrite Eu in Hx. destruct (cnt (uses_of s) x) eqn:E.
      * pose proof (guard_cnt s _ G x). specialize (C3 x). rewrite cnt_nil in C3. nlia.
      * specialize (C4 x). rewrite cnt_nil in C4. nlia.
    + intro y. rewrite Et, cnt_single. specialize (T1 y). destruct (N.eq_dec (next_tid s) y) as [<-|]; [|nlia].
      destruct (cnt (tids_of s) (next_tid s)) eqn:E; [nlia|]. specialize (T2 (next_tid s)). nlia.
    + intros y Hy. rewrite Et, cnt_single in Hy. destruct (N.eq_dec (next_tid s) y) as [<-|]; [nlia|].
      specialize (T2 y). nlia.
    + cbn [tables]. apply ordered_snoc; [exact T3|]. rewrite Ert. apply (T4 (FTable, p)). rewrite Ef. left; reflexivity.
    + cbn [frames tables]. intros f Hf y Hy. rewrite ids_snoc. apply in_or_app. left.
      eapply (T4 f); [rewrite Ef; right; exact Hf | exact Hy].
    + cbn [tables]. intros t' Ht'. apply in_app_or in Ht' as [Ht'|[<-|[]]]; [apply T5; exact Ht'|].
      intros p0 E0. cbn in E0. injection E0 as <-.
      destruct (T6 (FTable, p)) as [r0 [p' Ep]]; [rewrite Ef; left; reflexivity | discriminate |]. cbn [snd] in Ep. subst p.
      split; [exists r0, (p' ++ [TSelect (map snd frame)]); reflexivity|].
      exists (TFrom r0 :: p'), (map snd frame). split; [reflexivity|]. unfold nt. cbn [t_relation r_columns select_relation]. rewrite !map_length. reflexivity.
    + cbn [frames]. intros f Hf. apply T6. rewrite Ef. right; exact Hf.
  - (* OEndInline *)
    destruct (frames s) as [|[[|t|] p] fs] eqn:Ef; try discriminate.
    destruct (guard s (map snd frame)) eqn:G; [|discriminate].
    set (nt := mkTable t None (select_relation p frame)).
    set (s1 := mkL (next_cid s) (next_tid s) (mapping s) fs (tables s ++ [nt])).
    assert (relation_defs (t_relation nt) = pipeline_defs p) as Erd.
    { cbn. rewrite pdefs_snoc. cbn [transform_defs]. apply app_nil_r. }
    assert (relation_uses (t_relation nt) = flat_map transform_uses p ++ map snd frame) as Eru.
    { cbn. rewrite puses_snoc. reflexivity. }
    assert (relation_trefs (t_relation nt) = flat_map transform_trefs p) as Ert.
    { cbn. rewrite ptrefs_snoc. cbn [transform_trefs]. apply app_nil_r. }
    assert (InvC [] s1 /\ InvT s1) as [HC1 HT1].
    { destruct HC as [C1 C2 C3 C4]. destruct HT as [T1 T2 T3 T4 T5 T6].
      assert (forall x, cnt (defs_of s1) x = cnt (defs_of s) x) as Ed.
      { intro x. unfold defs_of, s1. cbn [tables frames]. rewrite Ef, Tdefs_snoc, Erd, Fdefs_cons, !cnt_app. nlia. }
      assert (forall x, cnt (uses_of s1) x = (cnt (uses_of s) x + cnt (map snd frame) x)%nat) as Eu.
      { intro x. unfold uses_of, s1. cbn [tables frames]. rewrite Ef, Tuses_snoc, Eru, Fuses_cons, !cnt_app. nlia. }
      assert (forall y, cnt (tids_of s1) y = cnt (tids_of s) y) as Et.
      { intro y. unfold tids_of, s1. cbn [tables frames]. rewrite Ef, ids_snoc, reserved_cons. unfold nt. cbn [t_id].
        rewrite !cnt_app. nlia. }
      split; constructor; cbn [s1 next_cid next_tid mapping].
      + intro x. fold s1. rewrite Ed. exact (C1 x).
      + intros x Hx. fold s1 in Hx. rewrite Ed in Hx. exact (C2 x Hx).
      + intros x Hx. fold s1. rewrite Ed. exact (C3 x Hx).
      + intros x Hx. fold s1 in Hx |- *. rewrite Ed, cnt_nil. rewrite Eu in Hx. destruct (cnt (uses_of s) x) eqn:E.
        * pose proof (guard_cnt s _ G x). specialize (C3 x). rewrite cnt_nil in C3. nlia.
        * specialize (C4 x). rewrite cnt_nil in C4. nlia.
      + intro y. fold s1. rewrite Et. exact (T1 y).
      + intros y Hy. fold s1 in Hy. rewrite Et in Hy. exact (T2 y Hy).
      + cbn [s1 tables]. apply ordered_snoc; [exact T3|]. rewrite Ert. apply (T4 (FInline t, p)). rewrite Ef. left; reflexivity.
      + cbn [s1 frames tables]. intros f Hf y Hy. rewrite ids_snoc. apply in_or_app. left.
        eapply (T4 f); [rewrite Ef; right; exact Hf | exact Hy].
      + cbn [s1 tables]. intros t' Ht'. apply in_app_or in Ht' as [Ht'|[<-|[]]]; [apply T5; exact Ht'|].
        intros p0 E0. cbn in E0. injection E0 as <-.
        destruct (T6 (FInline t, p)) as [r0 [p' Ep]]; [rewrite Ef; left; reflexivity | discriminate |]. cbn [snd] in Ep. subst p.
        split; [exists r0, (p' ++ [TSelect (map snd frame)]); reflexivity|].
        exists (TFrom r0 :: p'), (map snd frame). split; [reflexivity|]. unfold nt. cbn [t_relation r_columns select_relation]. rewrite !map_length. reflexivity.
      + cbn [s1 frames]. intros f Hf. apply T6. rewrite Ef. right; exact Hf. }
    fold s1. destruct (mk_instance s1 node None t (map fst frame)) as [r s2] eqn:M.
    destruct (mk_instance_inv _ _ _ _ _ _ _ HC1 M) as [HC2 [Hsrc [Et [Ef2 En]]]].
    set (rs := combine (map snd frame) (tref_cids r)).
    pose proof (redirect_inv _ s2 rs HC2 (combine_snd_incl _ _)) as HC3.
    set (s3 := mkL (next_cid s2) (next_tid s2) (redirect rs (mapping s2)) (frames s2) (tables s2)) in *.
    destruct (apply_use s3 r u) as [tr|] eqn:U; [|discriminate].
    destruct (push_top tr (frames s3)) as [fs'|] eqn:P; [|discriminate].
    intro H; injection H as <-.
    change (Inv (mkL (next_cid s3) (next_tid s3) (mapping s3) fs' (tables s3))).
    eapply use_push_inv; try eassumption.
    + eapply InvT_ext; [..|exact HT1]; assumption.
    + cbn [s3 tables]. rewrite Hsrc, Et. unfold s1. cbn [tables]. rewrite ids_snoc. apply in_or_app. right. left. reflexivity.
  - (* OEndLoop *)
    destruct (frames s) as [|[[| |] p] fs] eqn:Ef; try discriminate.
    destruct (push_top (TLoop p) fs) as [fs'|] eqn:P; [|discriminate]. intro H; injection H as <-.
    set (s0 := mkL (next_cid s) (next_tid s) (mapping s) fs (tables s)).
    assert (InvC (pipeline_defs p) s0) as HC0.
    { destruct HC as [C1 C2 C3 C4].
      assert (forall x, (cnt (defs_of s0) x + cnt (pipeline_defs p) x)%nat = cnt (defs_of s) x) as Ed.
      { intro x. unfold defs_of, s0. cbn [tables frames]. rewrite Ef, Fdefs_cons, !cnt_app. nlia. }
      constructor; cbn [s0 next_cid mapping]; fold s0.
      - intro x. rewrite Ed. specialize (C1 x). rewrite cnt_nil in C1. nlia.
      - intros x Hx. rewrite Ed in Hx. apply C2. rewrite cnt_nil. nlia.
      - intros x Hx. rewrite Ed. specialize (C3 x Hx). rewrite cnt_nil in C3. nlia.
      - intros x Hx. rewrite Ed. assert (cnt (uses_of s) x > 0)%nat as Hx'.
        { unfold uses_of, s0 in *. cbn [tables frames] in Hx. rewrite Ef, Fuses_cons, !cnt_app. rewrite cnt_app in Hx. nlia. }
        specialize (C4 x Hx'). rewrite cnt_nil in C4. nlia. }
    assert (InvT s0) as HT0.
    { destruct HT as [T1 T2 T3 T4 T5 T6]. constructor; unfold tids_of in *; cbn [s0 next_tid frames tables]; rewrite Ef in *; try assumption.
      - intros f Hf. apply T4. right; exact Hf.
      - intros f Hf. apply T6. right; exact Hf. }
    change (Inv (mkL (next_cid s0) (next_tid s0) (mapping s0) fs' (tables s0))).
    eapply push_inv; try eassumption.
    + intro x. rewrite loop_defs. reflexivity.
    + intros x Hx. rewrite loop_uses in Hx.
      assert (cnt (uses_of s) x > 0)%nat as Hx'.
      { unfold uses_of. rewrite Ef, Fuses_cons, !cnt_app. nlia. }
      pose proof (c_uses _ _ HC x Hx') as Hd. rewrite cnt_nil in Hd.
      unfold defs_of, s0 in *. cbn [tables frames]. rewrite Ef, Fdefs_cons, !cnt_app in Hd. rewrite cnt_app. nlia.
    + rewrite loop_trefs. cbn [s0 tables]. apply (t_ftrefs _ HT (FLoop, p)). rewrite Ef. left; reflexivity.
Qed.

Theorem run_inv ops : forall s s', Inv s -> run s ops = Some s' -> Inv s'.
Proof.
  induction ops as [|o ops IH]; intros s s' Hi; cbn [run].
  - intro H; injection H as <-. exact Hi.
  - destruct (step s o) as [s1|] eqn:E; [|discriminate]. intro H. eapply IH; [|exact H]. eapply step_inv; eassumption.
Qed.

(* ------------------------------------------------------------------ pulling a sub-pipeline into a table redirects EVERY id of its closing Select
   (true since 3b8ac37: the instance has one column per declared column, so zip(closing Select, instance) loses nothing;
   with itertools::unique on the column list the zip was short by one for each repeated column and the last ids of the
   closing Select stayed in node_mapping -- finding C16-F4) *)

Lemma redirect_cid_key rs c : In c (map fst rs) -> In (redirect_cid rs c) (map snd rs).
Proof.
  intro H. unfold redirect_cid. destruct (find (fun p => N.eqb (fst p) c) (rev rs)) as [p|] eqn:F.
  - apply find_some in F as [F _]. apply in_map. apply in_rev. exact F.
  - exfalso. apply in_map_iff in H as [p [E Hp]]. apply in_rev in Hp.
    pose proof (find_none _ _ F p Hp) as Hn. cbn beta in Hn. subst c. rewrite N.eqb_refl in Hn. discriminate.
Qed.

Lemma redirect_cid_nokey rs c : ~ In c (map fst rs) -> redirect_cid rs c = c.
Proof.
  intro H. unfold redirect_cid. destruct (find (fun p => N.eqb (fst p) c) (rev rs)) as [p|] eqn:F; [|reflexivity].
  exfalso. apply find_some in F as [F E]. apply N.eqb_eq in E. apply H. rewrite <- E. apply in_map. apply in_rev. exact F.
Qed.

Lemma redirect_cids_src rs m x :
  In x (mapping_cids (redirect rs m)) -> exists y, In y (mapping_cids m) /\ x = redirect_cid rs y.
Proof.
  unfold mapping_cids, redirect. rewrite flat_map_concat_map, map_map, <- flat_map_concat_map.
  intro H. apply in_flat_map in H as [[n tg] [Hin Hx]]. cbn [snd fst] in Hx.
  destruct tg as [c|cols]; cbn [redirect_target target_cids] in Hx.
  - destruct Hx as [<-|[]]. exists c. split; [|reflexivity].
    apply in_flat_map. exists (n, MCompute c). split; [exact Hin | left; reflexivity].
  - rewrite map_map in Hx. cbn [snd] in Hx. apply in_map_iff in Hx as [[rc c] [<- Hc]]. cbn [snd].
    exists c. split; [|reflexivity]. apply in_flat_map. exists (n, MInput cols). split; [exact Hin|]. cbn [snd target_cids].
    change c with (snd (rc, c)). apply in_map. exact Hc.
Qed.

Theorem end_inline_redirects_all s node frame u s' :
  Inv s -> step s (OEndInline node frame u) = Some s' ->
  forall c, In c (map snd frame) -> ~ In c (mapping_cids (mapping s')).
Proof.
  intros [HC HT]. cbn [step].
  destruct (frames s) as [|[[|t|] p] fs] eqn:Ef; try discriminate.
  destruct (guard s (map snd frame)) eqn:G; [|discriminate].
  set (s1 := mkL (next_cid s) (next_tid s) (mapping s) fs (tables s ++ [mkTable t None (select_relation p frame)])).
  destruct (mk_instance s1 node None t (map fst frame)) as [r s2] eqn:M.
  destruct (mk_instance_columns _ _ _ _ _ _ _ M) as [_ [Hr _]]. cbn [s1 next_cid] in Hr. rewrite map_length in Hr.
  set (rs := combine (map snd frame) (tref_cids r)).
  set (s3 := mkL (next_cid s2) (next_tid s2) (redirect rs (mapping s2)) (frames s2) (tables s2)).
  destruct (apply_use s3 r u) as [tr|]; [|discriminate].
  destruct (push_top tr (frames s3)) as [fs'|]; [|discriminate].
  intro H; injection H as <-. cbn [mapping s3].
  assert (length (map snd frame) = length (tref_cids r)) as Hlen by (rewrite Hr, map_length, seqN_length; reflexivity).
  assert (map fst rs = map snd frame) as Ek by (apply combine_fst; exact Hlen).
  assert (map snd rs = tref_cids r) as Ev by (apply combine_snd; exact Hlen).
  intros c Hc Hin. apply redirect_cids_src in Hin as [y [_ E]].
  assert (c < next_cid s) as Hlt.
  { destruct HC as [C1 C2 C3 C4]. apply C2. apply C3. apply (guard_cnt s _ G). apply cnt_In. exact Hc. }
  destruct (in_dec N.eq_dec y (map fst rs)) as [Hy|Hy].
  - apply redirect_cid_key in Hy. rewrite <- E, Ev, Hr in Hy. apply seqN_In in Hy. nlia.
  - rewrite (redirect_cid_nokey _ _ Hy) in E. subst y. apply Hy. rewrite Ek. exact Hc.
Qed.

Theorem lowerer_inline_redirects_all ops s node frame u s' :
  run init ops = Some s -> step s (OEndInline node frame u) = Some s' ->
  forall c, In c (map snd frame) -> ~ In c (mapping_cids (mapping s')).
Proof. intro H. apply end_inline_redirects_all. exact (run_inv ops init s Inv_init H). Qed.

(* every instance has exactly the declared columns of its table, in order (duplicates included) *)
Theorem instance_has_declared_columns s node name t cols r s3 :
  mk_instance s node name t cols = (r, s3) -> map fst (tr_columns r) = cols /\ NoDup (tref_cids r).
Proof.
  intro M. destruct (mk_instance_columns _ _ _ _ _ _ _ M) as [H1 [H2 _]]. split; [exact H1|]. rewrite H2. apply seqN_NoDup.
Qed.

(* ------------------------------------------------------------------ what a finished run hands to the back end *)

Record rq_closed (q : rq) : Prop := {
  cl_nodup : NoDup (all_defs q);
  cl_uses : incl (used_cids q) (all_defs q);
  cl_tnodup : NoDup (table_ids q);
  cl_order : forall k t, nth_error (q_tables q) k = Some t ->
             incl (relation_trefs (t_relation t)) (firstn k (table_ids q));
  cl_main : incl (relation_trefs (q_relation q)) (table_ids q);
  cl_shape : pipeline_shape (q_relation q) /\ forall t, In t (q_tables q) -> pipeline_shape (t_relation t) }.

Lemma firstn_app_le {A} (l1 l2 : list A) k : (k <= length l1)%nat -> firstn k (l1 ++ l2) = firstn k l1.
Proof.
  intro H. rewrite firstn_app. replace (k - length l1)%nat with 0%nat by lia. cbn [firstn]. apply app_nil_r.
Qed.

Lemma finish_closed s q : Inv s -> finish s = Some q -> rq_closed q.
Proof.
  intros [[C1 C2 C3 C4] [T1 T2 T3 T4 T5 T6]]. unfold finish.
  destruct (frames s) as [|f fs] eqn:Ef; [|discriminate].
  destruct (rev (tables s)) as [|main rest] eqn:Er; [discriminate|].
  intro H; injection H as <-.
  assert (tables s = rev rest ++ [main]) as Et.
  { rewrite <- (rev_involutive (tables s)), Er. reflexivity. }
  unfold defs_of, uses_of, tids_of in *. rewrite Ef, Et in *.
  cbn [Fdefs Fuses reserved flat_map] in *. rewrite !app_nil_r in *. rewrite Tdefs_snoc in *. rewrite Tuses_snoc in *.
  constructor; unfold all_defs, used_cids, table_ids; cbn [q_tables q_relation].
  - apply cnt_NoDup. intro x. specialize (C1 x). rewrite cnt_nil in C1. unfold Tdefs in C1. nlia.
  - apply cnt_incl. intros x Hx. specialize (C4 x Hx). rewrite cnt_nil in C4. unfold Tdefs in C4. nlia.
  - apply cnt_NoDup. intro x. specialize (T1 x). rewrite ids_snoc, cnt_app in T1. nlia.
  - intros k t Hk. pose proof (nth_error_Some (rev rest) k) as [Hlt _].
    assert (k < length (rev rest))%nat as Hk' by (apply Hlt; congruence).
    specialize (T3 k t). rewrite nth_error_app1 in T3 by exact Hk'. specialize (T3 Hk).
    rewrite ids_snoc, firstn_app_le in T3 by (rewrite map_length; lia). exact T3.
  - specialize (T3 (length (rev rest)) main). rewrite nth_error_app2, Nat.sub_diag in T3 by lia.
    specialize (T3 eq_refl). rewrite ids_snoc in T3.
    rewrite <- (map_length t_id (rev rest)), firstn_app_le, firstn_all in T3 by lia. exact T3.
  - split; [apply T5; apply in_or_app; right; left; reflexivity|].
    intros t Ht. apply T5. apply in_or_app. left; exact Ht.
Qed.

Lemma firstn_In {A} (l : list A) k x : In x (firstn k l) -> In x l.
Proof. intro H. rewrite <- (firstn_skipn k l). apply in_or_app. left. exact H. Qed.

Lemma closed_lookups_total q : rq_closed q -> lookups_total q.
Proof.
  intros [H1 H2 H3 H4 H5 H6]. constructor.
  - intros c Hc. unfold lookup_cid. apply H2 in Hc. rewrite <- all_decls_fst in Hc. apply find_fst_some in Hc.
    destruct (find _ _); [discriminate | contradiction].
  - intros t Ht. apply lookup_tid_some. unfold used_tids in Ht. apply in_app_or in Ht as [Ht|Ht]; [|apply H5; exact Ht].
    apply in_flat_map in Ht as [d [Hd Ht]]. apply In_nth_error in Hd as [k Hk].
    apply (H4 k d Hk) in Ht. eapply firstn_In. exact Ht.
  - intros c d Hin. unfold lookup_cid. rewrite (find_fst_unique _ c d); [reflexivity | rewrite all_decls_fst; exact H1 | exact Hin].
  - exact H3.
Qed.

Lemma wf_lax_closed q : rq_wf_lax q = true -> rq_closed q.
Proof.
  intro H. pose proof (wf_lax_lookups_total q H) as L. pose proof (wf_lax_pipeline_shape q H) as S.
  pose proof (wf_lax_decl_before_use q H) as O. pose proof (wf_lax_defs_nodup q H) as N.
  unfold rq_wf_lax, rq_diags in H. rewrite !forallb_app in H. apply andb_true_iff in H as [_ H]. apply andb_true_iff in H as [_ H].
  apply andb_true_iff in H as [H3 H4].
  assert (incl (flat_map (fun t => relation_defs (t_relation t)) (q_tables q)) (all_defs q)) as Hd1
    by (unfold all_defs; apply incl_appl, incl_refl).
  assert (incl (relation_defs (q_relation q)) (all_defs q)) as Hd2
    by (unfold all_defs; apply incl_appr, incl_refl).
  destruct (tables_ok _ _ _ _ Hd1 H3) as [Hu Ht].
  destruct (relation_ok _ _ _ _ _ Hd2 H4) as [Hu' Ht'].
  constructor; try assumption.
  - unfold used_cids. apply incl_app; assumption.
  - exact (lt_nodup_tid _ L).
Qed.

(* ------------------------------------------------------------------ the statements, for every operation sequence *)

Theorem lowerer_ids_fresh ops s : run init ops = Some s ->
  NoDup (defs_of s) /\ (forall c, In c (defs_of s) -> c < next_cid s)
  /\ NoDup (tids_of s) /\ (forall t, In t (tids_of s) -> t < next_tid s).
Proof.
  intro H. destruct (run_inv ops init s Inv_init H) as [[C1 C2 C3 C4] [T1 T2 T3 T4 T5 T6]].
  repeat split.
  - apply cnt_NoDup. intro x. specialize (C1 x). rewrite cnt_nil in C1. nlia.
  - intros c Hc. apply C2. apply cnt_In in Hc. nlia.
  - apply cnt_NoDup. exact T1.
  - intros t Ht. apply T2. apply cnt_In. exact Ht.
Qed.

Theorem lowerer_uses_defined ops s : run init ops = Some s ->
  incl (mapping_cids (mapping s)) (defs_of s) /\ incl (uses_of s) (defs_of s).
Proof.
  intro H. destruct (run_inv ops init s Inv_init H) as [[C1 C2 C3 C4] _].
  split; apply cnt_incl; intros x Hx; [specialize (C3 x Hx) | specialize (C4 x Hx)]; rewrite cnt_nil in *; nlia.
Qed.

Theorem lowerer_push_select_arity ops s : run init ops = Some s ->
  forall t, In t (tables s) -> pipeline_shape (t_relation t).
Proof. intro H. destruct (run_inv ops init s Inv_init H) as [_ HT]. exact (t_shape _ HT). Qed.

Theorem lowerer_decl_before_use ops s : run init ops = Some s -> tables_ordered (tables s).
Proof. intro H. destruct (run_inv ops init s Inv_init H) as [_ HT]. exact (t_order _ HT). Qed.

Theorem lowerer_emits_closed ops s q : run init ops = Some s -> finish s = Some q -> rq_closed q /\ lookups_total q.
Proof.
  intros H F. pose proof (finish_closed s q (run_inv ops init s Inv_init H) F) as C.
  split; [exact C | apply closed_lookups_total; exact C].
Qed.

(* ------------------------------------------------------------------ IdGenerator::load: every generated id is new, and there is room *)

Lemma idgen_load_from_spec max_id ids : forall next g,
  idgen_load_from max_id next ids = Some g ->
  next <= g /\ (forall c, In c ids -> c < g) /\ (next <= max_id / 2 + 1 -> g <= max_id / 2 + 1).
Proof.
  induction ids as [|id ids IH]; intros next g; cbn [idgen_load_from].
  - intro H; injection H as <-. repeat split; [lia | intros ? [] | auto].
  - unfold idgen_skip. destruct (max_id / 2 <? id) eqn:E; [discriminate|]. apply N.ltb_ge in E.
    intro H. destruct (IH _ _ H) as [H1 [H2 H3]]. repeat split.
    + lia.
    + intros c [<-|Hc]; [lia | apply H2; exact Hc].
    + intro Hn. apply H3. lia.
Qed.

Theorem idgen_load_spec max_id ids g :
  idgen_load max_id ids = Some g ->
  (forall c, In c ids -> c < g) /\ g <= max_id / 2 + 1
  /\ forall k, fst (idgen_gen (g + k)) = g + k /\ ~ In (g + k) ids.
Proof.
  unfold idgen_load. intro H. destruct (idgen_load_from_spec _ _ _ _ H) as [_ [H2 H3]].
  split; [exact H2|]. split; [apply H3; apply N.le_0_l|]. intro k. split; [reflexivity|]. intro Hin. apply H2 in Hin. lia.
Qed.

Theorem idgen_load_refuses max_id ids c : In c ids -> max_id / 2 < c -> idgen_load max_id ids = None.
Proof.
  unfold idgen_load. generalize 0. induction ids as [|id ids IH]; intros next Hin Hc; [contradiction|].
  cbn [idgen_load_from]. unfold idgen_skip. destruct Hin as [->|Hin].
  - apply N.ltb_lt in Hc. rewrite Hc. reflexivity.
  - destruct (max_id / 2 <? id); [reflexivity|]. apply IH; assumption.
Qed.

(* ------------------------------------------------------------------ toposort: dependencies come first *)

Section ToposortProofs.
  Variable dag : nat -> list nat.

  (* order is kept reversed: head = pushed last *)
  Fixpoint closed (order : list nat) : Prop :=
    match order with
    | [] => True
    | n :: rest => incl (dag n) rest /\ closed rest
    end.

  Lemma mem_nat_In n l : existsb (Nat.eqb n) l = true <-> In n l.
  Proof.
    rewrite existsb_exists. split.
    - intros [y [H E]]. apply Nat.eqb_eq in E. subst. exact H.
    - intro H. exists n. split; [exact H | apply Nat.eqb_refl].
  Qed.

  Lemma visit_spec fuel : forall visiting order n order',
    closed order -> visit dag fuel visiting order n = Some order' ->
    closed order' /\ In n order' /\ exists ext, order' = ext ++ order.
  Proof.
    induction fuel as [|fuel IH]; intros visiting order n order' Hc; cbn [visit]; [discriminate|].
    destruct (existsb (Nat.eqb n) order) eqn:Ed.
    - intro H; injection H as <-. apply mem_nat_In in Ed. repeat split; [exact Hc | exact Ed | exists []; reflexivity].
    - destruct (existsb (Nat.eqb n) visiting); [discriminate|].
      set (go := visit_all (visit dag fuel (n :: visiting))).
      assert (forall ms o o', closed o -> go ms o = Some o' ->
                closed o' /\ incl ms o' /\ exists ext, o' = ext ++ o) as Hgo.
      { induction ms as [|m ms IHms]; intros o o' Ho; unfold go; cbn [visit_all]; fold go.
        - intro H; injection H as <-. repeat split; [exact Ho | intros ? [] | exists []; reflexivity].
        - destruct (visit dag fuel (n :: visiting) o m) as [o1|] eqn:V; [|discriminate].
          destruct (IH _ _ _ _ Ho V) as [Hc1 [Hin1 [e1 E1]]].
          intro G. destruct (IHms _ _ Hc1 G) as [Hc2 [Hin2 [e2 E2]]].
          repeat split; [exact Hc2 | | exists (e2 ++ e1); subst; rewrite app_assoc; reflexivity].
          intros x [<-|Hx]; [|apply Hin2; exact Hx]. subst o'. apply in_or_app. right. exact Hin1. }
      destruct (go (dag n) order) as [o1|] eqn:G; [|discriminate].
      intro H; injection H as <-. destruct (Hgo _ _ _ Hc G) as [Hc1 [Hin1 [e1 E1]]].
      repeat split; [exact Hin1 | exact Hc1 | left; reflexivity | exists (n :: e1); subst; reflexivity].
  Qed.

  (* nothing is listed twice: a node is pushed only when it is not listed yet, and while its dependencies are visited it is
     `visiting`, so a visit that comes back to it is a cycle (None), not a second push *)
  Lemma visit_nodup fuel : forall visiting order n order',
    NoDup order -> visit dag fuel visiting order n = Some order' ->
    NoDup order' /\ exists ext, order' = ext ++ order /\ forall x, In x ext -> ~ In x visiting.
  Proof.
    induction fuel as [|fuel IH]; intros visiting order n order' Hnd; cbn [visit]; [discriminate|].
    destruct (existsb (Nat.eqb n) order) eqn:Ed.
    - intro H; injection H as <-. split; [exact Hnd|]. exists []. split; [reflexivity | intros ? []].
    - destruct (existsb (Nat.eqb n) visiting) eqn:Ev; [discriminate|].
      set (go := visit_all (visit dag fuel (n :: visiting))).
      assert (forall ms o o', NoDup o -> go ms o = Some o' ->
                NoDup o' /\ exists ext, o' = ext ++ o /\ forall x, In x ext -> ~ In x (n :: visiting)) as Hgo.
      { induction ms as [|m ms IHms]; intros o o' Ho; unfold go; cbn [visit_all]; fold go.
        - intro H; injection H as <-. split; [exact Ho|]. exists []. split; [reflexivity | intros ? []].
        - destruct (visit dag fuel (n :: visiting) o m) as [o1|] eqn:V; [|discriminate].
          destruct (IH _ _ _ _ Ho V) as [Hn1 [e1 [E1 X1]]].
          intro G. destruct (IHms _ _ Hn1 G) as [Hn2 [e2 [E2 X2]]].
          split; [exact Hn2|]. exists (e2 ++ e1). split; [subst; rewrite app_assoc; reflexivity|].
          intros x Hx. apply in_app_or in Hx as [Hx|Hx]; [apply X2 | apply X1]; exact Hx. }
      destruct (go (dag n) order) as [o1|] eqn:G; [|discriminate].
      intro H; injection H as <-. destruct (Hgo _ _ _ Hnd G) as [Hn1 [e1 [E1 X1]]].
      split.
      + constructor; [|exact Hn1]. subst o1. intro Hin. apply in_app_or in Hin as [Hin|Hin].
        * apply (X1 n Hin). left. reflexivity.
        * assert (existsb (Nat.eqb n) order = true) as C by (apply mem_nat_In; exact Hin). congruence.
      + exists (n :: e1). split; [subst; reflexivity|].
        intros x [<-|Hx]; [intro C; apply mem_nat_In in C; congruence | intro C; apply (X1 x Hx); right; exact C].
  Qed.

  Theorem toposort_nodup fuel start l : toposort dag fuel start = Some l -> NoDup l.
  Proof.
    unfold toposort. destruct (visit dag fuel [] [] start) as [o|] eqn:V; [|discriminate].
    intro H; injection H as <-. destruct (visit_nodup fuel [] [] start o (NoDup_nil _) V) as [Hn _].
    apply NoDup_rev. exact Hn.
  Qed.

  Lemma closed_split order : closed order -> forall l1 n l2, order = l1 ++ n :: l2 -> incl (dag n) l2.
  Proof.
    induction order as [|a order IH]; intros Hc l1 n l2 E; [destruct l1; discriminate|].
    destruct Hc as [Ha Hc]. destruct l1 as [|b l1]; cbn in E; injection E as -> ->; [exact Ha|].
    eapply IH; [exact Hc | reflexivity].
  Qed.

  Theorem toposort_spec fuel start l :
    toposort dag fuel start = Some l ->
    In start l /\ forall i n, nth_error l i = Some n -> incl (dag n) (firstn i l).
  Proof.
    unfold toposort. destruct (visit dag fuel [] [] start) as [o|] eqn:V; [|discriminate].
    intro H; injection H as <-. destruct (visit_spec fuel [] [] start o I V) as [Hc [Hin _]].
    split; [apply in_rev in Hin; exact Hin|].
    intros i n Hi. pose proof (nth_error_split _ _ Hi) as [l1 [l2 [E Hl]]].
    assert (o = rev l2 ++ n :: rev l1) as Eo.
    { rewrite <- (rev_involutive o), E, rev_app_distr. cbn [rev]. rewrite <- app_assoc. reflexivity. }
    pose proof (closed_split o Hc _ _ _ Eo) as Hd.
    rewrite E. rewrite firstn_app_le by lia. subst i. rewrite firstn_all.
    intros x Hx. apply Hd in Hx. apply in_rev in Hx. exact Hx.
  Qed.
  (* with dependencies that cover what the lowering of a table really instantiates (checked per program: TableDepsCollector's
     output = the declared tables the table's `instance` events name), every table a table refers to has been lowered when
     its turn comes: table_mapping.get cannot fail with ICE 4474 *)
  Theorem toposort_covers_refs (refs : nat -> list nat) fuel start l :
    (forall n, incl (refs n) (dag n)) -> toposort dag fuel start = Some l ->
    forall i n, nth_error l i = Some n -> incl (refs n) (firstn i l).
  Proof.
    intros Hc Ht i n Hi. destruct (toposort_spec fuel start l Ht) as [_ H]. intros x Hx. apply (H i n Hi). apply Hc. exact Hx.
  Qed.
End ToposortProofs.

(* C16: invariants of the Lowerer state machine (Model/Lowerer.v), for ALL operation sequences. *)
From Coq Require Import List NArith Bool Lia Arith.
From PV Require Import Lib.ListX Model.Rq Model.RqWf Model.Lowerer Proofs.RqWfProofs.
Import ListNotations.
Local Open Scope N_scope.

(* ------------------------------------------------------------------ counting *)

Definition cnt (l : list N) (x : N) : nat := count_occ N.eq_dec l x.

Lemma cnt_app l1 l2 x : cnt (l1 ++ l2) x = (cnt l1 x + cnt l2 x)%nat.
Proof. apply count_occ_app. Qed.

Lemma cnt_nil x : cnt [] x = 0%nat.
Proof. reflexivity. Qed.

Lemma cnt_In l x : In x l <-> (cnt l x > 0)%nat.
Proof. apply count_occ_In. Qed.

Lemma cnt_NoDup l : NoDup l <-> forall x, (cnt l x <= 1)%nat.
Proof. apply NoDup_count_occ. Qed.

Lemma cnt_single a x : cnt [a] x = if N.eq_dec a x then 1%nat else 0%nat.
Proof. unfold cnt. cbn. destruct (N.eq_dec a x); reflexivity. Qed.

Lemma cnt_incl l1 l2 : incl l1 l2 <-> forall x, (cnt l1 x > 0 -> cnt l2 x > 0)%nat.
Proof.
  split.
  - intros H x Hx. apply cnt_In. apply H. apply cnt_In. exact Hx.
  - intros H x Hx. apply cnt_In. apply H. apply cnt_In. exact Hx.
Qed.

Lemma seqN_In b n x : In x (seqN b n) <-> b <= x < b + N.of_nat n.
Proof.
  unfold seqN. rewrite in_map_iff. split.
  - intros [i [<- Hi]]. apply in_seq in Hi. lia.
  - intros H. exists (N.to_nat (x - b)). split; [lia|]. apply in_seq. lia.
Qed.

Lemma seqN_NoDup b n : NoDup (seqN b n).
Proof.
  unfold seqN. generalize 0%nat as k. induction n as [|n IH]; intro k; cbn [seq map]; [constructor|].
  constructor; [|apply IH]. rewrite in_map_iff. intros [i [E Hi]]. apply in_seq in Hi. lia.
Qed.

Lemma seqN_length b n : length (seqN b n) = n.
Proof. unfold seqN. rewrite map_length, seq_length. reflexivity. Qed.

Lemma cnt_seqN_le b n x : (cnt (seqN b n) x <= 1)%nat.
Proof. apply cnt_NoDup. apply seqN_NoDup. Qed.

Lemma cnt_seqN_pos b n x : (cnt (seqN b n) x > 0)%nat -> b <= x < b + N.of_nat n.
Proof. intro H. apply seqN_In. apply cnt_In. exact H. Qed.

Lemma combine_snd {A B} (l : list A) (l' : list B) : length l = length l' -> map snd (combine l l') = l'.
Proof.
  revert l'. induction l as [|a l IH]; intros [|b l'] H; cbn in *; try reflexivity; try discriminate.
  f_equal. apply IH. lia.
Qed.

Lemma combine_fst {A B} (l : list A) (l' : list B) : length l = length l' -> map fst (combine l l') = l.
Proof.
  revert l'. induction l as [|a l IH]; intros [|b l'] H; cbn in *; try reflexivity; try discriminate.
  f_equal. apply IH. lia.
Qed.

(* ------------------------------------------------------------------ structure of the aggregated lists *)

Lemma Tdefs_snoc ts t : Tdefs (ts ++ [t]) = Tdefs ts ++ relation_defs (t_relation t).
Proof. unfold Tdefs. rewrite flat_map_app. cbn [flat_map]. rewrite app_nil_r. reflexivity. Qed.

Lemma Tuses_snoc ts t : Tuses (ts ++ [t]) = Tuses ts ++ relation_uses (t_relation t).
Proof. unfold Tuses. rewrite flat_map_app. cbn [flat_map]. rewrite app_nil_r. reflexivity. Qed.

Lemma pdefs_snoc p t : pipeline_defs (p ++ [t]) = pipeline_defs p ++ transform_defs t.
Proof. unfold pipeline_defs. rewrite flat_map_app. cbn [flat_map]. rewrite app_nil_r. reflexivity. Qed.

Lemma puses_snoc p t : flat_map transform_uses (p ++ [t]) = flat_map transform_uses p ++ transform_uses t.
Proof. rewrite flat_map_app. cbn [flat_map]. rewrite app_nil_r. reflexivity. Qed.

Lemma ptrefs_snoc p t : flat_map transform_trefs (p ++ [t]) = flat_map transform_trefs p ++ transform_trefs t.
Proof. rewrite flat_map_app. cbn [flat_map]. rewrite app_nil_r. reflexivity. Qed.

Lemma Fdefs_cons k p fs : Fdefs ((k, p) :: fs) = pipeline_defs p ++ Fdefs fs.
Proof. reflexivity. Qed.

Lemma Fuses_cons k p fs : Fuses ((k, p) :: fs) = flat_map transform_uses p ++ Fuses fs.
Proof. reflexivity. Qed.

Lemma push_top_some t fs fs' :
  push_top t fs = Some fs' -> exists k p r, fs = (k, p) :: r /\ fs' = (k, p ++ [t]) :: r.
Proof. destruct fs as [|[k p] r]; cbn; [discriminate|]. intro H; injection H as <-. eauto. Qed.

Lemma guard_incl s cs : guard s cs = true -> incl cs (mapping_cids (mapping s)).
Proof.
  unfold guard. intros H c Hc. rewrite forallb_forall in H. apply memN_In. apply H. exact Hc.
Qed.

Lemma guard_cnt s cs : guard s cs = true -> forall x, (cnt cs x > 0 -> cnt (mapping_cids (mapping s)) x > 0)%nat.
Proof. intro H. apply cnt_incl. apply guard_incl. exact H. Qed.

(* ------------------------------------------------------------------ the cid invariant, with pending definitions *)

(* pend = cids already handed out (recorded in `mapping`) whose defining transform is about to be pushed *)
Record InvC (pend : list cid) (s : lstate) : Prop := {
  c_nodup : forall x, (cnt (defs_of s) x + cnt pend x <= 1)%nat;
  c_bound : forall x, (cnt (defs_of s) x + cnt pend x > 0)%nat -> x < next_cid s;
  c_map : forall x, (cnt (mapping_cids (mapping s)) x > 0 -> cnt (defs_of s) x + cnt pend x > 0)%nat;
  c_uses : forall x, (cnt (uses_of s) x > 0 -> cnt (defs_of s) x + cnt pend x > 0)%nat }.

Definition tables_ordered (ts : list table_decl) : Prop :=
  forall k t, nth_error ts k = Some t -> incl (relation_trefs (t_relation t)) (firstn k (map t_id ts)).

Record InvT (s : lstate) : Prop := {
  t_nodup : forall x, (cnt (tids_of s) x <= 1)%nat;
  t_bound : forall x, (cnt (tids_of s) x > 0)%nat -> x < next_tid s;
  t_order : tables_ordered (tables s);
  t_ftrefs : forall f, In f (frames s) -> incl (flat_map transform_trefs (snd f)) (map t_id (tables s));
  t_shape : forall t, In t (tables s) -> pipeline_shape (t_relation t);
  t_from : forall f, In f (frames s) -> fst f <> FLoop -> exists r p', snd f = TFrom r :: p' }.

Definition Inv (s : lstate) : Prop := InvC [] s /\ InvT s.

Lemma Inv_init : Inv init.
Proof.
  split; constructor; cbn; intros; try lia; try contradiction.
  - intros k t H. destruct k; discriminate.
Qed.

(* ---- generic facts about tables_ordered ---- *)

Lemma ordered_snoc ts t :
  tables_ordered ts -> incl (relation_trefs (t_relation t)) (map t_id ts) -> tables_ordered (ts ++ [t]).
Proof.
  intros Ho Hi k t' Hk. rewrite map_app.
  destruct (Nat.lt_ge_cases k (length ts)) as [Hlt|Hge].
  - rewrite nth_error_app1 in Hk by exact Hlt. specialize (Ho k t' Hk).
    rewrite firstn_app. rewrite map_length.
    replace (k - length ts)%nat with 0%nat by lia. cbn [firstn]. rewrite app_nil_r. exact Ho.
  - rewrite nth_error_app2 in Hk by exact Hge.
    destruct (k - length ts)%nat as [|j] eqn:E; cbn in Hk; [|destruct j; discriminate].
    injection Hk as <-. assert (k = length ts) as -> by lia.
    rewrite firstn_app, map_length, Nat.sub_diag. cbn [firstn]. rewrite app_nil_r.
    rewrite <- (map_length t_id ts), firstn_all. exact Hi.
Qed.

Lemma ids_snoc ts t : map t_id (ts ++ [t]) = map t_id ts ++ [t_id t].
Proof. rewrite map_app. reflexivity. Qed.

(* ---- the invariants only read some fields ---- *)

Lemma InvC_ext pend s s' :
  next_cid s' = next_cid s -> mapping s' = mapping s -> frames s' = frames s -> tables s' = tables s ->
  InvC pend s -> InvC pend s'.
Proof.
  intros E1 E2 E3 E4 [H1 H2 H3 H4].
  constructor; unfold defs_of, uses_of in *; rewrite ?E1, ?E2, ?E3, ?E4; assumption.
Qed.

Lemma InvT_ext s s' :
  next_tid s' = next_tid s -> frames s' = frames s -> tables s' = tables s -> InvT s -> InvT s'.
Proof.
  intros E1 E3 E4 [H1 H2 H3 H4 H5 H6].
  constructor; unfold tids_of in *; rewrite ?E1, ?E3, ?E4; assumption.
Qed.

Lemma InvT_tid_mono s n :
  next_tid s <= n -> InvT s -> InvT (mkL (next_cid s) n (mapping s) (frames s) (tables s)).
Proof.
  intros Hn [H1 H2 H3 H4 H5 H6]. constructor; unfold tids_of in *; cbn [next_tid frames tables]; try assumption.
  intros x Hx. specialize (H2 x Hx). lia.
Qed.

(* ---- resolve_src ---- *)

Lemma find_table_some ts t d : find_table ts t = Some d -> In d ts /\ t_id d = t.
Proof. unfold find_table. intro H. apply find_some in H as [H1 H2]. apply N.eqb_eq in H2. auto. Qed.

Lemma pipeline_shape_leaf k cols : (forall p, k <> KPipeline p) -> pipeline_shape (mkRel k cols).
Proof. intros H p E. cbn in E. subst. exfalso. eapply H. reflexivity. Qed.

Lemma resolve_src_inv s x t cols s2 :
  InvC [] s -> InvT s -> resolve_src s x = Some (t, cols, s2) ->
  InvC [] s2 /\ InvT s2 /\ In t (map t_id (tables s2))
  /\ next_cid s2 = next_cid s /\ mapping s2 = mapping s /\ frames s2 = frames s
  /\ next_tid s <= next_tid s2
  /\ (forall y, y < next_tid s -> cnt (tids_of s2) y = cnt (tids_of s) y).
Proof.
  intros HC HT. destruct x as [t0|l lc]; cbn [resolve_src].
  - destruct (find_table (tables s) t0) as [d|] eqn:F; [|discriminate].
    intro H; injection H as <- <- <-. apply find_table_some in F as [Hin Hid].
    split; [exact HC|]. split; [exact HT|]. split; [rewrite <- Hid; apply in_map; exact Hin|].
    repeat split; try reflexivity; lia.
  - destruct (guard s (leaf_cids l)) eqn:G; [|discriminate].
    intro H; injection H as <- <- <-. cbn [next_cid next_tid mapping frames tables].
    destruct HC as [C1 C2 C3 C4]. destruct HT as [T1 T2 T3 T4 T5 T6].
    assert (forall y, cnt (tids_of (mkL (next_cid s) (next_tid s + 1) (mapping s) (frames s)
              (tables s ++ [mkTable (next_tid s) None (mkRel (leaf_kind l) lc)]))) y
            = (cnt (tids_of s) y + cnt [next_tid s] y)%nat) as Et.
    { intro y. unfold tids_of. cbn [tables frames]. rewrite ids_snoc. cbn [t_id]. rewrite !cnt_app. lia. }
    split; [|split; [|split; [|split; [|split; [|split; [|split]]]]]]; try reflexivity.
    + (* InvC *) constructor; unfold defs_of, uses_of; cbn [next_cid mapping frames tables];
        rewrite ?Tdefs_snoc, ?Tuses_snoc; cbn [t_relation].
      * intro y. specialize (C1 y). unfold defs_of in C1. unfold relation_defs. cbn [r_kind].
        destruct l; cbn [leaf_kind]; rewrite !cnt_app, ?cnt_nil in *; lia.
      * intros y Hy. apply C2. unfold defs_of. unfold relation_defs in Hy. cbn [r_kind] in Hy.
        destruct l; cbn [leaf_kind] in Hy; rewrite !cnt_app, ?cnt_nil in *; lia.
      * intros y Hy. specialize (C3 y Hy). unfold defs_of in C3. unfold relation_defs. cbn [r_kind].
        destruct l; cbn [leaf_kind]; rewrite !cnt_app, ?cnt_nil in *; lia.
      * intros y Hy. rewrite !cnt_app in Hy.
        assert (cnt (Tuses (tables s) ++ Fuses (frames s)) y > 0 \/ cnt (leaf_cids l) y > 0)%nat as [Hu|Hu].
        { unfold relation_uses in Hy. cbn [r_kind] in Hy. rewrite cnt_app.
          destruct l; cbn [leaf_kind leaf_cids] in *; rewrite ?cnt_nil in *; lia. }
        -- specialize (C4 y Hu). unfold defs_of in C4. unfold relation_defs. cbn [r_kind].
           destruct l; cbn [leaf_kind]; rewrite !cnt_app, ?cnt_nil in *; lia.
        -- pose proof (guard_cnt s _ G y Hu) as Hm. specialize (C3 y Hm). unfold defs_of in C3. unfold relation_defs. cbn [r_kind].
           destruct l; cbn [leaf_kind]; rewrite !cnt_app, ?cnt_nil in *; lia.
    + (* InvT *) constructor; cbn [next_tid frames tables].
      * intro y. rewrite Et. rewrite cnt_single. specialize (T1 y).
        destruct (N.eq_dec (next_tid s) y) as [<-|]; [|lia].
        assert (cnt (tids_of s) (next_tid s) = 0)%nat; [|lia].
        destruct (cnt (tids_of s) (next_tid s)) eqn:E; [reflexivity|]. specialize (T2 (next_tid s)). lia.
      * intros y Hy. rewrite Et in Hy. rewrite cnt_single in Hy.
        destruct (N.eq_dec (next_tid s) y) as [<-|]; [lia|]. specialize (T2 y). lia.
      * apply ordered_snoc; [exact T3|]. cbn [t_relation]. unfold relation_trefs. cbn [r_kind].
        destruct l; cbn [leaf_kind]; intros ? [].
      * intros f Hf y Hy. rewrite ids_snoc. apply in_or_app. left. eapply T4; eassumption.
      * intros t' Ht'. apply in_app_or in Ht' as [Ht'|[<-|[]]]; [apply T5; exact Ht'|].
        cbn [t_relation]. apply pipeline_shape_leaf. intros p. destruct l; discriminate.
      * exact T6.
    + rewrite ids_snoc. apply in_or_app. right. left. reflexivity.
    + lia.
    + intros y Hy. rewrite Et, cnt_single. destruct (N.eq_dec (next_tid s) y); [lia|lia].
Qed.

(* ---- mk_instance ---- *)

Lemma mk_instance_inv s node name t cols r s3 :
  InvC [] s -> mk_instance s node name t cols = (r, s3) ->
  InvC (tref_cids r) s3 /\ tr_source r = t
  /\ tables s3 = tables s /\ frames s3 = frames s /\ next_tid s3 = next_tid s.
Proof.
  intros [C1 C2 C3 C4]. unfold mk_instance. intro H; injection H as <- <-.
  set (u := uniq cols). set (b := next_cid s).
  assert (tref_cids (mkTRef t (combine u (seqN b (length u))) name) = seqN b (length u)) as Er.
  { unfold tref_cids. cbn [tr_columns]. apply combine_snd. rewrite seqN_length. reflexivity. }
  cbn [tr_source tables frames next_tid]. repeat split; try reflexivity.
  rewrite Er. constructor; unfold defs_of, uses_of in *; cbn [next_cid mapping frames tables].
  - intro x. specialize (C1 x). pose proof (cnt_seqN_le b (length u) x).
    destruct (cnt (seqN b (length u)) x) eqn:E; [lia|].
    assert (b <= x) by (apply (cnt_seqN_pos b (length u) x); lia).
    destruct (cnt (Tdefs (tables s) ++ Fdefs (frames s)) x) eqn:E2; [lia|].
    specialize (C2 x). rewrite E2 in C2. cbn in C2. unfold b in *. lia.
  - intros x Hx. destruct (cnt (seqN b (length u)) x) eqn:E.
    + specialize (C2 x). rewrite cnt_nil in C2. unfold b. lia.
    + pose proof (cnt_seqN_pos b (length u) x). lia.
  - intros x Hx. unfold mapping_cids in Hx. cbn [flat_map snd target_cids] in Hx. rewrite cnt_app in Hx.
    fold (mapping_cids (mapping s)) in Hx.
    rewrite combine_snd in Hx by (rewrite seqN_length; reflexivity).
    specialize (C3 x). rewrite cnt_nil in C3. lia.
  - intros x Hx. specialize (C4 x Hx). rewrite cnt_nil in C4. lia.
Qed.

(* ---- redirect_mappings ---- *)

Lemma redirect_cid_cases rs c : redirect_cid rs c = c \/ In (redirect_cid rs c) (map snd rs).
Proof.
  unfold redirect_cid. destruct (find _ rs) as [p|] eqn:F; [|left; reflexivity].
  right. apply find_some in F as [F _]. apply in_map. exact F.
Qed.

Lemma redirect_cids rs m x :
  In x (mapping_cids (redirect rs m)) -> In x (mapping_cids m) \/ In x (map snd rs).
Proof.
  unfold mapping_cids, redirect. rewrite flat_map_concat_map, map_map, <- flat_map_concat_map.
  intro H. apply in_flat_map in H as [[n tg] [Hin Hx]]. cbn [snd fst] in Hx.
  destruct tg as [c|cols]; cbn [redirect_target target_cids] in Hx.
  - destruct Hx as [<-|[]]. destruct (redirect_cid_cases rs c) as [->|Hr]; [|right; exact Hr].
    left. apply in_flat_map. exists (n, MCompute c). split; [exact Hin | left; reflexivity].
  - rewrite map_map in Hx. cbn [snd] in Hx. apply in_map_iff in Hx as [[rc c] [<- Hc]]. cbn [snd].
    destruct (redirect_cid_cases rs c) as [->|Hr]; [|right; exact Hr].
    left. apply in_flat_map. exists (n, MInput cols). split; [exact Hin|]. cbn [snd target_cids].
    change c with (snd (rc, c)). apply in_map. exact Hc.
Qed.

Lemma redirect_inv pend s rs :
  InvC pend s -> incl (map snd rs) pend ->
  InvC pend (mkL (next_cid s) (next_tid s) (redirect rs (mapping s)) (frames s) (tables s)).
Proof.
  intros [C1 C2 C3 C4] Hrs. constructor; unfold defs_of, uses_of in *; cbn [next_cid mapping frames tables]; try assumption.
  intros x Hx. apply cnt_In in Hx. apply redirect_cids in Hx as [Hx|Hx].
  - apply C3. apply cnt_In. exact Hx.
  - apply Hrs in Hx. apply cnt_In in Hx. lia.
Qed.

Lemma combine_snd_incl {A B} (l : list A) (l' : list B) : incl (map snd (combine l l')) l'.
Proof.
  revert l'. induction l as [|a l IH]; intros [|b l']; cbn; try (intros ? []; fail).
  intros x [<-|H]; [left; reflexivity | right; apply IH; exact H].
Qed.

(* ---- pushing a transform that defines exactly the pending cids ---- *)

Lemma push_inv pend s tr fs :
  InvC pend s -> InvT s -> push_top tr (frames s) = Some fs ->
  (forall x, cnt (transform_defs tr) x = cnt pend x) ->
  (forall x, (cnt (transform_uses tr) x > 0 -> cnt (defs_of s) x + cnt pend x > 0)%nat) ->
  incl (transform_trefs tr) (map t_id (tables s)) ->
  Inv (mkL (next_cid s) (next_tid s) (mapping s) fs (tables s)).
Proof.
  intros [C1 C2 C3 C4] [T1 T2 T3 T4 T5 T6] Hp Hd Hu Ht.
  apply push_top_some in Hp as [k [p [r [Ef ->]]]].
  assert (forall x, cnt (defs_of (mkL (next_cid s) (next_tid s) (mapping s) ((k, p ++ [tr]) :: r) (tables s))) x
                    = (cnt (defs_of s) x + cnt pend x)%nat) as Ed.
  { intro x. unfold defs_of. cbn [tables frames]. rewrite Ef, !Fdefs_cons, pdefs_snoc, !cnt_app, Hd. lia. }
  assert (forall x, cnt (uses_of (mkL (next_cid s) (next_tid s) (mapping s) ((k, p ++ [tr]) :: r) (tables s))) x
                    = (cnt (uses_of s) x + cnt (transform_uses tr) x)%nat) as Eu.
  { intro x. unfold uses_of. cbn [tables frames]. rewrite Ef, !Fuses_cons, puses_snoc, !cnt_app. lia. }
  split; constructor; cbn [next_cid next_tid mapping tables].
  - intro x. rewrite Ed, cnt_nil. specialize (C1 x). lia.
  - intros x Hx. rewrite Ed, cnt_nil in Hx. apply C2. lia.
  - intros x Hx. rewrite Ed, cnt_nil. specialize (C3 x Hx). lia.
  - intros x Hx. rewrite Ed, cnt_nil. rewrite Eu in Hx.
    destruct (cnt (uses_of s) x) eqn:E; [specialize (Hu x); lia | specialize (C4 x); lia].
  - intro x. unfold tids_of in *. cbn [tables frames]. rewrite Ef in T1. exact (T1 x).
  - intros x Hx. unfold tids_of in *. cbn [tables frames] in Hx. rewrite Ef in T2. exact (T2 x Hx).
  - exact T3.
  - cbn [frames]. intros f [<-|Hf]; cbn [snd].
    + rewrite ptrefs_snoc. apply incl_app; [|exact Ht]. apply (T4 (k, p)). rewrite Ef. left; reflexivity.
    + apply T4. rewrite Ef. right; exact Hf.
  - exact T5.
  - cbn [frames]. intros f [<-|Hf] Hk; cbn [snd fst] in *.
    + destruct (T6 (k, p)) as [r0 [p' E]]; [rewrite Ef; left; reflexivity | exact Hk |].
      cbn [snd] in E. subst p. exists r0, (p' ++ [tr]). reflexivity.
    + apply T6; [rewrite Ef; right; exact Hf | exact Hk].
Qed.

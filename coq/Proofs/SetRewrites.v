(* preprocess.rs rewrites two join patterns into set operations:
     inner join on ALL columns, pairwise, keeping the top columns            ->  INTERSECT [ALL | DISTINCT]
     left join on all columns + filter (bottom column == null), top columns  ->  EXCEPT    [ALL | DISTINCT]
   and `group {all columns} (take 1)` into DISTINCT.  What do the two sides mean on rows?  Abstract rows with a decidable
   equality `eqb` (SQL's set operations compare whole rows, NULL = NULL) and the join condition `m` (pairwise `==`, which is never
   true of a NULL).  `agree` = the condition coincides with row equality on the rows at hand (no NULL in them). *)
From Coq Require Import List Bool Arith Lia Permutation.
Import ListNotations.

Section SR.
  Variable row : Type.
  Variable eqb : row -> row -> bool.
  Hypothesis eqb_spec : forall x y, eqb x y = true <-> x = y.
  Variable m : row -> row -> bool.            (* the join condition: top row, bottom row *)

  Definition agree (top bottom : list row) : Prop := forall r u, In r top -> In u bottom -> m r u = eqb r u.

  (* keep-first duplicate elimination (as in Proofs/SegmentDistinct.v) *)
  Fixpoint dd (l : list row) : list row :=
    match l with [] => [] | x :: t => x :: filter (fun y => negb (eqb y x)) (dd t) end.

  (* the join patterns, projected on the top columns *)
  Definition inner_keep_top (top bottom : list row) : list row :=
    flat_map (fun r => map (fun _ => r) (filter (m r) bottom)) top.
  Definition anti_join (top bottom : list row) : list row :=
    filter (fun r => negb (existsb (m r) bottom)) top.

  (* the set operations *)
  Definition intersect_distinct (top bottom : list row) : list row := dd (filter (fun r => existsb (eqb r) bottom) top).
  Definition except_distinct (top bottom : list row) : list row := dd (filter (fun r => negb (existsb (eqb r) bottom)) top).
  Fixpoint remove_one (x : row) (l : list row) : list row :=
    match l with [] => [] | y :: t => if eqb y x then t else y :: remove_one x t end.
  Definition except_all (top bottom : list row) : list row := fold_left (fun acc u => remove_one u acc) bottom top.

  Lemma eqb_refl x : eqb x x = true.
  Proof. apply eqb_spec. reflexivity. Qed.

  Lemma dd_In x l : In x (dd l) <-> In x l.
  Proof.
    induction l as [|a t IH]; cbn [dd]; [reflexivity|]. split.
    - intros [->|H]; [left; reflexivity|]. apply filter_In in H as [H _]. right. apply IH, H.
    - intros [->|H]; [left; reflexivity|]. destruct (eqb x a) eqn:E.
      + left. symmetry. apply eqb_spec, E.
      + right. apply filter_In. split; [apply IH, H|]. rewrite E. reflexivity.
  Qed.

  Lemma filter_filter_comm {A} (f g : A -> bool) l : filter f (filter g l) = filter g (filter f l).
  Proof. induction l as [|a t IH]; [reflexivity|]. cbn [filter]. destruct (f a) eqn:Ef, (g a) eqn:Eg; cbn [filter]; rewrite ?Ef, ?Eg, IH; reflexivity. Qed.

  (* dd commutes with a filter *)
  Lemma filter_neg_absorb (p : row -> bool) a l : p a = false -> filter p (filter (fun y => negb (eqb y a)) l) = filter p l.
  Proof.
    intro E. induction l as [|b s IHs]; [reflexivity|]. cbn [filter]. destruct (eqb b a) eqn:Eb; cbn [negb filter].
    - apply eqb_spec in Eb. subst b. rewrite E. exact IHs.
    - destruct (p b); rewrite IHs; reflexivity.
  Qed.

  Lemma dd_filter (p : row -> bool) l : dd (filter p l) = filter p (dd l).
  Proof.
    induction l as [|a t IH]; [reflexivity|].
    change (dd (a :: t)) with (a :: filter (fun y => negb (eqb y a)) (dd t)).
    cbn [filter]. destruct (p a) eqn:E.
    - cbn [dd]. rewrite IH. f_equal. apply filter_filter_comm.
    - rewrite IH. symmetry. apply filter_neg_absorb, E.
  Qed.

  (* ---------- EXCEPT ---------- *)
  Lemma existsb_agree top bottom r : agree top bottom -> In r top -> existsb (m r) bottom = existsb (eqb r) bottom.
  Proof.
    intros Ha Hr. assert (H : forall b, incl b bottom -> existsb (m r) b = existsb (eqb r) b).
    { induction b as [|u b IH]; intro Hi; [reflexivity|]. cbn [existsb].
      rewrite (Ha r u Hr (Hi u (or_introl eq_refl))), IH; [reflexivity|]. intros x Hx. apply Hi. right; exact Hx. }
    apply H, incl_refl.
  Qed.

  Lemma filter_ext_in' {A} (f g : A -> bool) l : (forall x, In x l -> f x = g x) -> filter f l = filter g l.
  Proof.
    induction l as [|a t IH]; intro H; [reflexivity|]. cbn [filter]. rewrite (H a (or_introl eq_refl)), IH; [reflexivity|].
    intros x Hx. apply H. right; exact Hx.
  Qed.

  (* anti-join + DISTINCT (in front or behind) = EXCEPT DISTINCT, when the condition agrees with row equality *)
  Theorem anti_join_is_except_distinct top bottom : agree top bottom ->
    dd (anti_join top bottom) = except_distinct top bottom /\ anti_join (dd top) bottom = except_distinct top bottom.
  Proof.
    intro Ha. unfold anti_join, except_distinct.
    assert (E : filter (fun r => negb (existsb (m r) bottom)) top = filter (fun r => negb (existsb (eqb r) bottom)) top).
    { apply filter_ext_in'. intros r Hr. rewrite (existsb_agree top bottom r Ha Hr). reflexivity. }
    split; [rewrite E; reflexivity|].
    rewrite dd_filter. apply filter_ext_in'. intros r Hr. apply (proj1 (dd_In r top)) in Hr. rewrite (existsb_agree top bottom r Ha Hr). reflexivity.
  Qed.

  (* ---------- INTERSECT ---------- *)
  Lemma filter_idem {A} (f : A -> bool) l : filter f (filter f l) = filter f l.
  Proof. induction l as [|a t IH]; [reflexivity|]. cbn [filter]. destruct (f a) eqn:E; cbn [filter]; rewrite ?E, IH; reflexivity. Qed.

  Lemma dd_flat_const (r : row) (k : list row) (rest : list row) :
    dd (map (fun _ => r) k ++ rest) = match k with [] => dd rest | _ => r :: filter (fun y => negb (eqb y r)) (dd rest) end.
  Proof.
    induction k as [|u k IH]; [reflexivity|]. cbn [map app dd]. f_equal. rewrite IH. destruct k as [|v k'].
    - reflexivity.
    - cbn [filter]. rewrite eqb_refl. cbn [negb]. apply filter_idem.
  Qed.

  (* DISTINCT behind the join: the multiplicities the join creates vanish *)
  Theorem inner_join_then_distinct_is_intersect top bottom : agree top bottom ->
    dd (inner_keep_top top bottom) = intersect_distinct top bottom.
  Proof.
    unfold inner_keep_top, intersect_distinct. revert bottom.
    induction top as [|r top IH]; intros bottom Ha; [reflexivity|].
    assert (Ha' : agree top bottom) by (intros x u Hx Hu; apply Ha; [right; exact Hx | exact Hu]).
    cbn [flat_map filter]. rewrite dd_flat_const, (IH bottom Ha').
    assert (Ef : filter (m r) bottom = filter (eqb r) bottom).
    { apply filter_ext_in'. intros u Hu. apply Ha; [left; reflexivity | exact Hu]. }
    rewrite Ef.
    destruct (existsb (eqb r) bottom) eqn:Ex.
    - cbn [dd]. destruct (filter (eqb r) bottom) as [|u k] eqn:Ek; [|reflexivity].
      exfalso. apply existsb_exists in Ex as [u [Hu Eu]].
      assert (In u (filter (eqb r) bottom)) by (apply filter_In; split; assumption). rewrite Ek in H. destruct H.
    - destruct (filter (eqb r) bottom) as [|u k] eqn:Ek; [reflexivity|].
      exfalso. assert (Hin : In u (filter (eqb r) bottom)) by (rewrite Ek; left; reflexivity).
      apply filter_In in Hin as [Hu Eu]. assert (existsb (eqb r) bottom = true) by (apply existsb_exists; exists u; split; assumption). congruence.
  Qed.

  (* DISTINCT in front of the join (finding F41's shape): also needs a duplicate-free bottom *)
  Theorem distinct_then_inner_join_is_intersect top bottom : agree top bottom -> NoDup bottom ->
    inner_keep_top (dd top) bottom = intersect_distinct top bottom.
  Proof.
    intros Ha Hn. unfold inner_keep_top, intersect_distinct. rewrite dd_filter.
    assert (Ha' : agree (dd top) bottom) by (intros x u Hx Hu; apply Ha; [exact (proj1 (dd_In x top) Hx) | exact Hu]).
    induction (dd top) as [|r l IH]; [reflexivity|].
    assert (Hal : agree l bottom) by (intros x u Hx Hu; apply Ha'; [right; exact Hx | exact Hu]).
    cbn [flat_map filter]. rewrite (IH Hal).
    assert (Ef : filter (m r) bottom = filter (eqb r) bottom).
    { apply filter_ext_in'. intros u Hu. apply Ha'; [left; reflexivity | exact Hu]. }
    rewrite Ef.
    (* in a duplicate-free bottom at most one row equals r *)
    assert (Hone : filter (eqb r) bottom = if existsb (eqb r) bottom then [r] else []).
    { clear -Hn eqb_spec. induction Hn as [|u b Hu Hb IHb]; [reflexivity|]. cbn [filter existsb].
      destruct (eqb r u) eqn:E.
      - apply eqb_spec in E. subst u. cbn [orb]. f_equal.
        assert (Hno : existsb (eqb r) b = false).
        { destruct (existsb (eqb r) b) eqn:Ex; [|reflexivity]. apply existsb_exists in Ex as [y [Hy Ey]]. apply eqb_spec in Ey. subst y. contradiction. }
        rewrite Hno in IHb. exact IHb.
      - cbn [orb]. exact IHb. }
    rewrite Hone. destruct (existsb (eqb r) bottom); reflexivity.
  Qed.

  (* ---------- DISTINCT: group {keys} (take 1) ---------- *)
  Variable key : Type.
  Variable keq : key -> key -> bool.
  Variable kof : row -> key.                 (* the values of the group's key columns *)
  (* the first row of every group, groups in order of first occurrence *)
  Fixpoint group_take1 (l : list row) : list row :=
    match l with [] => [] | x :: t => x :: filter (fun y => negb (keq (kof y) (kof x))) (group_take1 t) end.

  (* when the keys are ALL the columns that are live (two rows with equal keys are equal rows) it is a DISTINCT *)
  Theorem group_take1_is_distinct : (forall x y, keq (kof x) (kof y) = eqb x y) -> forall l, group_take1 l = dd l.
  Proof.
    intros H l. induction l as [|a t IH]; [reflexivity|]. cbn [group_take1 dd]. rewrite IH. f_equal.
    apply filter_ext_in'. intros y _. rewrite H. reflexivity.
  Qed.
End SR.

(* ---------- refutations on nat rows (row equality = the join condition: no NULLs involved) ---------- *)
(* F41: a DISTINCT in front of the join does not make the join an INTERSECT when the bottom has duplicates *)
Theorem distinct_then_inner_join_refuted :
  inner_keep_top nat Nat.eqb (dd nat Nat.eqb [1; 2]) [1; 1] <> intersect_distinct nat Nat.eqb [1; 2] [1; 1].
Proof. vm_compute. discriminate. Qed.

(* ... and with a NULL key the condition does not agree with row equality: 0 plays NULL, `m` never matches it *)
Theorem inner_join_null_key_refuted :
  let m := fun r u => negb (Nat.eqb r 0) && Nat.eqb r u in
  dd nat Nat.eqb (inner_keep_top nat m [0; 1] [0; 1]) <> intersect_distinct nat Nat.eqb [0; 1] [0; 1].
Proof. vm_compute. discriminate. Qed.

(* anti-join vs EXCEPT ALL (emitted when there is no DISTINCT and the dialect has EXCEPT ALL): EXCEPT ALL subtracts
   multiplicities, the anti-join removes every copy *)
Theorem anti_join_is_except_all_refuted :
  anti_join nat Nat.eqb [1; 1] [1] <> except_all nat Nat.eqb [1; 1] [1].
Proof. vm_compute. discriminate. Qed.

(* fix bc8ad7d's condition: if something behind the take still uses a column that is not a key, rows with equal keys need not be
   equal rows -- rows are pairs, the key is the first component: DISTINCT keeps both, the group keeps one *)
Theorem group_take1_is_distinct_refuted :
  let eqb2 := fun x y : nat * nat => Nat.eqb (fst x) (fst y) && Nat.eqb (snd x) (snd y) in
  group_take1 (nat * nat) nat Nat.eqb fst [(1, 1); (1, 2)] <> dd (nat * nat) eqb2 [(1, 1); (1, 2)].
Proof. vm_compute. discriminate. Qed.

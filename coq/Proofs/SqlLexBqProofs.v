(* Lemmas about Model/SqlLexBq.v: what BigQuery's reading side makes of the string literals prqlc emits for it
   (standard emission: quotes doubled, backslashes verbatim -- finding F6c). *)
From Coq Require Import List NArith Bool Lia.
From PV Require Import Lib.ListX Model.Escape Model.SqlLex Model.SqlLexBq Proofs.EscapeProofs.
Import ListNotations.
Local Open Scope N_scope.
Local Arguments N.eqb : simpl never.
Local Arguments N.leb : simpl never.

Lemma bq_run_app dq : forall a s b, bq_run dq s (a ++ b) = bq_emitted dq s a ++ bq_run dq (bq_state_after dq s a) b.
Proof.
  induction a as [|c a IH]; intros s b; [reflexivity|].
  cbn [app bq_run bq_emitted bq_state_after]. destruct (bq_step dq s c) as [s' out] eqn:E. cbn [fst].
  rewrite IH, app_assoc. reflexivity.
Qed.

Lemma bq_lex_closed_prefix dq pre : bq_closed_prefix dq pre = true -> bq_lex dq pre = bq_emitted dq (BBase L0) pre.
Proof.
  intro H. unfold bq_lex. rewrite <- (app_nil_r pre) at 1. rewrite bq_run_app.
  unfold bq_closed_prefix in H. destruct (bq_state_after dq (BBase L0) pre) as [st| | | | | | |]; try discriminate.
  destruct st; try discriminate. cbn [bq_run bq_finish finish]. apply app_nil_r.
Qed.

(* the value classes *)
Definition no_quote (s : str) : bool := negb (existsb (N.eqb QUOTE) s).
(* the literal's value fits BigQuery's reading of the standard emission: no backslash, does not start with a quote
   (three quotes would open a triple-quoted string) and -- where a doubled quote is not an escape -- no quote at all *)
Definition bq_fits (dq : bool) (s : str) : bool :=
  no_backslash s && negb (starts_with 39 s) && (dq || no_quote s).

Lemma no_backslash_cons c r : no_backslash (c :: r) = true -> (c =? 92) = false /\ no_backslash r = true.
Proof.
  unfold no_backslash. cbn [existsb]. intro H. apply negb_true_iff in H. apply orb_false_iff in H as [H1 H2].
  rewrite N.eqb_sym. change BSLASH with 92 in H1. rewrite H1, H2. auto.
Qed.
Lemma no_quote_cons c r : no_quote (c :: r) = true -> (c =? 39) = false /\ no_quote r = true.
Proof.
  unfold no_quote. cbn [existsb]. intro H. apply negb_true_iff in H. apply orb_false_iff in H as [H1 H2].
  rewrite N.eqb_sym. change QUOTE with 39 in H1. rewrite H1, H2. auto.
Qed.

(* the content of a single-quoted literal, quotes doubled, no backslash *)
Lemma bq_body dq : forall s acc rest, no_backslash s = true -> dq || no_quote s = true ->
  bq_run dq (BS1 acc) (dbl QUOTE s ++ rest) = bq_run dq (BS1 (rev s ++ acc)) rest.
Proof.
  unfold QUOTE. induction s as [|c r IH]; intros acc rest Hb Hq; [reflexivity|].
  apply no_backslash_cons in Hb as [Hc Hr].
  assert (dq || no_quote r = true) as Hq'.
  { destruct dq; [reflexivity|]. cbn [orb] in *. apply no_quote_cons in Hq. tauto. }
  cbn [dbl]. destruct (c =? 39) eqn:Ec.
  - destruct dq; [|cbn [orb] in Hq; apply no_quote_cons in Hq as [Hq _]; congruence].
    apply N.eqb_eq in Ec. subst c. cbn [app]. cbn [bq_run bq_step]. unfold s1_step.
    replace (39 =? 39) with true by reflexivity. cbn [app]. cbn [bq_run bq_step].
    replace (39 =? 39) with true by reflexivity. cbn [app].
    rewrite IH by assumption. cbn [rev]. rewrite <- app_assoc. reflexivity.
  - cbn [app]. cbn [bq_run bq_step]. unfold s1_step. rewrite Ec, Hc. cbn [app].
    rewrite IH by assumption. cbn [rev]. rewrite <- app_assoc. reflexivity.
Qed.

Lemma base_step_quote : base_step L0 39 = (BOpen1, []).
Proof. reflexivity. Qed.

(* leaving a finished string on a character that is not a quote *)
Lemma bq_after_string dq t suf : starts_with 39 suf = false ->
  (forall c, (c =? 39) = false -> bq_step dq t c = after_string (match bq_finish t with [x] => x | _ => TUnterminated end) c) ->
  (exists x, bq_finish t = [x]) ->
  bq_run dq t suf = bq_finish t ++ bq_run dq (BBase L0) suf.
Proof.
  intros Hs Hstep [x Hx]. destruct suf as [|c r]; [cbn [bq_run]; rewrite app_nil_r; reflexivity|].
  cbn [starts_with] in Hs. cbn [bq_run]. rewrite (Hstep c Hs). rewrite Hx. unfold after_string.
  cbn [bq_run bq_step]. destruct (base_step L0 c) as [s' out]. reflexivity.
Qed.

Lemma bq_quoted dq s suf : bq_fits dq s = true -> starts_with 39 suf = false ->
  bq_run dq (BBase L0) (QUOTE :: dbl QUOTE s ++ [QUOTE] ++ suf) = TString s :: bq_run dq (BBase L0) suf.
Proof.
  unfold bq_fits. intros Hf Hs. apply andb_true_iff in Hf as [Hf Hq]. apply andb_true_iff in Hf as [Hb Hst].
  apply negb_true_iff in Hst. unfold QUOTE.
  cbn [bq_run]. change (bq_step dq (BBase L0) 39) with (base_step L0 39). rewrite base_step_quote. cbn [app].
  destruct s as [|c r].
  - cbn [dbl app]. cbn [bq_run bq_step]. replace (39 =? 39) with true by reflexivity. cbn [app].
    rewrite (bq_after_string dq BOpen2 suf Hs); [reflexivity | | eexists; reflexivity].
    intros c Hc. cbn [bq_step]. rewrite Hc. reflexivity.
  - cbn [starts_with] in Hst. apply no_backslash_cons in Hb as [Hc Hr].
    assert (dq || no_quote r = true) as Hq'.
    { destruct dq; [reflexivity|]. cbn [orb] in *. apply no_quote_cons in Hq. tauto. }
    cbn [dbl]. rewrite Hst. cbn [app]. cbn [bq_run bq_step]. rewrite Hst. unfold s1_step. rewrite Hst, Hc. cbn [app].
    change (dbl 39 r) with (dbl QUOTE r). rewrite (bq_body dq r [c] (39 :: suf) Hr Hq').
    cbn [bq_run bq_step]. unfold s1_step. replace (39 =? 39) with true by reflexivity. cbn [app].
    rewrite (bq_after_string dq (BS1Q (rev r ++ [c])) suf Hs).
    + cbn [bq_finish app]. rewrite rev_app_distr, rev_involutive. reflexivity.
    + intros x Hx. cbn [bq_step bq_finish]. rewrite Hx. reflexivity.
    + eexists; reflexivity.
Qed.

(* the standard emission, read by BigQuery, in any context: one string token with the value -- for the values that fit *)
Theorem bq_literal_in_context dq s pre suf :
  bq_fits dq s = true -> bq_closed_prefix dq pre = true -> starts_with 39 suf = false ->
  bq_lex dq (pre ++ emit_literal_string false s ++ suf) = bq_lex dq pre ++ TString s :: bq_lex dq suf.
Proof.
  intros Hf Hp Hs. rewrite emit_literal_string_eq. unfold prep_literal.
  rewrite (bq_lex_closed_prefix dq pre Hp). unfold bq_lex at 1. rewrite bq_run_app.
  unfold bq_closed_prefix in Hp. destruct (bq_state_after dq (BBase L0) pre) as [st| | | | | | |]; try discriminate.
  destruct st; try discriminate.
  f_equal. change ((QUOTE :: dbl QUOTE s ++ [QUOTE]) ++ suf) with (QUOTE :: (dbl QUOTE s ++ [QUOTE]) ++ suf).
  rewrite <- app_assoc. apply bq_quoted; assumption.
Qed.

Theorem bq_literal_roundtrip dq s : bq_fits dq s = true -> bq_lex dq (emit_literal_string false s) = [TString s].
Proof.
  intro H. pose proof (bq_literal_in_context dq s [] [] H eq_refl eq_refl) as E.
  cbn [app] in E. rewrite app_nil_r in E. exact E.
Qed.

(* plain strings fit both descriptions of BigQuery *)
Lemma plain_fits dq s : plain_chars s = true -> bq_fits dq s = true.
Proof.
  unfold plain_chars, bq_fits, no_backslash, no_quote. intro H. apply negb_true_iff in H.
  assert (existsb (N.eqb BSLASH) s = false /\ existsb (N.eqb QUOTE) s = false) as [A B].
  { induction s as [|c r IH]; [split; reflexivity|]. cbn [existsb] in *. apply orb_false_iff in H as [H1 H2].
    apply orb_false_iff in H1 as [H1 H1']. destruct (IH H2) as [A B].
    rewrite A, B. rewrite (N.eqb_sym BSLASH), (N.eqb_sym QUOTE). change BSLASH with 92. change QUOTE with 39.
    rewrite H1, H1'. split; reflexivity. }
  rewrite A, B. cbn [negb andb]. rewrite orb_true_r, andb_true_r.
  destruct s as [|c r]; [reflexivity|]. cbn [starts_with]. cbn [existsb] in B. apply orb_false_iff in B as [B _].
  rewrite N.eqb_sym. change QUOTE with 39 in B. rewrite B. reflexivity.
Qed.

(* ------------------------------------------------------------------ the PROPOSED repair for BigQuery (fixes/F6c-*.diff):
   backslashes doubled, quotes written backslash-quote.  Not what prqlc does today; kept here so that the full-strength
   statement is ready when the repair is adopted. *)

(* sqlparser's Display leaves the prepared text alone: a quote that follows a backslash is printed once *)
Lemma esc_prep_bq : forall s prev, esc QUOTE prev (prep_literal_bq s) = prep_literal_bq s.
Proof.
  unfold QUOTE. induction s as [|c r IH]; intro prev; [reflexivity|].
  cbn [prep_literal_bq]. unfold BSLASH, QUOTE. destruct (c =? 92) eqn:Eb.
  - cbn [esc]. replace (92 =? 39) with false by reflexivity. cbn [esc]. replace (92 =? 39) with false by reflexivity.
    rewrite IH. reflexivity.
  - destruct (c =? 39) eqn:Eq.
    + cbn [esc]. replace (92 =? 39) with false by reflexivity. replace (39 =? 39) with true by reflexivity.
      unfold BSLASH. replace (92 =? 92) with true by reflexivity. rewrite IH. reflexivity.
    + cbn [esc]. rewrite Eq. rewrite IH. reflexivity.
Qed.

Lemma emit_literal_string_bq_eq s : emit_literal_string_bq s = QUOTE :: prep_literal_bq s ++ [QUOTE].
Proof. unfold emit_literal_string_bq, emit_string. rewrite esc_prep_bq. reflexivity. Qed.

Lemma bq_body_repaired dq : forall s acc rest,
  bq_run dq (BS1 acc) (prep_literal_bq s ++ rest) = bq_run dq (BS1 (rev s ++ acc)) rest.
Proof.
  induction s as [|c r IH]; intros acc rest; [reflexivity|].
  cbn [prep_literal_bq]. unfold BSLASH, QUOTE. destruct (c =? 92) eqn:Eb.
  - apply N.eqb_eq in Eb. subst c. cbn [app]. cbn [bq_run bq_step]. unfold s1_step.
    replace (92 =? 39) with false by reflexivity. replace (92 =? 92) with true by reflexivity. cbn [app].
    cbn [bq_run bq_step]. replace (bs_decode bs_sql 92) with [92] by reflexivity. cbn [app].
    rewrite IH. cbn [rev]. rewrite <- app_assoc. reflexivity.
  - destruct (c =? 39) eqn:Eq.
    + apply N.eqb_eq in Eq. subst c. cbn [app]. cbn [bq_run bq_step]. unfold s1_step.
      replace (92 =? 39) with false by reflexivity. replace (92 =? 92) with true by reflexivity. cbn [app].
      cbn [bq_run bq_step]. replace (bs_decode bs_sql 39) with [39] by reflexivity. cbn [app].
      rewrite IH. cbn [rev]. rewrite <- app_assoc. reflexivity.
    + cbn [app]. cbn [bq_run bq_step]. unfold s1_step. rewrite Eq, Eb. cbn [app].
      rewrite IH. cbn [rev]. rewrite <- app_assoc. reflexivity.
Qed.

(* the prepared text never starts with a quote, so the opening quote is never the first of three *)
Lemma bq_open1_repaired dq s rest : s <> [] ->
  bq_run dq BOpen1 (prep_literal_bq s ++ rest) = bq_run dq (BS1 []) (prep_literal_bq s ++ rest).
Proof.
  destruct s as [|c r]; [congruence|]. intros _. cbn [prep_literal_bq]. unfold BSLASH, QUOTE.
  destruct (c =? 92); [|destruct (c =? 39) eqn:Eq]; cbn [app bq_run bq_step];
    try (replace (92 =? 39) with false by reflexivity); try rewrite Eq; reflexivity.
Qed.

Theorem bq_repaired_in_context dq s pre suf :
  bq_closed_prefix dq pre = true -> starts_with 39 suf = false ->
  bq_lex dq (pre ++ emit_literal_string_bq s ++ suf) = bq_lex dq pre ++ TString s :: bq_lex dq suf.
Proof.
  intros Hp Hs. rewrite emit_literal_string_bq_eq.
  rewrite (bq_lex_closed_prefix dq pre Hp). unfold bq_lex at 1. rewrite bq_run_app.
  unfold bq_closed_prefix in Hp. destruct (bq_state_after dq (BBase L0) pre) as [st| | | | | | |]; try discriminate.
  destruct st; try discriminate. f_equal. unfold QUOTE.
  change ((39 :: prep_literal_bq s ++ [39]) ++ suf) with (39 :: (prep_literal_bq s ++ [39]) ++ suf). rewrite <- app_assoc.
  cbn [bq_run]. change (bq_step dq (BBase L0) 39) with (base_step L0 39). rewrite base_step_quote. cbn [app].
  destruct s as [|c r].
  - cbn [prep_literal_bq app]. cbn [bq_run bq_step]. replace (39 =? 39) with true by reflexivity. cbn [app].
    rewrite (bq_after_string dq BOpen2 suf Hs); [reflexivity | | eexists; reflexivity].
    intros c Hc. cbn [bq_step]. rewrite Hc. reflexivity.
  - rewrite bq_open1_repaired by discriminate. rewrite bq_body_repaired. rewrite app_nil_r.
    cbn [app bq_run bq_step]. unfold s1_step. replace (39 =? 39) with true by reflexivity. cbn [app].
    rewrite (bq_after_string dq (BS1Q (rev (c :: r))) suf Hs).
    + cbn [bq_finish app]. rewrite rev_involutive. reflexivity.
    + intros x Hx. cbn [bq_step bq_finish]. rewrite Hx. reflexivity.
    + eexists; reflexivity.
Qed.

(* FULL STRENGTH for BigQuery under the proposed emission, both descriptions of its syntax: EVERY string *)
Theorem bq_repaired_roundtrip dq s : bq_lex dq (emit_literal_string_bq s) = [TString s].
Proof.
  pose proof (bq_repaired_in_context dq s [] [] eq_refl eq_refl) as E.
  cbn [app] in E. rewrite app_nil_r in E. exact E.
Qed.

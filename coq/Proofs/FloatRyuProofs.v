(* Lemmas about Model/FloatRyu.v: the digits chosen for a binary64 lie in its rounding interval, so the emitted text
   reads back (under correct rounding) as the same float; and the text is one number token with exactly the chosen value. *)
From Coq Require Import List NArith ZArith Bool Lia.
From PV Require Import Lib.ListX Model.SqlLex Model.Literal Model.FloatFmt Model.FloatRyu Proofs.FloatFmtProofs.
Import ListNotations.
Local Open Scope N_scope.

Lemma best_sound f v cs c : best f v cs = Some c -> In c cs /\ in_interval f (dec_rat (fst c) (snd c)) = true.
Proof.
  unfold best.
  set (p := fun c0 : N * Z => negb (fst c0 =? 0) && in_interval f (dec_rat (fst c0) (snd c0))).
  assert (forall x, In x (filter p cs) -> In x cs /\ in_interval f (dec_rat (fst x) (snd x)) = true) as K.
  { intros x Hx. apply filter_In in Hx as [Hin Hp]. split; [exact Hin|]. unfold p in Hp. apply andb_true_iff in Hp as [_ Hp]. exact Hp. }
  destruct (filter p cs) as [|c1 [|c2 r]] eqn:E; [discriminate| |].
  - intro H. injection H as <-. apply K. left. reflexivity.
  - intro H.
    destruct (rlt _ _); [injection H as <-; apply K; left; reflexivity|].
    destruct (rlt _ _); [injection H as <-; apply K; right; left; reflexivity|].
    destruct (N.even (fst c1)); injection H as <-; apply K; [left | right; left]; reflexivity.
Qed.

Lemma shortest_from_sound f v p : forall fuel k c, shortest_from fuel f v p k = Some c ->
  in_interval f (dec_rat (fst c) (snd c)) = true.
Proof.
  induction fuel as [|fu IH]; intros k c H; [discriminate|].
  cbn [shortest_from] in H. destruct (best f v (candidates v p k)) as [c'|] eqn:B.
  - injection H as <-. exact (proj2 (best_sound f v _ c' B)).
  - exact (IH (S k) c H).
Qed.

(* the digits printed for a non-zero binary64 denote a decimal inside its rounding interval: every correctly rounding
   reader (SQLite up to its own 4-ulp slack, every IEEE-conforming database) gets the same float back *)
Theorem shortest_in_interval f D x : fst f <> 0 -> shortest f = Some (D, x) -> in_interval f (dec_rat D x) = true.
Proof.
  intros Hz H. unfold shortest in H. apply N.eqb_neq in Hz. rewrite Hz in H.
  exact (shortest_from_sound f _ _ _ _ _ H).
Qed.

Theorem emit_float_ryu_spec m e t : emit_float_ryu m e = Some t ->
  exists f D x, round64 m e = Some f /\ shortest f = Some (D, x) /\
                sql_number_value t = Some (norm_dec D x) /\ (forall d, sql_lex d t = [TNumber t]) /\
                (fst f <> 0 -> in_interval f (dec_rat D x) = true).
Proof.
  unfold emit_float_ryu. destruct (round64 m e) as [f|]; [|discriminate].
  destruct (shortest f) as [[D x]|] eqn:S; [|discriminate]. intro H. injection H as <-.
  exists f, D, x. split; [reflexivity|]. split; [exact S|]. split; [apply emit_float_value|].
  split; [intro d; apply emit_float_one_token|]. intro Hz. exact (shortest_in_interval f D x Hz S).
Qed.

(* Lemmas about Model/FloatRyu.v: the digits chosen for a binary64 lie in its rounding interval, so the emitted text
   reads back (under correct rounding) as the same float; and the text is one number token with exactly the chosen value. *)
From Coq Require Import List NArith ZArith Bool Lia.
From PV Require Import Lib.ListX Model.SqlLex Model.Literal Model.FloatFmt Model.FloatRyu Proofs.FloatFmtProofs.
Import ListNotations.
Local Open Scope N_scope.

Lemma best_sound f v cs c : best f v cs = Some c -> In c cs /\ in_interval f (dec_rat (fst c) (snd c)) = true.
Proof.
  unfold best.
  set (p := fun c0 : N * Z => negb (fst c0 =? 0) && in_interval f (dec_rat (fst c0) (snd c0))).
  assert (forall x, In x (filter p cs) -> In x cs /\ in_interval f (dec_rat (fst x) (snd x)) = true) as K.
  { intros x Hx. apply filter_In in Hx as [Hin Hp]. split; [exact Hin|]. unfold p in Hp. apply andb_true_iff in Hp as [_ Hp]. exact Hp. }
  destruct (filter p cs) as [|c1 [|c2 r]] eqn:E; [discriminate| |].
  - intro H. injection H as <-. apply K. left. reflexivity.
  - intro H.
    destruct (rlt _ _); [injection H as <-; apply K; left; reflexivity|].
    destruct (rlt _ _); [injection H as <-; apply K; right; left; reflexivity|].
    destruct (N.even (fst c1)); injection H as <-; apply K; [left | right; left]; reflexivity.
Qed.

Lemma shortest_from_sound f v p : forall fuel k c, shortest_from fuel f v p k = Some c ->
  in_interval f (dec_rat (fst c) (snd c)) = true.
Proof.
  induction fuel as [|fu IH]; intros k c H; [discriminate|].
  cbn [shortest_from] in H. destruct (best f v (candidates v p k)) as [c'|] eqn:B.
  - injection H as <-. exact (proj2 (best_sound f v _ c' B)).
  - exact (IH (S k) c H).
Qed.

(* the digits printed for a non-zero binary64 denote a decimal inside its rounding interval: every correctly rounding
   reader (SQLite up to its own 4-ulp slack, every IEEE-conforming database) gets the same float back *)
Theorem shortest_in_interval f D x : fst f <> 0 -> shortest f = Some (D, x) -> in_interval f (dec_rat D x) = true.
Proof.
  intros Hz H. unfold shortest in H. apply N.eqb_neq in Hz. rewrite Hz in H.
  exact (shortest_from_sound f _ _ _ _ _ H).
Qed.

Theorem emit_float_ryu_spec m e t : emit_float_ryu m e = Some t ->
  exists f D x, round64 m e = Some f /\ shortest f = Some (D, x) /\
                sql_number_value t = Some (norm_dec D x) /\ (forall d, sql_lex d t = [TNumber t]) /\
                (fst f <> 0 -> in_interval f (dec_rat D x) = true).
Proof.
  unfold emit_float_ryu. destruct (round64 m e) as [f|]; [|discriminate].
  destruct (shortest f) as [[D x]|] eqn:S; [|discriminate]. intro H. injection H as <-.
  exists f, D, x. split; [reflexivity|]. split; [exact S|]. split; [apply emit_float_value|].
  split; [intro d; apply emit_float_one_token|]. intro Hz. exact (shortest_in_interval f D x Hz S).
Qed.

(* ------------------------------------------------------------------ round64 is a nearest-float rounding, ties to even *)
Local Arguments N.eqb : simpl never.
Local Arguments N.leb : simpl never.
Local Arguments N.ltb : simpl never.
Local Arguments N.div : simpl never.
Local Arguments N.mul : simpl never.
Local Arguments N.add : simpl never.
Local Arguments N.sub : simpl never.
Local Arguments N.pow : simpl never.
Local Arguments N.compare : simpl never.

(* |A/B - mant| <= 1/2, over the naturals:  2 * |A - mant * B| <= B ;  exactly one half only with an even mant *)
Definition near_pair (AB : N * N) (mant : N) : Prop :=
  let '(A, B) := AB in
  2 * (A - mant * B) <= B /\ 2 * (mant * B - A) <= B /\
  ((2 * (A - mant * B) = B \/ 2 * (mant * B - A) = B) -> N.even mant = true).

Lemma round_step A B : B <> 0 ->
  let fl := A / B in
  let c := (2 * (A - fl * B) ?= B) in
  near_pair (A, B) (if round_up fl c then fl + 1 else fl).
Proof.
  intros HB fl c. pose proof (N.div_mod' A B) as DM. pose proof (N.mod_lt A B HB) as ML.
  fold fl in DM. set (r := A mod B) in *.
  assert (A - fl * B = r) as Er by lia.
  unfold near_pair. subst c. rewrite Er.
  destruct (2 * r ?= B) eqn:C; unfold round_up.
  - rewrite N.compare_eq_iff in C. destruct (N.odd fl) eqn:O.
    + assert ((fl + 1) * B - A = B - r) as E2 by nia. assert (A - (fl + 1) * B = 0) as E3 by nia.
      rewrite E2, E3. repeat split; try lia. intros _. rewrite N.even_add. rewrite <- N.negb_odd, O. reflexivity.
    + assert (fl * B - A = 0) as E2 by nia. rewrite Er, E2. repeat split; try lia. intros _.
      rewrite <- N.negb_odd, O. reflexivity.
  - rewrite N.compare_lt_iff in C. assert (fl * B - A = 0) as E2 by nia. rewrite Er, E2. repeat split; try lia; try (intros [H|H]; lia).
  - rewrite N.compare_gt_iff in C.
    assert ((fl + 1) * B - A = B - r) as E2 by nia. assert (A - (fl + 1) * B = 0) as E3 by nia.
    rewrite E2, E3. repeat split; try lia; try (intros [H|H]; lia).
Qed.

Lemma dec_rat_den m e : snd (dec_rat m e) <> 0.
Proof. unfold dec_rat. destruct e; cbn [snd]; try discriminate; try (apply N.pow_nonzero; discriminate). Qed.

Lemma scaled_pair_den v q : snd v <> 0 -> snd (scaled_pair v q) <> 0.
Proof.
  destruct v as [n d]. cbn [snd]. intro H. unfold scaled_pair. destruct q; cbn [snd]; try assumption;
    apply N.neq_mul_0; split; try assumption; apply N.pow_nonzero; discriminate.
Qed.

(* what one rounding step at exponent q returns *)
Lemma scaled_near v q fl c : snd v <> 0 -> scaled v q = (fl, c) ->
  near_pair (scaled_pair v q) (if round_up fl c then fl + 1 else fl).
Proof.
  intros Hd H. unfold scaled in H. pose proof (scaled_pair_den v q Hd) as HB.
  destruct (scaled_pair v q) as [A B]. cbn [snd] in HB. injection H as <- <-. apply round_step. exact HB.
Qed.

(* moving a mantissa of 2^53 to 2^52 at the next exponent keeps it near *)
Lemma near_carry v q : snd v <> 0 -> near_pair (scaled_pair v q) P53 -> near_pair (scaled_pair v (q + 1)) P52.
Proof.
  destruct v as [n d]. cbn [snd]. intros Hd H.
  assert (P53 = 2 * P52) as E53 by reflexivity.
  assert (exists A B, scaled_pair (n, d) q = (A, B) /\
          ((scaled_pair (n, d) (q + 1) = (A, 2 * B)) \/ (exists A', A = 2 * A' /\ scaled_pair (n, d) (q + 1) = (A', B)))) as (A & B & E & K).
  { unfold scaled_pair. destruct q as [|p|p].
    - eexists _, _. split; [reflexivity|]. left. cbn [Z.add]. change (Z.to_N 1) with 1. change (Z.to_N 0) with 0.
      rewrite N.pow_0_r, N.pow_1_r. f_equal. lia.
    - eexists _, _. split; [reflexivity|]. left.
      replace (Z.pos p + 1)%Z with (Z.pos (p + 1)) by lia. cbn [Z.to_N].
      replace (N.pos (p + 1)) with (N.succ (N.pos p)) by lia. rewrite N.pow_succ_r'. f_equal. lia.
    - destruct (Pos.eq_dec p 1) as [->|NE].
      + eexists _, _. split; [reflexivity|]. right. exists n. split; [change (2 ^ 1) with 2; lia|].
        change (Z.neg 1 + 1)%Z with 0%Z. cbn [Z.to_N]. rewrite N.pow_0_r. f_equal. lia.
      + eexists _, _. split; [reflexivity|]. right. exists (n * 2 ^ N.pos (p - 1)). split.
        * replace (N.pos p) with (N.succ (N.pos (p - 1))) by lia. rewrite N.pow_succ_r'. lia.
        * replace (Z.neg p + 1)%Z with (Z.neg (p - 1)) by lia. reflexivity. }
  rewrite E in H. unfold near_pair in H. destruct H as (H1 & H2 & H3).
  destruct K as [K|(A' & EA & K)]; rewrite K; unfold near_pair.
  - replace (P52 * (2 * B)) with (P53 * B) by (rewrite E53; lia). repeat split; try lia; try (intros _; reflexivity).
  - subst A. replace (2 * A' - P53 * B) with (2 * (A' - P52 * B)) in * by (rewrite E53; lia).
    replace (P53 * B - 2 * A') with (2 * (P52 * B - A')) in * by (rewrite E53; lia).
    repeat split; try lia; try (intros _; reflexivity).
Qed.

(* ROUND64 IS A NEAREST ROUNDING: the float returned for m * 10^e is within half a unit in its last place of the value
   (exactly half only when its mantissa is even), and its exponent is in the binary64 range *)
Definition canonical (mant : N) (q : Z) : Prop :=
  (P52 <= mant < P53 /\ (MIN_Q <= q <= MAX_Q)%Z) \/ (mant < P52 /\ q = MIN_Q).

Theorem round64_nearest m e mant q : m <> 0 -> round64 m e = Some (mant, q) ->
  near_pair (scaled_pair (dec_rat m e) q) mant /\ canonical mant q.
Proof.
  intros Hm. unfold round64. apply N.eqb_neq in Hm. rewrite Hm.
  set (v := dec_rat m e). pose proof (dec_rat_den m e) as Hd. fold v in Hd.
  set (q0 := (Z.of_N (N.log2 (fst v)) - Z.of_N (N.log2 (snd v)) - 52)%Z).
  (* whichever of the three exponents is picked, the pair is (q', scaled v q') with q' >= MIN_Q *)
  assert (forall qq, exists q', (Z.max qq MIN_Q, scaled v (Z.max qq MIN_Q)) = (q', scaled v q') /\ (MIN_Q <= q')%Z) as PK.
  { intro qq. exists (Z.max qq MIN_Q). split; [reflexivity | lia]. }
  assert (exists q', (let '(q1, (f1, c1)) := (Z.max q0 MIN_Q, scaled v (Z.max q0 MIN_Q)) in
                      if P53 <=? f1 then (Z.max (q1 + 1) MIN_Q, scaled v (Z.max (q1 + 1) MIN_Q))
                      else if (f1 <? P52) && (MIN_Q <? q1)%Z then (Z.max (q1 - 1) MIN_Q, scaled v (Z.max (q1 - 1) MIN_Q))
                      else (q1, (f1, c1))) = (q', scaled v q') /\ (MIN_Q <= q')%Z) as (q' & EP & Hq').
  { destruct (scaled v (Z.max q0 MIN_Q)) as [f1 c1] eqn:S1.
    destruct (P53 <=? f1); [apply PK|]. destruct ((f1 <? P52) && (MIN_Q <? Z.max q0 MIN_Q)%Z); [apply PK|].
    exists (Z.max q0 MIN_Q). rewrite S1. split; [reflexivity | lia]. }
  rewrite EP. destruct (scaled v q') as [fl c] eqn:S.
  destruct (negb (((P52 <=? fl) && (fl <? P53)) || ((q' =? MIN_Q)%Z && (fl <? P52)))) eqn:CAN; [discriminate|].
  apply negb_false_iff in CAN.
  pose proof (scaled_near v q' fl c Hd S) as NP.
  set (mant0 := if round_up fl c then fl + 1 else fl) in *.
  destruct (mant0 =? P53) eqn:C53.
  - apply N.eqb_eq in C53. rewrite C53 in NP.
    destruct (MAX_Q <? q' + 1)%Z eqn:OV; [discriminate|]. intro H. injection H as <- <-.
    split; [exact (near_carry v q' Hd NP)|]. apply Z.ltb_ge in OV. left. split; [split; [lia | reflexivity] | lia].
  - destruct (MAX_Q <? q')%Z eqn:OV; [discriminate|]. intro H. injection H as <- <-.
    split; [exact NP|]. apply Z.ltb_ge in OV. apply N.eqb_neq in C53.
    assert (mant0 = fl \/ mant0 = fl + 1) as Hm0 by (subst mant0; destruct (round_up fl c); auto).
    apply orb_true_iff in CAN as [CAN|CAN]; apply andb_true_iff in CAN as [C1 C2].
    + apply N.leb_le in C1. apply N.ltb_lt in C2. left. split; [lia | lia].
    + apply Z.eqb_eq in C1. apply N.ltb_lt in C2.
      destruct (N.eq_dec mant0 P52) as [E|NE]; [left; rewrite E; split; [split; [lia | reflexivity] | lia] | right; split; [lia | exact C1]].
Qed.

(* C07 -- lemmas about Model/SelectClauses.v: the value-level model of the LIMIT/OFFSET/FETCH/ORDER BY tail of
   translate_select_pipeline refines the presence-level model [limit_model_b] of Model/DialectFeat.v (about which the
   table theorems of Props/C07.v speak), for ALL inputs; consequently a finite table check over the regenerated
   dialect rows decides the clause combinations of every list of take ranges; the emitted quantities are non-negative. *)
From Coq Require Import List ZArith NArith Bool Lia.
From PV Require Import Lib.ListX Model.Checked Model.RangeArith Model.SqlAst Model.DialectFeat Model.SelectClauses
  Proofs.CheckedProofs Proofs.RangeArithProofs Proofs.SqlScopeDialect.
Import ListNotations.
Local Open Scope Z_scope.

Definition nz (n : nat) : bool := match n with O => false | _ => true end.

(* refinement: the clause record has exactly the shape the presence model predicts *)
Theorem shape_refines uf bare nsort dist proj off lim :
  shape (select_clauses uf bare nsort dist proj (off, lim)) =
  limit_model_b uf (is_some bare) (nz nsort) (negb (off =? 0)) (is_some lim).
Proof.
  unfold select_clauses, shape, limit_model_b. cbn [fst snd].
  destruct uf, bare as [b|], lim as [l|], (off =? 0), nsort as [|n]; cbn;
    try (destruct dist; [destruct (first_expr proj)|]); reflexivity.
Qed.

Theorem known_refines uf bare nsort dist proj off lim :
  clauses_known (select_clauses uf bare nsort dist proj (off, lim)) =
  take_known_b uf (nz nsort) (negb (off =? 0)) (is_some lim).
Proof.
  unfold select_clauses, clauses_known, take_known_b. cbn [fst snd].
  destruct uf, bare as [b|], lim as [l|], (off =? 0), nsort as [|n]; cbn;
    try (destruct dist; [destruct (first_expr proj)|]); reflexivity.
Qed.

Lemma clause_uses_refines uf bare nsort dist proj off lim :
  clause_uses (select_clauses uf bare nsort dist proj (off, lim)) =
  take_uses_b uf (is_some bare) (nz nsort) (negb (off =? 0)) (is_some lim).
Proof. unfold clause_uses, take_uses_b. rewrite shape_refines. reflexivity. Qed.

(* the finite table over the dialect rows decides every list of takes, every sort, every projection *)
Theorem select_clauses_supported {F} (uf : F -> bool) (bare : F -> option (list N)) fs allow :
  take_table uf (fun f => is_some (bare f)) fs allow = true ->
  forall d f, In (d, f) fs -> forall nsort dist proj takes c,
    select_limit (uf f) (bare f) nsort dist proj takes = Ret c ->
    (allow && clauses_known c) = false ->
    forallb (supported d) (clause_uses c) = true.
Proof.
  intros Ht d f Hin nsort dist proj takes c Hc Hk.
  unfold select_limit in Hc. apply bind_ret in Hc as ([off lim] & _ & Hc). injection Hc as <-.
  rewrite clause_uses_refines. rewrite known_refines in Hk.
  exact (take_table_sound_b uf (fun f => is_some (bare f)) fs allow Ht d f Hin _ _ _ Hk).
Qed.

(* a witness of the known class makes the unrestricted statement false *)
Lemma select_limit_lit uf bare nsort dist proj r ol :
  take_sql [lit r] = Ret ol -> select_limit uf bare nsort dist proj [lit r] = Ret (select_clauses uf bare nsort dist proj ol).
Proof. unfold select_limit. intros ->. reflexivity. Qed.

(* ------------------------------------------------------------------ quantities *)
Lemma take_sql_nonneg rs off lim : Forall valid rs -> take_sql (map lit rs) = Ret (off, lim) ->
  0 <= off /\ (forall l, lim = Some l -> 0 <= l).
Proof.
  intros V H. unfold take_sql, range_of_ranges in H.
  apply bind_ret in H as (t & Ht & Hlo). apply bind_ret in Ht as (c & Hc & Ht).
  apply fold_ret in Hc.
  assert (Vc : valid c) by (rewrite Hc; apply valid_fold; [exact V | split; exact I]).
  assert (Vt : (match r_start t with Some s => 1 <= s | None => True end) /\
               (match r_start t, r_end t with Some s, Some e => s <= e | None, Some e => 0 <= e | _, None => True end)).
  { destruct Vc as [V1 V2]. destruct (r_start c) as [s|] eqn:Es; destruct (r_end c) as [e|] eqn:Ee;
      try (injection Ht as <-; rewrite Es, Ee; split; try exact I; try lia).
    destruct (Z.ltb_spec e s); injection Ht as <-; cbn [r_start r_end]; [split; [exact I|lia] | rewrite Es, Ee; split; lia]. }
  clear Hc Ht Vc. unfold limit_offset in Hlo.
  apply bind_ret in Hlo as (o & Ho & Hlo). apply bind_ret in Hlo as (l' & Hl & Hlo). injection Hlo as <- <-.
  destruct Vt as [V1 V2].
  destruct (r_start t) as [s|].
  - apply csub_ret in Ho. subst o. split; [lia|]. intros l ->.
    destruct (r_end t) as [e|]; [|discriminate]. apply bind_ret in Hl as (x & Hx & Hl). injection Hl as <-.
    apply csub_ret in Hx. lia.
  - injection Ho as <-. split; [lia|]. intros l ->.
    destruct (r_end t) as [e|]; [|discriminate]. apply bind_ret in Hl as (x & Hx & Hl). injection Hl as <-.
    apply csub_ret in Hx. lia.
Qed.

(* every number the tail emits for takes the resolver lets through (integer literals >= 1) is a non-negative integer:
   LIMIT n, OFFSET n, FETCH FIRST n *)
Theorem select_limit_nonneg uf bare nsort dist proj rs c : Forall valid rs ->
  select_limit uf bare nsort dist proj (map lit rs) = Ret c ->
  (forall z, k_limit c = Some (LNum z) -> 0 <= z) /\ (forall z r, k_offset c = Some (z, r) -> 0 <= z) /\
  (forall z, k_fetch c = Some z -> 0 <= z).
Proof.
  intros V H. unfold select_limit in H. apply bind_ret in H as ([off lim] & Ht & H). injection H as <-.
  destruct (take_sql_nonneg rs off lim V Ht) as [Ho Hl].
  unfold select_clauses. cbn [fst snd k_limit k_offset k_fetch].
  repeat split.
  - intros z. destruct uf, lim as [l|], (off =? 0), bare as [b|]; cbn; try discriminate;
      intro E; injection E as <-; apply Hl; reflexivity.
  - intros z r. destruct uf, lim as [l|], (off =? 0) eqn:E0; cbn; try discriminate; intro E; injection E as <- <-; lia.
  - intros z. destruct uf, lim as [l|]; cbn; try discriminate. intro E; injection E as <-. apply Hl; reflexivity.
Qed.

(* without use_fetch nothing is in the known class *)
Lemma clauses_known_no_fetch bare nsort dist proj takes c :
  select_limit false bare nsort dist proj takes = Ret c -> clauses_known c = false.
Proof.
  unfold select_limit. intro H. apply bind_ret in H as ([off lim] & _ & H). injection H as <-.
  rewrite known_refines. reflexivity.
Qed.

